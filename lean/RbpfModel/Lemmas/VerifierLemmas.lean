/-
  Lemmas relating the verifier model (`Verifier.check`) to the declarative sweep / well-formedness
  spec.  Reusable facts about accepted programs are exported at the end of the file.
-/
import RbpfModel.Model.Verifier
import RbpfModel.Model.WellFormed
namespace Rbpf
open Verifier WF

/-! ### opcode table: the literal `match` of `Verifier.arm` against the class predicates of `WF` -/

theorem forall_bv8 {P : BitVec 8 → Prop} (h : ∀ n : Fin 256, P (BitVec.ofFin n)) : ∀ o, P o := by
  intro o; exact h o.toFin

theorem arm_lddw_iff (o : BitVec 8) : arm o.toNat = .lddw ↔ o = 0x18 := by
  revert o; apply forall_bv8; decide +kernel



theorem supported_eq (o : BitVec 8) : supported o = decide (arm o.toNat ≠ .tailCall ∧ arm o.toNat ≠ .unknown) := by
  revert o; apply forall_bv8; decide +kernel
theorem isStore_eq (o : BitVec 8) : isStore o = decide (arm o.toNat = .store) := by
  revert o; apply forall_bv8; decide +kernel
theorem isXadd_eq (o : BitVec 8) : isXadd o = decide (arm o.toNat = .xadd) := by
  revert o; apply forall_bv8; decide +kernel
theorem isLddw_eq (o : BitVec 8) : isLddw o = decide (arm o.toNat = .lddw) := by
  revert o; apply forall_bv8; decide +kernel
theorem isJump_eq (o : BitVec 8) : isJump o = decide (arm o.toNat = .jump) := by
  revert o; apply forall_bv8; decide +kernel
theorem isCall_eq (o : BitVec 8) : isCall o = decide (arm o.toNat = .call) := by
  revert o; apply forall_bv8; decide +kernel
theorem isEndian_eq (o : BitVec 8) : isEndian o = decide (arm o.toNat = .endian) := by
  revert o; apply forall_bv8; decide +kernel
theorem arm_zero : arm (0 : BitVec 8).toNat = .unknown := by decide

/-! ### `getInsn?` and the sweep -/

theorem getInsn?_isSome_iff {p : Bytes} {i : Nat} : (∃ x, getInsn? p i = some x) ↔ (i + 1) * 8 ≤ p.size := by
  unfold getInsn?; split <;> simp <;> omega

theorem getInsn?_eq_none_iff {p : Bytes} {i : Nat} : getInsn? p i = none ↔ p.size < (i + 1) * 8 := by
  unfold getInsn?; split <;> simp <;> omega

theorem getInsn?_some_le {p : Bytes} {i : Nat} {x} (h : getInsn? p i = some x) : (i + 1) * 8 ≤ p.size :=
  getInsn?_isSome_iff.1 ⟨x, h⟩

def sweepEnd (p : Bytes) (pc : Nat) : Nat :=
  if pc * 8 < p.size then
    match getInsn? p pc with
    | some i => sweepEnd p (pc + (if i.opc = 0x18 then 2 else 1))
    | none => pc + 1
  else pc
termination_by p.size - pc * 8
decreasing_by split <;> omega

/-- every element of the sweep is a whole slot at or after the starting point -/
theorem mem_sweepFrom_bounds {p : Bytes} {pc i : Nat} (h : i ∈ sweepFrom p pc) :
    pc ≤ i ∧ (i + 1) * 8 ≤ p.size := by
  fun_induction sweepFrom p pc with
  | case1 pc hlt x hx ih =>
    simp only [dite_eq_ite] at ih
    rcases List.mem_cons.1 h with rfl | h
    · exact ⟨Nat.le_refl _, getInsn?_some_le hx⟩
    · have := ih h; split at this <;> omega
  | case2 => simp at h
  | case3 => simp at h

theorem sweepFrom_head {p : Bytes} {pc : Nat} (h : (pc + 1) * 8 ≤ p.size) : pc ∈ sweepFrom p pc := by
  obtain ⟨x, hx⟩ := getInsn?_isSome_iff.2 h
  rw [sweepFrom]
  have : pc * 8 < p.size := by omega
  simp [this, hx]

/-- cover: every whole slot from `pc` on is a start or the second half of a wide load -/
theorem sweepFrom_cover {p : Bytes} {pc t : Nat} (hpt : pc ≤ t) (ht : (t + 1) * 8 ≤ p.size) :
    t ∈ sweepFrom p pc ∨ ∃ i ∈ sweepFrom p pc, ∃ x, getInsn? p i = some x ∧ x.opc = 0x18 ∧ t = i + 1 := by
  fun_induction sweepFrom p pc with
  | case1 pc hlt x hx ih =>
    simp only [dite_eq_ite] at ih
    by_cases h1 : t = pc
    · subst h1; simp
    by_cases h18 : x.opc = 0x18
    · by_cases h2 : t = pc + 1
      · right; exact ⟨pc, by simp, x, hx, h18, h2⟩
      · simp only [h18, if_true] at ih ⊢
        rcases ih (by omega) with h | ⟨i, hi, y, hy, hy18, rfl⟩
        · left; simp [h]
        · right; exact ⟨i, by simp [hi], y, hy, hy18, rfl⟩
    · simp only [h18, if_false] at ih ⊢
      rcases ih (by omega) with h | ⟨i, hi, y, hy, hy18, rfl⟩
      · left; simp [h]
      · right; exact ⟨i, by simp [hi], y, hy, hy18, rfl⟩
  | case2 pc hlt hx =>
    have := getInsn?_eq_none_iff.1 hx; omega
  | case3 pc hlt => omega

/-- the sweep ends one step after its last element -/
theorem sweepEnd_of_getLast? {p : Bytes} (h8 : p.size % 8 = 0) {pc l : Nat}
    (h : (sweepFrom p pc).getLast? = some l) :
    ∃ x, getInsn? p l = some x ∧ sweepEnd p pc = l + (if x.opc = 0x18 then 2 else 1) := by
  fun_induction sweepFrom p pc with
  | case1 pc hlt x hx ih =>
    simp only [dite_eq_ite] at ih
    rw [sweepEnd]; simp only [hlt, if_true, hx]
    generalize hn : pc + (if x.opc = 0x18 then 2 else 1) = n at *
    cases hs : sweepFrom p n with
    | nil =>
      simp [hs] at h; subst h
      refine ⟨x, hx, ?_⟩
      rw [sweepEnd]
      rw [sweepFrom] at hs
      by_cases hlt' : n * 8 < p.size
      · have : (n + 1) * 8 ≤ p.size := by omega
        obtain ⟨y, hy⟩ := getInsn?_isSome_iff.2 this
        simp [hlt', hy] at hs
      · simpa [hlt'] using hn.symm
    | cons a as =>
      rw [hs] at h ih
      rw [List.getLast?_cons_cons] at h
      exact ih h
  | case2 => simp at h
  | case3 => simp at h

theorem sweepEnd_ge (p : Bytes) (pc : Nat) : p.size ≤ sweepEnd p pc * 8 := by
  fun_induction sweepEnd p pc with
  | case1 pc hlt x hx ih => exact ih
  | case2 pc hlt hx => have := getInsn?_eq_none_iff.1 hx; omega
  | case3 pc hlt => omega

theorem sweepFrom_next {p : Bytes} (h8 : p.size % 8 = 0) {pc i : Nat} {x : Insn}
    (hi : i ∈ sweepFrom p pc) (hx : getInsn? p i = some x) :
    (i + (if x.opc = 0x18 then 2 else 1)) ∈ sweepFrom p pc ∨
      i + (if x.opc = 0x18 then 2 else 1) = sweepEnd p pc := by
  fun_induction sweepFrom p pc with
  | case1 pc hlt y hy ih =>
    simp only [dite_eq_ite] at ih
    rw [sweepEnd]; simp only [hlt, if_true, hy]
    rcases List.mem_cons.1 hi with rfl | hi
    · rw [hy] at hx; cases hx
      generalize i + (if x.opc = 0x18 then 2 else 1) = n
      by_cases hn : n * 8 < p.size
      · left; exact List.mem_cons_of_mem _ (sweepFrom_head (by omega))
      · right; rw [sweepEnd]; simp [hn]
    · rcases ih hi with h | h
      · left; exact List.mem_cons_of_mem _ h
      · right; exact h
  | case2 => simp at hi
  | case3 => simp at hi

/-! ### the loop of `check` against the sweep -/

theorem insnCheck_wide (p : Bytes) (pc : Nat) :
    (insnCheck p pc).2 = match getInsn? p pc with | some x => decide (x.opc = 0x18) | none => false := by
  unfold insnCheck
  cases hx : getInsn? p pc with
  | none => rfl
  | some x =>
    have := arm_lddw_iff x.opc
    simp only
    split <;> (try split) <;> (try split) <;> (try split) <;> simp_all

theorem checkLoop_ok_iff (p : Bytes) (pc : Nat) :
    checkLoop p pc = .ok ↔ (∀ i ∈ sweepFrom p pc, (insnCheck p i).1 = .ok) ∧ sweepEnd p pc = p.size / 8 := by
  fun_induction sweepFrom p pc with
  | case1 pc hlt x hx ih =>
    rw [checkLoop, sweepEnd]
    have hw := insnCheck_wide p pc
    rw [hx] at hw
    rcases hic : insnCheck p pc with ⟨r, w⟩
    rw [hic] at hw
    simp only at hw
    subst hw
    simp only [dite_eq_ite] at ih
    cases r <;> simp [hlt, hx, hic]
    simpa using ih
  | case2 pc hlt hx =>
    rw [checkLoop, sweepEnd]
    have := getInsn?_eq_none_iff.1 hx
    simp [hlt, hx, insnCheck]
    omega
  | case3 pc hlt =>
    rw [checkLoop, sweepEnd]
    simp [hlt]

/-! ### one instruction: `insnCheck` against `WF.InsnOk` -/

theorem checkRegisters_ok_iff (x : Insn) (b : Bool) :
    checkRegisters x b = .ok ↔ x.src.toNat ≤ 10 ∧ (x.dst.toNat ≤ 9 ∨ (x.dst.toNat = 10 ∧ b = true)) := by
  unfold checkRegisters
  by_cases h1 : x.src.toNat > 10 <;> by_cases h2 : x.dst.toNat ≤ 9 <;> by_cases h3 : x.dst.toNat = 10 <;>
    cases b <;> simp [h1, h2, h3] <;> omega

theorem checkTarget_ok_iff (p : Bytes) (d : Int) :
    checkTarget p d = .ok ↔
      0 ≤ d ∧ d.toNat < p.size / 8 ∧ ∃ x, getInsn? p d.toNat = some x ∧ x.opc ≠ 0 := by
  unfold checkTarget
  split
  · simp; omega
  · have : 0 ≤ d ∧ d.toNat < p.size / 8 := by omega
    split
    · simp_all
    · rename_i y hy; simp [hy, this]

theorem checkLoadDw_ok_iff (p : Bytes) (pc : Nat) :
    checkLoadDw p pc = .ok ↔ ∃ y, getInsn? p (pc + 1) = some y ∧ y.opc = 0 := by
  unfold checkLoadDw
  split
  · simp_all
  · rename_i y hy; simp [hy]

/-- the characterisation of instruction starts by their opcode byte -/
def StartsChar (p : Bytes) : Prop :=
  ∀ t, t < p.size / 8 → (t ∈ starts p ↔ ∃ x, getInsn? p t = some x ∧ x.opc ≠ 0)

theorem checkTarget_ok_iff_lands {p : Bytes} (hs : StartsChar p) (i : Nat) (d : Int) :
    checkTarget p ((i : Int) + 1 + d) = .ok ↔ landsOnInsn p i d := by
  rw [checkTarget_ok_iff, landsOnInsn]
  constructor
  · rintro ⟨h0, h1, h2⟩; exact ⟨h0, h1, (hs _ h1).2 h2⟩
  · rintro ⟨h0, h1, h2⟩; exact ⟨h0, h1, (hs _ h1).1 h2⟩

theorem insnCheck_ok_iff {p : Bytes} (hs : StartsChar p) (i : Nat) :
    (insnCheck p i).1 = .ok ↔ InsnOk p i := by
  unfold insnCheck InsnOk
  cases hx : getInsn? p i with
  | none => simp
  | some x =>
    simp only [supported_eq, isStore_eq, isXadd_eq, isLddw_eq, isJump_eq, isCall_eq, isEndian_eq]
    generalize arm x.opc.toNat = a
    cases a
    case plain => simp [checkRegisters_ok_iff]
    case lddw =>
      cases hy : getInsn? p (i + 1) with
      | none => simp [checkLoadDw, hy]
      | some y =>
        by_cases h0 : y.opc = 0 <;> simp_all [checkLoadDw, checkRegisters_ok_iff]
    case store => simp [checkRegisters_ok_iff]
    case xadd => by_cases h0 : x.imm = 0 <;> simp_all [checkRegisters_ok_iff]
    case endian =>
      by_cases h0 : x.imm = 16 ∨ x.imm = 32 ∨ x.imm = 64 <;> simp_all [checkRegisters_ok_iff]
    case jump =>
      have := checkTarget_ok_iff_lands hs i x.off.toInt
      unfold checkJmpOffset
      by_cases h1 : x.off = -1
      · simp_all
      · cases hc : checkTarget p ((i : Int) + 1 + x.off.toInt) <;>
          simp_all [checkRegisters_ok_iff]
    case call =>
      have := checkTarget_ok_iff_lands hs i x.imm.toInt
      by_cases h0 : x.src = 0
      · simp_all [checkRegisters_ok_iff]
      · by_cases h1 : x.src = 1
        · cases hc : checkTarget p ((i : Int) + 1 + x.imm.toInt) <;>
            simp_all [checkRegisters_ok_iff]
        · simp_all
    case tailCall => simp
    case exit => simp [checkRegisters_ok_iff]
    case unknown => simp

/-! ### starts are exactly the non-zero-opcode slots -/

/-- what both `insnCheck = ok` and `WF.InsnOk` give at a start: a non-zero opcode, and for a wide
    load a following slot with opcode 0 -/
def StartsBasic (p : Bytes) : Prop :=
  ∀ i ∈ starts p, ∀ x, getInsn? p i = some x →
    x.opc ≠ 0 ∧ (x.opc = 0x18 → ∃ y, getInsn? p (i + 1) = some y ∧ y.opc = 0)

theorem startsChar_of_basic {p : Bytes} (hb : StartsBasic p) : StartsChar p := by
  intro t ht
  have hle : (t + 1) * 8 ≤ p.size := by omega
  obtain ⟨x, hx⟩ := getInsn?_isSome_iff.2 hle
  constructor
  · intro hmem; exact ⟨x, hx, (hb t hmem x hx).1⟩
  · rintro ⟨x', hx', hne⟩
    rcases sweepFrom_cover (pc := 0) (Nat.zero_le t) hle with h | ⟨i, hi, y, hy, hy18, rfl⟩
    · exact h
    · obtain ⟨z, hz, hz0⟩ := (hb i hi y hy).2 hy18
      rw [hz] at hx'; cases hx'; exact absurd hz0 hne

theorem insnCheck_ok_basic {p : Bytes} {i : Nat} {x : Insn} (h : (insnCheck p i).1 = .ok)
    (hx : getInsn? p i = some x) :
    x.opc ≠ 0 ∧ (x.opc = 0x18 → ∃ y, getInsn? p (i + 1) = some y ∧ y.opc = 0) := by
  unfold insnCheck at h
  simp only [hx] at h
  constructor
  · intro h0
    rw [h0, arm_zero] at h
    simp at h
  · intro h18
    rw [(arm_lddw_iff x.opc).2 h18] at h
    rw [← checkLoadDw_ok_iff]
    cases hc : checkLoadDw p i <;> simp_all

theorem insnOk_basic {p : Bytes} {i : Nat} {x : Insn} (h : InsnOk p i)
    (hx : getInsn? p i = some x) :
    x.opc ≠ 0 ∧ (x.opc = 0x18 → ∃ y, getInsn? p (i + 1) = some y ∧ y.opc = 0) := by
  unfold InsnOk at h
  simp only [hx] at h
  obtain ⟨hsup, -, -, hld, -⟩ := h
  constructor
  · intro h0
    rw [h0] at hsup
    exact absurd hsup (by decide)
  · intro h18
    have := hld (by simp [isLddw, h18])
    cases hy : getInsn? p (i + 1) with
    | none => simp [hy] at this
    | some y => simp only [hy] at this; exact ⟨y, rfl, this⟩

/-! ### `check_prog_len` and the last instruction -/

theorem checkProgLen_ok_iff (p : Bytes) :
    checkProgLen p = .ok ↔
      p.size % 8 = 0 ∧ 0 < p.size ∧ p.size ≤ 8 * 1000000 ∧
        ∃ x, getInsn? p (p.size / 8 - 1) = some x ∧ (x.opc = 0x95 ∨ x.opc = 0x05) := by
  unfold checkProgLen
  by_cases h1 : p.size % 8 ≠ 0
  · simp [h1]
  by_cases h2 : p.size > 8 * 1000000
  · simp [h2]; omega
  by_cases h3 : p.size = 0
  · simp [h3]
  have h4 : p.size % 8 = 0 ∧ 0 < p.size ∧ p.size ≤ 8 * 1000000 := by omega
  simp only [h1, h2, h3, if_false]
  cases hx : getInsn? p (p.size / 8 - 1) with
  | none => simp
  | some x =>
    by_cases h5 : x.opc = 0x95 <;> by_cases h6 : x.opc = 0x05 <;> simp_all

theorem check_ok_iff_parts (p : Bytes) :
    check p = .ok ↔ checkProgLen p = .ok ∧ checkLoop p 0 = .ok := by
  unfold check
  cases checkProgLen p <;> simp

theorem starts_ne_nil {p : Bytes} (h0 : 8 ≤ p.size) : 0 ∈ starts p :=
  sweepFrom_head (by omega)

/-- under the basic rules, a sweep that ends at `nSlots` and a last slot with a non-zero opcode make
    the last slot the last start -/
theorem getLast?_starts {p : Bytes} (h8 : p.size % 8 = 0) (h0 : 0 < p.size) (hb : StartsBasic p)
    (hend : sweepEnd p 0 = p.size / 8)
    (hlast : ∃ x, getInsn? p (p.size / 8 - 1) = some x ∧ x.opc ≠ 0) :
    (starts p).getLast? = some (p.size / 8 - 1) := by
  have hmem : 0 ∈ starts p := starts_ne_nil (by omega)
  cases hl : (starts p).getLast? with
  | none => rw [List.getLast?_eq_none_iff] at hl; rw [hl] at hmem; simp at hmem
  | some l =>
    obtain ⟨x, hx, he⟩ := sweepEnd_of_getLast? h8 (pc := 0) hl
    have hlm : l ∈ starts p := List.mem_of_getLast? hl
    rw [hend] at he
    by_cases h18 : x.opc = 0x18
    · obtain ⟨y, hy, hy0⟩ := (hb l hlm x hx).2 h18
      obtain ⟨z, hz, hz0⟩ := hlast
      simp only [h18, if_true] at he
      have : p.size / 8 - 1 = l + 1 := by omega
      rw [this, hy] at hz; cases hz; exact absurd hy0 hz0
    · simp only [h18, if_false] at he
      congr 1; omega

/-- the spec's `LastOk` pins the end of the sweep and the last start -/
theorem lastOk_end {p : Bytes} (h8 : p.size % 8 = 0) (h : LastOk p) :
    sweepEnd p 0 = p.size / 8 ∧ (starts p).getLast? = some (p.size / 8 - 1) ∧
      ∃ x, getInsn? p (p.size / 8 - 1) = some x ∧ (x.opc = 0x95 ∨ x.opc = 0x05) := by
  unfold LastOk at h
  cases hl : (starts p).getLast? with
  | none => simp [hl] at h
  | some l =>
    simp only [hl] at h
    obtain ⟨x, hx, he⟩ := sweepEnd_of_getLast? h8 (pc := 0) hl
    simp only [hx] at h
    have h18 : x.opc ≠ 0x18 := by
      rcases h with h | h <;> rw [h] <;> decide
    simp only [h18, if_false] at he
    have hlm : l ∈ starts p := List.mem_of_getLast? hl
    have hb := (mem_sweepFrom_bounds hlm).2
    have hge := sweepEnd_ge p 0
    have hl1 : l = p.size / 8 - 1 := by omega
    refine ⟨by omega, by rw [hl1], ?_⟩
    rw [← hl1]; exact ⟨x, hx, h⟩

/-! ### no panics -/

theorem checkRegisters_ne_panic (x : Insn) (b : Bool) : checkRegisters x b ≠ .panic := by
  unfold checkRegisters
  repeat' split
  all_goals simp

theorem checkTarget_ne_panic (p : Bytes) (d : Int) : checkTarget p d ≠ .panic := by
  unfold checkTarget
  split
  · simp
  · split
    · rename_i hn; have := getInsn?_eq_none_iff.1 hn; omega
    · split <;> simp

theorem checkLoadDw_ne_panic {p : Bytes} {pc : Nat} (h : (pc + 2) * 8 ≤ p.size) :
    checkLoadDw p pc ≠ .panic := by
  unfold checkLoadDw
  split
  · rename_i hn; have := getInsn?_eq_none_iff.1 hn; omega
  · split <;> simp

theorem insnCheck_ne_panic {p : Bytes} (h8 : p.size % 8 = 0)
    (hlast : ∀ x, getInsn? p (p.size / 8 - 1) = some x → x.opc ≠ 0x18) {pc : Nat}
    (hlt : pc * 8 < p.size) : (insnCheck p pc).1 ≠ .panic := by
  obtain ⟨x, hx⟩ := getInsn?_isSome_iff.2 (show (pc + 1) * 8 ≤ p.size by omega)
  unfold insnCheck
  simp only [hx]
  have h18 := arm_lddw_iff x.opc
  have hr := checkRegisters_ne_panic x
  generalize arm x.opc.toNat = a at *
  cases a <;> simp only
  case lddw =>
    have hne : pc ≠ p.size / 8 - 1 := by
      intro he; rw [← he] at hlast; exact hlast x hx (h18.1 rfl)
    have := checkLoadDw_ne_panic (p := p) (pc := pc) (by omega)
    cases hc : checkLoadDw p pc <;> simp_all
  case jump =>
    have : checkJmpOffset p pc x ≠ .panic := by
      unfold checkJmpOffset; split
      · simp
      · exact checkTarget_ne_panic _ _
    cases hc : checkJmpOffset p pc x <;> simp_all
  case call =>
    have := checkTarget_ne_panic p ((pc : Int) + 1 + x.imm.toInt)
    by_cases h0 : x.src = 0
    · simp_all
    · by_cases h1 : x.src = 1
      · cases hc : checkTarget p ((pc : Int) + 1 + x.imm.toInt) <;> simp_all
      · simp_all
  all_goals (try split) <;> simp_all

theorem checkLoop_ne_panic {p : Bytes} (h8 : p.size % 8 = 0)
    (hlast : ∀ x, getInsn? p (p.size / 8 - 1) = some x → x.opc ≠ 0x18) (pc : Nat) :
    checkLoop p pc ≠ .panic := by
  fun_induction checkLoop p pc with
  | case1 pc hlt wide hic ih => exact ih
  | case2 pc hlt r w hne hic =>
    have := insnCheck_ne_panic h8 hlast hlt
    rw [hic] at this; exact this
  | case3 pc hlt hne => simp
  | case4 pc hlt he => simp

theorem checkProgLen_ne_panic (p : Bytes) : checkProgLen p ≠ .panic := by
  unfold checkProgLen
  split
  · simp
  split
  · simp
  split
  · simp
  split
  · rename_i hn; have := getInsn?_eq_none_iff.1 hn; omega
  · split <;> simp

/-! ### accepted programs: exported facts -/

theorem check_ok_loop {p : Bytes} (h : check p = .ok) :
    (∀ i ∈ starts p, (insnCheck p i).1 = .ok) ∧ sweepEnd p 0 = p.size / 8 :=
  (checkLoop_ok_iff p 0).1 ((check_ok_iff_parts p).1 h).2

/-- accepted ⇒ length facts -/
theorem check_ok_len {p : Bytes} (h : check p = .ok) :
    p.size % 8 = 0 ∧ 0 < p.size ∧ p.size ≤ 8 * 1000000 := by
  obtain ⟨a, b, c, -⟩ := (checkProgLen_ok_iff p).1 ((check_ok_iff_parts p).1 h).1
  exact ⟨a, b, c⟩

/-- accepted ⇒ every instruction start passes the per-instruction check -/
theorem check_ok_insn {p : Bytes} (h : check p = .ok) :
    ∀ i ∈ starts p, (insnCheck p i).1 = .ok :=
  (check_ok_loop h).1

/-- every start is a slot inside the program (any `p`) -/
theorem starts_lt {p : Bytes} : ∀ i ∈ starts p, i * 8 < p.size := by
  intro i hi
  have := (mem_sweepFrom_bounds hi).2
  omega

theorem check_ok_basic {p : Bytes} (h : check p = .ok) : StartsBasic p :=
  fun i hi _ hx => insnCheck_ok_basic (check_ok_insn h i hi) hx

/-- accepted ⇒ the instruction after a start is a start or the end of the program -/
theorem next_start {p : Bytes} (h : check p = .ok) :
    ∀ i ∈ starts p, ∀ x, getInsn? p i = some x →
      let n := i + (if x.opc = 0x18 then 2 else 1)
      n ∈ starts p ∨ n = p.size / 8 := by
  intro i hi x hx
  have := sweepFrom_next (check_ok_len h).1 hi hx
  rw [(check_ok_loop h).2] at this
  exact this

/-- accepted ⇒ the last slot holds an `exit` or `ja` and is itself a start -/
theorem check_ok_last {p : Bytes} (h : check p = .ok) :
    (p.size / 8 - 1) ∈ starts p ∧
      ∃ x, getInsn? p (p.size / 8 - 1) = some x ∧ (x.opc = 0x95 ∨ x.opc = 0x05) := by
  obtain ⟨h8, h0, -, x, hx, hop⟩ := (checkProgLen_ok_iff p).1 ((check_ok_iff_parts p).1 h).1
  have hne : x.opc ≠ 0 := by rcases hop with h | h <;> rw [h] <;> decide
  exact ⟨List.mem_of_getLast? (getLast?_starts h8 h0 (check_ok_basic h) (check_ok_loop h).2 ⟨x, hx, hne⟩),
    x, hx, hop⟩

/-- under acceptance, a slot index `t < nSlots` is a start iff its opcode is non-zero -/
theorem start_iff_opc_ne_zero {p : Bytes} (h : check p = .ok) (t : Nat) (ht : t < p.size / 8) :
    t ∈ starts p ↔ ∃ x, getInsn? p t = some x ∧ x.opc ≠ 0 :=
  startsChar_of_basic (check_ok_basic h) t ht

/-! ### the two directions of C06 -/

theorem wellFormed_of_check_ok {p : Bytes} (h : check p = .ok) : WellFormed p := by
  obtain ⟨h8, h0, hmax, x, hx, hop⟩ := (checkProgLen_ok_iff p).1 ((check_ok_iff_parts p).1 h).1
  have hchar := startsChar_of_basic (check_ok_basic h)
  refine ⟨h8, h0, hmax, fun i hi => (insnCheck_ok_iff hchar i).1 (check_ok_insn h i hi), ?_⟩
  have hne : x.opc ≠ 0 := by rcases hop with h | h <;> rw [h] <;> decide
  have hl := getLast?_starts h8 h0 (check_ok_basic h) (check_ok_loop h).2 ⟨x, hx, hne⟩
  unfold LastOk
  simp only [hl, hx]
  exact hop

theorem check_ok_of_wellFormed {p : Bytes} (h : WellFormed p) : check p = .ok := by
  obtain ⟨h8, h0, hmax, hins, hlast⟩ := h
  have hb : StartsBasic p := fun i hi _ hx => insnOk_basic (hins i hi) hx
  have hchar := startsChar_of_basic hb
  obtain ⟨hend, -, hx⟩ := lastOk_end h8 hlast
  rw [check_ok_iff_parts]
  refine ⟨(checkProgLen_ok_iff p).2 ⟨h8, h0, hmax, hx⟩, (checkLoop_ok_iff p 0).2 ⟨?_, hend⟩⟩
  intro i hi
  exact (insnCheck_ok_iff hchar i).2 (hins i hi)

theorem check_ne_panic (p : Bytes) : check p ≠ .panic := by
  unfold check
  cases hc : checkProgLen p with
  | ok =>
    obtain ⟨h8, -, -, x, hx, hop⟩ := (checkProgLen_ok_iff p).1 hc
    refine checkLoop_ne_panic h8 ?_ 0
    intro y hy; rw [hx] at hy; cases hy
    rcases hop with h | h <;> rw [h] <;> decide
  | err => simp
  | panic => exact absurd hc (checkProgLen_ne_panic p)

end Rbpf
