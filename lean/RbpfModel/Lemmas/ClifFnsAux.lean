/- Lemmas for Props/ClifFnsSrc.lean: the helper functions and straight-line arms of src/cranelift.rs as translated (Generated/ClifFns.lean) against Model/ClifAst.lean. -/
import RbpfModel.Generated.ClifFns
namespace Rbpf.Generated.Clif
open Rbpf Rbpf.ClifAst

theorem insnImm64_eq (i : Insn) : insnImm64Src i = insnImm64 i := rfl
theorem insnImm32_eq (i : Insn) : insnImm32Src i = insnImm32 i := rfl
theorem insnDst_eq (i : Insn) : insnDstSrc i = insnDst i := rfl
theorem insnSrc_eq (i : Insn) : insnSrcSrc i = insnSrc i := rfl
theorem insnDst32_eq (i : Insn) : insnDst32Src i = insnDst32 i := rfl
theorem insnSrc32_eq (i : Insn) : insnSrc32Src i = insnSrc32 i := rfl
theorem setDst_eq (i : Insn) (v : Arg) : setDstSrc i v = setDst i v := rfl
theorem setDst32_eq (i : Insn) (v : Arg) : setDst32Src i v = setDst32 i v := rfl
theorem insertBoundsCheck_eq (ty : Ty) (base : Arg) (offset : BitVec 16) : insertBoundsCheckSrc ty base offset = insertBoundsCheck ty base offset := rfl
theorem regLoad_eq (ty : Ty) (base : Arg) (offset : BitVec 16) : regLoadSrc ty base offset = regLoad ty base offset := rfl
theorem regStore_eq (ty : Ty) (base : Arg) (offset : BitVec 16) (v : Arg) : regStoreSrc ty base offset v = regStore ty base offset v := rfl
theorem regAtomicAdd_eq (ty : Ty) (base : Arg) (offset : BitVec 16) (v : Arg) : regAtomicAddSrc ty base offset v = regAtomicAdd ty base offset v := rfl

/-! one lemma per straight-line opcode: with the opcode a literal both `match`es reduce.  For the arms the source shares between several
    opcodes (`ldabs`/`ldind`, `ldx`, `st`/`stx`, `le`/`be`: an inner `match` on the opcode where the model computes `sizeTy`) the inner match
    is evaluated by `simp` after both sides have been brought to the shared arm. -/

section
variable {helpers : Nat → Bool} {p : Bytes} {pc : Nat} {opc dstb srcb : BitVec 8} {off : BitVec 16} {imm : BitVec 32}

theorem sa_4 (h : opc.toNat = 4) :
    straightArmSrc ⟨opc, dstb, srcb, off, imm⟩ = some (armB helpers p pc ⟨opc, dstb, srcb, off, imm⟩) := by
  obtain rfl : opc = 4 := BitVec.eq_of_toNat_eq h; rfl
theorem sa_7 (h : opc.toNat = 7) :
    straightArmSrc ⟨opc, dstb, srcb, off, imm⟩ = some (armB helpers p pc ⟨opc, dstb, srcb, off, imm⟩) := by
  obtain rfl : opc = 7 := BitVec.eq_of_toNat_eq h; rfl
theorem sa_12 (h : opc.toNat = 12) :
    straightArmSrc ⟨opc, dstb, srcb, off, imm⟩ = some (armB helpers p pc ⟨opc, dstb, srcb, off, imm⟩) := by
  obtain rfl : opc = 12 := BitVec.eq_of_toNat_eq h; rfl
theorem sa_15 (h : opc.toNat = 15) :
    straightArmSrc ⟨opc, dstb, srcb, off, imm⟩ = some (armB helpers p pc ⟨opc, dstb, srcb, off, imm⟩) := by
  obtain rfl : opc = 15 := BitVec.eq_of_toNat_eq h; rfl
theorem sa_20 (h : opc.toNat = 20) :
    straightArmSrc ⟨opc, dstb, srcb, off, imm⟩ = some (armB helpers p pc ⟨opc, dstb, srcb, off, imm⟩) := by
  obtain rfl : opc = 20 := BitVec.eq_of_toNat_eq h; rfl
theorem sa_23 (h : opc.toNat = 23) :
    straightArmSrc ⟨opc, dstb, srcb, off, imm⟩ = some (armB helpers p pc ⟨opc, dstb, srcb, off, imm⟩) := by
  obtain rfl : opc = 23 := BitVec.eq_of_toNat_eq h; rfl
theorem sa_28 (h : opc.toNat = 28) :
    straightArmSrc ⟨opc, dstb, srcb, off, imm⟩ = some (armB helpers p pc ⟨opc, dstb, srcb, off, imm⟩) := by
  obtain rfl : opc = 28 := BitVec.eq_of_toNat_eq h; rfl
theorem sa_31 (h : opc.toNat = 31) :
    straightArmSrc ⟨opc, dstb, srcb, off, imm⟩ = some (armB helpers p pc ⟨opc, dstb, srcb, off, imm⟩) := by
  obtain rfl : opc = 31 := BitVec.eq_of_toNat_eq h; rfl
theorem sa_32 (h : opc.toNat = 32) :
    straightArmSrc ⟨opc, dstb, srcb, off, imm⟩ = some (armB helpers p pc ⟨opc, dstb, srcb, off, imm⟩) := by
  obtain rfl : opc = 32 := BitVec.eq_of_toNat_eq h
  have e : armB helpers p pc ⟨32, dstb, srcb, off, imm⟩ = ldAbsInd ⟨32, dstb, srcb, off, imm⟩ := by rfl
  rw [e]
  conv => lhs; whnf
  refine congrArg some ?_
  simp only [BitVec.reduceToNat, pure_bind, ldAbsInd, regLoad_eq, show sizeTy 32 = Ty.i32 from rfl, ↓reduceIte, Nat.reduceAnd,
    bne_iff_ne, ne_eq, not_true_eq_false, not_false_eq_true, reduceCtorEq]
theorem sa_36 (h : opc.toNat = 36) :
    straightArmSrc ⟨opc, dstb, srcb, off, imm⟩ = some (armB helpers p pc ⟨opc, dstb, srcb, off, imm⟩) := by
  obtain rfl : opc = 36 := BitVec.eq_of_toNat_eq h; rfl
theorem sa_39 (h : opc.toNat = 39) :
    straightArmSrc ⟨opc, dstb, srcb, off, imm⟩ = some (armB helpers p pc ⟨opc, dstb, srcb, off, imm⟩) := by
  obtain rfl : opc = 39 := BitVec.eq_of_toNat_eq h; rfl
theorem sa_40 (h : opc.toNat = 40) :
    straightArmSrc ⟨opc, dstb, srcb, off, imm⟩ = some (armB helpers p pc ⟨opc, dstb, srcb, off, imm⟩) := by
  obtain rfl : opc = 40 := BitVec.eq_of_toNat_eq h
  have e : armB helpers p pc ⟨40, dstb, srcb, off, imm⟩ = ldAbsInd ⟨40, dstb, srcb, off, imm⟩ := by rfl
  rw [e]
  conv => lhs; whnf
  refine congrArg some ?_
  simp only [BitVec.reduceToNat, pure_bind, ldAbsInd, regLoad_eq, show sizeTy 40 = Ty.i16 from rfl, ↓reduceIte, Nat.reduceAnd,
    bne_iff_ne, ne_eq, not_true_eq_false, not_false_eq_true, reduceCtorEq]
theorem sa_44 (h : opc.toNat = 44) :
    straightArmSrc ⟨opc, dstb, srcb, off, imm⟩ = some (armB helpers p pc ⟨opc, dstb, srcb, off, imm⟩) := by
  obtain rfl : opc = 44 := BitVec.eq_of_toNat_eq h; rfl
theorem sa_47 (h : opc.toNat = 47) :
    straightArmSrc ⟨opc, dstb, srcb, off, imm⟩ = some (armB helpers p pc ⟨opc, dstb, srcb, off, imm⟩) := by
  obtain rfl : opc = 47 := BitVec.eq_of_toNat_eq h; rfl
theorem sa_48 (h : opc.toNat = 48) :
    straightArmSrc ⟨opc, dstb, srcb, off, imm⟩ = some (armB helpers p pc ⟨opc, dstb, srcb, off, imm⟩) := by
  obtain rfl : opc = 48 := BitVec.eq_of_toNat_eq h
  have e : armB helpers p pc ⟨48, dstb, srcb, off, imm⟩ = ldAbsInd ⟨48, dstb, srcb, off, imm⟩ := by rfl
  rw [e]
  conv => lhs; whnf
  refine congrArg some ?_
  simp only [BitVec.reduceToNat, pure_bind, ldAbsInd, regLoad_eq, show sizeTy 48 = Ty.i8 from rfl, ↓reduceIte, Nat.reduceAnd,
    bne_iff_ne, ne_eq, not_true_eq_false, not_false_eq_true, reduceCtorEq]
theorem sa_52 (h : opc.toNat = 52) :
    straightArmSrc ⟨opc, dstb, srcb, off, imm⟩ = some (armB helpers p pc ⟨opc, dstb, srcb, off, imm⟩) := by
  obtain rfl : opc = 52 := BitVec.eq_of_toNat_eq h; rfl
theorem sa_55 (h : opc.toNat = 55) :
    straightArmSrc ⟨opc, dstb, srcb, off, imm⟩ = some (armB helpers p pc ⟨opc, dstb, srcb, off, imm⟩) := by
  obtain rfl : opc = 55 := BitVec.eq_of_toNat_eq h; rfl
theorem sa_56 (h : opc.toNat = 56) :
    straightArmSrc ⟨opc, dstb, srcb, off, imm⟩ = some (armB helpers p pc ⟨opc, dstb, srcb, off, imm⟩) := by
  obtain rfl : opc = 56 := BitVec.eq_of_toNat_eq h
  have e : armB helpers p pc ⟨56, dstb, srcb, off, imm⟩ = ldAbsInd ⟨56, dstb, srcb, off, imm⟩ := by rfl
  rw [e]
  conv => lhs; whnf
  refine congrArg some ?_
  simp only [BitVec.reduceToNat, pure_bind, ldAbsInd, regLoad_eq, show sizeTy 56 = Ty.i64 from rfl, ↓reduceIte, Nat.reduceAnd,
    bne_iff_ne, ne_eq, not_true_eq_false]
theorem sa_60 (h : opc.toNat = 60) :
    straightArmSrc ⟨opc, dstb, srcb, off, imm⟩ = some (armB helpers p pc ⟨opc, dstb, srcb, off, imm⟩) := by
  obtain rfl : opc = 60 := BitVec.eq_of_toNat_eq h; rfl
theorem sa_63 (h : opc.toNat = 63) :
    straightArmSrc ⟨opc, dstb, srcb, off, imm⟩ = some (armB helpers p pc ⟨opc, dstb, srcb, off, imm⟩) := by
  obtain rfl : opc = 63 := BitVec.eq_of_toNat_eq h; rfl
theorem sa_64 (h : opc.toNat = 64) :
    straightArmSrc ⟨opc, dstb, srcb, off, imm⟩ = some (armB helpers p pc ⟨opc, dstb, srcb, off, imm⟩) := by
  obtain rfl : opc = 64 := BitVec.eq_of_toNat_eq h
  have e : armB helpers p pc ⟨64, dstb, srcb, off, imm⟩ = ldAbsInd ⟨64, dstb, srcb, off, imm⟩ := by rfl
  rw [e]
  conv => lhs; whnf
  refine congrArg some ?_
  simp only [BitVec.reduceToNat, pure_bind, ldAbsInd, insnSrc_eq, regLoad_eq, show sizeTy 64 = Ty.i32 from rfl, ↓reduceIte,
    Nat.reduceAnd, bne_iff_ne, ne_eq, not_false_eq_true, reduceCtorEq]
theorem sa_68 (h : opc.toNat = 68) :
    straightArmSrc ⟨opc, dstb, srcb, off, imm⟩ = some (armB helpers p pc ⟨opc, dstb, srcb, off, imm⟩) := by
  obtain rfl : opc = 68 := BitVec.eq_of_toNat_eq h; rfl
theorem sa_71 (h : opc.toNat = 71) :
    straightArmSrc ⟨opc, dstb, srcb, off, imm⟩ = some (armB helpers p pc ⟨opc, dstb, srcb, off, imm⟩) := by
  obtain rfl : opc = 71 := BitVec.eq_of_toNat_eq h; rfl
theorem sa_72 (h : opc.toNat = 72) :
    straightArmSrc ⟨opc, dstb, srcb, off, imm⟩ = some (armB helpers p pc ⟨opc, dstb, srcb, off, imm⟩) := by
  obtain rfl : opc = 72 := BitVec.eq_of_toNat_eq h
  have e : armB helpers p pc ⟨72, dstb, srcb, off, imm⟩ = ldAbsInd ⟨72, dstb, srcb, off, imm⟩ := by rfl
  rw [e]
  conv => lhs; whnf
  refine congrArg some ?_
  simp only [BitVec.reduceToNat, pure_bind, ldAbsInd, insnSrc_eq, regLoad_eq, show sizeTy 72 = Ty.i16 from rfl, ↓reduceIte,
    Nat.reduceAnd, bne_iff_ne, ne_eq, not_false_eq_true, reduceCtorEq]
theorem sa_76 (h : opc.toNat = 76) :
    straightArmSrc ⟨opc, dstb, srcb, off, imm⟩ = some (armB helpers p pc ⟨opc, dstb, srcb, off, imm⟩) := by
  obtain rfl : opc = 76 := BitVec.eq_of_toNat_eq h; rfl
theorem sa_79 (h : opc.toNat = 79) :
    straightArmSrc ⟨opc, dstb, srcb, off, imm⟩ = some (armB helpers p pc ⟨opc, dstb, srcb, off, imm⟩) := by
  obtain rfl : opc = 79 := BitVec.eq_of_toNat_eq h; rfl
theorem sa_80 (h : opc.toNat = 80) :
    straightArmSrc ⟨opc, dstb, srcb, off, imm⟩ = some (armB helpers p pc ⟨opc, dstb, srcb, off, imm⟩) := by
  obtain rfl : opc = 80 := BitVec.eq_of_toNat_eq h
  have e : armB helpers p pc ⟨80, dstb, srcb, off, imm⟩ = ldAbsInd ⟨80, dstb, srcb, off, imm⟩ := by rfl
  rw [e]
  conv => lhs; whnf
  refine congrArg some ?_
  simp only [BitVec.reduceToNat, pure_bind, ldAbsInd, insnSrc_eq, regLoad_eq, show sizeTy 80 = Ty.i8 from rfl, ↓reduceIte,
    Nat.reduceAnd, bne_iff_ne, ne_eq, not_false_eq_true, reduceCtorEq]
theorem sa_84 (h : opc.toNat = 84) :
    straightArmSrc ⟨opc, dstb, srcb, off, imm⟩ = some (armB helpers p pc ⟨opc, dstb, srcb, off, imm⟩) := by
  obtain rfl : opc = 84 := BitVec.eq_of_toNat_eq h; rfl
theorem sa_87 (h : opc.toNat = 87) :
    straightArmSrc ⟨opc, dstb, srcb, off, imm⟩ = some (armB helpers p pc ⟨opc, dstb, srcb, off, imm⟩) := by
  obtain rfl : opc = 87 := BitVec.eq_of_toNat_eq h; rfl
theorem sa_88 (h : opc.toNat = 88) :
    straightArmSrc ⟨opc, dstb, srcb, off, imm⟩ = some (armB helpers p pc ⟨opc, dstb, srcb, off, imm⟩) := by
  obtain rfl : opc = 88 := BitVec.eq_of_toNat_eq h
  have e : armB helpers p pc ⟨88, dstb, srcb, off, imm⟩ = ldAbsInd ⟨88, dstb, srcb, off, imm⟩ := by rfl
  rw [e]
  conv => lhs; whnf
  refine congrArg some ?_
  simp only [BitVec.reduceToNat, pure_bind, ldAbsInd, insnSrc_eq, regLoad_eq, show sizeTy 88 = Ty.i64 from rfl, ↓reduceIte,
    Nat.reduceAnd, bne_iff_ne, ne_eq, not_true_eq_false, not_false_eq_true, reduceCtorEq]
theorem sa_92 (h : opc.toNat = 92) :
    straightArmSrc ⟨opc, dstb, srcb, off, imm⟩ = some (armB helpers p pc ⟨opc, dstb, srcb, off, imm⟩) := by
  obtain rfl : opc = 92 := BitVec.eq_of_toNat_eq h; rfl
theorem sa_95 (h : opc.toNat = 95) :
    straightArmSrc ⟨opc, dstb, srcb, off, imm⟩ = some (armB helpers p pc ⟨opc, dstb, srcb, off, imm⟩) := by
  obtain rfl : opc = 95 := BitVec.eq_of_toNat_eq h; rfl
theorem sa_97 (h : opc.toNat = 97) :
    straightArmSrc ⟨opc, dstb, srcb, off, imm⟩ = some (armB helpers p pc ⟨opc, dstb, srcb, off, imm⟩) := by
  obtain rfl : opc = 97 := BitVec.eq_of_toNat_eq h
  have e : armB helpers p pc ⟨97, dstb, srcb, off, imm⟩ = ldxReg ⟨97, dstb, srcb, off, imm⟩ := by rfl
  rw [e]
  conv => lhs; whnf
  refine congrArg some ?_
  simp only [BitVec.reduceToNat, pure_bind, ldxReg, insnSrc_eq, regLoad_eq, setDst_eq, show sizeTy 97 = Ty.i32 from rfl,
    ↓reduceIte, ne_eq, not_false_eq_true, reduceCtorEq]
theorem sa_98 (h : opc.toNat = 98) :
    straightArmSrc ⟨opc, dstb, srcb, off, imm⟩ = some (armB helpers p pc ⟨opc, dstb, srcb, off, imm⟩) := by
  obtain rfl : opc = 98 := BitVec.eq_of_toNat_eq h
  have e : armB helpers p pc ⟨98, dstb, srcb, off, imm⟩ = stImmReg true ⟨98, dstb, srcb, off, imm⟩ := by rfl
  rw [e]
  conv => lhs; whnf
  refine congrArg some ?_
  simp only [BitVec.reduceToNat, pure_bind, stImmReg, insnImm64_eq, insnDst_eq, insnSrc_eq, regStore_eq,
    show sizeTy 98 = Ty.i32 from rfl, ↓reduceIte, ne_eq, not_false_eq_true, reduceCtorEq]
theorem sa_99 (h : opc.toNat = 99) :
    straightArmSrc ⟨opc, dstb, srcb, off, imm⟩ = some (armB helpers p pc ⟨opc, dstb, srcb, off, imm⟩) := by
  obtain rfl : opc = 99 := BitVec.eq_of_toNat_eq h
  have e : armB helpers p pc ⟨99, dstb, srcb, off, imm⟩ = stImmReg false ⟨99, dstb, srcb, off, imm⟩ := by rfl
  rw [e]
  conv => lhs; whnf
  refine congrArg some ?_
  simp only [BitVec.reduceToNat, pure_bind, stImmReg, insnImm64_eq, insnDst_eq, insnSrc_eq, regStore_eq,
    show sizeTy 99 = Ty.i32 from rfl, ↓reduceIte, Bool.false_eq_true, ne_eq, not_false_eq_true, reduceCtorEq]
theorem sa_100 (h : opc.toNat = 100) :
    straightArmSrc ⟨opc, dstb, srcb, off, imm⟩ = some (armB helpers p pc ⟨opc, dstb, srcb, off, imm⟩) := by
  obtain rfl : opc = 100 := BitVec.eq_of_toNat_eq h; rfl
theorem sa_103 (h : opc.toNat = 103) :
    straightArmSrc ⟨opc, dstb, srcb, off, imm⟩ = some (armB helpers p pc ⟨opc, dstb, srcb, off, imm⟩) := by
  obtain rfl : opc = 103 := BitVec.eq_of_toNat_eq h; rfl
theorem sa_105 (h : opc.toNat = 105) :
    straightArmSrc ⟨opc, dstb, srcb, off, imm⟩ = some (armB helpers p pc ⟨opc, dstb, srcb, off, imm⟩) := by
  obtain rfl : opc = 105 := BitVec.eq_of_toNat_eq h
  have e : armB helpers p pc ⟨105, dstb, srcb, off, imm⟩ = ldxReg ⟨105, dstb, srcb, off, imm⟩ := by rfl
  rw [e]
  conv => lhs; whnf
  refine congrArg some ?_
  simp only [BitVec.reduceToNat, pure_bind, ldxReg, insnSrc_eq, regLoad_eq, setDst_eq, show sizeTy 105 = Ty.i16 from rfl,
    ↓reduceIte, ne_eq, not_false_eq_true, reduceCtorEq]
theorem sa_106 (h : opc.toNat = 106) :
    straightArmSrc ⟨opc, dstb, srcb, off, imm⟩ = some (armB helpers p pc ⟨opc, dstb, srcb, off, imm⟩) := by
  obtain rfl : opc = 106 := BitVec.eq_of_toNat_eq h
  have e : armB helpers p pc ⟨106, dstb, srcb, off, imm⟩ = stImmReg true ⟨106, dstb, srcb, off, imm⟩ := by rfl
  rw [e]
  conv => lhs; whnf
  refine congrArg some ?_
  simp only [BitVec.reduceToNat, pure_bind, stImmReg, insnImm64_eq, insnDst_eq, insnSrc_eq, regStore_eq,
    show sizeTy 106 = Ty.i16 from rfl, ↓reduceIte, ne_eq, not_false_eq_true, reduceCtorEq]
theorem sa_107 (h : opc.toNat = 107) :
    straightArmSrc ⟨opc, dstb, srcb, off, imm⟩ = some (armB helpers p pc ⟨opc, dstb, srcb, off, imm⟩) := by
  obtain rfl : opc = 107 := BitVec.eq_of_toNat_eq h
  have e : armB helpers p pc ⟨107, dstb, srcb, off, imm⟩ = stImmReg false ⟨107, dstb, srcb, off, imm⟩ := by rfl
  rw [e]
  conv => lhs; whnf
  refine congrArg some ?_
  simp only [BitVec.reduceToNat, pure_bind, stImmReg, insnImm64_eq, insnDst_eq, insnSrc_eq, regStore_eq,
    show sizeTy 107 = Ty.i16 from rfl, ↓reduceIte, Bool.false_eq_true, ne_eq, not_false_eq_true, reduceCtorEq]
theorem sa_108 (h : opc.toNat = 108) :
    straightArmSrc ⟨opc, dstb, srcb, off, imm⟩ = some (armB helpers p pc ⟨opc, dstb, srcb, off, imm⟩) := by
  obtain rfl : opc = 108 := BitVec.eq_of_toNat_eq h; rfl
theorem sa_111 (h : opc.toNat = 111) :
    straightArmSrc ⟨opc, dstb, srcb, off, imm⟩ = some (armB helpers p pc ⟨opc, dstb, srcb, off, imm⟩) := by
  obtain rfl : opc = 111 := BitVec.eq_of_toNat_eq h; rfl
theorem sa_113 (h : opc.toNat = 113) :
    straightArmSrc ⟨opc, dstb, srcb, off, imm⟩ = some (armB helpers p pc ⟨opc, dstb, srcb, off, imm⟩) := by
  obtain rfl : opc = 113 := BitVec.eq_of_toNat_eq h
  have e : armB helpers p pc ⟨113, dstb, srcb, off, imm⟩ = ldxReg ⟨113, dstb, srcb, off, imm⟩ := by rfl
  rw [e]
  conv => lhs; whnf
  refine congrArg some ?_
  simp only [BitVec.reduceToNat, pure_bind, ldxReg, insnSrc_eq, regLoad_eq, setDst_eq, show sizeTy 113 = Ty.i8 from rfl,
    ↓reduceIte, ne_eq, not_false_eq_true, reduceCtorEq]
theorem sa_114 (h : opc.toNat = 114) :
    straightArmSrc ⟨opc, dstb, srcb, off, imm⟩ = some (armB helpers p pc ⟨opc, dstb, srcb, off, imm⟩) := by
  obtain rfl : opc = 114 := BitVec.eq_of_toNat_eq h
  have e : armB helpers p pc ⟨114, dstb, srcb, off, imm⟩ = stImmReg true ⟨114, dstb, srcb, off, imm⟩ := by rfl
  rw [e]
  conv => lhs; whnf
  refine congrArg some ?_
  simp only [BitVec.reduceToNat, pure_bind, stImmReg, insnImm64_eq, insnDst_eq, insnSrc_eq, regStore_eq,
    show sizeTy 114 = Ty.i8 from rfl, ↓reduceIte, ne_eq, not_false_eq_true, reduceCtorEq]
theorem sa_115 (h : opc.toNat = 115) :
    straightArmSrc ⟨opc, dstb, srcb, off, imm⟩ = some (armB helpers p pc ⟨opc, dstb, srcb, off, imm⟩) := by
  obtain rfl : opc = 115 := BitVec.eq_of_toNat_eq h
  have e : armB helpers p pc ⟨115, dstb, srcb, off, imm⟩ = stImmReg false ⟨115, dstb, srcb, off, imm⟩ := by rfl
  rw [e]
  conv => lhs; whnf
  refine congrArg some ?_
  simp only [BitVec.reduceToNat, pure_bind, stImmReg, insnImm64_eq, insnDst_eq, insnSrc_eq, regStore_eq,
    show sizeTy 115 = Ty.i8 from rfl, ↓reduceIte, Bool.false_eq_true, ne_eq, not_false_eq_true, reduceCtorEq]
theorem sa_116 (h : opc.toNat = 116) :
    straightArmSrc ⟨opc, dstb, srcb, off, imm⟩ = some (armB helpers p pc ⟨opc, dstb, srcb, off, imm⟩) := by
  obtain rfl : opc = 116 := BitVec.eq_of_toNat_eq h; rfl
theorem sa_119 (h : opc.toNat = 119) :
    straightArmSrc ⟨opc, dstb, srcb, off, imm⟩ = some (armB helpers p pc ⟨opc, dstb, srcb, off, imm⟩) := by
  obtain rfl : opc = 119 := BitVec.eq_of_toNat_eq h; rfl
theorem sa_121 (h : opc.toNat = 121) :
    straightArmSrc ⟨opc, dstb, srcb, off, imm⟩ = some (armB helpers p pc ⟨opc, dstb, srcb, off, imm⟩) := by
  obtain rfl : opc = 121 := BitVec.eq_of_toNat_eq h
  have e : armB helpers p pc ⟨121, dstb, srcb, off, imm⟩ = ldxReg ⟨121, dstb, srcb, off, imm⟩ := by rfl
  rw [e]
  conv => lhs; whnf
  refine congrArg some ?_
  simp only [BitVec.reduceToNat, pure_bind, ldxReg, insnSrc_eq, regLoad_eq, setDst_eq, show sizeTy 121 = Ty.i64 from rfl,
    ↓reduceIte, ne_eq, not_true_eq_false]
theorem sa_122 (h : opc.toNat = 122) :
    straightArmSrc ⟨opc, dstb, srcb, off, imm⟩ = some (armB helpers p pc ⟨opc, dstb, srcb, off, imm⟩) := by
  obtain rfl : opc = 122 := BitVec.eq_of_toNat_eq h
  have e : armB helpers p pc ⟨122, dstb, srcb, off, imm⟩ = stImmReg true ⟨122, dstb, srcb, off, imm⟩ := by rfl
  rw [e]
  conv => lhs; whnf
  refine congrArg some ?_
  simp only [BitVec.reduceToNat, pure_bind, stImmReg, insnImm64_eq, insnDst_eq, insnSrc_eq, regStore_eq,
    show sizeTy 122 = Ty.i64 from rfl, ↓reduceIte, ne_eq, not_true_eq_false]
theorem sa_123 (h : opc.toNat = 123) :
    straightArmSrc ⟨opc, dstb, srcb, off, imm⟩ = some (armB helpers p pc ⟨opc, dstb, srcb, off, imm⟩) := by
  obtain rfl : opc = 123 := BitVec.eq_of_toNat_eq h
  have e : armB helpers p pc ⟨123, dstb, srcb, off, imm⟩ = stImmReg false ⟨123, dstb, srcb, off, imm⟩ := by rfl
  rw [e]
  conv => lhs; whnf
  refine congrArg some ?_
  simp only [BitVec.reduceToNat, pure_bind, stImmReg, insnImm64_eq, insnDst_eq, insnSrc_eq, regStore_eq,
    show sizeTy 123 = Ty.i64 from rfl, ↓reduceIte, Bool.false_eq_true, ne_eq, not_true_eq_false]
theorem sa_124 (h : opc.toNat = 124) :
    straightArmSrc ⟨opc, dstb, srcb, off, imm⟩ = some (armB helpers p pc ⟨opc, dstb, srcb, off, imm⟩) := by
  obtain rfl : opc = 124 := BitVec.eq_of_toNat_eq h; rfl
theorem sa_127 (h : opc.toNat = 127) :
    straightArmSrc ⟨opc, dstb, srcb, off, imm⟩ = some (armB helpers p pc ⟨opc, dstb, srcb, off, imm⟩) := by
  obtain rfl : opc = 127 := BitVec.eq_of_toNat_eq h; rfl
theorem sa_132 (h : opc.toNat = 132) :
    straightArmSrc ⟨opc, dstb, srcb, off, imm⟩ = some (armB helpers p pc ⟨opc, dstb, srcb, off, imm⟩) := by
  obtain rfl : opc = 132 := BitVec.eq_of_toNat_eq h; rfl
theorem sa_135 (h : opc.toNat = 135) :
    straightArmSrc ⟨opc, dstb, srcb, off, imm⟩ = some (armB helpers p pc ⟨opc, dstb, srcb, off, imm⟩) := by
  obtain rfl : opc = 135 := BitVec.eq_of_toNat_eq h; rfl
theorem sa_148 (h : opc.toNat = 148) :
    straightArmSrc ⟨opc, dstb, srcb, off, imm⟩ = some (armB helpers p pc ⟨opc, dstb, srcb, off, imm⟩) := by
  obtain rfl : opc = 148 := BitVec.eq_of_toNat_eq h; rfl
theorem sa_151 (h : opc.toNat = 151) :
    straightArmSrc ⟨opc, dstb, srcb, off, imm⟩ = some (armB helpers p pc ⟨opc, dstb, srcb, off, imm⟩) := by
  obtain rfl : opc = 151 := BitVec.eq_of_toNat_eq h; rfl
theorem sa_156 (h : opc.toNat = 156) :
    straightArmSrc ⟨opc, dstb, srcb, off, imm⟩ = some (armB helpers p pc ⟨opc, dstb, srcb, off, imm⟩) := by
  obtain rfl : opc = 156 := BitVec.eq_of_toNat_eq h; rfl
theorem sa_159 (h : opc.toNat = 159) :
    straightArmSrc ⟨opc, dstb, srcb, off, imm⟩ = some (armB helpers p pc ⟨opc, dstb, srcb, off, imm⟩) := by
  obtain rfl : opc = 159 := BitVec.eq_of_toNat_eq h; rfl
theorem sa_164 (h : opc.toNat = 164) :
    straightArmSrc ⟨opc, dstb, srcb, off, imm⟩ = some (armB helpers p pc ⟨opc, dstb, srcb, off, imm⟩) := by
  obtain rfl : opc = 164 := BitVec.eq_of_toNat_eq h; rfl
theorem sa_167 (h : opc.toNat = 167) :
    straightArmSrc ⟨opc, dstb, srcb, off, imm⟩ = some (armB helpers p pc ⟨opc, dstb, srcb, off, imm⟩) := by
  obtain rfl : opc = 167 := BitVec.eq_of_toNat_eq h; rfl
theorem sa_172 (h : opc.toNat = 172) :
    straightArmSrc ⟨opc, dstb, srcb, off, imm⟩ = some (armB helpers p pc ⟨opc, dstb, srcb, off, imm⟩) := by
  obtain rfl : opc = 172 := BitVec.eq_of_toNat_eq h; rfl
theorem sa_175 (h : opc.toNat = 175) :
    straightArmSrc ⟨opc, dstb, srcb, off, imm⟩ = some (armB helpers p pc ⟨opc, dstb, srcb, off, imm⟩) := by
  obtain rfl : opc = 175 := BitVec.eq_of_toNat_eq h; rfl
theorem sa_180 (h : opc.toNat = 180) :
    straightArmSrc ⟨opc, dstb, srcb, off, imm⟩ = some (armB helpers p pc ⟨opc, dstb, srcb, off, imm⟩) := by
  obtain rfl : opc = 180 := BitVec.eq_of_toNat_eq h; rfl
theorem sa_183 (h : opc.toNat = 183) :
    straightArmSrc ⟨opc, dstb, srcb, off, imm⟩ = some (armB helpers p pc ⟨opc, dstb, srcb, off, imm⟩) := by
  obtain rfl : opc = 183 := BitVec.eq_of_toNat_eq h; rfl
theorem sa_188 (h : opc.toNat = 188) :
    straightArmSrc ⟨opc, dstb, srcb, off, imm⟩ = some (armB helpers p pc ⟨opc, dstb, srcb, off, imm⟩) := by
  obtain rfl : opc = 188 := BitVec.eq_of_toNat_eq h; rfl
theorem sa_191 (h : opc.toNat = 191) :
    straightArmSrc ⟨opc, dstb, srcb, off, imm⟩ = some (armB helpers p pc ⟨opc, dstb, srcb, off, imm⟩) := by
  obtain rfl : opc = 191 := BitVec.eq_of_toNat_eq h; rfl
theorem sa_195 (h : opc.toNat = 195) :
    straightArmSrc ⟨opc, dstb, srcb, off, imm⟩ = some (armB helpers p pc ⟨opc, dstb, srcb, off, imm⟩) := by
  obtain rfl : opc = 195 := BitVec.eq_of_toNat_eq h; rfl
theorem sa_196 (h : opc.toNat = 196) :
    straightArmSrc ⟨opc, dstb, srcb, off, imm⟩ = some (armB helpers p pc ⟨opc, dstb, srcb, off, imm⟩) := by
  obtain rfl : opc = 196 := BitVec.eq_of_toNat_eq h; rfl
theorem sa_199 (h : opc.toNat = 199) :
    straightArmSrc ⟨opc, dstb, srcb, off, imm⟩ = some (armB helpers p pc ⟨opc, dstb, srcb, off, imm⟩) := by
  obtain rfl : opc = 199 := BitVec.eq_of_toNat_eq h; rfl
theorem sa_204 (h : opc.toNat = 204) :
    straightArmSrc ⟨opc, dstb, srcb, off, imm⟩ = some (armB helpers p pc ⟨opc, dstb, srcb, off, imm⟩) := by
  obtain rfl : opc = 204 := BitVec.eq_of_toNat_eq h; rfl
theorem sa_207 (h : opc.toNat = 207) :
    straightArmSrc ⟨opc, dstb, srcb, off, imm⟩ = some (armB helpers p pc ⟨opc, dstb, srcb, off, imm⟩) := by
  obtain rfl : opc = 207 := BitVec.eq_of_toNat_eq h; rfl
theorem sa_212 (h : opc.toNat = 212) :
    straightArmSrc ⟨opc, dstb, srcb, off, imm⟩ = some (armB helpers p pc ⟨opc, dstb, srcb, off, imm⟩) := by
  obtain rfl : opc = 212 := BitVec.eq_of_toNat_eq h
  have e : armB helpers p pc ⟨212, dstb, srcb, off, imm⟩ = endian ⟨212, dstb, srcb, off, imm⟩ := by rfl
  rw [e]
  conv => lhs; whnf
  refine congrArg some ?_
  simp only [BitVec.reduceToNat, pure_bind, insnDst_eq, setDst_eq, ne_eq]
  unfold endian
  by_cases h16 : imm = 16
  · subst h16; simp [hostLittle]
  by_cases h32 : imm = 32
  · subst h32; simp [hostLittle]
  by_cases h64 : imm = 64
  · subst h64; simp [hostLittle]
  simp only [h16, h32, h64, ↓reduceIte]
  split
  · rename_i hh; exact absurd (BitVec.eq_of_toInt_eq (hh.trans (by decide))) h16
  · rename_i hh; exact absurd (BitVec.eq_of_toInt_eq (hh.trans (by decide))) h32
  · rename_i hh; exact absurd (BitVec.eq_of_toInt_eq (hh.trans (by decide))) h64
  · rfl
theorem sa_219 (h : opc.toNat = 219) :
    straightArmSrc ⟨opc, dstb, srcb, off, imm⟩ = some (armB helpers p pc ⟨opc, dstb, srcb, off, imm⟩) := by
  obtain rfl : opc = 219 := BitVec.eq_of_toNat_eq h; rfl
theorem sa_220 (h : opc.toNat = 220) :
    straightArmSrc ⟨opc, dstb, srcb, off, imm⟩ = some (armB helpers p pc ⟨opc, dstb, srcb, off, imm⟩) := by
  obtain rfl : opc = 220 := BitVec.eq_of_toNat_eq h
  have e : armB helpers p pc ⟨220, dstb, srcb, off, imm⟩ = endian ⟨220, dstb, srcb, off, imm⟩ := by rfl
  rw [e]
  conv => lhs; whnf
  refine congrArg some ?_
  simp only [BitVec.reduceToNat, pure_bind, insnDst_eq, setDst_eq, ne_eq]
  unfold endian
  by_cases h16 : imm = 16
  · subst h16; simp [hostLittle]
  by_cases h32 : imm = 32
  · subst h32; simp [hostLittle]
  by_cases h64 : imm = 64
  · subst h64; simp [hostLittle]
  simp only [h16, h32, h64, ↓reduceIte]
  split
  · rename_i hh; exact absurd (BitVec.eq_of_toInt_eq (hh.trans (by decide))) h16
  · rename_i hh; exact absurd (BitVec.eq_of_toInt_eq (hh.trans (by decide))) h32
  · rename_i hh; exact absurd (BitVec.eq_of_toInt_eq (hh.trans (by decide))) h64
  · rfl
end

theorem straightArm_eq (helpers : Nat → Bool) (p : Bytes) (pc : Nat) (i : Insn) (h : i.opc.toNat ∈ straightOpcodes) :
    straightArmSrc i = some (armB helpers p pc i) := by
  obtain ⟨opc, dstb, srcb, off, imm⟩ := i
  simp only [straightOpcodes, List.mem_cons, List.not_mem_nil, or_false] at h
  rcases h with h | h | h | h | h | h | h | h | h | h | h | h | h | h | h | h | h | h | h | h | h | h | h | h | h | h | h | h | h | h |
    h | h | h | h | h | h | h | h | h | h | h | h | h | h | h | h | h | h | h | h | h | h | h | h | h | h | h | h | h | h |
    h | h | h | h | h | h | h | h | h | h | h | h | h | h
  · exact sa_4 h
  · exact sa_7 h
  · exact sa_12 h
  · exact sa_15 h
  · exact sa_20 h
  · exact sa_23 h
  · exact sa_28 h
  · exact sa_31 h
  · exact sa_32 h
  · exact sa_36 h
  · exact sa_39 h
  · exact sa_40 h
  · exact sa_44 h
  · exact sa_47 h
  · exact sa_48 h
  · exact sa_52 h
  · exact sa_55 h
  · exact sa_56 h
  · exact sa_60 h
  · exact sa_63 h
  · exact sa_64 h
  · exact sa_68 h
  · exact sa_71 h
  · exact sa_72 h
  · exact sa_76 h
  · exact sa_79 h
  · exact sa_80 h
  · exact sa_84 h
  · exact sa_87 h
  · exact sa_88 h
  · exact sa_92 h
  · exact sa_95 h
  · exact sa_97 h
  · exact sa_98 h
  · exact sa_99 h
  · exact sa_100 h
  · exact sa_103 h
  · exact sa_105 h
  · exact sa_106 h
  · exact sa_107 h
  · exact sa_108 h
  · exact sa_111 h
  · exact sa_113 h
  · exact sa_114 h
  · exact sa_115 h
  · exact sa_116 h
  · exact sa_119 h
  · exact sa_121 h
  · exact sa_122 h
  · exact sa_123 h
  · exact sa_124 h
  · exact sa_127 h
  · exact sa_132 h
  · exact sa_135 h
  · exact sa_148 h
  · exact sa_151 h
  · exact sa_156 h
  · exact sa_159 h
  · exact sa_164 h
  · exact sa_167 h
  · exact sa_172 h
  · exact sa_175 h
  · exact sa_180 h
  · exact sa_183 h
  · exact sa_188 h
  · exact sa_191 h
  · exact sa_195 h
  · exact sa_196 h
  · exact sa_199 h
  · exact sa_204 h
  · exact sa_207 h
  · exact sa_212 h
  · exact sa_219 h
  · exact sa_220 h

end Rbpf.Generated.Clif
