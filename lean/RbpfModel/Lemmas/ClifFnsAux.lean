/- Lemmas for Props/ClifFnsSrc.lean: the helper functions and straight-line arms of src/cranelift.rs as translated (Generated/ClifFns.lean) against Model/ClifAst.lean. -/
import RbpfModel.Generated.ClifFns
namespace Rbpf.Generated.Clif
open Rbpf Rbpf.ClifAst

theorem insnImm64_eq (i : Insn) : insnImm64Src i = insnImm64 i := rfl
theorem insnImm32_eq (i : Insn) : insnImm32Src i = insnImm32 i := rfl
theorem insnDst_eq (i : Insn) : insnDstSrc i = insnDst i := rfl
theorem insnSrc_eq (i : Insn) : insnSrcSrc i = insnSrc i := rfl
theorem insnDst32_eq (i : Insn) : insnDst32Src i = insnDst32 i := rfl
theorem insnSrc32_eq (i : Insn) : insnSrc32Src i = insnSrc32 i := rfl
theorem setDst_eq (i : Insn) (v : Arg) : setDstSrc i v = setDst i v := rfl
theorem setDst32_eq (i : Insn) (v : Arg) : setDst32Src i v = setDst32 i v := rfl
theorem insertBoundsCheck_eq (ty : Ty) (base : Arg) (offset : BitVec 16) : insertBoundsCheckSrc ty base offset = insertBoundsCheck ty base offset := rfl
theorem regLoad_eq (ty : Ty) (base : Arg) (offset : BitVec 16) : regLoadSrc ty base offset = regLoad ty base offset := rfl
theorem regStore_eq (ty : Ty) (base : Arg) (offset : BitVec 16) (v : Arg) : regStoreSrc ty base offset v = regStore ty base offset v := rfl
theorem regAtomicAdd_eq (ty : Ty) (base : Arg) (offset : BitVec 16) (v : Arg) : regAtomicAddSrc ty base offset v = regAtomicAdd ty base offset v := rfl

/-! one lemma per straight-line opcode: with the opcode a literal both `match`es reduce.  For the arms the source shares between several
    opcodes (`ldabs`/`ldind`, `ldx`, `st`/`stx`, `le`/`be`: an inner `match` on the opcode where the model computes `sizeTy`) the inner match
    is evaluated by `simp` after both sides have been brought to the shared arm. -/

section
variable {helpers : Nat → Bool} {p : Bytes} {pc : Nat} {opc dstb srcb : BitVec 8} {off : BitVec 16} {imm : BitVec 32}

theorem sa_4 (h : opc.toNat = 4) :
    straightArmSrc ⟨opc, dstb, srcb, off, imm⟩ = some (armB helpers p pc ⟨opc, dstb, srcb, off, imm⟩) := by
  obtain rfl : opc = 4 := BitVec.eq_of_toNat_eq h; rfl
theorem sa_7 (h : opc.toNat = 7) :
    straightArmSrc ⟨opc, dstb, srcb, off, imm⟩ = some (armB helpers p pc ⟨opc, dstb, srcb, off, imm⟩) := by
  obtain rfl : opc = 7 := BitVec.eq_of_toNat_eq h; rfl
theorem sa_12 (h : opc.toNat = 12) :
    straightArmSrc ⟨opc, dstb, srcb, off, imm⟩ = some (armB helpers p pc ⟨opc, dstb, srcb, off, imm⟩) := by
  obtain rfl : opc = 12 := BitVec.eq_of_toNat_eq h; rfl
theorem sa_15 (h : opc.toNat = 15) :
    straightArmSrc ⟨opc, dstb, srcb, off, imm⟩ = some (armB helpers p pc ⟨opc, dstb, srcb, off, imm⟩) := by
  obtain rfl : opc = 15 := BitVec.eq_of_toNat_eq h; rfl
theorem sa_20 (h : opc.toNat = 20) :
    straightArmSrc ⟨opc, dstb, srcb, off, imm⟩ = some (armB helpers p pc ⟨opc, dstb, srcb, off, imm⟩) := by
  obtain rfl : opc = 20 := BitVec.eq_of_toNat_eq h; rfl
theorem sa_23 (h : opc.toNat = 23) :
    straightArmSrc ⟨opc, dstb, srcb, off, imm⟩ = some (armB helpers p pc ⟨opc, dstb, srcb, off, imm⟩) := by
  obtain rfl : opc = 23 := BitVec.eq_of_toNat_eq h; rfl
theorem sa_28 (h : opc.toNat = 28) :
    straightArmSrc ⟨opc, dstb, srcb, off, imm⟩ = some (armB helpers p pc ⟨opc, dstb, srcb, off, imm⟩) := by
  obtain rfl : opc = 28 := BitVec.eq_of_toNat_eq h; rfl
theorem sa_31 (h : opc.toNat = 31) :
    straightArmSrc ⟨opc, dstb, srcb, off, imm⟩ = some (armB helpers p pc ⟨opc, dstb, srcb, off, imm⟩) := by
  obtain rfl : opc = 31 := BitVec.eq_of_toNat_eq h; rfl
theorem sa_32 (h : opc.toNat = 32) :
    straightArmSrc ⟨opc, dstb, srcb, off, imm⟩ = some (armB helpers p pc ⟨opc, dstb, srcb, off, imm⟩) := by
  obtain rfl : opc = 32 := BitVec.eq_of_toNat_eq h
  have e : armB helpers p pc ⟨32, dstb, srcb, off, imm⟩ = ldAbsInd ⟨32, dstb, srcb, off, imm⟩ := by rfl
  rw [e]
  conv => lhs; whnf
  refine congrArg some ?_
  simp only [BitVec.reduceToNat, pure_bind, ldAbsInd, regLoad_eq, show sizeTy 32 = Ty.i32 from rfl, ↓reduceIte, Nat.reduceAnd,
    bne_iff_ne, ne_eq, not_true_eq_false, not_false_eq_true, reduceCtorEq]
theorem sa_36 (h : opc.toNat = 36) :
    straightArmSrc ⟨opc, dstb, srcb, off, imm⟩ = some (armB helpers p pc ⟨opc, dstb, srcb, off, imm⟩) := by
  obtain rfl : opc = 36 := BitVec.eq_of_toNat_eq h; rfl
theorem sa_39 (h : opc.toNat = 39) :
    straightArmSrc ⟨opc, dstb, srcb, off, imm⟩ = some (armB helpers p pc ⟨opc, dstb, srcb, off, imm⟩) := by
  obtain rfl : opc = 39 := BitVec.eq_of_toNat_eq h; rfl
theorem sa_40 (h : opc.toNat = 40) :
    straightArmSrc ⟨opc, dstb, srcb, off, imm⟩ = some (armB helpers p pc ⟨opc, dstb, srcb, off, imm⟩) := by
  obtain rfl : opc = 40 := BitVec.eq_of_toNat_eq h
  have e : armB helpers p pc ⟨40, dstb, srcb, off, imm⟩ = ldAbsInd ⟨40, dstb, srcb, off, imm⟩ := by rfl
  rw [e]
  conv => lhs; whnf
  refine congrArg some ?_
  simp only [BitVec.reduceToNat, pure_bind, ldAbsInd, regLoad_eq, show sizeTy 40 = Ty.i16 from rfl, ↓reduceIte, Nat.reduceAnd,
    bne_iff_ne, ne_eq, not_true_eq_false, not_false_eq_true, reduceCtorEq]
theorem sa_44 (h : opc.toNat = 44) :
    straightArmSrc ⟨opc, dstb, srcb, off, imm⟩ = some (armB helpers p pc ⟨opc, dstb, srcb, off, imm⟩) := by
  obtain rfl : opc = 44 := BitVec.eq_of_toNat_eq h; rfl
theorem sa_47 (h : opc.toNat = 47) :
    straightArmSrc ⟨opc, dstb, srcb, off, imm⟩ = some (armB helpers p pc ⟨opc, dstb, srcb, off, imm⟩) := by
  obtain rfl : opc = 47 := BitVec.eq_of_toNat_eq h; rfl
theorem sa_48 (h : opc.toNat = 48) :
    straightArmSrc ⟨opc, dstb, srcb, off, imm⟩ = some (armB helpers p pc ⟨opc, dstb, srcb, off, imm⟩) := by
  obtain rfl : opc = 48 := BitVec.eq_of_toNat_eq h
  have e : armB helpers p pc ⟨48, dstb, srcb, off, imm⟩ = ldAbsInd ⟨48, dstb, srcb, off, imm⟩ := by rfl
  rw [e]
  conv => lhs; whnf
  refine congrArg some ?_
  simp only [BitVec.reduceToNat, pure_bind, ldAbsInd, regLoad_eq, show sizeTy 48 = Ty.i8 from rfl, ↓reduceIte, Nat.reduceAnd,
    bne_iff_ne, ne_eq, not_true_eq_false, not_false_eq_true, reduceCtorEq]
theorem sa_52 (h : opc.toNat = 52) :
    straightArmSrc ⟨opc, dstb, srcb, off, imm⟩ = some (armB helpers p pc ⟨opc, dstb, srcb, off, imm⟩) := by
  obtain rfl : opc = 52 := BitVec.eq_of_toNat_eq h; rfl
theorem sa_55 (h : opc.toNat = 55) :
    straightArmSrc ⟨opc, dstb, srcb, off, imm⟩ = some (armB helpers p pc ⟨opc, dstb, srcb, off, imm⟩) := by
  obtain rfl : opc = 55 := BitVec.eq_of_toNat_eq h; rfl
theorem sa_56 (h : opc.toNat = 56) :
    straightArmSrc ⟨opc, dstb, srcb, off, imm⟩ = some (armB helpers p pc ⟨opc, dstb, srcb, off, imm⟩) := by
  obtain rfl : opc = 56 := BitVec.eq_of_toNat_eq h
  have e : armB helpers p pc ⟨56, dstb, srcb, off, imm⟩ = ldAbsInd ⟨56, dstb, srcb, off, imm⟩ := by rfl
  rw [e]
  conv => lhs; whnf
  refine congrArg some ?_
  simp only [BitVec.reduceToNat, pure_bind, ldAbsInd, regLoad_eq, show sizeTy 56 = Ty.i64 from rfl, ↓reduceIte, Nat.reduceAnd,
    bne_iff_ne, ne_eq, not_true_eq_false]
theorem sa_60 (h : opc.toNat = 60) :
    straightArmSrc ⟨opc, dstb, srcb, off, imm⟩ = some (armB helpers p pc ⟨opc, dstb, srcb, off, imm⟩) := by
  obtain rfl : opc = 60 := BitVec.eq_of_toNat_eq h; rfl
theorem sa_63 (h : opc.toNat = 63) :
    straightArmSrc ⟨opc, dstb, srcb, off, imm⟩ = some (armB helpers p pc ⟨opc, dstb, srcb, off, imm⟩) := by
  obtain rfl : opc = 63 := BitVec.eq_of_toNat_eq h; rfl
theorem sa_64 (h : opc.toNat = 64) :
    straightArmSrc ⟨opc, dstb, srcb, off, imm⟩ = some (armB helpers p pc ⟨opc, dstb, srcb, off, imm⟩) := by
  obtain rfl : opc = 64 := BitVec.eq_of_toNat_eq h
  have e : armB helpers p pc ⟨64, dstb, srcb, off, imm⟩ = ldAbsInd ⟨64, dstb, srcb, off, imm⟩ := by rfl
  rw [e]
  conv => lhs; whnf
  refine congrArg some ?_
  simp only [BitVec.reduceToNat, pure_bind, ldAbsInd, insnSrc_eq, regLoad_eq, show sizeTy 64 = Ty.i32 from rfl, ↓reduceIte,
    Nat.reduceAnd, bne_iff_ne, ne_eq, not_false_eq_true, reduceCtorEq]
theorem sa_68 (h : opc.toNat = 68) :
    straightArmSrc ⟨opc, dstb, srcb, off, imm⟩ = some (armB helpers p pc ⟨opc, dstb, srcb, off, imm⟩) := by
  obtain rfl : opc = 68 := BitVec.eq_of_toNat_eq h; rfl
theorem sa_71 (h : opc.toNat = 71) :
    straightArmSrc ⟨opc, dstb, srcb, off, imm⟩ = some (armB helpers p pc ⟨opc, dstb, srcb, off, imm⟩) := by
  obtain rfl : opc = 71 := BitVec.eq_of_toNat_eq h; rfl
theorem sa_72 (h : opc.toNat = 72) :
    straightArmSrc ⟨opc, dstb, srcb, off, imm⟩ = some (armB helpers p pc ⟨opc, dstb, srcb, off, imm⟩) := by
  obtain rfl : opc = 72 := BitVec.eq_of_toNat_eq h
  have e : armB helpers p pc ⟨72, dstb, srcb, off, imm⟩ = ldAbsInd ⟨72, dstb, srcb, off, imm⟩ := by rfl
  rw [e]
  conv => lhs; whnf
  refine congrArg some ?_
  simp only [BitVec.reduceToNat, pure_bind, ldAbsInd, insnSrc_eq, regLoad_eq, show sizeTy 72 = Ty.i16 from rfl, ↓reduceIte,
    Nat.reduceAnd, bne_iff_ne, ne_eq, not_false_eq_true, reduceCtorEq]
theorem sa_76 (h : opc.toNat = 76) :
    straightArmSrc ⟨opc, dstb, srcb, off, imm⟩ = some (armB helpers p pc ⟨opc, dstb, srcb, off, imm⟩) := by
  obtain rfl : opc = 76 := BitVec.eq_of_toNat_eq h; rfl
theorem sa_79 (h : opc.toNat = 79) :
    straightArmSrc ⟨opc, dstb, srcb, off, imm⟩ = some (armB helpers p pc ⟨opc, dstb, srcb, off, imm⟩) := by
  obtain rfl : opc = 79 := BitVec.eq_of_toNat_eq h; rfl
theorem sa_80 (h : opc.toNat = 80) :
    straightArmSrc ⟨opc, dstb, srcb, off, imm⟩ = some (armB helpers p pc ⟨opc, dstb, srcb, off, imm⟩) := by
  obtain rfl : opc = 80 := BitVec.eq_of_toNat_eq h
  have e : armB helpers p pc ⟨80, dstb, srcb, off, imm⟩ = ldAbsInd ⟨80, dstb, srcb, off, imm⟩ := by rfl
  rw [e]
  conv => lhs; whnf
  refine congrArg some ?_
  simp only [BitVec.reduceToNat, pure_bind, ldAbsInd, insnSrc_eq, regLoad_eq, show sizeTy 80 = Ty.i8 from rfl, ↓reduceIte,
    Nat.reduceAnd, bne_iff_ne, ne_eq, not_false_eq_true, reduceCtorEq]
theorem sa_84 (h : opc.toNat = 84) :
    straightArmSrc ⟨opc, dstb, srcb, off, imm⟩ = some (armB helpers p pc ⟨opc, dstb, srcb, off, imm⟩) := by
  obtain rfl : opc = 84 := BitVec.eq_of_toNat_eq h; rfl
theorem sa_87 (h : opc.toNat = 87) :
    straightArmSrc ⟨opc, dstb, srcb, off, imm⟩ = some (armB helpers p pc ⟨opc, dstb, srcb, off, imm⟩) := by
  obtain rfl : opc = 87 := BitVec.eq_of_toNat_eq h; rfl
theorem sa_88 (h : opc.toNat = 88) :
    straightArmSrc ⟨opc, dstb, srcb, off, imm⟩ = some (armB helpers p pc ⟨opc, dstb, srcb, off, imm⟩) := by
  obtain rfl : opc = 88 := BitVec.eq_of_toNat_eq h
  have e : armB helpers p pc ⟨88, dstb, srcb, off, imm⟩ = ldAbsInd ⟨88, dstb, srcb, off, imm⟩ := by rfl
  rw [e]
  conv => lhs; whnf
  refine congrArg some ?_
  simp only [BitVec.reduceToNat, pure_bind, ldAbsInd, insnSrc_eq, regLoad_eq, show sizeTy 88 = Ty.i64 from rfl, ↓reduceIte,
    Nat.reduceAnd, bne_iff_ne, ne_eq, not_true_eq_false, not_false_eq_true, reduceCtorEq]
theorem sa_92 (h : opc.toNat = 92) :
    straightArmSrc ⟨opc, dstb, srcb, off, imm⟩ = some (armB helpers p pc ⟨opc, dstb, srcb, off, imm⟩) := by
  obtain rfl : opc = 92 := BitVec.eq_of_toNat_eq h; rfl
theorem sa_95 (h : opc.toNat = 95) :
    straightArmSrc ⟨opc, dstb, srcb, off, imm⟩ = some (armB helpers p pc ⟨opc, dstb, srcb, off, imm⟩) := by
  obtain rfl : opc = 95 := BitVec.eq_of_toNat_eq h; rfl
theorem sa_97 (h : opc.toNat = 97) :
    straightArmSrc ⟨opc, dstb, srcb, off, imm⟩ = some (armB helpers p pc ⟨opc, dstb, srcb, off, imm⟩) := by
  obtain rfl : opc = 97 := BitVec.eq_of_toNat_eq h
  have e : armB helpers p pc ⟨97, dstb, srcb, off, imm⟩ = ldxReg ⟨97, dstb, srcb, off, imm⟩ := by rfl
  rw [e]
  conv => lhs; whnf
  refine congrArg some ?_
  simp only [BitVec.reduceToNat, pure_bind, ldxReg, insnSrc_eq, regLoad_eq, setDst_eq, show sizeTy 97 = Ty.i32 from rfl,
    ↓reduceIte, ne_eq, not_false_eq_true, reduceCtorEq]
theorem sa_98 (h : opc.toNat = 98) :
    straightArmSrc ⟨opc, dstb, srcb, off, imm⟩ = some (armB helpers p pc ⟨opc, dstb, srcb, off, imm⟩) := by
  obtain rfl : opc = 98 := BitVec.eq_of_toNat_eq h
  have e : armB helpers p pc ⟨98, dstb, srcb, off, imm⟩ = stImmReg true ⟨98, dstb, srcb, off, imm⟩ := by rfl
  rw [e]
  conv => lhs; whnf
  refine congrArg some ?_
  simp only [BitVec.reduceToNat, pure_bind, stImmReg, insnImm64_eq, insnDst_eq, insnSrc_eq, regStore_eq,
    show sizeTy 98 = Ty.i32 from rfl, ↓reduceIte, ne_eq, not_false_eq_true, reduceCtorEq]
theorem sa_99 (h : opc.toNat = 99) :
    straightArmSrc ⟨opc, dstb, srcb, off, imm⟩ = some (armB helpers p pc ⟨opc, dstb, srcb, off, imm⟩) := by
  obtain rfl : opc = 99 := BitVec.eq_of_toNat_eq h
  have e : armB helpers p pc ⟨99, dstb, srcb, off, imm⟩ = stImmReg false ⟨99, dstb, srcb, off, imm⟩ := by rfl
  rw [e]
  conv => lhs; whnf
  refine congrArg some ?_
  simp only [BitVec.reduceToNat, pure_bind, stImmReg, insnImm64_eq, insnDst_eq, insnSrc_eq, regStore_eq,
    show sizeTy 99 = Ty.i32 from rfl, ↓reduceIte, Bool.false_eq_true, ne_eq, not_false_eq_true, reduceCtorEq]
theorem sa_100 (h : opc.toNat = 100) :
    straightArmSrc ⟨opc, dstb, srcb, off, imm⟩ = some (armB helpers p pc ⟨opc, dstb, srcb, off, imm⟩) := by
  obtain rfl : opc = 100 := BitVec.eq_of_toNat_eq h; rfl
theorem sa_103 (h : opc.toNat = 103) :
    straightArmSrc ⟨opc, dstb, srcb, off, imm⟩ = some (armB helpers p pc ⟨opc, dstb, srcb, off, imm⟩) := by
  obtain rfl : opc = 103 := BitVec.eq_of_toNat_eq h; rfl
theorem sa_105 (h : opc.toNat = 105) :
    straightArmSrc ⟨opc, dstb, srcb, off, imm⟩ = some (armB helpers p pc ⟨opc, dstb, srcb, off, imm⟩) := by
  obtain rfl : opc = 105 := BitVec.eq_of_toNat_eq h
  have e : armB helpers p pc ⟨105, dstb, srcb, off, imm⟩ = ldxReg ⟨105, dstb, srcb, off, imm⟩ := by rfl
  rw [e]
  conv => lhs; whnf
  refine congrArg some ?_
  simp only [BitVec.reduceToNat, pure_bind, ldxReg, insnSrc_eq, regLoad_eq, setDst_eq, show sizeTy 105 = Ty.i16 from rfl,
    ↓reduceIte, ne_eq, not_false_eq_true, reduceCtorEq]
theorem sa_106 (h : opc.toNat = 106) :
    straightArmSrc ⟨opc, dstb, srcb, off, imm⟩ = some (armB helpers p pc ⟨opc, dstb, srcb, off, imm⟩) := by
  obtain rfl : opc = 106 := BitVec.eq_of_toNat_eq h
  have e : armB helpers p pc ⟨106, dstb, srcb, off, imm⟩ = stImmReg true ⟨106, dstb, srcb, off, imm⟩ := by rfl
  rw [e]
  conv => lhs; whnf
  refine congrArg some ?_
  simp only [BitVec.reduceToNat, pure_bind, stImmReg, insnImm64_eq, insnDst_eq, insnSrc_eq, regStore_eq,
    show sizeTy 106 = Ty.i16 from rfl, ↓reduceIte, ne_eq, not_false_eq_true, reduceCtorEq]
theorem sa_107 (h : opc.toNat = 107) :
    straightArmSrc ⟨opc, dstb, srcb, off, imm⟩ = some (armB helpers p pc ⟨opc, dstb, srcb, off, imm⟩) := by
  obtain rfl : opc = 107 := BitVec.eq_of_toNat_eq h
  have e : armB helpers p pc ⟨107, dstb, srcb, off, imm⟩ = stImmReg false ⟨107, dstb, srcb, off, imm⟩ := by rfl
  rw [e]
  conv => lhs; whnf
  refine congrArg some ?_
  simp only [BitVec.reduceToNat, pure_bind, stImmReg, insnImm64_eq, insnDst_eq, insnSrc_eq, regStore_eq,
    show sizeTy 107 = Ty.i16 from rfl, ↓reduceIte, Bool.false_eq_true, ne_eq, not_false_eq_true, reduceCtorEq]
theorem sa_108 (h : opc.toNat = 108) :
    straightArmSrc ⟨opc, dstb, srcb, off, imm⟩ = some (armB helpers p pc ⟨opc, dstb, srcb, off, imm⟩) := by
  obtain rfl : opc = 108 := BitVec.eq_of_toNat_eq h; rfl
theorem sa_111 (h : opc.toNat = 111) :
    straightArmSrc ⟨opc, dstb, srcb, off, imm⟩ = some (armB helpers p pc ⟨opc, dstb, srcb, off, imm⟩) := by
  obtain rfl : opc = 111 := BitVec.eq_of_toNat_eq h; rfl
theorem sa_113 (h : opc.toNat = 113) :
    straightArmSrc ⟨opc, dstb, srcb, off, imm⟩ = some (armB helpers p pc ⟨opc, dstb, srcb, off, imm⟩) := by
  obtain rfl : opc = 113 := BitVec.eq_of_toNat_eq h
  have e : armB helpers p pc ⟨113, dstb, srcb, off, imm⟩ = ldxReg ⟨113, dstb, srcb, off, imm⟩ := by rfl
  rw [e]
  conv => lhs; whnf
  refine congrArg some ?_
  simp only [BitVec.reduceToNat, pure_bind, ldxReg, insnSrc_eq, regLoad_eq, setDst_eq, show sizeTy 113 = Ty.i8 from rfl,
    ↓reduceIte, ne_eq, not_false_eq_true, reduceCtorEq]
theorem sa_114 (h : opc.toNat = 114) :
    straightArmSrc ⟨opc, dstb, srcb, off, imm⟩ = some (armB helpers p pc ⟨opc, dstb, srcb, off, imm⟩) := by
  obtain rfl : opc = 114 := BitVec.eq_of_toNat_eq h
  have e : armB helpers p pc ⟨114, dstb, srcb, off, imm⟩ = stImmReg true ⟨114, dstb, srcb, off, imm⟩ := by rfl
  rw [e]
  conv => lhs; whnf
  refine congrArg some ?_
  simp only [BitVec.reduceToNat, pure_bind, stImmReg, insnImm64_eq, insnDst_eq, insnSrc_eq, regStore_eq,
    show sizeTy 114 = Ty.i8 from rfl, ↓reduceIte, ne_eq, not_false_eq_true, reduceCtorEq]
theorem sa_115 (h : opc.toNat = 115) :
    straightArmSrc ⟨opc, dstb, srcb, off, imm⟩ = some (armB helpers p pc ⟨opc, dstb, srcb, off, imm⟩) := by
  obtain rfl : opc = 115 := BitVec.eq_of_toNat_eq h
  have e : armB helpers p pc ⟨115, dstb, srcb, off, imm⟩ = stImmReg false ⟨115, dstb, srcb, off, imm⟩ := by rfl
  rw [e]
  conv => lhs; whnf
  refine congrArg some ?_
  simp only [BitVec.reduceToNat, pure_bind, stImmReg, insnImm64_eq, insnDst_eq, insnSrc_eq, regStore_eq,
    show sizeTy 115 = Ty.i8 from rfl, ↓reduceIte, Bool.false_eq_true, ne_eq, not_false_eq_true, reduceCtorEq]
theorem sa_116 (h : opc.toNat = 116) :
    straightArmSrc ⟨opc, dstb, srcb, off, imm⟩ = some (armB helpers p pc ⟨opc, dstb, srcb, off, imm⟩) := by
  obtain rfl : opc = 116 := BitVec.eq_of_toNat_eq h; rfl
theorem sa_119 (h : opc.toNat = 119) :
    straightArmSrc ⟨opc, dstb, srcb, off, imm⟩ = some (armB helpers p pc ⟨opc, dstb, srcb, off, imm⟩) := by
  obtain rfl : opc = 119 := BitVec.eq_of_toNat_eq h; rfl
theorem sa_121 (h : opc.toNat = 121) :
    straightArmSrc ⟨opc, dstb, srcb, off, imm⟩ = some (armB helpers p pc ⟨opc, dstb, srcb, off, imm⟩) := by
  obtain rfl : opc = 121 := BitVec.eq_of_toNat_eq h
  have e : armB helpers p pc ⟨121, dstb, srcb, off, imm⟩ = ldxReg ⟨121, dstb, srcb, off, imm⟩ := by rfl
  rw [e]
  conv => lhs; whnf
  refine congrArg some ?_
  simp only [BitVec.reduceToNat, pure_bind, ldxReg, insnSrc_eq, regLoad_eq, setDst_eq, show sizeTy 121 = Ty.i64 from rfl,
    ↓reduceIte, ne_eq, not_true_eq_false]
theorem sa_122 (h : opc.toNat = 122) :
    straightArmSrc ⟨opc, dstb, srcb, off, imm⟩ = some (armB helpers p pc ⟨opc, dstb, srcb, off, imm⟩) := by
  obtain rfl : opc = 122 := BitVec.eq_of_toNat_eq h
  have e : armB helpers p pc ⟨122, dstb, srcb, off, imm⟩ = stImmReg true ⟨122, dstb, srcb, off, imm⟩ := by rfl
  rw [e]
  conv => lhs; whnf
  refine congrArg some ?_
  simp only [BitVec.reduceToNat, pure_bind, stImmReg, insnImm64_eq, insnDst_eq, insnSrc_eq, regStore_eq,
    show sizeTy 122 = Ty.i64 from rfl, ↓reduceIte, ne_eq, not_true_eq_false]
theorem sa_123 (h : opc.toNat = 123) :
    straightArmSrc ⟨opc, dstb, srcb, off, imm⟩ = some (armB helpers p pc ⟨opc, dstb, srcb, off, imm⟩) := by
  obtain rfl : opc = 123 := BitVec.eq_of_toNat_eq h
  have e : armB helpers p pc ⟨123, dstb, srcb, off, imm⟩ = stImmReg false ⟨123, dstb, srcb, off, imm⟩ := by rfl
  rw [e]
  conv => lhs; whnf
  refine congrArg some ?_
  simp only [BitVec.reduceToNat, pure_bind, stImmReg, insnImm64_eq, insnDst_eq, insnSrc_eq, regStore_eq,
    show sizeTy 123 = Ty.i64 from rfl, ↓reduceIte, Bool.false_eq_true, ne_eq, not_true_eq_false]
theorem sa_124 (h : opc.toNat = 124) :
    straightArmSrc ⟨opc, dstb, srcb, off, imm⟩ = some (armB helpers p pc ⟨opc, dstb, srcb, off, imm⟩) := by
  obtain rfl : opc = 124 := BitVec.eq_of_toNat_eq h; rfl
theorem sa_127 (h : opc.toNat = 127) :
    straightArmSrc ⟨opc, dstb, srcb, off, imm⟩ = some (armB helpers p pc ⟨opc, dstb, srcb, off, imm⟩) := by
  obtain rfl : opc = 127 := BitVec.eq_of_toNat_eq h; rfl
theorem sa_132 (h : opc.toNat = 132) :
    straightArmSrc ⟨opc, dstb, srcb, off, imm⟩ = some (armB helpers p pc ⟨opc, dstb, srcb, off, imm⟩) := by
  obtain rfl : opc = 132 := BitVec.eq_of_toNat_eq h; rfl
theorem sa_135 (h : opc.toNat = 135) :
    straightArmSrc ⟨opc, dstb, srcb, off, imm⟩ = some (armB helpers p pc ⟨opc, dstb, srcb, off, imm⟩) := by
  obtain rfl : opc = 135 := BitVec.eq_of_toNat_eq h; rfl
theorem sa_148 (h : opc.toNat = 148) :
    straightArmSrc ⟨opc, dstb, srcb, off, imm⟩ = some (armB helpers p pc ⟨opc, dstb, srcb, off, imm⟩) := by
  obtain rfl : opc = 148 := BitVec.eq_of_toNat_eq h; rfl
theorem sa_151 (h : opc.toNat = 151) :
    straightArmSrc ⟨opc, dstb, srcb, off, imm⟩ = some (armB helpers p pc ⟨opc, dstb, srcb, off, imm⟩) := by
  obtain rfl : opc = 151 := BitVec.eq_of_toNat_eq h; rfl
theorem sa_156 (h : opc.toNat = 156) :
    straightArmSrc ⟨opc, dstb, srcb, off, imm⟩ = some (armB helpers p pc ⟨opc, dstb, srcb, off, imm⟩) := by
  obtain rfl : opc = 156 := BitVec.eq_of_toNat_eq h; rfl
theorem sa_159 (h : opc.toNat = 159) :
    straightArmSrc ⟨opc, dstb, srcb, off, imm⟩ = some (armB helpers p pc ⟨opc, dstb, srcb, off, imm⟩) := by
  obtain rfl : opc = 159 := BitVec.eq_of_toNat_eq h; rfl
theorem sa_164 (h : opc.toNat = 164) :
    straightArmSrc ⟨opc, dstb, srcb, off, imm⟩ = some (armB helpers p pc ⟨opc, dstb, srcb, off, imm⟩) := by
  obtain rfl : opc = 164 := BitVec.eq_of_toNat_eq h; rfl
theorem sa_167 (h : opc.toNat = 167) :
    straightArmSrc ⟨opc, dstb, srcb, off, imm⟩ = some (armB helpers p pc ⟨opc, dstb, srcb, off, imm⟩) := by
  obtain rfl : opc = 167 := BitVec.eq_of_toNat_eq h; rfl
theorem sa_172 (h : opc.toNat = 172) :
    straightArmSrc ⟨opc, dstb, srcb, off, imm⟩ = some (armB helpers p pc ⟨opc, dstb, srcb, off, imm⟩) := by
  obtain rfl : opc = 172 := BitVec.eq_of_toNat_eq h; rfl
theorem sa_175 (h : opc.toNat = 175) :
    straightArmSrc ⟨opc, dstb, srcb, off, imm⟩ = some (armB helpers p pc ⟨opc, dstb, srcb, off, imm⟩) := by
  obtain rfl : opc = 175 := BitVec.eq_of_toNat_eq h; rfl
theorem sa_180 (h : opc.toNat = 180) :
    straightArmSrc ⟨opc, dstb, srcb, off, imm⟩ = some (armB helpers p pc ⟨opc, dstb, srcb, off, imm⟩) := by
  obtain rfl : opc = 180 := BitVec.eq_of_toNat_eq h; rfl
theorem sa_183 (h : opc.toNat = 183) :
    straightArmSrc ⟨opc, dstb, srcb, off, imm⟩ = some (armB helpers p pc ⟨opc, dstb, srcb, off, imm⟩) := by
  obtain rfl : opc = 183 := BitVec.eq_of_toNat_eq h; rfl
theorem sa_188 (h : opc.toNat = 188) :
    straightArmSrc ⟨opc, dstb, srcb, off, imm⟩ = some (armB helpers p pc ⟨opc, dstb, srcb, off, imm⟩) := by
  obtain rfl : opc = 188 := BitVec.eq_of_toNat_eq h; rfl
theorem sa_191 (h : opc.toNat = 191) :
    straightArmSrc ⟨opc, dstb, srcb, off, imm⟩ = some (armB helpers p pc ⟨opc, dstb, srcb, off, imm⟩) := by
  obtain rfl : opc = 191 := BitVec.eq_of_toNat_eq h; rfl
theorem sa_195 (h : opc.toNat = 195) :
    straightArmSrc ⟨opc, dstb, srcb, off, imm⟩ = some (armB helpers p pc ⟨opc, dstb, srcb, off, imm⟩) := by
  obtain rfl : opc = 195 := BitVec.eq_of_toNat_eq h; rfl
theorem sa_196 (h : opc.toNat = 196) :
    straightArmSrc ⟨opc, dstb, srcb, off, imm⟩ = some (armB helpers p pc ⟨opc, dstb, srcb, off, imm⟩) := by
  obtain rfl : opc = 196 := BitVec.eq_of_toNat_eq h; rfl
theorem sa_199 (h : opc.toNat = 199) :
    straightArmSrc ⟨opc, dstb, srcb, off, imm⟩ = some (armB helpers p pc ⟨opc, dstb, srcb, off, imm⟩) := by
  obtain rfl : opc = 199 := BitVec.eq_of_toNat_eq h; rfl
theorem sa_204 (h : opc.toNat = 204) :
    straightArmSrc ⟨opc, dstb, srcb, off, imm⟩ = some (armB helpers p pc ⟨opc, dstb, srcb, off, imm⟩) := by
  obtain rfl : opc = 204 := BitVec.eq_of_toNat_eq h; rfl
theorem sa_207 (h : opc.toNat = 207) :
    straightArmSrc ⟨opc, dstb, srcb, off, imm⟩ = some (armB helpers p pc ⟨opc, dstb, srcb, off, imm⟩) := by
  obtain rfl : opc = 207 := BitVec.eq_of_toNat_eq h; rfl
theorem sa_212 (h : opc.toNat = 212) :
    straightArmSrc ⟨opc, dstb, srcb, off, imm⟩ = some (armB helpers p pc ⟨opc, dstb, srcb, off, imm⟩) := by
  obtain rfl : opc = 212 := BitVec.eq_of_toNat_eq h
  have e : armB helpers p pc ⟨212, dstb, srcb, off, imm⟩ = endian ⟨212, dstb, srcb, off, imm⟩ := by rfl
  rw [e]
  conv => lhs; whnf
  refine congrArg some ?_
  simp only [BitVec.reduceToNat, pure_bind, insnDst_eq, setDst_eq, ne_eq]
  unfold endian
  by_cases h16 : imm = 16
  · subst h16; simp [hostLittle]
  by_cases h32 : imm = 32
  · subst h32; simp [hostLittle]
  by_cases h64 : imm = 64
  · subst h64; simp [hostLittle]
  simp only [h16, h32, h64, ↓reduceIte]
  split
  · rename_i hh; exact absurd (BitVec.eq_of_toInt_eq (hh.trans (by decide))) h16
  · rename_i hh; exact absurd (BitVec.eq_of_toInt_eq (hh.trans (by decide))) h32
  · rename_i hh; exact absurd (BitVec.eq_of_toInt_eq (hh.trans (by decide))) h64
  · rfl
theorem sa_219 (h : opc.toNat = 219) :
    straightArmSrc ⟨opc, dstb, srcb, off, imm⟩ = some (armB helpers p pc ⟨opc, dstb, srcb, off, imm⟩) := by
  obtain rfl : opc = 219 := BitVec.eq_of_toNat_eq h; rfl
theorem sa_220 (h : opc.toNat = 220) :
    straightArmSrc ⟨opc, dstb, srcb, off, imm⟩ = some (armB helpers p pc ⟨opc, dstb, srcb, off, imm⟩) := by
  obtain rfl : opc = 220 := BitVec.eq_of_toNat_eq h
  have e : armB helpers p pc ⟨220, dstb, srcb, off, imm⟩ = endian ⟨220, dstb, srcb, off, imm⟩ := by rfl
  rw [e]
  conv => lhs; whnf
  refine congrArg some ?_
  simp only [BitVec.reduceToNat, pure_bind, insnDst_eq, setDst_eq, ne_eq]
  unfold endian
  by_cases h16 : imm = 16
  · subst h16; simp [hostLittle]
  by_cases h32 : imm = 32
  · subst h32; simp [hostLittle]
  by_cases h64 : imm = 64
  · subst h64; simp [hostLittle]
  simp only [h16, h32, h64, ↓reduceIte]
  split
  · rename_i hh; exact absurd (BitVec.eq_of_toInt_eq (hh.trans (by decide))) h16
  · rename_i hh; exact absurd (BitVec.eq_of_toInt_eq (hh.trans (by decide))) h32
  · rename_i hh; exact absurd (BitVec.eq_of_toInt_eq (hh.trans (by decide))) h64
  · rfl
end

theorem straightArm_eq (helpers : Nat → Bool) (p : Bytes) (pc : Nat) (i : Insn) (h : i.opc.toNat ∈ straightOpcodes) :
    straightArmSrc i = some (armB helpers p pc i) := by
  obtain ⟨opc, dstb, srcb, off, imm⟩ := i
  simp only [straightOpcodes, List.mem_cons, List.not_mem_nil, or_false] at h
  rcases h with h | h | h | h | h | h | h | h | h | h | h | h | h | h | h | h | h | h | h | h | h | h | h | h | h | h | h | h | h | h |
    h | h | h | h | h | h | h | h | h | h | h | h | h | h | h | h | h | h | h | h | h | h | h | h | h | h | h | h | h | h |
    h | h | h | h | h | h | h | h | h | h | h | h | h | h
  · exact sa_4 h
  · exact sa_7 h
  · exact sa_12 h
  · exact sa_15 h
  · exact sa_20 h
  · exact sa_23 h
  · exact sa_28 h
  · exact sa_31 h
  · exact sa_32 h
  · exact sa_36 h
  · exact sa_39 h
  · exact sa_40 h
  · exact sa_44 h
  · exact sa_47 h
  · exact sa_48 h
  · exact sa_52 h
  · exact sa_55 h
  · exact sa_56 h
  · exact sa_60 h
  · exact sa_63 h
  · exact sa_64 h
  · exact sa_68 h
  · exact sa_71 h
  · exact sa_72 h
  · exact sa_76 h
  · exact sa_79 h
  · exact sa_80 h
  · exact sa_84 h
  · exact sa_87 h
  · exact sa_88 h
  · exact sa_92 h
  · exact sa_95 h
  · exact sa_97 h
  · exact sa_98 h
  · exact sa_99 h
  · exact sa_100 h
  · exact sa_103 h
  · exact sa_105 h
  · exact sa_106 h
  · exact sa_107 h
  · exact sa_108 h
  · exact sa_111 h
  · exact sa_113 h
  · exact sa_114 h
  · exact sa_115 h
  · exact sa_116 h
  · exact sa_119 h
  · exact sa_121 h
  · exact sa_122 h
  · exact sa_123 h
  · exact sa_124 h
  · exact sa_127 h
  · exact sa_132 h
  · exact sa_135 h
  · exact sa_148 h
  · exact sa_151 h
  · exact sa_156 h
  · exact sa_159 h
  · exact sa_164 h
  · exact sa_167 h
  · exact sa_172 h
  · exact sa_175 h
  · exact sa_180 h
  · exact sa_183 h
  · exact sa_188 h
  · exact sa_191 h
  · exact sa_195 h
  · exact sa_196 h
  · exact sa_199 h
  · exact sa_204 h
  · exact sa_207 h
  · exact sa_212 h
  · exact sa_219 h
  · exact sa_220 h

/-! ## the arms with control flow of their own

    Again one lemma per opcode.  For the 44 conditional jumps the model's arm is the default arm of `armB` (`isCondJump` evaluated by `decide`),
    the source's shared arm is brought to the opcode by `whnf` and `simp` evaluates `opc &&& 0xf0` etc.; the comparison code the source looks
    up first (`intcc ← match …`) is a `pure` at every one of these opcodes. -/

section
variable {helpers : Nat → Bool} {p : Bytes} {pc : Nat} {opc dstb srcb : BitVec 8} {off : BitVec 16} {imm : BitVec 32}

/-- the constant of `lddw` -/
theorem lddw_bv (lo hi : BitVec 32) : BitVec.setWidth 64 lo + (BitVec.signExtend 64 hi <<< 32) = hi ++ lo := by
  apply BitVec.eq_of_toNat_eq
  rw [BitVec.toNat_append, ← Nat.shiftLeft_add_eq_or_of_lt lo.isLt]
  rw [BitVec.toNat_add, BitVec.toNat_shiftLeft, BitVec.toNat_signExtend, Nat.shiftLeft_eq, Nat.shiftLeft_eq]
  have := lo.isLt; have := hi.isLt
  cases hi.msb <;> simp <;> omega

theorem ca_24 (h : opc.toNat = 24) :
    ctlArmSrc helpers p pc ⟨opc, dstb, srcb, off, imm⟩ = some (armB helpers p pc ⟨opc, dstb, srcb, off, imm⟩) := by
  obtain rfl : opc = 24 := BitVec.eq_of_toNat_eq h
  have e : armB helpers p pc ⟨24, dstb, srcb, off, imm⟩ =
      (match getInsn? p (pc + 1) with
       | none => throw .panic
       | some nextInsn => do
         let iconst ← ins (.iconst .i64 (nextInsn.imm ++ imm))
         setDst ⟨24, dstb, srcb, off, imm⟩ iconst) := by rfl
  rw [e]
  conv => lhs; whnf
  refine congrArg some ?_
  cases getInsn? p (pc + 1) with
  | none => rfl
  | some nx => simp only [pure_bind, lddw_bv, setDst_eq]

theorem ca_5 (h : opc.toNat = 5) :
    ctlArmSrc helpers p pc ⟨opc, dstb, srcb, off, imm⟩ = some (armB helpers p pc ⟨opc, dstb, srcb, off, imm⟩) := by
  obtain rfl : opc = 5 := BitVec.eq_of_toNat_eq h; rfl
theorem ca_21 (h : opc.toNat = 21) :
    ctlArmSrc helpers p pc ⟨opc, dstb, srcb, off, imm⟩ = some (armB helpers p pc ⟨opc, dstb, srcb, off, imm⟩) := by
  obtain rfl : opc = 21 := BitVec.eq_of_toNat_eq h
  have e : armB helpers p pc ⟨21, dstb, srcb, off, imm⟩ =
      if isCondJump 21 = true then condJump pc ⟨21, dstb, srcb, off, imm⟩ else throw .panic := by rfl
  rw [e, if_pos (by decide)]
  conv => lhs; whnf
  refine congrArg some ?_
  simp only [BitVec.reduceToNat, condJump, insnImm64_eq, insnDst_eq, Nat.reduceAnd, pure_bind, Nat.reduceBEq, Nat.reduceBNe,
    Nat.reduceEqDiff, ↓reduceIte, Bool.false_eq_true, show jumpCC 21 = some CC.eq from by decide]
theorem ca_22 (h : opc.toNat = 22) :
    ctlArmSrc helpers p pc ⟨opc, dstb, srcb, off, imm⟩ = some (armB helpers p pc ⟨opc, dstb, srcb, off, imm⟩) := by
  obtain rfl : opc = 22 := BitVec.eq_of_toNat_eq h
  have e : armB helpers p pc ⟨22, dstb, srcb, off, imm⟩ =
      if isCondJump 22 = true then condJump pc ⟨22, dstb, srcb, off, imm⟩ else throw .panic := by rfl
  rw [e, if_pos (by decide)]
  conv => lhs; whnf
  refine congrArg some ?_
  simp only [BitVec.reduceToNat, condJump, insnImm32_eq, insnDst32_eq, Nat.reduceAnd, pure_bind, Nat.reduceBEq, Nat.reduceBNe,
    Nat.reduceEqDiff, ↓reduceIte, show jumpCC 22 = some CC.eq from by decide]
theorem ca_29 (h : opc.toNat = 29) :
    ctlArmSrc helpers p pc ⟨opc, dstb, srcb, off, imm⟩ = some (armB helpers p pc ⟨opc, dstb, srcb, off, imm⟩) := by
  obtain rfl : opc = 29 := BitVec.eq_of_toNat_eq h
  have e : armB helpers p pc ⟨29, dstb, srcb, off, imm⟩ =
      if isCondJump 29 = true then condJump pc ⟨29, dstb, srcb, off, imm⟩ else throw .panic := by rfl
  rw [e, if_pos (by decide)]
  conv => lhs; whnf
  refine congrArg some ?_
  simp only [BitVec.reduceToNat, condJump, insnDst_eq, insnSrc_eq, Nat.reduceAnd, pure_bind, Nat.reduceBEq, Nat.reduceBNe,
    Nat.reduceEqDiff, ↓reduceIte, Bool.false_eq_true, show jumpCC 29 = some CC.eq from by decide]
theorem ca_30 (h : opc.toNat = 30) :
    ctlArmSrc helpers p pc ⟨opc, dstb, srcb, off, imm⟩ = some (armB helpers p pc ⟨opc, dstb, srcb, off, imm⟩) := by
  obtain rfl : opc = 30 := BitVec.eq_of_toNat_eq h
  have e : armB helpers p pc ⟨30, dstb, srcb, off, imm⟩ =
      if isCondJump 30 = true then condJump pc ⟨30, dstb, srcb, off, imm⟩ else throw .panic := by rfl
  rw [e, if_pos (by decide)]
  conv => lhs; whnf
  refine congrArg some ?_
  simp only [BitVec.reduceToNat, condJump, insnDst32_eq, insnSrc32_eq, Nat.reduceAnd, pure_bind, Nat.reduceBEq, Nat.reduceBNe,
    Nat.reduceEqDiff, ↓reduceIte, show jumpCC 30 = some CC.eq from by decide]
theorem ca_37 (h : opc.toNat = 37) :
    ctlArmSrc helpers p pc ⟨opc, dstb, srcb, off, imm⟩ = some (armB helpers p pc ⟨opc, dstb, srcb, off, imm⟩) := by
  obtain rfl : opc = 37 := BitVec.eq_of_toNat_eq h
  have e : armB helpers p pc ⟨37, dstb, srcb, off, imm⟩ =
      if isCondJump 37 = true then condJump pc ⟨37, dstb, srcb, off, imm⟩ else throw .panic := by rfl
  rw [e, if_pos (by decide)]
  conv => lhs; whnf
  refine congrArg some ?_
  simp only [BitVec.reduceToNat, condJump, insnImm64_eq, insnDst_eq, Nat.reduceAnd, pure_bind, Nat.reduceBEq, Nat.reduceBNe,
    Nat.reduceEqDiff, ↓reduceIte, Bool.false_eq_true, show jumpCC 37 = some CC.ugt from by decide]
theorem ca_38 (h : opc.toNat = 38) :
    ctlArmSrc helpers p pc ⟨opc, dstb, srcb, off, imm⟩ = some (armB helpers p pc ⟨opc, dstb, srcb, off, imm⟩) := by
  obtain rfl : opc = 38 := BitVec.eq_of_toNat_eq h
  have e : armB helpers p pc ⟨38, dstb, srcb, off, imm⟩ =
      if isCondJump 38 = true then condJump pc ⟨38, dstb, srcb, off, imm⟩ else throw .panic := by rfl
  rw [e, if_pos (by decide)]
  conv => lhs; whnf
  refine congrArg some ?_
  simp only [BitVec.reduceToNat, condJump, insnImm32_eq, insnDst32_eq, Nat.reduceAnd, pure_bind, Nat.reduceBEq, Nat.reduceBNe,
    Nat.reduceEqDiff, ↓reduceIte, show jumpCC 38 = some CC.ugt from by decide]
theorem ca_45 (h : opc.toNat = 45) :
    ctlArmSrc helpers p pc ⟨opc, dstb, srcb, off, imm⟩ = some (armB helpers p pc ⟨opc, dstb, srcb, off, imm⟩) := by
  obtain rfl : opc = 45 := BitVec.eq_of_toNat_eq h
  have e : armB helpers p pc ⟨45, dstb, srcb, off, imm⟩ =
      if isCondJump 45 = true then condJump pc ⟨45, dstb, srcb, off, imm⟩ else throw .panic := by rfl
  rw [e, if_pos (by decide)]
  conv => lhs; whnf
  refine congrArg some ?_
  simp only [BitVec.reduceToNat, condJump, insnDst_eq, insnSrc_eq, Nat.reduceAnd, pure_bind, Nat.reduceBEq, Nat.reduceBNe,
    Nat.reduceEqDiff, ↓reduceIte, Bool.false_eq_true, show jumpCC 45 = some CC.ugt from by decide]
theorem ca_46 (h : opc.toNat = 46) :
    ctlArmSrc helpers p pc ⟨opc, dstb, srcb, off, imm⟩ = some (armB helpers p pc ⟨opc, dstb, srcb, off, imm⟩) := by
  obtain rfl : opc = 46 := BitVec.eq_of_toNat_eq h
  have e : armB helpers p pc ⟨46, dstb, srcb, off, imm⟩ =
      if isCondJump 46 = true then condJump pc ⟨46, dstb, srcb, off, imm⟩ else throw .panic := by rfl
  rw [e, if_pos (by decide)]
  conv => lhs; whnf
  refine congrArg some ?_
  simp only [BitVec.reduceToNat, condJump, insnDst32_eq, insnSrc32_eq, Nat.reduceAnd, pure_bind, Nat.reduceBEq, Nat.reduceBNe,
    Nat.reduceEqDiff, ↓reduceIte, show jumpCC 46 = some CC.ugt from by decide]
theorem ca_53 (h : opc.toNat = 53) :
    ctlArmSrc helpers p pc ⟨opc, dstb, srcb, off, imm⟩ = some (armB helpers p pc ⟨opc, dstb, srcb, off, imm⟩) := by
  obtain rfl : opc = 53 := BitVec.eq_of_toNat_eq h
  have e : armB helpers p pc ⟨53, dstb, srcb, off, imm⟩ =
      if isCondJump 53 = true then condJump pc ⟨53, dstb, srcb, off, imm⟩ else throw .panic := by rfl
  rw [e, if_pos (by decide)]
  conv => lhs; whnf
  refine congrArg some ?_
  simp only [BitVec.reduceToNat, condJump, insnImm64_eq, insnDst_eq, Nat.reduceAnd, pure_bind, Nat.reduceBEq, Nat.reduceBNe,
    Nat.reduceEqDiff, ↓reduceIte, Bool.false_eq_true, show jumpCC 53 = some CC.uge from by decide]
theorem ca_54 (h : opc.toNat = 54) :
    ctlArmSrc helpers p pc ⟨opc, dstb, srcb, off, imm⟩ = some (armB helpers p pc ⟨opc, dstb, srcb, off, imm⟩) := by
  obtain rfl : opc = 54 := BitVec.eq_of_toNat_eq h
  have e : armB helpers p pc ⟨54, dstb, srcb, off, imm⟩ =
      if isCondJump 54 = true then condJump pc ⟨54, dstb, srcb, off, imm⟩ else throw .panic := by rfl
  rw [e, if_pos (by decide)]
  conv => lhs; whnf
  refine congrArg some ?_
  simp only [BitVec.reduceToNat, condJump, insnImm32_eq, insnDst32_eq, Nat.reduceAnd, pure_bind, Nat.reduceBEq, Nat.reduceBNe,
    Nat.reduceEqDiff, ↓reduceIte, show jumpCC 54 = some CC.uge from by decide]
theorem ca_61 (h : opc.toNat = 61) :
    ctlArmSrc helpers p pc ⟨opc, dstb, srcb, off, imm⟩ = some (armB helpers p pc ⟨opc, dstb, srcb, off, imm⟩) := by
  obtain rfl : opc = 61 := BitVec.eq_of_toNat_eq h
  have e : armB helpers p pc ⟨61, dstb, srcb, off, imm⟩ =
      if isCondJump 61 = true then condJump pc ⟨61, dstb, srcb, off, imm⟩ else throw .panic := by rfl
  rw [e, if_pos (by decide)]
  conv => lhs; whnf
  refine congrArg some ?_
  simp only [BitVec.reduceToNat, condJump, insnDst_eq, insnSrc_eq, Nat.reduceAnd, pure_bind, Nat.reduceBEq, Nat.reduceBNe,
    Nat.reduceEqDiff, ↓reduceIte, Bool.false_eq_true, show jumpCC 61 = some CC.uge from by decide]
theorem ca_62 (h : opc.toNat = 62) :
    ctlArmSrc helpers p pc ⟨opc, dstb, srcb, off, imm⟩ = some (armB helpers p pc ⟨opc, dstb, srcb, off, imm⟩) := by
  obtain rfl : opc = 62 := BitVec.eq_of_toNat_eq h
  have e : armB helpers p pc ⟨62, dstb, srcb, off, imm⟩ =
      if isCondJump 62 = true then condJump pc ⟨62, dstb, srcb, off, imm⟩ else throw .panic := by rfl
  rw [e, if_pos (by decide)]
  conv => lhs; whnf
  refine congrArg some ?_
  simp only [BitVec.reduceToNat, condJump, insnDst32_eq, insnSrc32_eq, Nat.reduceAnd, pure_bind, Nat.reduceBEq, Nat.reduceBNe,
    Nat.reduceEqDiff, ↓reduceIte, show jumpCC 62 = some CC.uge from by decide]
theorem ca_69 (h : opc.toNat = 69) :
    ctlArmSrc helpers p pc ⟨opc, dstb, srcb, off, imm⟩ = some (armB helpers p pc ⟨opc, dstb, srcb, off, imm⟩) := by
  obtain rfl : opc = 69 := BitVec.eq_of_toNat_eq h
  have e : armB helpers p pc ⟨69, dstb, srcb, off, imm⟩ =
      if isCondJump 69 = true then condJump pc ⟨69, dstb, srcb, off, imm⟩ else throw .panic := by rfl
  rw [e, if_pos (by decide)]
  conv => lhs; whnf
  refine congrArg some ?_
  simp only [BitVec.reduceToNat, condJump, insnImm64_eq, insnDst_eq, Nat.reduceAnd, pure_bind, Nat.reduceBEq, Nat.reduceBNe,
    ↓reduceIte, Bool.false_eq_true]
theorem ca_70 (h : opc.toNat = 70) :
    ctlArmSrc helpers p pc ⟨opc, dstb, srcb, off, imm⟩ = some (armB helpers p pc ⟨opc, dstb, srcb, off, imm⟩) := by
  obtain rfl : opc = 70 := BitVec.eq_of_toNat_eq h
  have e : armB helpers p pc ⟨70, dstb, srcb, off, imm⟩ =
      if isCondJump 70 = true then condJump pc ⟨70, dstb, srcb, off, imm⟩ else throw .panic := by rfl
  rw [e, if_pos (by decide)]
  conv => lhs; whnf
  refine congrArg some ?_
  simp only [BitVec.reduceToNat, condJump, insnImm32_eq, insnDst32_eq, Nat.reduceAnd, pure_bind, Nat.reduceBEq, Nat.reduceBNe,
    ↓reduceIte]
theorem ca_77 (h : opc.toNat = 77) :
    ctlArmSrc helpers p pc ⟨opc, dstb, srcb, off, imm⟩ = some (armB helpers p pc ⟨opc, dstb, srcb, off, imm⟩) := by
  obtain rfl : opc = 77 := BitVec.eq_of_toNat_eq h
  have e : armB helpers p pc ⟨77, dstb, srcb, off, imm⟩ =
      if isCondJump 77 = true then condJump pc ⟨77, dstb, srcb, off, imm⟩ else throw .panic := by rfl
  rw [e, if_pos (by decide)]
  conv => lhs; whnf
  refine congrArg some ?_
  simp only [BitVec.reduceToNat, condJump, insnDst_eq, insnSrc_eq, Nat.reduceAnd, pure_bind, Nat.reduceBEq, Nat.reduceBNe,
    ↓reduceIte, Bool.false_eq_true]
theorem ca_78 (h : opc.toNat = 78) :
    ctlArmSrc helpers p pc ⟨opc, dstb, srcb, off, imm⟩ = some (armB helpers p pc ⟨opc, dstb, srcb, off, imm⟩) := by
  obtain rfl : opc = 78 := BitVec.eq_of_toNat_eq h
  have e : armB helpers p pc ⟨78, dstb, srcb, off, imm⟩ =
      if isCondJump 78 = true then condJump pc ⟨78, dstb, srcb, off, imm⟩ else throw .panic := by rfl
  rw [e, if_pos (by decide)]
  conv => lhs; whnf
  refine congrArg some ?_
  simp only [BitVec.reduceToNat, condJump, insnDst32_eq, insnSrc32_eq, Nat.reduceAnd, pure_bind, Nat.reduceBEq, Nat.reduceBNe,
    ↓reduceIte]
theorem ca_85 (h : opc.toNat = 85) :
    ctlArmSrc helpers p pc ⟨opc, dstb, srcb, off, imm⟩ = some (armB helpers p pc ⟨opc, dstb, srcb, off, imm⟩) := by
  obtain rfl : opc = 85 := BitVec.eq_of_toNat_eq h
  have e : armB helpers p pc ⟨85, dstb, srcb, off, imm⟩ =
      if isCondJump 85 = true then condJump pc ⟨85, dstb, srcb, off, imm⟩ else throw .panic := by rfl
  rw [e, if_pos (by decide)]
  conv => lhs; whnf
  refine congrArg some ?_
  simp only [BitVec.reduceToNat, condJump, insnImm64_eq, insnDst_eq, Nat.reduceAnd, pure_bind, Nat.reduceBEq, Nat.reduceBNe,
    Nat.reduceEqDiff, ↓reduceIte, Bool.false_eq_true, show jumpCC 85 = some CC.ne from by decide]
theorem ca_86 (h : opc.toNat = 86) :
    ctlArmSrc helpers p pc ⟨opc, dstb, srcb, off, imm⟩ = some (armB helpers p pc ⟨opc, dstb, srcb, off, imm⟩) := by
  obtain rfl : opc = 86 := BitVec.eq_of_toNat_eq h
  have e : armB helpers p pc ⟨86, dstb, srcb, off, imm⟩ =
      if isCondJump 86 = true then condJump pc ⟨86, dstb, srcb, off, imm⟩ else throw .panic := by rfl
  rw [e, if_pos (by decide)]
  conv => lhs; whnf
  refine congrArg some ?_
  simp only [BitVec.reduceToNat, condJump, insnImm32_eq, insnDst32_eq, Nat.reduceAnd, pure_bind, Nat.reduceBEq, Nat.reduceBNe,
    Nat.reduceEqDiff, ↓reduceIte, show jumpCC 86 = some CC.ne from by decide]
theorem ca_93 (h : opc.toNat = 93) :
    ctlArmSrc helpers p pc ⟨opc, dstb, srcb, off, imm⟩ = some (armB helpers p pc ⟨opc, dstb, srcb, off, imm⟩) := by
  obtain rfl : opc = 93 := BitVec.eq_of_toNat_eq h
  have e : armB helpers p pc ⟨93, dstb, srcb, off, imm⟩ =
      if isCondJump 93 = true then condJump pc ⟨93, dstb, srcb, off, imm⟩ else throw .panic := by rfl
  rw [e, if_pos (by decide)]
  conv => lhs; whnf
  refine congrArg some ?_
  simp only [BitVec.reduceToNat, condJump, insnDst_eq, insnSrc_eq, Nat.reduceAnd, pure_bind, Nat.reduceBEq, Nat.reduceBNe,
    Nat.reduceEqDiff, ↓reduceIte, Bool.false_eq_true, show jumpCC 93 = some CC.ne from by decide]
theorem ca_94 (h : opc.toNat = 94) :
    ctlArmSrc helpers p pc ⟨opc, dstb, srcb, off, imm⟩ = some (armB helpers p pc ⟨opc, dstb, srcb, off, imm⟩) := by
  obtain rfl : opc = 94 := BitVec.eq_of_toNat_eq h
  have e : armB helpers p pc ⟨94, dstb, srcb, off, imm⟩ =
      if isCondJump 94 = true then condJump pc ⟨94, dstb, srcb, off, imm⟩ else throw .panic := by rfl
  rw [e, if_pos (by decide)]
  conv => lhs; whnf
  refine congrArg some ?_
  simp only [BitVec.reduceToNat, condJump, insnDst32_eq, insnSrc32_eq, Nat.reduceAnd, pure_bind, Nat.reduceBEq, Nat.reduceBNe,
    Nat.reduceEqDiff, ↓reduceIte, show jumpCC 94 = some CC.ne from by decide]
theorem ca_101 (h : opc.toNat = 101) :
    ctlArmSrc helpers p pc ⟨opc, dstb, srcb, off, imm⟩ = some (armB helpers p pc ⟨opc, dstb, srcb, off, imm⟩) := by
  obtain rfl : opc = 101 := BitVec.eq_of_toNat_eq h
  have e : armB helpers p pc ⟨101, dstb, srcb, off, imm⟩ =
      if isCondJump 101 = true then condJump pc ⟨101, dstb, srcb, off, imm⟩ else throw .panic := by rfl
  rw [e, if_pos (by decide)]
  conv => lhs; whnf
  refine congrArg some ?_
  simp only [BitVec.reduceToNat, condJump, insnImm64_eq, insnDst_eq, Nat.reduceAnd, pure_bind, Nat.reduceBEq, Nat.reduceBNe,
    Nat.reduceEqDiff, ↓reduceIte, Bool.false_eq_true, show jumpCC 101 = some CC.sgt from by decide]
theorem ca_102 (h : opc.toNat = 102) :
    ctlArmSrc helpers p pc ⟨opc, dstb, srcb, off, imm⟩ = some (armB helpers p pc ⟨opc, dstb, srcb, off, imm⟩) := by
  obtain rfl : opc = 102 := BitVec.eq_of_toNat_eq h
  have e : armB helpers p pc ⟨102, dstb, srcb, off, imm⟩ =
      if isCondJump 102 = true then condJump pc ⟨102, dstb, srcb, off, imm⟩ else throw .panic := by rfl
  rw [e, if_pos (by decide)]
  conv => lhs; whnf
  refine congrArg some ?_
  simp only [BitVec.reduceToNat, condJump, insnImm32_eq, insnDst32_eq, Nat.reduceAnd, pure_bind, Nat.reduceBEq, Nat.reduceBNe,
    Nat.reduceEqDiff, ↓reduceIte, show jumpCC 102 = some CC.sgt from by decide]
theorem ca_109 (h : opc.toNat = 109) :
    ctlArmSrc helpers p pc ⟨opc, dstb, srcb, off, imm⟩ = some (armB helpers p pc ⟨opc, dstb, srcb, off, imm⟩) := by
  obtain rfl : opc = 109 := BitVec.eq_of_toNat_eq h
  have e : armB helpers p pc ⟨109, dstb, srcb, off, imm⟩ =
      if isCondJump 109 = true then condJump pc ⟨109, dstb, srcb, off, imm⟩ else throw .panic := by rfl
  rw [e, if_pos (by decide)]
  conv => lhs; whnf
  refine congrArg some ?_
  simp only [BitVec.reduceToNat, condJump, insnDst_eq, insnSrc_eq, Nat.reduceAnd, pure_bind, Nat.reduceBEq, Nat.reduceBNe,
    Nat.reduceEqDiff, ↓reduceIte, Bool.false_eq_true, show jumpCC 109 = some CC.sgt from by decide]
theorem ca_110 (h : opc.toNat = 110) :
    ctlArmSrc helpers p pc ⟨opc, dstb, srcb, off, imm⟩ = some (armB helpers p pc ⟨opc, dstb, srcb, off, imm⟩) := by
  obtain rfl : opc = 110 := BitVec.eq_of_toNat_eq h
  have e : armB helpers p pc ⟨110, dstb, srcb, off, imm⟩ =
      if isCondJump 110 = true then condJump pc ⟨110, dstb, srcb, off, imm⟩ else throw .panic := by rfl
  rw [e, if_pos (by decide)]
  conv => lhs; whnf
  refine congrArg some ?_
  simp only [BitVec.reduceToNat, condJump, insnDst32_eq, insnSrc32_eq, Nat.reduceAnd, pure_bind, Nat.reduceBEq, Nat.reduceBNe,
    Nat.reduceEqDiff, ↓reduceIte, show jumpCC 110 = some CC.sgt from by decide]
theorem ca_117 (h : opc.toNat = 117) :
    ctlArmSrc helpers p pc ⟨opc, dstb, srcb, off, imm⟩ = some (armB helpers p pc ⟨opc, dstb, srcb, off, imm⟩) := by
  obtain rfl : opc = 117 := BitVec.eq_of_toNat_eq h
  have e : armB helpers p pc ⟨117, dstb, srcb, off, imm⟩ =
      if isCondJump 117 = true then condJump pc ⟨117, dstb, srcb, off, imm⟩ else throw .panic := by rfl
  rw [e, if_pos (by decide)]
  conv => lhs; whnf
  refine congrArg some ?_
  simp only [BitVec.reduceToNat, condJump, insnImm64_eq, insnDst_eq, Nat.reduceAnd, pure_bind, Nat.reduceBEq, Nat.reduceBNe,
    Nat.reduceEqDiff, ↓reduceIte, Bool.false_eq_true, show jumpCC 117 = some CC.sge from by decide]
theorem ca_118 (h : opc.toNat = 118) :
    ctlArmSrc helpers p pc ⟨opc, dstb, srcb, off, imm⟩ = some (armB helpers p pc ⟨opc, dstb, srcb, off, imm⟩) := by
  obtain rfl : opc = 118 := BitVec.eq_of_toNat_eq h
  have e : armB helpers p pc ⟨118, dstb, srcb, off, imm⟩ =
      if isCondJump 118 = true then condJump pc ⟨118, dstb, srcb, off, imm⟩ else throw .panic := by rfl
  rw [e, if_pos (by decide)]
  conv => lhs; whnf
  refine congrArg some ?_
  simp only [BitVec.reduceToNat, condJump, insnImm32_eq, insnDst32_eq, Nat.reduceAnd, pure_bind, Nat.reduceBEq, Nat.reduceBNe,
    Nat.reduceEqDiff, ↓reduceIte, show jumpCC 118 = some CC.sge from by decide]
theorem ca_125 (h : opc.toNat = 125) :
    ctlArmSrc helpers p pc ⟨opc, dstb, srcb, off, imm⟩ = some (armB helpers p pc ⟨opc, dstb, srcb, off, imm⟩) := by
  obtain rfl : opc = 125 := BitVec.eq_of_toNat_eq h
  have e : armB helpers p pc ⟨125, dstb, srcb, off, imm⟩ =
      if isCondJump 125 = true then condJump pc ⟨125, dstb, srcb, off, imm⟩ else throw .panic := by rfl
  rw [e, if_pos (by decide)]
  conv => lhs; whnf
  refine congrArg some ?_
  simp only [BitVec.reduceToNat, condJump, insnDst_eq, insnSrc_eq, Nat.reduceAnd, pure_bind, Nat.reduceBEq, Nat.reduceBNe,
    Nat.reduceEqDiff, ↓reduceIte, Bool.false_eq_true, show jumpCC 125 = some CC.sge from by decide]
theorem ca_126 (h : opc.toNat = 126) :
    ctlArmSrc helpers p pc ⟨opc, dstb, srcb, off, imm⟩ = some (armB helpers p pc ⟨opc, dstb, srcb, off, imm⟩) := by
  obtain rfl : opc = 126 := BitVec.eq_of_toNat_eq h
  have e : armB helpers p pc ⟨126, dstb, srcb, off, imm⟩ =
      if isCondJump 126 = true then condJump pc ⟨126, dstb, srcb, off, imm⟩ else throw .panic := by rfl
  rw [e, if_pos (by decide)]
  conv => lhs; whnf
  refine congrArg some ?_
  simp only [BitVec.reduceToNat, condJump, insnDst32_eq, insnSrc32_eq, Nat.reduceAnd, pure_bind, Nat.reduceBEq, Nat.reduceBNe,
    Nat.reduceEqDiff, ↓reduceIte, show jumpCC 126 = some CC.sge from by decide]
theorem ca_133 (h : opc.toNat = 133) :
    ctlArmSrc helpers p pc ⟨opc, dstb, srcb, off, imm⟩ = some (armB helpers p pc ⟨opc, dstb, srcb, off, imm⟩) := by
  obtain rfl : opc = 133 := BitVec.eq_of_toNat_eq h; rfl
theorem ca_141 (h : opc.toNat = 141) :
    ctlArmSrc helpers p pc ⟨opc, dstb, srcb, off, imm⟩ = some (armB helpers p pc ⟨opc, dstb, srcb, off, imm⟩) := by
  obtain rfl : opc = 141 := BitVec.eq_of_toNat_eq h; rfl
theorem ca_149 (h : opc.toNat = 149) :
    ctlArmSrc helpers p pc ⟨opc, dstb, srcb, off, imm⟩ = some (armB helpers p pc ⟨opc, dstb, srcb, off, imm⟩) := by
  obtain rfl : opc = 149 := BitVec.eq_of_toNat_eq h; rfl
theorem ca_165 (h : opc.toNat = 165) :
    ctlArmSrc helpers p pc ⟨opc, dstb, srcb, off, imm⟩ = some (armB helpers p pc ⟨opc, dstb, srcb, off, imm⟩) := by
  obtain rfl : opc = 165 := BitVec.eq_of_toNat_eq h
  have e : armB helpers p pc ⟨165, dstb, srcb, off, imm⟩ =
      if isCondJump 165 = true then condJump pc ⟨165, dstb, srcb, off, imm⟩ else throw .panic := by rfl
  rw [e, if_pos (by decide)]
  conv => lhs; whnf
  refine congrArg some ?_
  simp only [BitVec.reduceToNat, condJump, insnImm64_eq, insnDst_eq, Nat.reduceAnd, pure_bind, Nat.reduceBEq, Nat.reduceBNe,
    Nat.reduceEqDiff, ↓reduceIte, Bool.false_eq_true, show jumpCC 165 = some CC.ult from by decide]
theorem ca_166 (h : opc.toNat = 166) :
    ctlArmSrc helpers p pc ⟨opc, dstb, srcb, off, imm⟩ = some (armB helpers p pc ⟨opc, dstb, srcb, off, imm⟩) := by
  obtain rfl : opc = 166 := BitVec.eq_of_toNat_eq h
  have e : armB helpers p pc ⟨166, dstb, srcb, off, imm⟩ =
      if isCondJump 166 = true then condJump pc ⟨166, dstb, srcb, off, imm⟩ else throw .panic := by rfl
  rw [e, if_pos (by decide)]
  conv => lhs; whnf
  refine congrArg some ?_
  simp only [BitVec.reduceToNat, condJump, insnImm32_eq, insnDst32_eq, Nat.reduceAnd, pure_bind, Nat.reduceBEq, Nat.reduceBNe,
    Nat.reduceEqDiff, ↓reduceIte, show jumpCC 166 = some CC.ult from by decide]
theorem ca_173 (h : opc.toNat = 173) :
    ctlArmSrc helpers p pc ⟨opc, dstb, srcb, off, imm⟩ = some (armB helpers p pc ⟨opc, dstb, srcb, off, imm⟩) := by
  obtain rfl : opc = 173 := BitVec.eq_of_toNat_eq h
  have e : armB helpers p pc ⟨173, dstb, srcb, off, imm⟩ =
      if isCondJump 173 = true then condJump pc ⟨173, dstb, srcb, off, imm⟩ else throw .panic := by rfl
  rw [e, if_pos (by decide)]
  conv => lhs; whnf
  refine congrArg some ?_
  simp only [BitVec.reduceToNat, condJump, insnDst_eq, insnSrc_eq, Nat.reduceAnd, pure_bind, Nat.reduceBEq, Nat.reduceBNe,
    Nat.reduceEqDiff, ↓reduceIte, Bool.false_eq_true, show jumpCC 173 = some CC.ult from by decide]
theorem ca_174 (h : opc.toNat = 174) :
    ctlArmSrc helpers p pc ⟨opc, dstb, srcb, off, imm⟩ = some (armB helpers p pc ⟨opc, dstb, srcb, off, imm⟩) := by
  obtain rfl : opc = 174 := BitVec.eq_of_toNat_eq h
  have e : armB helpers p pc ⟨174, dstb, srcb, off, imm⟩ =
      if isCondJump 174 = true then condJump pc ⟨174, dstb, srcb, off, imm⟩ else throw .panic := by rfl
  rw [e, if_pos (by decide)]
  conv => lhs; whnf
  refine congrArg some ?_
  simp only [BitVec.reduceToNat, condJump, insnDst32_eq, insnSrc32_eq, Nat.reduceAnd, pure_bind, Nat.reduceBEq, Nat.reduceBNe,
    Nat.reduceEqDiff, ↓reduceIte, show jumpCC 174 = some CC.ult from by decide]
theorem ca_181 (h : opc.toNat = 181) :
    ctlArmSrc helpers p pc ⟨opc, dstb, srcb, off, imm⟩ = some (armB helpers p pc ⟨opc, dstb, srcb, off, imm⟩) := by
  obtain rfl : opc = 181 := BitVec.eq_of_toNat_eq h
  have e : armB helpers p pc ⟨181, dstb, srcb, off, imm⟩ =
      if isCondJump 181 = true then condJump pc ⟨181, dstb, srcb, off, imm⟩ else throw .panic := by rfl
  rw [e, if_pos (by decide)]
  conv => lhs; whnf
  refine congrArg some ?_
  simp only [BitVec.reduceToNat, condJump, insnImm64_eq, insnDst_eq, Nat.reduceAnd, pure_bind, Nat.reduceBEq, Nat.reduceBNe,
    Nat.reduceEqDiff, ↓reduceIte, Bool.false_eq_true, show jumpCC 181 = some CC.ule from by decide]
theorem ca_182 (h : opc.toNat = 182) :
    ctlArmSrc helpers p pc ⟨opc, dstb, srcb, off, imm⟩ = some (armB helpers p pc ⟨opc, dstb, srcb, off, imm⟩) := by
  obtain rfl : opc = 182 := BitVec.eq_of_toNat_eq h
  have e : armB helpers p pc ⟨182, dstb, srcb, off, imm⟩ =
      if isCondJump 182 = true then condJump pc ⟨182, dstb, srcb, off, imm⟩ else throw .panic := by rfl
  rw [e, if_pos (by decide)]
  conv => lhs; whnf
  refine congrArg some ?_
  simp only [BitVec.reduceToNat, condJump, insnImm32_eq, insnDst32_eq, Nat.reduceAnd, pure_bind, Nat.reduceBEq, Nat.reduceBNe,
    Nat.reduceEqDiff, ↓reduceIte, show jumpCC 182 = some CC.ule from by decide]
theorem ca_189 (h : opc.toNat = 189) :
    ctlArmSrc helpers p pc ⟨opc, dstb, srcb, off, imm⟩ = some (armB helpers p pc ⟨opc, dstb, srcb, off, imm⟩) := by
  obtain rfl : opc = 189 := BitVec.eq_of_toNat_eq h
  have e : armB helpers p pc ⟨189, dstb, srcb, off, imm⟩ =
      if isCondJump 189 = true then condJump pc ⟨189, dstb, srcb, off, imm⟩ else throw .panic := by rfl
  rw [e, if_pos (by decide)]
  conv => lhs; whnf
  refine congrArg some ?_
  simp only [BitVec.reduceToNat, condJump, insnDst_eq, insnSrc_eq, Nat.reduceAnd, pure_bind, Nat.reduceBEq, Nat.reduceBNe,
    Nat.reduceEqDiff, ↓reduceIte, Bool.false_eq_true, show jumpCC 189 = some CC.ule from by decide]
theorem ca_190 (h : opc.toNat = 190) :
    ctlArmSrc helpers p pc ⟨opc, dstb, srcb, off, imm⟩ = some (armB helpers p pc ⟨opc, dstb, srcb, off, imm⟩) := by
  obtain rfl : opc = 190 := BitVec.eq_of_toNat_eq h
  have e : armB helpers p pc ⟨190, dstb, srcb, off, imm⟩ =
      if isCondJump 190 = true then condJump pc ⟨190, dstb, srcb, off, imm⟩ else throw .panic := by rfl
  rw [e, if_pos (by decide)]
  conv => lhs; whnf
  refine congrArg some ?_
  simp only [BitVec.reduceToNat, condJump, insnDst32_eq, insnSrc32_eq, Nat.reduceAnd, pure_bind, Nat.reduceBEq, Nat.reduceBNe,
    Nat.reduceEqDiff, ↓reduceIte, show jumpCC 190 = some CC.ule from by decide]
theorem ca_197 (h : opc.toNat = 197) :
    ctlArmSrc helpers p pc ⟨opc, dstb, srcb, off, imm⟩ = some (armB helpers p pc ⟨opc, dstb, srcb, off, imm⟩) := by
  obtain rfl : opc = 197 := BitVec.eq_of_toNat_eq h
  have e : armB helpers p pc ⟨197, dstb, srcb, off, imm⟩ =
      if isCondJump 197 = true then condJump pc ⟨197, dstb, srcb, off, imm⟩ else throw .panic := by rfl
  rw [e, if_pos (by decide)]
  conv => lhs; whnf
  refine congrArg some ?_
  simp only [BitVec.reduceToNat, condJump, insnImm64_eq, insnDst_eq, Nat.reduceAnd, pure_bind, Nat.reduceBEq, Nat.reduceBNe,
    Nat.reduceEqDiff, ↓reduceIte, Bool.false_eq_true, show jumpCC 197 = some CC.slt from by decide]
theorem ca_198 (h : opc.toNat = 198) :
    ctlArmSrc helpers p pc ⟨opc, dstb, srcb, off, imm⟩ = some (armB helpers p pc ⟨opc, dstb, srcb, off, imm⟩) := by
  obtain rfl : opc = 198 := BitVec.eq_of_toNat_eq h
  have e : armB helpers p pc ⟨198, dstb, srcb, off, imm⟩ =
      if isCondJump 198 = true then condJump pc ⟨198, dstb, srcb, off, imm⟩ else throw .panic := by rfl
  rw [e, if_pos (by decide)]
  conv => lhs; whnf
  refine congrArg some ?_
  simp only [BitVec.reduceToNat, condJump, insnImm32_eq, insnDst32_eq, Nat.reduceAnd, pure_bind, Nat.reduceBEq, Nat.reduceBNe,
    Nat.reduceEqDiff, ↓reduceIte, show jumpCC 198 = some CC.slt from by decide]
theorem ca_205 (h : opc.toNat = 205) :
    ctlArmSrc helpers p pc ⟨opc, dstb, srcb, off, imm⟩ = some (armB helpers p pc ⟨opc, dstb, srcb, off, imm⟩) := by
  obtain rfl : opc = 205 := BitVec.eq_of_toNat_eq h
  have e : armB helpers p pc ⟨205, dstb, srcb, off, imm⟩ =
      if isCondJump 205 = true then condJump pc ⟨205, dstb, srcb, off, imm⟩ else throw .panic := by rfl
  rw [e, if_pos (by decide)]
  conv => lhs; whnf
  refine congrArg some ?_
  simp only [BitVec.reduceToNat, condJump, insnDst_eq, insnSrc_eq, Nat.reduceAnd, pure_bind, Nat.reduceBEq, Nat.reduceBNe,
    Nat.reduceEqDiff, ↓reduceIte, Bool.false_eq_true, show jumpCC 205 = some CC.slt from by decide]
theorem ca_206 (h : opc.toNat = 206) :
    ctlArmSrc helpers p pc ⟨opc, dstb, srcb, off, imm⟩ = some (armB helpers p pc ⟨opc, dstb, srcb, off, imm⟩) := by
  obtain rfl : opc = 206 := BitVec.eq_of_toNat_eq h
  have e : armB helpers p pc ⟨206, dstb, srcb, off, imm⟩ =
      if isCondJump 206 = true then condJump pc ⟨206, dstb, srcb, off, imm⟩ else throw .panic := by rfl
  rw [e, if_pos (by decide)]
  conv => lhs; whnf
  refine congrArg some ?_
  simp only [BitVec.reduceToNat, condJump, insnDst32_eq, insnSrc32_eq, Nat.reduceAnd, pure_bind, Nat.reduceBEq, Nat.reduceBNe,
    Nat.reduceEqDiff, ↓reduceIte, show jumpCC 206 = some CC.slt from by decide]
theorem ca_213 (h : opc.toNat = 213) :
    ctlArmSrc helpers p pc ⟨opc, dstb, srcb, off, imm⟩ = some (armB helpers p pc ⟨opc, dstb, srcb, off, imm⟩) := by
  obtain rfl : opc = 213 := BitVec.eq_of_toNat_eq h
  have e : armB helpers p pc ⟨213, dstb, srcb, off, imm⟩ =
      if isCondJump 213 = true then condJump pc ⟨213, dstb, srcb, off, imm⟩ else throw .panic := by rfl
  rw [e, if_pos (by decide)]
  conv => lhs; whnf
  refine congrArg some ?_
  simp only [BitVec.reduceToNat, condJump, insnImm64_eq, insnDst_eq, Nat.reduceAnd, pure_bind, Nat.reduceBEq, Nat.reduceBNe,
    Nat.reduceEqDiff, ↓reduceIte, Bool.false_eq_true, show jumpCC 213 = some CC.sle from by decide]
theorem ca_214 (h : opc.toNat = 214) :
    ctlArmSrc helpers p pc ⟨opc, dstb, srcb, off, imm⟩ = some (armB helpers p pc ⟨opc, dstb, srcb, off, imm⟩) := by
  obtain rfl : opc = 214 := BitVec.eq_of_toNat_eq h
  have e : armB helpers p pc ⟨214, dstb, srcb, off, imm⟩ =
      if isCondJump 214 = true then condJump pc ⟨214, dstb, srcb, off, imm⟩ else throw .panic := by rfl
  rw [e, if_pos (by decide)]
  conv => lhs; whnf
  refine congrArg some ?_
  simp only [BitVec.reduceToNat, condJump, insnImm32_eq, insnDst32_eq, Nat.reduceAnd, pure_bind, Nat.reduceBEq, Nat.reduceBNe,
    Nat.reduceEqDiff, ↓reduceIte, show jumpCC 214 = some CC.sle from by decide]
theorem ca_221 (h : opc.toNat = 221) :
    ctlArmSrc helpers p pc ⟨opc, dstb, srcb, off, imm⟩ = some (armB helpers p pc ⟨opc, dstb, srcb, off, imm⟩) := by
  obtain rfl : opc = 221 := BitVec.eq_of_toNat_eq h
  have e : armB helpers p pc ⟨221, dstb, srcb, off, imm⟩ =
      if isCondJump 221 = true then condJump pc ⟨221, dstb, srcb, off, imm⟩ else throw .panic := by rfl
  rw [e, if_pos (by decide)]
  conv => lhs; whnf
  refine congrArg some ?_
  simp only [BitVec.reduceToNat, condJump, insnDst_eq, insnSrc_eq, Nat.reduceAnd, pure_bind, Nat.reduceBEq, Nat.reduceBNe,
    Nat.reduceEqDiff, ↓reduceIte, Bool.false_eq_true, show jumpCC 221 = some CC.sle from by decide]
theorem ca_222 (h : opc.toNat = 222) :
    ctlArmSrc helpers p pc ⟨opc, dstb, srcb, off, imm⟩ = some (armB helpers p pc ⟨opc, dstb, srcb, off, imm⟩) := by
  obtain rfl : opc = 222 := BitVec.eq_of_toNat_eq h
  have e : armB helpers p pc ⟨222, dstb, srcb, off, imm⟩ =
      if isCondJump 222 = true then condJump pc ⟨222, dstb, srcb, off, imm⟩ else throw .panic := by rfl
  rw [e, if_pos (by decide)]
  conv => lhs; whnf
  refine congrArg some ?_
  simp only [BitVec.reduceToNat, condJump, insnDst32_eq, insnSrc32_eq, Nat.reduceAnd, pure_bind, Nat.reduceBEq, Nat.reduceBNe,
    Nat.reduceEqDiff, ↓reduceIte, show jumpCC 222 = some CC.sle from by decide]
end

/-- the arms with control flow of their own -/
theorem ctlArm_eq (helpers : Nat → Bool) (p : Bytes) (pc : Nat) (i : Insn) (h : i.opc.toNat ∈ ctlOpcodes) :
    ctlArmSrc helpers p pc i = some (armB helpers p pc i) := by
  obtain ⟨opc, dstb, srcb, off, imm⟩ := i
  simp only [ctlOpcodes, List.mem_cons, List.not_mem_nil, or_false] at h
  rcases h with h | h | h | h | h | h | h | h | h | h | h | h | h | h | h | h | h | h | h | h | h | h | h | h | h | h | h | h | h | h |
    h | h | h | h | h | h | h | h | h | h | h | h | h | h | h | h | h | h | h
  · exact ca_5 h
  · exact ca_21 h
  · exact ca_22 h
  · exact ca_24 h
  · exact ca_29 h
  · exact ca_30 h
  · exact ca_37 h
  · exact ca_38 h
  · exact ca_45 h
  · exact ca_46 h
  · exact ca_53 h
  · exact ca_54 h
  · exact ca_61 h
  · exact ca_62 h
  · exact ca_69 h
  · exact ca_70 h
  · exact ca_77 h
  · exact ca_78 h
  · exact ca_85 h
  · exact ca_86 h
  · exact ca_93 h
  · exact ca_94 h
  · exact ca_101 h
  · exact ca_102 h
  · exact ca_109 h
  · exact ca_110 h
  · exact ca_117 h
  · exact ca_118 h
  · exact ca_125 h
  · exact ca_126 h
  · exact ca_133 h
  · exact ca_141 h
  · exact ca_149 h
  · exact ca_165 h
  · exact ca_166 h
  · exact ca_173 h
  · exact ca_174 h
  · exact ca_181 h
  · exact ca_182 h
  · exact ca_189 h
  · exact ca_190 h
  · exact ca_197 h
  · exact ca_198 h
  · exact ca_205 h
  · exact ca_206 h
  · exact ca_213 h
  · exact ca_214 h
  · exact ca_221 h
  · exact ca_222 h

/-! ## opcodes without an arm

    Here the `match`es are split once (`split`): in every case but the last the opcode is one of the list, against the hypothesis. -/

set_option maxRecDepth 10000 in
/-- an opcode outside the list has no arm in `straightArmSrc` -/
theorem straightNone (i : Insn) (h : i.opc.toNat ∉ straightOpcodes) : straightArmSrc i = none := by
  unfold straightArmSrc
  split <;> first | rfl | (rename_i heq; exact absurd (by rw [heq]; decide) h)

set_option maxRecDepth 10000 in
/-- an opcode outside the list has no arm in `ctlArmSrc` -/
theorem ctlNone (helpers : Nat → Bool) (p : Bytes) (pc : Nat) (i : Insn) (h : i.opc.toNat ∉ ctlOpcodes) : ctlArmSrc helpers p pc i = none := by
  unfold ctlArmSrc
  split <;> first | rfl | (rename_i heq; exact absurd (by rw [heq]; decide) h)

/-- the opcodes the model treats as conditional jumps are in the list of translated arms -/
theorem condJump_ctl : ∀ n, n < 256 → isCondJump n = true → ctlOpcodes.contains n = true := by decide +kernel

set_option maxRecDepth 10000 in
/-- every other opcode byte: no arm in the source (`unimplemented!`), `throw .panic` in the model -/
theorem armB_default (helpers : Nat → Bool) (p : Bytes) (pc : Nat) (i : Insn) (h1 : i.opc.toNat ∉ straightOpcodes) (h2 : i.opc.toNat ∉ ctlOpcodes) :
    armB helpers p pc i = throw .panic := by
  unfold armB
  split <;> first
    | (rename_i heq; exact absurd (by rw [heq]; decide) h1)
    | (rename_i heq; exact absurd (by rw [heq]; decide) h2)
    | skip
  have hc : isCondJump i.opc.toNat = false := by
    cases hcj : isCondJump i.opc.toNat with
    | false => rfl
    | true => exact absurd (List.contains_iff_mem.mp (condJump_ctl _ i.opc.isLt hcj)) h2
  rw [if_neg (by rw [hc]; decide)]

end Rbpf.Generated.Clif
