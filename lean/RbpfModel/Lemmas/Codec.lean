import RbpfModel.Model.Insn
import Std.Tactic.BVDecide
namespace Rbpf

theorem Insn.toArray_length (x : Insn) : x.toArray.length = 8 := rfl

theorem flatMap_toArray_length (xs : List Insn) : (xs.flatMap Insn.toArray).length = 8 * xs.length := by
  induction xs with
  | nil => rfl
  | cons x xs ih => rw [List.flatMap_cons, List.length_append, ih, Insn.toArray_length, List.length_cons]; omega

theorem flatMap_toArray_getElem? (xs : List Insn) (k j : Nat) (hk : k < xs.length) (hj : j < 8) :
    (xs.flatMap Insn.toArray)[8 * k + j]? = (xs[k].toArray)[j]? := by
  induction xs generalizing k with
  | nil => simp at hk
  | cons x xs ih =>
    rw [List.flatMap_cons]
    cases k with
    | zero =>
      simp only [Nat.mul_zero, Nat.zero_add, List.getElem_cons_zero]
      rw [List.getElem?_append_left (by rw [Insn.toArray_length]; exact hj)]
    | succ k =>
      have hk' : k < xs.length := by simpa using hk
      rw [List.getElem?_append_right (by rw [Insn.toArray_length]; omega)]
      rw [Insn.toArray_length]
      have : 8 * (k + 1) + j - 8 = 8 * k + j := by omega
      rw [this, ih k hk']
      simp

theorem decodeSlot_toArray (x : Insn) (hd : x.dst < 16) (hs : x.src < 16) :
    decodeSlot (x.toArray.getD 0 0) (x.toArray.getD 1 0) (x.toArray.getD 2 0) (x.toArray.getD 3 0)
      (x.toArray.getD 4 0) (x.toArray.getD 5 0) (x.toArray.getD 6 0) (x.toArray.getD 7 0) = x := by
  obtain ⟨opc, dst, src, off, imm⟩ := x
  simp only [Insn.toArray, List.getD_cons_zero, List.getD_cons_succ, decodeSlot, Insn.mk.injEq, true_and] at hd hs ⊢
  refine ⟨?_, ?_, ?_, ?_⟩ <;> bv_decide

theorem encodeAll_size (xs : List Insn) : (encodeAll xs).size = 8 * xs.length := by
  simp only [encodeAll, List.size_toArray, flatMap_toArray_length]

theorem encodeAll_getD (xs : List Insn) (k j : Nat) (hk : k < xs.length) (hj : j < 8) :
    (encodeAll xs).getD (8 * k + j) 0 = xs[k].toArray.getD j 0 := by
  have h := flatMap_toArray_getElem? xs k j hk hj
  simp only [encodeAll]
  rw [Array.getD_eq_getD_getElem?, List.getElem?_toArray, h, List.getD_eq_getElem?_getD]

theorem getInsn?_encodeAll (xs : List Insn) (k : Nat) (h : k < xs.length)
    (wf : ∀ x ∈ xs, x.dst < 16 ∧ x.src < 16) :
    getInsn? (encodeAll xs) k = some xs[k] := by
  unfold getInsn?
  rw [encodeAll_size]
  have : ¬ (k + 1) * 8 > 8 * xs.length := by omega
  rw [if_neg this]
  have e0 := encodeAll_getD xs k 0 h (by omega)
  rw [Nat.add_zero] at e0
  rw [e0, encodeAll_getD xs k 1 h (by omega), encodeAll_getD xs k 2 h (by omega),
    encodeAll_getD xs k 3 h (by omega), encodeAll_getD xs k 4 h (by omega),
    encodeAll_getD xs k 5 h (by omega), encodeAll_getD xs k 6 h (by omega),
    encodeAll_getD xs k 7 h (by omega)]
  have hx := wf xs[k] (List.getElem_mem h)
  rw [decodeSlot_toArray _ hx.1 hx.2]

theorem mapM_range' {α} (f : Nat → Option α) (g : Nat → α) (n s : Nat)
    (h : ∀ k, s ≤ k → k < s + n → f k = some (g k)) :
    (List.range' s n).mapM f = some ((List.range' s n).map g) := by
  induction n generalizing s with
  | zero => simp
  | succ n ih =>
    rw [List.range'_succ, List.mapM_cons, h s (Nat.le_refl _) (by omega), ih (s+1) (fun k h1 h2 => h k (by omega) (by omega))]
    simp

theorem toInsnVec?_encodeAll (xs : List Insn) (wf : ∀ x ∈ xs, x.dst < 16 ∧ x.src < 16) :
    toInsnVec? (encodeAll xs) = some xs := by
  unfold toInsnVec?
  rw [encodeAll_size]
  have : ¬ (8 * xs.length % 8 ≠ 0) := by omega
  rw [if_neg this]
  have hl : 8 * xs.length / 8 = xs.length := by omega
  rw [hl]
  rw [List.range_eq_range', mapM_range' (getInsn? (encodeAll xs)) (fun k => xs.getD k default) xs.length 0
    (fun k _ hk => by
      have hk' : k < xs.length := by omega
      rw [getInsn?_encodeAll xs k hk' wf, List.getD_eq_getElem?_getD, List.getElem?_eq_getElem hk']; rfl)]
  congr 1
  apply List.ext_getElem
  · simp
  · intro i h1 h2
    simp [List.getD_eq_getElem?_getD, List.getElem?_eq_getElem h2]

end Rbpf
