/-
  Support for `Props/VerifierFnsSrc.lean`: the two casts between the model's fixed-width fields and the mathematical integers of the
  translated helper functions of `src/verifier.rs`.
-/
import RbpfModel.Model.Insn
namespace Rbpf.VerifierFnsAux

/-- an opcode byte differs from a constant iff it does as an integer -/
theorem opc_ne (o : BitVec 8) (n : Nat) (hn : n < 256) : (o ≠ BitVec.ofNat 8 n) ↔ ((o.toNat : Int) ≠ (n : Int)) := by
  constructor
  · intro h e; apply h; apply BitVec.eq_of_toNat_eq; rw [BitVec.toNat_ofNat, Nat.mod_eq_of_lt hn]; omega
  · intro h e; apply h; rw [e, BitVec.toNat_ofNat, Nat.mod_eq_of_lt hn]

/-- a fixed-width field equals a constant iff it does as a signed integer -/
theorem toInt_iff {w : Nat} (x n : BitVec w) (k : Int) (hk : n.toInt = k) : x = n ↔ x.toInt = k := by
  constructor
  · intro h; rw [h, hk]
  · intro h; apply BitVec.eq_of_toInt_eq; rw [h, hk]

end Rbpf.VerifierFnsAux
