/-
  Support for `Props/InterpMem.lean`: the memory arms of the hand-written model `Interp.exec` against the description of the
  memory-instruction arms translated from `src/interpreter.rs` (`Generated/InterpMem.lean`), one opcode at a time.

  * `pktAbs_eq`: the overflow test and the address of `ldabs`; `store_mod` with `imm_mod*` / `reg_mod*`: the model hands `store` the
    untruncated value (`insn.imm as u64`, `reg[_src]`), the source writes `as u8/u16/u32` of it — the bytes written are the same.
    All other arms agree by unfolding.
  * `ex_N` (`Interp.exec` on the literal opcode is the model's arm), `arm_N` / `addr_N` / `val_N` (the translated description),
    `im_N` (agreement), `im_all` (dispatch): mechanical, one stanza per opcode.
-/
import RbpfModel.Generated.InterpMem
import RbpfModel.Model.Interp
namespace Rbpf.InterpMemAux
open Rbpf.Generated Rbpf.Interp

/-- a register read in range (as `ClifSim.rd_eq`; restated here to keep the imports of this file small) -/
theorem rd_eq (s : State) (r : Nat) (k : BitVec 64 → Outcome) (hr : r < 11) : Interp.rd s r k = k s.reg[r] := by
  simp only [Interp.rd, Vector.getElem?_eq_getElem hr]

/-- the statement of `InterpMem_exec` for one instruction -/
abbrev MemOk (env : Env) (s : State) (opc dstb srcb : BitVec 8) (off : BitVec 16) (imm : BitVec 32) : Prop :=
  ∀ (hd : dstb.toNat < 11) (hs : srcb.toNat < 11) (_hb : s.mem.mem.base < 2 ^ 64),
    Interp.exec env s ⟨opc, dstb, srcb, off, imm⟩ =
      (match memArm opc.toNat,
             memAddr opc.toNat (s.reg[dstb.toNat]'hd) (s.reg[srcb.toNat]'hs) imm off (BitVec.ofNat 64 s.mem.mem.base) with
       | some a, some addr =>
         let v := memValue opc.toNat (s.reg[srcb.toNat]'hs) imm
         if a.kind = 0 then Interp.load env s addr a.checkWidth (if a.dst0 then 0 else dstb.toNat)
         else if a.kind = 1 then Interp.store env s addr a.checkWidth v
         else Interp.xadd env s addr a.checkWidth v
       | _, _ => .panic)

/-! ## values and addresses -/

/-- `write_unaligned` of a `w`-byte value sees the low-order `w` bytes only (as `ClifSim.leBytes_mod256`) -/
theorem leBytes_mod (w v : Nat) : leBytes (v % 256 ^ w) w = leBytes v w := by
  induction w generalizing v with
  | zero => rfl
  | succ w ih =>
    simp only [leBytes]
    congr 1
    · apply BitVec.eq_of_toNat_eq
      simp only [BitVec.toNat_ofNat]
      have : 256 ^ (w + 1) = 2 ^ 8 * 256 ^ w := by rw [Nat.pow_succ, Nat.mul_comm]
      rw [this, Nat.mod_mul_right_mod]
    · have : v % 256 ^ (w + 1) / 256 = (v / 256) % 256 ^ w := by
        rw [Nat.pow_succ, Nat.mul_comm, Nat.mod_mul_right_div_self]
      rw [this, ih]

/-- two values with the same `w` low-order bytes are stored alike -/
theorem store_mod (env : Env) (s : State) (a : BitVec 64) (w : Nat) (v v' : BitVec 64)
    (h : v.toNat % 256 ^ w = v'.toNat % 256 ^ w) : store env s a w v = store env s a w v' := by
  unfold store
  rw [← leBytes_mod w v.toNat, h, leBytes_mod]

/-- `insn.imm as u8 / u16 / u32` against the model's `insn.imm as u64` -/
theorem imm_mod1 (imm : BitVec 32) :
    (sx32 imm).toNat % 256 ^ 1 = (BitVec.setWidth 64 (BitVec.setWidth 8 imm)).toNat % 256 ^ 1 := by
  simp only [sx32, BitVec.toNat_signExtend, BitVec.toNat_setWidth, Nat.reducePow]
  split <;> omega
theorem imm_mod2 (imm : BitVec 32) :
    (sx32 imm).toNat % 256 ^ 2 = (BitVec.setWidth 64 (BitVec.setWidth 16 imm)).toNat % 256 ^ 2 := by
  simp only [sx32, BitVec.toNat_signExtend, BitVec.toNat_setWidth, Nat.reducePow]
  split <;> omega
theorem imm_mod4 (imm : BitVec 32) : (sx32 imm).toNat % 256 ^ 4 = (BitVec.setWidth 64 imm).toNat % 256 ^ 4 := by
  simp only [sx32, BitVec.toNat_signExtend, BitVec.toNat_setWidth, Nat.reducePow]
  split <;> omega

/-- `reg[_src] as u8 / u16 / u32` against the model's `reg[_src]` -/
theorem reg_mod1 (x : BitVec 64) : x.toNat % 256 ^ 1 = (BitVec.setWidth 64 (BitVec.setWidth 8 x)).toNat % 256 ^ 1 := by
  simp only [BitVec.toNat_setWidth, Nat.reducePow]; omega
theorem reg_mod2 (x : BitVec 64) : x.toNat % 256 ^ 2 = (BitVec.setWidth 64 (BitVec.setWidth 16 x)).toNat % 256 ^ 2 := by
  simp only [BitVec.toNat_setWidth, Nat.reducePow]; omega
theorem reg_mod4 (x : BitVec 64) : x.toNat % 256 ^ 4 = (BitVec.setWidth 64 (BitVec.setWidth 32 x)).toNat % 256 ^ 4 := by
  simp only [BitVec.toNat_setWidth, Nat.reducePow]; omega

/-- `ldabs`: `mem_base + (insn.imm as u32) as u64` overflows exactly when the model's `pktAbs` panics, and is the same address
    otherwise -/
theorem pktAbs_eq (s : State) (imm : BitVec 32) (k : BitVec 64 → Outcome) (hb : s.mem.mem.base < 2 ^ 64) :
    pktAbs s imm k =
      (match (if (BitVec.ofNat 64 s.mem.mem.base).toNat + (BitVec.setWidth 64 imm).toNat ≥ 2 ^ 64 then none
              else some (BitVec.ofNat 64 s.mem.mem.base + BitVec.setWidth 64 imm)) with
       | some a => k a
       | none => .panic) := by
  have e1 : (BitVec.ofNat 64 s.mem.mem.base).toNat = s.mem.mem.base := by
    rw [BitVec.toNat_ofNat, Nat.mod_eq_of_lt hb]
  have e2 : (BitVec.setWidth 64 imm).toNat = imm.toNat := by
    rw [BitVec.toNat_setWidth]; exact Nat.mod_eq_of_lt (by have := imm.isLt; omega)
  have e3 : BitVec.ofNat 64 (s.mem.mem.base + imm.toNat) = BitVec.ofNat 64 s.mem.mem.base + BitVec.setWidth 64 imm := by
    apply BitVec.eq_of_toNat_eq
    rw [BitVec.toNat_add, e1, e2, BitVec.toNat_ofNat]
  unfold pktAbs
  rw [e1, e2, e3]
  by_cases hc : s.mem.mem.base + imm.toNat ≥ 2 ^ 64
  · rw [if_pos hc, if_pos hc]
  · rw [if_neg hc, if_neg hc]

/-! ## the model's arm for each literal opcode -/

theorem ex_48 (env : Env) (s : State) (dstb srcb : BitVec 8) (off : BitVec 16) (imm : BitVec 32) :
    Interp.exec env s ⟨48, dstb, srcb, off, imm⟩ = (pktAbs s imm fun a => load env s a 1 0) := by rfl
theorem ex_40 (env : Env) (s : State) (dstb srcb : BitVec 8) (off : BitVec 16) (imm : BitVec 32) :
    Interp.exec env s ⟨40, dstb, srcb, off, imm⟩ = (pktAbs s imm fun a => load env s a 2 0) := by rfl
theorem ex_32 (env : Env) (s : State) (dstb srcb : BitVec 8) (off : BitVec 16) (imm : BitVec 32) :
    Interp.exec env s ⟨32, dstb, srcb, off, imm⟩ = (pktAbs s imm fun a => load env s a 4 0) := by rfl
theorem ex_56 (env : Env) (s : State) (dstb srcb : BitVec 8) (off : BitVec 16) (imm : BitVec 32) :
    Interp.exec env s ⟨56, dstb, srcb, off, imm⟩ = (pktAbs s imm fun a => load env s a 8 0) := by rfl
theorem ex_80 (env : Env) (s : State) (dstb srcb : BitVec 8) (off : BitVec 16) (imm : BitVec 32) :
    Interp.exec env s ⟨80, dstb, srcb, off, imm⟩ = (rd s srcb.toNat fun x => load env s (BitVec.ofNat 64 s.mem.mem.base + x + (zx32 imm)) 1 0) := by rfl
theorem ex_72 (env : Env) (s : State) (dstb srcb : BitVec 8) (off : BitVec 16) (imm : BitVec 32) :
    Interp.exec env s ⟨72, dstb, srcb, off, imm⟩ = (rd s srcb.toNat fun x => load env s (BitVec.ofNat 64 s.mem.mem.base + x + (zx32 imm)) 2 0) := by rfl
theorem ex_64 (env : Env) (s : State) (dstb srcb : BitVec 8) (off : BitVec 16) (imm : BitVec 32) :
    Interp.exec env s ⟨64, dstb, srcb, off, imm⟩ = (rd s srcb.toNat fun x => load env s (BitVec.ofNat 64 s.mem.mem.base + x + (zx32 imm)) 4 0) := by rfl
theorem ex_88 (env : Env) (s : State) (dstb srcb : BitVec 8) (off : BitVec 16) (imm : BitVec 32) :
    Interp.exec env s ⟨88, dstb, srcb, off, imm⟩ = (rd s srcb.toNat fun x => load env s (BitVec.ofNat 64 s.mem.mem.base + x + (zx32 imm)) 8 0) := by rfl
theorem ex_113 (env : Env) (s : State) (dstb srcb : BitVec 8) (off : BitVec 16) (imm : BitVec 32) :
    Interp.exec env s ⟨113, dstb, srcb, off, imm⟩ = (rd s srcb.toNat fun x => load env s ((x + off.signExtend 64)) 1 dstb.toNat) := by rfl
theorem ex_105 (env : Env) (s : State) (dstb srcb : BitVec 8) (off : BitVec 16) (imm : BitVec 32) :
    Interp.exec env s ⟨105, dstb, srcb, off, imm⟩ = (rd s srcb.toNat fun x => load env s ((x + off.signExtend 64)) 2 dstb.toNat) := by rfl
theorem ex_97 (env : Env) (s : State) (dstb srcb : BitVec 8) (off : BitVec 16) (imm : BitVec 32) :
    Interp.exec env s ⟨97, dstb, srcb, off, imm⟩ = (rd s srcb.toNat fun x => load env s ((x + off.signExtend 64)) 4 dstb.toNat) := by rfl
theorem ex_121 (env : Env) (s : State) (dstb srcb : BitVec 8) (off : BitVec 16) (imm : BitVec 32) :
    Interp.exec env s ⟨121, dstb, srcb, off, imm⟩ = (rd s srcb.toNat fun x => load env s ((x + off.signExtend 64)) 8 dstb.toNat) := by rfl
theorem ex_114 (env : Env) (s : State) (dstb srcb : BitVec 8) (off : BitVec 16) (imm : BitVec 32) :
    Interp.exec env s ⟨114, dstb, srcb, off, imm⟩ = (rd s dstb.toNat fun d => store env s ((d + off.signExtend 64)) 1 (sx32 imm)) := by rfl
theorem ex_106 (env : Env) (s : State) (dstb srcb : BitVec 8) (off : BitVec 16) (imm : BitVec 32) :
    Interp.exec env s ⟨106, dstb, srcb, off, imm⟩ = (rd s dstb.toNat fun d => store env s ((d + off.signExtend 64)) 2 (sx32 imm)) := by rfl
theorem ex_98 (env : Env) (s : State) (dstb srcb : BitVec 8) (off : BitVec 16) (imm : BitVec 32) :
    Interp.exec env s ⟨98, dstb, srcb, off, imm⟩ = (rd s dstb.toNat fun d => store env s ((d + off.signExtend 64)) 4 (sx32 imm)) := by rfl
theorem ex_122 (env : Env) (s : State) (dstb srcb : BitVec 8) (off : BitVec 16) (imm : BitVec 32) :
    Interp.exec env s ⟨122, dstb, srcb, off, imm⟩ = (rd s dstb.toNat fun d => store env s ((d + off.signExtend 64)) 8 (sx32 imm)) := by rfl
theorem ex_115 (env : Env) (s : State) (dstb srcb : BitVec 8) (off : BitVec 16) (imm : BitVec 32) :
    Interp.exec env s ⟨115, dstb, srcb, off, imm⟩ = (rd s dstb.toNat fun d => rd s srcb.toNat fun x => store env s ((d + off.signExtend 64)) 1 x) := by rfl
theorem ex_107 (env : Env) (s : State) (dstb srcb : BitVec 8) (off : BitVec 16) (imm : BitVec 32) :
    Interp.exec env s ⟨107, dstb, srcb, off, imm⟩ = (rd s dstb.toNat fun d => rd s srcb.toNat fun x => store env s ((d + off.signExtend 64)) 2 x) := by rfl
theorem ex_99 (env : Env) (s : State) (dstb srcb : BitVec 8) (off : BitVec 16) (imm : BitVec 32) :
    Interp.exec env s ⟨99, dstb, srcb, off, imm⟩ = (rd s dstb.toNat fun d => rd s srcb.toNat fun x => store env s ((d + off.signExtend 64)) 4 x) := by rfl
theorem ex_123 (env : Env) (s : State) (dstb srcb : BitVec 8) (off : BitVec 16) (imm : BitVec 32) :
    Interp.exec env s ⟨123, dstb, srcb, off, imm⟩ = (rd s dstb.toNat fun d => rd s srcb.toNat fun x => store env s ((d + off.signExtend 64)) 8 x) := by rfl
theorem ex_195 (env : Env) (s : State) (dstb srcb : BitVec 8) (off : BitVec 16) (imm : BitVec 32) :
    Interp.exec env s ⟨195, dstb, srcb, off, imm⟩ = (rd s dstb.toNat fun d => rd s srcb.toNat fun x => xadd env s ((d + off.signExtend 64)) 4 (zx32 (lo32 x))) := by rfl
theorem ex_219 (env : Env) (s : State) (dstb srcb : BitVec 8) (off : BitVec 16) (imm : BitVec 32) :
    Interp.exec env s ⟨219, dstb, srcb, off, imm⟩ = (rd s dstb.toNat fun d => rd s srcb.toNat fun x => xadd env s ((d + off.signExtend 64)) 8 x) := by rfl

/-! ## the translated arm for each opcode -/

theorem arm_48 : memArm 48 = some ⟨0, true, 1, 1, 0⟩ := rfl
theorem addr_48 (d s : BitVec 64) (imm : BitVec 32) (off : BitVec 16) (memBase : BitVec 64) :
    memAddr 48 d s imm off memBase = (if (BitVec.toNat memBase + BitVec.toNat (BitVec.setWidth 64 imm)) ≥ 2 ^ 64 then none else some (memBase + (BitVec.setWidth 64 imm))) := rfl
theorem val_48 (s : BitVec 64) (imm : BitVec 32) : memValue 48 s imm = 0 := rfl
theorem arm_40 : memArm 40 = some ⟨0, true, 2, 2, 0⟩ := rfl
theorem addr_40 (d s : BitVec 64) (imm : BitVec 32) (off : BitVec 16) (memBase : BitVec 64) :
    memAddr 40 d s imm off memBase = (if (BitVec.toNat memBase + BitVec.toNat (BitVec.setWidth 64 imm)) ≥ 2 ^ 64 then none else some (memBase + (BitVec.setWidth 64 imm))) := rfl
theorem val_40 (s : BitVec 64) (imm : BitVec 32) : memValue 40 s imm = 0 := rfl
theorem arm_32 : memArm 32 = some ⟨0, true, 4, 4, 0⟩ := rfl
theorem addr_32 (d s : BitVec 64) (imm : BitVec 32) (off : BitVec 16) (memBase : BitVec 64) :
    memAddr 32 d s imm off memBase = (if (BitVec.toNat memBase + BitVec.toNat (BitVec.setWidth 64 imm)) ≥ 2 ^ 64 then none else some (memBase + (BitVec.setWidth 64 imm))) := rfl
theorem val_32 (s : BitVec 64) (imm : BitVec 32) : memValue 32 s imm = 0 := rfl
theorem arm_56 : memArm 56 = some ⟨0, true, 8, 8, 0⟩ := rfl
theorem addr_56 (d s : BitVec 64) (imm : BitVec 32) (off : BitVec 16) (memBase : BitVec 64) :
    memAddr 56 d s imm off memBase = (if (BitVec.toNat memBase + BitVec.toNat (BitVec.setWidth 64 imm)) ≥ 2 ^ 64 then none else some (memBase + (BitVec.setWidth 64 imm))) := rfl
theorem val_56 (s : BitVec 64) (imm : BitVec 32) : memValue 56 s imm = 0 := rfl
theorem arm_80 : memArm 80 = some ⟨0, true, 1, 1, 0⟩ := rfl
theorem addr_80 (d s : BitVec 64) (imm : BitVec 32) (off : BitVec 16) (memBase : BitVec 64) :
    memAddr 80 d s imm off memBase = some ((memBase + s) + (BitVec.setWidth 64 imm)) := rfl
theorem val_80 (s : BitVec 64) (imm : BitVec 32) : memValue 80 s imm = 0 := rfl
theorem arm_72 : memArm 72 = some ⟨0, true, 2, 2, 0⟩ := rfl
theorem addr_72 (d s : BitVec 64) (imm : BitVec 32) (off : BitVec 16) (memBase : BitVec 64) :
    memAddr 72 d s imm off memBase = some ((memBase + s) + (BitVec.setWidth 64 imm)) := rfl
theorem val_72 (s : BitVec 64) (imm : BitVec 32) : memValue 72 s imm = 0 := rfl
theorem arm_64 : memArm 64 = some ⟨0, true, 4, 4, 0⟩ := rfl
theorem addr_64 (d s : BitVec 64) (imm : BitVec 32) (off : BitVec 16) (memBase : BitVec 64) :
    memAddr 64 d s imm off memBase = some ((memBase + s) + (BitVec.setWidth 64 imm)) := rfl
theorem val_64 (s : BitVec 64) (imm : BitVec 32) : memValue 64 s imm = 0 := rfl
theorem arm_88 : memArm 88 = some ⟨0, true, 8, 8, 0⟩ := rfl
theorem addr_88 (d s : BitVec 64) (imm : BitVec 32) (off : BitVec 16) (memBase : BitVec 64) :
    memAddr 88 d s imm off memBase = some ((memBase + s) + (BitVec.setWidth 64 imm)) := rfl
theorem val_88 (s : BitVec 64) (imm : BitVec 32) : memValue 88 s imm = 0 := rfl
theorem arm_113 : memArm 113 = some ⟨0, false, 1, 1, 0⟩ := rfl
theorem addr_113 (d s : BitVec 64) (imm : BitVec 32) (off : BitVec 16) (memBase : BitVec 64) :
    memAddr 113 d s imm off memBase = some (s + (BitVec.signExtend 64 off)) := rfl
theorem val_113 (s : BitVec 64) (imm : BitVec 32) : memValue 113 s imm = 0 := rfl
theorem arm_105 : memArm 105 = some ⟨0, false, 2, 2, 0⟩ := rfl
theorem addr_105 (d s : BitVec 64) (imm : BitVec 32) (off : BitVec 16) (memBase : BitVec 64) :
    memAddr 105 d s imm off memBase = some (s + (BitVec.signExtend 64 off)) := rfl
theorem val_105 (s : BitVec 64) (imm : BitVec 32) : memValue 105 s imm = 0 := rfl
theorem arm_97 : memArm 97 = some ⟨0, false, 4, 4, 0⟩ := rfl
theorem addr_97 (d s : BitVec 64) (imm : BitVec 32) (off : BitVec 16) (memBase : BitVec 64) :
    memAddr 97 d s imm off memBase = some (s + (BitVec.signExtend 64 off)) := rfl
theorem val_97 (s : BitVec 64) (imm : BitVec 32) : memValue 97 s imm = 0 := rfl
theorem arm_121 : memArm 121 = some ⟨0, false, 8, 8, 0⟩ := rfl
theorem addr_121 (d s : BitVec 64) (imm : BitVec 32) (off : BitVec 16) (memBase : BitVec 64) :
    memAddr 121 d s imm off memBase = some (s + (BitVec.signExtend 64 off)) := rfl
theorem val_121 (s : BitVec 64) (imm : BitVec 32) : memValue 121 s imm = 0 := rfl
theorem arm_114 : memArm 114 = some ⟨1, false, 1, 1, 0⟩ := rfl
theorem addr_114 (d s : BitVec 64) (imm : BitVec 32) (off : BitVec 16) (memBase : BitVec 64) :
    memAddr 114 d s imm off memBase = some (d + (BitVec.signExtend 64 off)) := rfl
theorem val_114 (s : BitVec 64) (imm : BitVec 32) : memValue 114 s imm = (BitVec.setWidth 64 (BitVec.setWidth 8 imm)) := rfl
theorem arm_106 : memArm 106 = some ⟨1, false, 2, 2, 0⟩ := rfl
theorem addr_106 (d s : BitVec 64) (imm : BitVec 32) (off : BitVec 16) (memBase : BitVec 64) :
    memAddr 106 d s imm off memBase = some (d + (BitVec.signExtend 64 off)) := rfl
theorem val_106 (s : BitVec 64) (imm : BitVec 32) : memValue 106 s imm = (BitVec.setWidth 64 (BitVec.setWidth 16 imm)) := rfl
theorem arm_98 : memArm 98 = some ⟨1, false, 4, 4, 0⟩ := rfl
theorem addr_98 (d s : BitVec 64) (imm : BitVec 32) (off : BitVec 16) (memBase : BitVec 64) :
    memAddr 98 d s imm off memBase = some (d + (BitVec.signExtend 64 off)) := rfl
theorem val_98 (s : BitVec 64) (imm : BitVec 32) : memValue 98 s imm = (BitVec.setWidth 64 imm) := rfl
theorem arm_122 : memArm 122 = some ⟨1, false, 8, 8, 0⟩ := rfl
theorem addr_122 (d s : BitVec 64) (imm : BitVec 32) (off : BitVec 16) (memBase : BitVec 64) :
    memAddr 122 d s imm off memBase = some (d + (BitVec.signExtend 64 off)) := rfl
theorem val_122 (s : BitVec 64) (imm : BitVec 32) : memValue 122 s imm = (BitVec.signExtend 64 imm) := rfl
theorem arm_115 : memArm 115 = some ⟨1, false, 1, 1, 0⟩ := rfl
theorem addr_115 (d s : BitVec 64) (imm : BitVec 32) (off : BitVec 16) (memBase : BitVec 64) :
    memAddr 115 d s imm off memBase = some (d + (BitVec.signExtend 64 off)) := rfl
theorem val_115 (s : BitVec 64) (imm : BitVec 32) : memValue 115 s imm = (BitVec.setWidth 64 (BitVec.setWidth 8 s)) := rfl
theorem arm_107 : memArm 107 = some ⟨1, false, 2, 2, 0⟩ := rfl
theorem addr_107 (d s : BitVec 64) (imm : BitVec 32) (off : BitVec 16) (memBase : BitVec 64) :
    memAddr 107 d s imm off memBase = some (d + (BitVec.signExtend 64 off)) := rfl
theorem val_107 (s : BitVec 64) (imm : BitVec 32) : memValue 107 s imm = (BitVec.setWidth 64 (BitVec.setWidth 16 s)) := rfl
theorem arm_99 : memArm 99 = some ⟨1, false, 4, 4, 0⟩ := rfl
theorem addr_99 (d s : BitVec 64) (imm : BitVec 32) (off : BitVec 16) (memBase : BitVec 64) :
    memAddr 99 d s imm off memBase = some (d + (BitVec.signExtend 64 off)) := rfl
theorem val_99 (s : BitVec 64) (imm : BitVec 32) : memValue 99 s imm = (BitVec.setWidth 64 (BitVec.setWidth 32 s)) := rfl
theorem arm_123 : memArm 123 = some ⟨1, false, 8, 8, 0⟩ := rfl
theorem addr_123 (d s : BitVec 64) (imm : BitVec 32) (off : BitVec 16) (memBase : BitVec 64) :
    memAddr 123 d s imm off memBase = some (d + (BitVec.signExtend 64 off)) := rfl
theorem val_123 (s : BitVec 64) (imm : BitVec 32) : memValue 123 s imm = s := rfl
theorem arm_195 : memArm 195 = some ⟨2, false, 4, 4, 4⟩ := rfl
theorem addr_195 (d s : BitVec 64) (imm : BitVec 32) (off : BitVec 16) (memBase : BitVec 64) :
    memAddr 195 d s imm off memBase = some (d + (BitVec.signExtend 64 off)) := rfl
theorem val_195 (s : BitVec 64) (imm : BitVec 32) : memValue 195 s imm = (BitVec.setWidth 64 (BitVec.setWidth 32 s)) := rfl
theorem arm_219 : memArm 219 = some ⟨2, false, 8, 8, 8⟩ := rfl
theorem addr_219 (d s : BitVec 64) (imm : BitVec 32) (off : BitVec 16) (memBase : BitVec 64) :
    memAddr 219 d s imm off memBase = some (d + (BitVec.signExtend 64 off)) := rfl
theorem val_219 (s : BitVec 64) (imm : BitVec 32) : memValue 219 s imm = s := rfl

/-! ## agreement, opcode by opcode -/

variable {env : Env} {s : State} {opc dstb srcb : BitVec 8} {off : BitVec 16} {imm : BitVec 32}

theorem im_48 (h : opc.toNat = 48) : MemOk env s opc dstb srcb off imm := by
  intro hd hs hb
  obtain rfl : opc = 48 := BitVec.eq_of_toNat_eq h
  rw [ex_48, show BitVec.toNat (48 : BitVec 8) = 48 from rfl, arm_48, addr_48, val_48]
  rw [pktAbs_eq _ _ _ hb]
  by_cases hc : (BitVec.ofNat 64 s.mem.mem.base).toNat + (BitVec.setWidth 64 imm).toNat ≥ 2 ^ 64
  · rw [if_pos hc]
  · rw [if_neg hc]; rfl
theorem im_40 (h : opc.toNat = 40) : MemOk env s opc dstb srcb off imm := by
  intro hd hs hb
  obtain rfl : opc = 40 := BitVec.eq_of_toNat_eq h
  rw [ex_40, show BitVec.toNat (40 : BitVec 8) = 40 from rfl, arm_40, addr_40, val_40]
  rw [pktAbs_eq _ _ _ hb]
  by_cases hc : (BitVec.ofNat 64 s.mem.mem.base).toNat + (BitVec.setWidth 64 imm).toNat ≥ 2 ^ 64
  · rw [if_pos hc]
  · rw [if_neg hc]; rfl
theorem im_32 (h : opc.toNat = 32) : MemOk env s opc dstb srcb off imm := by
  intro hd hs hb
  obtain rfl : opc = 32 := BitVec.eq_of_toNat_eq h
  rw [ex_32, show BitVec.toNat (32 : BitVec 8) = 32 from rfl, arm_32, addr_32, val_32]
  rw [pktAbs_eq _ _ _ hb]
  by_cases hc : (BitVec.ofNat 64 s.mem.mem.base).toNat + (BitVec.setWidth 64 imm).toNat ≥ 2 ^ 64
  · rw [if_pos hc]
  · rw [if_neg hc]; rfl
theorem im_56 (h : opc.toNat = 56) : MemOk env s opc dstb srcb off imm := by
  intro hd hs hb
  obtain rfl : opc = 56 := BitVec.eq_of_toNat_eq h
  rw [ex_56, show BitVec.toNat (56 : BitVec 8) = 56 from rfl, arm_56, addr_56, val_56]
  rw [pktAbs_eq _ _ _ hb]
  by_cases hc : (BitVec.ofNat 64 s.mem.mem.base).toNat + (BitVec.setWidth 64 imm).toNat ≥ 2 ^ 64
  · rw [if_pos hc]
  · rw [if_neg hc]; rfl
theorem im_80 (h : opc.toNat = 80) : MemOk env s opc dstb srcb off imm := by
  intro hd hs hb
  obtain rfl : opc = 80 := BitVec.eq_of_toNat_eq h
  rw [ex_80, show BitVec.toNat (80 : BitVec 8) = 80 from rfl, arm_80, addr_80, val_80]
  simp only [rd_eq _ _ _ hs]
  rfl
theorem im_72 (h : opc.toNat = 72) : MemOk env s opc dstb srcb off imm := by
  intro hd hs hb
  obtain rfl : opc = 72 := BitVec.eq_of_toNat_eq h
  rw [ex_72, show BitVec.toNat (72 : BitVec 8) = 72 from rfl, arm_72, addr_72, val_72]
  simp only [rd_eq _ _ _ hs]
  rfl
theorem im_64 (h : opc.toNat = 64) : MemOk env s opc dstb srcb off imm := by
  intro hd hs hb
  obtain rfl : opc = 64 := BitVec.eq_of_toNat_eq h
  rw [ex_64, show BitVec.toNat (64 : BitVec 8) = 64 from rfl, arm_64, addr_64, val_64]
  simp only [rd_eq _ _ _ hs]
  rfl
theorem im_88 (h : opc.toNat = 88) : MemOk env s opc dstb srcb off imm := by
  intro hd hs hb
  obtain rfl : opc = 88 := BitVec.eq_of_toNat_eq h
  rw [ex_88, show BitVec.toNat (88 : BitVec 8) = 88 from rfl, arm_88, addr_88, val_88]
  simp only [rd_eq _ _ _ hs]
  rfl
theorem im_113 (h : opc.toNat = 113) : MemOk env s opc dstb srcb off imm := by
  intro hd hs hb
  obtain rfl : opc = 113 := BitVec.eq_of_toNat_eq h
  rw [ex_113, show BitVec.toNat (113 : BitVec 8) = 113 from rfl, arm_113, addr_113, val_113]
  simp only [rd_eq _ _ _ hs]
  rfl
theorem im_105 (h : opc.toNat = 105) : MemOk env s opc dstb srcb off imm := by
  intro hd hs hb
  obtain rfl : opc = 105 := BitVec.eq_of_toNat_eq h
  rw [ex_105, show BitVec.toNat (105 : BitVec 8) = 105 from rfl, arm_105, addr_105, val_105]
  simp only [rd_eq _ _ _ hs]
  rfl
theorem im_97 (h : opc.toNat = 97) : MemOk env s opc dstb srcb off imm := by
  intro hd hs hb
  obtain rfl : opc = 97 := BitVec.eq_of_toNat_eq h
  rw [ex_97, show BitVec.toNat (97 : BitVec 8) = 97 from rfl, arm_97, addr_97, val_97]
  simp only [rd_eq _ _ _ hs]
  rfl
theorem im_121 (h : opc.toNat = 121) : MemOk env s opc dstb srcb off imm := by
  intro hd hs hb
  obtain rfl : opc = 121 := BitVec.eq_of_toNat_eq h
  rw [ex_121, show BitVec.toNat (121 : BitVec 8) = 121 from rfl, arm_121, addr_121, val_121]
  simp only [rd_eq _ _ _ hs]
  rfl
theorem im_114 (h : opc.toNat = 114) : MemOk env s opc dstb srcb off imm := by
  intro hd hs hb
  obtain rfl : opc = 114 := BitVec.eq_of_toNat_eq h
  rw [ex_114, show BitVec.toNat (114 : BitVec 8) = 114 from rfl, arm_114, addr_114, val_114]
  simp only [rd_eq _ _ _ hd]
  exact (store_mod _ _ _ _ _ _ (imm_mod1 imm)).trans rfl
theorem im_106 (h : opc.toNat = 106) : MemOk env s opc dstb srcb off imm := by
  intro hd hs hb
  obtain rfl : opc = 106 := BitVec.eq_of_toNat_eq h
  rw [ex_106, show BitVec.toNat (106 : BitVec 8) = 106 from rfl, arm_106, addr_106, val_106]
  simp only [rd_eq _ _ _ hd]
  exact (store_mod _ _ _ _ _ _ (imm_mod2 imm)).trans rfl
theorem im_98 (h : opc.toNat = 98) : MemOk env s opc dstb srcb off imm := by
  intro hd hs hb
  obtain rfl : opc = 98 := BitVec.eq_of_toNat_eq h
  rw [ex_98, show BitVec.toNat (98 : BitVec 8) = 98 from rfl, arm_98, addr_98, val_98]
  simp only [rd_eq _ _ _ hd]
  exact (store_mod _ _ _ _ _ _ (imm_mod4 imm)).trans rfl
theorem im_122 (h : opc.toNat = 122) : MemOk env s opc dstb srcb off imm := by
  intro hd hs hb
  obtain rfl : opc = 122 := BitVec.eq_of_toNat_eq h
  rw [ex_122, show BitVec.toNat (122 : BitVec 8) = 122 from rfl, arm_122, addr_122, val_122]
  simp only [rd_eq _ _ _ hd]
  rfl
theorem im_115 (h : opc.toNat = 115) : MemOk env s opc dstb srcb off imm := by
  intro hd hs hb
  obtain rfl : opc = 115 := BitVec.eq_of_toNat_eq h
  rw [ex_115, show BitVec.toNat (115 : BitVec 8) = 115 from rfl, arm_115, addr_115, val_115]
  simp only [rd_eq _ _ _ hd, rd_eq _ _ _ hs]
  exact (store_mod _ _ _ _ _ _ (reg_mod1 _)).trans rfl
theorem im_107 (h : opc.toNat = 107) : MemOk env s opc dstb srcb off imm := by
  intro hd hs hb
  obtain rfl : opc = 107 := BitVec.eq_of_toNat_eq h
  rw [ex_107, show BitVec.toNat (107 : BitVec 8) = 107 from rfl, arm_107, addr_107, val_107]
  simp only [rd_eq _ _ _ hd, rd_eq _ _ _ hs]
  exact (store_mod _ _ _ _ _ _ (reg_mod2 _)).trans rfl
theorem im_99 (h : opc.toNat = 99) : MemOk env s opc dstb srcb off imm := by
  intro hd hs hb
  obtain rfl : opc = 99 := BitVec.eq_of_toNat_eq h
  rw [ex_99, show BitVec.toNat (99 : BitVec 8) = 99 from rfl, arm_99, addr_99, val_99]
  simp only [rd_eq _ _ _ hd, rd_eq _ _ _ hs]
  exact (store_mod _ _ _ _ _ _ (reg_mod4 _)).trans rfl
theorem im_123 (h : opc.toNat = 123) : MemOk env s opc dstb srcb off imm := by
  intro hd hs hb
  obtain rfl : opc = 123 := BitVec.eq_of_toNat_eq h
  rw [ex_123, show BitVec.toNat (123 : BitVec 8) = 123 from rfl, arm_123, addr_123, val_123]
  simp only [rd_eq _ _ _ hd, rd_eq _ _ _ hs]
  rfl
theorem im_195 (h : opc.toNat = 195) : MemOk env s opc dstb srcb off imm := by
  intro hd hs hb
  obtain rfl : opc = 195 := BitVec.eq_of_toNat_eq h
  rw [ex_195, show BitVec.toNat (195 : BitVec 8) = 195 from rfl, arm_195, addr_195, val_195]
  simp only [rd_eq _ _ _ hd, rd_eq _ _ _ hs]
  rfl
theorem im_219 (h : opc.toNat = 219) : MemOk env s opc dstb srcb off imm := by
  intro hd hs hb
  obtain rfl : opc = 219 := BitVec.eq_of_toNat_eq h
  rw [ex_219, show BitVec.toNat (219 : BitVec 8) = 219 from rfl, arm_219, addr_219, val_219]
  simp only [rd_eq _ _ _ hd, rd_eq _ _ _ hs]
  rfl

/-! ## dispatch -/

theorem im_all (h : opc.toNat ∈ memOpcodes) : MemOk env s opc dstb srcb off imm := by
  intro hd hs hb
  simp only [memOpcodes, List.mem_cons, List.not_mem_nil, or_false] at h
  rcases h with h | h | h | h | h | h | h | h | h | h | h | h | h | h | h | h | h | h | h | h | h | h
  · exact im_48 h hd hs hb
  · exact im_40 h hd hs hb
  · exact im_32 h hd hs hb
  · exact im_56 h hd hs hb
  · exact im_80 h hd hs hb
  · exact im_72 h hd hs hb
  · exact im_64 h hd hs hb
  · exact im_88 h hd hs hb
  · exact im_113 h hd hs hb
  · exact im_105 h hd hs hb
  · exact im_97 h hd hs hb
  · exact im_121 h hd hs hb
  · exact im_114 h hd hs hb
  · exact im_106 h hd hs hb
  · exact im_98 h hd hs hb
  · exact im_122 h hd hs hb
  · exact im_115 h hd hs hb
  · exact im_107 h hd hs hb
  · exact im_99 h hd hs hb
  · exact im_123 h hd hs hb
  · exact im_195 h hd hs hb
  · exact im_219 h hd hs hb

end Rbpf.InterpMemAux
