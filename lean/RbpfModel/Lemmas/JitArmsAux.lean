/- Lemmas for Props/JitArms.lean: the arms of `jit_compile` as translated from src/jit.rs (Generated/JitArms.lean) against the model `JitEmit.arm`.

   The two functions are the same nest of `match`es with the arms in the same order, so the auxiliary matchers Lean generated for them
   are definitionally the same functions (`m_nat`, `m_regs`, `m_next`, `m_opt`, by `rfl` — no opcode is evaluated).  After identifying
   them, `congr` compares the functions arm by arm: 116 of the 124 arms agree by `rfl`; the rest are the shift immediates (`as i8` in
   the source, `u8` of the untruncated value in the model), the constant of the wide load, and the call arm (`match` on the source
   field against `if` in the model).  If the translated file changes the order of its arms, the matcher equalities fail first. -/
import RbpfModel.Generated.JitArms
namespace Rbpf.Generated.Jit
open Rbpf Rbpf.JitEmit
set_option maxRecDepth 10000

theorem m_nat : @armSrc.match_7.{1} = @JitEmit.arm.match_5.{1} := rfl
theorem m_regs : @armSrc.match_9.{1} = @JitEmit.arm.match_7.{1} := rfl
theorem m_next : @armSrc.match_1.{1} = @JitEmit.arm.match_1.{1} := rfl
theorem m_opt : @armSrc.match_3.{1} = @JitEmit.arm.match_3.{1} := rfl

theorem u8_bmod (x : Int) : u8 (Int.bmod x 256) = u8 x := by
  unfold u8
  rw [show (2 : Int) ^ 8 = ((256 : Nat) : Int) from rfl, Int.bmod_emod]

theorem emitAlu32Imm8_bmod (e : Em) (op s d : Nat) (x : Int) :
    emitAlu32Imm8 e op s d (Int.bmod x 256) = emitAlu32Imm8 e op s d x := by
  unfold emitAlu32Imm8; rw [u8_bmod]

theorem emitAlu64Imm8_bmod (e : Em) (op s d : Nat) (x : Int) :
    emitAlu64Imm8 e op s d (Int.bmod x 256) = emitAlu64Imm8 e op s d x := by
  unfold emitAlu64Imm8; rw [u8_bmod]

theorem lddw_imm (a b : BitVec 32) :
    (BitVec.setWidth 64 a ||| BitVec.signExtend 64 b <<< (32 % 64)).toInt =
      (if a.toNat ||| (BitVec.signExtend 64 b).toNat <<< 32 % 2 ^ 64 < 2 ^ 63 then
        ((a.toNat ||| (BitVec.signExtend 64 b).toNat <<< 32 % 2 ^ 64 : Nat) : Int)
       else ((a.toNat ||| (BitVec.signExtend 64 b).toNat <<< 32 % 2 ^ 64 : Nat) : Int) - 2 ^ 64) := by
  have ha : a.toNat % 2 ^ 64 = a.toNat := Nat.mod_eq_of_lt (by have := a.isLt; omega)
  rw [BitVec.toInt_eq_toNat_cond, BitVec.toNat_or, BitVec.toNat_shiftLeft, BitVec.toNat_setWidth, ha]
  generalize a.toNat ||| (BitVec.signExtend 64 b).toNat <<< (32 % 64) % 2 ^ 64 = v
  split <;> split <;> omega

theorem imm_u32 (x : BitVec 32) : (x.toInt % 2 ^ 32).toNat = x.toNat := by
  have := x.isLt
  rw [BitVec.toInt_eq_toNat_cond]; split <;> omega

theorem armSrc_eq (e : Em) (helperAddr : Nat → Option Nat) (pc : Nat) (i : Insn) (next : Option Insn) :
    armSrc e helperAddr pc i next = JitEmit.arm e helperAddr pc i next := by
  unfold armSrc JitEmit.arm
  rw [m_nat, m_regs, m_next, m_opt]
  congr 1
  funext dst src
  dsimp only
  congr 1
  all_goals try rfl
  · funext _
    cases next with
    | none => rfl
    | some nx => simp only [lddw_imm]
  · rw [emitAlu32Imm8_bmod]
  · rw [emitAlu32Imm8_bmod]
  · rw [emitAlu32Imm8_bmod]
  · rw [emitAlu64Imm8_bmod]
  · rw [emitAlu64Imm8_bmod]
  · rw [emitAlu64Imm8_bmod]
  · funext _
    rw [imm_u32]
    by_cases h0 : i.src = 0
    · rw [if_pos h0, h0]; rfl
    · rw [if_neg h0]
      by_cases h1 : i.src = 1
      · rw [if_pos h1, h1]; rfl
      · rw [if_neg h1]
        obtain ⟨k, hk⟩ : ∃ k, i.src.toNat = k + 2 := by
          refine ⟨i.src.toNat - 2, ?_⟩
          have a0 : i.src.toNat ≠ 0 := fun h => h0 (BitVec.eq_of_toNat_eq h)
          have a1 : i.src.toNat ≠ 1 := fun h => h1 (BitVec.eq_of_toNat_eq h)
          omega
        rw [hk]; rfl
end Rbpf.Generated.Jit
