/-
  The interpreter's loop iteration assembled from the translated control skeleton (`Generated/InterpCtl.lean`), and the
  abstraction that maps the source-shaped state (array of frames + index) to the model's state (list of live frames +
  vector of frame sizes).  Definitions only; the theorems are in `Props/InterpCtl.lean`.
-/
import RbpfModel.Generated.InterpCtl
import RbpfModel.Generated.InterpArms
import RbpfModel.Generated.InterpMem
namespace Rbpf.Src
open Rbpf.Generated Rbpf.Generated.Ctl

/-- the model's frame `k` of the source's array -/
def frameOf (σ : St) (k : Nat) : Frame :=
  let f := (σ.stacks[k]?).getD default
  { ret := f.returnAddress, saved := f.savedRegisters }

/-- abstraction: `stacks[0..stack_frame_idx)` innermost first, and the sizes of all eight entries -/
def abs (σ : St) : State :=
  { reg := σ.reg, pc := σ.insnPtr,
    frames := (List.range σ.idx).reverse.map (frameOf σ),
    usage := σ.stacks.map (·.stackUsage),
    mem := σ.mem, log := σ.log }

/-- what holds of the locals between iterations: the depth is within the array -/
def Inv (σ : St) : Prop := σ.idx ≤ 8

/-- the 119 arms translated separately (`Generated/InterpArms`, `Generated/InterpMem`; `Props/InterpArms.lean`,
    `Props/InterpMem.lean` prove the model's `Interp.exec` equal to them): here they are taken from the model -/
def otherArm (env : Env) (insn : Insn) : M Unit := fun σ =>
  match Interp.exec env (abs σ) insn with
  | .next s' => .ok () { σ with reg := s'.reg, insnPtr := s'.pc, mem := s'.mem }
  | .done r _ => .done r σ
  | .err e _ => .err e σ
  | .panic => .panic
  | .fault => .fault

def isOther (opc : Nat) : Bool := aluOpcodes.contains opc || jmpOpcodes.contains opc || memOpcodes.contains opc

/-- one iteration of `while insn_ptr * INSN_SIZE < prog.len() { … }`, then (loop left) the trailing `unreachable!()` -/
def stepSrc (env : Env) : M Unit := do
  let c ← loopCondSrc env
  if c then
    let insn ← headerSrc env
    let opc := insn.opc.toNat
    if opc = opcLdDw then lddwArmSrc env insn
    else if opc = opcCall then callArmSrc env insn
    else if opc = opcTailCall then tailCallArmSrc env insn
    else if opc = opcExit then exitArmSrc env insn
    else if isOther opc then otherArm env insn
    else defaultArmSrc
  else afterLoopSrc

/-- outcome of a source iteration against the model's: equal up to `abs`; the one divergence is a jump or call to a
    negative index, which the source stores wrapped (`as usize`, so ≥ 2^63) and only refuses at the next loop test
    (`insn_ptr * INSN_SIZE` overflows), while the model panics at once -/
def RelOut : Res Unit → Outcome → Prop
  | .ok () σ', o => (o = .next (abs σ') ∧ Inv σ') ∨ (o = .panic ∧ 2 ^ 63 ≤ σ'.insnPtr)
  | .done r σ', o => o = .done r (abs σ')
  | .err e σ', o => o = .err e (abs σ')
  | .panic, o => o = .panic
  | .fault, o => o = .fault

inductive RunRes
  | done (r0 : BitVec 64) (σ : St) | err (e : ErrKind) (σ : St) | panic | fault | timeout (σ : St)

def runSrc (env : Env) (σ : St) : Nat → RunRes
  | 0 => .timeout σ
  | fuel + 1 =>
    match stepSrc env σ with
    | .ok () σ' => runSrc env σ' fuel
    | .done r σ' => .done r σ'
    | .err e σ' => .err e σ'
    | .panic => .panic
    | .fault => .fault

/-- final results correspond -/
def RelRes : RunRes → Interp.Result → Prop
  | .done r σ, o => o = .done r (abs σ)
  | .err e σ, o => o = .err e (abs σ)
  | .panic, o => o = .panic
  | .fault, o => o = .fault
  | .timeout _, _ => False

/-- the locals as `execute_program` initialises them (`stacks = [StackFrame::new(); 8]`, `stack_frame_idx = 0`, `insn_ptr = 0`) -/
def initSrc (m : Memory) : St :=
  { reg := (Interp.init m).reg, insnPtr := 0, idx := 0,
    stacks := Vector.replicate 8 { returnAddress := 0, savedRegisters := (0, 0, 0, 0), stackUsage := 256 },
    mem := m, log := [] }

end Rbpf.Src
