/-
  Helper lemmas for C01 (interpreter arm = ISA semantics): the register-access combinators `rd`/`wr`,
  the cast identities relating the interpreter's `as` chains to the ISA's generic word operations, the
  little-endian byte helpers, and the per-opcode agreement lemma `exec_eq_spec`.
-/
import RbpfModel.Model.Isa
import Lean
namespace Rbpf
open Interp

/-- what the ISA prescribes for a raw instruction: decode, then execute; an undecodable opcode is the
    interpreter's `unreachable!()` -/
def Isa.spec (env : Env) (s : State) (insn : Insn) : Outcome :=
  (Isa.decode insn).elim Outcome.panic (Isa.exec env s)

theorem Isa.spec_eq (env : Env) (s : State) (insn : Insn) :
    Isa.spec env s insn = (match Isa.decode insn with | some i => Isa.exec env s i | none => Outcome.panic) := by
  unfold Isa.spec; cases Isa.decode insn <;> rfl

theorem elim_ite {α β : Type} (c : Prop) [Decidable c] (a b : Option α) (d : β) (f : α → β) :
    (if c then a else b).elim d f = if c then a.elim d f else b.elim d f := by
  split <;> rfl

/-- observers on outcomes (`Outcome` has no decidable equality) -/
def Outcome.pc? : Outcome → Option Nat
  | .next s => some s.pc
  | _ => none

def Outcome.reg? (i : Nat) : Outcome → Option (BitVec 64)
  | .next s => s.reg[i]?
  | _ => none

-- register access ---------------------------------------------------------------------------------

theorem rd_wr_const (s : State) (i : Nat) (v : BitVec 64) : rd s i (fun _ => wr s i v) = wr s i v := by
  unfold rd wr
  by_cases h : i < 11 <;> simp [h]

theorem rd_panic (s : State) (i : Nat) : rd s i (fun _ => Outcome.panic) = Outcome.panic := by
  unfold rd; split <;> rfl

theorem rd_comm (s : State) (i j : Nat) (k : BitVec 64 → BitVec 64 → Outcome) :
    (rd s i fun a => rd s j fun b => k a b) = rd s j fun b => rd s i fun a => k a b := by
  unfold rd; split <;> split <;> rfl

theorem rd_ite (c : Prop) [Decidable c] (s : State) (i : Nat) (f g : BitVec 64 → Outcome) :
    (rd s i fun d => if c then f d else g d) = if c then rd s i f else rd s i g := by
  split <;> rfl

theorem ite_wr_rd (c : Prop) [Decidable c] (s : State) (i : Nat) (v : BitVec 64) (f : BitVec 64 → BitVec 64) :
    (if c then wr s i v else rd s i fun d => wr s i (f d)) = rd s i fun d => wr s i (if c then v else f d) := by
  split <;> simp [rd_wr_const]

-- casts -------------------------------------------------------------------------------------------

theorem setWidth32_signExtend64 (x : BitVec 32) : (x.signExtend 64).setWidth 32 = x := by
  apply BitVec.eq_of_getLsbD_eq; intro i hi
  simp [BitVec.getLsbD_signExtend, hi]; omega

theorem signExtend64_eq_zero (x : BitVec 32) : x.signExtend 64 = 0#64 ↔ x = 0#32 := by
  constructor
  · intro h; have := congrArg (BitVec.setWidth 32) h; simpa [setWidth32_signExtend64] using this
  · rintro rfl; simp

/-- `(y as i32 as u64) & 0xffff_ffff` is the zero-extension -/
theorem sx32_and_mask (y : BitVec 32) : y.signExtend 64 &&& 0xffffffff#64 = y.setWidth 64 := by
  apply BitVec.eq_of_toNat_eq
  rw [BitVec.toNat_and]
  show (BitVec.signExtend 64 y).toNat &&& (2^32 - 1) = _
  rw [Nat.and_two_pow_sub_one_eq_mod, BitVec.toNat_signExtend]
  have := y.isLt
  cases y.msb <;> simp <;> omega

/-- `lddw`: `(lo as u32 as u64) + ((hi as u64) << 32)` is the concatenation `hi ++ lo` -/
theorem lddw_value (lo hi : BitVec 32) : lo.setWidth 64 + (hi.signExtend 64 <<< (32 : Nat)) = hi ++ lo := by
  apply BitVec.eq_of_toNat_eq
  rw [BitVec.toNat_append, ← Nat.shiftLeft_add_eq_or_of_lt lo.isLt]
  rw [BitVec.toNat_add, BitVec.toNat_shiftLeft, BitVec.toNat_signExtend, Nat.shiftLeft_eq, Nat.shiftLeft_eq]
  have := lo.isLt; have := hi.isLt
  cases hi.msb <;> simp <;> omega

theorem setWidth_ite {n m : Nat} (c : Prop) [Decidable c] (a b : BitVec n) :
    (if c then a else b).setWidth m = if c then a.setWidth m else b.setWidth m := by
  split <;> rfl

-- little-endian bytes -----------------------------------------------------------------------------

theorem leValue_leBytes (v w : Nat) : leValue (leBytes v w) = v % 256 ^ w := by
  induction w generalizing v with
  | zero => simp [leBytes, leValue, Nat.mod_one]
  | succ w ih =>
    simp only [leBytes, leValue, ih, BitVec.toNat_ofNat]
    rw [show 256 ^ (w + 1) = 256 * 256 ^ w by rw [Nat.pow_succ, Nat.mul_comm], Nat.mod_mul]

/-- the moduli appear as literals once `simp` has evaluated `256 ^ w` / `2 ^ (8 * w)` -/
theorem ofNat_mod_2_16 (d : BitVec 64) : BitVec.ofNat 64 (d.toNat % 65536) = (d.setWidth 16).setWidth 64 := by
  apply BitVec.eq_of_toNat_eq; have := d.isLt; simp <;> omega
theorem ofNat_mod_2_32 (d : BitVec 64) : BitVec.ofNat 64 (d.toNat % 4294967296) = (d.setWidth 32).setWidth 64 := by
  apply BitVec.eq_of_toNat_eq; have := d.isLt; simp <;> omega
theorem ofNat_mod_2_64 (d : BitVec 64) : BitVec.ofNat 64 (d.toNat % 18446744073709551616) = d := by
  apply BitVec.eq_of_toNat_eq; have := d.isLt; simp <;> omega

-- per-opcode agreement ----------------------------------------------------------------------------

/-- the interpreter's arm for opcode byte `n` computes what the ISA prescribes, for all operand fields
    and states (the F7 instructions excepted) -/
def OpcOK (n : Nat) : Prop :=
  ∀ (env : Env) (s : State) (dst src : BitVec 8) (off : BitVec 16) (imm : BitVec 32),
    Isa.isF7 ⟨BitVec.ofNat 8 n, dst, src, off, imm⟩ = false →
    Interp.exec env s ⟨BitVec.ofNat 8 n, dst, src, off, imm⟩ = Isa.spec env s ⟨BitVec.ofNat 8 n, dst, src, off, imm⟩

open Lean Elab Tactic Meta in
/-- Reduce the left-hand side `Interp.exec env s ⟨literal opcode, …⟩` of the goal to the selected arm by
    evaluation: `exec`, its matchers (a `dite` chain over the opcode literal) and `Eq` casts are unfolded,
    nothing else.  (`simp` would go through the 121 match equations instead, which is slow and yields
    proof terms quadratic in the arm's position.)  The goal is replaced by a definitionally equal one,
    so the kernel re-checks the step. -/
elab "reduce_exec_lhs" : tactic => liftMetaTactic fun g => do
  let t ← instantiateMVars (← g.getType)
  let some (_, lhs, rhs) := t.eq? | throwError "reduce_exec_lhs: goal is not an equation"
  let allow : List Name := [``Rbpf.Interp.exec, ``dite, ``cast, ``id]
  let lhs' ← whnfHeadPred lhs fun e => do
    let .const c _ := e.getAppFn | return false
    if allow.contains c then return true
    if (← getMatcherInfo? c).isSome then return true
    return c.getPrefix == ``Eq
  -- the cast helpers are unfolded everywhere (also inside `Decidable` instance arguments, which `simp`
  -- would leave stale)
  let casts : List Name := [``Rbpf.Interp.lo32, ``Rbpf.Interp.zx32, ``Rbpf.Interp.sx32]
  let t' ← deltaExpand (← mkEq lhs' rhs) (casts.contains ·)
  return [← g.replaceTargetDefEq t']

set_option linter.unusedSimpArgs false

/-- one opcode literal: select the interpreter's arm, unfold the ISA side, normalise both -/
macro "opc_tac" : tactic => `(tactic| (
  intro env s dst src off imm hF
  simp [Isa.isF7] at hF
  reduce_exec_lhs
  simp [Isa.spec, Isa.decode, Isa.exec, Isa.aluOp?, Isa.cond?, Isa.sizeBytes, Isa.aluSem, Isa.condSem,
    Isa.operand64, Interp.branch, Interp.bswap,
    rd_wr_const, rd_panic, ite_wr_rd, rd_ite, elim_ite, setWidth32_signExtend64, signExtend64_eq_zero, sx32_and_mask,
    lddw_value, setWidth_ite, leValue_leBytes, ofNat_mod_2_16, ofNat_mod_2_32, ofNat_mod_2_64,
    BitVec.signExtend_eq_setWidth_of_msb_false, hF]
  -- what can remain: `if`s whose `Decidable` instance still mentions an unfolded definition (closed by
  -- `rfl`), and the two register reads in the other order
  all_goals (first | rfl | (conv => lhs; rw [rd_comm]) | skip)
  all_goals (try rfl)))

set_option maxRecDepth 4000

theorem opcOK_00 (n : Nat) (h : n = 0x00 ∨ n = 0x01 ∨ n = 0x02 ∨ n = 0x03 ∨ n = 0x04 ∨ n = 0x05 ∨ n = 0x06 ∨ n = 0x07) : OpcOK n := by
  rcases h with rfl | rfl | rfl | rfl | rfl | rfl | rfl | rfl <;> opc_tac
theorem opcOK_08 (n : Nat) (h : n = 0x08 ∨ n = 0x09 ∨ n = 0x0a ∨ n = 0x0b ∨ n = 0x0c ∨ n = 0x0d ∨ n = 0x0e ∨ n = 0x0f) : OpcOK n := by
  rcases h with rfl | rfl | rfl | rfl | rfl | rfl | rfl | rfl <;> opc_tac
theorem opcOK_10 (n : Nat) (h : n = 0x10 ∨ n = 0x11 ∨ n = 0x12 ∨ n = 0x13 ∨ n = 0x14 ∨ n = 0x15 ∨ n = 0x16 ∨ n = 0x17) : OpcOK n := by
  rcases h with rfl | rfl | rfl | rfl | rfl | rfl | rfl | rfl <;> opc_tac
theorem opcOK_18 (n : Nat) (h : n = 0x18 ∨ n = 0x19 ∨ n = 0x1a ∨ n = 0x1b ∨ n = 0x1c ∨ n = 0x1d ∨ n = 0x1e ∨ n = 0x1f) : OpcOK n := by
  rcases h with rfl | rfl | rfl | rfl | rfl | rfl | rfl | rfl <;> opc_tac
theorem opcOK_20 (n : Nat) (h : n = 0x20 ∨ n = 0x21 ∨ n = 0x22 ∨ n = 0x23 ∨ n = 0x24 ∨ n = 0x25 ∨ n = 0x26 ∨ n = 0x27) : OpcOK n := by
  rcases h with rfl | rfl | rfl | rfl | rfl | rfl | rfl | rfl <;> opc_tac
theorem opcOK_28 (n : Nat) (h : n = 0x28 ∨ n = 0x29 ∨ n = 0x2a ∨ n = 0x2b ∨ n = 0x2c ∨ n = 0x2d ∨ n = 0x2e ∨ n = 0x2f) : OpcOK n := by
  rcases h with rfl | rfl | rfl | rfl | rfl | rfl | rfl | rfl <;> opc_tac
theorem opcOK_30 (n : Nat) (h : n = 0x30 ∨ n = 0x31 ∨ n = 0x32 ∨ n = 0x33 ∨ n = 0x34 ∨ n = 0x35 ∨ n = 0x36 ∨ n = 0x37) : OpcOK n := by
  rcases h with rfl | rfl | rfl | rfl | rfl | rfl | rfl | rfl <;> opc_tac
theorem opcOK_38 (n : Nat) (h : n = 0x38 ∨ n = 0x39 ∨ n = 0x3a ∨ n = 0x3b ∨ n = 0x3c ∨ n = 0x3d ∨ n = 0x3e ∨ n = 0x3f) : OpcOK n := by
  rcases h with rfl | rfl | rfl | rfl | rfl | rfl | rfl | rfl <;> opc_tac
theorem opcOK_40 (n : Nat) (h : n = 0x40 ∨ n = 0x41 ∨ n = 0x42 ∨ n = 0x43 ∨ n = 0x44 ∨ n = 0x45 ∨ n = 0x46 ∨ n = 0x47) : OpcOK n := by
  rcases h with rfl | rfl | rfl | rfl | rfl | rfl | rfl | rfl <;> opc_tac
theorem opcOK_48 (n : Nat) (h : n = 0x48 ∨ n = 0x49 ∨ n = 0x4a ∨ n = 0x4b ∨ n = 0x4c ∨ n = 0x4d ∨ n = 0x4e ∨ n = 0x4f) : OpcOK n := by
  rcases h with rfl | rfl | rfl | rfl | rfl | rfl | rfl | rfl <;> opc_tac
theorem opcOK_50 (n : Nat) (h : n = 0x50 ∨ n = 0x51 ∨ n = 0x52 ∨ n = 0x53 ∨ n = 0x54 ∨ n = 0x55 ∨ n = 0x56 ∨ n = 0x57) : OpcOK n := by
  rcases h with rfl | rfl | rfl | rfl | rfl | rfl | rfl | rfl <;> opc_tac
theorem opcOK_58 (n : Nat) (h : n = 0x58 ∨ n = 0x59 ∨ n = 0x5a ∨ n = 0x5b ∨ n = 0x5c ∨ n = 0x5d ∨ n = 0x5e ∨ n = 0x5f) : OpcOK n := by
  rcases h with rfl | rfl | rfl | rfl | rfl | rfl | rfl | rfl <;> opc_tac
theorem opcOK_60 (n : Nat) (h : n = 0x60 ∨ n = 0x61 ∨ n = 0x62 ∨ n = 0x63 ∨ n = 0x64 ∨ n = 0x65 ∨ n = 0x66 ∨ n = 0x67) : OpcOK n := by
  rcases h with rfl | rfl | rfl | rfl | rfl | rfl | rfl | rfl <;> opc_tac
theorem opcOK_68 (n : Nat) (h : n = 0x68 ∨ n = 0x69 ∨ n = 0x6a ∨ n = 0x6b ∨ n = 0x6c ∨ n = 0x6d ∨ n = 0x6e ∨ n = 0x6f) : OpcOK n := by
  rcases h with rfl | rfl | rfl | rfl | rfl | rfl | rfl | rfl <;> opc_tac
theorem opcOK_70 (n : Nat) (h : n = 0x70 ∨ n = 0x71 ∨ n = 0x72 ∨ n = 0x73 ∨ n = 0x74 ∨ n = 0x75 ∨ n = 0x76 ∨ n = 0x77) : OpcOK n := by
  rcases h with rfl | rfl | rfl | rfl | rfl | rfl | rfl | rfl <;> opc_tac
theorem opcOK_78 (n : Nat) (h : n = 0x78 ∨ n = 0x79 ∨ n = 0x7a ∨ n = 0x7b ∨ n = 0x7c ∨ n = 0x7d ∨ n = 0x7e ∨ n = 0x7f) : OpcOK n := by
  rcases h with rfl | rfl | rfl | rfl | rfl | rfl | rfl | rfl <;> opc_tac
theorem opcOK_80 (n : Nat) (h : n = 0x80 ∨ n = 0x81 ∨ n = 0x82 ∨ n = 0x83 ∨ n = 0x84 ∨ n = 0x85 ∨ n = 0x86 ∨ n = 0x87) : OpcOK n := by
  rcases h with rfl | rfl | rfl | rfl | rfl | rfl | rfl | rfl <;> opc_tac
theorem opcOK_88 (n : Nat) (h : n = 0x88 ∨ n = 0x89 ∨ n = 0x8a ∨ n = 0x8b ∨ n = 0x8c ∨ n = 0x8d ∨ n = 0x8e ∨ n = 0x8f) : OpcOK n := by
  rcases h with rfl | rfl | rfl | rfl | rfl | rfl | rfl | rfl <;> opc_tac
theorem opcOK_90 (n : Nat) (h : n = 0x90 ∨ n = 0x91 ∨ n = 0x92 ∨ n = 0x93 ∨ n = 0x94 ∨ n = 0x95 ∨ n = 0x96 ∨ n = 0x97) : OpcOK n := by
  rcases h with rfl | rfl | rfl | rfl | rfl | rfl | rfl | rfl <;> opc_tac
theorem opcOK_98 (n : Nat) (h : n = 0x98 ∨ n = 0x99 ∨ n = 0x9a ∨ n = 0x9b ∨ n = 0x9c ∨ n = 0x9d ∨ n = 0x9e ∨ n = 0x9f) : OpcOK n := by
  rcases h with rfl | rfl | rfl | rfl | rfl | rfl | rfl | rfl <;> opc_tac
theorem opcOK_a0 (n : Nat) (h : n = 0xa0 ∨ n = 0xa1 ∨ n = 0xa2 ∨ n = 0xa3 ∨ n = 0xa4 ∨ n = 0xa5 ∨ n = 0xa6 ∨ n = 0xa7) : OpcOK n := by
  rcases h with rfl | rfl | rfl | rfl | rfl | rfl | rfl | rfl <;> opc_tac
theorem opcOK_a8 (n : Nat) (h : n = 0xa8 ∨ n = 0xa9 ∨ n = 0xaa ∨ n = 0xab ∨ n = 0xac ∨ n = 0xad ∨ n = 0xae ∨ n = 0xaf) : OpcOK n := by
  rcases h with rfl | rfl | rfl | rfl | rfl | rfl | rfl | rfl <;> opc_tac
theorem opcOK_b0 (n : Nat) (h : n = 0xb0 ∨ n = 0xb1 ∨ n = 0xb2 ∨ n = 0xb3 ∨ n = 0xb4 ∨ n = 0xb5 ∨ n = 0xb6 ∨ n = 0xb7) : OpcOK n := by
  rcases h with rfl | rfl | rfl | rfl | rfl | rfl | rfl | rfl <;> opc_tac
theorem opcOK_b8 (n : Nat) (h : n = 0xb8 ∨ n = 0xb9 ∨ n = 0xba ∨ n = 0xbb ∨ n = 0xbc ∨ n = 0xbd ∨ n = 0xbe ∨ n = 0xbf) : OpcOK n := by
  rcases h with rfl | rfl | rfl | rfl | rfl | rfl | rfl | rfl <;> opc_tac
theorem opcOK_c0 (n : Nat) (h : n = 0xc0 ∨ n = 0xc1 ∨ n = 0xc2 ∨ n = 0xc3 ∨ n = 0xc4 ∨ n = 0xc5 ∨ n = 0xc6 ∨ n = 0xc7) : OpcOK n := by
  rcases h with rfl | rfl | rfl | rfl | rfl | rfl | rfl | rfl <;> opc_tac
theorem opcOK_c8 (n : Nat) (h : n = 0xc8 ∨ n = 0xc9 ∨ n = 0xca ∨ n = 0xcb ∨ n = 0xcc ∨ n = 0xcd ∨ n = 0xce ∨ n = 0xcf) : OpcOK n := by
  rcases h with rfl | rfl | rfl | rfl | rfl | rfl | rfl | rfl <;> opc_tac
theorem opcOK_d0 (n : Nat) (h : n = 0xd0 ∨ n = 0xd1 ∨ n = 0xd2 ∨ n = 0xd3 ∨ n = 0xd4 ∨ n = 0xd5 ∨ n = 0xd6 ∨ n = 0xd7) : OpcOK n := by
  rcases h with rfl | rfl | rfl | rfl | rfl | rfl | rfl | rfl <;> opc_tac
theorem opcOK_d8 (n : Nat) (h : n = 0xd8 ∨ n = 0xd9 ∨ n = 0xda ∨ n = 0xdb ∨ n = 0xdc ∨ n = 0xdd ∨ n = 0xde ∨ n = 0xdf) : OpcOK n := by
  rcases h with rfl | rfl | rfl | rfl | rfl | rfl | rfl | rfl <;> opc_tac
theorem opcOK_e0 (n : Nat) (h : n = 0xe0 ∨ n = 0xe1 ∨ n = 0xe2 ∨ n = 0xe3 ∨ n = 0xe4 ∨ n = 0xe5 ∨ n = 0xe6 ∨ n = 0xe7) : OpcOK n := by
  rcases h with rfl | rfl | rfl | rfl | rfl | rfl | rfl | rfl <;> opc_tac
theorem opcOK_e8 (n : Nat) (h : n = 0xe8 ∨ n = 0xe9 ∨ n = 0xea ∨ n = 0xeb ∨ n = 0xec ∨ n = 0xed ∨ n = 0xee ∨ n = 0xef) : OpcOK n := by
  rcases h with rfl | rfl | rfl | rfl | rfl | rfl | rfl | rfl <;> opc_tac
theorem opcOK_f0 (n : Nat) (h : n = 0xf0 ∨ n = 0xf1 ∨ n = 0xf2 ∨ n = 0xf3 ∨ n = 0xf4 ∨ n = 0xf5 ∨ n = 0xf6 ∨ n = 0xf7) : OpcOK n := by
  rcases h with rfl | rfl | rfl | rfl | rfl | rfl | rfl | rfl <;> opc_tac
theorem opcOK_f8 (n : Nat) (h : n = 0xf8 ∨ n = 0xf9 ∨ n = 0xfa ∨ n = 0xfb ∨ n = 0xfc ∨ n = 0xfd ∨ n = 0xfe ∨ n = 0xff) : OpcOK n := by
  rcases h with rfl | rfl | rfl | rfl | rfl | rfl | rfl | rfl <;> opc_tac

theorem opcOK_all (n : Nat) (h : n < 256) : OpcOK n :=
  if h0 : n < 8 then opcOK_00 n (by omega) else
  if h1 : n < 16 then opcOK_08 n (by omega) else
  if h2 : n < 24 then opcOK_10 n (by omega) else
  if h3 : n < 32 then opcOK_18 n (by omega) else
  if h4 : n < 40 then opcOK_20 n (by omega) else
  if h5 : n < 48 then opcOK_28 n (by omega) else
  if h6 : n < 56 then opcOK_30 n (by omega) else
  if h7 : n < 64 then opcOK_38 n (by omega) else
  if h8 : n < 72 then opcOK_40 n (by omega) else
  if h9 : n < 80 then opcOK_48 n (by omega) else
  if h10 : n < 88 then opcOK_50 n (by omega) else
  if h11 : n < 96 then opcOK_58 n (by omega) else
  if h12 : n < 104 then opcOK_60 n (by omega) else
  if h13 : n < 112 then opcOK_68 n (by omega) else
  if h14 : n < 120 then opcOK_70 n (by omega) else
  if h15 : n < 128 then opcOK_78 n (by omega) else
  if h16 : n < 136 then opcOK_80 n (by omega) else
  if h17 : n < 144 then opcOK_88 n (by omega) else
  if h18 : n < 152 then opcOK_90 n (by omega) else
  if h19 : n < 160 then opcOK_98 n (by omega) else
  if h20 : n < 168 then opcOK_a0 n (by omega) else
  if h21 : n < 176 then opcOK_a8 n (by omega) else
  if h22 : n < 184 then opcOK_b0 n (by omega) else
  if h23 : n < 192 then opcOK_b8 n (by omega) else
  if h24 : n < 200 then opcOK_c0 n (by omega) else
  if h25 : n < 208 then opcOK_c8 n (by omega) else
  if h26 : n < 216 then opcOK_d0 n (by omega) else
  if h27 : n < 224 then opcOK_d8 n (by omega) else
  if h28 : n < 232 then opcOK_e0 n (by omega) else
  if h29 : n < 240 then opcOK_e8 n (by omega) else
  if h30 : n < 248 then opcOK_f0 n (by omega) else
  opcOK_f8 n (by omega)

/-- every instruction except F7: the interpreter's arm computes what the ISA prescribes -/
theorem exec_eq_spec (env : Env) (s : State) (insn : Insn) (h : Isa.isF7 insn = false) :
    Interp.exec env s insn = Isa.spec env s insn := by
  obtain ⟨opc, dst, src, off, imm⟩ := insn
  have := opcOK_all opc.toNat opc.isLt env s dst src off imm
  simp only [BitVec.ofNat_toNat, BitVec.setWidth_eq] at this
  exact this h

-- consequences used by the C01 corollaries ---------------------------------------------------------

/-- the F7 instructions are exactly (some of) the 64-bit compare-with-immediate jumps -/
theorem decode_of_isF7 (insn : Insn) (h : Isa.isF7 insn = true) :
    ∃ c d v o, Isa.decode insn = some (.jmp .w64 c d (.imm v) o) := by
  obtain ⟨opc, dst, src, off, imm⟩ := insn
  simp only [Isa.isF7, Bool.and_eq_true, Bool.or_eq_true, decide_eq_true_eq] at h
  obtain ⟨h, -⟩ := h
  rcases h with ((((rfl | rfl) | rfl) | rfl) | rfl) | rfl <;> simp [Isa.decode, Isa.cond?]

theorem isF7_false_of_decode {insn : Insn} {i : Isa.Instr} (hd : Isa.decode insn = some i)
    (hi : ∀ c d v o, i ≠ .jmp .w64 c d (.imm v) o) : Isa.isF7 insn = false := by
  cases h : Isa.isF7 insn with
  | false => rfl
  | true =>
    obtain ⟨c, d, v, o, h'⟩ := decode_of_isF7 insn h
    rw [hd] at h'
    exact absurd (Option.some.inj h') (hi c d v o)

theorem exec_of_decode (env : Env) (s : State) {insn : Insn} {i : Isa.Instr} (hd : Isa.decode insn = some i)
    (hi : ∀ c d v o, i ≠ .jmp .w64 c d (.imm v) o) : Interp.exec env s insn = Isa.exec env s i := by
  rw [exec_eq_spec env s insn (isF7_false_of_decode hd hi), Isa.spec, hd]; rfl

theorem rd_some {s : State} {i : Nat} {v : BitVec 64} (k : BitVec 64 → Outcome) (h : s.reg[i]? = some v) :
    rd s i k = k v := by
  unfold rd; rw [h]

theorem rd_eq_next {s s' : State} {i : Nat} {k : BitVec 64 → Outcome} (h : rd s i k = .next s') :
    ∃ v, s.reg[i]? = some v ∧ k v = .next s' := by
  unfold rd at h
  split at h
  · exact ⟨_, ‹_›, h⟩
  · cases h

theorem wr_eq_next {s s' : State} {i : Nat} {v : BitVec 64} (h : wr s i v = .next s') :
    i < 11 ∧ s' = { s with reg := s.reg.setIfInBounds i v } := by
  unfold wr at h
  split at h
  · exact ⟨‹_›, (Outcome.next.inj h).symm⟩
  · cases h

theorem wr_reg {s s' : State} {i : Nat} {v : BitVec 64} (h : wr s i v = .next s') : s'.reg[i]? = some v := by
  obtain ⟨hi, rfl⟩ := wr_eq_next h
  simp [hi]




-- witnesses ---------------------------------------------------------------------------------------

/-- F7 witness state: all registers 0 except r1 = 0xffff_ffff_ffff_ffff -/
def f7State : State :=
  { reg := (Vector.replicate 11 (0 : BitVec 64)).setIfInBounds 1 (-1), pc := 0, frames := [],
    usage := Vector.replicate 8 256, mem := default, log := [] }

/-- an environment with the program `mov r0, 7; exit`, no helpers, no extra ranges -/
def demoEnv : Env :=
  { prog := #[0xb7,0,0,0,7,0,0,0, 0x95,0,0,0,0,0,0,0], helpers := fun _ => none, allowed := [],
    usage := fun _ => none }

end Rbpf
