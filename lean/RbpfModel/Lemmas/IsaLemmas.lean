/-
  Helper lemmas for C01 (interpreter arm = ISA semantics): the register-access combinators `rd`/`wr`,
  the cast identities relating the interpreter's `as` chains to the ISA's generic word operations, the
  little-endian byte helpers, and the per-opcode agreement lemma `exec_eq_spec`.
-/
import RbpfModel.Model.Isa
namespace Rbpf
open Interp

/-- what the ISA prescribes for a raw instruction: decode, then execute; an undecodable opcode is the
    interpreter's `unreachable!()` -/
def Isa.spec (env : Env) (s : State) (insn : Insn) : Outcome :=
  match Isa.decode insn with | some i => Isa.exec env s i | none => Outcome.panic

/-- observers on outcomes (`Outcome` has no decidable equality) -/
def Outcome.pc? : Outcome → Option Nat
  | .next s => some s.pc
  | _ => none

def Outcome.reg? (i : Nat) : Outcome → Option (BitVec 64)
  | .next s => s.reg[i]?
  | _ => none

-- register access ---------------------------------------------------------------------------------

theorem rd_wr_const (s : State) (i : Nat) (v : BitVec 64) : rd s i (fun _ => wr s i v) = wr s i v := by
  unfold rd wr
  by_cases h : i < 11 <;> simp [h]

theorem rd_panic (s : State) (i : Nat) : rd s i (fun _ => Outcome.panic) = Outcome.panic := by
  unfold rd; split <;> rfl

theorem rd_comm (s : State) (i j : Nat) (k : BitVec 64 → BitVec 64 → Outcome) :
    (rd s i fun a => rd s j fun b => k a b) = rd s j fun b => rd s i fun a => k a b := by
  unfold rd; split <;> split <;> rfl

theorem ite_wr_rd (c : Prop) [Decidable c] (s : State) (i : Nat) (v : BitVec 64) (f : BitVec 64 → BitVec 64) :
    (if c then wr s i v else rd s i fun d => wr s i (f d)) = rd s i fun d => wr s i (if c then v else f d) := by
  split <;> simp [rd_wr_const]

-- casts -------------------------------------------------------------------------------------------

theorem setWidth32_signExtend64 (x : BitVec 32) : (x.signExtend 64).setWidth 32 = x := by
  apply BitVec.eq_of_getLsbD_eq; intro i hi
  simp [BitVec.getLsbD_signExtend, hi]; omega

theorem signExtend64_eq_zero (x : BitVec 32) : x.signExtend 64 = 0#64 ↔ x = 0#32 := by
  constructor
  · intro h; have := congrArg (BitVec.setWidth 32) h; simpa [setWidth32_signExtend64] using this
  · rintro rfl; simp

/-- `(y as i32 as u64) & 0xffff_ffff` is the zero-extension -/
theorem sx32_and_mask (y : BitVec 32) : y.signExtend 64 &&& 0xffffffff#64 = y.setWidth 64 := by
  apply BitVec.eq_of_toNat_eq
  rw [BitVec.toNat_and]
  show (BitVec.signExtend 64 y).toNat &&& (2^32 - 1) = _
  rw [Nat.and_two_pow_sub_one_eq_mod, BitVec.toNat_signExtend]
  have := y.isLt
  cases y.msb <;> simp <;> omega

/-- `lddw`: `(lo as u32 as u64) + ((hi as u64) << 32)` is the concatenation `hi ++ lo` -/
theorem lddw_value (lo hi : BitVec 32) : lo.setWidth 64 + (hi.signExtend 64 <<< (32 : Nat)) = hi ++ lo := by
  apply BitVec.eq_of_toNat_eq
  rw [BitVec.toNat_append, ← Nat.shiftLeft_add_eq_or_of_lt lo.isLt]
  rw [BitVec.toNat_add, BitVec.toNat_shiftLeft, BitVec.toNat_signExtend, Nat.shiftLeft_eq, Nat.shiftLeft_eq]
  have := lo.isLt; have := hi.isLt
  cases hi.msb <;> simp <;> omega

theorem setWidth_ite {n m : Nat} (c : Prop) [Decidable c] (a b : BitVec n) :
    (if c then a else b).setWidth m = if c then a.setWidth m else b.setWidth m := by
  split <;> rfl

-- little-endian bytes -----------------------------------------------------------------------------

theorem leValue_leBytes (v w : Nat) : leValue (leBytes v w) = v % 256 ^ w := by
  induction w generalizing v with
  | zero => simp [leBytes, leValue, Nat.mod_one]
  | succ w ih =>
    simp only [leBytes, leValue, ih, BitVec.toNat_ofNat]
    rw [show 256 ^ (w + 1) = 256 * 256 ^ w by rw [Nat.pow_succ, Nat.mul_comm], Nat.mod_mul]

theorem ofNat_mod_256_2 (d : BitVec 64) : BitVec.ofNat 64 (d.toNat % 256 ^ 2) = (d.setWidth 16).setWidth 64 := by
  apply BitVec.eq_of_toNat_eq; have := d.isLt; simp <;> omega
theorem ofNat_mod_256_4 (d : BitVec 64) : BitVec.ofNat 64 (d.toNat % 256 ^ 4) = (d.setWidth 32).setWidth 64 := by
  apply BitVec.eq_of_toNat_eq; have := d.isLt; simp <;> omega
theorem ofNat_mod_256_8 (d : BitVec 64) : BitVec.ofNat 64 (d.toNat % 256 ^ 8) = d := by
  apply BitVec.eq_of_toNat_eq; have := d.isLt; simp <;> omega
theorem ofNat_mod_2_32 (d : BitVec 64) : BitVec.ofNat 64 (d.toNat % 2 ^ 32) = (d.setWidth 32).setWidth 64 := by
  apply BitVec.eq_of_toNat_eq; have := d.isLt; simp <;> omega
theorem ofNat_mod_2_64 (d : BitVec 64) : BitVec.ofNat 64 (d.toNat % 2 ^ 64) = d := by
  apply BitVec.eq_of_toNat_eq; have := d.isLt; simp <;> omega

end Rbpf
