/-
  Helper lemmas for C02 (memory confinement): which opcodes access memory and how `exec` runs them,
  `checkMem` against the specification `OwnMemory`, and the read/write behaviour of `Memory`.
-/
import RbpfModel.Model.Access
namespace Rbpf
open Interp

/-! ### access opcodes and the shape of `exec` on them -/

def accessOpcs : List Nat := [0x20,0x28,0x30,0x38,0x40,0x48,0x50,0x58,0x61,0x69,0x71,0x79,0x62,0x6a,0x72,0x7a,0x63,0x6b,0x73,0x7b,0xc3,0xdb]

def isAccessOpc (opc : BitVec 8) : Bool :=
  let n := opc.toNat
  (n % 8 = 0 ∧ n / 32 = 1) || (n % 8 = 0 ∧ n / 32 = 2) || (n % 8 = 1 ∧ n / 32 = 3) ||
  ((n % 8 = 2 ∨ n % 8 = 3) ∧ n / 32 = 3) || (opc = 0xc3 ∨ opc = 0xdb)

theorem isAccessOpc_table : ∀ n : Fin 256, isAccessOpc (BitVec.ofFin n) = true → n.val ∈ accessOpcs := by
  decide +kernel

theorem access_some_opc (s : State) (i : Insn) (r) (h : access? s i = some r) : i.opc.toNat ∈ accessOpcs := by
  have := isAccessOpc_table i.opc.toFin
  apply this
  simp only [access?] at h
  simp only [isAccessOpc, BitVec.ofFin_toFin]
  split at h
  · simp_all
  split at h
  · simp_all
  split at h
  · simp_all
  split at h
  · simp_all
  split at h
  · simp_all
  · simp at h

/-- how `exec` runs an access instruction: exactly one `load`/`store`/`xadd` at the address and width
    `access?` names (or, for `stx`/`xadd` only, a panic on a source register field ≥ 11) -/
def ExecAs (env : Env) (s : State) (insn : Insn) (k : AccessKind) (a : BitVec 64) (w : Nat) : Prop :=
  match k with
  | .load => ∃ dst, (dst = 0 ∨ dst = insn.dst.toNat) ∧ exec env s insn = load env s a w dst
  | .store => (∃ v, exec env s insn = store env s a w v) ∨ (exec env s insn = .panic ∧ 11 ≤ insn.src.toNat)
  | .atomic => (∃ v, exec env s insn = xadd env s a w v) ∨ (exec env s insn = .panic ∧ 11 ≤ insn.src.toNat)

theorem reg_none {s : State} {i : Nat} (h : s.reg[i]? = none) : 11 ≤ i := by simpa using h


theorem exec_of_access (env : Env) (s : State) (insn : Insn) (k : AccessKind) (a : BitVec 64) (w : Nat)
    (hacc : access? s insn = some (k, a, w)) (hpkt : s.mem.mem.base + 2^32 < 2^64) :
    (w = 1 ∨ w = 2 ∨ w = 4 ∨ w = 8) ∧ w = accessWidth insn.opc ∧ ExecAs env s insn k a w := by
  have hopc := access_some_opc s insn _ hacc
  obtain ⟨opc, dst, src, off, imm⟩ := insn
  have himm : s.mem.mem.base + imm.toNat < 2^64 := by have := imm.isLt; omega
  simp only [accessOpcs, List.mem_cons, List.not_mem_nil, or_false] at hopc
  have key : ∀ n : Nat, n < 256 → opc.toNat = n → opc = BitVec.ofNat 8 n := by
    intro n hn h; apply BitVec.eq_of_toNat_eq; simp [h]; omega
  rcases hopc with h|h|h|h|h|h|h|h|h|h|h|h|h|h|h|h|h|h|h|h|h|h
  -- ldabs
  iterate 4
    · have := key _ (by decide) h; subst this
      simp [access?, accessWidth] at hacc
      obtain ⟨rfl, rfl, rfl⟩ := hacc
      refine ⟨by decide, by simp [accessWidth], 0, Or.inl rfl, ?_⟩
      have hn : ¬ 18446744073709551616 ≤ s.mem.mem.base + imm.toNat := by omega
      simp [exec, pktAbs, BitVec.ofNat_add, hn]
  -- ldind
  iterate 4
    · have := key _ (by decide) h; subst this
      simp [access?, accessWidth] at hacc
      obtain ⟨x, hx, rfl, rfl, rfl⟩ := hacc
      refine ⟨by decide, by simp [accessWidth], 0, Or.inl rfl, ?_⟩
      simp [exec, rd, hx, zx32]
  -- ldx
  iterate 4
    · have := key _ (by decide) h; subst this
      simp [access?, accessWidth] at hacc
      obtain ⟨x, hx, rfl, rfl, rfl⟩ := hacc
      refine ⟨by decide, by simp [accessWidth], dst.toNat, Or.inr rfl, ?_⟩
      simp [exec, rd, hx]
  -- st
  iterate 4
    · have := key _ (by decide) h; subst this
      simp [access?, accessWidth] at hacc
      obtain ⟨x, hx, rfl, rfl, rfl⟩ := hacc
      refine ⟨by decide, by simp [accessWidth], Or.inl ⟨sx32 imm, ?_⟩⟩
      simp [exec, rd, hx, sx32]
  -- stx
  iterate 4
    · have := key _ (by decide) h; subst this
      simp [access?, accessWidth] at hacc
      obtain ⟨x, hx, rfl, rfl, rfl⟩ := hacc
      refine ⟨by decide, by simp [accessWidth], ?_⟩
      cases hs : s.reg[src.toNat]? with
      | none => exact Or.inr ⟨by simp [exec, rd, hx, hs], reg_none hs⟩
      | some v => exact Or.inl ⟨v, by simp [exec, rd, hx, hs]⟩
  -- xadd
  · have := key _ (by decide) h; subst this
    simp [access?, accessWidth] at hacc
    obtain ⟨x, hx, rfl, rfl, rfl⟩ := hacc
    refine ⟨by decide, by simp [accessWidth], ?_⟩
    cases hs : s.reg[src.toNat]? with
    | none => exact Or.inr ⟨by simp [exec, rd, hx, hs], reg_none hs⟩
    | some v => exact Or.inl ⟨zx32 (lo32 v), by simp [exec, rd, hx, hs]⟩
  · have := key _ (by decide) h; subst this
    simp [access?, accessWidth] at hacc
    obtain ⟨x, hx, rfl, rfl, rfl⟩ := hacc
    refine ⟨by decide, by simp [accessWidth], ?_⟩
    cases hs : s.reg[src.toNat]? with
    | none => exact Or.inr ⟨by simp [exec, rd, hx, hs], reg_none hs⟩
    | some v => exact Or.inl ⟨v, by simp [exec, rd, hx, hs]⟩

/-! ### `checkMem` against `OwnMemory` -/

theorem contains_iff (r : Region) (a w : Nat) : r.contains a w = true ↔ Contained a w r := by
  simp [Region.contains, Contained]

theorem checkMem_iff (m : Memory) (allowed : List (Nat × Nat)) (addr : BitVec 64) (w : Nat)
    (h1 : m.mbuff.base + m.mbuff.bytes.size < 2^64) (h2 : m.mem.base + m.mem.bytes.size < 2^64)
    (h3 : m.stack.base + m.stack.bytes.size < 2^64) (h4 : ∀ r ∈ allowed, r.2 < 2^64) :
    checkMem m allowed addr w = true ↔ OwnMemory m allowed addr.toNat w := by
  unfold checkMem OwnMemory
  simp only []
  split
  · rename_i hge
    simp only [Bool.false_eq_true, false_iff, not_or, not_exists, not_and]
    refine ⟨?_, ?_, ?_, ?_⟩
    · intro hc; unfold Contained at hc; omega
    · intro hc; unfold Contained at hc; omega
    · intro hc; unfold Contained at hc; omega
    · intro r hr hc; have := h4 r hr; unfold InRange at hc; omega
  · simp only [Bool.or_eq_true, contains_iff, List.any_eq_true, Bool.and_eq_true, decide_eq_true_eq, InRange]
    constructor
    · rintro (((h|h)|h)|h)
      · exact Or.inl h
      · exact Or.inr (Or.inl h)
      · exact Or.inr (Or.inr (Or.inl h))
      · exact Or.inr (Or.inr (Or.inr h))
    · rintro (h|h|h|h)
      · exact Or.inl (Or.inl (Or.inl h))
      · exact Or.inl (Or.inl (Or.inr h))
      · exact Or.inl (Or.inr h)
      · exact Or.inr h

/-! ### bytes -/

theorem leBytes_length (v w : Nat) : (leBytes v w).length = w := by
  induction w generalizing v with
  | zero => rfl
  | succ n ih => simp [leBytes, ih]

/-! ### reads -/

theorem readBytes?_isSome_of_contains (m : Memory) (a w : Nat) (r : Region) (hr : r ∈ m.regions)
    (hc : r.contains a w = true) : ∃ bs, m.readBytes? a w = some bs := by
  unfold Memory.readBytes?
  cases hf : m.regions.find? (fun r => r.contains a w) with
  | some r' => exact ⟨_, rfl⟩
  | none =>
    rw [List.find?_eq_none] at hf
    exact absurd hc (hf r hr)

theorem readBytes?_isSome (m : Memory) (a w : Nat)
    (hin : Contained a w m.mbuff ∨ Contained a w m.mem ∨ Contained a w m.stack) :
    ∃ bs, m.readBytes? a w = some bs := by
  rcases hin with h|h|h
  · exact readBytes?_isSome_of_contains m a w m.mbuff (by simp [Memory.regions]) ((contains_iff _ _ _).2 h)
  · exact readBytes?_isSome_of_contains m a w m.mem (by simp [Memory.regions]) ((contains_iff _ _ _).2 h)
  · exact readBytes?_isSome_of_contains m a w m.stack (by simp [Memory.regions]) ((contains_iff _ _ _).2 h)

/-! ### writes -/

theorem writeBytes?_isSome (m : Memory) (a : Nat) (bs : List (BitVec 8))
    (hin : Contained a bs.length m.mbuff ∨ Contained a bs.length m.mem ∨ Contained a bs.length m.stack) :
    ∃ m', m.writeBytes? a bs = some m' := by
  simp only [← contains_iff] at hin
  unfold Memory.writeBytes?
  split
  · exact ⟨_, rfl⟩
  split
  · exact ⟨_, rfl⟩
  split
  · exact ⟨_, rfl⟩
  · simp_all

theorem foldl_set_size (f : Nat → BitVec 8) (o n : Nat) (arr : Array (BitVec 8)) :
    ((List.range n).foldl (fun acc k => acc.setIfInBounds (o + k) (f k)) arr).size = arr.size := by
  induction n with
  | zero => rfl
  | succ n ih => simp [List.range_succ, List.foldl_append, ih]

theorem foldl_set_getD_out (f : Nat → BitVec 8) (o n : Nat) (arr : Array (BitVec 8)) (j : Nat)
    (hj : j < o ∨ o + n ≤ j) :
    ((List.range n).foldl (fun acc k => acc.setIfInBounds (o + k) (f k)) arr).getD j 0 = arr.getD j 0 := by
  induction n with
  | zero => rfl
  | succ n ih =>
    have ih := ih (by omega)
    simp only [Array.getD_eq_getD_getElem?] at ih ⊢
    simp only [List.range_succ, List.foldl_append, List.foldl_cons, List.foldl_nil]
    rw [Array.getElem?_setIfInBounds, if_neg (by omega), ih]

/-- what a write may change in one region: nothing about its placement, and no byte outside `[a, a+n)` -/
def FrameRel (a n : Nat) (r r' : Region) : Prop :=
  r'.base = r.base ∧ r'.bytes.size = r.bytes.size ∧
  ∀ j, (r.base + j < a ∨ a + n ≤ r.base + j) → r'.bytes.getD j 0 = r.bytes.getD j 0

theorem FrameRel.refl (a n : Nat) (r : Region) : FrameRel a n r r := ⟨rfl, rfl, fun _ _ => rfl⟩

theorem writeRegion_frame (r : Region) (a : Nat) (bs : List (BitVec 8)) (hc : r.contains a bs.length = true) :
    FrameRel a bs.length r (Memory.writeRegion r a bs) := by
  have hc := (contains_iff _ _ _).1 hc
  unfold Contained at hc
  refine ⟨rfl, ?_, ?_⟩
  · exact foldl_set_size (fun k => bs.getD k 0) (a - r.base) bs.length r.bytes
  · intro j hj
    exact foldl_set_getD_out (fun k => bs.getD k 0) (a - r.base) bs.length r.bytes j (by omega)

/-- pointwise relation between two region lists of the same length -/
inductive RegsRel (R : Region → Region → Prop) : List Region → List Region → Prop
  | nil : RegsRel R [] []
  | cons {r r' rs rs'} : R r r' → RegsRel R rs rs' → RegsRel R (r :: rs) (r' :: rs')

theorem RegsRel.refl {R : Region → Region → Prop} (hR : ∀ r, R r r) : ∀ rs, RegsRel R rs rs
  | [] => .nil
  | r :: rs => .cons (hR r) (RegsRel.refl hR rs)

theorem writeExtra_frame (rs rs' : List Region) (a : Nat) (bs : List (BitVec 8))
    (h : Memory.writeExtra rs a bs = some rs') : RegsRel (FrameRel a bs.length) rs rs' := by
  induction rs generalizing rs' with
  | nil => simp [Memory.writeExtra] at h
  | cons r rest ih =>
    unfold Memory.writeExtra at h
    split at h
    · rename_i hc
      cases h
      exact .cons (writeRegion_frame r a bs hc) (RegsRel.refl (FrameRel.refl a _) rest)
    · cases hw : Memory.writeExtra rest a bs with
      | none => simp [hw] at h
      | some e =>
        simp [hw] at h
        subst h
        exact .cons (FrameRel.refl a _ r) (ih e hw)

theorem writeBytes?_frame (m m' : Memory) (a : Nat) (bs : List (BitVec 8))
    (h : m.writeBytes? a bs = some m') : RegsRel (FrameRel a bs.length) m.regions m'.regions := by
  have R := FrameRel.refl a bs.length
  unfold Memory.writeBytes? at h
  split at h
  · rename_i hc; cases h
    exact .cons (writeRegion_frame _ a bs hc) (RegsRel.refl R _)
  split at h
  · rename_i hc; cases h
    exact .cons (R _) (.cons (writeRegion_frame _ a bs hc) (RegsRel.refl R _))
  split at h
  · rename_i hc; cases h
    exact .cons (R _) (.cons (R _) (.cons (writeRegion_frame _ a bs hc) (RegsRel.refl R _)))
  · cases hw : Memory.writeExtra m.extra a bs with
    | none => simp [hw] at h
    | some e =>
      simp [hw] at h
      subst h
      exact .cons (R _) (.cons (R _) (.cons (R _) (writeExtra_frame _ _ a bs hw)))

/-- placement (base address, size) of every region -/
def Memory.shape (m : Memory) : List (Nat × Nat) := m.regions.map fun r => (r.base, r.bytes.size)

theorem shape_of_frame {a n : Nat} {rs rs' : List Region} (h : RegsRel (FrameRel a n) rs rs') :
    rs'.map (fun r => (r.base, r.bytes.size)) = rs.map (fun r => (r.base, r.bytes.size)) := by
  induction h with
  | nil => rfl
  | cons hr _ ih => simp [List.map_cons, ih, hr.1, hr.2.1]

theorem read_of_frame {a n : Nat} {rs rs' : List Region} (h : RegsRel (FrameRel a n) rs rs') (b : Nat)
    (hb : b < a ∨ a + n ≤ b) :
    (match rs'.find? (fun r => r.contains b 1) with
      | some r => some ((List.range 1).map (fun k => r.bytes.getD (b - r.base + k) 0))
      | none => none) =
    (match rs.find? (fun r => r.contains b 1) with
      | some r => some ((List.range 1).map (fun k => r.bytes.getD (b - r.base + k) 0))
      | none => none) := by
  induction h with
  | nil => rfl
  | @cons r r' rs rs' hr _ ih =>
    have hcont : r'.contains b 1 = r.contains b 1 := by simp [Region.contains, hr.1, hr.2.1]
    simp only [List.find?_cons, hcont]
    cases hc : r.contains b 1 with
    | false => simpa using ih
    | true =>
      have hc' := (contains_iff _ _ _).1 hc
      unfold Contained at hc'
      simp only [List.range_one, List.map_cons, List.map_nil, Nat.add_zero, hr.1]
      rw [hr.2.2 (b - r.base) (by omega)]

theorem writeBytes?_read_frame (m m' : Memory) (a : Nat) (bs : List (BitVec 8))
    (h : m.writeBytes? a bs = some m') (b : Nat) (hb : b < a ∨ a + bs.length ≤ b) :
    m'.readBytes? b 1 = m.readBytes? b 1 :=
  read_of_frame (writeBytes?_frame m m' a bs h) b hb

theorem writeBytes?_shape (m m' : Memory) (a : Nat) (bs : List (BitVec 8))
    (h : m.writeBytes? a bs = some m') : m'.shape = m.shape :=
  shape_of_frame (writeBytes?_frame m m' a bs h)

/-! ### the three access primitives, once the bounds test is decided -/

theorem load_refused (env : Env) (s : State) (a : BitVec 64) (w dst : Nat)
    (h : checkMem s.mem env.allowed a w = false) : load env s a w dst = .err .oob s := by
  simp [load, h]

theorem store_refused (env : Env) (s : State) (a : BitVec 64) (w : Nat) (v : BitVec 64)
    (h : checkMem s.mem env.allowed a w = false) : store env s a w v = .err .oob s := by
  simp [store, h]

theorem xadd_refused (env : Env) (s : State) (a : BitVec 64) (w : Nat) (v : BitVec 64)
    (h : checkMem s.mem env.allowed a w = false) : xadd env s a w v = .err .oob s := by
  simp [xadd, h]

theorem load_cases (env : Env) (s : State) (a : BitVec 64) (w dst : Nat)
    (h : checkMem s.mem env.allowed a w = true) (hd : dst < 11) :
    (s.mem.readBytes? a.toNat w = none ∧ load env s a w dst = .fault) ∨
    ∃ bs, s.mem.readBytes? a.toNat w = some bs ∧
      load env s a w dst = .next { s with reg := s.reg.setIfInBounds dst (BitVec.ofNat 64 (leValue bs)) } := by
  unfold load
  cases hr : s.mem.readBytes? a.toNat w with
  | none => left; simp [h]
  | some bs => right; exact ⟨bs, rfl, by simp [h, wr, hd]⟩

theorem store_cases (env : Env) (s : State) (a : BitVec 64) (w : Nat) (v : BitVec 64)
    (h : checkMem s.mem env.allowed a w = true) :
    (s.mem.writeBytes? a.toNat (leBytes v.toNat w) = none ∧ store env s a w v = .fault) ∨
    ∃ m, s.mem.writeBytes? a.toNat (leBytes v.toNat w) = some m ∧ store env s a w v = .next { s with mem := m } := by
  unfold store
  cases hr : s.mem.writeBytes? a.toNat (leBytes v.toNat w) with
  | none => left; simp [h]
  | some m => right; exact ⟨m, rfl, by simp [h]⟩

theorem xadd_cases (env : Env) (s : State) (a : BitVec 64) (w : Nat) (v : BitVec 64)
    (h : checkMem s.mem env.allowed a w = true) :
    (a.toNat % w ≠ 0 ∧ xadd env s a w v = .err .unaligned s) ∨
    (a.toNat % w = 0 ∧
      ((s.mem.readBytes? a.toNat w = none ∧ xadd env s a w v = .fault) ∨
       ∃ bs, s.mem.readBytes? a.toNat w = some bs ∧
        ((s.mem.writeBytes? a.toNat (leBytes (leValue bs + v.toNat) w) = none ∧ xadd env s a w v = .fault) ∨
         ∃ m, s.mem.writeBytes? a.toNat (leBytes (leValue bs + v.toNat) w) = some m ∧
           xadd env s a w v = .next { s with mem := m }))) := by
  unfold xadd
  by_cases hal : a.toNat % w = 0
  · right; refine ⟨hal, ?_⟩
    cases hr : s.mem.readBytes? a.toNat w with
    | none => left; simp [h, hal]
    | some bs =>
      right; refine ⟨bs, rfl, ?_⟩
      cases hw : s.mem.writeBytes? a.toNat (leBytes (leValue bs + v.toNat) w) with
      | none => left; simp [h, hal, hw]
      | some m => right; exact ⟨m, rfl, by simp [h, hal, hw]⟩
  · left; exact ⟨hal, by simp [h, hal]⟩

/-! ### a concrete machine for the non-vacuity examples -/
namespace Ex

/-- empty metadata buffer, 8 packet bytes `01..08` at 0x2000, 512-byte stack at 0x3000 -/
def mem : Memory :=
  { mbuff := ⟨0x1000, #[]⟩, mem := ⟨0x2000, #[1, 2, 3, 4, 5, 6, 7, 8]⟩,
    stack := ⟨0x3000, Array.replicate 512 0⟩, extra := [] }
def env : Env := { prog := #[], helpers := fun _ => none, allowed := [], usage := fun _ => none }
/-- the initial state of `execute_program`: r1 = 0x2000, r10 = 0x3200 -/
def state : State := Interp.init mem

end Ex

end Rbpf

