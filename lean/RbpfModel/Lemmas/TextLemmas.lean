/-
  Helper lemmas for C14 (the assembler model never panics) and C15 (the disassembler model: domain,
  entries, names).
-/
import RbpfModel.Model.Asm
import RbpfModel.Model.Disasm
import RbpfModel.Model.RtSpec
import RbpfModel.Model.AsmSpec
import RbpfModel.Lemmas.VerifierLemmas
namespace Rbpf
open Asm

/-! ## C14: the parser -/

/-- the `i64` range -/
def I64 (v : Int) : Prop := -(2 ^ 63) ≤ v ∧ v < 2 ^ 63

theorem u64ToI64_range {n : Nat} (h : n < 2 ^ 64) : I64 (u64ToI64 n) := by
  unfold u64ToI64 I64
  split <;> omega

theorem wrapI64_range (v : Int) : I64 (wrapI64 v) := by
  unfold wrapI64
  apply u64ToI64_range
  have h1 : 0 ≤ v.emod (2 ^ 64) := Int.emod_nonneg _ (by decide)
  have h2 : v.emod (2 ^ 64) < 2 ^ 64 := Int.emod_lt_of_pos _ (by decide)
  omega

theorem applySign_range {neg : Bool} {m : Nat} {isHex : Bool} {v : Int}
    (h : applySign neg m isHex = some v) : I64 v := by
  unfold applySign at h
  split at h
  · cases h; exact wrapI64_range _
  · split at h
    · cases h; unfold I64; omega
    · split at h
      · cases h; unfold I64; omega
      · cases h

theorem unsignedNumber_ne_panic (s : List Char) : unsignedNumber s ≠ .panic := by
  unfold unsignedNumber
  dsimp only
  repeat' split
  all_goals simp

theorem integer_fin_aux (neg cs : Bool) (t : List Char) :
    (match unsignedNumber t with
      | .ok (m, isHex) rest =>
        match applySign neg m isHex with
        | some v => PR.ok v rest
        | none => .errCommit
      | .errEmpty => if cs then .errCommit else .errEmpty
      | .errCommit => .errCommit
      | .panic => .panic) ≠ PR.panic ∧
    ∀ v rest, (match unsignedNumber t with
      | .ok (m, isHex) rest =>
        match applySign neg m isHex with
        | some v => PR.ok v rest
        | none => .errCommit
      | .errEmpty => if cs then .errCommit else .errEmpty
      | .errCommit => .errCommit
      | .panic => .panic) = PR.ok v rest → I64 v := by
  have hp := unsignedNumber_ne_panic t
  cases hu : unsignedNumber t with
  | ok a rest =>
    obtain ⟨m, isHex⟩ := a
    cases ha : applySign neg m isHex with
    | none => simp [ha]
    | some v =>
      simp only [ha, ne_eq, reduceCtorEq, not_false_eq_true, PR.ok.injEq, true_and]
      rintro v' rest' ⟨rfl, -⟩
      exact applySign_range ha
  | errEmpty => cases cs <;> simp
  | errCommit => simp
  | panic => exact absurd hu hp

theorem integer_spec (s : List Char) :
    integer s ≠ .panic ∧ ∀ v rest, integer s = .ok v rest → I64 v := by
  unfold integer
  split
  · exact integer_fin_aux true true _
  · exact integer_fin_aux false true _
  · exact integer_fin_aux false false _

theorem integer_ne_panic (s : List Char) : integer s ≠ .panic := (integer_spec s).1
theorem integer_range {s : List Char} {v rest} (h : integer s = .ok v rest) : I64 v :=
  (integer_spec s).2 v rest h

theorem register_ne_panic (cc : CharClass) (s : List Char) : register cc s ≠ .panic := by
  unfold register
  repeat' split
  all_goals simp

/-- every integer literal inside the operand is an `i64` -/
def OperandOk : Operand → Prop
  | .integer v => I64 v
  | _ => True

def InstrOk (i : Instruction) : Prop := ∀ o ∈ i.operands, OperandOk o

theorem memory_ne_panic (cc : CharClass) (s : List Char) : memory cc s ≠ .panic := by
  unfold memory
  split
  · rename_i t
    have hr := register_ne_panic cc t
    split
    · rename_i r rest hreg
      have hi := integer_ne_panic rest
      split
      · simp
      · simp
      · split <;> simp
      · simp
      · exact absurd ‹_› hi
    · exact absurd ‹_› hr
    · simp
  · simp

theorem memory_ok {cc : CharClass} {s : List Char} {o rest} (h : memory cc s = .ok o rest) :
    OperandOk o := by
  unfold memory at h
  repeat' split at h
  all_goals first | cases h | skip
  all_goals trivial

theorem operand_spec (cc : CharClass) (s : List Char) :
    operand cc s ≠ .panic ∧ ∀ o rest, operand cc s = .ok o rest → OperandOk o := by
  unfold operand
  have hr := register_ne_panic cc s
  have hi := integer_spec s
  have hm := memory_ne_panic cc s
  cases hreg : register cc s with
  | ok r rest => simp [OperandOk]
  | errCommit => simp
  | panic => exact absurd hreg hr
  | errEmpty =>
    cases hint : integer s with
    | ok v rest =>
      simp only [ne_eq, reduceCtorEq, not_false_eq_true, PR.ok.injEq, true_and]
      rintro o rest' ⟨rfl, -⟩
      exact hi.2 v rest hint
    | errCommit => simp
    | panic => exact absurd hint hi.1
    | errEmpty =>
      simp only
      exact ⟨hm, fun o rest h => memory_ok h⟩

theorem operandsTail_spec (cc : CharClass) (fuel : Nat) (s : List Char) (acc : List Operand)
    (hacc : ∀ o ∈ acc, OperandOk o) :
    operandsTail cc fuel s acc ≠ .panic ∧
      ∀ ops rest, operandsTail cc fuel s acc = .ok ops rest → ∀ o ∈ ops, OperandOk o := by
  induction fuel generalizing s acc with
  | zero =>
    unfold operandsTail
    simp only [ne_eq, reduceCtorEq, not_false_eq_true, PR.ok.injEq, true_and]
    rintro ops rest ⟨rfl, -⟩ o ho
    exact hacc o (List.mem_reverse.1 ho)
  | succ fuel ih =>
    unfold operandsTail
    split
    · rename_i t
      have hop := operand_spec cc (skipSpaces cc t)
      cases ho : operand cc (skipSpaces cc t) with
      | ok o rest =>
        simp only
        apply ih
        intro o' ho'
        rcases List.mem_cons.1 ho' with rfl | ho'
        · exact hop.2 _ _ ho
        · exact hacc _ ho'
      | errEmpty => simp
      | errCommit => simp
      | panic => exact absurd ho hop.1
    · simp only [ne_eq, reduceCtorEq, not_false_eq_true, PR.ok.injEq, true_and]
      rintro ops rest ⟨rfl, -⟩ o ho
      exact hacc o (List.mem_reverse.1 ho)

theorem operands_spec (cc : CharClass) (s : List Char) :
    operands cc s ≠ .panic ∧ ∀ ops rest, operands cc s = .ok ops rest → ∀ o ∈ ops, OperandOk o := by
  unfold operands
  have hop := operand_spec cc s
  cases ho : operand cc s with
  | ok o rest =>
    simp only
    apply operandsTail_spec
    intro o' ho'
    simp only [List.mem_singleton] at ho'
    subst ho'
    exact hop.2 _ _ ho
  | errEmpty =>
    simp only [ne_eq, reduceCtorEq, not_false_eq_true, PR.ok.injEq, true_and]
    rintro ops rest ⟨rfl, -⟩ o ho
    simp at ho
  | errCommit => simp
  | panic => exact absurd ho hop.1

theorem instruction_spec (cc : CharClass) (s : List Char) :
    instruction cc s ≠ .panic ∧ ∀ i rest, instruction cc s = .ok i rest → InstrOk i := by
  unfold instruction
  cases hid : ident cc s with
  | ok name rest =>
    simp only
    have hops := operands_spec cc (skipSpaces cc rest)
    cases ho : operands cc (skipSpaces cc rest) with
    | ok ops rest' =>
      simp only [ne_eq, reduceCtorEq, not_false_eq_true, PR.ok.injEq, true_and]
      rintro i rest'' ⟨rfl, -⟩
      exact hops.2 _ _ ho
    | errEmpty => simp
    | errCommit => simp
    | panic => exact absurd ho hops.1
  | errEmpty => simp
  | errCommit => simp
  | panic =>
    unfold ident at hid
    split at hid <;> cases hid

theorem parseLoop_spec (cc : CharClass) (fuel : Nat) (s : List Char) (acc : List Instruction)
    (hacc : ∀ i ∈ acc, InstrOk i) :
    parseLoop cc fuel s acc ≠ .panic ∧
      ∀ is, parseLoop cc fuel s acc = .ok is → ∀ i ∈ is, InstrOk i := by
  induction fuel generalizing s acc with
  | zero => unfold parseLoop; simp
  | succ fuel ih =>
    unfold parseLoop
    have hin := instruction_spec cc s
    cases hi : instruction cc s with
    | ok i rest =>
      simp only
      apply ih
      intro i' hi'
      rcases List.mem_cons.1 hi' with rfl | hi'
      · exact hin.2 _ _ hi
      · exact hacc _ hi'
    | errEmpty =>
      simp only
      split
      · simp only [ne_eq, reduceCtorEq, not_false_eq_true, Outcome.ok.injEq, true_and]
        rintro is rfl i hi'
        exact hacc i (List.mem_reverse.1 hi')
      · simp
    | errCommit => simp
    | panic => exact absurd hi hin.1

theorem parse_spec (cc : CharClass) (s : List Char) :
    parse cc s ≠ .panic ∧ ∀ is, parse cc s = .ok is → ∀ i ∈ is, InstrOk i := by
  unfold parse
  exact parseLoop_spec cc _ _ [] (by simp)

/-! ## C14: the encoder -/

theorem high32s_range {imm : Int} (h : I64 imm) :
    -2147483648 ≤ high32s imm ∧ high32s imm < 2147483648 := by
  unfold high32s
  unfold I64 at h
  omega

theorem mkInsn_second_isSome {imm : Int} (h : I64 imm) :
    ∃ y, mkInsn 0 0 0 0 (high32s imm) = some y := by
  have := high32s_range h
  unfold mkInsn
  simp [this.1, this.2]

theorem assembleInternal_ne_panic (is : List Instruction) (h : ∀ i ∈ is, InstrOk i) :
    assembleInternal is ≠ .panic := by
  induction is with
  | nil => simp [assembleInternal]
  | cons i rest ih =>
    have ih' := ih (fun j hj => h j (List.mem_cons_of_mem _ hj))
    have hi : InstrOk i := h i List.mem_cons_self
    unfold assembleInternal
    split
    · simp
    · rename_i t opc hl
      split
      · simp
      · rename_i x hx
        simp only
        split
        · simp
        · rename_i hsec
          split at hsec
          · rename_i a imm hops
            have himm : I64 imm := hi (.integer imm) (by rw [hops]; simp)
            obtain ⟨y, hy⟩ := mkInsn_second_isSome himm
            rw [hy] at hsec
            cases hsec
          · cases hsec
        · exact absurd ‹_› ih'
        · simp

theorem assemble_ne_panic (cc : CharClass) (s : List Char) : assemble cc s ≠ .panic := by
  unfold assemble
  have hp := parse_spec cc s
  cases hps : parse cc s with
  | ok insts =>
    simp only
    have := assembleInternal_ne_panic insts (hp.2 insts hps)
    cases ha : assembleInternal insts with
    | ok xs => simp
    | err => simp
    | panic => exact absurd ha this
  | err => simp
  | panic => exact absurd hps hp.1

end Rbpf
