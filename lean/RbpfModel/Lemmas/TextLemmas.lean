/-
  Helper lemmas for C14 (the assembler model never panics) and C15 (the disassembler model: domain,
  entries, names).
-/
import RbpfModel.Model.Asm
import RbpfModel.Model.Disasm
import RbpfModel.Model.RtSpec
import RbpfModel.Model.AsmSpec
import RbpfModel.Lemmas.VerifierLemmas
namespace Rbpf.TextL
open Asm

/-! ## C14: the parser -/

/-- the `i64` range -/
def I64 (v : Int) : Prop := -(2 ^ 63) ≤ v ∧ v < 2 ^ 63

theorem u64ToI64_range {n : Nat} (h : n < 2 ^ 64) : I64 (u64ToI64 n) := by
  unfold u64ToI64 I64
  split <;> omega

theorem wrapI64_range (v : Int) : I64 (wrapI64 v) := by
  unfold wrapI64
  apply u64ToI64_range
  have h1 : 0 ≤ v.emod (2 ^ 64) := Int.emod_nonneg _ (by decide)
  have h2 : v.emod (2 ^ 64) < 2 ^ 64 := Int.emod_lt_of_pos _ (by decide)
  omega

theorem applySign_range {neg : Bool} {m : Nat} {isHex : Bool} {v : Int}
    (h : applySign neg m isHex = some v) : I64 v := by
  unfold applySign at h
  split at h
  · cases h; exact wrapI64_range _
  · split at h
    · cases h; unfold I64; omega
    · split at h
      · cases h; unfold I64; omega
      · cases h

theorem unsignedNumber_ne_panic (s : List Char) : unsignedNumber s ≠ .panic := by
  unfold unsignedNumber
  dsimp only
  repeat' split
  all_goals simp

theorem integer_fin_aux (neg cs : Bool) (t : List Char) :
    (match unsignedNumber t with
      | .ok (m, isHex) rest =>
        match applySign neg m isHex with
        | some v => PR.ok v rest
        | none => .errCommit
      | .errEmpty => if cs then .errCommit else .errEmpty
      | .errCommit => .errCommit
      | .panic => .panic) ≠ PR.panic ∧
    ∀ v rest, (match unsignedNumber t with
      | .ok (m, isHex) rest =>
        match applySign neg m isHex with
        | some v => PR.ok v rest
        | none => .errCommit
      | .errEmpty => if cs then .errCommit else .errEmpty
      | .errCommit => .errCommit
      | .panic => .panic) = PR.ok v rest → I64 v := by
  have hp := unsignedNumber_ne_panic t
  cases hu : unsignedNumber t with
  | ok a rest =>
    obtain ⟨m, isHex⟩ := a
    cases ha : applySign neg m isHex with
    | none => simp [ha]
    | some v =>
      simp only [ha, ne_eq, reduceCtorEq, not_false_eq_true, PR.ok.injEq, true_and]
      rintro v' rest' ⟨rfl, -⟩
      exact applySign_range ha
  | errEmpty => cases cs <;> simp
  | errCommit => simp
  | panic => exact absurd hu hp

theorem integer_spec (s : List Char) :
    integer s ≠ .panic ∧ ∀ v rest, integer s = .ok v rest → I64 v := by
  unfold integer
  split
  · exact integer_fin_aux true true _
  · exact integer_fin_aux false true _
  · exact integer_fin_aux false false _

theorem integer_ne_panic (s : List Char) : integer s ≠ .panic := (integer_spec s).1
theorem integer_range {s : List Char} {v rest} (h : integer s = .ok v rest) : I64 v :=
  (integer_spec s).2 v rest h

theorem register_ne_panic (cc : CharClass) (s : List Char) : register cc s ≠ .panic := by
  unfold register
  repeat' split
  all_goals simp

/-- every integer literal inside the operand is an `i64` -/
def OperandOk : Operand → Prop
  | .integer v => I64 v
  | _ => True

def InstrOk (i : Instruction) : Prop := ∀ o ∈ i.operands, OperandOk o

theorem memory_ne_panic (cc : CharClass) (s : List Char) : memory cc s ≠ .panic := by
  unfold memory
  split
  · rename_i t
    have hr := register_ne_panic cc t
    split
    · rename_i r rest hreg
      have hi := integer_ne_panic rest
      split
      · simp
      · simp
      · split <;> simp
      · simp
      · exact absurd ‹_› hi
    · exact absurd ‹_› hr
    · simp
  · simp

theorem memory_ok {cc : CharClass} {s : List Char} {o rest} (h : memory cc s = .ok o rest) :
    OperandOk o := by
  unfold memory at h
  repeat' split at h
  all_goals first | cases h | skip
  all_goals trivial

theorem operand_spec (cc : CharClass) (s : List Char) :
    operand cc s ≠ .panic ∧ ∀ o rest, operand cc s = .ok o rest → OperandOk o := by
  unfold operand
  have hr := register_ne_panic cc s
  have hi := integer_spec s
  have hm := memory_ne_panic cc s
  cases hreg : register cc s with
  | ok r rest => simp [OperandOk]
  | errCommit => simp
  | panic => exact absurd hreg hr
  | errEmpty =>
    cases hint : integer s with
    | ok v rest =>
      simp only [ne_eq, reduceCtorEq, not_false_eq_true, PR.ok.injEq, true_and]
      rintro o rest' ⟨rfl, -⟩
      exact hi.2 v rest hint
    | errCommit => simp
    | panic => exact absurd hint hi.1
    | errEmpty =>
      simp only
      exact ⟨hm, fun o rest h => memory_ok h⟩

theorem operandsTail_spec (cc : CharClass) (fuel : Nat) (s : List Char) (acc : List Operand)
    (hacc : ∀ o ∈ acc, OperandOk o) :
    operandsTail cc fuel s acc ≠ .panic ∧
      ∀ ops rest, operandsTail cc fuel s acc = .ok ops rest → ∀ o ∈ ops, OperandOk o := by
  induction fuel generalizing s acc with
  | zero =>
    unfold operandsTail
    simp only [ne_eq, reduceCtorEq, not_false_eq_true, PR.ok.injEq, true_and]
    rintro ops rest ⟨rfl, -⟩ o ho
    exact hacc o (List.mem_reverse.1 ho)
  | succ fuel ih =>
    unfold operandsTail
    split
    · rename_i t
      have hop := operand_spec cc (skipSpaces cc t)
      cases ho : operand cc (skipSpaces cc t) with
      | ok o rest =>
        simp only
        apply ih
        intro o' ho'
        rcases List.mem_cons.1 ho' with rfl | ho'
        · exact hop.2 _ _ ho
        · exact hacc _ ho'
      | errEmpty => simp
      | errCommit => simp
      | panic => exact absurd ho hop.1
    · simp only [ne_eq, reduceCtorEq, not_false_eq_true, PR.ok.injEq, true_and]
      rintro ops rest ⟨rfl, -⟩ o ho
      exact hacc o (List.mem_reverse.1 ho)

theorem operands_spec (cc : CharClass) (s : List Char) :
    operands cc s ≠ .panic ∧ ∀ ops rest, operands cc s = .ok ops rest → ∀ o ∈ ops, OperandOk o := by
  unfold operands
  have hop := operand_spec cc s
  cases ho : operand cc s with
  | ok o rest =>
    simp only
    apply operandsTail_spec
    intro o' ho'
    simp only [List.mem_singleton] at ho'
    subst ho'
    exact hop.2 _ _ ho
  | errEmpty =>
    simp only [ne_eq, reduceCtorEq, not_false_eq_true, PR.ok.injEq, true_and]
    rintro ops rest ⟨rfl, -⟩ o ho
    simp at ho
  | errCommit => simp
  | panic => exact absurd ho hop.1

theorem instruction_spec (cc : CharClass) (s : List Char) :
    instruction cc s ≠ .panic ∧ ∀ i rest, instruction cc s = .ok i rest → InstrOk i := by
  unfold instruction
  cases hid : ident cc s with
  | ok name rest =>
    simp only
    have hops := operands_spec cc (skipSpaces cc rest)
    cases ho : operands cc (skipSpaces cc rest) with
    | ok ops rest' =>
      simp only [ne_eq, reduceCtorEq, not_false_eq_true, PR.ok.injEq, true_and]
      rintro i rest'' ⟨rfl, -⟩
      exact hops.2 _ _ ho
    | errEmpty => simp
    | errCommit => simp
    | panic => exact absurd ho hops.1
  | errEmpty => simp
  | errCommit => simp
  | panic =>
    unfold ident at hid
    split at hid <;> cases hid

theorem parseLoop_spec (cc : CharClass) (fuel : Nat) (s : List Char) (acc : List Instruction)
    (hacc : ∀ i ∈ acc, InstrOk i) :
    parseLoop cc fuel s acc ≠ .panic ∧
      ∀ is, parseLoop cc fuel s acc = .ok is → ∀ i ∈ is, InstrOk i := by
  induction fuel generalizing s acc with
  | zero => unfold parseLoop; simp
  | succ fuel ih =>
    unfold parseLoop
    have hin := instruction_spec cc s
    cases hi : instruction cc s with
    | ok i rest =>
      simp only
      apply ih
      intro i' hi'
      rcases List.mem_cons.1 hi' with rfl | hi'
      · exact hin.2 _ _ hi
      · exact hacc _ hi'
    | errEmpty =>
      simp only
      split
      · simp only [ne_eq, reduceCtorEq, not_false_eq_true, Outcome.ok.injEq, true_and]
        rintro is rfl i hi'
        exact hacc i (List.mem_reverse.1 hi')
      · simp
    | errCommit => simp
    | panic => exact absurd hi hin.1

theorem parse_spec (cc : CharClass) (s : List Char) :
    parse cc s ≠ .panic ∧ ∀ is, parse cc s = .ok is → ∀ i ∈ is, InstrOk i := by
  unfold parse
  exact parseLoop_spec cc _ _ [] (by simp)

/-! ## C14: the encoder -/

theorem high32s_range {imm : Int} (h : I64 imm) :
    -2147483648 ≤ high32s imm ∧ high32s imm < 2147483648 := by
  unfold high32s
  unfold I64 at h
  omega

theorem mkInsn_second_isSome {imm : Int} (h : I64 imm) :
    ∃ y, mkInsn 0 0 0 0 (high32s imm) = some y := by
  have := high32s_range h
  unfold mkInsn
  simp [this.1, this.2]

theorem assembleInternal_ne_panic (is : List Instruction) (h : ∀ i ∈ is, InstrOk i) :
    assembleInternal is ≠ .panic := by
  induction is with
  | nil => simp [assembleInternal]
  | cons i rest ih =>
    have ih' := ih (fun j hj => h j (List.mem_cons_of_mem _ hj))
    have hi : InstrOk i := h i List.mem_cons_self
    unfold assembleInternal
    split
    · simp
    · rename_i t opc hl
      split
      · simp
      · rename_i x hx
        simp only
        split
        · simp
        · rename_i hsec
          split at hsec
          · rename_i a imm hops
            have himm : I64 imm := hi (.integer imm) (by rw [hops]; simp)
            obtain ⟨y, hy⟩ := mkInsn_second_isSome himm
            rw [hy] at hsec
            cases hsec
          · cases hsec
        · exact absurd ‹_› ih'
        · simp

theorem assemble_ne_panic (cc : CharClass) (s : List Char) : assemble cc s ≠ .panic := by
  unfold assemble
  have hp := parse_spec cc s
  cases hps : parse cc s with
  | ok insts =>
    simp only
    have := assembleInternal_ne_panic insts (hp.2 insts hps)
    cases ha : assembleInternal insts with
    | ok xs => simp
    | err => simp
    | panic => exact absurd ha this
  | err => simp
  | panic => exact absurd hps hp.1

/-! ## C15: one iteration of the disassembler -/

open Disasm RtSpec in
/-- the per-instruction condition of `RtSpec.disasmOkFrom` -/
def slotOk (p : Bytes) (pc : Nat) : Bool :=
  match getInsn? p pc with
  | none => false
  | some i =>
    if i.opc = 0x18 then (getInsn? p (pc + 1)).isSome
    else if i.opc = 0x85 then (i.src = 0 || i.src = 1)
    else (WF.supported i.opc || i.opc == 0x8d)

/-- the `_ => panic!` arm is reached exactly outside the C06 opcode set plus tail call -/
theorem arm_isSome (o : BitVec 8) :
    (Disasm.arm o.toNat).isSome = ((WF.supported o || o == 0x8d) && o != 0x18 && o != 0x85) := by
  revert o; apply forall_bv8; decide +kernel

theorem entryAt_isSome (p : Bytes) (pc : Nat) : (Disasm.entryAt p pc).isSome = slotOk p pc := by
  unfold Disasm.entryAt slotOk
  cases hx : getInsn? p pc with
  | none => rfl
  | some x =>
    dsimp only
    by_cases h18 : x.opc = 0x18
    · rw [if_pos h18, if_pos h18]
      cases getInsn? p (pc + 1) <;> rfl
    · rw [if_neg h18, if_neg h18]
      by_cases h85 : x.opc = 0x85
      · rw [if_pos h85, if_pos h85]
        by_cases h0 : x.src = 0
        · rw [if_pos h0, decide_eq_true h0]; rfl
        · rw [if_neg h0]
          by_cases h1 : x.src = 1
          · rw [if_pos h1, decide_eq_true h1, Bool.or_true]; rfl
          · rw [if_neg h1, decide_eq_false h0, decide_eq_false h1]; rfl
      · rw [if_neg h85, if_neg h85]
        have ha := arm_isSome x.opc
        have e1 : (x.opc != 0x18) = true := by simpa using h18
        have e2 : (x.opc != 0x85) = true := by simpa using h85
        rw [e1, e2, Bool.and_true, Bool.and_true] at ha
        rw [← ha]
        cases Disasm.arm x.opc.toNat with
        | none => rfl
        | some a => rfl

/-- the wide-load merge of the model is the concatenation of the two immediates -/
theorem wide_imm_eq (x y : BitVec 32) :
    x.setWidth 64 + (y.signExtend 64 <<< (32 : Nat)) = (y ++ x : BitVec 64) := by
  apply BitVec.eq_of_toNat_eq
  rw [BitVec.toNat_append, BitVec.toNat_add, BitVec.toNat_shiftLeft, BitVec.toNat_signExtend,
    BitVec.toNat_setWidth, BitVec.toNat_setWidth]
  rw [← Nat.shiftLeft_add_eq_or_of_lt x.isLt]
  have hx := x.isLt
  have hy := y.isLt
  simp only [Nat.shiftLeft_eq]
  cases y.msb <;> simp <;> omega

/-- an entry's name is the documented mnemonic of its opcode -/
def NameOk (name : String) (o : Nat) : Prop :=
  (name = "stxxaddw" ∧ o = 0xc3) ∨ (name = "stxxadddw" ∧ o = 0xdb) ∨ (name = "tail_call" ∧ o = 0x8d) ∨
  (name = "le" ∧ o = 0xd4) ∨ (name = "be" ∧ o = 0xdc) ∨
  ∃ sh opc, (name, sh, opc) ∈ AsmSpec.table ∧ (o = opc ∨ (o = opc + 8 ∧ (sh = .aluBin ∨ sh = .jcc)))

def nameCheck (name : String) (o : Nat) : Bool :=
  (name == "stxxaddw" && o == 0xc3) || (name == "stxxadddw" && o == 0xdb) || (name == "tail_call" && o == 0x8d) ||
  (name == "le" && o == 0xd4) || (name == "be" && o == 0xdc) ||
  AsmSpec.table.any (fun r => r.1 == name && (o == r.2.2 || (o == r.2.2 + 8 && (r.2.1 == .aluBin || r.2.1 == .jcc))))

theorem nameCheck_sound {name : String} {o : Nat} (h : nameCheck name o = true) : NameOk name o := by
  unfold nameCheck at h
  unfold NameOk
  simp only [Bool.or_eq_true, Bool.and_eq_true, beq_iff_eq, List.any_eq_true] at h
  rcases h with ((((h | h) | h) | h) | h) | ⟨⟨n, sh, opc⟩, hm, hn, ho⟩
  · exact .inl h
  · exact .inr (.inl h)
  · exact .inr (.inr (.inl h))
  · exact .inr (.inr (.inr (.inl h)))
  · exact .inr (.inr (.inr (.inr (.inl h))))
  · simp only at hn ho
    subst hn
    exact .inr (.inr (.inr (.inr (.inr ⟨sh, opc, hm, ho⟩))))

theorem arm_names_table :
    ∀ n : Fin 256, ((Disasm.arm n.val).map (·.1)).all (fun name => nameCheck name n.val) = true := by
  decide +kernel

theorem arm_lt {o : Nat} {a} (h : Disasm.arm o = some a) : o < 256 := by
  unfold Disasm.arm at h
  split at h
  all_goals first | omega | cases h

theorem arm_nameOk {o : Nat} {name : String} {r} (h : Disasm.arm o = some (name, r)) : NameOk name o := by
  have hlt := arm_lt h
  have := arm_names_table ⟨o, hlt⟩
  simp only [h, Option.map_some, Option.all_some] at this
  exact nameCheck_sound this

/-- what one iteration reports -/
theorem entryAt_spec {p : Bytes} {pc : Nat} {e : Disasm.HLInsn} {n : Nat} (h : Disasm.entryAt p pc = some (e, n)) :
    ∃ x, getInsn? p pc = some x ∧ n = (if x.opc = 0x18 then 2 else 1) ∧
      e.opc = x.opc ∧ e.dst = x.dst ∧ e.src = x.src ∧ e.off = x.off ∧
      (x.opc ≠ 0x18 → e.imm = x.imm.signExtend 64) ∧
      (x.opc = 0x18 → ∃ y, getInsn? p (pc + 1) = some y ∧ e.imm = (y.imm ++ x.imm : BitVec 64)) ∧
      NameOk e.name x.opc.toNat := by
  unfold Disasm.entryAt at h
  cases hx : getInsn? p pc with
  | none => simp [hx] at h
  | some x =>
    rw [hx] at h
    dsimp only at h
    refine ⟨x, rfl, ?_⟩
    by_cases h18 : x.opc = 0x18
    · rw [if_pos h18] at h
      rw [if_pos h18]
      cases hy : getInsn? p (pc + 1) with
      | none => simp [hy] at h
      | some y =>
        rw [hy] at h
        dsimp only at h
        cases h
        refine ⟨rfl, rfl, rfl, rfl, rfl, fun h => absurd h18 h, fun _ => ⟨y, rfl, wide_imm_eq _ _⟩, ?_⟩
        rw [h18]
        exact (nameCheck_sound (by decide +kernel) : NameOk "lddw" (0x18 : BitVec 8).toNat)
    · rw [if_neg h18] at h
      rw [if_neg h18]
      by_cases h85 : x.opc = 0x85
      · rw [if_pos h85] at h
        have hname : ∀ nm : String, nm = "call" ∨ nm = "callx" → NameOk nm x.opc.toNat := by
          intro nm hnm
          rw [h85]
          rcases hnm with rfl | rfl <;> exact nameCheck_sound (by decide +kernel)
        by_cases h0 : x.src = 0
        · rw [if_pos h0] at h
          cases h
          exact ⟨rfl, rfl, rfl, rfl, rfl, fun _ => rfl, fun h => absurd h h18, hname _ (.inl rfl)⟩
        · rw [if_neg h0] at h
          by_cases h1 : x.src = 1
          · rw [if_pos h1] at h
            cases h
            exact ⟨rfl, rfl, rfl, rfl, rfl, fun _ => rfl, fun h => absurd h h18, hname _ (.inr rfl)⟩
          · rw [if_neg h1] at h; cases h
      · rw [if_neg h85] at h
        cases ha : Disasm.arm x.opc.toNat with
        | none => rw [ha] at h; cases h
        | some a =>
          obtain ⟨name, render⟩ := a
          rw [ha] at h
          dsimp only at h
          cases h
          exact ⟨rfl, rfl, rfl, rfl, rfl, fun _ => rfl, fun h => absurd h h18, arm_nameOk ha⟩

/-! ## C15: the loop against the sweep -/

/-- the entries of a list of instruction starts; `none` when some iteration panics -/
def entriesOf (p : Bytes) : List Nat → Option (List Disasm.HLInsn)
  | [] => some []
  | pc :: r =>
    match Disasm.entryAt p pc, entriesOf p r with
    | some (e, _), some es => some (e :: es)
    | _, _ => none

theorem entriesOf_isSome (p : Bytes) (l : List Nat) : (entriesOf p l).isSome = l.all (slotOk p) := by
  induction l with
  | nil => rfl
  | cons pc r ih =>
    rw [entriesOf, List.all_cons, ← ih, ← entryAt_isSome]
    cases Disasm.entryAt p pc with
    | none => rfl
    | some a => cases entriesOf p r <;> rfl

theorem entriesOf_spec {p : Bytes} {l : List Nat} {es : List Disasm.HLInsn} (h : entriesOf p l = some es) :
    es.length = l.length ∧
      ∀ k (hk : k < es.length) (hk' : k < l.length), ∃ n, Disasm.entryAt p l[k] = some (es[k], n) := by
  induction l generalizing es with
  | nil => simp only [entriesOf, Option.some.injEq] at h; subst h; simp
  | cons pc r ih =>
    rw [entriesOf] at h
    cases he : Disasm.entryAt p pc with
    | none => simp [he] at h
    | some a =>
      obtain ⟨e, n⟩ := a
      cases hr : entriesOf p r with
      | none => simp [he, hr] at h
      | some es' =>
        simp only [he, hr, Option.some.injEq] at h
        subst h
        obtain ⟨hl, hk⟩ := ih hr
        refine ⟨by simp [hl], ?_⟩
        intro k hk1 hk2
        cases k with
        | zero => exact ⟨n, he⟩
        | succ k => simpa using hk k (by simpa using hk1) (by simpa using hk2)

theorem loop_eq_entriesOf {p : Bytes} (h8 : p.size % 8 = 0) (fuel pc : Nat) (acc : List Disasm.HLInsn)
    (hpc : pc * 8 ≤ p.size) (hf : p.size + 8 ≤ (pc + fuel) * 8) :
    Disasm.loop p fuel pc acc = (entriesOf p (sweepFrom p pc)).map (acc.reverse ++ ·) := by
  induction fuel generalizing pc acc with
  | zero => omega
  | succ fuel ih =>
    rw [Disasm.loop, sweepFrom]
    by_cases hlt : pc * 8 < p.size
    · simp only [hlt, if_true]
      obtain ⟨x, hx⟩ := getInsn?_isSome_iff.2 (show (pc + 1) * 8 ≤ p.size by omega)
      simp only [hx]
      rw [entriesOf]
      cases he : Disasm.entryAt p pc with
      | none => simp
      | some a =>
        obtain ⟨e, n⟩ := a
        obtain ⟨x', hx', hn, -⟩ := entryAt_spec he
        rw [hx] at hx'; cases hx'
        have hsz : (pc + n) * 8 ≤ p.size := by
          by_cases h18 : x.opc = 0x18
          · have hs : slotOk p pc = true := by rw [← entryAt_isSome, he]; rfl
            unfold slotOk at hs
            simp only [hx, h18, if_true] at hs
            cases hy : getInsn? p (pc + 1) with
            | none => simp [hy] at hs
            | some y =>
              have := getInsn?_some_le hy
              simp only [h18, if_true] at hn
              omega
          · simp only [h18, if_false] at hn
            omega
        have hn1 : 1 ≤ n := by rw [hn]; split <;> omega
        simp only
        rw [ih (pc + n) (e :: acc) hsz (by omega), ← hn]
        cases entriesOf p (sweepFrom p (pc + n)) with
        | none => rfl
        | some es => simp
    · simp [hlt, entriesOf]

theorem disasmOkFrom_eq_all {p : Bytes} (h8 : p.size % 8 = 0) (fuel pc : Nat)
    (hpc : pc * 8 ≤ p.size) (hf : p.size + 8 ≤ (pc + fuel) * 8) :
    RtSpec.disasmOkFrom p fuel pc = (sweepFrom p pc).all (slotOk p) := by
  induction fuel generalizing pc with
  | zero => omega
  | succ fuel ih =>
    rw [RtSpec.disasmOkFrom, sweepFrom]
    by_cases hlt : pc * 8 < p.size
    · simp only [hlt, if_true]
      obtain ⟨x, hx⟩ := getInsn?_isSome_iff.2 (show (pc + 1) * 8 ≤ p.size by omega)
      simp only [hx, List.all_cons]
      have hs : slotOk p pc = (if x.opc = 0x18 then (getInsn? p (pc + 1)).isSome
          else if x.opc = 0x85 then (x.src = 0 || x.src = 1) else (WF.supported x.opc || x.opc == 0x8d)) := by
        unfold slotOk; simp only [hx]
      rw [hs]
      by_cases h18 : x.opc = 0x18
      · simp only [h18, if_true]
        cases hy : getInsn? p (pc + 1) with
        | none => simp
        | some y =>
          have := getInsn?_some_le hy
          rw [ih (pc + 2) (by omega) (by omega)]
      · simp only [h18, if_false]
        rw [ih (pc + 1) (by omega) (by omega)]
        by_cases h85 : x.opc = 0x85 <;> simp only [h85, if_true, if_false]
    · simp [hlt]

theorem toInsnVec_eq {p : Bytes} (h8 : p.size % 8 = 0) : Disasm.toInsnVec p = entriesOf p (starts p) := by
  unfold Disasm.toInsnVec starts
  simp only [h8, ne_eq, not_true_eq_false, if_false]
  by_cases h0 : p.size = 0
  · rw [sweepFrom]; simp [h0, entriesOf]
  · simp only [h0, if_false]
    rw [loop_eq_entriesOf h8 _ 0 [] (by omega) (by omega)]
    cases entriesOf p (sweepFrom p 0) <;> simp

theorem disasmOk_iff {p : Bytes} : RtSpec.DisasmOk p ↔ p.size % 8 = 0 ∧ (starts p).all (slotOk p) = true := by
  unfold RtSpec.DisasmOk
  constructor
  · rintro ⟨h8, h⟩
    rw [disasmOkFrom_eq_all h8 _ 0 (by omega) (by omega)] at h
    exact ⟨h8, h⟩
  · rintro ⟨h8, h⟩
    rw [disasmOkFrom_eq_all h8 _ 0 (by omega) (by omega)]
    exact ⟨h8, h⟩

theorem toInsnVec_isSome_iff (p : Bytes) : (∃ es, Disasm.toInsnVec p = some es) ↔ RtSpec.DisasmOk p := by
  rw [disasmOk_iff]
  by_cases h8 : p.size % 8 = 0
  · rw [toInsnVec_eq h8, ← entriesOf_isSome, Option.isSome_iff_exists]
    simp [h8]
  · simp [Disasm.toInsnVec, h8]

theorem toInsnVec_size {p : Bytes} {es : List Disasm.HLInsn} (h : Disasm.toInsnVec p = some es) :
    p.size % 8 = 0 := by
  by_cases h8 : p.size % 8 = 0
  · exact h8
  · simp [Disasm.toInsnVec, h8] at h

/-- every entry of a successful disassembly, against the instruction at the corresponding start -/
theorem toInsnVec_entries {p : Bytes} {es : List Disasm.HLInsn} (h : Disasm.toInsnVec p = some es) :
    es.length = (starts p).length ∧
    ∀ k (hk : k < es.length) (hk' : k < (starts p).length),
      ∃ x, getInsn? p ((starts p)[k]) = some x ∧
        es[k].opc = x.opc ∧ es[k].dst = x.dst ∧ es[k].src = x.src ∧ es[k].off = x.off ∧
        (x.opc ≠ 0x18 → es[k].imm = x.imm.signExtend 64) ∧
        (x.opc = 0x18 → ∃ y, getInsn? p ((starts p)[k] + 1) = some y ∧ es[k].imm = (y.imm ++ x.imm : BitVec 64)) ∧
        NameOk es[k].name x.opc.toNat := by
  rw [toInsnVec_eq (toInsnVec_size h)] at h
  obtain ⟨hl, hk⟩ := entriesOf_spec h
  refine ⟨hl, ?_⟩
  intro k hk1 hk2
  obtain ⟨n, hn⟩ := hk k hk1 hk2
  obtain ⟨x, hx, -, h1, h2, h3, h4, h5, h6, h7⟩ := entryAt_spec hn
  exact ⟨x, hx, h1, h2, h3, h4, h5, h6, h7⟩

end Rbpf.TextL
