/-
  Lemmas for `InterpCtlAux.lean`, part 2: running the monad `Src.M` (one lemma per primitive of `Model/InterpSrc.lean`), the loop test,
  the header of an iteration (`hdr`) and its image under `abs`, `do_jump`, the initial state, then the translated arms against the
  model's (`lddw_rel`, `call_rel`, `tail_rel`, `exit_rel`, `other_rel`, `default_rel`) and their assembly `stepSrc_rel'`.

  Proof style: the do-blocks are evaluated with `rw` chains over `*_bind` lemmas stated with `if` (not with `simp` over `bind_run`)
  wherever `2 ^ 64` arithmetic on symbolic operands is in sight — see the note before `getPtr_bind`.
-/
import RbpfModel.Lemmas.InterpCtlAux1
namespace Rbpf.Src
open Rbpf.Generated Rbpf.Generated.Ctl

/-! ## running the monad -/

theorem bind_run (m : M α) (f : α → M β) (σ : St) :
    (m >>= f) σ = match m σ with
      | .ok a σ' => f a σ' | .done r σ' => .done r σ' | .err e σ' => .err e σ' | .panic => .panic | .fault => .fault := rfl
theorem pure_run (a : α) (σ : St) : (pure a : M α) σ = .ok a σ := rfl

theorem getReg_run (i : Nat) (σ : St) (h : i < 11) : getReg i σ = .ok σ.reg[i] σ := by
  simp only [getReg, Vector.getElem?_eq_getElem h]
theorem setReg_run (i : Nat) (v : BitVec 64) (σ : St) (h : i < 11) :
    setReg i v σ = .ok () { σ with reg := σ.reg.setIfInBounds i v } := by
  simp only [setReg, h, if_true]
theorem getFrame_run (k : Nat) (σ : St) (h : k < 8) : getFrame k σ = .ok σ.stacks[k] σ := by
  simp only [getFrame, Vector.getElem?_eq_getElem h]
theorem modFrame_run (k : Nat) (f : SFrame → SFrame) (σ : St) (h : k < 8) :
    modFrame k f σ = .ok () { σ with stacks := σ.stacks.setIfInBounds k (f σ.stacks[k]) } := by
  simp only [modFrame, Vector.getElem?_eq_getElem h]

theorem addU_run (w a b : Nat) (σ : St) : addU w a b σ = if a + b < 2 ^ w then .ok (a + b) σ else .panic := by
  unfold addU; split <;> rfl
theorem subU_run (a b : Nat) (σ : St) : subU a b σ = if b ≤ a then .ok (a - b) σ else .panic := by
  unfold subU; split <;> rfl
theorem mulU_run (w a b : Nat) (σ : St) : mulU w a b σ = if a * b < 2 ^ w then .ok (a * b) σ else .panic := by
  unfold mulU; split <;> rfl
theorem addS_run (w : Nat) (a b : Int) (σ : St) :
    addS w a b σ = if -(2 ^ (w - 1) : Int) ≤ a + b ∧ a + b < 2 ^ (w - 1) then .ok (a + b) σ else .panic := by
  unfold addS; split <;> rfl
theorem getInsn_run (p : Bytes) (i : Nat) (σ : St) :
    getInsn p i σ = match getInsn? p i with | some x => .ok x σ | none => .panic := by
  unfold getInsn; cases getInsn? p i <;> rfl

/-! The same in front of a continuation.  These are stated with `if`, not through `bind_run`: the kernel compares two different
    applications of a matcher by evaluating the discriminant, and `addU 64 a b σ` with a symbolic `a` and the literal `2 ^ 64` sends it
    into unary arithmetic. -/
theorem getPtr_bind (f : Nat → M β) (σ : St) : (getPtr >>= f) σ = f σ.insnPtr σ := rfl
theorem setPtr_bind (v : Nat) (f : Unit → M β) (σ : St) : (setPtr v >>= f) σ = f () { σ with insnPtr := v } := rfl
theorem getIdx_bind (f : Nat → M β) (σ : St) : (getIdx >>= f) σ = f σ.idx σ := rfl
theorem setIdx_bind (v : Nat) (f : Unit → M β) (σ : St) : (setIdx v >>= f) σ = f () { σ with idx := v } := rfl
theorem pure_bind_run (a : α) (f : α → M β) (σ : St) : (pure a >>= f) σ = f a σ := rfl
theorem raise_bind (e : ErrKind) (f : α → M β) (σ : St) : (raise e >>= f) σ = .err e σ := rfl
theorem addU_bind (w a b : Nat) (f : Nat → M β) (σ : St) :
    (addU w a b >>= f) σ = if a + b < 2 ^ w then f (a + b) σ else .panic := by
  unfold addU; split <;> rfl
theorem subU_bind (a b : Nat) (f : Nat → M β) (σ : St) : (subU a b >>= f) σ = if b ≤ a then f (a - b) σ else .panic := by
  unfold subU; split <;> rfl
theorem addS_bind (w : Nat) (a b : Int) (f : Int → M β) (σ : St) :
    (addS w a b >>= f) σ = if -(2 ^ (w - 1) : Int) ≤ a + b ∧ a + b < 2 ^ (w - 1) then f (a + b) σ else .panic := by
  unfold addS; split <;> rfl
theorem getInsn_bind_some (p : Bytes) (i : Nat) (x : Insn) (f : Insn → M β) (σ : St) (h : getInsn? p i = some x) :
    (getInsn p i >>= f) σ = f x σ := by
  unfold getInsn; rw [h]; rfl
theorem getInsn_bind_none (p : Bytes) (i : Nat) (f : Insn → M β) (σ : St) (h : getInsn? p i = none) :
    (getInsn p i >>= f) σ = .panic := by
  unfold getInsn; rw [h]; rfl
theorem getReg_bind (i : Nat) (f : BitVec 64 → M β) (σ : St) (h : i < 11) : (getReg i >>= f) σ = f σ.reg[i] σ := by
  rw [bind_run, getReg_run _ _ h]
theorem setReg_bind (i : Nat) (v : BitVec 64) (f : Unit → M β) (σ : St) (h : i < 11) :
    (setReg i v >>= f) σ = f () { σ with reg := σ.reg.setIfInBounds i v } := by
  rw [bind_run, setReg_run _ _ _ h]
theorem getFrame_bind (k : Nat) (f : SFrame → M β) (σ : St) (h : k < 8) : (getFrame k >>= f) σ = f σ.stacks[k] σ := by
  rw [bind_run, getFrame_run _ _ h]
theorem modFrame_bind (k : Nat) (g : SFrame → SFrame) (f : Unit → M β) (σ : St) (h : k < 8) :
    (modFrame k g >>= f) σ = f () { σ with stacks := σ.stacks.setIfInBounds k (g σ.stacks[k]) } := by
  rw [bind_run, modFrame_run _ _ _ h]
theorem bind_assoc_run (m : M α) (f : α → M β) (g : β → M γ) (σ : St) :
    ((m >>= f) >>= g) σ = (m >>= fun a => f a >>= g) σ := by
  simp only [bind_run]; cases m σ <;> rfl

theorem loopCond_run (env : Env) (σ : St) :
    loopCondSrc env σ = if σ.insnPtr * 8 < 2 ^ 64 then .ok (decide (σ.insnPtr * 8 < env.prog.size)) σ else .panic := by
  by_cases h : σ.insnPtr * 8 < 2 ^ 64 <;> simp only [loopCondSrc, bind_run, getPtr, mulU_run, h, if_true, if_false, pure_run]

theorem stepSrc_wrapped' (env : Env) (σ : St) (h : 2 ^ 63 ≤ σ.insnPtr) : stepSrc env σ = .panic := by
  have : ¬ σ.insnPtr * 8 < 2 ^ 64 := by omega
  simp only [stepSrc, bind_run, loopCond_run, this, if_false]

theorem initSrc_abs' (m : Memory) : abs (initSrc m) = Interp.init m ∧ Inv (initSrc m) := by
  refine ⟨?_, by simp [Inv, initSrc]⟩
  simp [abs, initSrc, Interp.init]

theorem asS_small (n : Nat) (h : n < 2 ^ 63) : asS 64 (n : Int) = n := by
  unfold asS
  rw [Int.bmod_eq_of_le] <;> omega

theorem doJumpSrc_rel' (insn : Insn) (σ : St) (h : σ.insnPtr < 2 ^ 62) :
    ∃ σ', doJumpSrc insn σ = .ok () σ' ∧ σ'.reg = σ.reg ∧ σ'.idx = σ.idx ∧ σ'.stacks = σ.stacks ∧ σ'.mem = σ.mem ∧ σ'.log = σ.log ∧
      σ'.insnPtr < 2 ^ 64 ∧
      (if (σ.insnPtr : Int) + insn.off.toInt < 0 then 2 ^ 63 ≤ σ'.insnPtr
       else Interp.jumpTo (abs σ) ((σ.insnPtr : Int) + insn.off.toInt) = .next (abs σ')) := by
  have ho := BitVec.toInt_lt (x := insn.off)
  have ho' := BitVec.le_toInt (x := insn.off)
  simp only [Nat.reduceSub] at ho ho'
  have hr : -(2 ^ (64 - 1) : Int) ≤ (σ.insnPtr : Int) + insn.off.toInt ∧ (σ.insnPtr : Int) + insn.off.toInt < 2 ^ (64 - 1) := by
    omega
  refine ⟨{ σ with insnPtr := asU 64 ((σ.insnPtr : Int) + insn.off.toInt) }, ?_, rfl, rfl, rfl, rfl, rfl, ?_, ?_⟩
  · unfold doJumpSrc
    rw [bind_run]
    simp only [getPtr]
    rw [asS_small _ (show σ.insnPtr < 2 ^ 63 by omega), bind_run, addS_run, if_pos hr]
    rfl
  · show asU 64 _ < 2 ^ 64
    unfold asU; omega
  · show (if _ then 2 ^ 63 ≤ asU 64 _ else _)
    unfold asU
    split
    · omega
    · rename_i hn
      have e : (((σ.insnPtr : Int) + insn.off.toInt) % 2 ^ 64).toNat = ((σ.insnPtr : Int) + insn.off.toInt).toNat := by omega
      rw [e]
      simp only [Interp.jumpTo, hn, if_false]
      rfl

/-! ## the header of an iteration -/

/-- the locals after the header: the frame size of a function entry recorded, `insn_ptr` advanced -/
def hdr (env : Env) (σ : St) : St :=
  { (if σ.idx < 8 then
      match env.usage σ.insnPtr with
      | some u => { σ with stacks := σ.stacks.setIfInBounds σ.idx { (σ.stacks[σ.idx]?).getD default with stackUsage := u } }
      | none => σ
     else σ) with insnPtr := σ.insnPtr + 1 }

theorem header_none (env : Env) (σ : St) (hg : getInsn? env.prog σ.insnPtr = none) : headerSrc env σ = .panic := by
  simp only [headerSrc, bind_run, getPtr, getInsn_run, hg]

theorem header_some (env : Env) (σ : St) (insn : Insn) (hg : getInsn? env.prog σ.insnPtr = some insn)
    (hp : σ.insnPtr + 1 < 2 ^ 64) : headerSrc env σ = .ok insn (hdr env σ) := by
  simp only [headerSrc, bind_run, getPtr, getInsn_run, hg, getIdx, decide_eq_true_eq]
  by_cases h8 : σ.idx < 8
  · cases hu : env.usage σ.insnPtr with
    | none => simp only [h8, if_true, bind_run, getPtr, addU_run, hp, setPtr, pure_run, hdr, hu]
    | some u =>
      simp only [h8, if_true, bind_run, getPtr, getIdx, setStackUsage, modFrame_run _ _ _ h8, addU_run, hp, setPtr, pure_run, hdr, hu,
        Vector.getElem?_eq_getElem h8, Option.getD_some]
  · simp only [h8, if_false, bind_run, getPtr, addU_run, hp, if_true, setPtr, pure_run, hdr]

/-! ## the abstraction -/

theorem abs_depth (σ : St) : (abs σ).depth = σ.idx := by
  simp only [abs, State.depth, List.length_map, List.length_reverse, List.length_range]

/-- `abs` sees the array of frames only through `frameOf` (below the index) and the frame sizes -/
theorem abs_congr (σ σ' : St) (hr : σ'.reg = σ.reg) (hi : σ'.idx = σ.idx) (hm : σ'.mem = σ.mem) (hl : σ'.log = σ.log)
    (hf : ∀ k, k < σ.idx → frameOf σ' k = frameOf σ k) :
    abs σ' = { abs σ with pc := σ'.insnPtr, usage := σ'.stacks.map (·.stackUsage) } := by
  simp only [abs, hr, hi, hm, hl]
  congr 1
  apply List.map_congr_left
  intro k hk
  simp only [List.mem_reverse, List.mem_range] at hk
  exact hf k hk

/-- recording a frame size changes no `frameOf` -/
theorem frameOf_setUsage (σ σ' : St) (i u : Nat)
    (hs : σ'.stacks = σ.stacks.setIfInBounds i { (σ.stacks[i]?).getD default with stackUsage := u }) (k : Nat) :
    frameOf σ' k = frameOf σ k := by
  simp only [frameOf, hs, Vector.getElem?_setIfInBounds]
  by_cases hik : i = k
  · subst hik
    by_cases h8 : i < 8
    · simp only [if_true, h8, Option.getD_some]
    · have : σ.stacks[i]? = none := by simp only [Vector.getElem?_eq_none_iff]; omega
      simp only [if_true, h8, if_false, this]
  · simp only [hik, if_false]

theorem abs_hdr (env : Env) (σ : St) :
    abs (hdr env σ) =
      { (if (abs σ).depth < 8 then
          match env.usage (abs σ).pc with
          | some u => { abs σ with usage := (abs σ).usage.setIfInBounds (abs σ).depth u }
          | none => abs σ
         else abs σ) with pc := (abs σ).pc + 1 } := by
  rw [abs_depth]
  show _ = { (if σ.idx < 8 then (match env.usage σ.insnPtr with
      | some u => { abs σ with usage := (abs σ).usage.setIfInBounds σ.idx u } | none => abs σ) else abs σ) with pc := σ.insnPtr + 1 }
  unfold hdr
  by_cases h8 : σ.idx < 8
  · cases hu : env.usage σ.insnPtr with
    | none => simp only [h8, if_true]; rfl
    | some u =>
      simp only [h8, if_true]
      rw [abs_congr σ { σ with stacks := σ.stacks.setIfInBounds σ.idx { (σ.stacks[σ.idx]?).getD default with stackUsage := u },
                               insnPtr := σ.insnPtr + 1 } rfl rfl rfl rfl
        (fun k _ => frameOf_setUsage σ _ σ.idx u rfl k)]
      simp only [Vector.map_setIfInBounds]
      rfl
  · simp only [h8, if_false]; rfl

/-! ## `lddw` -/

theorem asU32_toInt (x : BitVec 32) : asU 32 x.toInt = x.toNat := by
  have := x.isLt
  unfold asU; rw [BitVec.toInt_eq_toNat_cond]; split <;> omega

theorem asU64_toInt (x : BitVec 32) : asU 64 x.toInt = (Interp.sx32 x).toNat := by
  have := x.isLt
  unfold asU Interp.sx32
  rw [BitVec.toInt_eq_toNat_cond, BitVec.toNat_signExtend, BitVec.msb_eq_decide, BitVec.toNat_setWidth]
  by_cases h : 2 ^ (32 - 1) ≤ x.toNat
  · simp only [h, decide_true, if_true]; split <;> omega
  · simp only [h, decide_false, Bool.false_eq_true, if_false]; split <;> omega

theorem lddw_lt (imm nimm : BitVec 32) : asU 32 imm.toInt + shlU 64 (asU 64 nimm.toInt) 32 < 2 ^ 64 := by
  have := imm.isLt
  rw [asU32_toInt, asU64_toInt]; unfold shlU; omega

theorem lddw_val (imm nimm : BitVec 32) :
    BitVec.ofNat 64 (asU 32 imm.toInt + shlU 64 (asU 64 nimm.toInt) 32) =
      Interp.zx32 imm + (Interp.sx32 nimm <<< (32 : Nat)) := by
  apply BitVec.eq_of_toNat_eq
  rw [asU32_toInt, asU64_toInt]
  simp only [shlU, BitVec.toNat_ofNat, BitVec.toNat_add, BitVec.toNat_shiftLeft, Nat.shiftLeft_eq, Interp.zx32,
    BitVec.toNat_setWidth]
  have := imm.isLt
  omega

theorem ex_24 (env : Env) (s : State) (dstb srcb : BitVec 8) (off : BitVec 16) (imm : BitVec 32) :
    Interp.exec env s ⟨24, dstb, srcb, off, imm⟩ =
      (match getInsn? env.prog s.pc with
       | none => .panic
       | some next => Interp.wr { s with pc := s.pc + 1 } dstb.toNat (Interp.zx32 imm + (Interp.sx32 next.imm <<< (32 : Nat)))) := by
  rfl

theorem lddw_rel (env : Env) (σ : St) (dstb srcb : BitVec 8) (off : BitVec 16) (imm : BitVec 32) (hp : σ.insnPtr < 2 ^ 62)
    (hi : Inv σ) :
    RelOut (lddwArmSrc env ⟨24, dstb, srcb, off, imm⟩ σ) (Interp.exec env (abs σ) ⟨24, dstb, srcb, off, imm⟩) := by
  rw [ex_24]
  show RelOut _ (match getInsn? env.prog σ.insnPtr with | none => _ | some next => _)
  have hp1 : σ.insnPtr + 1 < 2 ^ 64 := by omega
  unfold lddwArmSrc
  rw [getPtr_bind]
  cases hg : getInsn? env.prog σ.insnPtr with
  | none => rw [getInsn_bind_none _ _ _ _ hg]; rfl
  | some next =>
    rw [getInsn_bind_some _ _ _ _ _ hg]
    have hlt := lddw_lt imm next.imm
    have hv := lddw_val imm next.imm
    show RelOut ((getPtr >>= fun t3 => addU 64 t3 1 >>= fun t4 => setPtr t4 >>= fun _ =>
      addU 64 (asU 32 imm.toInt) (shlU 64 (asU 64 next.imm.toInt) 32) >>= fun t5 => setReg dstb.toNat (BitVec.ofNat 64 t5)) σ) _
    generalize asU 32 imm.toInt = A at hlt hv ⊢
    generalize shlU 64 (asU 64 next.imm.toInt) 32 = B at hlt hv ⊢
    rw [getPtr_bind, addU_bind, if_pos hp1, setPtr_bind, addU_bind, if_pos hlt, hv]
    by_cases hd : dstb.toNat < 11
    · rw [setReg_run _ _ _ hd]
      simp only [Interp.wr, hd, if_true]
      exact Or.inl ⟨rfl, hi⟩
    · simp only [setReg, Interp.wr, hd, if_false]
      rfl

/-! ## the accessors of `stack.rs` in front of a continuation -/

theorem saveRegisters_bind (k : Nat) (f : Unit → M β) (σ : St) (h : k < 8) :
    (saveRegisters k >>= f) σ =
      f () { σ with
        stacks := σ.stacks.setIfInBounds k { (σ.stacks[k]) with savedRegisters := (σ.reg[6], σ.reg[7], σ.reg[8], σ.reg[9]) } } := by
  simp only [saveRegisters, bind_run, getReg_run _ _ (show 6 < 11 by decide), getReg_run _ _ (show 7 < 11 by decide),
    getReg_run _ _ (show 8 < 11 by decide), getReg_run _ _ (show 9 < 11 by decide), modFrame_run _ _ _ h]

theorem restoreRegisters_bind (k : Nat) (f : Unit → M β) (σ : St) (h : k < 8) :
    (restoreRegisters k >>= f) σ =
      f () { σ with
        reg := (((σ.reg.setIfInBounds 6 σ.stacks[k].savedRegisters.1).setIfInBounds 7
                  σ.stacks[k].savedRegisters.2.1).setIfInBounds 8 σ.stacks[k].savedRegisters.2.2.1).setIfInBounds 9
                  σ.stacks[k].savedRegisters.2.2.2 } := by
  simp only [restoreRegisters, bind_run, getFrame_run _ _ h, setReg_run _ _ _ (show 6 < 11 by decide),
    setReg_run _ _ _ (show 7 < 11 by decide), setReg_run _ _ _ (show 8 < 11 by decide), setReg_run _ _ _ (show 9 < 11 by decide)]

theorem saveReturnAddress_bind (k a : Nat) (f : Unit → M β) (σ : St) (h : k < 8) :
    (saveReturnAddress k a >>= f) σ =
      f () { σ with stacks := σ.stacks.setIfInBounds k { (σ.stacks[k]) with returnAddress := a } } := by
  simp only [saveReturnAddress, modFrame_bind _ _ _ _ h]

theorem getReturnAddress_bind (k : Nat) (f : Nat → M β) (σ : St) (h : k < 8) :
    (getReturnAddress k >>= f) σ = f σ.stacks[k].returnAddress σ := by
  simp only [getReturnAddress, bind_run, getFrame_run _ _ h, pure_run]

theorem getStackUsage_bind (k : Nat) (f : Nat → M β) (σ : St) (h : k < 8) :
    (getStackUsage k >>= f) σ = f σ.stacks[k].stackUsage σ := by
  simp only [getStackUsage, bind_run, getFrame_run _ _ h, pure_run]

/-! ## the arms -/

theorem ex_133 (env : Env) (s : State) (dstb srcb : BitVec 8) (off : BitVec 16) (imm : BitVec 32) :
    Interp.exec env s ⟨133, dstb, srcb, off, imm⟩ =
      (if srcb.toNat = 0 then Interp.callHelper env s imm else if srcb.toNat = 1 then Interp.callLocal s imm
       else .err .callType s) := by rfl
theorem ex_141 (env : Env) (s : State) (dstb srcb : BitVec 8) (off : BitVec 16) (imm : BitVec 32) :
    Interp.exec env s ⟨141, dstb, srcb, off, imm⟩ = .err .tailCall s := by rfl
theorem ex_149 (env : Env) (s : State) (dstb srcb : BitVec 8) (off : BitVec 16) (imm : BitVec 32) :
    Interp.exec env s ⟨149, dstb, srcb, off, imm⟩ = Interp.exitInsn s := by rfl

theorem tail_rel (env : Env) (σ : St) (dstb srcb : BitVec 8) (off : BitVec 16) (imm : BitVec 32) :
    RelOut (tailCallArmSrc env ⟨141, dstb, srcb, off, imm⟩ σ) (Interp.exec env (abs σ) ⟨141, dstb, srcb, off, imm⟩) := by
  rw [ex_141]; rfl

theorem default_rel (env : Env) (σ : St) (opc dstb srcb : BitVec 8) (off : BitVec 16) (imm : BitVec 32)
    (h1 : isOther opc.toNat = false) (h2 : opc.toNat ≠ 24) (h3 : opc.toNat ≠ 133) (h4 : opc.toNat ≠ 141) (h5 : opc.toNat ≠ 149) :
    RelOut (defaultArmSrc σ) (Interp.exec env (abs σ) ⟨opc, dstb, srcb, off, imm⟩) := by
  rw [exec_unknown h1 h2 h3 h4 h5]; rfl

theorem other_rel (env : Env) (σ : St) (opc dstb srcb : BitVec 8) (off : BitVec 16) (imm : BitVec 32)
    (h1 : isOther opc.toNat = true) (hi : Inv σ) :
    RelOut (otherArm env ⟨opc, dstb, srcb, off, imm⟩ σ) (Interp.exec env (abs σ) ⟨opc, dstb, srcb, off, imm⟩) := by
  have hk := exec_keeps (env := env) (s := abs σ) (dstb := dstb) (srcb := srcb) (off := off) (imm := imm) h1
  unfold otherArm
  cases he : Interp.exec env (abs σ) ⟨opc, dstb, srcb, off, imm⟩ with
  | next s' =>
    rw [he] at hk
    obtain ⟨hf, hu, hl⟩ := hk
    refine Or.inl ⟨?_, hi⟩
    obtain ⟨r, pc, fr, us, me, lg⟩ := s'
    simp only at hf hu hl
    subst hf hu hl
    rfl
  | done r s' => rw [he] at hk; exact hk.elim
  | err e s' => rw [he] at hk; rw [show s' = abs σ from hk]; rfl
  | panic => rfl
  | fault => rfl

theorem abs_frames_zero (σ : St) (h : σ.idx = 0) : (abs σ).frames = [] := by
  simp only [abs, h, List.range_zero, List.reverse_nil, List.map_nil]

theorem abs_frames_succ (σ : St) (n : Nat) (h : σ.idx = n + 1) :
    (abs σ).frames = frameOf σ n :: (List.range n).reverse.map (frameOf σ) := by
  simp only [abs, h, List.range_succ, List.reverse_append, List.reverse_cons, List.reverse_nil, List.nil_append, List.cons_append,
    List.map_cons]

theorem abs_exit (σ : St) (R : Vector (BitVec 64) 11) (P n : Nat) :
    abs { reg := R, insnPtr := P, idx := n, stacks := σ.stacks, mem := σ.mem, log := σ.log } =
      { reg := R, pc := P, frames := (List.range n).reverse.map (frameOf σ), usage := (abs σ).usage, mem := σ.mem,
        log := σ.log } := rfl

theorem exit_rel (env : Env) (σ : St) (dstb srcb : BitVec 8) (off : BitVec 16) (imm : BitVec 32) (hi : Inv σ) :
    RelOut (exitArmSrc env ⟨149, dstb, srcb, off, imm⟩ σ) (Interp.exec env (abs σ) ⟨149, dstb, srcb, off, imm⟩) := by
  rw [ex_149]
  unfold exitArmSrc Interp.exitInsn
  rw [getIdx_bind]
  by_cases h0 : σ.idx > 0
  · rw [if_pos (decide_eq_true h0)]
    obtain ⟨n, hn⟩ : ∃ n, σ.idx = n + 1 := ⟨σ.idx - 1, by omega⟩
    have hk : n < 8 := by unfold Inv at hi; omega
    rw [abs_frames_succ σ n hn]
    rw [getIdx_bind, subU_bind, if_pos (show 1 ≤ σ.idx by omega), setIdx_bind, getIdx_bind]
    simp only [hn, Nat.add_sub_cancel]
    rw [restoreRegisters_bind _ _ _ hk]
    dsimp only
    rw [getIdx_bind, getReturnAddress_bind _ _ _ hk, setPtr_bind, getIdx_bind]
    dsimp only
    rw [getStackUsage_bind _ _ _ hk, getReg_bind _ _ _ (show 10 < 11 by decide)]
    dsimp only
    have hlen : (List.map (frameOf σ) (List.range n).reverse).length = n := by
      simp only [List.length_map, List.length_reverse, List.length_range]
    have hus : (abs σ).usage[n]?.getD 0 = σ.stacks[n].stackUsage := by
      simp only [abs, Vector.getElem?_eq_getElem hk, Option.getD_some, Vector.getElem_map]
    have hfo : frameOf σ n = { ret := σ.stacks[n].returnAddress, saved := σ.stacks[n].savedRegisters } := by
      simp only [frameOf, Vector.getElem?_eq_getElem hk, Option.getD_some]
    have hr10 : ((((σ.reg.setIfInBounds 6 σ.stacks[n].savedRegisters.fst).setIfInBounds 7
        σ.stacks[n].savedRegisters.snd.fst).setIfInBounds 8 σ.stacks[n].savedRegisters.snd.snd.fst).setIfInBounds 9
        σ.stacks[n].savedRegisters.snd.snd.snd)[10] = σ.reg[10] := by
      simp only [Vector.getElem_setIfInBounds, Nat.reduceEqDiff, if_false]
    rw [hlen, hus, hfo, hr10, InterpArmsAux.rd_eq _ _ _ (show 10 < 11 by decide), show (abs σ).reg[10] = σ.reg[10] from rfl]
    show RelOut _ (if σ.reg[10].toNat + σ.stacks[n].stackUsage ≥ 2 ^ 64 then _ else _)
    generalize σ.reg[10] = r10
    generalize σ.stacks[n].stackUsage = u
    rw [addU_bind]
    by_cases hov : r10.toNat + u < 2 ^ 64
    · rw [if_pos hov, if_neg (by omega), setReg_run _ _ _ (show 10 < 11 by decide)]
      have hv : BitVec.ofNat 64 (r10.toNat + u) = r10 + BitVec.ofNat 64 u := by
        rw [BitVec.ofNat_add, BitVec.ofNat_toNat, BitVec.setWidth_eq]
      rw [hv]
      refine Or.inl ⟨?_, show n ≤ 8 by omega⟩
      dsimp only
      rw [show (abs σ).reg = σ.reg from rfl, show (abs σ).mem = σ.mem from rfl, show (abs σ).log = σ.log from rfl,
        abs_exit σ _ _ n]
    · rw [if_neg hov, if_pos (by omega)]
      rfl
  · rw [if_neg (by simpa using h0)]
    have h00 : σ.idx = 0 := by omega
    rw [abs_frames_zero σ h00, getReg_bind _ _ _ (show 0 < 11 by decide)]
    rw [InterpArmsAux.rd_eq _ _ _ (show 0 < 11 by decide), BitVec.ofNat_toNat, BitVec.setWidth_eq]
    rfl

theorem invoke_bind (g : Nat × HelperFn) (a1 a2 a3 a4 a5 : BitVec 64) (f : BitVec 64 → M β) (σ : St) :
    (invoke g a1 a2 a3 a4 a5 >>= f) σ = f (g.2 a1 a2 a3 a4 a5) { σ with log := σ.log ++ [(g.1, [a1, a2, a3, a4, a5])] } := rfl

theorem ofNat_toNat64 (x : BitVec 64) : BitVec.ofNat 64 x.toNat = x := by
  rw [BitVec.ofNat_toNat, BitVec.setWidth_eq]

theorem callArm_0 (env : Env) (insn : Insn) (h : insn.src.toNat = 0) :
    callArmSrc env insn =
      (match lookupHelper env (asU 32 insn.imm.toInt) with
       | some function => do
         let t1 ← getReg 1
         let t2 ← getReg 2
         let t3 ← getReg 3
         let t4 ← getReg 4
         let t5 ← getReg 5
         let t6 ← invoke function (BitVec.ofNat 64 t1.toNat) (BitVec.ofNat 64 t2.toNat) (BitVec.ofNat 64 t3.toNat)
           (BitVec.ofNat 64 t4.toNat) (BitVec.ofNat 64 t5.toNat)
         setReg 0 (BitVec.ofNat 64 t6.toNat)
       | none => raise .unknownHelper) := by
  unfold callArmSrc; rw [h]; rfl

theorem callHelper_rel (env : Env) (σ : St) (dstb srcb : BitVec 8) (off : BitVec 16) (imm : BitVec 32) (hi : Inv σ)
    (h0 : srcb.toNat = 0) :
    RelOut (callArmSrc env ⟨133, dstb, srcb, off, imm⟩ σ) (Interp.callHelper env (abs σ) imm) := by
  rw [callArm_0 _ _ h0]
  unfold Interp.callHelper
  dsimp only
  rw [asU32_toInt]
  unfold lookupHelper
  cases hh : env.helpers imm.toNat with
  | none => rfl
  | some g =>
    simp only [Option.map_some]
    rw [getReg_bind _ _ _ (show 1 < 11 by decide), getReg_bind _ _ _ (show 2 < 11 by decide),
      getReg_bind _ _ _ (show 3 < 11 by decide), getReg_bind _ _ _ (show 4 < 11 by decide),
      getReg_bind _ _ _ (show 5 < 11 by decide), invoke_bind, setReg_run _ _ _ (show 0 < 11 by decide)]
    simp only [ofNat_toNat64, InterpArmsAux.rd_eq _ _ _ (show 1 < 11 by decide), InterpArmsAux.rd_eq _ _ _ (show 2 < 11 by decide),
      InterpArmsAux.rd_eq _ _ _ (show 3 < 11 by decide), InterpArmsAux.rd_eq _ _ _ (show 4 < 11 by decide),
      InterpArmsAux.rd_eq _ _ _ (show 5 < 11 by decide), Interp.wr, show (0 : Nat) < 11 by decide, if_true]
    exact Or.inl ⟨rfl, hi⟩

theorem abs_call (σ : St) (R : Vector (BitVec 64) 11) (P a : Nat) (sv : BitVec 64 × BitVec 64 × BitVec 64 × BitVec 64)
    (hk : σ.idx < 8) :
    abs { reg := R, insnPtr := P, idx := σ.idx + 1,
          stacks := σ.stacks.setIfInBounds σ.idx
            { returnAddress := a, savedRegisters := sv, stackUsage := σ.stacks[σ.idx].stackUsage },
          mem := σ.mem, log := σ.log } =
      { reg := R, pc := P, frames := { ret := a, saved := sv } :: (abs σ).frames, usage := (abs σ).usage,
        mem := σ.mem, log := σ.log } := by
  simp only [abs, List.range_succ, List.reverse_append, List.reverse_cons, List.reverse_nil, List.nil_append, List.cons_append,
    List.map_cons, State.mk.injEq, true_and, and_true, List.cons.injEq]
  refine ⟨⟨?_, ?_⟩, ?_⟩
  · simp only [frameOf, Vector.getElem?_setIfInBounds_self, hk, if_true, Option.getD_some]
  · apply List.map_congr_left
    intro k hk'
    simp only [List.mem_reverse, List.mem_range] at hk'
    simp only [frameOf, Vector.getElem?_setIfInBounds_ne (show σ.idx ≠ k by omega)]
  · apply Vector.ext
    intro i hi
    simp only [Vector.getElem_map, Vector.getElem_setIfInBounds]
    split
    · rename_i h; subst h; rfl
    · rfl

theorem callLocal_rel (env : Env) (σ : St) (dstb srcb : BitVec 8) (off : BitVec 16) (imm : BitVec 32)
    (hp : σ.insnPtr < 2 ^ 62) (h1 : srcb.toNat = 1) :
    RelOut (callArmSrc env ⟨133, dstb, srcb, off, imm⟩ σ) (Interp.callLocal (abs σ) imm) := by
  unfold callArmSrc Interp.callLocal
  dsimp only
  rw [h1, abs_depth]
  show RelOut ((getIdx >>= _) σ) _
  rw [getIdx_bind]
  by_cases h8 : σ.idx ≥ 8
  · rw [if_pos (decide_eq_true h8), raise_bind, if_pos h8]
    rfl
  · rw [if_neg (by simpa using h8), if_neg h8]
    have hk : σ.idx < 8 := by omega
    rw [getIdx_bind, saveRegisters_bind _ _ _ hk]
    dsimp only
    rw [getIdx_bind, getPtr_bind, saveReturnAddress_bind _ _ _ _ hk]
    dsimp only
    rw [getIdx_bind, getStackUsage_bind _ _ _ hk, getReg_bind _ _ _ (show 10 < 11 by decide), subU_bind]
    dsimp only
    have hus : (abs σ).usage[σ.idx]?.getD 0 = σ.stacks[σ.idx].stackUsage := by
      simp only [abs, Vector.getElem?_eq_getElem hk, Option.getD_some, Vector.getElem_map]
    simp only [Vector.getElem_setIfInBounds, if_true, Vector.setIfInBounds_setIfInBounds]
    rw [InterpArmsAux.rd_eq _ _ _ (show 6 < 11 by decide), InterpArmsAux.rd_eq _ _ _ (show 7 < 11 by decide),
      InterpArmsAux.rd_eq _ _ _ (show 8 < 11 by decide), InterpArmsAux.rd_eq _ _ _ (show 9 < 11 by decide),
      InterpArmsAux.rd_eq _ _ _ (show 10 < 11 by decide), hus]
    show RelOut _ (if σ.reg[10].toNat < σ.stacks[σ.idx].stackUsage then Outcome.panic else
      Interp.jumpTo
        { reg := σ.reg.setIfInBounds 10 (σ.reg[10] - BitVec.ofNat 64 σ.stacks[σ.idx].stackUsage),
          pc := σ.insnPtr,
          frames := { ret := σ.insnPtr, saved := (σ.reg[6], σ.reg[7], σ.reg[8], σ.reg[9]) } :: (abs σ).frames,
          usage := (abs σ).usage, mem := σ.mem, log := σ.log }
        ((σ.insnPtr : Int) + imm.toInt))
    generalize hsv : (σ.reg[6], σ.reg[7], σ.reg[8], σ.reg[9]) = sv
    generalize hr10 : σ.reg[10] = r10
    generalize hu : σ.stacks[σ.idx].stackUsage = u
    by_cases hle : u ≤ r10.toNat
    · have hv : BitVec.ofNat 64 (r10.toNat - u) = r10 - BitVec.ofNat 64 u := by
        apply BitVec.eq_of_toNat_eq
        have := r10.isLt
        rw [BitVec.toNat_sub, BitVec.toNat_ofNat, BitVec.toNat_ofNat, Nat.mod_eq_of_lt (show u < 2 ^ 64 by omega),
          Nat.mod_eq_of_lt (show r10.toNat - u < 2 ^ 64 by omega)]
        omega
      rw [if_pos hle, if_neg (by omega), setReg_bind _ _ _ _ (show 10 < 11 by decide), hv]
      dsimp only
      rw [getIdx_bind, addU_bind, if_pos (show σ.idx + 1 < 2 ^ 64 by omega), setIdx_bind, getPtr_bind]
      dsimp only
      have ho := BitVec.toInt_lt (x := imm)
      have ho' := BitVec.le_toInt (x := imm)
      simp only [Nat.reduceSub] at ho ho'
      have hr : -(2 ^ (64 - 1) : Int) ≤ (σ.insnPtr : Int) + imm.toInt ∧ (σ.insnPtr : Int) + imm.toInt < 2 ^ (64 - 1) := by
        omega
      rw [asS_small _ (show σ.insnPtr < 2 ^ 63 by omega), addS_bind, if_pos hr]
      subst hu
      generalize ht : (σ.insnPtr : Int) + imm.toInt = t at hr
      have hlo : -(2 ^ 62 : Int) ≤ t := by omega
      unfold Interp.jumpTo setPtr
      by_cases hneg : t < 0
      · rw [if_pos hneg]
        refine Or.inr ⟨rfl, ?_⟩
        show 2 ^ 63 ≤ asU 64 t
        unfold asU; omega
      · rw [if_neg hneg]
        refine Or.inl ⟨?_, show σ.idx + 1 ≤ 8 by omega⟩
        have e : asU 64 t = t.toNat := by unfold asU; omega
        dsimp only
        rw [e, abs_call σ _ _ _ _ hk]
    · rw [if_neg hle, if_pos (by omega)]
      rfl

theorem call_rel (env : Env) (σ : St) (dstb srcb : BitVec 8) (off : BitVec 16) (imm : BitVec 32) (hi : Inv σ)
    (hp : σ.insnPtr < 2 ^ 62) :
    RelOut (callArmSrc env ⟨133, dstb, srcb, off, imm⟩ σ) (Interp.exec env (abs σ) ⟨133, dstb, srcb, off, imm⟩) := by
  rw [ex_133]
  by_cases h0 : srcb.toNat = 0
  · rw [if_pos h0]; exact callHelper_rel env σ dstb srcb off imm hi h0
  · rw [if_neg h0]
    by_cases h1 : srcb.toNat = 1
    · rw [if_pos h1]; exact callLocal_rel env σ dstb srcb off imm hp h1
    · rw [if_neg h1]
      obtain ⟨k, hk⟩ : ∃ k, srcb.toNat = k + 2 := ⟨srcb.toNat - 2, by omega⟩
      unfold callArmSrc
      dsimp only
      rw [hk]
      rfl

/-! ## one iteration -/

theorem step_some (env : Env) (σ : St) (insn : Insn) (hc : σ.insnPtr * 8 < env.prog.size)
    (hg : getInsn? env.prog σ.insnPtr = some insn) :
    Interp.step env (abs σ) = Interp.exec env (abs (hdr env σ)) insn := by
  rw [abs_hdr]
  unfold Interp.step
  rw [if_pos (show (abs σ).pc * 8 < env.prog.size from hc), show getInsn? env.prog (abs σ).pc = some insn from hg]
  rfl

theorem step_none (env : Env) (σ : St) (hc : σ.insnPtr * 8 < env.prog.size) (hg : getInsn? env.prog σ.insnPtr = none) :
    Interp.step env (abs σ) = .panic := by
  unfold Interp.step
  rw [if_pos (show (abs σ).pc * 8 < env.prog.size from hc), show getInsn? env.prog (abs σ).pc = none from hg]

theorem step_out (env : Env) (σ : St) (hc : ¬ σ.insnPtr * 8 < env.prog.size) : Interp.step env (abs σ) = .panic := by
  unfold Interp.step
  rw [if_neg (show ¬ (abs σ).pc * 8 < env.prog.size from hc)]

/-- the arm selected by the opcode, as `stepSrc` writes it -/
def armOf (env : Env) (insn : Insn) : M Unit :=
  if insn.opc.toNat = opcLdDw then lddwArmSrc env insn
  else if insn.opc.toNat = opcCall then callArmSrc env insn
  else if insn.opc.toNat = opcTailCall then tailCallArmSrc env insn
  else if insn.opc.toNat = opcExit then exitArmSrc env insn
  else if isOther insn.opc.toNat then otherArm env insn
  else defaultArmSrc

theorem stepSrc_some (env : Env) (σ : St) (insn : Insn) (hc : σ.insnPtr * 8 < env.prog.size) (h64 : σ.insnPtr * 8 < 2 ^ 64)
    (hg : getInsn? env.prog σ.insnPtr = some insn) : stepSrc env σ = armOf env insn (hdr env σ) := by
  unfold stepSrc
  rw [bind_run, loopCond_run, if_pos h64]
  dsimp only
  rw [if_pos (decide_eq_true hc), bind_run, header_some env σ insn hg (by omega)]
  rfl

theorem stepSrc_none (env : Env) (σ : St) (hc : σ.insnPtr * 8 < env.prog.size) (h64 : σ.insnPtr * 8 < 2 ^ 64)
    (hg : getInsn? env.prog σ.insnPtr = none) : stepSrc env σ = .panic := by
  unfold stepSrc
  rw [bind_run, loopCond_run, if_pos h64]
  dsimp only
  rw [if_pos (decide_eq_true hc), bind_run, header_none env σ hg]

theorem stepSrc_out (env : Env) (σ : St) (hc : ¬ σ.insnPtr * 8 < env.prog.size) : stepSrc env σ = .panic := by
  unfold stepSrc
  rw [bind_run, loopCond_run]
  by_cases h64 : σ.insnPtr * 8 < 2 ^ 64
  · rw [if_pos h64]
    dsimp only
    rw [if_neg (by simpa using hc)]
    rfl
  · rw [if_neg h64]

theorem arm_rel (env : Env) (σ : St) (insn : Insn) (hi : Inv σ) (hp : σ.insnPtr < 2 ^ 62) :
    RelOut (armOf env insn σ) (Interp.exec env (abs σ) insn) := by
  obtain ⟨opc, dstb, srcb, off, imm⟩ := insn
  unfold armOf
  dsimp only
  by_cases h1 : opc.toNat = opcLdDw
  · rw [if_pos h1]
    obtain rfl : opc = 24 := BitVec.eq_of_toNat_eq h1
    exact lddw_rel env σ dstb srcb off imm hp hi
  rw [if_neg h1]
  by_cases h2 : opc.toNat = opcCall
  · rw [if_pos h2]
    obtain rfl : opc = 133 := BitVec.eq_of_toNat_eq h2
    exact call_rel env σ dstb srcb off imm hi hp
  rw [if_neg h2]
  by_cases h3 : opc.toNat = opcTailCall
  · rw [if_pos h3]
    obtain rfl : opc = 141 := BitVec.eq_of_toNat_eq h3
    exact tail_rel env σ dstb srcb off imm
  rw [if_neg h3]
  by_cases h4 : opc.toNat = opcExit
  · rw [if_pos h4]
    obtain rfl : opc = 149 := BitVec.eq_of_toNat_eq h4
    exact exit_rel env σ dstb srcb off imm hi
  rw [if_neg h4]
  by_cases h5 : isOther opc.toNat = true
  · rw [if_pos h5]
    exact other_rel env σ opc dstb srcb off imm h5 hi
  · rw [if_neg h5]
    exact default_rel env σ opc dstb srcb off imm (by simpa using h5) h1 h2 h3 h4

theorem inv_hdr (env : Env) (σ : St) (h : Inv σ) : Inv (hdr env σ) := by
  unfold Inv hdr
  dsimp only
  split
  · split <;> exact h
  · exact h

theorem stepSrc_rel' (env : Env) (σ : St) (hsz : env.prog.size < 2 ^ 63) (h : Inv σ) :
    RelOut (stepSrc env σ) (Interp.step env (abs σ)) := by
  by_cases hc : σ.insnPtr * 8 < env.prog.size
  · have h64 : σ.insnPtr * 8 < 2 ^ 64 := by omega
    cases hg : getInsn? env.prog σ.insnPtr with
    | none => rw [stepSrc_none env σ hc h64 hg, step_none env σ hc hg]; rfl
    | some insn =>
      rw [stepSrc_some env σ insn hc h64 hg, step_some env σ insn hc hg]
      exact arm_rel env (hdr env σ) insn (inv_hdr env σ h) (show σ.insnPtr + 1 < 2 ^ 62 by omega)
  · rw [stepSrc_out env σ hc, step_out env σ hc]; rfl
end Rbpf.Src
