/-
  Lemmas for `InterpCtlAux.lean`, part 2: running the monad `Src.M` (one lemma per primitive of `Model/InterpSrc.lean`), the loop test,
  the header of an iteration (`hdr`) and its image under `abs`, `do_jump`, the initial state, and the arithmetic of `lddw`.
-/
import RbpfModel.Lemmas.InterpCtlAux1
namespace Rbpf.Src
open Rbpf.Generated Rbpf.Generated.Ctl

/-! ## running the monad -/

theorem bind_run (m : M α) (f : α → M β) (σ : St) :
    (m >>= f) σ = match m σ with
      | .ok a σ' => f a σ' | .done r σ' => .done r σ' | .err e σ' => .err e σ' | .panic => .panic | .fault => .fault := rfl
theorem pure_run (a : α) (σ : St) : (pure a : M α) σ = .ok a σ := rfl

theorem getReg_run (i : Nat) (σ : St) (h : i < 11) : getReg i σ = .ok σ.reg[i] σ := by
  simp only [getReg, Vector.getElem?_eq_getElem h]
theorem setReg_run (i : Nat) (v : BitVec 64) (σ : St) (h : i < 11) :
    setReg i v σ = .ok () { σ with reg := σ.reg.setIfInBounds i v } := by
  simp only [setReg, h, if_true]
theorem getFrame_run (k : Nat) (σ : St) (h : k < 8) : getFrame k σ = .ok σ.stacks[k] σ := by
  simp only [getFrame, Vector.getElem?_eq_getElem h]
theorem modFrame_run (k : Nat) (f : SFrame → SFrame) (σ : St) (h : k < 8) :
    modFrame k f σ = .ok () { σ with stacks := σ.stacks.setIfInBounds k (f σ.stacks[k]) } := by
  simp only [modFrame, Vector.getElem?_eq_getElem h]

theorem addU_run (w a b : Nat) (σ : St) : addU w a b σ = if a + b < 2 ^ w then .ok (a + b) σ else .panic := by
  unfold addU; split <;> rfl
theorem subU_run (a b : Nat) (σ : St) : subU a b σ = if b ≤ a then .ok (a - b) σ else .panic := by
  unfold subU; split <;> rfl
theorem mulU_run (w a b : Nat) (σ : St) : mulU w a b σ = if a * b < 2 ^ w then .ok (a * b) σ else .panic := by
  unfold mulU; split <;> rfl
theorem addS_run (w : Nat) (a b : Int) (σ : St) :
    addS w a b σ = if -(2 ^ (w - 1) : Int) ≤ a + b ∧ a + b < 2 ^ (w - 1) then .ok (a + b) σ else .panic := by
  unfold addS; split <;> rfl
theorem getInsn_run (p : Bytes) (i : Nat) (σ : St) :
    getInsn p i σ = match getInsn? p i with | some x => .ok x σ | none => .panic := by
  unfold getInsn; cases getInsn? p i <;> rfl

/-! The same in front of a continuation.  These are stated with `if`, not through `bind_run`: the kernel compares two different
    applications of a matcher by evaluating the discriminant, and `addU 64 a b σ` with a symbolic `a` and the literal `2 ^ 64` sends it
    into unary arithmetic. -/
theorem getPtr_bind (f : Nat → M β) (σ : St) : (getPtr >>= f) σ = f σ.insnPtr σ := rfl
theorem setPtr_bind (v : Nat) (f : Unit → M β) (σ : St) : (setPtr v >>= f) σ = f () { σ with insnPtr := v } := rfl
theorem getIdx_bind (f : Nat → M β) (σ : St) : (getIdx >>= f) σ = f σ.idx σ := rfl
theorem setIdx_bind (v : Nat) (f : Unit → M β) (σ : St) : (setIdx v >>= f) σ = f () { σ with idx := v } := rfl
theorem pure_bind_run (a : α) (f : α → M β) (σ : St) : (pure a >>= f) σ = f a σ := rfl
theorem raise_bind (e : ErrKind) (f : α → M β) (σ : St) : (raise e >>= f) σ = .err e σ := rfl
theorem addU_bind (w a b : Nat) (f : Nat → M β) (σ : St) :
    (addU w a b >>= f) σ = if a + b < 2 ^ w then f (a + b) σ else .panic := by
  unfold addU; split <;> rfl
theorem subU_bind (a b : Nat) (f : Nat → M β) (σ : St) : (subU a b >>= f) σ = if b ≤ a then f (a - b) σ else .panic := by
  unfold subU; split <;> rfl
theorem addS_bind (w : Nat) (a b : Int) (f : Int → M β) (σ : St) :
    (addS w a b >>= f) σ = if -(2 ^ (w - 1) : Int) ≤ a + b ∧ a + b < 2 ^ (w - 1) then f (a + b) σ else .panic := by
  unfold addS; split <;> rfl
theorem getInsn_bind_some (p : Bytes) (i : Nat) (x : Insn) (f : Insn → M β) (σ : St) (h : getInsn? p i = some x) :
    (getInsn p i >>= f) σ = f x σ := by
  unfold getInsn; rw [h]; rfl
theorem getInsn_bind_none (p : Bytes) (i : Nat) (f : Insn → M β) (σ : St) (h : getInsn? p i = none) :
    (getInsn p i >>= f) σ = .panic := by
  unfold getInsn; rw [h]; rfl
theorem getReg_bind (i : Nat) (f : BitVec 64 → M β) (σ : St) (h : i < 11) : (getReg i >>= f) σ = f σ.reg[i] σ := by
  rw [bind_run, getReg_run _ _ h]
theorem setReg_bind (i : Nat) (v : BitVec 64) (f : Unit → M β) (σ : St) (h : i < 11) :
    (setReg i v >>= f) σ = f () { σ with reg := σ.reg.setIfInBounds i v } := by
  rw [bind_run, setReg_run _ _ _ h]
theorem getFrame_bind (k : Nat) (f : SFrame → M β) (σ : St) (h : k < 8) : (getFrame k >>= f) σ = f σ.stacks[k] σ := by
  rw [bind_run, getFrame_run _ _ h]
theorem modFrame_bind (k : Nat) (g : SFrame → SFrame) (f : Unit → M β) (σ : St) (h : k < 8) :
    (modFrame k g >>= f) σ = f () { σ with stacks := σ.stacks.setIfInBounds k (g σ.stacks[k]) } := by
  rw [bind_run, modFrame_run _ _ _ h]
theorem bind_assoc_run (m : M α) (f : α → M β) (g : β → M γ) (σ : St) :
    ((m >>= f) >>= g) σ = (m >>= fun a => f a >>= g) σ := by
  simp only [bind_run]; cases m σ <;> rfl

theorem loopCond_run (env : Env) (σ : St) :
    loopCondSrc env σ = if σ.insnPtr * 8 < 2 ^ 64 then .ok (decide (σ.insnPtr * 8 < env.prog.size)) σ else .panic := by
  by_cases h : σ.insnPtr * 8 < 2 ^ 64 <;> simp only [loopCondSrc, bind_run, getPtr, mulU_run, h, if_true, if_false, pure_run]

theorem stepSrc_wrapped' (env : Env) (σ : St) (h : 2 ^ 63 ≤ σ.insnPtr) : stepSrc env σ = .panic := by
  have : ¬ σ.insnPtr * 8 < 2 ^ 64 := by omega
  simp only [stepSrc, bind_run, loopCond_run, this, if_false]

theorem initSrc_abs' (m : Memory) : abs (initSrc m) = Interp.init m ∧ Inv (initSrc m) := by
  refine ⟨?_, by simp [Inv, initSrc]⟩
  simp [abs, initSrc, Interp.init]

theorem asS_small (n : Nat) (h : n < 2 ^ 63) : asS 64 (n : Int) = n := by
  unfold asS
  rw [Int.bmod_eq_of_le] <;> omega

theorem doJumpSrc_rel' (insn : Insn) (σ : St) (h : σ.insnPtr < 2 ^ 62) :
    ∃ σ', doJumpSrc insn σ = .ok () σ' ∧ σ'.reg = σ.reg ∧ σ'.idx = σ.idx ∧ σ'.stacks = σ.stacks ∧ σ'.mem = σ.mem ∧ σ'.log = σ.log ∧
      σ'.insnPtr < 2 ^ 64 ∧
      (if (σ.insnPtr : Int) + insn.off.toInt < 0 then 2 ^ 63 ≤ σ'.insnPtr
       else Interp.jumpTo (abs σ) ((σ.insnPtr : Int) + insn.off.toInt) = .next (abs σ')) := by
  have ho := BitVec.toInt_lt (x := insn.off)
  have ho' := BitVec.le_toInt (x := insn.off)
  simp only [Nat.reduceSub] at ho ho'
  have hr : -(2 ^ (64 - 1) : Int) ≤ (σ.insnPtr : Int) + insn.off.toInt ∧ (σ.insnPtr : Int) + insn.off.toInt < 2 ^ (64 - 1) := by
    omega
  refine ⟨{ σ with insnPtr := asU 64 ((σ.insnPtr : Int) + insn.off.toInt) }, ?_, rfl, rfl, rfl, rfl, rfl, ?_, ?_⟩
  · unfold doJumpSrc
    rw [bind_run]
    simp only [getPtr]
    rw [asS_small _ (show σ.insnPtr < 2 ^ 63 by omega), bind_run, addS_run, if_pos hr]
    rfl
  · show asU 64 _ < 2 ^ 64
    unfold asU; omega
  · show (if _ then 2 ^ 63 ≤ asU 64 _ else _)
    unfold asU
    split
    · omega
    · rename_i hn
      have e : (((σ.insnPtr : Int) + insn.off.toInt) % 2 ^ 64).toNat = ((σ.insnPtr : Int) + insn.off.toInt).toNat := by omega
      rw [e]
      simp only [Interp.jumpTo, hn, if_false]
      rfl

/-! ## the header of an iteration -/

/-- the locals after the header: the frame size of a function entry recorded, `insn_ptr` advanced -/
def hdr (env : Env) (σ : St) : St :=
  { (if σ.idx < 8 then
      match env.usage σ.insnPtr with
      | some u => { σ with stacks := σ.stacks.setIfInBounds σ.idx { (σ.stacks[σ.idx]?).getD default with stackUsage := u } }
      | none => σ
     else σ) with insnPtr := σ.insnPtr + 1 }

theorem header_none (env : Env) (σ : St) (hg : getInsn? env.prog σ.insnPtr = none) : headerSrc env σ = .panic := by
  simp only [headerSrc, bind_run, getPtr, getInsn_run, hg]

theorem header_some (env : Env) (σ : St) (insn : Insn) (hg : getInsn? env.prog σ.insnPtr = some insn)
    (hp : σ.insnPtr + 1 < 2 ^ 64) : headerSrc env σ = .ok insn (hdr env σ) := by
  simp only [headerSrc, bind_run, getPtr, getInsn_run, hg, getIdx, decide_eq_true_eq]
  by_cases h8 : σ.idx < 8
  · cases hu : env.usage σ.insnPtr with
    | none => simp only [h8, if_true, bind_run, getPtr, addU_run, hp, setPtr, pure_run, hdr, hu]
    | some u =>
      simp only [h8, if_true, bind_run, getPtr, getIdx, setStackUsage, modFrame_run _ _ _ h8, addU_run, hp, setPtr, pure_run, hdr, hu,
        Vector.getElem?_eq_getElem h8, Option.getD_some]
  · simp only [h8, if_false, bind_run, getPtr, addU_run, hp, if_true, setPtr, pure_run, hdr]

/-! ## the abstraction -/

theorem abs_depth (σ : St) : (abs σ).depth = σ.idx := by
  simp only [abs, State.depth, List.length_map, List.length_reverse, List.length_range]

/-- `abs` sees the array of frames only through `frameOf` (below the index) and the frame sizes -/
theorem abs_congr (σ σ' : St) (hr : σ'.reg = σ.reg) (hi : σ'.idx = σ.idx) (hm : σ'.mem = σ.mem) (hl : σ'.log = σ.log)
    (hf : ∀ k, k < σ.idx → frameOf σ' k = frameOf σ k) :
    abs σ' = { abs σ with pc := σ'.insnPtr, usage := σ'.stacks.map (·.stackUsage) } := by
  simp only [abs, hr, hi, hm, hl]
  congr 1
  apply List.map_congr_left
  intro k hk
  simp only [List.mem_reverse, List.mem_range] at hk
  exact hf k hk

/-- recording a frame size changes no `frameOf` -/
theorem frameOf_setUsage (σ σ' : St) (i u : Nat)
    (hs : σ'.stacks = σ.stacks.setIfInBounds i { (σ.stacks[i]?).getD default with stackUsage := u }) (k : Nat) :
    frameOf σ' k = frameOf σ k := by
  simp only [frameOf, hs, Vector.getElem?_setIfInBounds]
  by_cases hik : i = k
  · subst hik
    by_cases h8 : i < 8
    · simp only [if_true, h8, Option.getD_some]
    · have : σ.stacks[i]? = none := by simp only [Vector.getElem?_eq_none_iff]; omega
      simp only [if_true, h8, if_false, this]
  · simp only [hik, if_false]

theorem abs_hdr (env : Env) (σ : St) :
    abs (hdr env σ) =
      { (if (abs σ).depth < 8 then
          match env.usage (abs σ).pc with
          | some u => { abs σ with usage := (abs σ).usage.setIfInBounds (abs σ).depth u }
          | none => abs σ
         else abs σ) with pc := (abs σ).pc + 1 } := by
  rw [abs_depth]
  show _ = { (if σ.idx < 8 then (match env.usage σ.insnPtr with
      | some u => { abs σ with usage := (abs σ).usage.setIfInBounds σ.idx u } | none => abs σ) else abs σ) with pc := σ.insnPtr + 1 }
  unfold hdr
  by_cases h8 : σ.idx < 8
  · cases hu : env.usage σ.insnPtr with
    | none => simp only [h8, if_true]; rfl
    | some u =>
      simp only [h8, if_true]
      rw [abs_congr σ { σ with stacks := σ.stacks.setIfInBounds σ.idx { (σ.stacks[σ.idx]?).getD default with stackUsage := u },
                               insnPtr := σ.insnPtr + 1 } rfl rfl rfl rfl
        (fun k _ => frameOf_setUsage σ _ σ.idx u rfl k)]
      simp only [Vector.map_setIfInBounds]
      rfl
  · simp only [h8, if_false]; rfl

/-! ## `lddw` -/

theorem asU32_toInt (x : BitVec 32) : asU 32 x.toInt = x.toNat := by
  have := x.isLt
  unfold asU; rw [BitVec.toInt_eq_toNat_cond]; split <;> omega

theorem asU64_toInt (x : BitVec 32) : asU 64 x.toInt = (Interp.sx32 x).toNat := by
  have := x.isLt
  unfold asU Interp.sx32
  rw [BitVec.toInt_eq_toNat_cond, BitVec.toNat_signExtend, BitVec.msb_eq_decide, BitVec.toNat_setWidth]
  by_cases h : 2 ^ (32 - 1) ≤ x.toNat
  · simp only [h, decide_true, if_true]; split <;> omega
  · simp only [h, decide_false, Bool.false_eq_true, if_false]; split <;> omega

theorem lddw_lt (imm nimm : BitVec 32) : asU 32 imm.toInt + shlU 64 (asU 64 nimm.toInt) 32 < 2 ^ 64 := by
  have := imm.isLt
  rw [asU32_toInt, asU64_toInt]; unfold shlU; omega

theorem lddw_val (imm nimm : BitVec 32) :
    BitVec.ofNat 64 (asU 32 imm.toInt + shlU 64 (asU 64 nimm.toInt) 32) =
      Interp.zx32 imm + (Interp.sx32 nimm <<< (32 : Nat)) := by
  apply BitVec.eq_of_toNat_eq
  rw [asU32_toInt, asU64_toInt]
  simp only [shlU, BitVec.toNat_ofNat, BitVec.toNat_add, BitVec.toNat_shiftLeft, Nat.shiftLeft_eq, Interp.zx32,
    BitVec.toNat_setWidth]
  have := imm.isLt
  omega

end Rbpf.Src
