/- Lemmas for Props/InterpCtl.lean (the translated control skeleton of the interpreter against `Interp.step`). -/
import RbpfModel.Lemmas.InterpCtlDefs
namespace Rbpf.Src
open Rbpf.Generated Rbpf.Generated.Ctl

theorem stepSrc_rel (env : Env) (σ : St) (hsz : env.prog.size < 2 ^ 63) (h : Inv σ) :
    RelOut (stepSrc env σ) (Interp.step env (abs σ)) := by
  sorry

theorem stepSrc_wrapped (env : Env) (σ : St) (h : 2 ^ 63 ≤ σ.insnPtr) : stepSrc env σ = .panic := by
  sorry

theorem doJumpSrc_rel (insn : Insn) (σ : St) (h : σ.insnPtr < 2 ^ 62) :
    ∃ σ', doJumpSrc insn σ = .ok () σ' ∧ σ'.reg = σ.reg ∧ σ'.idx = σ.idx ∧ σ'.stacks = σ.stacks ∧ σ'.mem = σ.mem ∧ σ'.log = σ.log ∧
      σ'.insnPtr < 2 ^ 64 ∧
      (if (σ.insnPtr : Int) + insn.off.toInt < 0 then 2 ^ 63 ≤ σ'.insnPtr
       else Interp.jumpTo (abs σ) ((σ.insnPtr : Int) + insn.off.toInt) = .next (abs σ')) := by
  sorry

theorem runSrc_rel (env : Env) (σ : St) (hsz : env.prog.size < 2 ^ 63) (h : Inv σ) (fuel : Nat)
    (hm : ∀ s, Interp.run env (abs σ) fuel ≠ .timeout s) :
    RelRes (runSrc env σ (fuel + 1)) (Interp.run env (abs σ) fuel) := by
  sorry

theorem initSrc_abs (m : Memory) : abs (initSrc m) = Interp.init m ∧ Inv (initSrc m) := by
  sorry

end Rbpf.Src
