/- Lemmas for Props/InterpCtl.lean (the translated control skeleton of the interpreter against `Interp.step`).
   The work is in `InterpCtlAux1.lean` (the 119 data arms and the unknown opcodes of the model) and `InterpCtlAux2.lean` (running the
   translated code). -/
import RbpfModel.Lemmas.InterpCtlDefs
import RbpfModel.Lemmas.InterpCtlAux2
namespace Rbpf.Src
open Rbpf.Generated Rbpf.Generated.Ctl

theorem stepSrc_rel (env : Env) (σ : St) (hsz : env.prog.size < 2 ^ 63) (h : Inv σ) :
    RelOut (stepSrc env σ) (Interp.step env (abs σ)) := stepSrc_rel' env σ hsz h

theorem stepSrc_wrapped (env : Env) (σ : St) (h : 2 ^ 63 ≤ σ.insnPtr) : stepSrc env σ = .panic := stepSrc_wrapped' env σ h

theorem doJumpSrc_rel (insn : Insn) (σ : St) (h : σ.insnPtr < 2 ^ 62) :
    ∃ σ', doJumpSrc insn σ = .ok () σ' ∧ σ'.reg = σ.reg ∧ σ'.idx = σ.idx ∧ σ'.stacks = σ.stacks ∧ σ'.mem = σ.mem ∧ σ'.log = σ.log ∧
      σ'.insnPtr < 2 ^ 64 ∧
      (if (σ.insnPtr : Int) + insn.off.toInt < 0 then 2 ^ 63 ≤ σ'.insnPtr
       else Interp.jumpTo (abs σ) ((σ.insnPtr : Int) + insn.off.toInt) = .next (abs σ')) := doJumpSrc_rel' insn σ h

theorem runSrc_rel (env : Env) (σ : St) (hsz : env.prog.size < 2 ^ 63) (h : Inv σ) (fuel : Nat)
    (hm : ∀ s, Interp.run env (abs σ) fuel ≠ .timeout s) :
    RelRes (runSrc env σ (fuel + 1)) (Interp.run env (abs σ) fuel) := by
  induction fuel generalizing σ with
  | zero => exact absurd rfl (hm (abs σ))
  | succ n ih =>
    have hr := stepSrc_rel env σ hsz h
    rw [runSrc]
    rw [Interp.run] at hm ⊢
    cases hs : stepSrc env σ with
    | ok u σ' =>
      rw [hs] at hr
      rcases hr with ⟨ho, hi⟩ | ⟨ho, hw⟩
      · rw [ho] at hm ⊢
        exact ih σ' hi hm
      · rw [ho]
        simp only [runSrc, stepSrc_wrapped env σ' hw]
        rfl
    | done r σ' => rw [hs] at hr; rw [show Interp.step env (abs σ) = _ from hr]; rfl
    | err e σ' => rw [hs] at hr; rw [show Interp.step env (abs σ) = _ from hr]; rfl
    | panic => rw [hs] at hr; rw [show Interp.step env (abs σ) = _ from hr]; rfl
    | fault => rw [hs] at hr; rw [show Interp.step env (abs σ) = _ from hr]; rfl

theorem initSrc_abs (m : Memory) : abs (initSrc m) = Interp.init m ∧ Inv (initSrc m) := initSrc_abs' m

end Rbpf.Src
