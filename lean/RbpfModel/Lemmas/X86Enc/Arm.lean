/-
  Byte level = instruction level, arm by arm: whatever `JitEmit.arm` appends to the code buffer is an encoding
  (`JitEnc.Enc`) of the instruction list `JitAst.arm` gives for the same eBPF instruction, with the same slot count,
  and the jumps it records are exactly the holes of that encoding.  Same for the prologue and the epilogue.

  `arm_enc` is assembled from the three class lemmas (`ArmAlu`, `ArmMulDivJump`, `ArmMem`) and, for the opcodes outside
  the classes (call, tail call, exit, unknown bytes), from `ArmRest`; `arm_err` from the error classification there.
-/
import RbpfModel.Model.JitEnc
import RbpfModel.Lemmas.X86Enc.ArmAlu
import RbpfModel.Lemmas.X86Enc.ArmMulDivJump
import RbpfModel.Lemmas.X86Enc.ArmMem
import RbpfModel.Lemmas.X86Enc.ArmRest
namespace Rbpf.JitEnc
open Rbpf.X86 (Instr Cc decode ccOf)
open Rbpf.JitAst (AI Tgt)
open Rbpf.JitEmit (Em Fail)

/-- `Emits` spelled out in the order the statements below use -/
theorem renc_of_emits {e e' : Em} {haddr : Nat → Option Nat} {pc n : Nat} {i : Insn} {nx : Option Insn}
    (h : ∃ ais, JitAst.arm haddr pc i nx = .ok (ais, n) ∧ Emits e e' ais) :
    ∃ ais bs holes, JitAst.arm haddr pc i nx = .ok (ais, n) ∧ Enc ais bs holes ∧ Appends e e' bs holes := by
  obtain ⟨ais, h1, bs, holes, h2, h3⟩ := h
  exact ⟨ais, bs, holes, h1, h2, h3⟩

/-- the opcodes outside the three classes -/
theorem renc_arm_enc_rest (e e' : Em) (haddr : Nat → Option Nat) (pc n : Nat) (i : Insn) (nx : Option Insn)
    (hh : ∀ k a, haddr k = some a → a < 2 ^ 64)
    (hk : i.opc.toNat = 0x85 ∨ i.opc.toNat = 0x8d ∨ i.opc.toNat = 0x95 ∨ i.opc.toNat ∉ renc_known)
    (h : JitEmit.arm e haddr pc i nx = .ok (e', n)) :
    ∃ ais, JitAst.arm haddr pc i nx = .ok (ais, n) ∧ Emits e e' ais := by
  obtain ⟨d, s, hd, hs⟩ := prim_arm_regs h
  obtain ⟨rfl, ais, H⟩ := renc_emit_rest_ok e e' haddr pc n i nx d s hd hs hk h
  refine ⟨ais, renc_ast_rest_ok e e' haddr pc i nx d s ais hd hs H, ?_⟩
  rcases H with ⟨_, _, addr, ha, rfl, rfl⟩ | ⟨_, _, _, rfl, rfl⟩ | ⟨_, rfl, rfl⟩
  · exact prim_emits_helperCall e addr (hh _ _ ha)
  · exact prim_emits_localCall e _
  · exact prim_emits_ret e

theorem arm_enc (e e' : Em) (haddr : Nat → Option Nat) (pc n : Nat) (i : Insn) (nx : Option Insn)
    (hh : ∀ k a, haddr k = some a → a < 2 ^ 64)         -- helper addresses are 64-bit values
    (h : JitEmit.arm e haddr pc i nx = .ok (e', n)) :
    ∃ ais bs holes, JitAst.arm haddr pc i nx = .ok (ais, n) ∧ Enc ais bs holes ∧ Appends e e' bs holes := by
  apply renc_of_emits
  rcases renc_opc_cases i.opc with hc | hc | hc | hc | hc | hc | hc
  · exact arm_enc_alu e e' haddr pc n i nx hc h
  · exact arm_enc_muldivjump e e' haddr pc n i nx hc h
  · exact arm_enc_mem e e' haddr pc n i nx hc h
  · exact renc_arm_enc_rest e e' haddr pc n i nx hh (Or.inl hc) h
  · exact renc_arm_enc_rest e e' haddr pc n i nx hh (Or.inr (Or.inl hc)) h
  · exact renc_arm_enc_rest e e' haddr pc n i nx hh (Or.inr (Or.inr (Or.inl hc))) h
  · exact renc_arm_enc_rest e e' haddr pc n i nx hh (Or.inr (Or.inr (Or.inr hc))) h

/-- and the two descriptions fail together -/
theorem arm_err (e : Em) (haddr : Nat → Option Nat) (pc : Nat) (i : Insn) (nx : Option Insn) (f : Fail)
    (h : JitEmit.arm e haddr pc i nx = .error f) : JitAst.arm haddr pc i nx = .error f := by
  cases hd : JitEmit.mapRegister? i.dst.toNat with
  | none =>
    unfold JitEmit.arm at h
    unfold JitAst.arm
    simp only [hd] at h ⊢
    cases h; rfl
  | some d =>
    cases hs : JitEmit.mapRegister? i.src.toNat with
    | none =>
      unfold JitEmit.arm at h
      unfold JitAst.arm
      simp only [hd, hs] at h ⊢
      cases h; rfl
    | some s => exact renc_ast_err haddr pc i nx f d s hd hs (renc_emit_err_cases e haddr pc i nx f d s hd hs h)

theorem prologue_enc (um ud : Bool) :
    ∃ bs holes, Enc (JitAst.prologue um ud) bs holes ∧ Appends {} (JitEmit.prologue um ud) bs holes :=
  prim_emits_prologue um ud

theorem epilogue_enc (e : Em) :
    ∃ bs holes, Enc JitAst.epilogue bs holes ∧
      Appends { e with exitAnchor := some e.code.size } (JitEmit.epilogue e) bs holes :=
  prim_emits_epilogue e

end Rbpf.JitEnc
