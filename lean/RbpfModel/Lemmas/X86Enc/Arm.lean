/-
  Byte level = instruction level, arm by arm: whatever `JitEmit.arm` appends to the code buffer is an encoding
  (`JitEnc.Enc`) of the instruction list `JitAst.arm` gives for the same eBPF instruction, with the same slot count,
  and the jumps it records are exactly the holes of that encoding.  Same for the prologue and the epilogue.
-/
import RbpfModel.Model.JitEnc
namespace Rbpf.JitEnc
open Rbpf.X86 (Instr Cc decode ccOf)
open Rbpf.JitAst (AI Tgt)
open Rbpf.JitEmit (Em Fail)

theorem arm_enc (e e' : Em) (haddr : Nat → Option Nat) (pc n : Nat) (i : Insn) (nx : Option Insn)
    (hh : ∀ k a, haddr k = some a → a < 2 ^ 64)         -- helper addresses are 64-bit values
    (h : JitEmit.arm e haddr pc i nx = .ok (e', n)) :
    ∃ ais bs holes, JitAst.arm haddr pc i nx = .ok (ais, n) ∧ Enc ais bs holes ∧ Appends e e' bs holes := by
  sorry

/-- and the two descriptions fail together -/
theorem arm_err (e : Em) (haddr : Nat → Option Nat) (pc : Nat) (i : Insn) (nx : Option Insn) (f : Fail)
    (h : JitEmit.arm e haddr pc i nx = .error f) : JitAst.arm haddr pc i nx = .error f := by
  sorry

theorem prologue_enc (um ud : Bool) :
    ∃ bs holes, Enc (JitAst.prologue um ud) bs holes ∧ Appends {} (JitEmit.prologue um ud) bs holes := by
  sorry

theorem epilogue_enc (e : Em) :
    ∃ bs holes, Enc JitAst.epilogue bs holes ∧
      Appends { e with exitAnchor := some e.code.size } (JitEmit.epilogue e) bs holes := by
  sorry

end Rbpf.JitEnc
