/-
  The emitter loop `JitEmit.body` follows the same traversal as `JitAst.sweep`; what it appends is a chain of
  encoded pieces, one per instruction start, and it records each piece's start offset in `pcLocs`.
-/
import RbpfModel.Lemmas.X86Enc.Arm
import RbpfModel.Lemmas.X86Enc.LayoutPatch
set_option linter.unusedSimpArgs false
namespace Rbpf.JitEnc
open Rbpf.X86 (Instr Cc decode ccOf)
open Rbpf.JitAst (AI Tgt sweep)
open Rbpf.JitEmit (Em Fail)

/-- the slot count of an arm: 2 for the wide load, 1 otherwise -/
theorem lay_arm_n (haddr : Nat → Option Nat) (pc : Nat) (i : Insn) (nx : Option Insn) (ais : List AI) (n : Nat)
    (h : JitAst.arm haddr pc i nx = .ok (ais, n)) : n = (if i.opc = 0x18 then 2 else 1) := by
  have hif : (if i.opc = 0x18 then 2 else 1) = (if i.opc.toNat = 0x18 then 2 else 1) := by
    by_cases h : i.opc = 0x18
    · rw [if_pos h, h]; rfl
    · rw [if_neg h, if_neg]
      intro h'; exact h (BitVec.eq_of_toNat_eq (by rw [h']; rfl))
  rw [hif]
  unfold JitAst.arm at h
  split at h
  · simp at h
  · simp at h
  · simp only [] at h
    split at h
    all_goals try (rename_i heq; rw [heq])
    all_goals try (split at h)
    all_goals try (split at h)
    all_goals try (split at h)
    all_goals try (simp only [Except.ok.injEq, Prod.mk.injEq, reduceCtorEq] at h)
    all_goals try (obtain ⟨h1, rfl⟩ := h; decide)

/-- the location the checker expects an arm that ends at slot `k` to end at -/
def lay_locOf (p : Bytes) (e : Em) (k : Nat) : Option Nat := if k * 8 < p.size then e.pcLocs[k]? else some e.code.size

theorem lay_sweep_succ (p : Bytes) (fuel pc : Nat) (i : Insn) (hpc : pc * 8 < p.size) (hi : getInsn? p pc = some i) :
    sweep p (fuel + 1) pc = (pc, i) :: sweep p fuel (pc + (if i.opc = 0x18 then 2 else 1)) := by
  rw [sweep, if_pos hpc, hi]

theorem lay_body (p : Bytes) (haddr : Nat → Option Nat) (hh : ∀ k a, haddr k = some a → a < 2 ^ 64) :
    ∀ (fuel pc : Nat) (e ef : Em), JitEmit.body p haddr fuel pc e = .ok ef →
      p.size / 8 + 1 ≤ fuel + pc → e.pcLocs.size = p.size / 8 + 1 →
      (∀ (k v : Nat), e.pcLocs[k]? = some v → v ≤ e.code.size) →
      ∃ ps, lay_Chain e.code.size ps ∧
        ef.code = e.code ++ ((lay_bytes ps).map UInt8.ofNat).toArray ∧
        ef.jumps = e.jumps ++ (lay_jumps ps).toArray ∧
        ef.exitAnchor = e.exitAnchor ∧ ef.pcLocs.size = e.pcLocs.size ∧
        (∀ k : Nat, k < pc → ef.pcLocs[k]? = e.pcLocs[k]?) ∧
        (pc * 8 < p.size → ef.pcLocs[pc]? = some e.code.size) ∧
        (¬ pc * 8 < p.size → ef.code.size = e.code.size) ∧
        (∀ (k v : Nat), ef.pcLocs[k]? = some v → v ≤ ef.code.size) ∧
        ∀ x ∈ sweep p fuel pc, ∃ s ∈ ps, ∃ n, JitAst.arm haddr x.1 x.2 (getInsn? p (x.1 + 1)) = .ok (s.ais, n) ∧
          ef.pcLocs[x.1]? = some s.a ∧ lay_locOf p ef (x.1 + n) = some (s.a + s.bs.length) := by
  intro fuel
  induction fuel with
  | zero =>
    intro pc e ef h hfuel hsz hb
    simp only [JitEmit.body, Except.ok.injEq] at h
    subst h
    refine ⟨[], trivial, by simp [lay_bytes], by simp [lay_jumps], rfl, rfl, fun _ _ => rfl, ?_, fun _ => rfl, hb, by simp [sweep]⟩
    intro hpc; exfalso; omega
  | succ fuel ih =>
    intro pc e ef h hfuel hsz hb
    rw [JitEmit.body] at h
    by_cases hpc : pc * 8 < p.size
    · rw [if_pos hpc] at h
      cases hi : getInsn? p pc with
      | none => rw [hi] at h; cases h
      | some i =>
        rw [hi] at h
        simp only at h
        generalize he1 : ({ e with pcLocs := e.pcLocs.setIfInBounds pc e.code.size } : Em) = e1 at h
        cases harm : JitEmit.arm e1 haddr pc i (getInsn? p (pc + 1)) with
        | error f => rw [harm] at h; cases h
        | ok r =>
          obtain ⟨e2, n⟩ := r
          rw [harm] at h
          simp only at h
          obtain ⟨ais, bs, holes, hast, henc, happ⟩ := arm_enc e1 e2 haddr pc n i _ hh harm
          have hn := lay_arm_n haddr pc i _ ais n hast
          have hn1 : 1 ≤ n := by rw [hn]; split <;> omega
          obtain ⟨hc2, hj2, hp2, hx2⟩ := happ
          have he1c : e1.code = e.code := by rw [← he1]
          have he1j : e1.jumps = e.jumps := by rw [← he1]
          have he1x : e1.exitAnchor = e.exitAnchor := by rw [← he1]
          have he1p : e1.pcLocs = e.pcLocs.setIfInBounds pc e.code.size := by rw [← he1]
          have hpcsz : pc < e.pcLocs.size := by omega
          have hsize2 : e2.code.size = e.code.size + bs.length := by rw [hc2, he1c]; simp
          have hp2get : ∀ k : Nat, e2.pcLocs[k]? = if pc = k then some e.code.size else e.pcLocs[k]? := by
            intro k
            rw [hp2, he1p, Array.getElem?_setIfInBounds]
            by_cases hk : pc = k
            · rw [if_pos hk, if_pos hk, if_pos (hk ▸ hpcsz)]
            · rw [if_neg hk, if_neg hk]
          obtain ⟨ps, hch, hcode, hjumps, hexit, hpsz, hkeep, hhere, hstop, hbound, hall⟩ :=
            ih (pc + n) e2 ef h (by omega) (by rw [hp2, he1p, Array.size_setIfInBounds]; exact hsz) (by
              intro k v hkv
              rw [hp2get] at hkv
              by_cases hk : pc = k
              · rw [if_pos hk] at hkv; cases hkv; omega
              · rw [if_neg hk] at hkv; have := hb k v hkv; omega)
          refine ⟨⟨e.code.size, ais, bs, holes⟩ :: ps, ⟨rfl, henc, by rw [← hsize2]; exact hch⟩, ?_, ?_, by rw [hexit, hx2, he1x],
            by rw [hpsz, hp2, he1p, Array.size_setIfInBounds], ?_, ?_, fun h => absurd hpc h, hbound, ?_⟩
          · rw [hcode, hc2, he1c]; simp [lay_bytes]
          · rw [hjumps, hj2, he1j, he1c]; simp [lay_jumps, lay_abs]
          · intro k hk
            rw [hkeep k (by omega), hp2get, if_neg (by omega)]
          · intro _
            rw [hkeep pc (by omega), hp2get, if_pos rfl]
          · intro x hx
            rw [lay_sweep_succ p fuel pc i hpc hi, ← hn] at hx
            rcases List.mem_cons.1 hx with rfl | hx
            · refine ⟨_, List.mem_cons_self, n, hast, ?_, ?_⟩
              · rw [hkeep pc (by omega), hp2get, if_pos rfl]
              · simp only [lay_locOf]
                by_cases hnx : (pc + n) * 8 < p.size
                · rw [if_pos hnx, hhere hnx, hsize2]
                · rw [if_neg hnx, hstop hnx, hsize2]
            · obtain ⟨s, hs, hrest⟩ := hall x hx
              exact ⟨s, List.mem_cons_of_mem _ hs, hrest⟩
    · rw [if_neg hpc] at h
      simp only [Except.ok.injEq] at h
      subst h
      refine ⟨[], trivial, by simp [lay_bytes], by simp [lay_jumps], rfl, rfl, fun _ _ => rfl, fun h => absurd h hpc, fun _ => rfl, hb, ?_⟩
      simp [sweep, hpc]

end Rbpf.JitEnc
