/-
  `checkSeq` on a patched segment: the decoder consumes at most 15 bytes, the window at an offset is the next
  15 bytes, jump blocks decode to their rel32, and a segment `PEnc` (an encoding whose hole fields hold the
  rel32 of their targets' locations) placed at offset `a` in a code buffer passes `checkSeq`.
-/
import RbpfModel.Model.JitEnc
namespace Rbpf.JitEnc
open Rbpf.X86 (Instr Cc decode ccOf le32 Pfx memOperand decodeOp)
open Rbpf.JitAst (AI Tgt checkSeq window)
open Rbpf.JitEmit (u32)

theorem lay_ite {α : Type} {c : Prop} [Decidable c] {a b : Option α} {v : α} {P : Prop}
    (h : (if c then a else b) = some v) (h1 : c → a = some v → P) (h2 : ¬c → b = some v → P) : P := by
  by_cases hc : c
  · rw [if_pos hc] at h; exact h1 hc h
  · rw [if_neg hc] at h; exact h2 hc h

theorem lay_memOperand_le (p : Pfx) (m : Nat) (rest : List Nat) (b : Nat) (d : Int) (k : Nat)
    (h : memOperand p m rest = some (b, d, k)) : k ≤ 4 := by
  unfold memOperand at h
  simp only at h
  repeat' split at h
  all_goals first | (simp at h; done) | (simp at h; omega)

set_option hygiene false in
macro "lay_step" : tactic =>
  `(tactic| first | (refine lay_ite h ?_ ?_ <;> clear h <;> intro hc h) | split at h)

theorem lay_decodeOp_le (p : Pfx) (n0 : Nat) (bs : List Nat) (x : Instr) (n : Nat)
    (h : decodeOp p n0 bs = some (x, n)) : n ≤ n0 + 10 := by
  unfold decodeOp at h
  simp only at h
  repeat' lay_step
  all_goals first
    | (cases h; done)
    | (simp only [Option.some.injEq, Prod.mk.injEq] at h; omega)
    | (have := lay_memOperand_le _ _ _ _ _ _ (by assumption); simp only [Option.some.injEq, Prod.mk.injEq] at h; omega)
    | trace_state

theorem lay_decode_le (bs : List Nat) (x : Instr) (n : Nat) (h : decode bs = some (x, n)) : n ≤ 15 := by
  unfold decode at h
  simp only at h
  repeat' lay_step
  all_goals first
    | (cases h; done)
    | (have := lay_decodeOp_le _ _ _ _ _ h; simp only at this; omega)
    | trace_state

theorem lay_ccOf (ccb : Nat) (cc : Cc) (h : ccOf ccb = some cc) :
    ccb = 0x82 ∨ ccb = 0x83 ∨ ccb = 0x84 ∨ ccb = 0x85 ∨ ccb = 0x86 ∨ ccb = 0x87 ∨ ccb = 0x8c ∨ ccb = 0x8d ∨ ccb = 0x8e ∨ ccb = 0x8f := by
  unfold ccOf at h
  split at h <;> simp_all

theorem lay_decode_jmp (p0 p1 p2 p3 : Nat) (tail : List Nat) :
    decode (0xe9 :: p0 :: p1 :: p2 :: p3 :: tail) = some (.jmp (le32 p0 p1 p2 p3), 5) := by
  simp [decode, decodeOp, Pfx.x]

theorem lay_decode_call (p0 p1 p2 p3 : Nat) (tail : List Nat) :
    decode (0xe8 :: p0 :: p1 :: p2 :: p3 :: tail) = some (.call (le32 p0 p1 p2 p3), 5) := by
  simp [decode, decodeOp, Pfx.x]

theorem lay_decode_jcc (ccb : Nat) (cc : Cc) (h : ccOf ccb = some cc) (p0 p1 p2 p3 : Nat) (tail : List Nat) :
    decode (0x0f :: ccb :: p0 :: p1 :: p2 :: p3 :: tail) = some (.jcc cc (le32 p0 p1 p2 p3), 6) := by
  rcases lay_ccOf ccb cc h with h' | h' | h' | h' | h' | h' | h' | h' | h' | h' <;> subst h' <;>
    simp [ccOf] at h <;> subst h <;> simp [decode, decodeOp, Pfx.x, ccOf]

theorem lay_range_filterMap (R : List Nat) (n : Nat) :
    (List.range n).filterMap (fun k => R[k]?) = R.take n := by
  induction n with
  | zero => simp
  | succ n ih =>
    rw [List.range_succ, List.filterMap_append, ih, List.take_add_one]
    cases h : R[n]? <;> simp [h]

theorem lay_window (C : Array UInt8) (X R : List Nat) (h : C.toList.map (·.toNat) = X ++ R) :
    window C X.length = R.take 15 := by
  unfold window
  rw [← lay_range_filterMap]
  have hf : (fun k => (C[X.length + k]?).map (·.toNat)) = (fun k => R[k]?) := by
    funext k
    have : (C.toList.map (·.toNat))[X.length + k]? = R[k]? := by
      rw [h, List.getElem?_append_right (Nat.le_add_right _ _), Nat.add_sub_cancel_left]
    rw [← this]
    simp
  rw [hf]

def lay_le4 (r : Nat) : List Nat := [r % 256, (r >>> 8) % 256, (r >>> 16) % 256, (r >>> 24) % 256]

theorem lay_le32 (r : Nat) :
    le32 (r % 256) ((r >>> 8) % 256) ((r >>> 16) % 256) ((r >>> 24) % 256) = BitVec.ofNat 32 r := by
  unfold le32
  apply BitVec.eq_of_toNat_eq
  simp only [BitVec.toNat_ofNat, Nat.shiftRight_eq_div_pow]
  omega

theorem lay_rel_toInt (v : Int) (h1 : -2 ^ 31 ≤ v) (h2 : v < 2 ^ 31) : (BitVec.ofNat 32 (u32 v)).toInt = v := by
  unfold u32
  rw [BitVec.toInt_eq_toNat_cond]
  simp only [BitVec.toNat_ofNat]
  omega

/-- the symbolic jump targets occurring in an instruction list (same as `targetsOf` of `Layout.lean`) -/
def lay_targets : List AI → List Tgt
  | [] => []
  | .i _ :: r => lay_targets r
  | .jcc _ t :: r => t :: lay_targets r
  | .jmp t :: r => t :: lay_targets r
  | .call t :: r => t :: lay_targets r

/-- `bs` encodes `ais` placed at offset `a`, every hole field holding the rel32 to the location `tl` gives its target -/
inductive PEnc (tl : Tgt → Option Nat) : Nat → List AI → List Nat → Prop
  | nil (a : Nat) : PEnc tl a [] []
  | i (a : Nat) (x : Instr) (b1 : List Nat) (ais : List AI) (bs : List Nat) :
      (∀ tail, decode (b1 ++ tail) = some (x, b1.length)) → (∀ v ∈ b1, v < 256) → PEnc tl (a + b1.length) ais bs →
      PEnc tl a (.i x :: ais) (b1 ++ bs)
  | jcc (a : Nat) (cc : Cc) (ccb : Nat) (t : Tgt) (l : Nat) (ais : List AI) (bs : List Nat) :
      ccOf ccb = some cc → tl t = some l → PEnc tl (a + 6) ais bs →
      PEnc tl a (.jcc cc t :: ais) ([0x0f, ccb] ++ lay_le4 (u32 ((l : Int) - ((a + 6 : Nat) : Int))) ++ bs)
  | jmp (a : Nat) (t : Tgt) (l : Nat) (ais : List AI) (bs : List Nat) :
      tl t = some l → PEnc tl (a + 5) ais bs →
      PEnc tl a (.jmp t :: ais) ([0xe9] ++ lay_le4 (u32 ((l : Int) - ((a + 5 : Nat) : Int))) ++ bs)
  | call (a : Nat) (t : Tgt) (l : Nat) (ais : List AI) (bs : List Nat) :
      tl t = some l → PEnc tl (a + 5) ais bs →
      PEnc tl a (.call t :: ais) ([0xe8] ++ lay_le4 (u32 ((l : Int) - ((a + 5 : Nat) : Int))) ++ bs)

theorem lay_le4_lt (r : Nat) : ∀ v ∈ lay_le4 r, v < 256 := by
  intro v hv
  simp only [lay_le4, List.mem_cons, List.not_mem_nil, or_false] at hv
  omega

theorem lay_PEnc_lt (tl : Tgt → Option Nat) (a : Nat) (ais : List AI) (bs : List Nat) (h : PEnc tl a ais bs) :
    ∀ v ∈ bs, v < 256 := by
  induction h with
  | nil => simp
  | i a x b1 ais bs hd hlt _ ih =>
    intro v hv; rcases List.mem_append.1 hv with hv | hv
    · exact hlt v hv
    · exact ih v hv
  | jcc a cc ccb t l ais bs hcc _ _ ih =>
    intro v hv
    simp only [List.append_assoc, List.mem_append, List.mem_cons, List.not_mem_nil, or_false] at hv
    rcases hv with (hv | hv) | hv | hv
    · omega
    · rcases lay_ccOf ccb cc hcc with h | h | h | h | h | h | h | h | h | h <;> omega
    · exact lay_le4_lt _ v hv
    · exact ih v hv
  | jmp a t l ais bs _ _ ih =>
    intro v hv
    simp only [List.append_assoc, List.mem_append, List.mem_cons, List.not_mem_nil, or_false] at hv
    rcases hv with hv | hv | hv
    · omega
    · exact lay_le4_lt _ v hv
    · exact ih v hv
  | call a t l ais bs _ _ ih =>
    intro v hv
    simp only [List.append_assoc, List.mem_append, List.mem_cons, List.not_mem_nil, or_false] at hv
    rcases hv with hv | hv | hv
    · omega
    · exact lay_le4_lt _ v hv
    · exact ih v hv

theorem lay_le4_le32 (r : Nat) (rest : List Nat) :
    ∃ p0 p1 p2 p3, lay_le4 r ++ rest = p0 :: p1 :: p2 :: p3 :: rest ∧ le32 p0 p1 p2 p3 = BitVec.ofNat 32 r :=
  ⟨_, _, _, _, rfl, lay_le32 r⟩

/-- a patched segment sitting at offset `X.length` of the buffer `C` passes `checkSeq`, ending after its last byte -/
theorem lay_checkSeq (C : Array UInt8) (tl tgt : Tgt → Option Nat) (hsz : C.size < 2 ^ 31)
    (a : Nat) (ais : List AI) (bs : List Nat) (h : PEnc tl a ais bs) :
    ∀ (X Y : List Nat), X.length = a → C.toList.map (·.toNat) = X ++ bs ++ Y →
      (∀ t ∈ lay_targets ais, ∀ l, tl t = some l → tgt t = some l ∧ l ≤ C.size) →
      checkSeq C tgt a ais = some (a + bs.length) := by
  induction h with
  | nil a => intro X Y _ _ _; simp [checkSeq]
  | i a x b1 ais bs hd hlt _ ih =>
    intro X Y hX hC ht
    have hlen : b1.length ≤ 15 := lay_decode_le _ _ _ (hd [])
    have hw : window C a = b1 ++ (bs ++ Y).take (15 - b1.length) := by
      rw [← hX, lay_window C X (b1 ++ (bs ++ Y)) (by rw [hC]; simp), List.take_append]
      rw [List.take_of_length_le hlen]
    unfold checkSeq
    rw [hw, hd]
    simp only [beq_self_eq_true, if_true]
    have := ih (X ++ b1) Y (by simp [hX]) (by rw [hC]; simp) (fun t ht' => ht t (by simpa [lay_targets] using ht'))
    rw [this]; simp; omega
  | jcc a cc ccb t l ais bs hcc htl _ ih =>
    intro X Y hX hC ht
    obtain ⟨p0, p1, p2, p3, hp, hle⟩ := lay_le4_le32 (u32 ((l : Int) - ((a + 6 : Nat) : Int))) (bs ++ Y)
    have hR : C.toList.map (·.toNat) = X ++ (0x0f :: ccb :: p0 :: p1 :: p2 :: p3 :: (bs ++ Y)) := by
      rw [hC, ← hp]; simp
    have hlenC : a + 6 ≤ C.size := by
      have := congrArg List.length hR
      simp at this; omega
    obtain ⟨htg, hl⟩ := ht t (by simp [lay_targets]) l htl
    have hw : window C a = 0x0f :: ccb :: p0 :: p1 :: p2 :: p3 :: (bs ++ Y).take 9 := by
      rw [← hX, lay_window C X _ hR]; simp [List.take]
    unfold checkSeq
    rw [hw, lay_decode_jcc ccb cc hcc]
    simp only [htg, hle]
    rw [lay_rel_toInt _ (by omega) (by omega)]
    have := ih (X ++ [0x0f, ccb] ++ lay_le4 (u32 ((l : Int) - ((a + 6 : Nat) : Int)))) Y (by simp [hX, lay_le4])
      (by rw [hC]; simp) (fun t ht' => ht t (by simp [lay_targets, ht']))
    simp [this, lay_le4]; omega
  | jmp a t l ais bs htl _ ih =>
    intro X Y hX hC ht
    obtain ⟨p0, p1, p2, p3, hp, hle⟩ := lay_le4_le32 (u32 ((l : Int) - ((a + 5 : Nat) : Int))) (bs ++ Y)
    have hR : C.toList.map (·.toNat) = X ++ (0xe9 :: p0 :: p1 :: p2 :: p3 :: (bs ++ Y)) := by
      rw [hC, ← hp]; simp
    have hlenC : a + 5 ≤ C.size := by
      have := congrArg List.length hR
      simp at this; omega
    obtain ⟨htg, hl⟩ := ht t (by simp [lay_targets]) l htl
    have hw : window C a = 0xe9 :: p0 :: p1 :: p2 :: p3 :: (bs ++ Y).take 10 := by
      rw [← hX, lay_window C X _ hR]; simp [List.take]
    unfold checkSeq
    rw [hw, lay_decode_jmp]
    simp only [htg, hle]
    rw [lay_rel_toInt _ (by omega) (by omega)]
    have := ih (X ++ [0xe9] ++ lay_le4 (u32 ((l : Int) - ((a + 5 : Nat) : Int)))) Y (by simp [hX, lay_le4])
      (by rw [hC]; simp) (fun t ht' => ht t (by simp [lay_targets, ht']))
    simp [this, lay_le4]; omega
  | call a t l ais bs htl _ ih =>
    intro X Y hX hC ht
    obtain ⟨p0, p1, p2, p3, hp, hle⟩ := lay_le4_le32 (u32 ((l : Int) - ((a + 5 : Nat) : Int))) (bs ++ Y)
    have hR : C.toList.map (·.toNat) = X ++ (0xe8 :: p0 :: p1 :: p2 :: p3 :: (bs ++ Y)) := by
      rw [hC, ← hp]; simp
    have hlenC : a + 5 ≤ C.size := by
      have := congrArg List.length hR
      simp at this; omega
    obtain ⟨htg, hl⟩ := ht t (by simp [lay_targets]) l htl
    have hw : window C a = 0xe8 :: p0 :: p1 :: p2 :: p3 :: (bs ++ Y).take 10 := by
      rw [← hX, lay_window C X _ hR]; simp [List.take]
    unfold checkSeq
    rw [hw, lay_decode_call]
    simp only [htg, hle]
    rw [lay_rel_toInt _ (by omega) (by omega)]
    have := ih (X ++ [0xe8] ++ lay_le4 (u32 ((l : Int) - ((a + 5 : Nat) : Int)))) Y (by simp [hX, lay_le4])
      (by rw [hC]; simp) (fun t ht' => ht t (by simp [lay_targets, ht']))
    simp [this, lay_le4]; omega

end Rbpf.JitEnc
