/-
  Toolkit for `arm_enc` (part 3): decode lemmas for the register forms.  Each is an enumeration over the hardware
  registers (< 16) checked by evaluation of `X86.decode` in the kernel (`kernel_rfl`), the tail, the immediate bytes
  and the displacement bytes staying symbolic.
-/
import RbpfModel.Lemmas.X86Enc.PrimBytes
namespace Rbpf.JitEnc
open Rbpf.X86 (Instr Cc AluOp ShOp decode ccOf le32 sext8 aluOfOpcode aluOfExt81 shOfExt)
open Rbpf.JitAst (AI Tgt)
open Rbpf.JitEmit

theorem prim_aluOfOpcode_cases {op : Nat} {a : AluOp} (h : aluOfOpcode op = some a) :
    (op = 0x01 ∧ a = .add) ∨ (op = 0x09 ∧ a = .or) ∨ (op = 0x21 ∧ a = .and) ∨ (op = 0x29 ∧ a = .sub) ∨
    (op = 0x31 ∧ a = .xor) ∨ (op = 0x39 ∧ a = .cmp) ∨ (op = 0x85 ∧ a = .test) ∨ (op = 0x89 ∧ a = .mov) := by
  unfold aluOfOpcode at h; split at h <;> simp_all

theorem prim_aluOfExt81_cases {x : Nat} {a : AluOp} (h : aluOfExt81 x = some a) :
    (x = 0 ∧ a = .add) ∨ (x = 1 ∧ a = .or) ∨ (x = 4 ∧ a = .and) ∨ (x = 5 ∧ a = .sub) ∨ (x = 6 ∧ a = .xor) ∨ (x = 7 ∧ a = .cmp) := by
  unfold aluOfExt81 at h; split at h <;> simp_all

theorem prim_shOfExt_cases {x : Nat} {s : ShOp} (h : shOfExt x = some s) :
    (x = 0 ∧ s = .rol) ∨ (x = 4 ∧ s = .shl) ∨ (x = 5 ∧ s = .shr) ∨ (x = 7 ∧ s = .sar) := by
  unfold shOfExt at h; split at h <;> simp_all

theorem prim_ccOf_cases {b : Nat} {cc : Cc} (h : ccOf b = some cc) :
    (b = 0x82 ∧ cc = .b) ∨ (b = 0x83 ∧ cc = .ae) ∨ (b = 0x84 ∧ cc = .e) ∨ (b = 0x85 ∧ cc = .ne) ∨ (b = 0x86 ∧ cc = .be) ∨
    (b = 0x87 ∧ cc = .a) ∨ (b = 0x8c ∧ cc = .l) ∨ (b = 0x8d ∧ cc = .ge) ∨ (b = 0x8e ∧ cc = .le) ∨ (b = 0x8f ∧ cc = .g) := by
  unfold ccOf at h; split at h <;> simp_all


-- push / pop
theorem prim_dec_push : ∀ r, r < 16 → ∀ tail, decode (bPush r ++ tail) = some (.push r, (bPush r).length) := by enum1
theorem prim_dec_pop : ∀ r, r < 16 → ∀ tail, decode (bPop r ++ tail) = some (.pop r, (bPop r).length) := by enum1

-- `op r/m, r` register forms
theorem prim_dec_aluRR_0_01 : ∀ s, s < 16 → ∀ d, d < 16 → ∀ tail,
    decode (bAlu 0 0x01 s d ++ tail) = some (.aluRR false .add s d, (bAlu 0 0x01 s d).length) := by enum2
theorem prim_dec_aluRR_1_01 : ∀ s, s < 16 → ∀ d, d < 16 → ∀ tail,
    decode (bAlu 1 0x01 s d ++ tail) = some (.aluRR true .add s d, (bAlu 1 0x01 s d).length) := by enum2
theorem prim_dec_aluRR_0_09 : ∀ s, s < 16 → ∀ d, d < 16 → ∀ tail,
    decode (bAlu 0 0x09 s d ++ tail) = some (.aluRR false .or s d, (bAlu 0 0x09 s d).length) := by enum2
theorem prim_dec_aluRR_1_09 : ∀ s, s < 16 → ∀ d, d < 16 → ∀ tail,
    decode (bAlu 1 0x09 s d ++ tail) = some (.aluRR true .or s d, (bAlu 1 0x09 s d).length) := by enum2
theorem prim_dec_aluRR_0_21 : ∀ s, s < 16 → ∀ d, d < 16 → ∀ tail,
    decode (bAlu 0 0x21 s d ++ tail) = some (.aluRR false .and s d, (bAlu 0 0x21 s d).length) := by enum2
theorem prim_dec_aluRR_1_21 : ∀ s, s < 16 → ∀ d, d < 16 → ∀ tail,
    decode (bAlu 1 0x21 s d ++ tail) = some (.aluRR true .and s d, (bAlu 1 0x21 s d).length) := by enum2
theorem prim_dec_aluRR_0_29 : ∀ s, s < 16 → ∀ d, d < 16 → ∀ tail,
    decode (bAlu 0 0x29 s d ++ tail) = some (.aluRR false .sub s d, (bAlu 0 0x29 s d).length) := by enum2
theorem prim_dec_aluRR_1_29 : ∀ s, s < 16 → ∀ d, d < 16 → ∀ tail,
    decode (bAlu 1 0x29 s d ++ tail) = some (.aluRR true .sub s d, (bAlu 1 0x29 s d).length) := by enum2
theorem prim_dec_aluRR_0_31 : ∀ s, s < 16 → ∀ d, d < 16 → ∀ tail,
    decode (bAlu 0 0x31 s d ++ tail) = some (.aluRR false .xor s d, (bAlu 0 0x31 s d).length) := by enum2
theorem prim_dec_aluRR_1_31 : ∀ s, s < 16 → ∀ d, d < 16 → ∀ tail,
    decode (bAlu 1 0x31 s d ++ tail) = some (.aluRR true .xor s d, (bAlu 1 0x31 s d).length) := by enum2
theorem prim_dec_aluRR_0_39 : ∀ s, s < 16 → ∀ d, d < 16 → ∀ tail,
    decode (bAlu 0 0x39 s d ++ tail) = some (.aluRR false .cmp s d, (bAlu 0 0x39 s d).length) := by enum2
theorem prim_dec_aluRR_1_39 : ∀ s, s < 16 → ∀ d, d < 16 → ∀ tail,
    decode (bAlu 1 0x39 s d ++ tail) = some (.aluRR true .cmp s d, (bAlu 1 0x39 s d).length) := by enum2
theorem prim_dec_aluRR_0_85 : ∀ s, s < 16 → ∀ d, d < 16 → ∀ tail,
    decode (bAlu 0 0x85 s d ++ tail) = some (.aluRR false .test s d, (bAlu 0 0x85 s d).length) := by enum2
theorem prim_dec_aluRR_1_85 : ∀ s, s < 16 → ∀ d, d < 16 → ∀ tail,
    decode (bAlu 1 0x85 s d ++ tail) = some (.aluRR true .test s d, (bAlu 1 0x85 s d).length) := by enum2
theorem prim_dec_aluRR_0_89 : ∀ s, s < 16 → ∀ d, d < 16 → ∀ tail,
    decode (bAlu 0 0x89 s d ++ tail) = some (.aluRR false .mov s d, (bAlu 0 0x89 s d).length) := by enum2
theorem prim_dec_aluRR_1_89 : ∀ s, s < 16 → ∀ d, d < 16 → ∀ tail,
    decode (bAlu 1 0x89 s d ++ tail) = some (.aluRR true .mov s d, (bAlu 1 0x89 s d).length) := by enum2

/-- `emit_alu32` (`w = 0`) / `emit_alu64` (`w = 1`) with one of the eight two-register opcodes -/
theorem prim_dec_aluRR (w op s d : Nat) (a : AluOp) (hw : w = 0 ∨ w = 1) (hop : aluOfOpcode op = some a) (hs : s < 16) (hd : d < 16)
    (tail : List Nat) : decode (bAlu w op s d ++ tail) = some (.aluRR (w == 1) a s d, (bAlu w op s d).length) := by
  rcases prim_aluOfOpcode_cases hop with ⟨rfl, rfl⟩ | ⟨rfl, rfl⟩ | ⟨rfl, rfl⟩ | ⟨rfl, rfl⟩ | ⟨rfl, rfl⟩ | ⟨rfl, rfl⟩ | ⟨rfl, rfl⟩ | ⟨rfl, rfl⟩
  · rcases hw with rfl | rfl
    · exact prim_dec_aluRR_0_01 s hs d hd tail
    · exact prim_dec_aluRR_1_01 s hs d hd tail
  · rcases hw with rfl | rfl
    · exact prim_dec_aluRR_0_09 s hs d hd tail
    · exact prim_dec_aluRR_1_09 s hs d hd tail
  · rcases hw with rfl | rfl
    · exact prim_dec_aluRR_0_21 s hs d hd tail
    · exact prim_dec_aluRR_1_21 s hs d hd tail
  · rcases hw with rfl | rfl
    · exact prim_dec_aluRR_0_29 s hs d hd tail
    · exact prim_dec_aluRR_1_29 s hs d hd tail
  · rcases hw with rfl | rfl
    · exact prim_dec_aluRR_0_31 s hs d hd tail
    · exact prim_dec_aluRR_1_31 s hs d hd tail
  · rcases hw with rfl | rfl
    · exact prim_dec_aluRR_0_39 s hs d hd tail
    · exact prim_dec_aluRR_1_39 s hs d hd tail
  · rcases hw with rfl | rfl
    · exact prim_dec_aluRR_0_85 s hs d hd tail
    · exact prim_dec_aluRR_1_85 s hs d hd tail
  · rcases hw with rfl | rfl
    · exact prim_dec_aluRR_0_89 s hs d hd tail
    · exact prim_dec_aluRR_1_89 s hs d hd tail

-- shifts by `cl`: `d3 /ext`
theorem prim_dec_shiftCl_0_0 : ∀ d, d < 16 → ∀ tail,
    decode (bAlu 0 0xd3 0 d ++ tail) = some (.shiftCl false .rol d, (bAlu 0 0xd3 0 d).length) := by enum1
theorem prim_dec_shiftCl_1_0 : ∀ d, d < 16 → ∀ tail,
    decode (bAlu 1 0xd3 0 d ++ tail) = some (.shiftCl true .rol d, (bAlu 1 0xd3 0 d).length) := by enum1
theorem prim_dec_shiftCl_0_4 : ∀ d, d < 16 → ∀ tail,
    decode (bAlu 0 0xd3 4 d ++ tail) = some (.shiftCl false .shl d, (bAlu 0 0xd3 4 d).length) := by enum1
theorem prim_dec_shiftCl_1_4 : ∀ d, d < 16 → ∀ tail,
    decode (bAlu 1 0xd3 4 d ++ tail) = some (.shiftCl true .shl d, (bAlu 1 0xd3 4 d).length) := by enum1
theorem prim_dec_shiftCl_0_5 : ∀ d, d < 16 → ∀ tail,
    decode (bAlu 0 0xd3 5 d ++ tail) = some (.shiftCl false .shr d, (bAlu 0 0xd3 5 d).length) := by enum1
theorem prim_dec_shiftCl_1_5 : ∀ d, d < 16 → ∀ tail,
    decode (bAlu 1 0xd3 5 d ++ tail) = some (.shiftCl true .shr d, (bAlu 1 0xd3 5 d).length) := by enum1
theorem prim_dec_shiftCl_0_7 : ∀ d, d < 16 → ∀ tail,
    decode (bAlu 0 0xd3 7 d ++ tail) = some (.shiftCl false .sar d, (bAlu 0 0xd3 7 d).length) := by enum1
theorem prim_dec_shiftCl_1_7 : ∀ d, d < 16 → ∀ tail,
    decode (bAlu 1 0xd3 7 d ++ tail) = some (.shiftCl true .sar d, (bAlu 1 0xd3 7 d).length) := by enum1

theorem prim_dec_shiftCl (w x d : Nat) (sh : ShOp) (hw : w = 0 ∨ w = 1) (hx : shOfExt x = some sh) (hd : d < 16) (tail : List Nat) :
    decode (bAlu w 0xd3 x d ++ tail) = some (.shiftCl (w == 1) sh d, (bAlu w 0xd3 x d).length) := by
  rcases prim_shOfExt_cases hx with ⟨rfl, rfl⟩ | ⟨rfl, rfl⟩ | ⟨rfl, rfl⟩ | ⟨rfl, rfl⟩
  · rcases hw with rfl | rfl
    · exact prim_dec_shiftCl_0_0 d hd tail
    · exact prim_dec_shiftCl_1_0 d hd tail
  · rcases hw with rfl | rfl
    · exact prim_dec_shiftCl_0_4 d hd tail
    · exact prim_dec_shiftCl_1_4 d hd tail
  · rcases hw with rfl | rfl
    · exact prim_dec_shiftCl_0_5 d hd tail
    · exact prim_dec_shiftCl_1_5 d hd tail
  · rcases hw with rfl | rfl
    · exact prim_dec_shiftCl_0_7 d hd tail
    · exact prim_dec_shiftCl_1_7 d hd tail

-- `f7 /3` neg, `f7 /4` mul, `f7 /6` div
theorem prim_dec_neg_0 : ∀ d, d < 16 → ∀ tail,
    decode (bAlu 0 0xf7 3 d ++ tail) = some (.neg false d, (bAlu 0 0xf7 3 d).length) := by enum1
theorem prim_dec_neg_1 : ∀ d, d < 16 → ∀ tail,
    decode (bAlu 1 0xf7 3 d ++ tail) = some (.neg true d, (bAlu 1 0xf7 3 d).length) := by enum1
theorem prim_dec_mul_0 : ∀ d, d < 16 → ∀ tail,
    decode (bAlu 0 0xf7 4 d ++ tail) = some (.mul false d, (bAlu 0 0xf7 4 d).length) := by enum1
theorem prim_dec_mul_1 : ∀ d, d < 16 → ∀ tail,
    decode (bAlu 1 0xf7 4 d ++ tail) = some (.mul true d, (bAlu 1 0xf7 4 d).length) := by enum1
theorem prim_dec_div_0 : ∀ d, d < 16 → ∀ tail,
    decode (bAlu 0 0xf7 6 d ++ tail) = some (.div false d, (bAlu 0 0xf7 6 d).length) := by enum1
theorem prim_dec_div_1 : ∀ d, d < 16 → ∀ tail,
    decode (bAlu 1 0xf7 6 d ++ tail) = some (.div true d, (bAlu 1 0xf7 6 d).length) := by enum1
theorem prim_dec_mul64_rcx (tail : List Nat) : decode (bMulDiv64 4 ++ tail) = some (.mul true RCX, (bMulDiv64 4).length) := by kernel_rfl
theorem prim_dec_div64_rcx (tail : List Nat) : decode (bMulDiv64 6 ++ tail) = some (.div true RCX, (bMulDiv64 6).length) := by kernel_rfl

-- `81 /ext imm32`, `c7 /0 imm32` (register form), `f7 /0 imm32`
theorem prim_dec_aluRI_0_81_0 : ∀ d, d < 16 → ∀ a0 a1 a2 a3 tail,
    decode (bAlu 0 0x81 0 d ++ a0 :: a1 :: a2 :: a3 :: tail) = some (.aluRI false .add d (le32 a0 a1 a2 a3), (bAlu 0 0x81 0 d).length + 4) := by enum1
theorem prim_dec_aluRI_1_81_0 : ∀ d, d < 16 → ∀ a0 a1 a2 a3 tail,
    decode (bAlu 1 0x81 0 d ++ a0 :: a1 :: a2 :: a3 :: tail) = some (.aluRI true .add d (le32 a0 a1 a2 a3), (bAlu 1 0x81 0 d).length + 4) := by enum1
theorem prim_dec_aluRI_0_81_1 : ∀ d, d < 16 → ∀ a0 a1 a2 a3 tail,
    decode (bAlu 0 0x81 1 d ++ a0 :: a1 :: a2 :: a3 :: tail) = some (.aluRI false .or d (le32 a0 a1 a2 a3), (bAlu 0 0x81 1 d).length + 4) := by enum1
theorem prim_dec_aluRI_1_81_1 : ∀ d, d < 16 → ∀ a0 a1 a2 a3 tail,
    decode (bAlu 1 0x81 1 d ++ a0 :: a1 :: a2 :: a3 :: tail) = some (.aluRI true .or d (le32 a0 a1 a2 a3), (bAlu 1 0x81 1 d).length + 4) := by enum1
theorem prim_dec_aluRI_0_81_4 : ∀ d, d < 16 → ∀ a0 a1 a2 a3 tail,
    decode (bAlu 0 0x81 4 d ++ a0 :: a1 :: a2 :: a3 :: tail) = some (.aluRI false .and d (le32 a0 a1 a2 a3), (bAlu 0 0x81 4 d).length + 4) := by enum1
theorem prim_dec_aluRI_1_81_4 : ∀ d, d < 16 → ∀ a0 a1 a2 a3 tail,
    decode (bAlu 1 0x81 4 d ++ a0 :: a1 :: a2 :: a3 :: tail) = some (.aluRI true .and d (le32 a0 a1 a2 a3), (bAlu 1 0x81 4 d).length + 4) := by enum1
theorem prim_dec_aluRI_0_81_5 : ∀ d, d < 16 → ∀ a0 a1 a2 a3 tail,
    decode (bAlu 0 0x81 5 d ++ a0 :: a1 :: a2 :: a3 :: tail) = some (.aluRI false .sub d (le32 a0 a1 a2 a3), (bAlu 0 0x81 5 d).length + 4) := by enum1
theorem prim_dec_aluRI_1_81_5 : ∀ d, d < 16 → ∀ a0 a1 a2 a3 tail,
    decode (bAlu 1 0x81 5 d ++ a0 :: a1 :: a2 :: a3 :: tail) = some (.aluRI true .sub d (le32 a0 a1 a2 a3), (bAlu 1 0x81 5 d).length + 4) := by enum1
theorem prim_dec_aluRI_0_81_6 : ∀ d, d < 16 → ∀ a0 a1 a2 a3 tail,
    decode (bAlu 0 0x81 6 d ++ a0 :: a1 :: a2 :: a3 :: tail) = some (.aluRI false .xor d (le32 a0 a1 a2 a3), (bAlu 0 0x81 6 d).length + 4) := by enum1
theorem prim_dec_aluRI_1_81_6 : ∀ d, d < 16 → ∀ a0 a1 a2 a3 tail,
    decode (bAlu 1 0x81 6 d ++ a0 :: a1 :: a2 :: a3 :: tail) = some (.aluRI true .xor d (le32 a0 a1 a2 a3), (bAlu 1 0x81 6 d).length + 4) := by enum1
theorem prim_dec_aluRI_0_81_7 : ∀ d, d < 16 → ∀ a0 a1 a2 a3 tail,
    decode (bAlu 0 0x81 7 d ++ a0 :: a1 :: a2 :: a3 :: tail) = some (.aluRI false .cmp d (le32 a0 a1 a2 a3), (bAlu 0 0x81 7 d).length + 4) := by enum1
theorem prim_dec_aluRI_1_81_7 : ∀ d, d < 16 → ∀ a0 a1 a2 a3 tail,
    decode (bAlu 1 0x81 7 d ++ a0 :: a1 :: a2 :: a3 :: tail) = some (.aluRI true .cmp d (le32 a0 a1 a2 a3), (bAlu 1 0x81 7 d).length + 4) := by enum1
theorem prim_dec_aluRI_0_c7_0 : ∀ d, d < 16 → ∀ a0 a1 a2 a3 tail,
    decode (bAlu 0 0xc7 0 d ++ a0 :: a1 :: a2 :: a3 :: tail) = some (.aluRI false .mov d (le32 a0 a1 a2 a3), (bAlu 0 0xc7 0 d).length + 4) := by enum1
theorem prim_dec_aluRI_1_c7_0 : ∀ d, d < 16 → ∀ a0 a1 a2 a3 tail,
    decode (bAlu 1 0xc7 0 d ++ a0 :: a1 :: a2 :: a3 :: tail) = some (.aluRI true .mov d (le32 a0 a1 a2 a3), (bAlu 1 0xc7 0 d).length + 4) := by enum1
theorem prim_dec_aluRI_0_f7_0 : ∀ d, d < 16 → ∀ a0 a1 a2 a3 tail,
    decode (bAlu 0 0xf7 0 d ++ a0 :: a1 :: a2 :: a3 :: tail) = some (.aluRI false .test d (le32 a0 a1 a2 a3), (bAlu 0 0xf7 0 d).length + 4) := by enum1
theorem prim_dec_aluRI_1_f7_0 : ∀ d, d < 16 → ∀ a0 a1 a2 a3 tail,
    decode (bAlu 1 0xf7 0 d ++ a0 :: a1 :: a2 :: a3 :: tail) = some (.aluRI true .test d (le32 a0 a1 a2 a3), (bAlu 1 0xf7 0 d).length + 4) := by enum1

theorem prim_dec_aluRI81 (w x d : Nat) (a : AluOp) (hw : w = 0 ∨ w = 1) (hx : aluOfExt81 x = some a) (hd : d < 16) (a0 a1 a2 a3 : Nat)
    (tail : List Nat) : decode (bAlu w 0x81 x d ++ a0 :: a1 :: a2 :: a3 :: tail) =
      some (.aluRI (w == 1) a d (le32 a0 a1 a2 a3), (bAlu w 0x81 x d).length + 4) := by
  rcases prim_aluOfExt81_cases hx with ⟨rfl, rfl⟩ | ⟨rfl, rfl⟩ | ⟨rfl, rfl⟩ | ⟨rfl, rfl⟩ | ⟨rfl, rfl⟩ | ⟨rfl, rfl⟩
  · rcases hw with rfl | rfl
    · exact prim_dec_aluRI_0_81_0 d hd a0 a1 a2 a3 tail
    · exact prim_dec_aluRI_1_81_0 d hd a0 a1 a2 a3 tail
  · rcases hw with rfl | rfl
    · exact prim_dec_aluRI_0_81_1 d hd a0 a1 a2 a3 tail
    · exact prim_dec_aluRI_1_81_1 d hd a0 a1 a2 a3 tail
  · rcases hw with rfl | rfl
    · exact prim_dec_aluRI_0_81_4 d hd a0 a1 a2 a3 tail
    · exact prim_dec_aluRI_1_81_4 d hd a0 a1 a2 a3 tail
  · rcases hw with rfl | rfl
    · exact prim_dec_aluRI_0_81_5 d hd a0 a1 a2 a3 tail
    · exact prim_dec_aluRI_1_81_5 d hd a0 a1 a2 a3 tail
  · rcases hw with rfl | rfl
    · exact prim_dec_aluRI_0_81_6 d hd a0 a1 a2 a3 tail
    · exact prim_dec_aluRI_1_81_6 d hd a0 a1 a2 a3 tail
  · rcases hw with rfl | rfl
    · exact prim_dec_aluRI_0_81_7 d hd a0 a1 a2 a3 tail
    · exact prim_dec_aluRI_1_81_7 d hd a0 a1 a2 a3 tail

-- shifts by an immediate: `c1 /ext imm8`; `66 c1 /0 imm8` is `rol r16`
theorem prim_dec_shiftI_0_0 : ∀ d, d < 16 → ∀ n tail,
    decode (bAlu 0 0xc1 0 d ++ n :: tail) = some (.shiftI 32 .rol d n, (bAlu 0 0xc1 0 d).length + 1) := by enum1
theorem prim_dec_shiftI_1_0 : ∀ d, d < 16 → ∀ n tail,
    decode (bAlu 1 0xc1 0 d ++ n :: tail) = some (.shiftI 64 .rol d n, (bAlu 1 0xc1 0 d).length + 1) := by enum1
theorem prim_dec_shiftI_0_4 : ∀ d, d < 16 → ∀ n tail,
    decode (bAlu 0 0xc1 4 d ++ n :: tail) = some (.shiftI 32 .shl d n, (bAlu 0 0xc1 4 d).length + 1) := by enum1
theorem prim_dec_shiftI_1_4 : ∀ d, d < 16 → ∀ n tail,
    decode (bAlu 1 0xc1 4 d ++ n :: tail) = some (.shiftI 64 .shl d n, (bAlu 1 0xc1 4 d).length + 1) := by enum1
theorem prim_dec_shiftI_0_5 : ∀ d, d < 16 → ∀ n tail,
    decode (bAlu 0 0xc1 5 d ++ n :: tail) = some (.shiftI 32 .shr d n, (bAlu 0 0xc1 5 d).length + 1) := by enum1
theorem prim_dec_shiftI_1_5 : ∀ d, d < 16 → ∀ n tail,
    decode (bAlu 1 0xc1 5 d ++ n :: tail) = some (.shiftI 64 .shr d n, (bAlu 1 0xc1 5 d).length + 1) := by enum1
theorem prim_dec_shiftI_0_7 : ∀ d, d < 16 → ∀ n tail,
    decode (bAlu 0 0xc1 7 d ++ n :: tail) = some (.shiftI 32 .sar d n, (bAlu 0 0xc1 7 d).length + 1) := by enum1
theorem prim_dec_shiftI_1_7 : ∀ d, d < 16 → ∀ n tail,
    decode (bAlu 1 0xc1 7 d ++ n :: tail) = some (.shiftI 64 .sar d n, (bAlu 1 0xc1 7 d).length + 1) := by enum1

theorem prim_dec_shiftI (w x d : Nat) (sh : ShOp) (hw : w = 0 ∨ w = 1) (hx : shOfExt x = some sh) (hd : d < 16) (n : Nat) (tail : List Nat) :
    decode (bAlu w 0xc1 x d ++ n :: tail) = some (.shiftI (if w = 1 then 64 else 32) sh d n, (bAlu w 0xc1 x d).length + 1) := by
  rcases prim_shOfExt_cases hx with ⟨rfl, rfl⟩ | ⟨rfl, rfl⟩ | ⟨rfl, rfl⟩ | ⟨rfl, rfl⟩
  · rcases hw with rfl | rfl
    · exact prim_dec_shiftI_0_0 d hd n tail
    · exact prim_dec_shiftI_1_0 d hd n tail
  · rcases hw with rfl | rfl
    · exact prim_dec_shiftI_0_4 d hd n tail
    · exact prim_dec_shiftI_1_4 d hd n tail
  · rcases hw with rfl | rfl
    · exact prim_dec_shiftI_0_5 d hd n tail
    · exact prim_dec_shiftI_1_5 d hd n tail
  · rcases hw with rfl | rfl
    · exact prim_dec_shiftI_0_7 d hd n tail
    · exact prim_dec_shiftI_1_7 d hd n tail

theorem prim_dec_rol16 : ∀ d, d < 16 → ∀ n tail,
    decode (0x66 :: (bAlu 0 0xc1 0 d ++ n :: tail)) = some (.shiftI 16 .rol d n, (bAlu 0 0xc1 0 d).length + 2) := by enum1

-- `REX.W b8+r imm64`
theorem prim_dec_movabs : ∀ d, d < 16 → ∀ a0 a1 a2 a3 a4 a5 a6 a7 tail,
    decode (bBasicRex 1 0 d ++ (0xb8 ||| (d &&& 7)) :: a0 :: a1 :: a2 :: a3 :: a4 :: a5 :: a6 :: a7 :: tail) =
      some (.movabs d (le32 a4 a5 a6 a7 ++ le32 a0 a1 a2 a3), (bBasicRex 1 0 d).length + 9) := by enum1

-- `[REX] 0f c8+r`
theorem prim_dec_bswap_0 : ∀ d, d < 16 → ∀ tail, decode (bBswap 0 d ++ tail) = some (.bswap false d, (bBswap 0 d).length) := by enum1
theorem prim_dec_bswap_1 : ∀ d, d < 16 → ∀ tail, decode (bBswap 1 d ++ tail) = some (.bswap true d, (bBswap 1 d).length) := by enum1

-- `REX.W 0f 44 /r` (register form)
theorem prim_dec_cmovz : ∀ r, r < 16 → ∀ m, m < 16 → ∀ tail,
    decode (bCmovz r m ++ tail) = some (.cmovz r m, (bCmovz r m).length) := by enum2

theorem prim_dec_callRax (tail : List Nat) : decode ([0xff, 0xd0] ++ tail) = some (.callReg RAX, 2) := by kernel_rfl
theorem prim_dec_ret (tail : List Nat) : decode ([0xc3] ++ tail) = some (.ret, 1) := by kernel_rfl

-- jumps and calls with a 32-bit field (whatever it holds)
theorem prim_dec_jcc (ccb : Nat) (cc : Cc) (h : ccOf ccb = some cc) (h0 h1 h2 h3 : Nat) (tail : List Nat) :
    decode ([0x0f, ccb, h0, h1, h2, h3] ++ tail) = some (.jcc cc (le32 h0 h1 h2 h3), 6) := by
  rcases prim_ccOf_cases h with ⟨rfl, rfl⟩ | ⟨rfl, rfl⟩ | ⟨rfl, rfl⟩ | ⟨rfl, rfl⟩ | ⟨rfl, rfl⟩ | ⟨rfl, rfl⟩ | ⟨rfl, rfl⟩ |
    ⟨rfl, rfl⟩ | ⟨rfl, rfl⟩ | ⟨rfl, rfl⟩ <;> kernel_rfl
theorem prim_dec_jmp (h0 h1 h2 h3 : Nat) (tail : List Nat) :
    decode ([0xe9, h0, h1, h2, h3] ++ tail) = some (.jmp (le32 h0 h1 h2 h3), 5) := by kernel_rfl
theorem prim_dec_call (h0 h1 h2 h3 : Nat) (tail : List Nat) :
    decode ([0xe8, h0, h1, h2, h3] ++ tail) = some (.call (le32 h0 h1 h2 h3), 5) := by kernel_rfl

end Rbpf.JitEnc
