/-
  A bound on the size of the code the JIT emits: every arm appends at most 64 bytes, the prologue has at most 64 bytes,
  the epilogue at most 32, `resolveJumps` keeps the size; a program of at most 1000000 slots therefore compiles to
  fewer than 2^31 bytes (`compile_size_lt`).
-/
import RbpfModel.Lemmas.X86Enc.PrimCore
import RbpfModel.Lemmas.X86Enc.LayoutPatch
namespace Rbpf.JitEnc
open Rbpf.JitEmit

-- ---------------------------------------------------------------------------------------------------------
-- primitives, in a form that chains under `apply`: `e.code.size + (k + j) ≤ n → (emitX e …).code.size + j ≤ n`

theorem size_start {e : Em} {n : Nat} (h : e.code.size + 0 ≤ n) : e.code.size ≤ n := h

theorem size_ite (c : Prop) [Decidable c] (a b : Em) (j n : Nat) (ha : a.code.size + j ≤ n) (hb : b.code.size + j ≤ n) :
    (if c then a else b).code.size + j ≤ n := by split <;> assumption

theorem size_emit1 (e : Em) (b j n : Nat) (h : e.code.size + (1 + j) ≤ n) : (emit1 e b).code.size + j ≤ n := by
  simp only [emit1, Array.size_push]; omega

theorem size_emitLE (e : Em) (v m j n : Nat) (h : e.code.size + (m + j) ≤ n) : (emitLE e v m).code.size + j ≤ n := by
  rw [prim_emitLE_eq, prim_app_size]; simp only [bLE, List.length_map, List.length_range]; omega

theorem size_emit2 (e : Em) (v j n : Nat) (h : e.code.size + (2 + j) ≤ n) : (emit2 e v).code.size + j ≤ n :=
  size_emitLE e v 2 j n h
theorem size_emit4 (e : Em) (v j n : Nat) (h : e.code.size + (4 + j) ≤ n) : (emit4 e v).code.size + j ≤ n :=
  size_emitLE e v 4 j n h
theorem size_emit8 (e : Em) (v j n : Nat) (h : e.code.size + (8 + j) ≤ n) : (emit8 e v).code.size + j ≤ n :=
  size_emitLE e v 8 j n h

/-- one chaining step with the lemmas proved so far -/
macro "size_step0" : tactic => `(tactic| first
  | with_reducible apply size_emit2 | with_reducible apply size_emit4 | with_reducible apply size_emit8 | with_reducible apply size_emit1 | with_reducible apply size_ite)

theorem size_emitModrm (e : Em) (md r m j n : Nat) (h : e.code.size + (1 + j) ≤ n) : (emitModrm e md r m).code.size + j ≤ n :=
  size_emit1 e _ j n h
theorem size_emitModrmReg2reg (e : Em) (r m j n : Nat) (h : e.code.size + (1 + j) ≤ n) :
    (emitModrmReg2reg e r m).code.size + j ≤ n := size_emit1 e _ j n h
theorem size_emitRex (e : Em) (w r x b j n : Nat) (h : e.code.size + (1 + j) ≤ n) : (emitRex e w r x b).code.size + j ≤ n :=
  size_emit1 e _ j n h

theorem size_emitModrmAndDisplacement (e : Em) (r m : Nat) (d : Int) (j n : Nat) (h : e.code.size + (5 + j) ≤ n) :
    (emitModrmAndDisplacement e r m d).code.size + j ≤ n := by
  unfold emitModrmAndDisplacement
  repeat' (first | with_reducible apply size_emitModrm | size_step0)
  all_goals omega

theorem size_emitBasicRex (e : Em) (w s d j n : Nat) (h : e.code.size + (1 + j) ≤ n) : (emitBasicRex e w s d).code.size + j ≤ n := by
  unfold emitBasicRex
  repeat' (first | with_reducible apply size_emitRex | size_step0)
  all_goals omega

macro "size_step1" : tactic => `(tactic| first
  | with_reducible apply size_emitModrmAndDisplacement | with_reducible apply size_emitModrmReg2reg | with_reducible apply size_emitModrm | with_reducible apply size_emitBasicRex
  | with_reducible apply size_emitRex | size_step0)

theorem size_emitPush (e : Em) (r j n : Nat) (h : e.code.size + (2 + j) ≤ n) : (emitPush e r).code.size + j ≤ n := by
  unfold emitPush; repeat' size_step1
  all_goals omega
theorem size_emitPop (e : Em) (r j n : Nat) (h : e.code.size + (2 + j) ≤ n) : (emitPop e r).code.size + j ≤ n := by
  unfold emitPop; repeat' size_step1
  all_goals omega
theorem size_emitAlu32 (e : Em) (op s d j n : Nat) (h : e.code.size + (3 + j) ≤ n) : (emitAlu32 e op s d).code.size + j ≤ n := by
  unfold emitAlu32; repeat' size_step1
  all_goals omega
theorem size_emitAlu64 (e : Em) (op s d j n : Nat) (h : e.code.size + (3 + j) ≤ n) : (emitAlu64 e op s d).code.size + j ≤ n := by
  unfold emitAlu64; repeat' size_step1
  all_goals omega

macro "size_step2" : tactic => `(tactic| first
  | with_reducible apply size_emitPush | with_reducible apply size_emitPop | with_reducible apply size_emitAlu32 | with_reducible apply size_emitAlu64 | size_step1)

theorem size_emitAlu32Imm32 (e : Em) (op s d : Nat) (imm : Int) (j n : Nat) (h : e.code.size + (7 + j) ≤ n) :
    (emitAlu32Imm32 e op s d imm).code.size + j ≤ n := by
  unfold emitAlu32Imm32; repeat' size_step2
  all_goals omega
theorem size_emitAlu32Imm8 (e : Em) (op s d : Nat) (imm : Int) (j n : Nat) (h : e.code.size + (4 + j) ≤ n) :
    (emitAlu32Imm8 e op s d imm).code.size + j ≤ n := by
  unfold emitAlu32Imm8; repeat' size_step2
  all_goals omega
theorem size_emitAlu64Imm32 (e : Em) (op s d : Nat) (imm : Int) (j n : Nat) (h : e.code.size + (7 + j) ≤ n) :
    (emitAlu64Imm32 e op s d imm).code.size + j ≤ n := by
  unfold emitAlu64Imm32; repeat' size_step2
  all_goals omega
theorem size_emitAlu64Imm8 (e : Em) (op s d : Nat) (imm : Int) (j n : Nat) (h : e.code.size + (4 + j) ≤ n) :
    (emitAlu64Imm8 e op s d imm).code.size + j ≤ n := by
  unfold emitAlu64Imm8; repeat' size_step2
  all_goals omega
theorem size_emitMov (e : Em) (s d j n : Nat) (h : e.code.size + (3 + j) ≤ n) : (emitMov e s d).code.size + j ≤ n :=
  size_emitAlu64 e _ s d j n h
theorem size_emitCmp (e : Em) (s d j n : Nat) (h : e.code.size + (3 + j) ≤ n) : (emitCmp e s d).code.size + j ≤ n :=
  size_emitAlu64 e _ s d j n h
theorem size_emitCmp32 (e : Em) (s d j n : Nat) (h : e.code.size + (3 + j) ≤ n) : (emitCmp32 e s d).code.size + j ≤ n :=
  size_emitAlu32 e _ s d j n h
theorem size_emitCmpImm32 (e : Em) (d : Nat) (imm : Int) (j n : Nat) (h : e.code.size + (7 + j) ≤ n) :
    (emitCmpImm32 e d imm).code.size + j ≤ n := size_emitAlu64Imm32 e _ _ d imm j n h
theorem size_emitCmp32Imm32 (e : Em) (d : Nat) (imm : Int) (j n : Nat) (h : e.code.size + (7 + j) ≤ n) :
    (emitCmp32Imm32 e d imm).code.size + j ≤ n := size_emitAlu32Imm32 e _ _ d imm j n h

macro "size_step3" : tactic => `(tactic| first
  | with_reducible apply size_emitAlu32Imm32 | with_reducible apply size_emitAlu32Imm8 | with_reducible apply size_emitAlu64Imm32 | with_reducible apply size_emitAlu64Imm8
  | with_reducible apply size_emitMov | with_reducible apply size_emitCmp | with_reducible apply size_emitCmp32 | with_reducible apply size_emitCmpImm32 | with_reducible apply size_emitCmp32Imm32
  | size_step2)

theorem size_emitLoad (e : Em) (size s d : Nat) (off : Int) (j n : Nat) (h : e.code.size + (8 + j) ≤ n) :
    (emitLoad e size s d off).code.size + j ≤ n := by
  unfold emitLoad; simp only []; repeat' size_step3
  all_goals omega

theorem size_emitLoadImm (e : Em) (d : Nat) (imm : Int) (j n : Nat) (h : e.code.size + (10 + j) ≤ n) :
    (emitLoadImm e d imm).code.size + j ≤ n := by
  unfold emitLoadImm; repeat' size_step3
  all_goals omega

theorem size_emitStore (e : Em) (size s d : Nat) (off : Int) (j n : Nat) (h : e.code.size + (8 + j) ≤ n) :
    (emitStore e size s d off).code.size + j ≤ n := by
  unfold emitStore; simp only []; repeat' size_step3
  all_goals omega

theorem size_emitStoreImm32 (e : Em) (size d : Nat) (off imm : Int) (j n : Nat) (h : e.code.size + (12 + j) ≤ n) :
    (emitStoreImm32 e size d off imm).code.size + j ≤ n := by
  unfold emitStoreImm32; simp only []; repeat' size_step3
  all_goals omega

theorem size_emitDirectJcc (e : Em) (code off j n : Nat) (h : e.code.size + (6 + j) ≤ n) :
    (emitDirectJcc e code off).code.size + j ≤ n := by
  unfold emitDirectJcc; repeat' size_step3
  all_goals omega

theorem size_emitJumpOffset (e : Em) (t : Int) (j n : Nat) (h : e.code.size + (4 + j) ≤ n) :
    (emitJumpOffset e t).code.size + j ≤ n := by
  unfold emitJumpOffset; apply size_emit4; exact h

macro "size_step4" : tactic => `(tactic| first
  | with_reducible apply size_emitLoad | with_reducible apply size_emitLoadImm | with_reducible apply size_emitStore | with_reducible apply size_emitStoreImm32 | with_reducible apply size_emitDirectJcc
  | with_reducible apply size_emitJumpOffset | size_step3)

theorem size_emitLoadPacket (e : Em) (size base : Nat) (imm : Int) (j n : Nat) (h : e.code.size + (21 + j) ≤ n) :
    (emitLoadPacket e size base imm).code.size + j ≤ n := by
  unfold emitLoadPacket; repeat' size_step4
  all_goals omega

theorem size_emitCall (e : Em) (t j n : Nat) (h : e.code.size + (12 + j) ≤ n) : (emitCall e t).code.size + j ≤ n := by
  unfold emitCall; repeat' size_step4
  all_goals omega

theorem size_emitJcc (e : Em) (code : Nat) (t : Int) (j n : Nat) (h : e.code.size + (6 + j) ≤ n) :
    (emitJcc e code t).code.size + j ≤ n := by
  unfold emitJcc; repeat' size_step4
  all_goals omega

theorem size_emitJmp (e : Em) (t : Int) (j n : Nat) (h : e.code.size + (5 + j) ≤ n) : (emitJmp e t).code.size + j ≤ n := by
  unfold emitJmp; repeat' size_step4
  all_goals omega

theorem size_emitLocalCall (e : Em) (t : Int) (j n : Nat) (h : e.code.size + (25 + j) ≤ n) :
    (emitLocalCall e t).code.size + j ≤ n := by
  unfold emitLocalCall; simp only []; repeat' size_step4
  all_goals omega

macro "size_step5" : tactic => `(tactic| first
  | with_reducible apply size_emitLoadPacket | with_reducible apply size_emitCall | with_reducible apply size_emitJcc | with_reducible apply size_emitJmp | with_reducible apply size_emitLocalCall
  | size_step4)

/-- chain to the end, then arithmetic -/
macro "size_go" : tactic => `(tactic| ((first | apply size_start | skip); (repeat' size_step5)) <;> omega)

theorem size_emitMuldivmod (e : Em) (pc opc s d : Nat) (imm : Int) (j n : Nat) (h : e.code.size + (64 + j) ≤ n) :
    (emitMuldivmod e pc opc s d imm).code.size + j ≤ n := by
  unfold emitMuldivmod
  extract_lets mul div modrm is64 isReg e1 e2 e3 e4 e5 e6 e7 e8 e9 e10 e11 e12 e13 e14
  have h1 : e1.code.size ≤ e.code.size + 10 := by simp only [e1]; size_go
  clear_value e1
  have h2 : e2.code.size ≤ e1.code.size + 3 := by simp only [e2]; size_go
  clear_value e2
  have h3 : e3.code.size ≤ e2.code.size + 6 := by simp only [e3]; size_go
  clear_value e3
  have h4 : e4.code.size ≤ e3.code.size + 3 := by simp only [e4]; size_go
  clear_value e4
  have h5 : e5.code.size ≤ e2.code.size + 14 := by simp only [e5]; size_go
  clear_value e5
  have h6a : e6.code.size ≤ e.code.size + 33 := by simp only [e6]; size_go
  have h6b : ¬ isReg → e6.code.size ≤ e.code.size := by
    intro hr; simp only [e6]; rw [if_neg (fun h => hr h.2)]; exact Nat.le_refl _
  clear_value e6
  have h7 : e7.code.size ≤ e6.code.size + 2 := by simp only [e7]; size_go
  clear_value e7
  have h8 : e8.code.size ≤ e7.code.size + 2 := by simp only [e8]; size_go
  clear_value e8
  have h9a : e9.code.size ≤ e8.code.size + 10 := by simp only [e9]; size_go
  have h9b : isReg → e9.code.size ≤ e8.code.size + 3 := by
    intro hr; simp only [e9]; rw [if_neg (not_not_intro hr)]; size_go
  clear_value e9
  have h9 : e9.code.size ≤ e.code.size + 40 := by
    by_cases hr : isReg
    · have := h9b hr; omega
    · have := h6b hr; omega
  have h10 : e10.code.size ≤ e9.code.size + 3 := by simp only [e10]; size_go
  clear_value e10
  have h11 : e11.code.size ≤ e10.code.size + 3 := by simp only [e11]; size_go
  clear_value e11
  have h12 : e12.code.size ≤ e11.code.size + 1 := by simp only [e12]; size_go
  clear_value e12
  have h13 : e13.code.size ≤ e12.code.size + 3 := by simp only [e13]; size_go
  clear_value e13
  have h14 : e14.code.size ≤ e13.code.size + 5 := by simp only [e14]; size_go
  clear_value e14
  size_go

-- ---------------------------------------------------------------------------------------------------------
-- arms

macro "size_step6" : tactic => `(tactic| first | with_reducible apply size_emitMuldivmod | size_step5)
macro "size_go6" : tactic => `(tactic| ((first | apply size_start | skip); (repeat' size_step6)) <;> omega)
/-- every arm appends at most 64 bytes (and consumes at least one slot) -/
theorem size_arm (e e' : Em) (haddr : Nat → Option Nat) (pc n : Nat) (i : Insn) (nx : Option Insn)
    (h : JitEmit.arm e haddr pc i nx = .ok (e', n)) : e'.code.size ≤ e.code.size + 64 ∧ 1 ≤ n := by
  unfold JitEmit.arm at h
  split at h
  · cases h
  · cases h
  · simp only [] at h
    split at h
    all_goals try (simp only [Except.ok.injEq, Prod.mk.injEq] at h; obtain ⟨rfl, rfl⟩ := h; refine ⟨?_, by omega⟩; size_go6; done)
    all_goals try (simp only [reduceCtorEq] at h)
    all_goals (repeat' (split at h))
    all_goals try (simp only [reduceCtorEq] at h)
    all_goals (simp only [Except.ok.injEq, Prod.mk.injEq] at h; obtain ⟨rfl, rfl⟩ := h; refine ⟨?_, by omega⟩; size_go6)

-- ---------------------------------------------------------------------------------------------------------
-- prologue, epilogue, the loop, `resolveJumps`, the whole program

theorem size_prologue (um ud : Bool) : (prologue um ud).code.size ≤ 64 := by
  apply size_start
  unfold prologue
  simp only []
  repeat' size_step5
  all_goals decide

theorem size_epilogue (e : Em) : (epilogue e).code.size ≤ e.code.size + 32 := by
  apply size_start
  unfold epilogue
  simp only []
  repeat' size_step5
  all_goals (show e.code.size + _ ≤ _; omega)

theorem size_body (p : Bytes) (haddr : Nat → Option Nat) : ∀ (fuel pc : Nat) (e ef : Em),
    JitEmit.body p haddr fuel pc e = .ok ef → ef.code.size ≤ e.code.size + 64 * (p.size / 8 + 1 - pc) := by
  intro fuel
  induction fuel with
  | zero =>
    intro pc e ef h
    simp only [JitEmit.body, Except.ok.injEq] at h
    subst h; omega
  | succ fuel ih =>
    intro pc e ef h
    rw [JitEmit.body] at h
    by_cases hpc : pc * 8 < p.size
    · rw [if_pos hpc] at h
      cases hi : getInsn? p pc with
      | none => rw [hi] at h; cases h
      | some i =>
        rw [hi] at h
        simp only at h
        generalize he1 : ({ e with pcLocs := e.pcLocs.setIfInBounds pc e.code.size } : Em) = e1 at h
        cases harm : JitEmit.arm e1 haddr pc i (getInsn? p (pc + 1)) with
        | error f => rw [harm] at h; cases h
        | ok r =>
          obtain ⟨e2, n⟩ := r
          rw [harm] at h
          simp only at h
          have he1c : e1.code = e.code := by rw [← he1]
          obtain ⟨h2, hn⟩ := size_arm e1 e2 haddr pc n i _ harm
          have h3 := ih (pc + n) e2 ef h
          rw [he1c] at h2
          omega
    · rw [if_neg hpc] at h
      simp only [Except.ok.injEq] at h
      subst h; omega

theorem size_patch4 (c : Array UInt8) (loc rel : Nat) : (lay_patch4 c loc rel).size = c.size := by
  simp [lay_patch4, List.range_succ]

theorem size_fold (look : Int → Option Nat) : ∀ (l : List (Nat × Int)) (code c : Array UInt8),
    l.foldl (lay_stepJ look) (.ok code) = .ok c → c.size = code.size := by
  intro l
  induction l with
  | nil => intro code c h; simp only [List.foldl_nil, Except.ok.injEq] at h; rw [h]
  | cons j l ih =>
    intro code c h
    rw [List.foldl_cons] at h
    cases hs : lay_stepJ look (.ok code) j with
    | error f => rw [hs, lay_fold_error] at h; cases h
    | ok c1 =>
      rw [hs] at h
      rw [ih c1 c h]
      unfold lay_stepJ at hs
      simp only at hs
      split at hs
      · cases hs
      · simp only [Except.ok.injEq] at hs
        rw [← hs, size_patch4]

theorem size_resolveJumps (e : Em) (c : Array UInt8) (h : JitEmit.resolveJumps e = .ok c) : c.size = e.code.size := by
  rw [lay_resolveJumps_eq] at h
  exact size_fold _ _ _ _ h

/-- the code of an accepted program (at most 1000000 slots) has fewer than 2^31 bytes -/
theorem compile_size_lt (p : Bytes) (haddr : Nat → Option Nat) (um ud : Bool) (code : Array UInt8) (locs : Array Nat) (ex : Nat)
    (h : JitEmit.compileWithLayout p haddr um ud = .ok (code, locs, ex)) (hp : p.size / 8 ≤ 1000000) :
    code.size < 2 ^ 31 := by
  unfold JitEmit.compileWithLayout at h
  simp only at h
  generalize he0 : ({ JitEmit.prologue um ud with pcLocs := Array.replicate (p.size / 8 + 1) 0 } : Em) = e0 at h
  cases hbody : JitEmit.body p haddr (p.size / 8 + 1) 0 e0 with
  | error f => rw [hbody] at h; cases h
  | ok ef =>
    rw [hbody] at h
    simp only at h
    cases hres : JitEmit.resolveJumps (JitEmit.epilogue ef) with
    | error f => rw [hres] at h; cases h
    | ok c =>
      rw [hres] at h
      simp only [Except.ok.injEq, Prod.mk.injEq] at h
      obtain ⟨rfl, -, -⟩ := h
      have h0 : e0.code.size ≤ 64 := by rw [← he0]; exact size_prologue um ud
      have h1 := size_body p haddr _ _ _ _ hbody
      have h2 := size_epilogue ef
      have h3 := size_resolveJumps _ _ hres
      omega

end Rbpf.JitEnc
