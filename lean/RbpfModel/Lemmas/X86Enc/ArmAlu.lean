/-
  Byte level = instruction level for the arms of opcode class `aluOpcodes` (see Lemmas/X86Enc/Arm.lean).

  Method: for one literal opcode `k` the two `arm` functions are computed by
  `unfold arm; rw [hd, hs]; dsimp only; rw [ho]; rfl` (`hd hs : mapRegister? … = some …`, `ho : i.opc.toNat = k`): after the
  scrutinee of the 150-way `match` is a literal, `rfl` reduces it by evaluation — no `simp`/`split` over the big term.
  `aenc_finish` takes the `prim_emits_*` fact first, so that the emitter state and the instruction list the two arms
  have to compute to are read off its statement.
-/
import RbpfModel.Model.JitSim
import RbpfModel.Lemmas.X86Enc.Prim
namespace Rbpf.JitEnc
open Rbpf.X86 (Instr Cc decode ccOf)
open Rbpf.JitAst (AI Tgt)
open Rbpf.JitEmit (Em Fail mapRegister?)
open Rbpf.JitSim (aluOpcodes mulDivOpcodes jumpOpcodes memOpcodes)

/-- compute `JitEmit.arm` / `JitAst.arm` at a literal opcode: `ho : i.opc.toNat = <literal>`, `hd hs` the mapped registers -/
macro "aenc_arm " ho:ident hd:ident hs:ident : tactic =>
  `(tactic| ((first | unfold JitEmit.arm | unfold JitAst.arm); rw [$hd:ident, $hs:ident]; dsimp only; rw [$ho:ident]; rfl))

theorem aenc_finish {e e' : Em} {haddr : Nat → Option Nat} {pc n : Nat} {i : Insn} {nx : Option Insn}
    {E : Em} {A : List AI} {k : Nat}
    (h : JitEmit.arm e haddr pc i nx = .ok (e', n)) (hem : Emits e E A)
    (h1 : JitEmit.arm e haddr pc i nx = .ok (E, k)) (h2 : JitAst.arm haddr pc i nx = .ok (A, k)) :
    ∃ ais, JitAst.arm haddr pc i nx = .ok (ais, n) ∧ Emits e e' ais := by
  rw [h1] at h
  cases h
  exact ⟨A, h2, hem⟩

-- one opcode whose arm is unconditional: `t` is the `Emits` fact for what the arm emits
set_option hygiene false in
local macro "aenc_case " name:ident opc:num " => " t:term : command =>
  `(theorem $name (e e' : Em) (haddr : Nat → Option Nat) (pc n : Nat) (i : Insn) (nx : Option Insn) (d s : Nat)
      (ho : i.opc.toNat = $opc) (hd : mapRegister? i.dst.toNat = some d) (hs : mapRegister? i.src.toNat = some s)
      (hdl : d < 16) (hsl : s < 16) (h : JitEmit.arm e haddr pc i nx = .ok (e', n)) :
      ∃ ais, JitAst.arm haddr pc i nx = .ok (ais, n) ∧ Emits e e' ais :=
    aenc_finish (k := 1) h $t (by aenc_arm ho hd hs) (by aenc_arm ho hd hs))

-- ---------------------------------------------------------------------------------------------------------
-- BPF_ALU64

aenc_case aenc_op_07 0x07 => prim_emits_alu64Imm32_bv e 0 d .add i.imm rfl hdl
aenc_case aenc_op_0f 0x0f => prim_emits_alu64 e 0x01 s d .add rfl hsl hdl
aenc_case aenc_op_17 0x17 => prim_emits_alu64Imm32_bv e 5 d .sub i.imm rfl hdl
aenc_case aenc_op_1f 0x1f => prim_emits_alu64 e 0x29 s d .sub rfl hsl hdl
aenc_case aenc_op_47 0x47 => prim_emits_alu64Imm32_bv e 1 d .or i.imm rfl hdl
aenc_case aenc_op_4f 0x4f => prim_emits_alu64 e 0x09 s d .or rfl hsl hdl
aenc_case aenc_op_57 0x57 => prim_emits_alu64Imm32_bv e 4 d .and i.imm rfl hdl
aenc_case aenc_op_5f 0x5f => prim_emits_alu64 e 0x21 s d .and rfl hsl hdl
aenc_case aenc_op_67 0x67 => prim_emits_shiftI64_bv e 4 d .shl i.imm rfl hdl
aenc_case aenc_op_6f 0x6f =>
  prim_emits_cons (prim_emits_mov e s JitEmit.RCX hsl (by decide)) (prim_emits_shiftCl64 _ 4 d .shl rfl hdl)
aenc_case aenc_op_77 0x77 => prim_emits_shiftI64_bv e 5 d .shr i.imm rfl hdl
aenc_case aenc_op_7f 0x7f =>
  prim_emits_cons (prim_emits_mov e s JitEmit.RCX hsl (by decide)) (prim_emits_shiftCl64 _ 5 d .shr rfl hdl)
aenc_case aenc_op_87 0x87 => prim_emits_neg64 e d hdl
aenc_case aenc_op_a7 0xa7 => prim_emits_alu64Imm32_bv e 6 d .xor i.imm rfl hdl
aenc_case aenc_op_af 0xaf => prim_emits_alu64 e 0x31 s d .xor rfl hsl hdl
aenc_case aenc_op_b7 0xb7 => prim_emits_loadImm e d i.imm.toInt hdl
aenc_case aenc_op_bf 0xbf => prim_emits_mov e s d hsl hdl
aenc_case aenc_op_c7 0xc7 => prim_emits_shiftI64_bv e 7 d .sar i.imm rfl hdl
aenc_case aenc_op_cf 0xcf =>
  prim_emits_cons (prim_emits_mov e s JitEmit.RCX hsl (by decide)) (prim_emits_shiftCl64 _ 7 d .sar rfl hdl)

-- ---------------------------------------------------------------------------------------------------------
-- BPF_ALU (32 bit)

aenc_case aenc_op_04 0x04 => prim_emits_alu32Imm32_bv e 0 d .add i.imm rfl hdl
aenc_case aenc_op_0c 0x0c => prim_emits_alu32 e 0x01 s d .add rfl hsl hdl
aenc_case aenc_op_14 0x14 => prim_emits_alu32Imm32_bv e 5 d .sub i.imm rfl hdl
aenc_case aenc_op_1c 0x1c => prim_emits_alu32 e 0x29 s d .sub rfl hsl hdl
aenc_case aenc_op_44 0x44 => prim_emits_alu32Imm32_bv e 1 d .or i.imm rfl hdl
aenc_case aenc_op_4c 0x4c => prim_emits_alu32 e 0x09 s d .or rfl hsl hdl
aenc_case aenc_op_54 0x54 => prim_emits_alu32Imm32_bv e 4 d .and i.imm rfl hdl
aenc_case aenc_op_5c 0x5c => prim_emits_alu32 e 0x21 s d .and rfl hsl hdl
aenc_case aenc_op_64 0x64 => prim_emits_shiftI32_bv e 4 d .shl i.imm rfl hdl
aenc_case aenc_op_6c 0x6c =>
  prim_emits_cons (prim_emits_mov e s JitEmit.RCX hsl (by decide)) (prim_emits_shiftCl32 _ 4 d .shl rfl hdl)
aenc_case aenc_op_74 0x74 => prim_emits_shiftI32_bv e 5 d .shr i.imm rfl hdl
aenc_case aenc_op_7c 0x7c =>
  prim_emits_cons (prim_emits_mov e s JitEmit.RCX hsl (by decide)) (prim_emits_shiftCl32 _ 5 d .shr rfl hdl)
aenc_case aenc_op_84 0x84 => prim_emits_neg32 e d hdl
aenc_case aenc_op_a4 0xa4 => prim_emits_alu32Imm32_bv e 6 d .xor i.imm rfl hdl
aenc_case aenc_op_ac 0xac => prim_emits_alu32 e 0x31 s d .xor rfl hsl hdl
aenc_case aenc_op_b4 0xb4 => prim_emits_movImm32_bv e d i.imm hdl
aenc_case aenc_op_bc 0xbc => prim_emits_alu32 e 0x89 s d .mov rfl hsl hdl
aenc_case aenc_op_c4 0xc4 => prim_emits_shiftI32_bv e 7 d .sar i.imm rfl hdl
aenc_case aenc_op_cc 0xcc =>
  prim_emits_cons (prim_emits_mov e s JitEmit.RCX hsl (by decide)) (prim_emits_shiftCl32 _ 7 d .sar rfl hdl)

-- ---------------------------------------------------------------------------------------------------------
-- byte swaps: the arms branch on the immediate (16 / 32 / 64, anything else is `unreachable!()`)

theorem aenc_toInt_16 (v : BitVec 32) : v.toInt = 16 ↔ v = 16 := (BitVec.toInt_inj (x := v) (y := 16#32))
theorem aenc_toInt_32 (v : BitVec 32) : v.toInt = 32 ↔ v = 32 := (BitVec.toInt_inj (x := v) (y := 32#32))
theorem aenc_toInt_64 (v : BitVec 32) : v.toInt = 64 ↔ v = 64 := (BitVec.toInt_inj (x := v) (y := 64#32))

theorem aenc_emit_d4 (e : Em) (haddr : Nat → Option Nat) (pc : Nat) (i : Insn) (nx : Option Insn) (d s : Nat)
    (ho : i.opc.toNat = 0xd4) (hd : mapRegister? i.dst.toNat = some d) (hs : mapRegister? i.src.toNat = some s) :
    JitEmit.arm e haddr pc i nx =
      if i.imm.toInt = 16 then .ok (JitEmit.emitAlu32Imm32 e 0x81 4 d 0xffff, 1)
      else if i.imm.toInt = 32 then .ok (JitEmit.emitAlu32 e 0x89 d d, 1)
      else if i.imm.toInt = 64 then .ok (e, 1) else .error .panic := by
  aenc_arm ho hd hs

theorem aenc_ast_d4 (haddr : Nat → Option Nat) (pc : Nat) (i : Insn) (nx : Option Insn) (d s : Nat)
    (ho : i.opc.toNat = 0xd4) (hd : mapRegister? i.dst.toNat = some d) (hs : mapRegister? i.src.toNat = some s) :
    JitAst.arm haddr pc i nx =
      if i.imm = 16 then .ok ([.i (.aluRI false .and d 0xffff#32)], 1)
      else if i.imm = 32 then .ok ([.i (.aluRR false .mov d d)], 1)
      else if i.imm = 64 then .ok ([], 1) else .error .panic := by
  aenc_arm ho hd hs

theorem aenc_op_d4 (e e' : Em) (haddr : Nat → Option Nat) (pc n : Nat) (i : Insn) (nx : Option Insn) (d s : Nat)
    (ho : i.opc.toNat = 0xd4) (hd : mapRegister? i.dst.toNat = some d) (hs : mapRegister? i.src.toNat = some s)
    (hdl : d < 16) (h : JitEmit.arm e haddr pc i nx = .ok (e', n)) :
    ∃ ais, JitAst.arm haddr pc i nx = .ok (ais, n) ∧ Emits e e' ais := by
  rw [aenc_emit_d4 e haddr pc i nx d s ho hd hs] at h
  rw [aenc_ast_d4 haddr pc i nx d s ho hd hs]
  simp only [aenc_toInt_16, aenc_toInt_32, aenc_toInt_64] at h
  by_cases c16 : i.imm = 16
  · rw [if_pos c16] at h ⊢
    cases h
    exact ⟨_, rfl, prim_emits_and32_ffff e d hdl⟩
  · rw [if_neg c16] at h ⊢
    by_cases c32 : i.imm = 32
    · rw [if_pos c32] at h ⊢
      cases h
      exact ⟨_, rfl, prim_emits_alu32 e 0x89 d d .mov rfl hdl hdl⟩
    · rw [if_neg c32] at h ⊢
      by_cases c64 : i.imm = 64
      · rw [if_pos c64] at h ⊢
        cases h
        exact ⟨_, rfl, prim_emits_refl e⟩
      · rw [if_neg c64] at h
        cases h

theorem aenc_emit_dc (e : Em) (haddr : Nat → Option Nat) (pc : Nat) (i : Insn) (nx : Option Insn) (d s : Nat)
    (ho : i.opc.toNat = 0xdc) (hd : mapRegister? i.dst.toNat = some d) (hs : mapRegister? i.src.toNat = some s) :
    JitEmit.arm e haddr pc i nx =
      if i.imm.toInt = 16 then
        .ok (JitEmit.emitAlu32Imm32 (JitEmit.emitAlu32Imm8 (JitEmit.emit1 e 0x66) 0xc1 0 d 8) 0x81 4 d 0xffff, 1)
      else if i.imm.toInt = 32 ∨ i.imm.toInt = 64 then
        .ok (JitEmit.emit1 (JitEmit.emit1 (JitEmit.emitBasicRex e (if i.imm.toInt = 64 then 1 else 0) 0 d) 0x0f) (0xc8 ||| (d &&& 7)), 1)
      else .error .panic := by
  aenc_arm ho hd hs

theorem aenc_ast_dc (haddr : Nat → Option Nat) (pc : Nat) (i : Insn) (nx : Option Insn) (d s : Nat)
    (ho : i.opc.toNat = 0xdc) (hd : mapRegister? i.dst.toNat = some d) (hs : mapRegister? i.src.toNat = some s) :
    JitAst.arm haddr pc i nx =
      if i.imm = 16 then .ok ([.i (.shiftI 16 .rol d 8), .i (.aluRI false .and d 0xffff#32)], 1)
      else if i.imm = 32 then .ok ([.i (.bswap false d)], 1)
      else if i.imm = 64 then .ok ([.i (.bswap true d)], 1) else .error .panic := by
  aenc_arm ho hd hs

theorem aenc_op_dc (e e' : Em) (haddr : Nat → Option Nat) (pc n : Nat) (i : Insn) (nx : Option Insn) (d s : Nat)
    (ho : i.opc.toNat = 0xdc) (hd : mapRegister? i.dst.toNat = some d) (hs : mapRegister? i.src.toNat = some s)
    (hdl : d < 16) (h : JitEmit.arm e haddr pc i nx = .ok (e', n)) :
    ∃ ais, JitAst.arm haddr pc i nx = .ok (ais, n) ∧ Emits e e' ais := by
  rw [aenc_emit_dc e haddr pc i nx d s ho hd hs] at h
  rw [aenc_ast_dc haddr pc i nx d s ho hd hs]
  simp only [aenc_toInt_16, aenc_toInt_32, aenc_toInt_64] at h
  by_cases c16 : i.imm = 16
  · rw [if_pos c16] at h ⊢
    cases h
    exact ⟨_, rfl, prim_emits_cons (prim_emits_rol16 e d hdl) (prim_emits_and32_ffff _ d hdl)⟩
  · rw [if_neg c16] at h ⊢
    by_cases c32 : i.imm = 32
    · have c64 : ¬ i.imm = 64 := by rw [c32]; decide
      rw [if_pos (Or.inl c32), if_neg c64] at h
      rw [if_pos c32]
      cases h
      exact ⟨_, rfl, prim_emits_bswap32 e d hdl⟩
    · rw [if_neg c32]
      by_cases c64 : i.imm = 64
      · rw [if_pos (Or.inr c64), if_pos c64] at h
        rw [if_pos c64]
        cases h
        exact ⟨_, rfl, prim_emits_bswap64 e d hdl⟩
      · rw [if_neg (fun hh => hh.elim c32 c64)] at h
        cases h

-- ---------------------------------------------------------------------------------------------------------
-- `lddw`: two slots

theorem aenc_op_18 (e e' : Em) (haddr : Nat → Option Nat) (pc n : Nat) (i : Insn) (nx : Option Insn) (d s : Nat)
    (ho : i.opc.toNat = 0x18) (hd : mapRegister? i.dst.toNat = some d) (hs : mapRegister? i.src.toNat = some s)
    (hdl : d < 16) (h : JitEmit.arm e haddr pc i nx = .ok (e', n)) :
    ∃ ais, JitAst.arm haddr pc i nx = .ok (ais, n) ∧ Emits e e' ais := by
  cases nx with
  | none =>
    have h1 : JitEmit.arm e haddr pc i none = .error .panic := by aenc_arm ho hd hs
    rw [h1] at h
    cases h
  | some x =>
    exact aenc_finish (k := 2) h (prim_emits_lddw e d i.imm x.imm hdl) (by aenc_arm ho hd hs) (by aenc_arm ho hd hs)

-- ---------------------------------------------------------------------------------------------------------

theorem arm_enc_alu (e e' : Em) (haddr : Nat → Option Nat) (pc n : Nat) (i : Insn) (nx : Option Insn)
    (hc : i.opc.toNat ∈ aluOpcodes)
    (h : JitEmit.arm e haddr pc i nx = .ok (e', n)) :
    ∃ ais, JitAst.arm haddr pc i nx = .ok (ais, n) ∧ Emits e e' ais := by
  obtain ⟨d, s, hd, hs⟩ := prim_arm_regs h
  have hdl := prim_mapRegister_lt hd
  have hsl := prim_mapRegister_lt hs
  simp only [aluOpcodes, List.mem_cons, List.not_mem_nil, or_false] at hc
  rcases hc with ho | ho | ho | ho | ho | ho | ho | ho | ho | ho | ho | ho | ho | ho | ho | ho | ho | ho | ho |
    ho | ho | ho | ho | ho | ho | ho | ho | ho | ho | ho | ho | ho | ho | ho | ho | ho | ho | ho | ho | ho | ho
  · exact aenc_op_07 e e' haddr pc n i nx d s ho hd hs hdl hsl h
  · exact aenc_op_0f e e' haddr pc n i nx d s ho hd hs hdl hsl h
  · exact aenc_op_17 e e' haddr pc n i nx d s ho hd hs hdl hsl h
  · exact aenc_op_1f e e' haddr pc n i nx d s ho hd hs hdl hsl h
  · exact aenc_op_47 e e' haddr pc n i nx d s ho hd hs hdl hsl h
  · exact aenc_op_4f e e' haddr pc n i nx d s ho hd hs hdl hsl h
  · exact aenc_op_57 e e' haddr pc n i nx d s ho hd hs hdl hsl h
  · exact aenc_op_5f e e' haddr pc n i nx d s ho hd hs hdl hsl h
  · exact aenc_op_67 e e' haddr pc n i nx d s ho hd hs hdl hsl h
  · exact aenc_op_6f e e' haddr pc n i nx d s ho hd hs hdl hsl h
  · exact aenc_op_77 e e' haddr pc n i nx d s ho hd hs hdl hsl h
  · exact aenc_op_7f e e' haddr pc n i nx d s ho hd hs hdl hsl h
  · exact aenc_op_87 e e' haddr pc n i nx d s ho hd hs hdl hsl h
  · exact aenc_op_a7 e e' haddr pc n i nx d s ho hd hs hdl hsl h
  · exact aenc_op_af e e' haddr pc n i nx d s ho hd hs hdl hsl h
  · exact aenc_op_b7 e e' haddr pc n i nx d s ho hd hs hdl hsl h
  · exact aenc_op_bf e e' haddr pc n i nx d s ho hd hs hdl hsl h
  · exact aenc_op_c7 e e' haddr pc n i nx d s ho hd hs hdl hsl h
  · exact aenc_op_cf e e' haddr pc n i nx d s ho hd hs hdl hsl h
  · exact aenc_op_04 e e' haddr pc n i nx d s ho hd hs hdl hsl h
  · exact aenc_op_0c e e' haddr pc n i nx d s ho hd hs hdl hsl h
  · exact aenc_op_14 e e' haddr pc n i nx d s ho hd hs hdl hsl h
  · exact aenc_op_1c e e' haddr pc n i nx d s ho hd hs hdl hsl h
  · exact aenc_op_44 e e' haddr pc n i nx d s ho hd hs hdl hsl h
  · exact aenc_op_4c e e' haddr pc n i nx d s ho hd hs hdl hsl h
  · exact aenc_op_54 e e' haddr pc n i nx d s ho hd hs hdl hsl h
  · exact aenc_op_5c e e' haddr pc n i nx d s ho hd hs hdl hsl h
  · exact aenc_op_64 e e' haddr pc n i nx d s ho hd hs hdl hsl h
  · exact aenc_op_6c e e' haddr pc n i nx d s ho hd hs hdl hsl h
  · exact aenc_op_74 e e' haddr pc n i nx d s ho hd hs hdl hsl h
  · exact aenc_op_7c e e' haddr pc n i nx d s ho hd hs hdl hsl h
  · exact aenc_op_84 e e' haddr pc n i nx d s ho hd hs hdl hsl h
  · exact aenc_op_a4 e e' haddr pc n i nx d s ho hd hs hdl hsl h
  · exact aenc_op_ac e e' haddr pc n i nx d s ho hd hs hdl hsl h
  · exact aenc_op_b4 e e' haddr pc n i nx d s ho hd hs hdl hsl h
  · exact aenc_op_bc e e' haddr pc n i nx d s ho hd hs hdl hsl h
  · exact aenc_op_c4 e e' haddr pc n i nx d s ho hd hs hdl hsl h
  · exact aenc_op_cc e e' haddr pc n i nx d s ho hd hs hdl hsl h
  · exact aenc_op_d4 e e' haddr pc n i nx d s ho hd hs hdl h
  · exact aenc_op_dc e e' haddr pc n i nx d s ho hd hs hdl h
  · exact aenc_op_18 e e' haddr pc n i nx d s ho hd hs hdl h

end Rbpf.JitEnc
