/-
  Toolkit for `arm_enc` (part 3b): from the three ModRM/displacement forms (`bMem0`, `bMem1`, `bMem2`, proved by
  enumeration) to `bDisp r m off`, the form `emit_modrm_and_displacement` picks for the displacement `off`.
-/
import RbpfModel.Lemmas.X86Enc.PrimBytes
import RbpfModel.Lemmas.X86Enc.PrimArith
namespace Rbpf.JitEnc
open Rbpf.X86 (Instr decode le32 sext8)
open Rbpf.JitEmit

/-- prefix `P`, then ModRM + displacement, then a suffix `S` (immediate bytes; `[]` for loads and stores) -/
theorem prim_dec_mem_glue (P S : List Nat) (r m : Nat) (K : Int → Instr) (off : Int)
    (hoff : -2147483648 ≤ off ∧ off ≤ 2147483647)
    (h0 : m &&& 7 ≠ 5 → ∀ tail, decode ((P ++ bMem0 r m ++ S) ++ tail) = some (K 0, (P ++ bMem0 r m ++ S).length))
    (h1 : ∀ d8 tail, decode ((P ++ bMem1 r m d8 ++ S) ++ tail) = some (K (sext8 d8), (P ++ bMem1 r m d8 ++ S).length))
    (h2 : ∀ a0 a1 a2 a3 tail, decode ((P ++ bMem2 r m a0 a1 a2 a3 ++ S) ++ tail) =
      some (K (le32 a0 a1 a2 a3).toInt, (P ++ bMem2 r m a0 a1 a2 a3 ++ S).length))
    (tail : List Nat) : decode ((P ++ bDisp r m off ++ S) ++ tail) = some (K off, (P ++ bDisp r m off ++ S).length) := by
  unfold bDisp
  split
  · rename_i h
    obtain ⟨rfl, hm⟩ := h
    exact h0 hm tail
  · split
    · rename_i h
      have := h1 (u8 off) tail
      rw [prim_sext8_u8 off h] at this
      exact this
    · have := h2 (u32 off % 256) ((u32 off >>> 8) % 256) ((u32 off >>> 16) % 256) ((u32 off >>> 24) % 256) tail
      rw [prim_le32_disp off hoff] at this
      exact this

theorem prim_dec_mem_glue0 (P : List Nat) (r m : Nat) (K : Int → Instr) (off : Int)
    (hoff : -2147483648 ≤ off ∧ off ≤ 2147483647)
    (h0 : m &&& 7 ≠ 5 → ∀ tail, decode ((P ++ bMem0 r m) ++ tail) = some (K 0, (P ++ bMem0 r m).length))
    (h1 : ∀ d8 tail, decode ((P ++ bMem1 r m d8) ++ tail) = some (K (sext8 d8), (P ++ bMem1 r m d8).length))
    (h2 : ∀ a0 a1 a2 a3 tail, decode ((P ++ bMem2 r m a0 a1 a2 a3) ++ tail) =
      some (K (le32 a0 a1 a2 a3).toInt, (P ++ bMem2 r m a0 a1 a2 a3).length))
    (tail : List Nat) : decode ((P ++ bDisp r m off) ++ tail) = some (K off, (P ++ bDisp r m off).length) := by
  have := prim_dec_mem_glue P [] r m K off hoff (by simpa using h0) (by simpa using h1) (by simpa using h2) tail
  simpa using this

end Rbpf.JitEnc
