/-
  Helpers for `Lemmas/X86Enc/Arm.lean`: the opcodes outside the three classes (`call` 0x85, `tail_call` 0x8d, `exit` 0x95,
  every byte value that is no opcode) and the error structure of the two arm functions.

  * `renc_opc_cases`      every byte value is in one of the three class lists, or 0x85 / 0x8d / 0x95, or unknown;
  * `renc_emit_err_cases` when (and with which failure) `JitEmit.arm` fails, registers being valid;
  * `renc_ast_err`        in each of those situations `JitAst.arm` fails the same way;
  * `renc_emit_rest_ok`   what `JitEmit.arm` returns when it succeeds on an opcode outside the classes;
  * `renc_ast_rest_ok`    and `JitAst.arm` in those situations.
  Each of the last four is one unfolding of the arm function followed by one `split` on the opcode.
-/
import RbpfModel.Model.JitSim
import RbpfModel.Lemmas.X86Enc.Prim
namespace Rbpf.JitEnc
open Rbpf.X86 (Instr Cc decode ccOf)
open Rbpf.JitAst (AI Tgt)
open Rbpf.JitEmit (Em Fail mapRegister?)
open Rbpf.JitSim (aluOpcodes mulDivOpcodes jumpOpcodes memOpcodes)

/-- every opcode that has an arm of its own in `jit_compile` -/
def renc_known : List Nat := aluOpcodes ++ (mulDivOpcodes ++ jumpOpcodes) ++ memOpcodes ++ [0x85, 0x8d, 0x95]

set_option maxRecDepth 100000 in
theorem renc_opc_cases : ∀ o : BitVec 8, o.toNat ∈ aluOpcodes ∨ o.toNat ∈ mulDivOpcodes ++ jumpOpcodes ∨ o.toNat ∈ memOpcodes ∨
    o.toNat = 0x85 ∨ o.toNat = 0x8d ∨ o.toNat = 0x95 ∨ o.toNat ∉ renc_known := by decide

/-- the situations in which an arm fails (registers valid), with the failure -/
def renc_ErrCase (haddr : Nat → Option Nat) (i : Insn) (nx : Option Insn) (f : Fail) : Prop :=
  (i.opc.toNat = 0x18 ∧ nx = none ∧ f = .panic) ∨
  (i.opc.toNat = 0xd4 ∧ i.imm.toInt ≠ 16 ∧ i.imm.toInt ≠ 32 ∧ i.imm.toInt ≠ 64 ∧ f = .panic) ∨
  (i.opc.toNat = 0xdc ∧ i.imm.toInt ≠ 16 ∧ i.imm.toInt ≠ 32 ∧ i.imm.toInt ≠ 64 ∧ f = .panic) ∨
  (i.opc.toNat = 0x85 ∧ i.src = 0 ∧ haddr i.imm.toNat = none ∧ f = .err) ∨
  (i.opc.toNat = 0x85 ∧ i.src ≠ 0 ∧ i.src ≠ 1 ∧ f = .err) ∨
  (i.opc.toNat = 0x8d ∧ f = .panic) ∨
  (i.opc.toNat ∉ renc_known ∧ f = .err)

set_option maxHeartbeats 800000 in -- one `simp only` over the whole opcode match (≈7 s)
theorem renc_emit_err_cases (e : Em) (haddr : Nat → Option Nat) (pc : Nat) (i : Insn) (nx : Option Insn) (f : Fail) (d s : Nat)
    (hd : mapRegister? i.dst.toNat = some d) (hs : mapRegister? i.src.toNat = some s)
    (h : JitEmit.arm e haddr pc i nx = .error f) : renc_ErrCase haddr i nx f := by
  obtain ⟨opc, dst, src, off, imm⟩ := i
  unfold renc_ErrCase
  unfold JitEmit.arm at h
  simp only [hd, hs] at h
  split at h
  case h_9 =>
    rename_i heq
    split at h
    · exact Or.inl ⟨heq, rfl, by cases h; rfl⟩
    · cases h
  case h_49 =>
    rename_i heq
    refine Or.inr (Or.inl ?_)
    split at h
    · cases h
    split at h
    · cases h
    split at h
    · cases h
    · exact ⟨heq, ‹_›, ‹_›, ‹_›, by cases h; rfl⟩
  case h_50 =>
    rename_i heq
    refine Or.inr (Or.inr (Or.inl ?_))
    split at h
    · cases h
    split at h
    · cases h
    · rename_i h1 h2
      exact ⟨heq, h1, fun h' => h2 (Or.inl h'), fun h' => h2 (Or.inr h'), by cases h; rfl⟩
  case h_121 =>
    rename_i heq
    refine Or.inr (Or.inr (Or.inr ?_))
    split at h
    · rename_i h0
      split at h
      · cases h
      · rename_i hn
        exact Or.inl ⟨heq, h0, hn, by cases h; rfl⟩
    · split at h
      · cases h
      · exact Or.inr (Or.inl ⟨heq, ‹_›, ‹_›, by cases h; rfl⟩)
  case h_122 =>
    rename_i heq
    exact Or.inr (Or.inr (Or.inr (Or.inr (Or.inr (Or.inl ⟨heq, by cases h; rfl⟩)))))
  case h_124 =>
    refine Or.inr (Or.inr (Or.inr (Or.inr (Or.inr (Or.inr ⟨?_, by cases h; rfl⟩)))))
    show ¬ opc.toNat ∈ renc_known
    intro hm
    simp only [renc_known, aluOpcodes, mulDivOpcodes, jumpOpcodes, memOpcodes, List.mem_append, List.mem_cons,
      List.not_mem_nil, or_false] at hm
    grind
  all_goals (cases h; done)

theorem renc_toInt_ne {v : BitVec 32} {k : Int} (w : BitVec 32) (hw : w.toInt = k) (h : v.toInt ≠ k) : v ≠ w :=
  fun e => h (by rw [e, hw])

/-- the opcode part of `renc_ErrCase` -/
theorem renc_ErrCase_opc {haddr : Nat → Option Nat} {i : Insn} {nx : Option Insn} {f : Fail} (H : renc_ErrCase haddr i nx f) :
    i.opc.toNat = 0x18 ∨ i.opc.toNat = 0xd4 ∨ i.opc.toNat = 0xdc ∨ i.opc.toNat = 0x85 ∨ i.opc.toNat = 0x8d ∨
      i.opc.toNat ∉ renc_known := by
  rcases H with H | H | H | H | H | H | H
  · exact Or.inl H.1
  · exact Or.inr (Or.inl H.1)
  · exact Or.inr (Or.inr (Or.inl H.1))
  · exact Or.inr (Or.inr (Or.inr (Or.inl H.1)))
  · exact Or.inr (Or.inr (Or.inr (Or.inl H.1)))
  · exact Or.inr (Or.inr (Or.inr (Or.inr (Or.inl H.1))))
  · exact Or.inr (Or.inr (Or.inr (Or.inr (Or.inr H.1))))

set_option maxHeartbeats 800000 in -- one `simp only` over the whole opcode match (≈7 s)
theorem renc_ast_err (haddr : Nat → Option Nat) (pc : Nat) (i : Insn) (nx : Option Insn) (f : Fail) (d s : Nat)
    (hd : mapRegister? i.dst.toNat = some d) (hs : mapRegister? i.src.toNat = some s)
    (H : renc_ErrCase haddr i nx f) : JitAst.arm haddr pc i nx = .error f := by
  have Hk := renc_ErrCase_opc H
  obtain ⟨opc, dst, src, off, imm⟩ := i
  unfold renc_ErrCase at H
  unfold JitAst.arm
  simp only [hd, hs]
  dsimp only at H Hk
  split
  case h_9 =>
    rename_i heq
    rcases H with H | H | H | H | H | H | H
    · obtain ⟨_, rfl, rfl⟩ := H; rfl
    all_goals (exfalso; have := H.1; first | omega | (rw [heq] at this; exact absurd this (by decide)))
  case h_49 =>
    rename_i heq
    rcases H with H | H | H | H | H | H | H
    · exfalso; omega
    · obtain ⟨_, h1, h2, h3, rfl⟩ := H
      rw [if_neg (renc_toInt_ne 16 rfl h1), if_neg (renc_toInt_ne 32 rfl h2), if_neg (renc_toInt_ne 64 rfl h3)]
    all_goals (exfalso; have := H.1; first | omega | (rw [heq] at this; exact absurd this (by decide)))
  case h_50 =>
    rename_i heq
    rcases H with H | H | H | H | H | H | H
    · exfalso; omega
    · exfalso; omega
    · obtain ⟨_, h1, h2, h3, rfl⟩ := H
      rw [if_neg (renc_toInt_ne 16 rfl h1), if_neg (renc_toInt_ne 32 rfl h2), if_neg (renc_toInt_ne 64 rfl h3)]
    all_goals (exfalso; have := H.1; first | omega | (rw [heq] at this; exact absurd this (by decide)))
  case h_121 =>
    rename_i heq
    rcases H with H | H | H | H | H | H | H
    · exfalso; omega
    · exfalso; omega
    · exfalso; omega
    · obtain ⟨_, h0, hn, rfl⟩ := H
      rw [if_pos h0]
      simp only [hn]
    · obtain ⟨_, h0, h1, rfl⟩ := H
      rw [if_neg h0, if_neg h1]
    all_goals (exfalso; have := H.1; first | omega | (rw [heq] at this; exact absurd this (by decide)))
  case h_122 =>
    rename_i heq
    rcases H with H | H | H | H | H | H | H
    · exfalso; omega
    · exfalso; omega
    · exfalso; omega
    · exfalso; omega
    · exfalso; omega
    · rw [H.2]
    · exfalso; have := H.1; rw [heq] at this; exact absurd this (by decide)
  case h_124 =>
    rcases H with H | H | H | H | H | H | H
    · exact absurd H.1 ‹_›
    · exact absurd H.1 ‹_›
    · exact absurd H.1 ‹_›
    · exact absurd H.1 ‹_›
    · exact absurd H.1 ‹_›
    · exact absurd H.1 ‹_›
    · rw [H.2]
  all_goals (exfalso; rename_i heq; rw [heq] at Hk; exact absurd Hk (by decide))

-- ---------------------------------------------------------------------------------------------------------
-- successful arms outside the classes

/-- what a successful arm outside the three classes did -/
def renc_OkCase (e e' : Em) (haddr : Nat → Option Nat) (pc : Nat) (i : Insn) (ais : List AI) : Prop :=
  (i.opc.toNat = 0x85 ∧ i.src = 0 ∧ ∃ addr, haddr i.imm.toNat = some addr ∧
      e' = JitEmit.emitPop (JitEmit.emitCall (JitEmit.emitMov (JitEmit.emitPush e JitEmit.R10) JitEmit.R9 JitEmit.RCX) addr) JitEmit.R10 ∧
      ais = [.i (.push JitAst.R10), .i (JitAst.movRR JitAst.R9 JitAst.RCX),
             .i (JitAst.loadImm JitAst.RAX (BitVec.ofNat 64 addr).toInt), .i (.callReg JitAst.RAX), .i (.pop JitAst.R10)]) ∨
  (i.opc.toNat = 0x85 ∧ i.src ≠ 0 ∧ i.src = 1 ∧
      e' = JitEmit.emitLocalCall e ((pc : Int) + i.imm.toInt + 1) ∧
      ais = [.i (.push JitAst.R10), .i (.push JitAst.RBX), .i (.push JitAst.R13), .i (.push JitAst.R14), .i (.push JitAst.R15),
             .call (.pc ((pc : Int) + i.imm.toInt + 1)),
             .i (.pop JitAst.R15), .i (.pop JitAst.R14), .i (.pop JitAst.R13), .i (.pop JitAst.RBX), .i (.pop JitAst.R10)]) ∨
  (i.opc.toNat = 0x95 ∧ e' = JitEmit.emit1 e 0xc3 ∧ ais = [.i .ret])

set_option maxHeartbeats 800000 in -- one `simp only` over the whole opcode match (≈7 s)
theorem renc_emit_rest_ok (e e' : Em) (haddr : Nat → Option Nat) (pc n : Nat) (i : Insn) (nx : Option Insn) (d s : Nat)
    (hd : mapRegister? i.dst.toNat = some d) (hs : mapRegister? i.src.toNat = some s)
    (hk : i.opc.toNat = 0x85 ∨ i.opc.toNat = 0x8d ∨ i.opc.toNat = 0x95 ∨ i.opc.toNat ∉ renc_known)
    (h : JitEmit.arm e haddr pc i nx = .ok (e', n)) : n = 1 ∧ ∃ ais, renc_OkCase e e' haddr pc i ais := by
  obtain ⟨opc, dst, src, off, imm⟩ := i
  unfold renc_OkCase
  unfold JitEmit.arm at h
  simp only [hd, hs] at h
  dsimp only at hk
  split at h
  case h_121 =>
    rename_i heq
    split at h
    · rename_i h0
      split at h
      · rename_i addr ha
        simp only [Except.ok.injEq, Prod.mk.injEq] at h
        obtain ⟨rfl, rfl⟩ := h
        exact ⟨rfl, _, Or.inl ⟨heq, h0, addr, ha, rfl, rfl⟩⟩
      · cases h
    · rename_i h0
      split at h
      · rename_i h1
        simp only [Except.ok.injEq, Prod.mk.injEq] at h
        obtain ⟨rfl, rfl⟩ := h
        exact ⟨rfl, _, Or.inr (Or.inl ⟨heq, h0, h1, rfl, rfl⟩)⟩
      · cases h
  case h_122 => cases h
  case h_123 =>
    rename_i heq
    simp only [Except.ok.injEq, Prod.mk.injEq] at h
    obtain ⟨rfl, rfl⟩ := h
    exact ⟨rfl, _, Or.inr (Or.inr ⟨heq, rfl, rfl⟩)⟩
  case h_124 => cases h
  all_goals (exfalso; rename_i heq; rw [heq] at hk; exact absurd hk (by decide))

set_option maxHeartbeats 800000 in -- one `simp only` over the whole opcode match (≈7 s)
theorem renc_ast_rest_ok (e e' : Em) (haddr : Nat → Option Nat) (pc : Nat) (i : Insn) (nx : Option Insn) (d s : Nat) (ais : List AI)
    (hd : mapRegister? i.dst.toNat = some d) (hs : mapRegister? i.src.toNat = some s)
    (H : renc_OkCase e e' haddr pc i ais) : JitAst.arm haddr pc i nx = .ok (ais, 1) := by
  have Hk : i.opc.toNat = 0x85 ∨ i.opc.toNat = 0x95 := by
    rcases H with H | H | H
    · exact Or.inl H.1
    · exact Or.inl H.1
    · exact Or.inr H.1
  obtain ⟨opc, dst, src, off, imm⟩ := i
  unfold renc_OkCase at H
  unfold JitAst.arm
  simp only [hd, hs]
  dsimp only at H Hk
  split
  case h_121 =>
    rcases H with H | H | H
    · obtain ⟨_, h0, addr, ha, _, rfl⟩ := H
      rw [if_pos h0]
      simp only [ha]
    · obtain ⟨_, h0, h1, _, rfl⟩ := H
      rw [if_neg h0, if_pos h1]
    · exfalso; omega
  case h_123 =>
    rcases H with H | H | H
    · exfalso; omega
    · exfalso; omega
    · rw [H.2.2]
  case h_124 =>
    rcases Hk with hk | hk
    · exact absurd hk ‹_›
    · exact absurd hk ‹_›
  all_goals (exfalso; rename_i heq; rw [heq] at Hk; exact absurd Hk (by decide))

end Rbpf.JitEnc
