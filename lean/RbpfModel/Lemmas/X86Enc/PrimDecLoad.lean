/-
  Toolkit for `arm_enc` (part 3c): decode lemmas for the loads, by enumeration over the registers
  (see `PrimDecReg.lean`).  The base register must not be rsp / r12 (`m &&& 7 ≠ 4`: that ModRM value announces a SIB
  byte, which the JIT never emits and the decoder rejects); the JIT only uses mapped registers, r10, r11, rcx, r8, r9 as bases.
-/
import RbpfModel.Lemmas.X86Enc.PrimMemGlue
namespace Rbpf.JitEnc
open Rbpf.X86 (Instr Cc AluOp ShOp decode ccOf le32 sext8)
open Rbpf.JitEmit


theorem prim_dec_load_8_0 : ∀ s, s < 16 → ∀ d, d < 16 → s &&& 7 ≠ 4 → s &&& 7 ≠ 5 → ∀ tail,
    decode ((bLoadPre 8 s d ++ bMem0 d s) ++ tail) = some (.load 8 d s 0, (bLoadPre 8 s d ++ bMem0 d s).length) := by enum2
theorem prim_dec_load_8_1 : ∀ s, s < 16 → ∀ d, d < 16 → s &&& 7 ≠ 4 → ∀ d8 tail,
    decode ((bLoadPre 8 s d ++ bMem1 d s d8) ++ tail) = some (.load 8 d s (sext8 d8), (bLoadPre 8 s d ++ bMem1 d s d8).length) := by enum2
theorem prim_dec_load_8_2 : ∀ s, s < 16 → ∀ d, d < 16 → s &&& 7 ≠ 4 → ∀ a0 a1 a2 a3 tail,
    decode ((bLoadPre 8 s d ++ bMem2 d s a0 a1 a2 a3) ++ tail) = some (.load 8 d s (le32 a0 a1 a2 a3).toInt, (bLoadPre 8 s d ++ bMem2 d s a0 a1 a2 a3).length) := by enum2
theorem prim_dec_load_16_0 : ∀ s, s < 16 → ∀ d, d < 16 → s &&& 7 ≠ 4 → s &&& 7 ≠ 5 → ∀ tail,
    decode ((bLoadPre 16 s d ++ bMem0 d s) ++ tail) = some (.load 16 d s 0, (bLoadPre 16 s d ++ bMem0 d s).length) := by enum2
theorem prim_dec_load_16_1 : ∀ s, s < 16 → ∀ d, d < 16 → s &&& 7 ≠ 4 → ∀ d8 tail,
    decode ((bLoadPre 16 s d ++ bMem1 d s d8) ++ tail) = some (.load 16 d s (sext8 d8), (bLoadPre 16 s d ++ bMem1 d s d8).length) := by enum2
theorem prim_dec_load_16_2 : ∀ s, s < 16 → ∀ d, d < 16 → s &&& 7 ≠ 4 → ∀ a0 a1 a2 a3 tail,
    decode ((bLoadPre 16 s d ++ bMem2 d s a0 a1 a2 a3) ++ tail) = some (.load 16 d s (le32 a0 a1 a2 a3).toInt, (bLoadPre 16 s d ++ bMem2 d s a0 a1 a2 a3).length) := by enum2
theorem prim_dec_load_32_0 : ∀ s, s < 16 → ∀ d, d < 16 → s &&& 7 ≠ 4 → s &&& 7 ≠ 5 → ∀ tail,
    decode ((bLoadPre 32 s d ++ bMem0 d s) ++ tail) = some (.load 32 d s 0, (bLoadPre 32 s d ++ bMem0 d s).length) := by enum2
theorem prim_dec_load_32_1 : ∀ s, s < 16 → ∀ d, d < 16 → s &&& 7 ≠ 4 → ∀ d8 tail,
    decode ((bLoadPre 32 s d ++ bMem1 d s d8) ++ tail) = some (.load 32 d s (sext8 d8), (bLoadPre 32 s d ++ bMem1 d s d8).length) := by enum2
theorem prim_dec_load_32_2 : ∀ s, s < 16 → ∀ d, d < 16 → s &&& 7 ≠ 4 → ∀ a0 a1 a2 a3 tail,
    decode ((bLoadPre 32 s d ++ bMem2 d s a0 a1 a2 a3) ++ tail) = some (.load 32 d s (le32 a0 a1 a2 a3).toInt, (bLoadPre 32 s d ++ bMem2 d s a0 a1 a2 a3).length) := by enum2
theorem prim_dec_load_64_0 : ∀ s, s < 16 → ∀ d, d < 16 → s &&& 7 ≠ 4 → s &&& 7 ≠ 5 → ∀ tail,
    decode ((bLoadPre 64 s d ++ bMem0 d s) ++ tail) = some (.load 64 d s 0, (bLoadPre 64 s d ++ bMem0 d s).length) := by enum2
theorem prim_dec_load_64_1 : ∀ s, s < 16 → ∀ d, d < 16 → s &&& 7 ≠ 4 → ∀ d8 tail,
    decode ((bLoadPre 64 s d ++ bMem1 d s d8) ++ tail) = some (.load 64 d s (sext8 d8), (bLoadPre 64 s d ++ bMem1 d s d8).length) := by enum2
theorem prim_dec_load_64_2 : ∀ s, s < 16 → ∀ d, d < 16 → s &&& 7 ≠ 4 → ∀ a0 a1 a2 a3 tail,
    decode ((bLoadPre 64 s d ++ bMem2 d s a0 a1 a2 a3) ++ tail) = some (.load 64 d s (le32 a0 a1 a2 a3).toInt, (bLoadPre 64 s d ++ bMem2 d s a0 a1 a2 a3).length) := by enum2

/-- `emit_load(size, src, dst, off)` decodes to `load size dst, [src + off]` -/
theorem prim_dec_load (sz s d : Nat) (off : Int) (hsz : sz = 8 ∨ sz = 16 ∨ sz = 32 ∨ sz = 64) (hs : s < 16) (hd : d < 16)
    (hs4 : s &&& 7 ≠ 4) (hoff : -2147483648 ≤ off ∧ off ≤ 2147483647) (tail : List Nat) :
    decode (bLoad sz s d off ++ tail) = some (.load sz d s off, (bLoad sz s d off).length) := by
  unfold bLoad
  rcases hsz with rfl | rfl | rfl | rfl
  · exact prim_dec_mem_glue0 _ d s (fun x => .load 8 d s x) off hoff (fun h5 => prim_dec_load_8_0 s hs d hd hs4 h5)
      (prim_dec_load_8_1 s hs d hd hs4) (prim_dec_load_8_2 s hs d hd hs4) tail
  · exact prim_dec_mem_glue0 _ d s (fun x => .load 16 d s x) off hoff (fun h5 => prim_dec_load_16_0 s hs d hd hs4 h5)
      (prim_dec_load_16_1 s hs d hd hs4) (prim_dec_load_16_2 s hs d hd hs4) tail
  · exact prim_dec_mem_glue0 _ d s (fun x => .load 32 d s x) off hoff (fun h5 => prim_dec_load_32_0 s hs d hd hs4 h5)
      (prim_dec_load_32_1 s hs d hd hs4) (prim_dec_load_32_2 s hs d hd hs4) tail
  · exact prim_dec_mem_glue0 _ d s (fun x => .load 64 d s x) off hoff (fun h5 => prim_dec_load_64_0 s hs d hd hs4 h5)
      (prim_dec_load_64_1 s hs d hd hs4) (prim_dec_load_64_2 s hs d hd hs4) tail

end Rbpf.JitEnc
