/-
  Byte level = instruction level for the arms of opcode class `memOpcodes` (see Lemmas/X86Enc/Arm.lean).

  Design (fast: every declaration well under a second): both `arm` functions, applied to an instruction with a LITERAL
  opcode, reduce definitionally to "match the two mapped registers, then `.ok (…, 1)`" (`mencE` / `mencA` below, checked
  by `rfl`: the 150-arm `match` on the opcode evaluates away).  `menc_core` does the common part once; one lemma per
  opcode supplies the two descriptions and the `prim_emits_…` fact relating them; `arm_enc_mem` splits the class
  membership into the 22 literal opcodes.
-/
import RbpfModel.Model.JitSim
import RbpfModel.Lemmas.X86Enc.Prim
namespace Rbpf.JitEnc
open Rbpf.X86 (Instr Cc decode ccOf)
open Rbpf.JitAst (AI Tgt)
open Rbpf.JitEmit (Em Fail)
open Rbpf.JitSim (aluOpcodes mulDivOpcodes jumpOpcodes memOpcodes)

-- ---------------------------------------------------------------------------------------------------------
-- the common shape of a one-slot arm

/-- byte level: map both registers (panic if one is out of range), then emit `f d s`; one slot -/
def mencE (dst src : BitVec 8) (f : Nat → Nat → Em) : Except Fail (Em × Nat) :=
  match JitEmit.mapRegister? dst.toNat, JitEmit.mapRegister? src.toNat with
  | none, _ => .error .panic
  | _, none => .error .panic
  | some d, some s => .ok (f d s, 1)

/-- instruction level: the same with the instruction list `g d s` -/
def mencA (dst src : BitVec 8) (g : Nat → Nat → List AI) : Except Fail (List AI × Nat) :=
  match JitEmit.mapRegister? dst.toNat, JitEmit.mapRegister? src.toNat with
  | none, _ => .error .panic
  | _, none => .error .panic
  | some d, some s => .ok (g d s, 1)

/-- if the byte-level arm is `mencE dst src f`, the instruction-level arm is `mencA dst src g`, and `f d s` emits
    `g d s` for mapped registers `d s`, then the arm satisfies the statement of `arm_enc` -/
theorem menc_core {e e' : Em} {n : Nat} {dst src : BitVec 8} {f : Nat → Nat → Em} {g : Nat → Nat → List AI}
    {X : Except Fail (Em × Nat)} {Y : Except Fail (List AI × Nat)} (hX : X = mencE dst src f) (hY : Y = mencA dst src g)
    (H : ∀ d s, JitEmit.mapRegister? dst.toNat = some d → JitEmit.mapRegister? src.toNat = some s → Emits e (f d s) (g d s))
    (h : X = .ok (e', n)) : ∃ ais, Y = .ok (ais, n) ∧ Emits e e' ais := by
  subst hX hY
  unfold mencE at h
  unfold mencA
  split at h
  · cases h
  · cases h
  · rename_i d s hd hs
    cases h
    exact ⟨_, rfl, H d s hd hs⟩

/-- the side conditions of the memory primitives, for a mapped register -/
theorem menc_reg {r x : Nat} (h : JitEmit.mapRegister? r = some x) : x < 16 ∧ x &&& 7 ≠ 4 := prim_mapRegister h

-- ---------------------------------------------------------------------------------------------------------
-- the four shapes, for any size (the opcode lemmas instantiate `sz` with a literal)

theorem menc_load (e : Em) (sz : Nat) (hsz : sz = 8 ∨ sz = 16 ∨ sz = 32 ∨ sz = 64) (dst src : BitVec 8) (off : BitVec 16) :
    ∀ d s, JitEmit.mapRegister? dst.toNat = some d → JitEmit.mapRegister? src.toNat = some s →
      Emits e (JitEmit.emitLoad e sz s d off.toInt) [.i (.load sz d s off.toInt)] :=
  fun d s hd hs => prim_emits_load e sz s d _ hsz (menc_reg hs).1 (menc_reg hd).1 (menc_reg hs).2 (prim_off_range off)

theorem menc_store (e : Em) (sz : Nat) (hsz : sz = 8 ∨ sz = 16 ∨ sz = 32 ∨ sz = 64) (dst src : BitVec 8) (off : BitVec 16) :
    ∀ d s, JitEmit.mapRegister? dst.toNat = some d → JitEmit.mapRegister? src.toNat = some s →
      Emits e (JitEmit.emitStore e sz s d off.toInt) [.i (.store sz s d off.toInt)] :=
  fun d s hd hs => prim_emits_store e sz s d _ hsz (menc_reg hs).1 (menc_reg hd).1 (menc_reg hd).2 (prim_off_range off)

theorem menc_storeImm (e : Em) (sz : Nat) (hsz : sz = 8 ∨ sz = 16 ∨ sz = 32 ∨ sz = 64) (dst src : BitVec 8) (off : BitVec 16)
    (imm : BitVec 32) :
    ∀ d s, JitEmit.mapRegister? dst.toNat = some d → JitEmit.mapRegister? src.toNat = some s →
      Emits e (JitEmit.emitStoreImm32 e sz d off.toInt imm.toInt) [.i (.storeI sz d off.toInt (JitAst.storeImm sz imm))] :=
  fun d _ hd _ => prim_emits_storeImm e sz d _ imm hsz (menc_reg hd).1 (menc_reg hd).2 (prim_off_range off)

theorem menc_ldabs (e : Em) (sz : Nat) (hsz : sz = 8 ∨ sz = 16 ∨ sz = 32 ∨ sz = 64) (dst src : BitVec 8) (imm : BitVec 32) :
    ∀ d s, JitEmit.mapRegister? dst.toNat = some d → JitEmit.mapRegister? src.toNat = some s →
      Emits e (JitEmit.emitLoadPacket e sz JitEmit.R10 imm.toInt) (JitAst.loadPacket sz JitAst.R10 imm) :=
  fun _ _ _ _ => prim_emits_loadPacket e sz JitEmit.R10 imm hsz (by decide) (by decide)

theorem menc_ldind (e : Em) (sz : Nat) (hsz : sz = 8 ∨ sz = 16 ∨ sz = 32 ∨ sz = 64) (dst src : BitVec 8) (imm : BitVec 32) :
    ∀ d s, JitEmit.mapRegister? dst.toNat = some d → JitEmit.mapRegister? src.toNat = some s →
      Emits e (JitEmit.emitLoadPacket (JitEmit.emitAlu64 (JitEmit.emitMov e JitEmit.R10 JitEmit.R11) 0x01 s JitEmit.R11) sz
          JitEmit.R11 imm.toInt)
        ([.i (JitAst.movRR JitAst.R10 JitAst.R11), .i (.aluRR true .add s JitAst.R11)] ++ JitAst.loadPacket sz JitAst.R11 imm) :=
  fun _ s _ hs =>
    prim_emits_trans
      (prim_emits_cons (prim_emits_mov e JitEmit.R10 JitEmit.R11 (by decide) (by decide))
        (prim_emits_alu64 _ 0x01 s JitEmit.R11 .add rfl (menc_reg hs).1 (by decide)))
      (prim_emits_loadPacket _ sz JitEmit.R11 imm hsz (by decide) (by decide))

-- ---------------------------------------------------------------------------------------------------------
-- one lemma per opcode

section
variable (e e' : Em) (haddr : Nat → Option Nat) (pc n : Nat) (dst src : BitVec 8) (off : BitVec 16) (imm : BitVec 32)
  (nx : Option Insn)

-- ldx
theorem menc_71 (h : JitEmit.arm e haddr pc ⟨0x71, dst, src, off, imm⟩ nx = .ok (e', n)) :
    ∃ ais, JitAst.arm haddr pc ⟨0x71, dst, src, off, imm⟩ nx = .ok (ais, n) ∧ Emits e e' ais :=
  menc_core rfl rfl (menc_load e 8 (by decide) dst src off) h
theorem menc_69 (h : JitEmit.arm e haddr pc ⟨0x69, dst, src, off, imm⟩ nx = .ok (e', n)) :
    ∃ ais, JitAst.arm haddr pc ⟨0x69, dst, src, off, imm⟩ nx = .ok (ais, n) ∧ Emits e e' ais :=
  menc_core rfl rfl (menc_load e 16 (by decide) dst src off) h
theorem menc_61 (h : JitEmit.arm e haddr pc ⟨0x61, dst, src, off, imm⟩ nx = .ok (e', n)) :
    ∃ ais, JitAst.arm haddr pc ⟨0x61, dst, src, off, imm⟩ nx = .ok (ais, n) ∧ Emits e e' ais :=
  menc_core rfl rfl (menc_load e 32 (by decide) dst src off) h
theorem menc_79 (h : JitEmit.arm e haddr pc ⟨0x79, dst, src, off, imm⟩ nx = .ok (e', n)) :
    ∃ ais, JitAst.arm haddr pc ⟨0x79, dst, src, off, imm⟩ nx = .ok (ais, n) ∧ Emits e e' ais :=
  menc_core rfl rfl (menc_load e 64 (by decide) dst src off) h

-- st (immediate); for 32 and 64 bits the instruction-level description carries `imm` itself
theorem menc_72 (h : JitEmit.arm e haddr pc ⟨0x72, dst, src, off, imm⟩ nx = .ok (e', n)) :
    ∃ ais, JitAst.arm haddr pc ⟨0x72, dst, src, off, imm⟩ nx = .ok (ais, n) ∧ Emits e e' ais :=
  menc_core rfl rfl (menc_storeImm e 8 (by decide) dst src off imm) h
theorem menc_6a (h : JitEmit.arm e haddr pc ⟨0x6a, dst, src, off, imm⟩ nx = .ok (e', n)) :
    ∃ ais, JitAst.arm haddr pc ⟨0x6a, dst, src, off, imm⟩ nx = .ok (ais, n) ∧ Emits e e' ais :=
  menc_core rfl rfl (menc_storeImm e 16 (by decide) dst src off imm) h
theorem menc_62 (h : JitEmit.arm e haddr pc ⟨0x62, dst, src, off, imm⟩ nx = .ok (e', n)) :
    ∃ ais, JitAst.arm haddr pc ⟨0x62, dst, src, off, imm⟩ nx = .ok (ais, n) ∧ Emits e e' ais :=
  menc_core (g := fun d _ => [.i (.storeI 32 d off.toInt imm)]) rfl rfl
    (fun d s hd hs => prim_emits_congr (menc_storeImm e 32 (by decide) dst src off imm d s hd hs) (by rw [prim_storeImm32])) h
theorem menc_7a (h : JitEmit.arm e haddr pc ⟨0x7a, dst, src, off, imm⟩ nx = .ok (e', n)) :
    ∃ ais, JitAst.arm haddr pc ⟨0x7a, dst, src, off, imm⟩ nx = .ok (ais, n) ∧ Emits e e' ais :=
  menc_core (g := fun d _ => [.i (.storeI 64 d off.toInt imm)]) rfl rfl
    (fun d s hd hs => prim_emits_congr (menc_storeImm e 64 (by decide) dst src off imm d s hd hs) (by rw [prim_storeImm64])) h

-- stx
theorem menc_73 (h : JitEmit.arm e haddr pc ⟨0x73, dst, src, off, imm⟩ nx = .ok (e', n)) :
    ∃ ais, JitAst.arm haddr pc ⟨0x73, dst, src, off, imm⟩ nx = .ok (ais, n) ∧ Emits e e' ais :=
  menc_core rfl rfl (menc_store e 8 (by decide) dst src off) h
theorem menc_6b (h : JitEmit.arm e haddr pc ⟨0x6b, dst, src, off, imm⟩ nx = .ok (e', n)) :
    ∃ ais, JitAst.arm haddr pc ⟨0x6b, dst, src, off, imm⟩ nx = .ok (ais, n) ∧ Emits e e' ais :=
  menc_core rfl rfl (menc_store e 16 (by decide) dst src off) h
theorem menc_63 (h : JitEmit.arm e haddr pc ⟨0x63, dst, src, off, imm⟩ nx = .ok (e', n)) :
    ∃ ais, JitAst.arm haddr pc ⟨0x63, dst, src, off, imm⟩ nx = .ok (ais, n) ∧ Emits e e' ais :=
  menc_core rfl rfl (menc_store e 32 (by decide) dst src off) h
theorem menc_7b (h : JitEmit.arm e haddr pc ⟨0x7b, dst, src, off, imm⟩ nx = .ok (e', n)) :
    ∃ ais, JitAst.arm haddr pc ⟨0x7b, dst, src, off, imm⟩ nx = .ok (ais, n) ∧ Emits e e' ais :=
  menc_core rfl rfl (menc_store e 64 (by decide) dst src off) h

-- xadd
theorem menc_c3 (h : JitEmit.arm e haddr pc ⟨0xc3, dst, src, off, imm⟩ nx = .ok (e', n)) :
    ∃ ais, JitAst.arm haddr pc ⟨0xc3, dst, src, off, imm⟩ nx = .ok (ais, n) ∧ Emits e e' ais :=
  menc_core (g := fun d s => [.i (.lockAdd false s d off.toInt)]) rfl rfl
    (fun d s hd hs => prim_emits_xadd32 e s d _ (menc_reg hs).1 (menc_reg hd).1 (menc_reg hd).2 (prim_off_range off)) h
theorem menc_db (h : JitEmit.arm e haddr pc ⟨0xdb, dst, src, off, imm⟩ nx = .ok (e', n)) :
    ∃ ais, JitAst.arm haddr pc ⟨0xdb, dst, src, off, imm⟩ nx = .ok (ais, n) ∧ Emits e e' ais :=
  menc_core (g := fun d s => [.i (.lockAdd true s d off.toInt)]) rfl rfl
    (fun d s hd hs => prim_emits_xadd64 e s d _ (menc_reg hs).1 (menc_reg hd).1 (menc_reg hd).2 (prim_off_range off)) h

-- ldabs
theorem menc_30 (h : JitEmit.arm e haddr pc ⟨0x30, dst, src, off, imm⟩ nx = .ok (e', n)) :
    ∃ ais, JitAst.arm haddr pc ⟨0x30, dst, src, off, imm⟩ nx = .ok (ais, n) ∧ Emits e e' ais :=
  menc_core rfl rfl (menc_ldabs e 8 (by decide) dst src imm) h
theorem menc_28 (h : JitEmit.arm e haddr pc ⟨0x28, dst, src, off, imm⟩ nx = .ok (e', n)) :
    ∃ ais, JitAst.arm haddr pc ⟨0x28, dst, src, off, imm⟩ nx = .ok (ais, n) ∧ Emits e e' ais :=
  menc_core rfl rfl (menc_ldabs e 16 (by decide) dst src imm) h
theorem menc_20 (h : JitEmit.arm e haddr pc ⟨0x20, dst, src, off, imm⟩ nx = .ok (e', n)) :
    ∃ ais, JitAst.arm haddr pc ⟨0x20, dst, src, off, imm⟩ nx = .ok (ais, n) ∧ Emits e e' ais :=
  menc_core rfl rfl (menc_ldabs e 32 (by decide) dst src imm) h
theorem menc_38 (h : JitEmit.arm e haddr pc ⟨0x38, dst, src, off, imm⟩ nx = .ok (e', n)) :
    ∃ ais, JitAst.arm haddr pc ⟨0x38, dst, src, off, imm⟩ nx = .ok (ais, n) ∧ Emits e e' ais :=
  menc_core rfl rfl (menc_ldabs e 64 (by decide) dst src imm) h

-- ldind
theorem menc_50 (h : JitEmit.arm e haddr pc ⟨0x50, dst, src, off, imm⟩ nx = .ok (e', n)) :
    ∃ ais, JitAst.arm haddr pc ⟨0x50, dst, src, off, imm⟩ nx = .ok (ais, n) ∧ Emits e e' ais :=
  menc_core rfl rfl (menc_ldind e 8 (by decide) dst src imm) h
theorem menc_48 (h : JitEmit.arm e haddr pc ⟨0x48, dst, src, off, imm⟩ nx = .ok (e', n)) :
    ∃ ais, JitAst.arm haddr pc ⟨0x48, dst, src, off, imm⟩ nx = .ok (ais, n) ∧ Emits e e' ais :=
  menc_core rfl rfl (menc_ldind e 16 (by decide) dst src imm) h
theorem menc_40 (h : JitEmit.arm e haddr pc ⟨0x40, dst, src, off, imm⟩ nx = .ok (e', n)) :
    ∃ ais, JitAst.arm haddr pc ⟨0x40, dst, src, off, imm⟩ nx = .ok (ais, n) ∧ Emits e e' ais :=
  menc_core rfl rfl (menc_ldind e 32 (by decide) dst src imm) h
theorem menc_58 (h : JitEmit.arm e haddr pc ⟨0x58, dst, src, off, imm⟩ nx = .ok (e', n)) :
    ∃ ais, JitAst.arm haddr pc ⟨0x58, dst, src, off, imm⟩ nx = .ok (ais, n) ∧ Emits e e' ais :=
  menc_core rfl rfl (menc_ldind e 64 (by decide) dst src imm) h

end

-- ---------------------------------------------------------------------------------------------------------
-- the class

theorem arm_enc_mem (e e' : Em) (haddr : Nat → Option Nat) (pc n : Nat) (i : Insn) (nx : Option Insn)
    (hc : i.opc.toNat ∈ memOpcodes)
    (h : JitEmit.arm e haddr pc i nx = .ok (e', n)) :
    ∃ ais, JitAst.arm haddr pc i nx = .ok (ais, n) ∧ Emits e e' ais := by
  obtain ⟨opc, dst, src, off, imm⟩ := i
  have hc' : opc.toNat = 0x61 ∨ opc.toNat = 0x69 ∨ opc.toNat = 0x71 ∨ opc.toNat = 0x79 ∨ opc.toNat = 0x62 ∨ opc.toNat = 0x6a ∨
      opc.toNat = 0x72 ∨ opc.toNat = 0x7a ∨ opc.toNat = 0x63 ∨ opc.toNat = 0x6b ∨ opc.toNat = 0x73 ∨ opc.toNat = 0x7b ∨
      opc.toNat = 0xc3 ∨ opc.toNat = 0xdb ∨ opc.toNat = 0x20 ∨ opc.toNat = 0x28 ∨ opc.toNat = 0x30 ∨ opc.toNat = 0x38 ∨
      opc.toNat = 0x40 ∨ opc.toNat = 0x48 ∨ opc.toNat = 0x50 ∨ opc.toNat = 0x58 := by
    simpa only [memOpcodes, List.mem_cons, List.mem_nil_iff, or_false] using hc
  rcases hc' with k | k | k | k | k | k | k | k | k | k | k | k | k | k | k | k | k | k | k | k | k | k
  · obtain rfl : opc = 0x61 := BitVec.eq_of_toNat_eq k
    exact menc_61 e e' haddr pc n dst src off imm nx h
  · obtain rfl : opc = 0x69 := BitVec.eq_of_toNat_eq k
    exact menc_69 e e' haddr pc n dst src off imm nx h
  · obtain rfl : opc = 0x71 := BitVec.eq_of_toNat_eq k
    exact menc_71 e e' haddr pc n dst src off imm nx h
  · obtain rfl : opc = 0x79 := BitVec.eq_of_toNat_eq k
    exact menc_79 e e' haddr pc n dst src off imm nx h
  · obtain rfl : opc = 0x62 := BitVec.eq_of_toNat_eq k
    exact menc_62 e e' haddr pc n dst src off imm nx h
  · obtain rfl : opc = 0x6a := BitVec.eq_of_toNat_eq k
    exact menc_6a e e' haddr pc n dst src off imm nx h
  · obtain rfl : opc = 0x72 := BitVec.eq_of_toNat_eq k
    exact menc_72 e e' haddr pc n dst src off imm nx h
  · obtain rfl : opc = 0x7a := BitVec.eq_of_toNat_eq k
    exact menc_7a e e' haddr pc n dst src off imm nx h
  · obtain rfl : opc = 0x63 := BitVec.eq_of_toNat_eq k
    exact menc_63 e e' haddr pc n dst src off imm nx h
  · obtain rfl : opc = 0x6b := BitVec.eq_of_toNat_eq k
    exact menc_6b e e' haddr pc n dst src off imm nx h
  · obtain rfl : opc = 0x73 := BitVec.eq_of_toNat_eq k
    exact menc_73 e e' haddr pc n dst src off imm nx h
  · obtain rfl : opc = 0x7b := BitVec.eq_of_toNat_eq k
    exact menc_7b e e' haddr pc n dst src off imm nx h
  · obtain rfl : opc = 0xc3 := BitVec.eq_of_toNat_eq k
    exact menc_c3 e e' haddr pc n dst src off imm nx h
  · obtain rfl : opc = 0xdb := BitVec.eq_of_toNat_eq k
    exact menc_db e e' haddr pc n dst src off imm nx h
  · obtain rfl : opc = 0x20 := BitVec.eq_of_toNat_eq k
    exact menc_20 e e' haddr pc n dst src off imm nx h
  · obtain rfl : opc = 0x28 := BitVec.eq_of_toNat_eq k
    exact menc_28 e e' haddr pc n dst src off imm nx h
  · obtain rfl : opc = 0x30 := BitVec.eq_of_toNat_eq k
    exact menc_30 e e' haddr pc n dst src off imm nx h
  · obtain rfl : opc = 0x38 := BitVec.eq_of_toNat_eq k
    exact menc_38 e e' haddr pc n dst src off imm nx h
  · obtain rfl : opc = 0x40 := BitVec.eq_of_toNat_eq k
    exact menc_40 e e' haddr pc n dst src off imm nx h
  · obtain rfl : opc = 0x48 := BitVec.eq_of_toNat_eq k
    exact menc_48 e e' haddr pc n dst src off imm nx h
  · obtain rfl : opc = 0x50 := BitVec.eq_of_toNat_eq k
    exact menc_50 e e' haddr pc n dst src off imm nx h
  · obtain rfl : opc = 0x58 := BitVec.eq_of_toNat_eq k
    exact menc_58 e e' haddr pc n dst src off imm nx h

end Rbpf.JitEnc
