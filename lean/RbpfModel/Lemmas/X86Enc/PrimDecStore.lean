/-
  Toolkit for `arm_enc` (part 3c): decode lemmas for the register stores, by enumeration over the registers
  (see `PrimDecReg.lean`).  The base register must not be rsp / r12 (`m &&& 7 ≠ 4`: that ModRM value announces a SIB
  byte, which the JIT never emits and the decoder rejects); the JIT only uses mapped registers, r10, r11, rcx, r8, r9 as bases.
-/
import RbpfModel.Lemmas.X86Enc.PrimMemGlue
namespace Rbpf.JitEnc
open Rbpf.X86 (Instr Cc AluOp ShOp decode ccOf le32 sext8)
open Rbpf.JitEmit


theorem prim_dec_store_8_0 : ∀ s, s < 16 → ∀ d, d < 16 → d &&& 7 ≠ 4 → d &&& 7 ≠ 5 → ∀ tail,
    decode ((bStorePre 8 s d ++ bMem0 s d) ++ tail) = some (.store 8 s d 0, (bStorePre 8 s d ++ bMem0 s d).length) := by enum2
theorem prim_dec_store_8_1 : ∀ s, s < 16 → ∀ d, d < 16 → d &&& 7 ≠ 4 → ∀ d8 tail,
    decode ((bStorePre 8 s d ++ bMem1 s d d8) ++ tail) = some (.store 8 s d (sext8 d8), (bStorePre 8 s d ++ bMem1 s d d8).length) := by enum2
theorem prim_dec_store_8_2 : ∀ s, s < 16 → ∀ d, d < 16 → d &&& 7 ≠ 4 → ∀ a0 a1 a2 a3 tail,
    decode ((bStorePre 8 s d ++ bMem2 s d a0 a1 a2 a3) ++ tail) = some (.store 8 s d (le32 a0 a1 a2 a3).toInt, (bStorePre 8 s d ++ bMem2 s d a0 a1 a2 a3).length) := by enum2
theorem prim_dec_store_16_0 : ∀ s, s < 16 → ∀ d, d < 16 → d &&& 7 ≠ 4 → d &&& 7 ≠ 5 → ∀ tail,
    decode ((bStorePre 16 s d ++ bMem0 s d) ++ tail) = some (.store 16 s d 0, (bStorePre 16 s d ++ bMem0 s d).length) := by enum2
theorem prim_dec_store_16_1 : ∀ s, s < 16 → ∀ d, d < 16 → d &&& 7 ≠ 4 → ∀ d8 tail,
    decode ((bStorePre 16 s d ++ bMem1 s d d8) ++ tail) = some (.store 16 s d (sext8 d8), (bStorePre 16 s d ++ bMem1 s d d8).length) := by enum2
theorem prim_dec_store_16_2 : ∀ s, s < 16 → ∀ d, d < 16 → d &&& 7 ≠ 4 → ∀ a0 a1 a2 a3 tail,
    decode ((bStorePre 16 s d ++ bMem2 s d a0 a1 a2 a3) ++ tail) = some (.store 16 s d (le32 a0 a1 a2 a3).toInt, (bStorePre 16 s d ++ bMem2 s d a0 a1 a2 a3).length) := by enum2
theorem prim_dec_store_32_0 : ∀ s, s < 16 → ∀ d, d < 16 → d &&& 7 ≠ 4 → d &&& 7 ≠ 5 → ∀ tail,
    decode ((bStorePre 32 s d ++ bMem0 s d) ++ tail) = some (.store 32 s d 0, (bStorePre 32 s d ++ bMem0 s d).length) := by enum2
theorem prim_dec_store_32_1 : ∀ s, s < 16 → ∀ d, d < 16 → d &&& 7 ≠ 4 → ∀ d8 tail,
    decode ((bStorePre 32 s d ++ bMem1 s d d8) ++ tail) = some (.store 32 s d (sext8 d8), (bStorePre 32 s d ++ bMem1 s d d8).length) := by enum2
theorem prim_dec_store_32_2 : ∀ s, s < 16 → ∀ d, d < 16 → d &&& 7 ≠ 4 → ∀ a0 a1 a2 a3 tail,
    decode ((bStorePre 32 s d ++ bMem2 s d a0 a1 a2 a3) ++ tail) = some (.store 32 s d (le32 a0 a1 a2 a3).toInt, (bStorePre 32 s d ++ bMem2 s d a0 a1 a2 a3).length) := by enum2
theorem prim_dec_store_64_0 : ∀ s, s < 16 → ∀ d, d < 16 → d &&& 7 ≠ 4 → d &&& 7 ≠ 5 → ∀ tail,
    decode ((bStorePre 64 s d ++ bMem0 s d) ++ tail) = some (.store 64 s d 0, (bStorePre 64 s d ++ bMem0 s d).length) := by enum2
theorem prim_dec_store_64_1 : ∀ s, s < 16 → ∀ d, d < 16 → d &&& 7 ≠ 4 → ∀ d8 tail,
    decode ((bStorePre 64 s d ++ bMem1 s d d8) ++ tail) = some (.store 64 s d (sext8 d8), (bStorePre 64 s d ++ bMem1 s d d8).length) := by enum2
theorem prim_dec_store_64_2 : ∀ s, s < 16 → ∀ d, d < 16 → d &&& 7 ≠ 4 → ∀ a0 a1 a2 a3 tail,
    decode ((bStorePre 64 s d ++ bMem2 s d a0 a1 a2 a3) ++ tail) = some (.store 64 s d (le32 a0 a1 a2 a3).toInt, (bStorePre 64 s d ++ bMem2 s d a0 a1 a2 a3).length) := by enum2

/-- `emit_store(size, src, dst, off)` decodes to `store size [dst + off], src` -/
theorem prim_dec_store (sz s d : Nat) (off : Int) (hsz : sz = 8 ∨ sz = 16 ∨ sz = 32 ∨ sz = 64) (hs : s < 16) (hd : d < 16)
    (hd4 : d &&& 7 ≠ 4) (hoff : -2147483648 ≤ off ∧ off ≤ 2147483647) (tail : List Nat) :
    decode (bStore sz s d off ++ tail) = some (.store sz s d off, (bStore sz s d off).length) := by
  unfold bStore
  rcases hsz with rfl | rfl | rfl | rfl
  · exact prim_dec_mem_glue0 _ s d (fun x => .store 8 s d x) off hoff (fun h5 => prim_dec_store_8_0 s hs d hd hd4 h5)
      (prim_dec_store_8_1 s hs d hd hd4) (prim_dec_store_8_2 s hs d hd hd4) tail
  · exact prim_dec_mem_glue0 _ s d (fun x => .store 16 s d x) off hoff (fun h5 => prim_dec_store_16_0 s hs d hd hd4 h5)
      (prim_dec_store_16_1 s hs d hd hd4) (prim_dec_store_16_2 s hs d hd hd4) tail
  · exact prim_dec_mem_glue0 _ s d (fun x => .store 32 s d x) off hoff (fun h5 => prim_dec_store_32_0 s hs d hd hd4 h5)
      (prim_dec_store_32_1 s hs d hd hd4) (prim_dec_store_32_2 s hs d hd hd4) tail
  · exact prim_dec_mem_glue0 _ s d (fun x => .store 64 s d x) off hoff (fun h5 => prim_dec_store_64_0 s hs d hd hd4 h5)
      (prim_dec_store_64_1 s hs d hd hd4) (prim_dec_store_64_2 s hs d hd hd4) tail

end Rbpf.JitEnc
