/-
  `resolveJumps`: a fold over the recorded jumps, each step overwriting the four bytes of one hole with the
  little-endian rel32 to its target's location.  Run over the holes of an encoded segment (`Enc`) it turns the
  segment into a patched segment (`PEnc`) of the same length and leaves everything before and after it alone.
-/
import RbpfModel.Lemmas.X86Enc.LayoutCheck
set_option linter.unusedSimpArgs false
namespace Rbpf.JitEnc
open Rbpf.X86 (Instr Cc decode ccOf)
open Rbpf.JitAst (AI Tgt)
open Rbpf.JitEmit (Em Fail u32 targetPcExit)

/-- where `resolveJumps e` sends a recorded target -/
def lay_look (e : Em) (target : Int) : Option Nat :=
  if target = targetPcExit then e.exitAnchor else if target < 0 then none else e.pcLocs[target.toNat]?

def lay_patch4 (c : Array UInt8) (loc rel : Nat) : Array UInt8 :=
  (List.range 4).foldl (fun c k => c.setIfInBounds (loc + k) (UInt8.ofNat ((rel >>> (8 * k)) % 256))) c

def lay_stepJ (look : Int → Option Nat) (acc : Except Fail (Array UInt8)) (j : Nat × Int) : Except Fail (Array UInt8) :=
  match acc with
  | .error f => .error f
  | .ok code =>
    match look j.2 with
    | none => .error .panic
    | some tl => .ok (lay_patch4 code j.1 (u32 ((tl : Int) - ((j.1 : Int) + 4))))

theorem lay_resolveJumps_eq (e : Em) :
    JitEmit.resolveJumps e = e.jumps.toList.foldl (lay_stepJ (lay_look e)) (.ok e.code) := by
  unfold JitEmit.resolveJumps
  rw [← Array.foldl_toList]
  rfl

theorem lay_fold_error (look : Int → Option Nat) (f : Fail) (l : List (Nat × Int)) :
    l.foldl (lay_stepJ look) (.error f) = .error f := by
  induction l with
  | nil => rfl
  | cons j l ih => simpa [List.foldl_cons, lay_stepJ] using ih

theorem lay_set4 (pre : List UInt8) (x0 x1 x2 x3 b0 b1 b2 b3 : UInt8) (rest : List UInt8) :
    ((((pre ++ x0 :: x1 :: x2 :: x3 :: rest).set (pre.length + 0) b0).set (pre.length + 1) b1).set (pre.length + 2) b2).set
      (pre.length + 3) b3 = pre ++ b0 :: b1 :: b2 :: b3 :: rest := by
  induction pre with
  | nil => simp
  | cons p pre ih =>
    simp only [List.length_cons, List.cons_append] at *
    rw [show pre.length + 1 + 0 = (pre.length + 0) + 1 by omega, show pre.length + 1 + 1 = (pre.length + 1) + 1 by omega,
      show pre.length + 1 + 2 = (pre.length + 2) + 1 by omega, show pre.length + 1 + 3 = (pre.length + 3) + 1 by omega]
    simp only [List.set_cons_succ]
    rw [Nat.add_zero] at ih
    rw [ih]

theorem lay_patch4_toList (pre : List UInt8) (x0 x1 x2 x3 : UInt8) (rest : List UInt8) (rel : Nat) :
    lay_patch4 (pre ++ x0 :: x1 :: x2 :: x3 :: rest).toArray pre.length rel =
      (pre ++ (lay_le4 rel).map UInt8.ofNat ++ rest).toArray := by
  apply Array.ext'
  simp only [lay_patch4, List.range, List.range.loop, List.foldl_cons, List.foldl_nil]
  simp only [Array.toList_setIfInBounds, lay_set4]
  simp [lay_le4]

/-- the jumps recorded for a segment's holes when the segment starts at offset `a` -/
def lay_abs (a : Nat) (holes : List (Nat × Tgt)) : List (Nat × Int) := holes.map fun h => (a + h.1, tgtInt h.2)

theorem lay_abs_shift (a k : Nat) (holes : List (Nat × Tgt)) :
    lay_abs a (holes.map (shift k)) = lay_abs (a + k) holes := by
  simp only [lay_abs, List.map_map]
  apply List.map_congr_left
  intro h _
  simp only [Function.comp, shift]
  congr 1; omega

theorem lay_step_ok (look : Int → Option Nat) (code c' : Array UInt8) (loc : Nat) (target : Int) (rest : List (Nat × Int))
    (h : ((loc, target) :: rest).foldl (lay_stepJ look) (.ok code) = .ok c') :
    ∃ l, look target = some l ∧
      rest.foldl (lay_stepJ look) (.ok (lay_patch4 code loc (u32 ((l : Int) - ((loc : Int) + 4))))) = .ok c' := by
  rw [List.foldl_cons] at h
  cases hl : look target with
  | none =>
    rw [show lay_stepJ look (.ok code) (loc, target) = .error .panic by simp [lay_stepJ, hl], lay_fold_error] at h
    cases h
  | some l =>
    refine ⟨l, rfl, ?_⟩
    rw [show lay_stepJ look (.ok code) (loc, target) = .ok (lay_patch4 code loc (u32 ((l : Int) - ((loc : Int) + 4)))) by
      simp [lay_stepJ, hl]] at h
    exact h

/-- patching the holes of one segment -/
theorem lay_patch_seg (look : Int → Option Nat) (ais : List AI) (bs : List Nat) (holes : List (Nat × Tgt))
    (h : Enc ais bs holes) :
    ∀ (pre post : List UInt8) (c' : Array UInt8),
      (lay_abs pre.length holes).foldl (lay_stepJ look) (.ok (pre ++ bs.map UInt8.ofNat ++ post).toArray) = .ok c' →
      ∃ bs', c' = (pre ++ bs'.map UInt8.ofNat ++ post).toArray ∧ bs'.length = bs.length ∧
        PEnc (fun t => look (tgtInt t)) pre.length ais bs' := by
  induction h with
  | nil =>
    intro pre post c' hf
    simp only [lay_abs, List.map_nil, List.foldl_nil, Except.ok.injEq] at hf
    exact ⟨[], hf.symm, rfl, .nil _⟩
  | i x b1 ais bs holes hd hlt _ ih =>
    intro pre post c' hf
    rw [lay_abs_shift] at hf
    have := ih (pre ++ b1.map UInt8.ofNat) post c' (by
      rw [List.length_append, List.length_map]
      rw [show pre ++ b1.map UInt8.ofNat ++ bs.map UInt8.ofNat ++ post = pre ++ (b1 ++ bs).map UInt8.ofNat ++ post by simp]
      exact hf)
    obtain ⟨bs', hc, hlen, hp⟩ := this
    refine ⟨b1 ++ bs', by rw [hc]; simp, by simp [hlen], ?_⟩
    rw [List.length_append, List.length_map] at hp
    exact .i _ x b1 ais bs' hd hlt hp
  | jcc cc ccb t h0 h1 h2 h3 ais bs holes hcc _ _ _ _ _ ih =>
    intro pre post c' hf
    simp only [lay_abs, List.map_cons] at hf
    obtain ⟨l, hl, hf⟩ := lay_step_ok _ _ _ _ _ _ hf
    have hpatch := lay_patch4_toList (pre ++ [UInt8.ofNat 0x0f, UInt8.ofNat ccb]) (UInt8.ofNat h0) (UInt8.ofNat h1)
      (UInt8.ofNat h2) (UInt8.ofNat h3) (bs.map UInt8.ofNat ++ post) (u32 ((l : Int) - (((pre.length + 2 : Nat) : Int) + 4)))
    rw [show (pre ++ [UInt8.ofNat 0x0f, UInt8.ofNat ccb]).length = pre.length + 2 by simp] at hpatch
    rw [show pre ++ ([0x0f, ccb, h0, h1, h2, h3] ++ bs).map UInt8.ofNat ++ post =
      pre ++ [UInt8.ofNat 0x0f, UInt8.ofNat ccb] ++ UInt8.ofNat h0 :: UInt8.ofNat h1 :: UInt8.ofNat h2 :: UInt8.ofNat h3 ::
        (bs.map UInt8.ofNat ++ post) by simp] at hf
    rw [hpatch] at hf
    have heq : ((l : Int) - (((pre.length + 2 : Nat) : Int) + 4)) = ((l : Int) - ((pre.length + 6 : Nat) : Int)) := by omega
    rw [heq] at hf
    have hmap : (holes.map (shift 6)).map (fun h => (pre.length + h.1, tgtInt h.2)) = lay_abs (pre.length + 6) holes := lay_abs_shift _ _ _
    rw [hmap] at hf
    have := ih (pre ++ ([0x0f, ccb] ++ lay_le4 (u32 ((l : Int) - ((pre.length + 6 : Nat) : Int)))).map UInt8.ofNat) post c' (by
      rw [show (pre ++ ([0x0f, ccb] ++ lay_le4 (u32 ((l : Int) - ((pre.length + 6 : Nat) : Int)))).map UInt8.ofNat).length = pre.length + 6 by
        simp [lay_le4]]
      rw [← hf]; simp only [List.map_append, List.map_cons, List.map_nil, List.append_assoc, List.cons_append, List.nil_append])
    obtain ⟨bs', hc, hlen, hp⟩ := this
    refine ⟨[0x0f, ccb] ++ lay_le4 (u32 ((l : Int) - ((pre.length + 6 : Nat) : Int))) ++ bs', by rw [hc]; simp, by simp [hlen, lay_le4], ?_⟩
    rw [show (pre ++ ([0x0f, ccb] ++ lay_le4 (u32 ((l : Int) - ((pre.length + 6 : Nat) : Int)))).map UInt8.ofNat).length = pre.length + 6 by
        simp [lay_le4]] at hp
    exact .jcc _ cc ccb t l ais bs' hcc hl hp
  | jmp t h0 h1 h2 h3 ais bs holes _ _ _ _ _ ih =>
    intro pre post c' hf
    simp only [lay_abs, List.map_cons] at hf
    obtain ⟨l, hl, hf⟩ := lay_step_ok _ _ _ _ _ _ hf
    have hpatch := lay_patch4_toList (pre ++ [UInt8.ofNat 0xe9]) (UInt8.ofNat h0) (UInt8.ofNat h1)
      (UInt8.ofNat h2) (UInt8.ofNat h3) (bs.map UInt8.ofNat ++ post) (u32 ((l : Int) - (((pre.length + 1 : Nat) : Int) + 4)))
    rw [show (pre ++ [UInt8.ofNat 0xe9]).length = pre.length + 1 by simp] at hpatch
    rw [show pre ++ ([0xe9, h0, h1, h2, h3] ++ bs).map UInt8.ofNat ++ post =
      pre ++ [UInt8.ofNat 0xe9] ++ UInt8.ofNat h0 :: UInt8.ofNat h1 :: UInt8.ofNat h2 :: UInt8.ofNat h3 ::
        (bs.map UInt8.ofNat ++ post) by simp] at hf
    rw [hpatch] at hf
    have heq : ((l : Int) - (((pre.length + 1 : Nat) : Int) + 4)) = ((l : Int) - ((pre.length + 5 : Nat) : Int)) := by omega
    rw [heq] at hf
    have hmap : (holes.map (shift 5)).map (fun h => (pre.length + h.1, tgtInt h.2)) = lay_abs (pre.length + 5) holes := lay_abs_shift _ _ _
    rw [hmap] at hf
    have := ih (pre ++ ([(0xe9 : Nat)] ++ lay_le4 (u32 ((l : Int) - ((pre.length + 5 : Nat) : Int)))).map UInt8.ofNat) post c' (by
      rw [show (pre ++ ([(0xe9 : Nat)] ++ lay_le4 (u32 ((l : Int) - ((pre.length + 5 : Nat) : Int)))).map UInt8.ofNat).length = pre.length + 5 by
        simp [lay_le4]]
      rw [← hf]; simp only [List.map_append, List.map_cons, List.map_nil, List.append_assoc, List.cons_append, List.nil_append])
    obtain ⟨bs', hc, hlen, hp⟩ := this
    refine ⟨[0xe9] ++ lay_le4 (u32 ((l : Int) - ((pre.length + 5 : Nat) : Int))) ++ bs', by rw [hc]; simp, by simp [hlen, lay_le4], ?_⟩
    rw [show (pre ++ ([(0xe9 : Nat)] ++ lay_le4 (u32 ((l : Int) - ((pre.length + 5 : Nat) : Int)))).map UInt8.ofNat).length = pre.length + 5 by
        simp [lay_le4]] at hp
    exact .jmp _ t l ais bs' hl hp
  | call t h0 h1 h2 h3 ais bs holes _ _ _ _ _ ih =>
    intro pre post c' hf
    simp only [lay_abs, List.map_cons] at hf
    obtain ⟨l, hl, hf⟩ := lay_step_ok _ _ _ _ _ _ hf
    have hpatch := lay_patch4_toList (pre ++ [UInt8.ofNat 0xe8]) (UInt8.ofNat h0) (UInt8.ofNat h1)
      (UInt8.ofNat h2) (UInt8.ofNat h3) (bs.map UInt8.ofNat ++ post) (u32 ((l : Int) - (((pre.length + 1 : Nat) : Int) + 4)))
    rw [show (pre ++ [UInt8.ofNat 0xe8]).length = pre.length + 1 by simp] at hpatch
    rw [show pre ++ ([0xe8, h0, h1, h2, h3] ++ bs).map UInt8.ofNat ++ post =
      pre ++ [UInt8.ofNat 0xe8] ++ UInt8.ofNat h0 :: UInt8.ofNat h1 :: UInt8.ofNat h2 :: UInt8.ofNat h3 ::
        (bs.map UInt8.ofNat ++ post) by simp] at hf
    rw [hpatch] at hf
    have heq : ((l : Int) - (((pre.length + 1 : Nat) : Int) + 4)) = ((l : Int) - ((pre.length + 5 : Nat) : Int)) := by omega
    rw [heq] at hf
    have hmap : (holes.map (shift 5)).map (fun h => (pre.length + h.1, tgtInt h.2)) = lay_abs (pre.length + 5) holes := lay_abs_shift _ _ _
    rw [hmap] at hf
    have := ih (pre ++ ([(0xe8 : Nat)] ++ lay_le4 (u32 ((l : Int) - ((pre.length + 5 : Nat) : Int)))).map UInt8.ofNat) post c' (by
      rw [show (pre ++ ([(0xe8 : Nat)] ++ lay_le4 (u32 ((l : Int) - ((pre.length + 5 : Nat) : Int)))).map UInt8.ofNat).length = pre.length + 5 by
        simp [lay_le4]]
      rw [← hf]; simp only [List.map_append, List.map_cons, List.map_nil, List.append_assoc, List.cons_append, List.nil_append])
    obtain ⟨bs', hc, hlen, hp⟩ := this
    refine ⟨[0xe8] ++ lay_le4 (u32 ((l : Int) - ((pre.length + 5 : Nat) : Int))) ++ bs', by rw [hc]; simp, by simp [hlen, lay_le4], ?_⟩
    rw [show (pre ++ ([(0xe8 : Nat)] ++ lay_le4 (u32 ((l : Int) - ((pre.length + 5 : Nat) : Int)))).map UInt8.ofNat).length = pre.length + 5 by
        simp [lay_le4]] at hp
    exact .call _ t l ais bs' hl hp

/-- a piece of the code buffer: start offset, instruction list, unpatched bytes, holes (relative to the start) -/
structure lay_Seg where
  a : Nat
  ais : List AI
  bs : List Nat
  holes : List (Nat × Tgt)

/-- consecutive encoded pieces starting at offset `a` -/
def lay_Chain : Nat → List lay_Seg → Prop
  | _, [] => True
  | a, s :: r => s.a = a ∧ Enc s.ais s.bs s.holes ∧ lay_Chain (a + s.bs.length) r

def lay_bytes (ps : List lay_Seg) : List Nat := ps.flatMap (·.bs)
def lay_jumps (ps : List lay_Seg) : List (Nat × Int) := ps.flatMap fun s => lay_abs s.a s.holes

theorem lay_map_toNat_ofNat (bs : List Nat) (h : ∀ v ∈ bs, v < 256) : (bs.map UInt8.ofNat).map (·.toNat) = bs := by
  induction bs with
  | nil => rfl
  | cons b bs ih =>
    simp only [List.map_cons, List.cons.injEq]
    refine ⟨?_, ih (fun v hv => h v (List.mem_cons_of_mem _ hv))⟩
    have := h b (List.mem_cons_self)
    simp [UInt8.toNat_ofNat']; omega

/-- patching all recorded jumps of a chain of pieces: every piece becomes a patched segment, in place -/
theorem lay_patch_all (look : Int → Option Nat) (ps : List lay_Seg) :
    ∀ (pre post : List UInt8) (c' : Array UInt8), lay_Chain pre.length ps →
      (lay_jumps ps).foldl (lay_stepJ look) (.ok (pre ++ (lay_bytes ps).map UInt8.ofNat ++ post).toArray) = .ok c' →
      ∃ mid : List UInt8, c' = (pre ++ mid ++ post).toArray ∧ mid.length = (lay_bytes ps).length ∧
        ∀ s ∈ ps, ∃ X bs' Y, c'.toList.map (·.toNat) = X ++ bs' ++ Y ∧ X.length = s.a ∧ bs'.length = s.bs.length ∧
          PEnc (fun t => look (tgtInt t)) s.a s.ais bs' := by
  induction ps with
  | nil =>
    intro pre post c' _ hf
    simp only [lay_jumps, lay_bytes, List.flatMap_nil, List.foldl_nil, List.map_nil, Except.ok.injEq] at hf
    exact ⟨[], hf.symm, rfl, by simp⟩
  | cons s r ih =>
    intro pre post c' hch hf
    obtain ⟨hsa, henc, hch'⟩ := hch
    have hj : lay_jumps (s :: r) = lay_abs s.a s.holes ++ lay_jumps r := by simp [lay_jumps]
    have hb : lay_bytes (s :: r) = s.bs ++ lay_bytes r := by simp [lay_bytes]
    rw [hj, List.foldl_append, hb] at hf
    cases hmid : (lay_abs s.a s.holes).foldl (lay_stepJ look) (.ok (pre ++ (s.bs ++ lay_bytes r).map UInt8.ofNat ++ post).toArray) with
    | error f => rw [hmid, lay_fold_error] at hf; cases hf
    | ok c1 =>
      rw [hmid] at hf
      rw [hsa, show pre ++ (s.bs ++ lay_bytes r).map UInt8.ofNat ++ post =
        pre ++ s.bs.map UInt8.ofNat ++ ((lay_bytes r).map UInt8.ofNat ++ post) by simp] at hmid
      obtain ⟨bs', hc1, hlen, hp⟩ := lay_patch_seg look s.ais s.bs s.holes henc pre _ c1 hmid
      have hpre' : (pre ++ bs'.map UInt8.ofNat).length = pre.length + s.bs.length := by simp [hlen]
      rw [hc1, show pre ++ bs'.map UInt8.ofNat ++ ((lay_bytes r).map UInt8.ofNat ++ post) =
        (pre ++ bs'.map UInt8.ofNat) ++ (lay_bytes r).map UInt8.ofNat ++ post by simp] at hf
      obtain ⟨mid, hc', hmlen, hall⟩ := ih (pre ++ bs'.map UInt8.ofNat) post c' (by rw [hpre']; exact hch') hf
      refine ⟨bs'.map UInt8.ofNat ++ mid, by rw [hc']; simp, by simp [hmlen, hlen, hb], ?_⟩
      intro s' hs'
      rcases List.mem_cons.1 hs' with rfl | hs'
      · refine ⟨pre.map (·.toNat), bs', (mid ++ post).map (·.toNat), ?_, by simp [hsa], hlen, hsa ▸ hp⟩
        rw [hc']
        simp only [List.map_append, List.append_assoc]
        rw [lay_map_toNat_ofNat bs' (lay_PEnc_lt _ _ _ _ hp)]
      · exact hall s' hs'

end Rbpf.JitEnc
