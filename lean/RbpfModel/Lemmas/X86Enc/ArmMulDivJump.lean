/-
  Byte level = instruction level for the arms of opcode class `mulDivOpcodes ++ jumpOpcodes` (see Lemmas/X86Enc/Arm.lean).
-/
import RbpfModel.Model.JitSim
import RbpfModel.Lemmas.X86Enc.Prim
namespace Rbpf.JitEnc
open Rbpf.X86 (Instr Cc decode ccOf)
open Rbpf.JitAst (AI Tgt)
open Rbpf.JitEmit (Em Fail)
open Rbpf.JitSim (aluOpcodes mulDivOpcodes jumpOpcodes memOpcodes)

theorem arm_enc_muldivjump (e e' : Em) (haddr : Nat → Option Nat) (pc n : Nat) (i : Insn) (nx : Option Insn)
    (hc : i.opc.toNat ∈ mulDivOpcodes ++ jumpOpcodes)
    (h : JitEmit.arm e haddr pc i nx = .ok (e', n)) :
    ∃ ais, JitAst.arm haddr pc i nx = .ok (ais, n) ∧ Emits e e' ais := by
  sorry

end Rbpf.JitEnc
