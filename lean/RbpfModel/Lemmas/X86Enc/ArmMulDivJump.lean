/-
  Byte level = instruction level for the arms of opcode class `mulDivOpcodes ++ jumpOpcodes` (see Lemmas/X86Enc/Arm.lean).

  Layout of the proof: `jenc_wrapE` / `jenc_wrapA` are the register-mapping prefix shared by all arms of `JitEmit.arm` /
  `JitAst.arm`; for a LITERAL opcode both `arm`s reduce to that prefix applied to the arm's body by `rfl` (the 150-way
  `match` on the opcode evaluates definitionally), so every opcode is one application of a shape lemma
  (`jenc_md`, `jenc_ja`, `jenc_cmpImm`, `jenc_cmpReg`, `jenc_testImm`, `jenc_testReg`) with `rfl` arguments.
-/
import RbpfModel.Model.JitSim
import RbpfModel.Lemmas.X86Enc.Prim
namespace Rbpf.JitEnc
open Rbpf.X86 (Instr Cc decode ccOf)
open Rbpf.JitAst (AI Tgt)
open Rbpf.JitEmit (Em Fail mapRegister?)
open Rbpf.JitSim (aluOpcodes mulDivOpcodes jumpOpcodes memOpcodes)

/-- the head of `JitEmit.arm`: map the two register fields, panic if either is out of range -/
def jenc_wrapE (dst src : BitVec 8) (f : Nat → Nat → Except Fail (Em × Nat)) : Except Fail (Em × Nat) :=
  match mapRegister? dst.toNat, mapRegister? src.toNat with
  | none, _ => .error .panic
  | _, none => .error .panic
  | some d, some s => f d s

/-- the head of `JitAst.arm` -/
def jenc_wrapA (dst src : BitVec 8) (f : Nat → Nat → Except Fail (List AI × Nat)) : Except Fail (List AI × Nat) :=
  match mapRegister? dst.toNat, mapRegister? src.toNat with
  | none, _ => .error .panic
  | _, none => .error .panic
  | some d, some s => f d s

/-- an arm that, on mapped registers `d s`, emits `g d s` for the instruction list `l d s` and consumes one slot -/
theorem jenc_wrap {e e' : Em} {n : Nat} {dst src : BitVec 8} (g : Nat → Nat → Em) (l : Nat → Nat → List AI)
    {X : Except Fail (Em × Nat)} {Y : Except Fail (List AI × Nat)}
    (hE : X = jenc_wrapE dst src fun d s => .ok (g d s, 1))
    (hA : Y = jenc_wrapA dst src fun d s => .ok (l d s, 1))
    (hem : ∀ d s, d < 16 → s < 16 → Emits e (g d s) (l d s))
    (h : X = .ok (e', n)) : ∃ ais, Y = .ok (ais, n) ∧ Emits e e' ais := by
  subst hE hA
  unfold jenc_wrapE at h
  unfold jenc_wrapA
  split at h
  · cases h
  · cases h
  · rename_i d s hd hs
    cases h
    exact ⟨l d s, rfl, hem d s (prim_mapRegister_lt hd) (prim_mapRegister_lt hs)⟩

section shapes
variable {e' : Em} {n : Nat} {dst src : BitVec 8} {X : Except Fail (Em × Nat)} {Y : Except Fail (List AI × Nat)}
variable (e : Em) {pc : Nat}

/-- multiplication, division, remainder: both arms are `emit_muldivmod` -/
theorem jenc_md (k : Nat) (imm : BitVec 32)
    (hE : X = jenc_wrapE dst src fun d s => .ok (JitEmit.emitMuldivmod e pc k s d imm.toInt, 1))
    (hA : Y = jenc_wrapA dst src fun d s => .ok (JitAst.muldivmod pc k s d imm, 1))
    (h : X = .ok (e', n)) : ∃ ais, Y = .ok (ais, n) ∧ Emits e e' ais :=
  jenc_wrap _ _ hE hA (fun d s hd hs => prim_emits_muldivmod e pc k s d imm hs hd) h

/-- `ja` -/
theorem jenc_ja (off : BitVec 16)
    (hE : X = jenc_wrapE dst src fun _ _ => .ok (JitEmit.emitJmp e ((pc : Int) + off.toInt + 1), 1))
    (hA : Y = jenc_wrapA dst src fun _ _ => .ok ([.jmp (.pc ((pc : Int) + off.toInt + 1))], 1))
    (h : X = .ok (e', n)) : ∃ ais, Y = .ok (ais, n) ∧ Emits e e' ais :=
  jenc_wrap _ _ hE hA (fun _ _ _ _ => prim_emits_jmp e _ _ rfl) h

/-- a flag-setting instruction followed by `jcc` to the arm of `t` -/
theorem jenc_then_jcc {e1 : Em} {x : Instr} (h1 : Emits e e1 [.i x]) (code : Nat) (cc : Cc) (hcc : ccOf code = some cc) (t : Int) :
    Emits e (JitEmit.emitJcc e1 code t) [.i x, .jcc cc (.pc t)] :=
  prim_emits_cons h1 (prim_emits_jcc e1 code t (.pc t) cc rfl hcc)

/-- `cmp dst, imm ; jcc` (64-bit for `w = true`) -/
theorem jenc_cmpImm (w : Bool) (code : Nat) (cc : Cc) (off : BitVec 16) (imm : BitVec 32) (hcc : ccOf code = some cc)
    (hE : X = jenc_wrapE dst src fun d _ => .ok (JitEmit.emitJcc
      (if w then JitEmit.emitCmpImm32 e d imm.toInt else JitEmit.emitCmp32Imm32 e d imm.toInt) code ((pc : Int) + off.toInt + 1), 1))
    (hA : Y = jenc_wrapA dst src fun d _ => .ok ([.i (.aluRI w .cmp d imm), .jcc cc (.pc ((pc : Int) + off.toInt + 1))], 1))
    (h : X = .ok (e', n)) : ∃ ais, Y = .ok (ais, n) ∧ Emits e e' ais := by
  refine jenc_wrap _ _ hE hA (fun d _ hd _ => jenc_then_jcc e ?_ code cc hcc _) h
  cases w
  · exact prim_emits_cmp32Imm32_bv e d imm hd
  · exact prim_emits_cmpImm32_bv e d imm hd

/-- `cmp dst, src ; jcc` -/
theorem jenc_cmpReg (w : Bool) (code : Nat) (cc : Cc) (off : BitVec 16) (hcc : ccOf code = some cc)
    (hE : X = jenc_wrapE dst src fun d s => .ok (JitEmit.emitJcc
      (if w then JitEmit.emitCmp e s d else JitEmit.emitCmp32 e s d) code ((pc : Int) + off.toInt + 1), 1))
    (hA : Y = jenc_wrapA dst src fun d s => .ok ([.i (.aluRR w .cmp s d), .jcc cc (.pc ((pc : Int) + off.toInt + 1))], 1))
    (h : X = .ok (e', n)) : ∃ ais, Y = .ok (ais, n) ∧ Emits e e' ais := by
  refine jenc_wrap _ _ hE hA (fun d s hd hs => jenc_then_jcc e ?_ code cc hcc _) h
  cases w
  · exact prim_emits_cmp32 e s d hs hd
  · exact prim_emits_cmp e s d hs hd

/-- `test dst, imm ; jne` (`jset` with an immediate) -/
theorem jenc_testImm (w : Bool) (off : BitVec 16) (imm : BitVec 32)
    (hE : X = jenc_wrapE dst src fun d _ => .ok (JitEmit.emitJcc
      (if w then JitEmit.emitAlu64Imm32 e 0xf7 0 d imm.toInt else JitEmit.emitAlu32Imm32 e 0xf7 0 d imm.toInt) 0x85
      ((pc : Int) + off.toInt + 1), 1))
    (hA : Y = jenc_wrapA dst src fun d _ => .ok ([.i (.aluRI w .test d imm), .jcc .ne (.pc ((pc : Int) + off.toInt + 1))], 1))
    (h : X = .ok (e', n)) : ∃ ais, Y = .ok (ais, n) ∧ Emits e e' ais := by
  refine jenc_wrap _ _ hE hA (fun d _ hd _ => jenc_then_jcc e ?_ 0x85 .ne rfl _) h
  cases w
  · exact prim_emits_testImm32_bv e d imm hd
  · exact prim_emits_testImm64_bv e d imm hd

/-- `test dst, src ; jne` (`jset` with a register) -/
theorem jenc_testReg (w : Bool) (off : BitVec 16)
    (hE : X = jenc_wrapE dst src fun d s => .ok (JitEmit.emitJcc
      (if w then JitEmit.emitAlu64 e 0x85 s d else JitEmit.emitAlu32 e 0x85 s d) 0x85 ((pc : Int) + off.toInt + 1), 1))
    (hA : Y = jenc_wrapA dst src fun d s => .ok ([.i (.aluRR w .test s d), .jcc .ne (.pc ((pc : Int) + off.toInt + 1))], 1))
    (h : X = .ok (e', n)) : ∃ ais, Y = .ok (ais, n) ∧ Emits e e' ais := by
  refine jenc_wrap _ _ hE hA (fun d s hd hs => jenc_then_jcc e ?_ 0x85 .ne rfl _) h
  cases w
  · exact prim_emits_alu32 e 0x85 s d .test rfl hs hd
  · exact prim_emits_alu64 e 0x85 s d .test rfl hs hd

end shapes

-- ---------------------------------------------------------------------------------------------------------
-- one lemma per opcode (the opcode is a literal, so both `arm`s evaluate to their `wrap` form by `rfl`)

theorem jenc_op_24 (e e' : Em) (haddr : Nat → Option Nat) (pc n : Nat) (dst src : BitVec 8) (off : BitVec 16) (imm : BitVec 32) (nx : Option Insn)
    (h : JitEmit.arm e haddr pc ⟨0x24, dst, src, off, imm⟩ nx = .ok (e', n)) :
    ∃ ais, JitAst.arm haddr pc ⟨0x24, dst, src, off, imm⟩ nx = .ok (ais, n) ∧ Emits e e' ais :=
  jenc_md e 0x24 imm rfl rfl h

theorem jenc_op_2c (e e' : Em) (haddr : Nat → Option Nat) (pc n : Nat) (dst src : BitVec 8) (off : BitVec 16) (imm : BitVec 32) (nx : Option Insn)
    (h : JitEmit.arm e haddr pc ⟨0x2c, dst, src, off, imm⟩ nx = .ok (e', n)) :
    ∃ ais, JitAst.arm haddr pc ⟨0x2c, dst, src, off, imm⟩ nx = .ok (ais, n) ∧ Emits e e' ais :=
  jenc_md e 0x2c imm rfl rfl h

theorem jenc_op_34 (e e' : Em) (haddr : Nat → Option Nat) (pc n : Nat) (dst src : BitVec 8) (off : BitVec 16) (imm : BitVec 32) (nx : Option Insn)
    (h : JitEmit.arm e haddr pc ⟨0x34, dst, src, off, imm⟩ nx = .ok (e', n)) :
    ∃ ais, JitAst.arm haddr pc ⟨0x34, dst, src, off, imm⟩ nx = .ok (ais, n) ∧ Emits e e' ais :=
  jenc_md e 0x34 imm rfl rfl h

theorem jenc_op_3c (e e' : Em) (haddr : Nat → Option Nat) (pc n : Nat) (dst src : BitVec 8) (off : BitVec 16) (imm : BitVec 32) (nx : Option Insn)
    (h : JitEmit.arm e haddr pc ⟨0x3c, dst, src, off, imm⟩ nx = .ok (e', n)) :
    ∃ ais, JitAst.arm haddr pc ⟨0x3c, dst, src, off, imm⟩ nx = .ok (ais, n) ∧ Emits e e' ais :=
  jenc_md e 0x3c imm rfl rfl h

theorem jenc_op_94 (e e' : Em) (haddr : Nat → Option Nat) (pc n : Nat) (dst src : BitVec 8) (off : BitVec 16) (imm : BitVec 32) (nx : Option Insn)
    (h : JitEmit.arm e haddr pc ⟨0x94, dst, src, off, imm⟩ nx = .ok (e', n)) :
    ∃ ais, JitAst.arm haddr pc ⟨0x94, dst, src, off, imm⟩ nx = .ok (ais, n) ∧ Emits e e' ais :=
  jenc_md e 0x94 imm rfl rfl h

theorem jenc_op_9c (e e' : Em) (haddr : Nat → Option Nat) (pc n : Nat) (dst src : BitVec 8) (off : BitVec 16) (imm : BitVec 32) (nx : Option Insn)
    (h : JitEmit.arm e haddr pc ⟨0x9c, dst, src, off, imm⟩ nx = .ok (e', n)) :
    ∃ ais, JitAst.arm haddr pc ⟨0x9c, dst, src, off, imm⟩ nx = .ok (ais, n) ∧ Emits e e' ais :=
  jenc_md e 0x9c imm rfl rfl h

theorem jenc_op_27 (e e' : Em) (haddr : Nat → Option Nat) (pc n : Nat) (dst src : BitVec 8) (off : BitVec 16) (imm : BitVec 32) (nx : Option Insn)
    (h : JitEmit.arm e haddr pc ⟨0x27, dst, src, off, imm⟩ nx = .ok (e', n)) :
    ∃ ais, JitAst.arm haddr pc ⟨0x27, dst, src, off, imm⟩ nx = .ok (ais, n) ∧ Emits e e' ais :=
  jenc_md e 0x27 imm rfl rfl h

theorem jenc_op_2f (e e' : Em) (haddr : Nat → Option Nat) (pc n : Nat) (dst src : BitVec 8) (off : BitVec 16) (imm : BitVec 32) (nx : Option Insn)
    (h : JitEmit.arm e haddr pc ⟨0x2f, dst, src, off, imm⟩ nx = .ok (e', n)) :
    ∃ ais, JitAst.arm haddr pc ⟨0x2f, dst, src, off, imm⟩ nx = .ok (ais, n) ∧ Emits e e' ais :=
  jenc_md e 0x2f imm rfl rfl h

theorem jenc_op_37 (e e' : Em) (haddr : Nat → Option Nat) (pc n : Nat) (dst src : BitVec 8) (off : BitVec 16) (imm : BitVec 32) (nx : Option Insn)
    (h : JitEmit.arm e haddr pc ⟨0x37, dst, src, off, imm⟩ nx = .ok (e', n)) :
    ∃ ais, JitAst.arm haddr pc ⟨0x37, dst, src, off, imm⟩ nx = .ok (ais, n) ∧ Emits e e' ais :=
  jenc_md e 0x37 imm rfl rfl h

theorem jenc_op_3f (e e' : Em) (haddr : Nat → Option Nat) (pc n : Nat) (dst src : BitVec 8) (off : BitVec 16) (imm : BitVec 32) (nx : Option Insn)
    (h : JitEmit.arm e haddr pc ⟨0x3f, dst, src, off, imm⟩ nx = .ok (e', n)) :
    ∃ ais, JitAst.arm haddr pc ⟨0x3f, dst, src, off, imm⟩ nx = .ok (ais, n) ∧ Emits e e' ais :=
  jenc_md e 0x3f imm rfl rfl h

theorem jenc_op_97 (e e' : Em) (haddr : Nat → Option Nat) (pc n : Nat) (dst src : BitVec 8) (off : BitVec 16) (imm : BitVec 32) (nx : Option Insn)
    (h : JitEmit.arm e haddr pc ⟨0x97, dst, src, off, imm⟩ nx = .ok (e', n)) :
    ∃ ais, JitAst.arm haddr pc ⟨0x97, dst, src, off, imm⟩ nx = .ok (ais, n) ∧ Emits e e' ais :=
  jenc_md e 0x97 imm rfl rfl h

theorem jenc_op_9f (e e' : Em) (haddr : Nat → Option Nat) (pc n : Nat) (dst src : BitVec 8) (off : BitVec 16) (imm : BitVec 32) (nx : Option Insn)
    (h : JitEmit.arm e haddr pc ⟨0x9f, dst, src, off, imm⟩ nx = .ok (e', n)) :
    ∃ ais, JitAst.arm haddr pc ⟨0x9f, dst, src, off, imm⟩ nx = .ok (ais, n) ∧ Emits e e' ais :=
  jenc_md e 0x9f imm rfl rfl h

theorem jenc_op_05 (e e' : Em) (haddr : Nat → Option Nat) (pc n : Nat) (dst src : BitVec 8) (off : BitVec 16) (imm : BitVec 32) (nx : Option Insn)
    (h : JitEmit.arm e haddr pc ⟨0x05, dst, src, off, imm⟩ nx = .ok (e', n)) :
    ∃ ais, JitAst.arm haddr pc ⟨0x05, dst, src, off, imm⟩ nx = .ok (ais, n) ∧ Emits e e' ais :=
  jenc_ja e off rfl rfl h

theorem jenc_op_15 (e e' : Em) (haddr : Nat → Option Nat) (pc n : Nat) (dst src : BitVec 8) (off : BitVec 16) (imm : BitVec 32) (nx : Option Insn)
    (h : JitEmit.arm e haddr pc ⟨0x15, dst, src, off, imm⟩ nx = .ok (e', n)) :
    ∃ ais, JitAst.arm haddr pc ⟨0x15, dst, src, off, imm⟩ nx = .ok (ais, n) ∧ Emits e e' ais :=
  jenc_cmpImm e true 0x84 .e off imm rfl rfl rfl h

theorem jenc_op_1d (e e' : Em) (haddr : Nat → Option Nat) (pc n : Nat) (dst src : BitVec 8) (off : BitVec 16) (imm : BitVec 32) (nx : Option Insn)
    (h : JitEmit.arm e haddr pc ⟨0x1d, dst, src, off, imm⟩ nx = .ok (e', n)) :
    ∃ ais, JitAst.arm haddr pc ⟨0x1d, dst, src, off, imm⟩ nx = .ok (ais, n) ∧ Emits e e' ais :=
  jenc_cmpReg e true 0x84 .e off rfl rfl rfl h

theorem jenc_op_25 (e e' : Em) (haddr : Nat → Option Nat) (pc n : Nat) (dst src : BitVec 8) (off : BitVec 16) (imm : BitVec 32) (nx : Option Insn)
    (h : JitEmit.arm e haddr pc ⟨0x25, dst, src, off, imm⟩ nx = .ok (e', n)) :
    ∃ ais, JitAst.arm haddr pc ⟨0x25, dst, src, off, imm⟩ nx = .ok (ais, n) ∧ Emits e e' ais :=
  jenc_cmpImm e true 0x87 .a off imm rfl rfl rfl h

theorem jenc_op_2d (e e' : Em) (haddr : Nat → Option Nat) (pc n : Nat) (dst src : BitVec 8) (off : BitVec 16) (imm : BitVec 32) (nx : Option Insn)
    (h : JitEmit.arm e haddr pc ⟨0x2d, dst, src, off, imm⟩ nx = .ok (e', n)) :
    ∃ ais, JitAst.arm haddr pc ⟨0x2d, dst, src, off, imm⟩ nx = .ok (ais, n) ∧ Emits e e' ais :=
  jenc_cmpReg e true 0x87 .a off rfl rfl rfl h

theorem jenc_op_35 (e e' : Em) (haddr : Nat → Option Nat) (pc n : Nat) (dst src : BitVec 8) (off : BitVec 16) (imm : BitVec 32) (nx : Option Insn)
    (h : JitEmit.arm e haddr pc ⟨0x35, dst, src, off, imm⟩ nx = .ok (e', n)) :
    ∃ ais, JitAst.arm haddr pc ⟨0x35, dst, src, off, imm⟩ nx = .ok (ais, n) ∧ Emits e e' ais :=
  jenc_cmpImm e true 0x83 .ae off imm rfl rfl rfl h

theorem jenc_op_3d (e e' : Em) (haddr : Nat → Option Nat) (pc n : Nat) (dst src : BitVec 8) (off : BitVec 16) (imm : BitVec 32) (nx : Option Insn)
    (h : JitEmit.arm e haddr pc ⟨0x3d, dst, src, off, imm⟩ nx = .ok (e', n)) :
    ∃ ais, JitAst.arm haddr pc ⟨0x3d, dst, src, off, imm⟩ nx = .ok (ais, n) ∧ Emits e e' ais :=
  jenc_cmpReg e true 0x83 .ae off rfl rfl rfl h

theorem jenc_op_a5 (e e' : Em) (haddr : Nat → Option Nat) (pc n : Nat) (dst src : BitVec 8) (off : BitVec 16) (imm : BitVec 32) (nx : Option Insn)
    (h : JitEmit.arm e haddr pc ⟨0xa5, dst, src, off, imm⟩ nx = .ok (e', n)) :
    ∃ ais, JitAst.arm haddr pc ⟨0xa5, dst, src, off, imm⟩ nx = .ok (ais, n) ∧ Emits e e' ais :=
  jenc_cmpImm e true 0x82 .b off imm rfl rfl rfl h

theorem jenc_op_ad (e e' : Em) (haddr : Nat → Option Nat) (pc n : Nat) (dst src : BitVec 8) (off : BitVec 16) (imm : BitVec 32) (nx : Option Insn)
    (h : JitEmit.arm e haddr pc ⟨0xad, dst, src, off, imm⟩ nx = .ok (e', n)) :
    ∃ ais, JitAst.arm haddr pc ⟨0xad, dst, src, off, imm⟩ nx = .ok (ais, n) ∧ Emits e e' ais :=
  jenc_cmpReg e true 0x82 .b off rfl rfl rfl h

theorem jenc_op_b5 (e e' : Em) (haddr : Nat → Option Nat) (pc n : Nat) (dst src : BitVec 8) (off : BitVec 16) (imm : BitVec 32) (nx : Option Insn)
    (h : JitEmit.arm e haddr pc ⟨0xb5, dst, src, off, imm⟩ nx = .ok (e', n)) :
    ∃ ais, JitAst.arm haddr pc ⟨0xb5, dst, src, off, imm⟩ nx = .ok (ais, n) ∧ Emits e e' ais :=
  jenc_cmpImm e true 0x86 .be off imm rfl rfl rfl h

theorem jenc_op_bd (e e' : Em) (haddr : Nat → Option Nat) (pc n : Nat) (dst src : BitVec 8) (off : BitVec 16) (imm : BitVec 32) (nx : Option Insn)
    (h : JitEmit.arm e haddr pc ⟨0xbd, dst, src, off, imm⟩ nx = .ok (e', n)) :
    ∃ ais, JitAst.arm haddr pc ⟨0xbd, dst, src, off, imm⟩ nx = .ok (ais, n) ∧ Emits e e' ais :=
  jenc_cmpReg e true 0x86 .be off rfl rfl rfl h

theorem jenc_op_45 (e e' : Em) (haddr : Nat → Option Nat) (pc n : Nat) (dst src : BitVec 8) (off : BitVec 16) (imm : BitVec 32) (nx : Option Insn)
    (h : JitEmit.arm e haddr pc ⟨0x45, dst, src, off, imm⟩ nx = .ok (e', n)) :
    ∃ ais, JitAst.arm haddr pc ⟨0x45, dst, src, off, imm⟩ nx = .ok (ais, n) ∧ Emits e e' ais :=
  jenc_testImm e true off imm rfl rfl h

theorem jenc_op_4d (e e' : Em) (haddr : Nat → Option Nat) (pc n : Nat) (dst src : BitVec 8) (off : BitVec 16) (imm : BitVec 32) (nx : Option Insn)
    (h : JitEmit.arm e haddr pc ⟨0x4d, dst, src, off, imm⟩ nx = .ok (e', n)) :
    ∃ ais, JitAst.arm haddr pc ⟨0x4d, dst, src, off, imm⟩ nx = .ok (ais, n) ∧ Emits e e' ais :=
  jenc_testReg e true off rfl rfl h

theorem jenc_op_55 (e e' : Em) (haddr : Nat → Option Nat) (pc n : Nat) (dst src : BitVec 8) (off : BitVec 16) (imm : BitVec 32) (nx : Option Insn)
    (h : JitEmit.arm e haddr pc ⟨0x55, dst, src, off, imm⟩ nx = .ok (e', n)) :
    ∃ ais, JitAst.arm haddr pc ⟨0x55, dst, src, off, imm⟩ nx = .ok (ais, n) ∧ Emits e e' ais :=
  jenc_cmpImm e true 0x85 .ne off imm rfl rfl rfl h

theorem jenc_op_5d (e e' : Em) (haddr : Nat → Option Nat) (pc n : Nat) (dst src : BitVec 8) (off : BitVec 16) (imm : BitVec 32) (nx : Option Insn)
    (h : JitEmit.arm e haddr pc ⟨0x5d, dst, src, off, imm⟩ nx = .ok (e', n)) :
    ∃ ais, JitAst.arm haddr pc ⟨0x5d, dst, src, off, imm⟩ nx = .ok (ais, n) ∧ Emits e e' ais :=
  jenc_cmpReg e true 0x85 .ne off rfl rfl rfl h

theorem jenc_op_65 (e e' : Em) (haddr : Nat → Option Nat) (pc n : Nat) (dst src : BitVec 8) (off : BitVec 16) (imm : BitVec 32) (nx : Option Insn)
    (h : JitEmit.arm e haddr pc ⟨0x65, dst, src, off, imm⟩ nx = .ok (e', n)) :
    ∃ ais, JitAst.arm haddr pc ⟨0x65, dst, src, off, imm⟩ nx = .ok (ais, n) ∧ Emits e e' ais :=
  jenc_cmpImm e true 0x8f .g off imm rfl rfl rfl h

theorem jenc_op_6d (e e' : Em) (haddr : Nat → Option Nat) (pc n : Nat) (dst src : BitVec 8) (off : BitVec 16) (imm : BitVec 32) (nx : Option Insn)
    (h : JitEmit.arm e haddr pc ⟨0x6d, dst, src, off, imm⟩ nx = .ok (e', n)) :
    ∃ ais, JitAst.arm haddr pc ⟨0x6d, dst, src, off, imm⟩ nx = .ok (ais, n) ∧ Emits e e' ais :=
  jenc_cmpReg e true 0x8f .g off rfl rfl rfl h

theorem jenc_op_75 (e e' : Em) (haddr : Nat → Option Nat) (pc n : Nat) (dst src : BitVec 8) (off : BitVec 16) (imm : BitVec 32) (nx : Option Insn)
    (h : JitEmit.arm e haddr pc ⟨0x75, dst, src, off, imm⟩ nx = .ok (e', n)) :
    ∃ ais, JitAst.arm haddr pc ⟨0x75, dst, src, off, imm⟩ nx = .ok (ais, n) ∧ Emits e e' ais :=
  jenc_cmpImm e true 0x8d .ge off imm rfl rfl rfl h

theorem jenc_op_7d (e e' : Em) (haddr : Nat → Option Nat) (pc n : Nat) (dst src : BitVec 8) (off : BitVec 16) (imm : BitVec 32) (nx : Option Insn)
    (h : JitEmit.arm e haddr pc ⟨0x7d, dst, src, off, imm⟩ nx = .ok (e', n)) :
    ∃ ais, JitAst.arm haddr pc ⟨0x7d, dst, src, off, imm⟩ nx = .ok (ais, n) ∧ Emits e e' ais :=
  jenc_cmpReg e true 0x8d .ge off rfl rfl rfl h

theorem jenc_op_c5 (e e' : Em) (haddr : Nat → Option Nat) (pc n : Nat) (dst src : BitVec 8) (off : BitVec 16) (imm : BitVec 32) (nx : Option Insn)
    (h : JitEmit.arm e haddr pc ⟨0xc5, dst, src, off, imm⟩ nx = .ok (e', n)) :
    ∃ ais, JitAst.arm haddr pc ⟨0xc5, dst, src, off, imm⟩ nx = .ok (ais, n) ∧ Emits e e' ais :=
  jenc_cmpImm e true 0x8c .l off imm rfl rfl rfl h

theorem jenc_op_cd (e e' : Em) (haddr : Nat → Option Nat) (pc n : Nat) (dst src : BitVec 8) (off : BitVec 16) (imm : BitVec 32) (nx : Option Insn)
    (h : JitEmit.arm e haddr pc ⟨0xcd, dst, src, off, imm⟩ nx = .ok (e', n)) :
    ∃ ais, JitAst.arm haddr pc ⟨0xcd, dst, src, off, imm⟩ nx = .ok (ais, n) ∧ Emits e e' ais :=
  jenc_cmpReg e true 0x8c .l off rfl rfl rfl h

theorem jenc_op_d5 (e e' : Em) (haddr : Nat → Option Nat) (pc n : Nat) (dst src : BitVec 8) (off : BitVec 16) (imm : BitVec 32) (nx : Option Insn)
    (h : JitEmit.arm e haddr pc ⟨0xd5, dst, src, off, imm⟩ nx = .ok (e', n)) :
    ∃ ais, JitAst.arm haddr pc ⟨0xd5, dst, src, off, imm⟩ nx = .ok (ais, n) ∧ Emits e e' ais :=
  jenc_cmpImm e true 0x8e .le off imm rfl rfl rfl h

theorem jenc_op_dd (e e' : Em) (haddr : Nat → Option Nat) (pc n : Nat) (dst src : BitVec 8) (off : BitVec 16) (imm : BitVec 32) (nx : Option Insn)
    (h : JitEmit.arm e haddr pc ⟨0xdd, dst, src, off, imm⟩ nx = .ok (e', n)) :
    ∃ ais, JitAst.arm haddr pc ⟨0xdd, dst, src, off, imm⟩ nx = .ok (ais, n) ∧ Emits e e' ais :=
  jenc_cmpReg e true 0x8e .le off rfl rfl rfl h

theorem jenc_op_16 (e e' : Em) (haddr : Nat → Option Nat) (pc n : Nat) (dst src : BitVec 8) (off : BitVec 16) (imm : BitVec 32) (nx : Option Insn)
    (h : JitEmit.arm e haddr pc ⟨0x16, dst, src, off, imm⟩ nx = .ok (e', n)) :
    ∃ ais, JitAst.arm haddr pc ⟨0x16, dst, src, off, imm⟩ nx = .ok (ais, n) ∧ Emits e e' ais :=
  jenc_cmpImm e false 0x84 .e off imm rfl rfl rfl h

theorem jenc_op_1e (e e' : Em) (haddr : Nat → Option Nat) (pc n : Nat) (dst src : BitVec 8) (off : BitVec 16) (imm : BitVec 32) (nx : Option Insn)
    (h : JitEmit.arm e haddr pc ⟨0x1e, dst, src, off, imm⟩ nx = .ok (e', n)) :
    ∃ ais, JitAst.arm haddr pc ⟨0x1e, dst, src, off, imm⟩ nx = .ok (ais, n) ∧ Emits e e' ais :=
  jenc_cmpReg e false 0x84 .e off rfl rfl rfl h

theorem jenc_op_26 (e e' : Em) (haddr : Nat → Option Nat) (pc n : Nat) (dst src : BitVec 8) (off : BitVec 16) (imm : BitVec 32) (nx : Option Insn)
    (h : JitEmit.arm e haddr pc ⟨0x26, dst, src, off, imm⟩ nx = .ok (e', n)) :
    ∃ ais, JitAst.arm haddr pc ⟨0x26, dst, src, off, imm⟩ nx = .ok (ais, n) ∧ Emits e e' ais :=
  jenc_cmpImm e false 0x87 .a off imm rfl rfl rfl h

theorem jenc_op_2e (e e' : Em) (haddr : Nat → Option Nat) (pc n : Nat) (dst src : BitVec 8) (off : BitVec 16) (imm : BitVec 32) (nx : Option Insn)
    (h : JitEmit.arm e haddr pc ⟨0x2e, dst, src, off, imm⟩ nx = .ok (e', n)) :
    ∃ ais, JitAst.arm haddr pc ⟨0x2e, dst, src, off, imm⟩ nx = .ok (ais, n) ∧ Emits e e' ais :=
  jenc_cmpReg e false 0x87 .a off rfl rfl rfl h

theorem jenc_op_36 (e e' : Em) (haddr : Nat → Option Nat) (pc n : Nat) (dst src : BitVec 8) (off : BitVec 16) (imm : BitVec 32) (nx : Option Insn)
    (h : JitEmit.arm e haddr pc ⟨0x36, dst, src, off, imm⟩ nx = .ok (e', n)) :
    ∃ ais, JitAst.arm haddr pc ⟨0x36, dst, src, off, imm⟩ nx = .ok (ais, n) ∧ Emits e e' ais :=
  jenc_cmpImm e false 0x83 .ae off imm rfl rfl rfl h

theorem jenc_op_3e (e e' : Em) (haddr : Nat → Option Nat) (pc n : Nat) (dst src : BitVec 8) (off : BitVec 16) (imm : BitVec 32) (nx : Option Insn)
    (h : JitEmit.arm e haddr pc ⟨0x3e, dst, src, off, imm⟩ nx = .ok (e', n)) :
    ∃ ais, JitAst.arm haddr pc ⟨0x3e, dst, src, off, imm⟩ nx = .ok (ais, n) ∧ Emits e e' ais :=
  jenc_cmpReg e false 0x83 .ae off rfl rfl rfl h

theorem jenc_op_a6 (e e' : Em) (haddr : Nat → Option Nat) (pc n : Nat) (dst src : BitVec 8) (off : BitVec 16) (imm : BitVec 32) (nx : Option Insn)
    (h : JitEmit.arm e haddr pc ⟨0xa6, dst, src, off, imm⟩ nx = .ok (e', n)) :
    ∃ ais, JitAst.arm haddr pc ⟨0xa6, dst, src, off, imm⟩ nx = .ok (ais, n) ∧ Emits e e' ais :=
  jenc_cmpImm e false 0x82 .b off imm rfl rfl rfl h

theorem jenc_op_ae (e e' : Em) (haddr : Nat → Option Nat) (pc n : Nat) (dst src : BitVec 8) (off : BitVec 16) (imm : BitVec 32) (nx : Option Insn)
    (h : JitEmit.arm e haddr pc ⟨0xae, dst, src, off, imm⟩ nx = .ok (e', n)) :
    ∃ ais, JitAst.arm haddr pc ⟨0xae, dst, src, off, imm⟩ nx = .ok (ais, n) ∧ Emits e e' ais :=
  jenc_cmpReg e false 0x82 .b off rfl rfl rfl h

theorem jenc_op_b6 (e e' : Em) (haddr : Nat → Option Nat) (pc n : Nat) (dst src : BitVec 8) (off : BitVec 16) (imm : BitVec 32) (nx : Option Insn)
    (h : JitEmit.arm e haddr pc ⟨0xb6, dst, src, off, imm⟩ nx = .ok (e', n)) :
    ∃ ais, JitAst.arm haddr pc ⟨0xb6, dst, src, off, imm⟩ nx = .ok (ais, n) ∧ Emits e e' ais :=
  jenc_cmpImm e false 0x86 .be off imm rfl rfl rfl h

theorem jenc_op_be (e e' : Em) (haddr : Nat → Option Nat) (pc n : Nat) (dst src : BitVec 8) (off : BitVec 16) (imm : BitVec 32) (nx : Option Insn)
    (h : JitEmit.arm e haddr pc ⟨0xbe, dst, src, off, imm⟩ nx = .ok (e', n)) :
    ∃ ais, JitAst.arm haddr pc ⟨0xbe, dst, src, off, imm⟩ nx = .ok (ais, n) ∧ Emits e e' ais :=
  jenc_cmpReg e false 0x86 .be off rfl rfl rfl h

theorem jenc_op_46 (e e' : Em) (haddr : Nat → Option Nat) (pc n : Nat) (dst src : BitVec 8) (off : BitVec 16) (imm : BitVec 32) (nx : Option Insn)
    (h : JitEmit.arm e haddr pc ⟨0x46, dst, src, off, imm⟩ nx = .ok (e', n)) :
    ∃ ais, JitAst.arm haddr pc ⟨0x46, dst, src, off, imm⟩ nx = .ok (ais, n) ∧ Emits e e' ais :=
  jenc_testImm e false off imm rfl rfl h

theorem jenc_op_4e (e e' : Em) (haddr : Nat → Option Nat) (pc n : Nat) (dst src : BitVec 8) (off : BitVec 16) (imm : BitVec 32) (nx : Option Insn)
    (h : JitEmit.arm e haddr pc ⟨0x4e, dst, src, off, imm⟩ nx = .ok (e', n)) :
    ∃ ais, JitAst.arm haddr pc ⟨0x4e, dst, src, off, imm⟩ nx = .ok (ais, n) ∧ Emits e e' ais :=
  jenc_testReg e false off rfl rfl h

theorem jenc_op_56 (e e' : Em) (haddr : Nat → Option Nat) (pc n : Nat) (dst src : BitVec 8) (off : BitVec 16) (imm : BitVec 32) (nx : Option Insn)
    (h : JitEmit.arm e haddr pc ⟨0x56, dst, src, off, imm⟩ nx = .ok (e', n)) :
    ∃ ais, JitAst.arm haddr pc ⟨0x56, dst, src, off, imm⟩ nx = .ok (ais, n) ∧ Emits e e' ais :=
  jenc_cmpImm e false 0x85 .ne off imm rfl rfl rfl h

theorem jenc_op_5e (e e' : Em) (haddr : Nat → Option Nat) (pc n : Nat) (dst src : BitVec 8) (off : BitVec 16) (imm : BitVec 32) (nx : Option Insn)
    (h : JitEmit.arm e haddr pc ⟨0x5e, dst, src, off, imm⟩ nx = .ok (e', n)) :
    ∃ ais, JitAst.arm haddr pc ⟨0x5e, dst, src, off, imm⟩ nx = .ok (ais, n) ∧ Emits e e' ais :=
  jenc_cmpReg e false 0x85 .ne off rfl rfl rfl h

theorem jenc_op_66 (e e' : Em) (haddr : Nat → Option Nat) (pc n : Nat) (dst src : BitVec 8) (off : BitVec 16) (imm : BitVec 32) (nx : Option Insn)
    (h : JitEmit.arm e haddr pc ⟨0x66, dst, src, off, imm⟩ nx = .ok (e', n)) :
    ∃ ais, JitAst.arm haddr pc ⟨0x66, dst, src, off, imm⟩ nx = .ok (ais, n) ∧ Emits e e' ais :=
  jenc_cmpImm e false 0x8f .g off imm rfl rfl rfl h

theorem jenc_op_6e (e e' : Em) (haddr : Nat → Option Nat) (pc n : Nat) (dst src : BitVec 8) (off : BitVec 16) (imm : BitVec 32) (nx : Option Insn)
    (h : JitEmit.arm e haddr pc ⟨0x6e, dst, src, off, imm⟩ nx = .ok (e', n)) :
    ∃ ais, JitAst.arm haddr pc ⟨0x6e, dst, src, off, imm⟩ nx = .ok (ais, n) ∧ Emits e e' ais :=
  jenc_cmpReg e false 0x8f .g off rfl rfl rfl h

theorem jenc_op_76 (e e' : Em) (haddr : Nat → Option Nat) (pc n : Nat) (dst src : BitVec 8) (off : BitVec 16) (imm : BitVec 32) (nx : Option Insn)
    (h : JitEmit.arm e haddr pc ⟨0x76, dst, src, off, imm⟩ nx = .ok (e', n)) :
    ∃ ais, JitAst.arm haddr pc ⟨0x76, dst, src, off, imm⟩ nx = .ok (ais, n) ∧ Emits e e' ais :=
  jenc_cmpImm e false 0x8d .ge off imm rfl rfl rfl h

theorem jenc_op_7e (e e' : Em) (haddr : Nat → Option Nat) (pc n : Nat) (dst src : BitVec 8) (off : BitVec 16) (imm : BitVec 32) (nx : Option Insn)
    (h : JitEmit.arm e haddr pc ⟨0x7e, dst, src, off, imm⟩ nx = .ok (e', n)) :
    ∃ ais, JitAst.arm haddr pc ⟨0x7e, dst, src, off, imm⟩ nx = .ok (ais, n) ∧ Emits e e' ais :=
  jenc_cmpReg e false 0x8d .ge off rfl rfl rfl h

theorem jenc_op_c6 (e e' : Em) (haddr : Nat → Option Nat) (pc n : Nat) (dst src : BitVec 8) (off : BitVec 16) (imm : BitVec 32) (nx : Option Insn)
    (h : JitEmit.arm e haddr pc ⟨0xc6, dst, src, off, imm⟩ nx = .ok (e', n)) :
    ∃ ais, JitAst.arm haddr pc ⟨0xc6, dst, src, off, imm⟩ nx = .ok (ais, n) ∧ Emits e e' ais :=
  jenc_cmpImm e false 0x8c .l off imm rfl rfl rfl h

theorem jenc_op_ce (e e' : Em) (haddr : Nat → Option Nat) (pc n : Nat) (dst src : BitVec 8) (off : BitVec 16) (imm : BitVec 32) (nx : Option Insn)
    (h : JitEmit.arm e haddr pc ⟨0xce, dst, src, off, imm⟩ nx = .ok (e', n)) :
    ∃ ais, JitAst.arm haddr pc ⟨0xce, dst, src, off, imm⟩ nx = .ok (ais, n) ∧ Emits e e' ais :=
  jenc_cmpReg e false 0x8c .l off rfl rfl rfl h

theorem jenc_op_d6 (e e' : Em) (haddr : Nat → Option Nat) (pc n : Nat) (dst src : BitVec 8) (off : BitVec 16) (imm : BitVec 32) (nx : Option Insn)
    (h : JitEmit.arm e haddr pc ⟨0xd6, dst, src, off, imm⟩ nx = .ok (e', n)) :
    ∃ ais, JitAst.arm haddr pc ⟨0xd6, dst, src, off, imm⟩ nx = .ok (ais, n) ∧ Emits e e' ais :=
  jenc_cmpImm e false 0x8e .le off imm rfl rfl rfl h

theorem jenc_op_de (e e' : Em) (haddr : Nat → Option Nat) (pc n : Nat) (dst src : BitVec 8) (off : BitVec 16) (imm : BitVec 32) (nx : Option Insn)
    (h : JitEmit.arm e haddr pc ⟨0xde, dst, src, off, imm⟩ nx = .ok (e', n)) :
    ∃ ais, JitAst.arm haddr pc ⟨0xde, dst, src, off, imm⟩ nx = .ok (ais, n) ∧ Emits e e' ais :=
  jenc_cmpReg e false 0x8e .le off rfl rfl rfl h

-- ---------------------------------------------------------------------------------------------------------
-- assembly

theorem jenc_opc_eq {opc : BitVec 8} {k : Nat} (h : opc.toNat = k) (hk : k < 256 := by decide) : opc = BitVec.ofNat 8 k :=
  BitVec.eq_of_toNat_eq (by rw [h, BitVec.toNat_ofNat]; exact (Nat.mod_eq_of_lt hk).symm)

theorem arm_enc_muldivjump (e e' : Em) (haddr : Nat → Option Nat) (pc n : Nat) (i : Insn) (nx : Option Insn)
    (hc : i.opc.toNat ∈ mulDivOpcodes ++ jumpOpcodes)
    (h : JitEmit.arm e haddr pc i nx = .ok (e', n)) :
    ∃ ais, JitAst.arm haddr pc i nx = .ok (ais, n) ∧ Emits e e' ais := by
  obtain ⟨opc, dst, src, off, imm⟩ := i
  simp only [mulDivOpcodes, jumpOpcodes, List.cons_append, List.nil_append, List.mem_cons, List.not_mem_nil, or_false] at hc
  rcases hc with hc | hc | hc | hc | hc | hc | hc | hc | hc | hc | hc | hc | hc | hc | hc | hc | hc | hc | hc | hc | hc | hc | hc | hc | hc | hc | hc | hc | hc | hc | hc | hc | hc | hc | hc | hc | hc | hc | hc | hc | hc | hc | hc | hc | hc | hc | hc | hc | hc | hc | hc | hc | hc | hc | hc | hc | hc
  · cases jenc_opc_eq hc; exact jenc_op_24 e e' haddr pc n dst src off imm nx h
  · cases jenc_opc_eq hc; exact jenc_op_2c e e' haddr pc n dst src off imm nx h
  · cases jenc_opc_eq hc; exact jenc_op_34 e e' haddr pc n dst src off imm nx h
  · cases jenc_opc_eq hc; exact jenc_op_3c e e' haddr pc n dst src off imm nx h
  · cases jenc_opc_eq hc; exact jenc_op_94 e e' haddr pc n dst src off imm nx h
  · cases jenc_opc_eq hc; exact jenc_op_9c e e' haddr pc n dst src off imm nx h
  · cases jenc_opc_eq hc; exact jenc_op_27 e e' haddr pc n dst src off imm nx h
  · cases jenc_opc_eq hc; exact jenc_op_2f e e' haddr pc n dst src off imm nx h
  · cases jenc_opc_eq hc; exact jenc_op_37 e e' haddr pc n dst src off imm nx h
  · cases jenc_opc_eq hc; exact jenc_op_3f e e' haddr pc n dst src off imm nx h
  · cases jenc_opc_eq hc; exact jenc_op_97 e e' haddr pc n dst src off imm nx h
  · cases jenc_opc_eq hc; exact jenc_op_9f e e' haddr pc n dst src off imm nx h
  · cases jenc_opc_eq hc; exact jenc_op_05 e e' haddr pc n dst src off imm nx h
  · cases jenc_opc_eq hc; exact jenc_op_15 e e' haddr pc n dst src off imm nx h
  · cases jenc_opc_eq hc; exact jenc_op_1d e e' haddr pc n dst src off imm nx h
  · cases jenc_opc_eq hc; exact jenc_op_25 e e' haddr pc n dst src off imm nx h
  · cases jenc_opc_eq hc; exact jenc_op_2d e e' haddr pc n dst src off imm nx h
  · cases jenc_opc_eq hc; exact jenc_op_35 e e' haddr pc n dst src off imm nx h
  · cases jenc_opc_eq hc; exact jenc_op_3d e e' haddr pc n dst src off imm nx h
  · cases jenc_opc_eq hc; exact jenc_op_a5 e e' haddr pc n dst src off imm nx h
  · cases jenc_opc_eq hc; exact jenc_op_ad e e' haddr pc n dst src off imm nx h
  · cases jenc_opc_eq hc; exact jenc_op_b5 e e' haddr pc n dst src off imm nx h
  · cases jenc_opc_eq hc; exact jenc_op_bd e e' haddr pc n dst src off imm nx h
  · cases jenc_opc_eq hc; exact jenc_op_45 e e' haddr pc n dst src off imm nx h
  · cases jenc_opc_eq hc; exact jenc_op_4d e e' haddr pc n dst src off imm nx h
  · cases jenc_opc_eq hc; exact jenc_op_55 e e' haddr pc n dst src off imm nx h
  · cases jenc_opc_eq hc; exact jenc_op_5d e e' haddr pc n dst src off imm nx h
  · cases jenc_opc_eq hc; exact jenc_op_65 e e' haddr pc n dst src off imm nx h
  · cases jenc_opc_eq hc; exact jenc_op_6d e e' haddr pc n dst src off imm nx h
  · cases jenc_opc_eq hc; exact jenc_op_75 e e' haddr pc n dst src off imm nx h
  · cases jenc_opc_eq hc; exact jenc_op_7d e e' haddr pc n dst src off imm nx h
  · cases jenc_opc_eq hc; exact jenc_op_c5 e e' haddr pc n dst src off imm nx h
  · cases jenc_opc_eq hc; exact jenc_op_cd e e' haddr pc n dst src off imm nx h
  · cases jenc_opc_eq hc; exact jenc_op_d5 e e' haddr pc n dst src off imm nx h
  · cases jenc_opc_eq hc; exact jenc_op_dd e e' haddr pc n dst src off imm nx h
  · cases jenc_opc_eq hc; exact jenc_op_16 e e' haddr pc n dst src off imm nx h
  · cases jenc_opc_eq hc; exact jenc_op_1e e e' haddr pc n dst src off imm nx h
  · cases jenc_opc_eq hc; exact jenc_op_26 e e' haddr pc n dst src off imm nx h
  · cases jenc_opc_eq hc; exact jenc_op_2e e e' haddr pc n dst src off imm nx h
  · cases jenc_opc_eq hc; exact jenc_op_36 e e' haddr pc n dst src off imm nx h
  · cases jenc_opc_eq hc; exact jenc_op_3e e e' haddr pc n dst src off imm nx h
  · cases jenc_opc_eq hc; exact jenc_op_a6 e e' haddr pc n dst src off imm nx h
  · cases jenc_opc_eq hc; exact jenc_op_ae e e' haddr pc n dst src off imm nx h
  · cases jenc_opc_eq hc; exact jenc_op_b6 e e' haddr pc n dst src off imm nx h
  · cases jenc_opc_eq hc; exact jenc_op_be e e' haddr pc n dst src off imm nx h
  · cases jenc_opc_eq hc; exact jenc_op_46 e e' haddr pc n dst src off imm nx h
  · cases jenc_opc_eq hc; exact jenc_op_4e e e' haddr pc n dst src off imm nx h
  · cases jenc_opc_eq hc; exact jenc_op_56 e e' haddr pc n dst src off imm nx h
  · cases jenc_opc_eq hc; exact jenc_op_5e e e' haddr pc n dst src off imm nx h
  · cases jenc_opc_eq hc; exact jenc_op_66 e e' haddr pc n dst src off imm nx h
  · cases jenc_opc_eq hc; exact jenc_op_6e e e' haddr pc n dst src off imm nx h
  · cases jenc_opc_eq hc; exact jenc_op_76 e e' haddr pc n dst src off imm nx h
  · cases jenc_opc_eq hc; exact jenc_op_7e e e' haddr pc n dst src off imm nx h
  · cases jenc_opc_eq hc; exact jenc_op_c6 e e' haddr pc n dst src off imm nx h
  · cases jenc_opc_eq hc; exact jenc_op_ce e e' haddr pc n dst src off imm nx h
  · cases jenc_opc_eq hc; exact jenc_op_d6 e e' haddr pc n dst src off imm nx h
  · cases jenc_opc_eq hc; exact jenc_op_de e e' haddr pc n dst src off imm nx h

end Rbpf.JitEnc
