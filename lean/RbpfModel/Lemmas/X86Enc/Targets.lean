/-
  What the verifier guarantees is what the layout proof needs: in a program `Verifier.check` accepts, every jump and
  call target of every arm is the index of an instruction start, and the program has at most 1,000,000 slots.
-/
import RbpfModel.Lemmas.X86Enc.Layout
import RbpfModel.Model.Verifier
import RbpfModel.Model.WellFormed
import RbpfModel.Lemmas.VerifierLemmas
namespace Rbpf.JitEnc
open Rbpf.JitAst (AI Tgt sweep)

/-! ### the two sweeps list the same instruction starts -/

/-- whatever fuel: the checker's sweep only lists instruction starts of the specification's sweep -/
theorem tgt_sweep_sub (p : Bytes) : ∀ (fuel s : Nat) (x : Nat × Insn), x ∈ sweep p fuel s →
    x.1 ∈ sweepFrom p s ∧ getInsn? p x.1 = some x.2 := by
  intro fuel
  induction fuel with
  | zero => intro s x hx; simp [sweep] at hx
  | succ fuel ih =>
    intro s x hx
    rw [sweep] at hx
    rw [sweepFrom]
    by_cases hs : s * 8 < p.size
    · rw [if_pos hs] at hx ⊢
      cases hi : getInsn? p s with
      | none => rw [hi] at hx; cases hx
      | some i =>
        rw [hi] at hx
        simp only at hx ⊢
        rcases List.mem_cons.1 hx with rfl | hx
        · exact ⟨List.mem_cons_self, hi⟩
        · obtain ⟨h1, h2⟩ := ih _ x hx
          exact ⟨List.mem_cons_of_mem _ h1, h2⟩
    · rw [if_neg hs] at hx; cases hx

/-- with enough fuel the checker's sweep lists every instruction start of the specification's sweep -/
theorem tgt_sweep_sup (p : Bytes) (t : Nat) : ∀ (fuel s : Nat), p.size / 8 + 1 ≤ fuel + s → t ∈ sweepFrom p s →
    ∃ j, (t, j) ∈ sweep p fuel s := by
  intro fuel
  induction fuel with
  | zero =>
    intro s hf ht
    have := (mem_sweepFrom_bounds ht)
    omega
  | succ fuel ih =>
    intro s hf ht
    rw [sweepFrom] at ht
    rw [sweep]
    by_cases hs : s * 8 < p.size
    · rw [if_pos hs] at ht ⊢
      cases hi : getInsn? p s with
      | none => rw [hi] at ht; cases ht
      | some i =>
        rw [hi] at ht
        simp only at ht ⊢
        rcases List.mem_cons.1 ht with rfl | ht
        · exact ⟨i, List.mem_cons_self⟩
        · obtain ⟨j, hj⟩ := ih _ (by split <;> omega) ht
          exact ⟨j, List.mem_cons_of_mem _ hj⟩
    · rw [if_neg hs] at ht; cases ht

theorem tgt_mem_starts (p : Bytes) (x : Nat × Insn) (hx : x ∈ sweep p (p.size / 8 + 1) 0) :
    x.1 ∈ starts p ∧ getInsn? p x.1 = some x.2 := tgt_sweep_sub p _ 0 x hx

theorem tgt_of_starts (p : Bytes) (t : Nat) (ht : t ∈ starts p) : ∃ j, (t, j) ∈ sweep p (p.size / 8 + 1) 0 :=
  tgt_sweep_sup p t _ 0 (by omega) ht

/-! ### the symbolic targets of an arm -/

theorem tgt_targetsOf_append (a b : List AI) : targetsOf (a ++ b) = targetsOf a ++ targetsOf b := by
  induction a with
  | nil => rfl
  | cons x r ih => cases x <;> simp [targetsOf, ih]

theorem tgt_targetsOf_ite (c : Prop) [Decidable c] (a b : List AI) :
    targetsOf (if c then a else b) = if c then targetsOf a else targetsOf b := by
  split <;> rfl

theorem tgt_loadPacket (sz base : Nat) (imm : BitVec 32) : targetsOf (JitAst.loadPacket sz base imm) = [] := by
  unfold JitAst.loadPacket
  split <;> rfl

theorem tgt_muldivmod (pc opc src dst : Nat) (imm : BitVec 32) (t : Int)
    (h : Tgt.pc t ∈ targetsOf (JitAst.muldivmod pc opc src dst imm)) :
    t = (pc : Int) + 1 ∧ (opc &&& 0x08) = 0x08 ∧ ((opc &&& 0xf0) = 0x30 ∨ (opc &&& 0xf0) = 0x90) := by
  unfold JitAst.muldivmod at h
  simp only [] at h
  split at h
  · simp [targetsOf] at h
  · split at h
    · simp [targetsOf] at h
    · simp only [tgt_targetsOf_append, tgt_targetsOf_ite, targetsOf, List.mem_append] at h
      simp only [ite_self, List.append_nil, List.nil_append, List.not_mem_nil, or_false] at h
      split at h
      · rename_i hc
        refine ⟨?_, hc.2, hc.1⟩
        rcases List.mem_append.1 h with h | h
        · split at h
          · simpa using h
          · cases h
        · split at h
          · simpa using h
          · cases h
      · cases h

theorem tgt_arm (haddr : Nat → Option Nat) (pc : Nat) (i : Insn) (nx : Option Insn) (ais : List AI) (n : Nat)
    (h : JitAst.arm haddr pc i nx = .ok (ais, n)) (t : Int) (ht : Tgt.pc t ∈ targetsOf ais) :
    (t = (pc : Int) + i.off.toInt + 1 ∧ WF.isJump (BitVec.ofNat 8 i.opc.toNat) = true) ∨
    (t = (pc : Int) + i.imm.toInt + 1 ∧ i.opc.toNat = 0x85 ∧ i.src = 1) ∨
    (t = (pc : Int) + 1 ∧ (i.opc.toNat = 0x3c ∨ i.opc.toNat = 0x3f ∨ i.opc.toNat = 0x9c ∨ i.opc.toNat = 0x9f)) := by
  unfold JitAst.arm at h
  split at h
  · simp at h
  · simp at h
  · simp only [] at h
    split at h
    all_goals try (rename_i heq; rw [heq])
    all_goals try (split at h)
    all_goals try (split at h)
    all_goals try (split at h)
    all_goals try (simp only [Except.ok.injEq, Prod.mk.injEq, reduceCtorEq] at h)
    all_goals try (obtain ⟨rfl, -⟩ := h)
    all_goals try (simp only [targetsOf, tgt_targetsOf_append, tgt_loadPacket, List.append_nil, List.not_mem_nil] at ht)
    all_goals first
      | (obtain ⟨h1, h2, h3⟩ := tgt_muldivmod _ _ _ _ _ _ ht
         rw [heq] at h2 h3
         first
           | exact absurd h2 (by decide)
           | exact absurd h3 (by decide)
           | exact Or.inr (Or.inr ⟨h1, by decide⟩))
      | (simp only [List.mem_singleton, Tgt.pc.injEq] at ht
         first
           | exact Or.inl ⟨ht, by decide⟩
           | exact Or.inr (Or.inl ⟨ht, rfl, by assumption⟩))

/-! ### accepted programs -/

theorem targetsOk_of_check (p : Bytes) (haddr : Nat → Option Nat) (h : Verifier.check p = .ok) :
    TargetsOk p haddr ∧ p.size / 8 ≤ 1000000 := by
  -- `C06_check_iff`: accepted = well-formed
  obtain ⟨h8, h0, hmax, hins, hlast⟩ := wellFormed_of_check_ok h
  refine ⟨?_, by omega⟩
  intro x hx ais n harm t ht
  obtain ⟨hst, hget⟩ := tgt_mem_starts p x hx
  have hok := hins x.1 hst
  unfold WF.InsnOk at hok
  rw [hget] at hok
  simp only at hok
  obtain ⟨-, -, -, -, hj, hc, -, -⟩ := hok
  rcases tgt_arm haddr x.1 x.2 _ ais n harm t ht with ⟨rfl, hjmp⟩ | ⟨rfl, hop, hsrc⟩ | ⟨rfl, hop⟩
  · -- conditional jumps and `ja`
    rw [BitVec.ofNat_toNat, BitVec.setWidth_eq] at hjmp
    obtain ⟨-, h1, -, h3⟩ := hj hjmp
    have e : (x.1 : Int) + x.2.off.toInt + 1 = (x.1 : Int) + 1 + x.2.off.toInt := by omega
    rw [e]
    exact ⟨h1, tgt_of_starts p _ h3⟩
  · -- local calls
    have hopc : x.2.opc = 0x85 := BitVec.eq_of_toNat_eq (by rw [hop]; rfl)
    have hcall : WF.isCall x.2.opc = true := by rw [hopc]; decide
    rcases hc hcall with h0' | ⟨-, h1, -, h3⟩
    · rw [hsrc] at h0'; exact absurd h0' (by decide)
    · have e : (x.1 : Int) + x.2.imm.toInt + 1 = (x.1 : Int) + 1 + x.2.imm.toInt := by omega
      rw [e]
      exact ⟨h1, tgt_of_starts p _ h3⟩
  · -- division / remainder by a register: the next instruction, which exists because the last one is `exit` or `ja`
    have hne18 : x.2.opc ≠ 0x18 := by
      intro e; rw [e] at hop; revert hop; decide
    have hnext := next_start h x.1 hst x.2 hget
    simp only [if_neg hne18] at hnext
    refine ⟨by omega, ?_⟩
    rcases hnext with hs | he
    · have e : ((x.1 : Int) + 1).toNat = x.1 + 1 := by omega
      rw [e]
      exact tgt_of_starts p _ hs
    · exfalso
      obtain ⟨-, y, hy, hyop⟩ := check_ok_last h
      have e : p.size / 8 - 1 = x.1 := by omega
      rw [e, hget] at hy
      cases hy
      rcases hyop with e | e <;> rw [e] at hop <;> revert hop <;> decide

end Rbpf.JitEnc
