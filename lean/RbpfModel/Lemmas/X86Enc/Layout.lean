/-
  The emitter's output always passes the checker: if `JitEmit.compileWithLayout` succeeds on a program whose jump
  and call targets are instruction starts (what the verifier guarantees), the code buffer, the location table and the
  epilogue offset it returns satisfy `JitAst.validate`.  With `Lemmas/X86Sim` this turns the per-program check into a
  theorem about every program.
-/
import RbpfModel.Lemmas.X86Enc.Arm
import RbpfModel.Lemmas.X86Enc.LayoutBody
set_option linter.unusedSimpArgs false
namespace Rbpf.JitEnc
open Rbpf.X86 (Instr Cc decode ccOf)
open Rbpf.JitAst (AI Tgt checkSeq window validate sweep)
open Rbpf.JitEmit (Em Fail)

/-- the symbolic jump targets occurring in an instruction list -/
def targetsOf : List AI → List Tgt
  | [] => []
  | .i _ :: r => targetsOf r
  | .jcc _ t :: r => t :: targetsOf r
  | .jmp t :: r => t :: targetsOf r
  | .call t :: r => t :: targetsOf r

/-- every jump / call target of every arm is the index of an instruction start of `p` -/
def TargetsOk (p : Bytes) (haddr : Nat → Option Nat) : Prop :=
  ∀ x ∈ sweep p (p.size / 8 + 1) 0, ∀ ais n, JitAst.arm haddr x.1 x.2 (getInsn? p (x.1 + 1)) = .ok (ais, n) →
    ∀ t, Tgt.pc t ∈ targetsOf ais → 0 ≤ t ∧ ∃ j, (t.toNat, j) ∈ sweep p (p.size / 8 + 1) 0

theorem lay_targets_eq (ais : List AI) : lay_targets ais = targetsOf ais := by
  induction ais with
  | nil => rfl
  | cons a r ih => cases a <;> simp [lay_targets, targetsOf, ih]

theorem lay_sweep_lt (p : Bytes) : ∀ (fuel pc : Nat) (x : Nat × Insn), x ∈ sweep p fuel pc → x.1 * 8 < p.size := by
  intro fuel
  induction fuel with
  | zero => intro pc x hx; simp [sweep] at hx
  | succ fuel ih =>
    intro pc x hx
    rw [sweep] at hx
    split at hx
    · split at hx
      · rcases List.mem_cons.1 hx with rfl | hx
        · assumption
        · exact ih _ _ hx
      · cases hx
    · cases hx

theorem lay_Chain_append (l1 l2 : List lay_Seg) : ∀ a, lay_Chain a l1 → lay_Chain (a + (lay_bytes l1).length) l2 →
    lay_Chain a (l1 ++ l2) := by
  induction l1 with
  | nil => intro a _ h; simpa [lay_bytes] using h
  | cons s r ih =>
    intro a h1 h2
    obtain ⟨hs, he, hr⟩ := h1
    refine ⟨hs, he, ih _ hr ?_⟩
    have : (lay_bytes (s :: r)).length = s.bs.length + (lay_bytes r).length := by simp [lay_bytes]
    rw [this, ← Nat.add_assoc] at h2
    exact h2

/-- the checker's target map -/
def lay_tgt (p : Bytes) (locs : Array Nat) (ex : Nat) : Tgt → Option Nat
  | .exit => some ex
  | .pc t => if 0 ≤ t ∧ (sweep p (p.size / 8 + 1) 0).any (fun (k, _) => (k : Int) == t) then locs[t.toNat]? else none

def lay_vloc (p : Bytes) (locs : Array Nat) (ex : Nat) (k : Nat) : Option Nat := if k * 8 < p.size then locs[k]? else some ex

theorem lay_validate_eq (p : Bytes) (haddr : Nat → Option Nat) (um ud : Bool) (code : Array UInt8) (locs : Array Nat) (ex : Nat) :
    validate p haddr um ud code { pcLocs := locs, exitLoc := ex } =
      (locs.all (· ≤ code.size) && decide (ex ≤ code.size) &&
       (checkSeq code (lay_tgt p locs ex) 0 (JitAst.prologue um ud) == lay_vloc p locs ex 0) &&
       (sweep p (p.size / 8 + 1) 0).all (fun (pc, i) =>
         match JitAst.arm haddr pc i (getInsn? p (pc + 1)), locs[pc]? with
         | .ok (ais, n), some a => checkSeq code (lay_tgt p locs ex) a ais == lay_vloc p locs ex (pc + n) && (lay_vloc p locs ex (pc + n)).isSome
         | _, _ => false) &&
       (checkSeq code (lay_tgt p locs ex) ex JitAst.epilogue == some code.size)) := by
  rfl

theorem lay_look_exit (e : Em) : lay_look e (tgtInt .exit) = e.exitAnchor := by
  simp [lay_look, tgtInt]

theorem lay_look_pc (e : Em) (t : Int) (h0 : 0 ≤ t) (h1 : t ≠ JitEmit.targetPcExit) :
    lay_look e (tgtInt (.pc t)) = e.pcLocs[t.toNat]? := by
  show lay_look e t = _
  unfold lay_look
  rw [if_neg h1, if_neg (by omega)]

theorem lay_targets_prologue (um ud : Bool) : lay_targets (JitAst.prologue um ud) = [.exit] := by
  cases um <;> cases ud <;> rfl

theorem lay_targets_epilogue : lay_targets JitAst.epilogue = [] := rfl

/-- `compile_validates` under the verifier's program-size limit (at most 1000000 slots): without it a jump or call to
    slot 1000001 is recorded with the same number as the jump to the epilogue (`targetPcExit`) -/
theorem compile_validates_partial (p : Bytes) (haddr : Nat → Option Nat) (um ud : Bool) (code : Array UInt8) (locs : Array Nat) (ex : Nat)
    (h : JitEmit.compileWithLayout p haddr um ud = .ok (code, locs, ex))
    (hh : ∀ k a, haddr k = some a → a < 2 ^ 64)
    (ht : TargetsOk p haddr) (hsz : code.size < 2 ^ 31) (hp : p.size / 8 ≤ 1000000) :
    validate p haddr um ud code { pcLocs := locs, exitLoc := ex } = true := by
  unfold JitEmit.compileWithLayout at h
  simp only at h
  generalize he0 : ({ JitEmit.prologue um ud with pcLocs := Array.replicate (p.size / 8 + 1) 0 } : Em) = e0 at h
  cases hbody : JitEmit.body p haddr (p.size / 8 + 1) 0 e0 with
  | error f => rw [hbody] at h; cases h
  | ok ef =>
    rw [hbody] at h
    simp only at h
    cases hres : JitEmit.resolveJumps (JitEmit.epilogue ef) with
    | error f => rw [hres] at h; cases h
    | ok c =>
      rw [hres] at h
      simp only [Except.ok.injEq, Prod.mk.injEq] at h
      obtain ⟨rfl, rfl, rfl⟩ := h
      -- prologue
      obtain ⟨bs0, holes0, henc0, happ0⟩ := prologue_enc um ud
      obtain ⟨hc0, hj0, -, -⟩ := happ0
      have he0c : e0.code = ((bs0.map UInt8.ofNat)).toArray := by rw [← he0]; simpa using hc0
      have he0j : e0.jumps = (lay_abs 0 holes0).toArray := by rw [← he0]; simpa [lay_abs] using hj0
      have he0p : e0.pcLocs = Array.replicate (p.size / 8 + 1) 0 := by rw [← he0]
      have he0x : e0.exitAnchor = (JitEmit.prologue um ud).exitAnchor := by rw [← he0]
      have he0sz : e0.code.size = bs0.length := by rw [he0c]; simp
      -- body
      obtain ⟨ps, hch, hcode, hjumps, hexit, hpsz, -, hhere, hstop, hbound, hall⟩ :=
        lay_body p haddr hh (p.size / 8 + 1) 0 e0 ef hbody (by omega) (by rw [he0p]; simp) (by
          intro k v hkv
          rw [he0p, Array.getElem?_replicate] at hkv
          split at hkv
          · cases hkv; omega
          · cases hkv)
      -- epilogue
      obtain ⟨bsE, holesE, hencE, happE⟩ := epilogue_enc ef
      obtain ⟨hcE, hjE, hpE, hxE⟩ := happE
      simp only at hcE hjE hpE hxE
      generalize JitEmit.epilogue ef = e' at hres hcE hjE hpE hxE ⊢
      have hefsz : ef.code.size = bs0.length + (lay_bytes ps).length := by rw [hcode, he0c]; simp
      -- all pieces
      obtain ⟨all, hdef⟩ : ∃ all : List lay_Seg, all = (⟨0, JitAst.prologue um ud, bs0, holes0⟩ :: ps) ++
        [⟨ef.code.size, JitAst.epilogue, bsE, holesE⟩] := ⟨_, rfl⟩
      have hbA : lay_bytes all = bs0 ++ lay_bytes ps ++ bsE := by rw [hdef]; simp [lay_bytes]
      have hjA : lay_jumps all = lay_abs 0 holes0 ++ lay_jumps ps ++ lay_abs ef.code.size holesE := by
        rw [hdef]; simp [lay_jumps]
      have hchain : lay_Chain ([] : List UInt8).length all := by
        rw [hdef]
        apply lay_Chain_append
        · refine ⟨rfl, henc0, ?_⟩
          rw [he0sz] at hch
          simpa using hch
        · refine ⟨?_, hencE, trivial⟩
          show ef.code.size = _
          rw [hefsz]; simp [lay_bytes]
      have hcodeA : e'.code = ([] ++ (lay_bytes all).map UInt8.ofNat ++ []).toArray := by
        rw [hcE, hcode, he0c, hbA]; simp
      have hjumpsA : e'.jumps.toList = lay_jumps all := by
        rw [hjE, hjumps, he0j, hjA]; simp [lay_abs]
      rw [lay_resolveJumps_eq, hjumpsA, hcodeA] at hres
      obtain ⟨mid, hcmid, hmidlen, hsegs⟩ := lay_patch_all (lay_look e') all [] [] c hchain hres
      have hcsz : c.size = ef.code.size + bsE.length := by
        rw [hcmid]; simp [hmidlen, hbA, hefsz]; omega
      rw [hxE, hpE]
      simp only [Option.getD_some]
      -- the targets
      have hTexit : ∀ l, lay_look e' (tgtInt .exit) = some l →
          lay_tgt p ef.pcLocs ef.code.size .exit = some l ∧ l ≤ c.size := by
        intro l hl
        rw [lay_look_exit, hxE] at hl
        cases hl
        exact ⟨rfl, by omega⟩
      have hTpc : ∀ t : Int, 0 ≤ t → (∃ j, (t.toNat, j) ∈ sweep p (p.size / 8 + 1) 0) → ∀ l,
          lay_look e' (tgtInt (.pc t)) = some l → lay_tgt p ef.pcLocs ef.code.size (.pc t) = some l ∧ l ≤ c.size := by
        intro t h0 ⟨j, hj⟩ l hl
        have hlt := lay_sweep_lt p _ _ _ hj
        simp only at hlt
        have hne : t ≠ JitEmit.targetPcExit := by unfold JitEmit.targetPcExit; omega
        rw [lay_look_pc e' t h0 hne, hpE] at hl
        refine ⟨?_, by have := hbound _ _ hl; omega⟩
        show (if 0 ≤ t ∧ (sweep p (p.size / 8 + 1) 0).any (fun (k, _) => (k : Int) == t) then ef.pcLocs[t.toNat]? else none) = some l
        rw [if_pos ⟨h0, List.any_eq_true.2 ⟨(t.toNat, j), hj, by simp; omega⟩⟩]
        exact hl
      have hseg : ∀ s ∈ all, (∀ t ∈ lay_targets s.ais, ∀ l, lay_look e' (tgtInt t) = some l →
          lay_tgt p ef.pcLocs ef.code.size t = some l ∧ l ≤ c.size) →
          checkSeq c (lay_tgt p ef.pcLocs ef.code.size) s.a s.ais = some (s.a + s.bs.length) := by
        intro s hs htg
        obtain ⟨X, bs', Y, hC, hX, hlen, hP⟩ := hsegs s hs
        have := lay_checkSeq c _ (lay_tgt p ef.pcLocs ef.code.size) hsz s.a s.ais bs' hP X Y hX hC htg
        rw [hlen] at this
        exact this
      rw [lay_validate_eq]
      simp only [Bool.and_eq_true]
      refine ⟨⟨⟨⟨?_, ?_⟩, ?_⟩, ?_⟩, ?_⟩
      · rw [Array.all_eq_true]
        intro k hk
        have := hbound k _ (Array.getElem?_eq_getElem hk)
        exact decide_eq_true (by omega)
      · exact decide_eq_true (by omega)
      · have := hseg ⟨0, JitAst.prologue um ud, bs0, holes0⟩ (by rw [hdef]; simp) (by
          intro t htm l hl
          simp only [lay_targets_prologue, List.mem_singleton] at htm
          subst htm
          exact hTexit l hl)
        simp only at this
        rw [this]
        unfold lay_vloc
        by_cases h0 : 0 * 8 < p.size
        · rw [if_pos h0, hhere h0, he0sz]; simp
        · rw [if_neg h0, hstop h0, he0sz]; simp
      · rw [List.all_eq_true]
        intro x hx
        obtain ⟨pc, i⟩ := x
        obtain ⟨s, hs, n, hast, hloc, hnext⟩ := hall (pc, i) hx
        simp only at hast hloc hnext ⊢
        rw [hast, hloc]
        simp only
        have hv : lay_vloc p ef.pcLocs ef.code.size (pc + n) = some (s.a + s.bs.length) := hnext
        have := hseg s (by rw [hdef]; simp [hs]) (by
          intro t htm l hl
          cases t with
          | exit => exact hTexit l hl
          | pc k =>
            rw [lay_targets_eq] at htm
            obtain ⟨hk0, hkj⟩ := ht (pc, i) hx s.ais n hast k htm
            exact hTpc k hk0 hkj l hl)
        rw [this, hv]; simp
      · have := hseg ⟨ef.code.size, JitAst.epilogue, bsE, holesE⟩ (by rw [hdef]; simp) (by
          intro t htm
          simp [lay_targets_epilogue] at htm)
        simp only at this
        rw [this, hcsz]; simp

/- The statement without `p.size / 8 ≤ 1000000` is FALSE of the emitter (hence of the JIT it models byte for byte).
   Counterexample, checked by evaluation (`compileWithLayout` succeeds, code size 74, `validate = false`):
   slot 0 = `call` local (opc 0x85, src 1, imm 1000000: target slot 1000001), slots 1..1000000 = `le64 r0`
   (opc 0xd4, imm 64: emits no byte), slot 1000001 = `exit`; `haddr = fun _ => none`.  `TargetsOk` holds (slot 1000001 is
   an instruction start), but the emitter records the call with target number 1000001 = `targetPcExit`
   (`TARGET_PC_EXIT` in jit.rs), so `resolveJumps` sends it to the epilogue (offset 58) while the checker expects
   `pcLocs[1000001]` = 57.  The default verifier rejects programs of more than 1000000 slots, so accepted programs
   cannot reach this; a custom verifier could. -/

end Rbpf.JitEnc
