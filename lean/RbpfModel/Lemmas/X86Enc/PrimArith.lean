/-
  Toolkit for `arm_enc` (part 2b): the arithmetic of immediates and displacements — what the decoder rebuilds from the
  little-endian bytes the emitter writes.
-/
import RbpfModel.Lemmas.X86Enc.PrimCore
namespace Rbpf.JitEnc
open Rbpf.X86 (le32 sext8)
open Rbpf.JitEmit

theorem prim_le32_bLE4 (v : Nat) :
    le32 (v % 256) ((v >>> 8) % 256) ((v >>> 16) % 256) ((v >>> 24) % 256) = BitVec.ofNat 32 v := by
  unfold le32
  apply BitVec.eq_of_toNat_eq
  simp only [BitVec.toNat_ofNat, Nat.shiftRight_eq_div_pow, Nat.reducePow]
  omega

theorem prim_ofNat_u32 (v : Int) : BitVec.ofNat 32 (u32 v) = BitVec.ofInt 32 v := by
  apply BitVec.eq_of_toNat_eq
  simp only [BitVec.toNat_ofNat, BitVec.toNat_ofInt, u32, Nat.reducePow]
  omega

theorem prim_ofNat_u64 (v : Int) : BitVec.ofNat 64 (u64 v) = BitVec.ofInt 64 v := by
  apply BitVec.eq_of_toNat_eq
  simp only [BitVec.toNat_ofNat, BitVec.toNat_ofInt, u64, Nat.reducePow]
  omega

/-- the four immediate bytes of `u32 imm` are read back as `imm` -/
theorem prim_le32_u32 (v : Int) :
    le32 (u32 v % 256) ((u32 v >>> 8) % 256) ((u32 v >>> 16) % 256) ((u32 v >>> 24) % 256) = BitVec.ofInt 32 v := by
  rw [prim_le32_bLE4, prim_ofNat_u32]

theorem prim_ofInt_toInt (x : BitVec 32) : BitVec.ofInt 32 x.toInt = x := BitVec.ofInt_toInt

theorem prim_u32_toInt (x : BitVec 32) : u32 x.toInt = x.toNat := by
  have := x.isLt
  unfold u32; rw [BitVec.toInt_eq_toNat_cond]; split <;> omega

theorem prim_u8_toInt (x : BitVec 32) : u8 x.toInt = x.toNat % 256 := by
  have := x.isLt
  unfold u8; rw [BitVec.toInt_eq_toNat_cond]; split <;> omega

theorem prim_sext8_u8 (d : Int) (h : -128 ≤ d ∧ d ≤ 127) : sext8 (u8 d) = d := by
  unfold sext8 u8; split <;> omega

theorem prim_toInt_ofInt32 (d : Int) (h : -2147483648 ≤ d ∧ d ≤ 2147483647) : (BitVec.ofInt 32 d).toInt = d := by
  rw [BitVec.toInt_eq_toNat_cond, BitVec.toNat_ofInt]; simp only [Nat.reducePow]; split <;> omega

theorem prim_le32_disp (d : Int) (h : -2147483648 ≤ d ∧ d ≤ 2147483647) :
    (le32 (u32 d % 256) ((u32 d >>> 8) % 256) ((u32 d >>> 16) % 256) ((u32 d >>> 24) % 256)).toInt = d := by
  rw [prim_le32_u32, prim_toInt_ofInt32 d h]

theorem prim_off_range (x : BitVec 16) : -2147483648 ≤ x.toInt ∧ x.toInt ≤ 2147483647 := by
  have := x.isLt
  rw [BitVec.toInt_eq_toNat_cond]; split <;> omega

theorem prim_imm_range (x : BitVec 32) : -2147483648 ≤ x.toInt ∧ x.toInt ≤ 2147483647 := by
  have := x.isLt
  rw [BitVec.toInt_eq_toNat_cond]; split <;> omega

/-- the eight immediate bytes of `movabs`: the decoder rebuilds `hi ++ lo` -/
theorem prim_movabs_bLE8 (v : Nat) :
    le32 ((v >>> 32) % 256) ((v >>> 40) % 256) ((v >>> 48) % 256) ((v >>> 56) % 256) ++
      le32 (v % 256) ((v >>> 8) % 256) ((v >>> 16) % 256) ((v >>> 24) % 256) = BitVec.ofNat 64 v := by
  unfold le32
  apply BitVec.eq_of_toNat_eq
  rw [BitVec.toNat_append, ← Nat.shiftLeft_add_eq_or_of_lt (BitVec.isLt _)]
  simp only [BitVec.toNat_ofNat, Nat.shiftRight_eq_div_pow, Nat.shiftLeft_eq, Nat.reducePow]
  omega

theorem prim_movabs_u64 (v : Int) :
    le32 ((u64 v >>> 32) % 256) ((u64 v >>> 40) % 256) ((u64 v >>> 48) % 256) ((u64 v >>> 56) % 256) ++
      le32 (u64 v % 256) ((u64 v >>> 8) % 256) ((u64 v >>> 16) % 256) ((u64 v >>> 24) % 256) = BitVec.ofInt 64 v := by
  rw [prim_movabs_bLE8, prim_ofNat_u64]

/-- `emit_store_imm32`, one byte -/
theorem prim_storeImm8 (x : BitVec 32) : BitVec.ofNat 32 (u8 x.toInt) = JitAst.storeImm 8 x := by
  apply BitVec.eq_of_toNat_eq
  have h8 : JitAst.storeImm 8 x = x &&& 0xff#32 := by simp [JitAst.storeImm]
  rw [h8, BitVec.toNat_and, prim_u8_toInt, BitVec.toNat_ofNat]
  have : x.toNat &&& (0xff#32).toNat = x.toNat % 2 ^ 8 := Nat.and_two_pow_sub_one_eq_mod x.toNat 8
  rw [this]; have := x.isLt; omega

/-- `emit_store_imm32`, two bytes -/
theorem prim_storeImm16 (x : BitVec 32) :
    le32 ((x.toInt % 2 ^ 16).toNat % 256) (((x.toInt % 2 ^ 16).toNat >>> 8) % 256) 0 0 = JitAst.storeImm 16 x := by
  apply BitVec.eq_of_toNat_eq
  have h16 : JitAst.storeImm 16 x = x &&& 0xffff#32 := by simp [JitAst.storeImm]
  rw [h16, BitVec.toNat_and]
  have : x.toNat &&& (0xffff#32).toNat = x.toNat % 2 ^ 16 := Nat.and_two_pow_sub_one_eq_mod x.toNat 16
  rw [this]
  have hx := x.isLt
  unfold le32
  rw [BitVec.toInt_eq_toNat_cond]
  simp only [BitVec.toNat_ofNat, Nat.shiftRight_eq_div_pow, Nat.reducePow]
  split <;> omega

theorem prim_storeImm32 (x : BitVec 32) : JitAst.storeImm 32 x = x := by simp [JitAst.storeImm]
theorem prim_storeImm64 (x : BitVec 32) : JitAst.storeImm 64 x = x := by simp [JitAst.storeImm]

/-- `emit_load_packet` with a negative immediate -/
theorem prim_loadPacket_neg (x : BitVec 32) (h : ¬ 0 ≤ x.toInt) : x.toInt + 2 ^ 32 = (x.toNat : Int) := by
  have := x.isLt
  rw [BitVec.toInt_eq_toNat_cond] at h ⊢; split at h <;> split <;> omega

/-- `emit_call`: the `u64 → i64` cast of the target -/
theorem prim_call_imm (t : Nat) (h : t < 2 ^ 64) :
    (if t < 2 ^ 63 then (t : Int) else (t : Int) - 2 ^ 64) = (BitVec.ofNat 64 t).toInt := by
  rw [BitVec.toInt_eq_toNat_cond, BitVec.toNat_ofNat, Nat.mod_eq_of_lt h]
  split <;> split <;> omega

/-- `lddw`: the 64-bit immediate assembled from the two slots, as `i64` -/
theorem prim_lddw_imm (lo hi : BitVec 32) :
    let v : Nat := lo.toNat ||| ((hi.signExtend 64).toNat <<< 32) % 2 ^ 64
    (if v < 2 ^ 63 then (v : Int) else (v : Int) - 2 ^ 64) = (hi ++ lo).toInt := by
  intro v
  have hv : v = (hi ++ lo).toNat := by
    have hlo := lo.isLt
    have hhi := hi.isLt
    have hs : ((hi.signExtend 64).toNat <<< 32) % 2 ^ 64 = hi.toNat <<< 32 := by
      have h1 : (hi.signExtend 64).toInt = hi.toInt := BitVec.toInt_signExtend_of_le (by decide)
      have h2 := (hi.signExtend 64).isLt
      rw [BitVec.toInt_eq_toNat_cond, BitVec.toInt_eq_toNat_cond] at h1
      simp only [Nat.shiftLeft_eq, Nat.reducePow] at *
      split at h1 <;> split at h1 <;> omega
    show lo.toNat ||| ((hi.signExtend 64).toNat <<< 32) % 2 ^ 64 = _
    rw [hs, BitVec.toNat_append, Nat.or_comm]
  rw [hv, BitVec.toInt_eq_toNat_cond]
  have := (hi ++ lo).isLt
  split <;> split <;> omega

end Rbpf.JitEnc
