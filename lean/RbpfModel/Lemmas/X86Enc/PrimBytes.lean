/-
  Toolkit for `arm_enc` (part 2): the byte list of every primitive emitter (`b…`), the equation
  `emitX e args = app e (bX args)` (hence `Appends e (emitX e args) (bX args) []`), the bound `B256 (bX args)`.
-/
import RbpfModel.Lemmas.X86Enc.PrimCore
namespace Rbpf.JitEnc
open Rbpf.X86 (Instr Cc decode ccOf le32 sext8)
open Rbpf.JitAst (AI Tgt)
open Rbpf.JitEmit

-- ---------------------------------------------------------------------------------------------------------
-- byte lists

def bRex (w r x b : Nat) : Nat := 0x40 ||| (w <<< 3) ||| (r <<< 2) ||| (x <<< 1) ||| b
def bBasicRex (w src dst : Nat) : List Nat := if rexWouldSetBits w src dst then [bRex w (masked src) 0 (masked dst)] else []
def bModrmByte (md r m : Nat) : Nat := (md &&& 0xc0) ||| ((r &&& 7) <<< 3) ||| (m &&& 7)

/-- the three ModRM + displacement forms -/
def bMem0 (r m : Nat) : List Nat := [bModrmByte 0x00 r m]
def bMem1 (r m d8 : Nat) : List Nat := [bModrmByte 0x40 r m, d8]
def bMem2 (r m a0 a1 a2 a3 : Nat) : List Nat := [bModrmByte 0x80 r m, a0, a1, a2, a3]
def bDisp (r m : Nat) (d : Int) : List Nat :=
  if d = 0 ∧ (m &&& 7) ≠ RBP then bMem0 r m
  else if -128 ≤ d ∧ d ≤ 127 then bMem1 r m (u8 d)
  else bMem2 r m (u32 d % 256) ((u32 d >>> 8) % 256) ((u32 d >>> 16) % 256) ((u32 d >>> 24) % 256)

def bPush (r : Nat) : List Nat := bBasicRex 0 0 r ++ [0x50 ||| (r &&& 7)]
def bPop (r : Nat) : List Nat := bBasicRex 0 0 r ++ [0x58 ||| (r &&& 7)]
/-- `[REX] op modrm(11, src, dst)`: `emit_alu32` (`w = 0`) / `emit_alu64` (`w = 1`) -/
def bAlu (w op src dst : Nat) : List Nat := bBasicRex w src dst ++ [op, bModrmByte 0xc0 src dst]
def bAluImm32 (w op src dst : Nat) (imm : Int) : List Nat := bAlu w op src dst ++ bLE4 (u32 imm)
def bAluImm8 (w op src dst : Nat) (imm : Int) : List Nat := bAlu w op src dst ++ [u8 imm]
def bMovabs (dst : Nat) (imm : Int) : List Nat := bBasicRex 1 0 dst ++ (0xb8 ||| (dst &&& 7)) :: bLE8 (u64 imm)
def bLoadImm (dst : Nat) (imm : Int) : List Nat :=
  if -2147483648 ≤ imm ∧ imm ≤ 2147483647 then bAluImm32 1 0xc7 0 dst imm else bMovabs dst imm
def bLoadPre (size src dst : Nat) : List Nat :=
  bBasicRex (if size = 64 then 1 else 0) dst src ++ (if size = 8 then [0x0f, 0xb6] else if size = 16 then [0x0f, 0xb7] else [0x8b])
def bLoad (size src dst : Nat) (off : Int) : List Nat := bLoadPre size src dst ++ bDisp dst src off
def bStorePre (size src dst : Nat) : List Nat :=
  (if size = 16 then [0x66] else []) ++
  (if size = 64 ∨ (src &&& 8) ≠ 0 ∨ (dst &&& 8) ≠ 0 ∨ size = 8 then [bRex (if size = 64 then 1 else 0) (masked src) 0 (masked dst)] else []) ++
  [if size = 8 then 0x88 else 0x89]
def bStore (size src dst : Nat) (off : Int) : List Nat := bStorePre size src dst ++ bDisp src dst off
def bStoreImmPre (size dst : Nat) : List Nat :=
  (if size = 16 then [0x66] else []) ++ bBasicRex (if size = 64 then 1 else 0) 0 dst ++ [if size = 8 then 0xc6 else 0xc7]
def bStoreImmSuf (size : Nat) (imm : Int) : List Nat :=
  if size = 8 then [u8 imm] else if size = 16 then bLE2 ((imm % 2 ^ 16).toNat) else bLE4 (u32 imm)
def bStoreImm32 (size dst : Nat) (off : Int) (imm : Int) : List Nat :=
  bStoreImmPre size dst ++ bDisp 0 dst off ++ bStoreImmSuf size imm
def bXaddPre (w src dst : Nat) : List Nat := [0xf0] ++ bBasicRex w src dst ++ [0x01]
def bXadd (w src dst : Nat) (off : Int) : List Nat := bXaddPre w src dst ++ bDisp src dst off
def bBswap (w dst : Nat) : List Nat := bBasicRex w 0 dst ++ [0x0f, 0xc8 ||| (dst &&& 7)]
def bDirectJcc (code off : Nat) : List Nat := [0x0f, code] ++ bLE4 off
def bCmovz (r m : Nat) : List Nat := bBasicRex 1 r m ++ [0x0f, 0x44, bModrmByte 0xc0 r m]
def bCall (target : Nat) : List Nat := bLoadImm RAX (if target < 2 ^ 63 then target else (target : Int) - 2 ^ 64) ++ [0xff, 0xd0]
/-- `rol r16, 8` (be16) -/
def bRol16 (dst : Nat) : List Nat := [0x66] ++ bAluImm8 0 0xc1 0 dst 8
/-- `REX.W f7 /ext rcx` as `emit_muldivmod` writes it: a bare REX.W byte, then `emit_alu32` -/
def bMulDiv64 (ext : Nat) : List Nat := [0x48] ++ bAlu 0 0xf7 ext RCX

-- ---------------------------------------------------------------------------------------------------------
-- emitter = append

theorem prim_emitRex_eq (e : Em) (w r x b : Nat) : emitRex e w r x b = app e [bRex w r x b] := by
  simp [emitRex, bRex, prim_emit1_eq]
theorem prim_emitBasicRex_eq (e : Em) (w s d : Nat) : emitBasicRex e w s d = app e (bBasicRex w s d) := by
  unfold emitBasicRex bBasicRex; split <;> simp [prim_emitRex_eq]
theorem prim_emitModrm_eq (e : Em) (md r m : Nat) : emitModrm e md r m = app e [bModrmByte md r m] := by
  simp [emitModrm, bModrmByte, prim_emit1_eq]
theorem prim_emitModrmReg2reg_eq (e : Em) (r m : Nat) : emitModrmReg2reg e r m = app e [bModrmByte 0xc0 r m] := by
  simp [emitModrmReg2reg, prim_emitModrm_eq]
theorem prim_emitModrmAndDisplacement_eq (e : Em) (r m : Nat) (d : Int) : emitModrmAndDisplacement e r m d = app e (bDisp r m d) := by
  unfold emitModrmAndDisplacement bDisp
  split
  · simp [prim_emitModrm_eq, bMem0]
  · split
    · simp [prim_emitModrm_eq, prim_emit1_eq, bMem1]
    · simp [prim_emitModrm_eq, prim_emit4_eq, bMem2, bLE4]

theorem prim_emitPush_eq (e : Em) (r : Nat) : emitPush e r = app e (bPush r) := by
  simp [emitPush, bPush, prim_emitBasicRex_eq, prim_emit1_eq]
theorem prim_emitPop_eq (e : Em) (r : Nat) : emitPop e r = app e (bPop r) := by
  simp [emitPop, bPop, prim_emitBasicRex_eq, prim_emit1_eq]
theorem prim_emitAlu32_eq (e : Em) (op s d : Nat) : emitAlu32 e op s d = app e (bAlu 0 op s d) := by
  simp [emitAlu32, bAlu, prim_emitBasicRex_eq, prim_emit1_eq, prim_emitModrmReg2reg_eq]
theorem prim_emitAlu64_eq (e : Em) (op s d : Nat) : emitAlu64 e op s d = app e (bAlu 1 op s d) := by
  simp [emitAlu64, bAlu, prim_emitBasicRex_eq, prim_emit1_eq, prim_emitModrmReg2reg_eq]
theorem prim_emitAlu32Imm32_eq (e : Em) (op s d : Nat) (imm : Int) : emitAlu32Imm32 e op s d imm = app e (bAluImm32 0 op s d imm) := by
  simp [emitAlu32Imm32, bAluImm32, prim_emitAlu32_eq, prim_emit4_eq]
theorem prim_emitAlu64Imm32_eq (e : Em) (op s d : Nat) (imm : Int) : emitAlu64Imm32 e op s d imm = app e (bAluImm32 1 op s d imm) := by
  simp [emitAlu64Imm32, bAluImm32, prim_emitAlu64_eq, prim_emit4_eq]
theorem prim_emitAlu32Imm8_eq (e : Em) (op s d : Nat) (imm : Int) : emitAlu32Imm8 e op s d imm = app e (bAluImm8 0 op s d imm) := by
  simp [emitAlu32Imm8, bAluImm8, prim_emitAlu32_eq, prim_emit1_eq]
theorem prim_emitAlu64Imm8_eq (e : Em) (op s d : Nat) (imm : Int) : emitAlu64Imm8 e op s d imm = app e (bAluImm8 1 op s d imm) := by
  simp [emitAlu64Imm8, bAluImm8, prim_emitAlu64_eq, prim_emit1_eq]
theorem prim_emitMov_eq (e : Em) (s d : Nat) : emitMov e s d = app e (bAlu 1 0x89 s d) := prim_emitAlu64_eq e _ s d
theorem prim_emitCmp_eq (e : Em) (s d : Nat) : emitCmp e s d = app e (bAlu 1 0x39 s d) := prim_emitAlu64_eq e _ s d
theorem prim_emitCmp32_eq (e : Em) (s d : Nat) : emitCmp32 e s d = app e (bAlu 0 0x39 s d) := prim_emitAlu32_eq e _ s d
theorem prim_emitCmpImm32_eq (e : Em) (d : Nat) (imm : Int) : emitCmpImm32 e d imm = app e (bAluImm32 1 0x81 7 d imm) :=
  prim_emitAlu64Imm32_eq e _ _ d imm
theorem prim_emitCmp32Imm32_eq (e : Em) (d : Nat) (imm : Int) : emitCmp32Imm32 e d imm = app e (bAluImm32 0 0x81 7 d imm) :=
  prim_emitAlu32Imm32_eq e _ _ d imm

theorem prim_emitLoadImm_eq (e : Em) (dst : Nat) (imm : Int) : emitLoadImm e dst imm = app e (bLoadImm dst imm) := by
  unfold emitLoadImm bLoadImm; split
  · exact prim_emitAlu64Imm32_eq ..
  · simp [bMovabs, prim_emitBasicRex_eq, prim_emit1_eq, prim_emit8_eq]

theorem prim_emitLoad_eq (e : Em) (size src dst : Nat) (off : Int) : emitLoad e size src dst off = app e (bLoad size src dst off) := by
  unfold emitLoad bLoad bLoadPre
  simp only [prim_emitBasicRex_eq, prim_emitModrmAndDisplacement_eq]
  split
  · simp [prim_emit1_eq]
  · split <;> simp [prim_emit1_eq]

theorem prim_emitStore_eq (e : Em) (size src dst : Nat) (off : Int) : emitStore e size src dst off = app e (bStore size src dst off) := by
  unfold emitStore bStore bStorePre
  simp only [prim_emitRex_eq, prim_emit1_eq, prim_emitModrmAndDisplacement_eq, prim_ite_app_left, prim_app_app]
  split <;> simp

theorem prim_emitStoreImm32_eq (e : Em) (size dst : Nat) (off imm : Int) :
    emitStoreImm32 e size dst off imm = app e (bStoreImm32 size dst off imm) := by
  unfold emitStoreImm32 bStoreImm32 bStoreImmPre bStoreImmSuf
  simp only [prim_emitBasicRex_eq, prim_emit1_eq, prim_emit2_eq, prim_emit4_eq, prim_emitModrmAndDisplacement_eq,
    prim_ite_app_left, prim_ite_app, prim_app_app, List.append_assoc]
  split
  · rfl
  · split <;> rfl

theorem prim_emitXadd_eq (e : Em) (w src dst : Nat) (off : Int) :
    emitModrmAndDisplacement (emit1 (emitBasicRex (emit1 e 0xf0) w src dst) 0x01) src dst off = app e (bXadd w src dst off) := by
  simp [bXadd, bXaddPre, prim_emitBasicRex_eq, prim_emit1_eq, prim_emitModrmAndDisplacement_eq]

theorem prim_emitBswap_eq (e : Em) (w dst : Nat) :
    emit1 (emit1 (emitBasicRex e w 0 dst) 0x0f) (0xc8 ||| (dst &&& 7)) = app e (bBswap w dst) := by
  simp [bBswap, prim_emitBasicRex_eq, prim_emit1_eq]

theorem prim_emitDirectJcc_eq (e : Em) (code off : Nat) : emitDirectJcc e code off = app e (bDirectJcc code off) := by
  simp [emitDirectJcc, bDirectJcc, prim_emit1_eq, prim_emit4_eq]

theorem prim_emitCmovz_eq (e : Em) (r m : Nat) :
    emitModrmReg2reg (emit1 (emit1 (emitBasicRex e 1 r m) 0x0f) 0x44) r m = app e (bCmovz r m) := by
  simp [bCmovz, prim_emitBasicRex_eq, prim_emit1_eq, prim_emitModrmReg2reg_eq]

theorem prim_emitCall_eq (e : Em) (target : Nat) : emitCall e target = app e (bCall target) := by
  simp [emitCall, bCall, prim_emitLoadImm_eq, prim_emit1_eq]

theorem prim_emitRol16_eq (e : Em) (dst : Nat) : emitAlu32Imm8 (emit1 e 0x66) 0xc1 0 dst 8 = app e (bRol16 dst) := by
  simp [bRol16, prim_emitAlu32Imm8_eq, prim_emit1_eq]

theorem prim_emitMulDiv64_eq (e : Em) (ext : Nat) : emitAlu32 (emitRex e 1 0 0 0) 0xf7 ext RCX = app e (bMulDiv64 ext) := by
  simp [bMulDiv64, prim_emitAlu32_eq, prim_emitRex_eq, bRex]

theorem prim_emitRet_eq (e : Em) : emit1 e 0xc3 = app e [0xc3] := prim_emit1_eq e _
theorem prim_emitCall5_eq (e : Em) : emit4 (emit1 e 0xe8) 5 = app e [0xe8, 5, 0, 0, 0] := by
  simp [prim_emit1_eq, prim_emit4_eq, bLE4]

-- ---------------------------------------------------------------------------------------------------------
-- all entries are bytes

theorem prim_masked_le (v : Nat) : masked v ≤ 1 := by unfold masked; split <;> omega

theorem prim_bRex_lt (w r b : Nat) (hw : w ≤ 1) (hr : r ≤ 1) (hb : b ≤ 1) : bRex w r 0 b < 256 := by
  have hw : w = 0 ∨ w = 1 := by omega
  have hr : r = 0 ∨ r = 1 := by omega
  have hb : b = 0 ∨ b = 1 := by omega
  rcases hw with rfl | rfl <;> rcases hr with rfl | rfl <;> rcases hb with rfl | rfl <;> decide

theorem prim_bModrmByte_lt (md r m : Nat) : bModrmByte md r m < 256 := by
  unfold bModrmByte
  have h1 : md &&& 0xc0 < 2 ^ 8 := Nat.lt_of_le_of_lt Nat.and_le_right (by decide)
  have h2 : (r &&& 7) <<< 3 < 2 ^ 8 := by
    have : r &&& 7 ≤ 7 := Nat.and_le_right
    rw [Nat.shiftLeft_eq]; omega
  have h3 : m &&& 7 < 2 ^ 8 := Nat.lt_of_le_of_lt Nat.and_le_right (by decide)
  exact Nat.or_lt_two_pow (Nat.or_lt_two_pow h1 h2) h3

theorem prim_or_and7_lt (a r : Nat) (ha : a < 256) : a ||| (r &&& 7) < 256 :=
  Nat.or_lt_two_pow (n := 8) ha (Nat.lt_of_le_of_lt Nat.and_le_right (by decide))

theorem prim_b256_bBasicRex (w s d : Nat) (hw : w ≤ 1) : B256 (bBasicRex w s d) := by
  unfold bBasicRex; split
  · simp [prim_bRex_lt w _ _ hw (prim_masked_le s) (prim_masked_le d)]
  · simp

theorem prim_b256_bDisp (r m : Nat) (d : Int) : B256 (bDisp r m d) := by
  unfold bDisp bMem0 bMem1 bMem2
  split
  · simp [prim_bModrmByte_lt]
  · split
    · simp [prim_bModrmByte_lt, prim_u8_lt]
    · simp [prim_bModrmByte_lt]; omega

theorem prim_b256_bPush (r : Nat) : B256 (bPush r) := by
  simp [bPush, prim_b256_bBasicRex, prim_or_and7_lt]
theorem prim_b256_bPop (r : Nat) : B256 (bPop r) := by
  simp [bPop, prim_b256_bBasicRex, prim_or_and7_lt]
theorem prim_b256_bAlu (w op s d : Nat) (hw : w ≤ 1) (hop : op < 256) : B256 (bAlu w op s d) := by
  simp [bAlu, prim_b256_bBasicRex _ _ _ hw, prim_bModrmByte_lt, hop]
theorem prim_b256_bAluImm32 (w op s d : Nat) (imm : Int) (hw : w ≤ 1) (hop : op < 256) : B256 (bAluImm32 w op s d imm) := by
  simp [bAluImm32, prim_b256_bAlu _ _ _ _ hw hop]
theorem prim_b256_bAluImm8 (w op s d : Nat) (imm : Int) (hw : w ≤ 1) (hop : op < 256) : B256 (bAluImm8 w op s d imm) := by
  simp [bAluImm8, prim_b256_bAlu _ _ _ _ hw hop, prim_u8_lt]
theorem prim_b256_bMovabs (dst : Nat) (imm : Int) : B256 (bMovabs dst imm) := by
  simp [bMovabs, prim_b256_bBasicRex, prim_or_and7_lt]
theorem prim_b256_bLoadImm (dst : Nat) (imm : Int) : B256 (bLoadImm dst imm) := by
  unfold bLoadImm; split
  · exact prim_b256_bAluImm32 _ _ _ _ _ (by decide) (by decide)
  · exact prim_b256_bMovabs _ _
theorem prim_b256_bLoad (size s d : Nat) (off : Int) : B256 (bLoad size s d off) := by
  have hw : (if size = 64 then 1 else 0) ≤ 1 := by split <;> omega
  simp only [bLoad, bLoadPre, prim_b256_append, prim_b256_bDisp, prim_b256_bBasicRex _ _ _ hw, true_and, and_true]
  split
  · simp
  · split <;> simp
theorem prim_b256_bStore (size s d : Nat) (off : Int) : B256 (bStore size s d off) := by
  have hw : (if size = 64 then 1 else 0) ≤ 1 := by split <;> omega
  simp only [bStore, bStorePre, prim_b256_append, prim_b256_bDisp, and_true]
  refine ⟨⟨?_, ?_⟩, ?_⟩
  · split <;> simp
  · split
    · simp [prim_bRex_lt _ _ _ hw (prim_masked_le s) (prim_masked_le d)]
    · simp
  · split <;> simp
theorem prim_b256_bStoreImm32 (size d : Nat) (off imm : Int) : B256 (bStoreImm32 size d off imm) := by
  have hw : (if size = 64 then 1 else 0) ≤ 1 := by split <;> omega
  simp only [bStoreImm32, bStoreImmPre, bStoreImmSuf, prim_b256_append, prim_b256_bDisp, prim_b256_bBasicRex _ _ _ hw,
    and_true, true_and]
  refine ⟨⟨?_, ?_⟩, ?_⟩
  · split <;> simp
  · split <;> simp
  · split
    · simp [prim_u8_lt]
    · split <;> simp
theorem prim_b256_bXadd (w s d : Nat) (off : Int) (hw : w ≤ 1) : B256 (bXadd w s d off) := by
  simp [bXadd, bXaddPre, prim_b256_bBasicRex _ _ _ hw, prim_b256_bDisp]
theorem prim_b256_bBswap (w d : Nat) (hw : w ≤ 1) : B256 (bBswap w d) := by
  simp [bBswap, prim_b256_bBasicRex _ _ _ hw, prim_or_and7_lt]
theorem prim_b256_bDirectJcc (code off : Nat) (hc : code < 256) : B256 (bDirectJcc code off) := by
  simp [bDirectJcc, hc]
theorem prim_b256_bCmovz (r m : Nat) : B256 (bCmovz r m) := by
  simp [bCmovz, prim_b256_bBasicRex, prim_bModrmByte_lt]
theorem prim_b256_bCall (target : Nat) : B256 (bCall target) := by
  simp [bCall, prim_b256_bLoadImm]
theorem prim_b256_bRol16 (d : Nat) : B256 (bRol16 d) := by
  simp [bRol16, prim_b256_bAluImm8 0 0xc1 0 d 8 (by decide) (by decide)]
theorem prim_b256_bMulDiv64 (ext : Nat) : B256 (bMulDiv64 ext) := by
  simp [bMulDiv64, prim_b256_bAlu 0 0xf7 ext RCX (by decide) (by decide)]

end Rbpf.JitEnc
