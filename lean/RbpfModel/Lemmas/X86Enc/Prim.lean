/-
  Toolkit for `arm_enc`: for every primitive emitter call made by `JitEmit.arm`, `prologue`, `epilogue`,
  `emitMuldivmod`, `emitLocalCall`, `emitCall`, `emitLoadPacket`, a lemma

      prim_emits_… : Emits e (emitX e args) [.i instr]          (Emits e e' ais := ∃ bs holes, Enc ais bs holes ∧ Appends e e' bs holes)

  with `instr` the `X86.Instr` that `Model/JitAst.lean` uses for that call; `prim_emits_trans` / `prim_emits_cons`
  chain them.  Underneath (other `Prim*.lean` files): the byte lists `b…`, `emitX e args = app e (bX args)`,
  `B256 (bX args)`, and the decode lemmas `prim_dec_…`.
-/
import RbpfModel.Lemmas.X86Enc.PrimDecReg
import RbpfModel.Lemmas.X86Enc.PrimDecLoad
import RbpfModel.Lemmas.X86Enc.PrimDecStore
import RbpfModel.Lemmas.X86Enc.PrimDecXaddImm
namespace Rbpf.JitEnc
open Rbpf.X86 (Instr Cc AluOp ShOp decode ccOf le32 sext8 aluOfOpcode aluOfExt81 shOfExt)
open Rbpf.JitAst (AI Tgt)
open Rbpf.JitEmit

-- ---------------------------------------------------------------------------------------------------------
-- registers

theorem prim_registerMap_facts : ∀ r, r < 11 → registerMap.getD r 0 < 16 ∧ registerMap.getD r 0 &&& 7 ≠ 4 := by decide

/-- mapped registers are hardware numbers below 16 and never rsp / r12 -/
theorem prim_mapRegister {r x : Nat} (h : mapRegister? r = some x) : x < 16 ∧ x &&& 7 ≠ 4 := by
  unfold mapRegister? at h
  split at h
  · rename_i hr
    cases h
    exact prim_registerMap_facts r hr
  · cases h

theorem prim_mapRegister_lt {r x : Nat} (h : mapRegister? r = some x) : x < 16 := (prim_mapRegister h).1
theorem prim_mapRegister_base {r x : Nat} (h : mapRegister? r = some x) : x &&& 7 ≠ 4 := (prim_mapRegister h).2

-- ---------------------------------------------------------------------------------------------------------
-- immediates after a decoded block

theorem prim_dec_suffix4 {B : List Nat} {K : BitVec 32 → Instr}
    (h : ∀ a0 a1 a2 a3 tail, decode (B ++ a0 :: a1 :: a2 :: a3 :: tail) = some (K (le32 a0 a1 a2 a3), B.length + 4)) (v : Nat)
    (tail : List Nat) : decode ((B ++ bLE4 v) ++ tail) = some (K (BitVec.ofNat 32 v), (B ++ bLE4 v).length) := by
  have := h (v % 256) ((v >>> 8) % 256) ((v >>> 16) % 256) ((v >>> 24) % 256) tail
  rw [prim_le32_bLE4] at this
  simpa [bLE4, List.append_assoc] using this

theorem prim_dec_suffix1 {B : List Nat} {K : Nat → Instr}
    (h : ∀ n tail, decode (B ++ n :: tail) = some (K n, B.length + 1)) (n : Nat)
    (tail : List Nat) : decode ((B ++ [n]) ++ tail) = some (K n, (B ++ [n]).length) := by
  simpa [List.append_assoc] using h n tail

-- ---------------------------------------------------------------------------------------------------------
-- push / pop / ret

theorem prim_emits_push (e : Em) (r : Nat) (hr : r < 16) : Emits e (emitPush e r) [.i (.push r)] :=
  prim_emits_one_eq _ (prim_emitPush_eq e r) (prim_dec_push r hr) (prim_b256_bPush r)

theorem prim_emits_pop (e : Em) (r : Nat) (hr : r < 16) : Emits e (emitPop e r) [.i (.pop r)] :=
  prim_emits_one_eq _ (prim_emitPop_eq e r) (prim_dec_pop r hr) (prim_b256_bPop r)

theorem prim_emits_ret (e : Em) : Emits e (emit1 e 0xc3) [.i .ret] :=
  prim_emits_one_eq _ (prim_emitRet_eq e) prim_dec_ret (by simp)

-- ---------------------------------------------------------------------------------------------------------
-- two-register ALU forms

theorem prim_aluOfOpcode_lt {op : Nat} {a : AluOp} (h : aluOfOpcode op = some a) : op < 256 := by
  rcases prim_aluOfOpcode_cases h with ⟨rfl, _⟩ | ⟨rfl, _⟩ | ⟨rfl, _⟩ | ⟨rfl, _⟩ | ⟨rfl, _⟩ | ⟨rfl, _⟩ | ⟨rfl, _⟩ | ⟨rfl, _⟩ <;> decide

theorem prim_emits_alu64 (e : Em) (op s d : Nat) (a : AluOp) (hop : aluOfOpcode op = some a) (hs : s < 16) (hd : d < 16) :
    Emits e (emitAlu64 e op s d) [.i (.aluRR true a s d)] :=
  prim_emits_one_eq _ (prim_emitAlu64_eq e op s d) (prim_dec_aluRR 1 op s d a (Or.inr rfl) hop hs hd)
    (prim_b256_bAlu _ _ _ _ (by decide) (prim_aluOfOpcode_lt hop))

theorem prim_emits_alu32 (e : Em) (op s d : Nat) (a : AluOp) (hop : aluOfOpcode op = some a) (hs : s < 16) (hd : d < 16) :
    Emits e (emitAlu32 e op s d) [.i (.aluRR false a s d)] :=
  prim_emits_one_eq _ (prim_emitAlu32_eq e op s d) (prim_dec_aluRR 0 op s d a (Or.inl rfl) hop hs hd)
    (prim_b256_bAlu _ _ _ _ (by decide) (prim_aluOfOpcode_lt hop))

theorem prim_emits_mov (e : Em) (s d : Nat) (hs : s < 16) (hd : d < 16) : Emits e (emitMov e s d) [.i (JitAst.movRR s d)] :=
  prim_emits_alu64 e 0x89 s d .mov rfl hs hd

theorem prim_emits_cmp (e : Em) (s d : Nat) (hs : s < 16) (hd : d < 16) : Emits e (emitCmp e s d) [.i (.aluRR true .cmp s d)] :=
  prim_emits_alu64 e 0x39 s d .cmp rfl hs hd

theorem prim_emits_cmp32 (e : Em) (s d : Nat) (hs : s < 16) (hd : d < 16) : Emits e (emitCmp32 e s d) [.i (.aluRR false .cmp s d)] :=
  prim_emits_alu32 e 0x39 s d .cmp rfl hs hd

-- ---------------------------------------------------------------------------------------------------------
-- shifts by cl, neg, mul, div  (the emitter's `src` argument is the /ext field)

theorem prim_emits_shiftCl64 (e : Em) (x d : Nat) (sh : ShOp) (hx : shOfExt x = some sh) (hd : d < 16) :
    Emits e (emitAlu64 e 0xd3 x d) [.i (.shiftCl true sh d)] :=
  prim_emits_one_eq _ (prim_emitAlu64_eq e _ x d) (prim_dec_shiftCl 1 x d sh (Or.inr rfl) hx hd)
    (prim_b256_bAlu _ _ _ _ (by decide) (by decide))

theorem prim_emits_shiftCl32 (e : Em) (x d : Nat) (sh : ShOp) (hx : shOfExt x = some sh) (hd : d < 16) :
    Emits e (emitAlu32 e 0xd3 x d) [.i (.shiftCl false sh d)] :=
  prim_emits_one_eq _ (prim_emitAlu32_eq e _ x d) (prim_dec_shiftCl 0 x d sh (Or.inl rfl) hx hd)
    (prim_b256_bAlu _ _ _ _ (by decide) (by decide))

theorem prim_emits_neg64 (e : Em) (d : Nat) (hd : d < 16) : Emits e (emitAlu64 e 0xf7 3 d) [.i (.neg true d)] :=
  prim_emits_one_eq _ (prim_emitAlu64_eq e _ 3 d) (prim_dec_neg_1 d hd) (prim_b256_bAlu _ _ _ _ (by decide) (by decide))

theorem prim_emits_neg32 (e : Em) (d : Nat) (hd : d < 16) : Emits e (emitAlu32 e 0xf7 3 d) [.i (.neg false d)] :=
  prim_emits_one_eq _ (prim_emitAlu32_eq e _ 3 d) (prim_dec_neg_0 d hd) (prim_b256_bAlu _ _ _ _ (by decide) (by decide))

theorem prim_emits_mul32 (e : Em) : Emits e (emitAlu32 e 0xf7 4 RCX) [.i (.mul false RCX)] :=
  prim_emits_one_eq _ (prim_emitAlu32_eq e _ 4 RCX) (prim_dec_mul_0 RCX (by decide)) (prim_b256_bAlu _ _ _ _ (by decide) (by decide))

theorem prim_emits_div32 (e : Em) : Emits e (emitAlu32 e 0xf7 6 RCX) [.i (.div false RCX)] :=
  prim_emits_one_eq _ (prim_emitAlu32_eq e _ 6 RCX) (prim_dec_div_0 RCX (by decide)) (prim_b256_bAlu _ _ _ _ (by decide) (by decide))

/-- `emit_muldivmod` writes a bare `REX.W` byte and then `emit_alu32(0xf7, 4, RCX)` -/
theorem prim_emits_mul64 (e : Em) : Emits e (emitAlu32 (emitRex e 1 0 0 0) 0xf7 4 RCX) [.i (.mul true RCX)] :=
  prim_emits_one_eq _ (prim_emitMulDiv64_eq e 4) prim_dec_mul64_rcx (prim_b256_bMulDiv64 4)

theorem prim_emits_div64 (e : Em) : Emits e (emitAlu32 (emitRex e 1 0 0 0) 0xf7 6 RCX) [.i (.div true RCX)] :=
  prim_emits_one_eq _ (prim_emitMulDiv64_eq e 6) prim_dec_div64_rcx (prim_b256_bMulDiv64 6)

/-- the multiply / divide step of `emit_muldivmod` in the shape it has there -/
theorem prim_emits_muldiv (e : Em) (is64 mul : Prop) [Decidable is64] [Decidable mul] :
    Emits e (emitAlu32 (if is64 then emitRex e 1 0 0 0 else e) 0xf7 (if mul then 4 else 6) RCX)
      [.i (if mul then .mul (decide is64) RCX else .div (decide is64) RCX)] := by
  by_cases h64 : is64 <;> by_cases hm : mul <;> simp only [h64, hm, if_true, if_false, decide_true, decide_false]
  · exact prim_emits_mul64 e
  · exact prim_emits_div64 e
  · exact prim_emits_mul32 e
  · exact prim_emits_div32 e

-- ---------------------------------------------------------------------------------------------------------
-- register, 32-bit immediate

theorem prim_aluImm32_aux (w op x d : Nat) (imm : Int) (K : BitVec 32 → Instr)
    (h : ∀ a0 a1 a2 a3 tail, decode (bAlu w op x d ++ a0 :: a1 :: a2 :: a3 :: tail) = some (K (le32 a0 a1 a2 a3), (bAlu w op x d).length + 4))
    (tail : List Nat) : decode (bAluImm32 w op x d imm ++ tail) = some (K (BitVec.ofInt 32 imm), (bAluImm32 w op x d imm).length) := by
  rw [← prim_ofNat_u32]; exact prim_dec_suffix4 h (u32 imm) tail

theorem prim_emits_alu64Imm32 (e : Em) (x d : Nat) (a : AluOp) (imm : Int) (hx : aluOfExt81 x = some a) (hd : d < 16) :
    Emits e (emitAlu64Imm32 e 0x81 x d imm) [.i (.aluRI true a d (BitVec.ofInt 32 imm))] :=
  prim_emits_one_eq _ (prim_emitAlu64Imm32_eq e _ x d imm)
    (prim_aluImm32_aux 1 0x81 x d imm (fun v => .aluRI true a d v) (prim_dec_aluRI81 1 x d a (Or.inr rfl) hx hd))
    (prim_b256_bAluImm32 _ _ _ _ _ (by decide) (by decide))

theorem prim_emits_alu32Imm32 (e : Em) (x d : Nat) (a : AluOp) (imm : Int) (hx : aluOfExt81 x = some a) (hd : d < 16) :
    Emits e (emitAlu32Imm32 e 0x81 x d imm) [.i (.aluRI false a d (BitVec.ofInt 32 imm))] :=
  prim_emits_one_eq _ (prim_emitAlu32Imm32_eq e _ x d imm)
    (prim_aluImm32_aux 0 0x81 x d imm (fun v => .aluRI false a d v) (prim_dec_aluRI81 0 x d a (Or.inl rfl) hx hd))
    (prim_b256_bAluImm32 _ _ _ _ _ (by decide) (by decide))

/-- `mov r64, imm32` (sign-extended): `REX.W c7 /0` -/
theorem prim_emits_movImm64 (e : Em) (d : Nat) (imm : Int) (hd : d < 16) :
    Emits e (emitAlu64Imm32 e 0xc7 0 d imm) [.i (.aluRI true .mov d (BitVec.ofInt 32 imm))] :=
  prim_emits_one_eq _ (prim_emitAlu64Imm32_eq e _ 0 d imm)
    (prim_aluImm32_aux 1 0xc7 0 d imm (fun v => .aluRI true .mov d v) (prim_dec_aluRI_1_c7_0 d hd))
    (prim_b256_bAluImm32 _ _ _ _ _ (by decide) (by decide))

theorem prim_emits_movImm32 (e : Em) (d : Nat) (imm : Int) (hd : d < 16) :
    Emits e (emitAlu32Imm32 e 0xc7 0 d imm) [.i (.aluRI false .mov d (BitVec.ofInt 32 imm))] :=
  prim_emits_one_eq _ (prim_emitAlu32Imm32_eq e _ 0 d imm)
    (prim_aluImm32_aux 0 0xc7 0 d imm (fun v => .aluRI false .mov d v) (prim_dec_aluRI_0_c7_0 d hd))
    (prim_b256_bAluImm32 _ _ _ _ _ (by decide) (by decide))

theorem prim_emits_testImm64 (e : Em) (d : Nat) (imm : Int) (hd : d < 16) :
    Emits e (emitAlu64Imm32 e 0xf7 0 d imm) [.i (.aluRI true .test d (BitVec.ofInt 32 imm))] :=
  prim_emits_one_eq _ (prim_emitAlu64Imm32_eq e _ 0 d imm)
    (prim_aluImm32_aux 1 0xf7 0 d imm (fun v => .aluRI true .test d v) (prim_dec_aluRI_1_f7_0 d hd))
    (prim_b256_bAluImm32 _ _ _ _ _ (by decide) (by decide))

theorem prim_emits_testImm32 (e : Em) (d : Nat) (imm : Int) (hd : d < 16) :
    Emits e (emitAlu32Imm32 e 0xf7 0 d imm) [.i (.aluRI false .test d (BitVec.ofInt 32 imm))] :=
  prim_emits_one_eq _ (prim_emitAlu32Imm32_eq e _ 0 d imm)
    (prim_aluImm32_aux 0 0xf7 0 d imm (fun v => .aluRI false .test d v) (prim_dec_aluRI_0_f7_0 d hd))
    (prim_b256_bAluImm32 _ _ _ _ _ (by decide) (by decide))

/-! the same with the immediate of the eBPF instruction (`imm := i.imm.toInt` in `JitEmit.arm`, `i.imm` in `JitAst.arm`) -/

theorem prim_emits_alu64Imm32_bv (e : Em) (x d : Nat) (a : AluOp) (v : BitVec 32) (hx : aluOfExt81 x = some a) (hd : d < 16) :
    Emits e (emitAlu64Imm32 e 0x81 x d v.toInt) [.i (.aluRI true a d v)] := by
  simpa [prim_ofInt_toInt] using prim_emits_alu64Imm32 e x d a v.toInt hx hd

theorem prim_emits_alu32Imm32_bv (e : Em) (x d : Nat) (a : AluOp) (v : BitVec 32) (hx : aluOfExt81 x = some a) (hd : d < 16) :
    Emits e (emitAlu32Imm32 e 0x81 x d v.toInt) [.i (.aluRI false a d v)] := by
  simpa [prim_ofInt_toInt] using prim_emits_alu32Imm32 e x d a v.toInt hx hd

theorem prim_emits_movImm32_bv (e : Em) (d : Nat) (v : BitVec 32) (hd : d < 16) :
    Emits e (emitAlu32Imm32 e 0xc7 0 d v.toInt) [.i (.aluRI false .mov d v)] := by
  simpa [prim_ofInt_toInt] using prim_emits_movImm32 e d v.toInt hd

theorem prim_emits_testImm64_bv (e : Em) (d : Nat) (v : BitVec 32) (hd : d < 16) :
    Emits e (emitAlu64Imm32 e 0xf7 0 d v.toInt) [.i (.aluRI true .test d v)] := by
  simpa [prim_ofInt_toInt] using prim_emits_testImm64 e d v.toInt hd

theorem prim_emits_testImm32_bv (e : Em) (d : Nat) (v : BitVec 32) (hd : d < 16) :
    Emits e (emitAlu32Imm32 e 0xf7 0 d v.toInt) [.i (.aluRI false .test d v)] := by
  simpa [prim_ofInt_toInt] using prim_emits_testImm32 e d v.toInt hd

theorem prim_emits_cmpImm32_bv (e : Em) (d : Nat) (v : BitVec 32) (hd : d < 16) :
    Emits e (emitCmpImm32 e d v.toInt) [.i (.aluRI true .cmp d v)] :=
  prim_emits_alu64Imm32_bv e 7 d .cmp v rfl hd

theorem prim_emits_cmp32Imm32_bv (e : Em) (d : Nat) (v : BitVec 32) (hd : d < 16) :
    Emits e (emitCmp32Imm32 e d v.toInt) [.i (.aluRI false .cmp d v)] :=
  prim_emits_alu32Imm32_bv e 7 d .cmp v rfl hd

/-- `and r32, 0xffff` of `le16` / `be16` -/
theorem prim_emits_and32_ffff (e : Em) (d : Nat) (hd : d < 16) :
    Emits e (emitAlu32Imm32 e 0x81 4 d 0xffff) [.i (.aluRI false .and d 0xffff#32)] :=
  prim_emits_alu32Imm32 e 4 d .and 0xffff rfl hd

/-- `sub rsp, 512` of the prologue -/
theorem prim_emits_sub64_512 (e : Em) (d : Nat) (hd : d < 16) :
    Emits e (emitAlu64Imm32 e 0x81 5 d 512) [.i (.aluRI true .sub d 512#32)] :=
  prim_emits_alu64Imm32 e 5 d .sub 512 rfl hd

/-- `add rsp, 512` of the epilogue -/
theorem prim_emits_add64_512 (e : Em) (d : Nat) (hd : d < 16) :
    Emits e (emitAlu64Imm32 e 0x81 0 d 512) [.i (.aluRI true .add d 512#32)] :=
  prim_emits_alu64Imm32 e 0 d .add 512 rfl hd

-- ---------------------------------------------------------------------------------------------------------
-- shifts by an immediate

theorem prim_aluImm8_aux (w op x d : Nat) (imm : Int) (K : Nat → Instr)
    (h : ∀ n tail, decode (bAlu w op x d ++ n :: tail) = some (K n, (bAlu w op x d).length + 1))
    (tail : List Nat) : decode (bAluImm8 w op x d imm ++ tail) = some (K (u8 imm), (bAluImm8 w op x d imm).length) :=
  prim_dec_suffix1 h (u8 imm) tail

theorem prim_emits_shiftI64 (e : Em) (x d : Nat) (sh : ShOp) (imm : Int) (hx : shOfExt x = some sh) (hd : d < 16) :
    Emits e (emitAlu64Imm8 e 0xc1 x d imm) [.i (.shiftI 64 sh d (u8 imm))] :=
  prim_emits_one_eq _ (prim_emitAlu64Imm8_eq e _ x d imm)
    (prim_aluImm8_aux 1 0xc1 x d imm (fun n => .shiftI 64 sh d n) (prim_dec_shiftI 1 x d sh (Or.inr rfl) hx hd))
    (prim_b256_bAluImm8 _ _ _ _ _ (by decide) (by decide))

theorem prim_emits_shiftI32 (e : Em) (x d : Nat) (sh : ShOp) (imm : Int) (hx : shOfExt x = some sh) (hd : d < 16) :
    Emits e (emitAlu32Imm8 e 0xc1 x d imm) [.i (.shiftI 32 sh d (u8 imm))] :=
  prim_emits_one_eq _ (prim_emitAlu32Imm8_eq e _ x d imm)
    (prim_aluImm8_aux 0 0xc1 x d imm (fun n => .shiftI 32 sh d n) (prim_dec_shiftI 0 x d sh (Or.inl rfl) hx hd))
    (prim_b256_bAluImm8 _ _ _ _ _ (by decide) (by decide))

theorem prim_emits_shiftI64_bv (e : Em) (x d : Nat) (sh : ShOp) (v : BitVec 32) (hx : shOfExt x = some sh) (hd : d < 16) :
    Emits e (emitAlu64Imm8 e 0xc1 x d v.toInt) [.i (.shiftI 64 sh d (v.toNat % 256))] := by
  simpa [prim_u8_toInt] using prim_emits_shiftI64 e x d sh v.toInt hx hd

theorem prim_emits_shiftI32_bv (e : Em) (x d : Nat) (sh : ShOp) (v : BitVec 32) (hx : shOfExt x = some sh) (hd : d < 16) :
    Emits e (emitAlu32Imm8 e 0xc1 x d v.toInt) [.i (.shiftI 32 sh d (v.toNat % 256))] := by
  simpa [prim_u8_toInt] using prim_emits_shiftI32 e x d sh v.toInt hx hd

/-- `66 c1 /0 08`: `rol r16, 8` of `be16` -/
theorem prim_emits_rol16 (e : Em) (d : Nat) (hd : d < 16) :
    Emits e (emitAlu32Imm8 (emit1 e 0x66) 0xc1 0 d 8) [.i (.shiftI 16 .rol d 8)] := by
  refine prim_emits_one_eq _ (prim_emitRol16_eq e d) ?_ (prim_b256_bRol16 d)
  intro tail
  have := prim_dec_rol16 d hd 8 tail
  simpa [bRol16, bAluImm8, u8, List.append_assoc] using this

-- ---------------------------------------------------------------------------------------------------------
-- load immediate, bswap, cmovz, fixed-distance jcc, call

theorem prim_dec_loadImm (d : Nat) (imm : Int) (hd : d < 16) (tail : List Nat) :
    decode (bLoadImm d imm ++ tail) = some (JitAst.loadImm d imm, (bLoadImm d imm).length) := by
  unfold bLoadImm JitAst.loadImm
  split
  · exact prim_aluImm32_aux 1 0xc7 0 d imm (fun v => .aluRI true .mov d v) (prim_dec_aluRI_1_c7_0 d hd) tail
  · have := prim_dec_movabs d hd (u64 imm % 256) ((u64 imm >>> 8) % 256) ((u64 imm >>> 16) % 256) ((u64 imm >>> 24) % 256)
      ((u64 imm >>> 32) % 256) ((u64 imm >>> 40) % 256) ((u64 imm >>> 48) % 256) ((u64 imm >>> 56) % 256) tail
    rw [prim_movabs_u64] at this
    simpa [bMovabs, bLE8, List.append_assoc] using this

/-- `emit_load_imm`: `mov r64, imm32` when the value fits, `movabs` otherwise — the same split as `JitAst.loadImm` -/
theorem prim_emits_loadImm (e : Em) (d : Nat) (imm : Int) (hd : d < 16) : Emits e (emitLoadImm e d imm) [.i (JitAst.loadImm d imm)] :=
  prim_emits_one_eq _ (prim_emitLoadImm_eq e d imm) (prim_dec_loadImm d imm hd) (prim_b256_bLoadImm d imm)

theorem prim_emits_bswap32 (e : Em) (d : Nat) (hd : d < 16) :
    Emits e (emit1 (emit1 (emitBasicRex e 0 0 d) 0x0f) (0xc8 ||| (d &&& 7))) [.i (.bswap false d)] :=
  prim_emits_one_eq _ (prim_emitBswap_eq e 0 d) (prim_dec_bswap_0 d hd) (prim_b256_bBswap 0 d (by decide))

theorem prim_emits_bswap64 (e : Em) (d : Nat) (hd : d < 16) :
    Emits e (emit1 (emit1 (emitBasicRex e 1 0 d) 0x0f) (0xc8 ||| (d &&& 7))) [.i (.bswap true d)] :=
  prim_emits_one_eq _ (prim_emitBswap_eq e 1 d) (prim_dec_bswap_1 d hd) (prim_b256_bBswap 1 d (by decide))

theorem prim_emits_cmovz (e : Em) (r m : Nat) (hr : r < 16) (hm : m < 16) :
    Emits e (emitModrmReg2reg (emit1 (emit1 (emitBasicRex e 1 r m) 0x0f) 0x44) r m) [.i (.cmovz r m)] :=
  prim_emits_one_eq _ (prim_emitCmovz_eq e r m) (prim_dec_cmovz r hr m hm) (prim_b256_bCmovz r m)

theorem prim_ccOf_lt {b : Nat} {cc : Cc} (h : ccOf b = some cc) : b < 256 := by
  rcases prim_ccOf_cases h with ⟨rfl, _⟩ | ⟨rfl, _⟩ | ⟨rfl, _⟩ | ⟨rfl, _⟩ | ⟨rfl, _⟩ | ⟨rfl, _⟩ | ⟨rfl, _⟩ | ⟨rfl, _⟩ | ⟨rfl, _⟩ |
    ⟨rfl, _⟩ <;> decide

/-- `emit_direct_jcc`: a conditional jump over a fixed number of bytes -/
theorem prim_emits_directJcc (e : Em) (code off : Nat) (cc : Cc) (hcc : ccOf code = some cc) :
    Emits e (emitDirectJcc e code off) [.i (.jcc cc (BitVec.ofNat 32 off))] := by
  refine prim_emits_one_eq _ (prim_emitDirectJcc_eq e code off) ?_ (prim_b256_bDirectJcc code off (prim_ccOf_lt hcc))
  have h : ∀ a0 a1 a2 a3 tail, decode ([0x0f, code] ++ a0 :: a1 :: a2 :: a3 :: tail) =
      some ((fun v => Instr.jcc cc v) (le32 a0 a1 a2 a3), [0x0f, code].length + 4) :=
    fun a0 a1 a2 a3 tail => prim_dec_jcc code cc hcc a0 a1 a2 a3 tail
  exact prim_dec_suffix4 h off

/-- `call +5` of the prologue -/
theorem prim_emits_call5 (e : Em) : Emits e (emit4 (emit1 e 0xe8) 5) [.i (.call 5#32)] :=
  prim_emits_one_eq _ (prim_emitCall5_eq e) (fun tail => prim_dec_call 5 0 0 0 tail) (by simp)

/-- `emit_call`: `mov rax, target ; call rax` (`target` is a `u64` in the source) -/
theorem prim_emits_call (e : Em) (target : Nat) (h : target < 2 ^ 64) :
    Emits e (emitCall e target) [.i (JitAst.loadImm RAX (BitVec.ofNat 64 target).toInt), .i (.callReg RAX)] := by
  unfold emitCall
  rw [prim_call_imm target h]
  refine prim_emits_cons (prim_emits_loadImm e RAX _ (by decide)) ?_
  exact prim_emits_one_eq [0xff, 0xd0] (by simp [prim_emit1_eq]) prim_dec_callRax (by simp)

-- ---------------------------------------------------------------------------------------------------------
-- memory

theorem prim_emits_load (e : Em) (sz s d : Nat) (off : Int) (hsz : sz = 8 ∨ sz = 16 ∨ sz = 32 ∨ sz = 64) (hs : s < 16) (hd : d < 16)
    (hs4 : s &&& 7 ≠ 4) (hoff : -2147483648 ≤ off ∧ off ≤ 2147483647) :
    Emits e (emitLoad e sz s d off) [.i (.load sz d s off)] :=
  prim_emits_one_eq _ (prim_emitLoad_eq e sz s d off) (prim_dec_load sz s d off hsz hs hd hs4 hoff) (prim_b256_bLoad sz s d off)

theorem prim_emits_store (e : Em) (sz s d : Nat) (off : Int) (hsz : sz = 8 ∨ sz = 16 ∨ sz = 32 ∨ sz = 64) (hs : s < 16) (hd : d < 16)
    (hd4 : d &&& 7 ≠ 4) (hoff : -2147483648 ≤ off ∧ off ≤ 2147483647) :
    Emits e (emitStore e sz s d off) [.i (.store sz s d off)] :=
  prim_emits_one_eq _ (prim_emitStore_eq e sz s d off) (prim_dec_store sz s d off hsz hs hd hd4 hoff) (prim_b256_bStore sz s d off)

theorem prim_emits_storeImm (e : Em) (sz d : Nat) (off : Int) (v : BitVec 32) (hsz : sz = 8 ∨ sz = 16 ∨ sz = 32 ∨ sz = 64) (hd : d < 16)
    (hd4 : d &&& 7 ≠ 4) (hoff : -2147483648 ≤ off ∧ off ≤ 2147483647) :
    Emits e (emitStoreImm32 e sz d off v.toInt) [.i (.storeI sz d off (JitAst.storeImm sz v))] :=
  prim_emits_one_eq _ (prim_emitStoreImm32_eq e sz d off v.toInt) (prim_dec_storeImm sz d off v hsz hd hd4 hoff)
    (prim_b256_bStoreImm32 sz d off v.toInt)

/-- `lock add dword [dst + off], src` (opcode 0xc3) -/
theorem prim_emits_xadd32 (e : Em) (s d : Nat) (off : Int) (hs : s < 16) (hd : d < 16) (hd4 : d &&& 7 ≠ 4)
    (hoff : -2147483648 ≤ off ∧ off ≤ 2147483647) :
    Emits e (emitModrmAndDisplacement (emit1 (emitBasicRex (emit1 e 0xf0) 0 s d) 0x01) s d off) [.i (.lockAdd false s d off)] :=
  prim_emits_one_eq _ (prim_emitXadd_eq e 0 s d off) (prim_dec_xadd 0 s d off (Or.inl rfl) hs hd hd4 hoff)
    (prim_b256_bXadd 0 s d off (by decide))

/-- `lock add qword [dst + off], src` (opcode 0xdb) -/
theorem prim_emits_xadd64 (e : Em) (s d : Nat) (off : Int) (hs : s < 16) (hd : d < 16) (hd4 : d &&& 7 ≠ 4)
    (hoff : -2147483648 ≤ off ∧ off ≤ 2147483647) :
    Emits e (emitModrmAndDisplacement (emit1 (emitBasicRex (emit1 e 0xf0) 1 s d) 0x01) s d off) [.i (.lockAdd true s d off)] :=
  prim_emits_one_eq _ (prim_emitXadd_eq e 1 s d off) (prim_dec_xadd 1 s d off (Or.inr rfl) hs hd hd4 hoff)
    (prim_b256_bXadd 1 s d off (by decide))

-- ---------------------------------------------------------------------------------------------------------
-- composite emitters

/-- `emit_load_packet` -/
theorem prim_emits_loadPacket (e : Em) (sz base : Nat) (v : BitVec 32) (hsz : sz = 8 ∨ sz = 16 ∨ sz = 32 ∨ sz = 64)
    (hb : base < 16) (hb4 : base &&& 7 ≠ 4) : Emits e (emitLoadPacket e sz base v.toInt) (JitAst.loadPacket sz base v) := by
  unfold emitLoadPacket JitAst.loadPacket
  split
  · exact prim_emits_load e sz base RAX v.toInt hsz hb (by decide) hb4 (prim_imm_range v)
  · rename_i hneg
    rw [prim_loadPacket_neg v hneg]
    refine prim_emits_cons (prim_emits_loadImm e RCX _ (by decide)) ?_
    refine prim_emits_cons (prim_emits_alu64 _ 0x01 base RCX .add rfl hb (by decide)) ?_
    exact prim_emits_load _ sz RCX RAX 0 hsz (by decide) (by decide) (by decide) (by decide)

/-- `emit_local_call` -/
theorem prim_emits_localCall (e : Em) (t : Int) :
    Emits e (emitLocalCall e t)
      [.i (.push R10), .i (.push RBX), .i (.push R13), .i (.push R14), .i (.push R15), .call (.pc t),
       .i (.pop R15), .i (.pop R14), .i (.pop R13), .i (.pop RBX), .i (.pop R10)] := by
  unfold emitLocalCall
  refine prim_emits_cons (prim_emits_push e R10 (by decide)) ?_
  refine prim_emits_cons (prim_emits_push _ RBX (by decide)) ?_
  refine prim_emits_cons (prim_emits_push _ R13 (by decide)) ?_
  refine prim_emits_cons (prim_emits_push _ R14 (by decide)) ?_
  refine prim_emits_cons (prim_emits_push _ R15 (by decide)) ?_
  refine prim_emits_cons (prim_emits_callRel _ t (.pc t) rfl) ?_
  refine prim_emits_cons (prim_emits_pop _ R15 (by decide)) ?_
  refine prim_emits_cons (prim_emits_pop _ R14 (by decide)) ?_
  refine prim_emits_cons (prim_emits_pop _ R13 (by decide)) ?_
  refine prim_emits_cons (prim_emits_pop _ RBX (by decide)) ?_
  exact prim_emits_pop _ R10 (by decide)

/-- the helper-call sequence of opcode 0x85 (`src = 0`) -/
theorem prim_emits_helperCall (e : Em) (addr : Nat) (h : addr < 2 ^ 64) :
    Emits e (emitPop (emitCall (emitMov (emitPush e R10) R9 RCX) addr) R10)
      [.i (.push R10), .i (JitAst.movRR R9 RCX), .i (JitAst.loadImm RAX (BitVec.ofNat 64 addr).toInt), .i (.callReg RAX), .i (.pop R10)] := by
  refine prim_emits_cons (prim_emits_push e R10 (by decide)) ?_
  refine prim_emits_cons (prim_emits_mov _ R9 RCX (by decide) (by decide)) ?_
  exact prim_emits_trans (prim_emits_call _ addr h) (prim_emits_pop _ R10 (by decide))

theorem prim_arm_regs {e : Em} {haddr : Nat → Option Nat} {pc : Nat} {i : Insn} {nx : Option Insn} {r : Em × Nat}
    (h : JitEmit.arm e haddr pc i nx = .ok r) :
    ∃ d s, mapRegister? i.dst.toNat = some d ∧ mapRegister? i.src.toNat = some s := by
  unfold JitEmit.arm at h
  split at h
  · cases h
  · cases h
  · rename_i d s hd hs; exact ⟨d, s, hd, hs⟩

theorem prim_emits_ite {e e1 : Em} {l : List AI} (c : Prop) [Decidable c] (h : Emits e e1 l) :
    Emits e (if c then e1 else e) (if c then l else []) := by
  split
  · exact h
  · exact prim_emits_refl e

theorem prim_toInt_eq_zero (v : BitVec 32) : v.toInt = 0 ↔ v = 0 := by
  constructor
  · intro h; apply BitVec.eq_of_toInt_eq; simpa using h
  · rintro rfl; rfl

-- ---------------------------------------------------------------------------------------------------------
-- `emit_muldivmod`: its steps (general case), in order
def mdS1 (pc opc s d : Nat) (e : Em) : Em :=
  if ((opc &&& 0xf0) = 0x30 ∨ (opc &&& 0xf0) = 0x90) ∧ (opc &&& 0x08) = 0x08 then
    let e := emitLoadImm e RCX pc
    let e := if (opc &&& 0x07) = 0x07 then emitAlu64 e 0x85 s s else emitAlu32 e 0x85 s s
    let e := if (opc &&& 0xf0) = 0x30 then
        emitJmp (emitAlu32 (emitDirectJcc e 0x85 (if rexWouldSetBits 0 d d then 3 + 5 else 2 + 5)) 0x31 d d) (pc + 1)
      else e
    if (opc &&& 0xf0) = 0x90 then emitJcc e 0x84 (pc + 1) else e
  else e
def mdS2 (d : Nat) (e : Em) : Em := if d ≠ RAX then emitPush e RAX else e
def mdS3 (d : Nat) (e : Em) : Em := if d ≠ RDX then emitPush e RDX else e
def mdS4 (opc s d : Nat) (imm : Int) (e : Em) : Em :=
  emitMov (if ¬ (opc &&& 0x08) = 0x08 then emitLoadImm e RCX imm else emitMov e s RCX) d RAX
def mdS6 (opc : Nat) (e : Em) : Em := if (opc &&& 0xf0) = 0x30 ∨ (opc &&& 0xf0) = 0x90 then emitAlu32 e 0x31 RDX RDX else e
def mdS8 (opc : Nat) (e : Em) : Em :=
  emitAlu32 (if (opc &&& 0x07) = 0x07 then emitRex e 1 0 0 0 else e) 0xf7 (if (opc &&& 0xf0) = 0x20 then 4 else 6) RCX
def mdS9 (opc d : Nat) (e : Em) : Em := if d ≠ RDX then emitPop (if (opc &&& 0xf0) = 0x90 then emitMov e RDX d else e) RDX else e
def mdS10 (opc d : Nat) (e : Em) : Em :=
  if d ≠ RAX then emitPop (if (opc &&& 0xf0) = 0x30 ∨ (opc &&& 0xf0) = 0x20 then emitMov e RAX d else e) RAX else e

theorem prim_emitMuldivmod_eq (e : Em) (pc opc s d : Nat) (imm : Int) :
    emitMuldivmod e pc opc s d imm =
      if ((opc &&& 0xf0) = 0x30 ∨ (opc &&& 0xf0) = 0x20) ∧ ¬ (opc &&& 0x08) = 0x08 ∧ imm = 0 then emitAlu32 e 0x31 d d
      else if (opc &&& 0xf0) = 0x90 ∧ ¬ (opc &&& 0x08) = 0x08 ∧ imm = 0 then e
      else mdS10 opc d (mdS9 opc d (mdS8 opc (mdS6 opc (mdS4 opc s d imm (mdS3 d (mdS2 d (mdS1 pc opc s d e))))))) := rfl

theorem prim_emits_mdS1 (e : Em) (pc opc s d : Nat) (hs : s < 16) (hd : d < 16) :
    Emits e (mdS1 pc opc s d e)
      (if ((opc &&& 0xf0) = 0x30 ∨ (opc &&& 0xf0) = 0x90) ∧ (opc &&& 0x08) = 0x08 then
        [AI.i (JitAst.loadImm JitAst.RCX (pc : Int)), .i (.aluRR ((opc &&& 0x07) = 0x07) .test s s)] ++
        (if (opc &&& 0xf0) = 0x30 then [AI.i (.jcc .ne (BitVec.ofNat 32 (if rexWouldSetBits 0 d d then 8 else 7))),
          .i (.aluRR false .xor d d), .jmp (.pc (pc + 1))] else []) ++
        (if (opc &&& 0xf0) = 0x90 then [AI.jcc .e (.pc (pc + 1))] else [])
       else []) := by
  unfold mdS1
  refine prim_emits_ite _ ?_
  dsimp only
  have hA : Emits e (if (opc &&& 0x07) = 0x07 then emitAlu64 (emitLoadImm e RCX pc) 0x85 s s
      else emitAlu32 (emitLoadImm e RCX pc) 0x85 s s)
      [AI.i (JitAst.loadImm JitAst.RCX (pc : Int)), .i (.aluRR ((opc &&& 0x07) = 0x07) .test s s)] := by
    by_cases h64 : (opc &&& 0x07) = 0x07
    · simp only [h64, if_true, decide_true]
      exact prim_emits_cons (prim_emits_loadImm e RCX _ (by decide)) (prim_emits_alu64 _ 0x85 s s .test rfl hs hs)
    · simp only [h64, if_false, decide_false]
      exact prim_emits_cons (prim_emits_loadImm e RCX _ (by decide)) (prim_emits_alu32 _ 0x85 s s .test rfl hs hs)
  exact prim_emits_trans (prim_emits_trans hA
    (prim_emits_ite _ (prim_emits_cons (prim_emits_directJcc _ 0x85 _ .ne rfl)
      (prim_emits_cons (prim_emits_alu32 _ 0x31 d d .xor rfl hd hd) (prim_emits_jmp _ _ (.pc (pc + 1)) rfl)))))
    (prim_emits_ite _ (prim_emits_jcc _ 0x84 _ (.pc (pc + 1)) .e rfl rfl))

theorem prim_emits_mdS2 (e : Em) (d : Nat) : Emits e (mdS2 d e) (if d ≠ JitAst.RAX then [AI.i (.push JitAst.RAX)] else []) :=
  prim_emits_ite _ (prim_emits_push _ RAX (by decide))
theorem prim_emits_mdS3 (e : Em) (d : Nat) : Emits e (mdS3 d e) (if d ≠ JitAst.RDX then [AI.i (.push JitAst.RDX)] else []) :=
  prim_emits_ite _ (prim_emits_push _ RDX (by decide))
theorem prim_emits_mdS4 (e : Em) (opc s d : Nat) (imm : Int) (hs : s < 16) (hd : d < 16) : Emits e (mdS4 opc s d imm e)
    [AI.i (if ¬ (opc &&& 0x08) = 0x08 then JitAst.loadImm JitAst.RCX imm else JitAst.movRR s JitAst.RCX), .i (JitAst.movRR d JitAst.RAX)] := by
  unfold mdS4
  refine prim_emits_cons ?_ (prim_emits_mov _ d RAX hd (by decide))
  split
  · exact prim_emits_loadImm _ RCX _ (by decide)
  · exact prim_emits_mov _ s RCX hs (by decide)
theorem prim_emits_mdS6 (e : Em) (opc : Nat) : Emits e (mdS6 opc e)
    (if (opc &&& 0xf0) = 0x30 ∨ (opc &&& 0xf0) = 0x90 then [AI.i (.aluRR false .xor JitAst.RDX JitAst.RDX)] else []) :=
  prim_emits_ite _ (prim_emits_alu32 _ 0x31 RDX RDX .xor rfl (by decide) (by decide))
theorem prim_emits_mdS8 (e : Em) (opc : Nat) : Emits e (mdS8 opc e)
    [AI.i (if (opc &&& 0xf0) = 0x20 then .mul ((opc &&& 0x07) = 0x07) JitAst.RCX else .div ((opc &&& 0x07) = 0x07) JitAst.RCX)] :=
  prim_emits_muldiv _ _ _
theorem prim_emits_mdS9 (e : Em) (opc d : Nat) (hd : d < 16) : Emits e (mdS9 opc d e)
    (if d ≠ JitAst.RDX then (if (opc &&& 0xf0) = 0x90 then [AI.i (JitAst.movRR JitAst.RDX d)] else []) ++ [AI.i (.pop JitAst.RDX)] else []) :=
  prim_emits_ite _ (prim_emits_trans (prim_emits_ite _ (prim_emits_mov _ RDX d (by decide) hd)) (prim_emits_pop _ RDX (by decide)))
theorem prim_emits_mdS10 (e : Em) (opc d : Nat) (hd : d < 16) : Emits e (mdS10 opc d e)
    (if d ≠ JitAst.RAX then (if (opc &&& 0xf0) = 0x30 ∨ (opc &&& 0xf0) = 0x20 then [AI.i (JitAst.movRR JitAst.RAX d)] else []) ++ [AI.i (.pop JitAst.RAX)] else []) :=
  prim_emits_ite _ (prim_emits_trans (prim_emits_ite _ (prim_emits_mov _ RAX d (by decide) hd)) (prim_emits_pop _ RAX (by decide)))

/-- `emit_muldivmod` -/
theorem prim_emits_muldivmod (e : Em) (pc opc s d : Nat) (v : BitVec 32) (hs : s < 16) (hd : d < 16) :
    Emits e (emitMuldivmod e pc opc s d v.toInt) (JitAst.muldivmod pc opc s d v) := by
  rw [prim_emitMuldivmod_eq]
  unfold JitAst.muldivmod
  dsimp only
  simp only [prim_toInt_eq_zero]
  split
  · exact prim_emits_alu32 e 0x31 d d .xor rfl hd hd
  split
  · exact prim_emits_refl e
  exact prim_emits_trans (prim_emits_trans (prim_emits_trans (prim_emits_trans (prim_emits_trans (prim_emits_trans (prim_emits_trans
    (prim_emits_mdS1 e pc opc s d hs hd) (prim_emits_mdS2 _ d)) (prim_emits_mdS3 _ d)) (prim_emits_mdS4 _ opc s d _ hs hd))
    (prim_emits_mdS6 _ opc)) (prim_emits_mdS8 _ opc)) (prim_emits_mdS9 _ opc d hd)) (prim_emits_mdS10 _ opc d hd)

-- ---------------------------------------------------------------------------------------------------------
-- `lddw`, prologue, epilogue

/-- the `lddw` arm (opcode 0x18): `lo` is the first slot's immediate, `hi` the second's -/
theorem prim_emits_lddw (e : Em) (d : Nat) (lo hi : BitVec 32) (hd : d < 16) :
    Emits e (emitLoadImm e d
      (if (lo.toNat ||| ((hi.signExtend 64).toNat <<< 32) % 2 ^ 64) < 2 ^ 63 then ((lo.toNat ||| ((hi.signExtend 64).toNat <<< 32) % 2 ^ 64 : Nat) : Int)
       else ((lo.toNat ||| ((hi.signExtend 64).toNat <<< 32) % 2 ^ 64 : Nat) : Int) - 2 ^ 64))
      [.i (JitAst.loadImm d (hi ++ lo).toInt)] := by
  have h := prim_lddw_imm lo hi
  dsimp only at h
  rw [h]
  exact prim_emits_loadImm e d _ hd

theorem prim_emits_prologue_pre (e : Em) :
    Emits e (emitMov (emitPush (emitPush (emitPush (emitPush (emitPush e RBP) RBX) R13) R14) R15) RDX R10)
      [.i (.push JitAst.RBP), .i (.push JitAst.RBX), .i (.push JitAst.R13), .i (.push JitAst.R14), .i (.push JitAst.R15),
       .i (JitAst.movRR JitAst.RDX JitAst.R10)] := by
  refine prim_emits_cons (prim_emits_push _ RBP (by decide)) ?_
  refine prim_emits_cons (prim_emits_push _ RBX (by decide)) ?_
  refine prim_emits_cons (prim_emits_push _ R13 (by decide)) ?_
  refine prim_emits_cons (prim_emits_push _ R14 (by decide)) ?_
  refine prim_emits_cons (prim_emits_push _ R15 (by decide)) ?_
  exact prim_emits_mov _ RDX R10 (by decide) (by decide)

theorem prim_emits_prologue_post (e : Em) :
    Emits e (emitJmp (emit4 (emit1 (emitAlu64Imm32 (emitMov e RSP RBP) 0x81 5 RSP 512) 0xe8) 5) targetPcExit)
      [.i (JitAst.movRR JitAst.RSP JitAst.RBP), .i (.aluRI true .sub JitAst.RSP 512#32), .i (.call 5#32), .jmp .exit] := by
  refine prim_emits_cons (prim_emits_mov _ RSP RBP (by decide) (by decide)) ?_
  refine prim_emits_cons (prim_emits_sub64_512 _ RSP (by decide)) ?_
  refine prim_emits_cons (prim_emits_call5 _) ?_
  exact prim_emits_jmp _ _ .exit rfl

theorem prim_emits_prologue (um ud : Bool) : Emits {} (JitEmit.prologue um ud) (JitAst.prologue um ud) := by
  unfold JitEmit.prologue JitAst.prologue
  dsimp only
  cases um <;> cases ud <;>
    simp only [Bool.not_eq_true, Bool.false_eq_true, if_true, if_false, not_true_eq_false, not_false_eq_true]
  · exact prim_emits_trans (prim_emits_trans (prim_emits_prologue_pre _) (prim_emits_mov _ RDX RDI (by decide) (by decide)))
      (prim_emits_prologue_post _)
  · exact prim_emits_trans (prim_emits_trans (prim_emits_prologue_pre _) (prim_emits_mov _ RDX RDI (by decide) (by decide)))
      (prim_emits_prologue_post _)
  · exact prim_emits_trans (prim_emits_trans (prim_emits_prologue_pre _)
      (prim_emits_cons (prim_emits_alu64 _ 0x85 RSI RSI .test rfl (by decide) (by decide)) (prim_emits_cmovz _ RDI RDX (by decide) (by decide))))
      (prim_emits_prologue_post _)
  · exact prim_emits_trans (prim_emits_trans (prim_emits_prologue_pre _)
      (prim_emits_cons (prim_emits_alu64 _ 0x01 RDI R8 .add rfl (by decide) (by decide))
      (prim_emits_cons (prim_emits_store _ 64 RDX R8 0 (by decide) (by decide) (by decide) (by decide) (by decide))
      (prim_emits_cons (prim_emits_mov _ RDX R8 (by decide) (by decide))
      (prim_emits_cons (prim_emits_alu64 _ 0x01 RCX R8 .add rfl (by decide) (by decide))
      (prim_emits_cons (prim_emits_alu64 _ 0x01 RDI R9 .add rfl (by decide) (by decide))
      (prim_emits_store _ 64 R8 R9 0 (by decide) (by decide) (by decide) (by decide) (by decide))))))))
      (prim_emits_prologue_post _)

theorem prim_emits_epilogue (e : Em) :
    Emits { e with exitAnchor := some e.code.size } (JitEmit.epilogue e) JitAst.epilogue := by
  unfold JitEmit.epilogue JitAst.epilogue
  dsimp only
  refine prim_emits_cons (prim_emits_add64_512 _ RSP (by decide)) ?_
  refine prim_emits_cons (prim_emits_pop _ R15 (by decide)) ?_
  refine prim_emits_cons (prim_emits_pop _ R14 (by decide)) ?_
  refine prim_emits_cons (prim_emits_pop _ R13 (by decide)) ?_
  refine prim_emits_cons (prim_emits_pop _ RBX (by decide)) ?_
  refine prim_emits_cons (prim_emits_pop _ RBP (by decide)) ?_
  exact prim_emits_ret _

end Rbpf.JitEnc
