/-
  Toolkit for `arm_enc` (part 1): byte lists of the primitive emitters, the `Appends` / `Enc` algebra, the combined
  relation `Emits`, the arithmetic of immediates and displacements, and the enumeration helpers used by the
  decode lemmas (`PrimDec*.lean`).
-/
import RbpfModel.Model.JitEnc
import Lean
namespace Rbpf.JitEnc
open Rbpf.X86 (Instr Cc decode ccOf le32 sext8)
open Rbpf.JitAst (AI Tgt)
open Rbpf.JitEmit

-- ---------------------------------------------------------------------------------------------------------
-- enumeration helpers

open Lean Elab Tactic Meta in
/-- close `a = b` by `Eq.refl a`, leaving the definitional-equality check to the kernel (as `decide +kernel` does for
    `decide p = true`); nothing is trusted: a wrong use is rejected by the kernel when the theorem is added -/
elab "kernel_rfl" : tactic => do
  let g ← getMainGoal
  let t ← instantiateMVars (← g.getType)
  let some (α, a, _) := t.eq? | throwError "kernel_rfl: the goal is not an equality"
  let u ← getLevel α
  g.assign (mkApp2 (mkConst ``Eq.refl [u]) α a)

theorem prim_forall_lt_16 (P : Nat → Prop) (h0 : P 0) (h1 : P 1) (h2 : P 2) (h3 : P 3) (h4 : P 4) (h5 : P 5) (h6 : P 6) (h7 : P 7)
    (h8 : P 8) (h9 : P 9) (h10 : P 10) (h11 : P 11) (h12 : P 12) (h13 : P 13) (h14 : P 14) (h15 : P 15) : ∀ n, n < 16 → P n := by
  intro n hn
  match n, hn with
  | 0, _ => exact h0 | 1, _ => exact h1 | 2, _ => exact h2 | 3, _ => exact h3 | 4, _ => exact h4 | 5, _ => exact h5
  | 6, _ => exact h6 | 7, _ => exact h7 | 8, _ => exact h8 | 9, _ => exact h9 | 10, _ => exact h10 | 11, _ => exact h11
  | 12, _ => exact h12 | 13, _ => exact h13 | 14, _ => exact h14 | 15, _ => exact h15
  | n + 16, h => omega

/-- split `∀ n, n < 16 → P n` into the sixteen instances -/
macro "enum16" : tactic =>
  `(tactic| refine prim_forall_lt_16 _ ?_ ?_ ?_ ?_ ?_ ?_ ?_ ?_ ?_ ?_ ?_ ?_ ?_ ?_ ?_ ?_)

/-- finish one instance: a side condition `x ≠ c` that is false on this instance, or evaluation by the kernel -/
macro "enum_fin" : tactic =>
  `(tactic| first | (intro h; exact absurd rfl h) | (intro _ h; exact absurd rfl h) | (intros; kernel_rfl))

macro "enum1" : tactic => `(tactic| (enum16 <;> enum_fin))
macro "enum2" : tactic => `(tactic| (enum16 <;> enum16 <;> enum_fin))

-- ---------------------------------------------------------------------------------------------------------
-- appending bytes to the emitter state

/-- `e` with the bytes `bs` appended to its code -/
def app (e : Em) (bs : List Nat) : Em := { e with code := e.code ++ (bs.map UInt8.ofNat).toArray }

@[simp] theorem prim_app_nil (e : Em) : app e [] = e := by cases e; simp [app]
@[simp] theorem prim_app_app (e : Em) (a b : List Nat) : app (app e a) b = app e (a ++ b) := by
  simp [app, Array.append_assoc]
@[simp] theorem prim_app_code (e : Em) (a : List Nat) : (app e a).code = e.code ++ (a.map UInt8.ofNat).toArray := rfl
@[simp] theorem prim_app_jumps (e : Em) (a : List Nat) : (app e a).jumps = e.jumps := rfl
@[simp] theorem prim_app_pcLocs (e : Em) (a : List Nat) : (app e a).pcLocs = e.pcLocs := rfl
@[simp] theorem prim_app_exitAnchor (e : Em) (a : List Nat) : (app e a).exitAnchor = e.exitAnchor := rfl
theorem prim_app_size (e : Em) (a : List Nat) : (app e a).code.size = e.code.size + a.length := by simp [app]

theorem prim_emit1_eq (e : Em) (b : Nat) : emit1 e b = app e [b] := by
  simp [emit1, app]

theorem prim_foldl_emit1 (f : Nat → Nat) (l : List Nat) (e : Em) :
    l.foldl (fun e k => emit1 e (f k)) e = app e (l.map f) := by
  induction l generalizing e with
  | nil => simp
  | cons a l ih => simp only [List.foldl_cons, List.map_cons]; rw [ih, prim_emit1_eq, prim_app_app]; rfl

def bLE (v n : Nat) : List Nat := (List.range n).map fun k => (v >>> (8 * k)) % 256
def bLE2 (v : Nat) : List Nat := [v % 256, (v >>> 8) % 256]
def bLE4 (v : Nat) : List Nat := [v % 256, (v >>> 8) % 256, (v >>> 16) % 256, (v >>> 24) % 256]
def bLE8 (v : Nat) : List Nat :=
  [v % 256, (v >>> 8) % 256, (v >>> 16) % 256, (v >>> 24) % 256, (v >>> 32) % 256, (v >>> 40) % 256, (v >>> 48) % 256, (v >>> 56) % 256]

theorem prim_emitLE_eq (e : Em) (v n : Nat) : emitLE e v n = app e (bLE v n) := prim_foldl_emit1 _ _ e
theorem prim_bLE_2 (v : Nat) : bLE v 2 = bLE2 v := by simp [bLE, bLE2, List.range_succ]
theorem prim_bLE_4 (v : Nat) : bLE v 4 = bLE4 v := by simp [bLE, bLE4, List.range_succ]
theorem prim_bLE_8 (v : Nat) : bLE v 8 = bLE8 v := by simp [bLE, bLE8, List.range_succ]
theorem prim_emit2_eq (e : Em) (v : Nat) : emit2 e v = app e (bLE2 v) := by rw [emit2, prim_emitLE_eq, prim_bLE_2]
theorem prim_emit4_eq (e : Em) (v : Nat) : emit4 e v = app e (bLE4 v) := by rw [emit4, prim_emitLE_eq, prim_bLE_4]
theorem prim_emit8_eq (e : Em) (v : Nat) : emit8 e v = app e (bLE8 v) := by rw [emit8, prim_emitLE_eq, prim_bLE_8]

theorem prim_ite_app (c : Prop) [Decidable c] (e : Em) (a b : List Nat) :
    (if c then app e a else app e b) = app e (if c then a else b) := by split <;> rfl
theorem prim_ite_app_left (c : Prop) [Decidable c] (e : Em) (a : List Nat) :
    (if c then app e a else e) = app e (if c then a else []) := by split <;> simp
theorem prim_ite_app_right (c : Prop) [Decidable c] (e : Em) (b : List Nat) :
    (if c then e else app e b) = app e (if c then [] else b) := by split <;> simp

-- ---------------------------------------------------------------------------------------------------------
-- bytes below 256

/-- all entries are bytes -/
def B256 (l : List Nat) : Prop := ∀ v ∈ l, v < 256

@[simp] theorem prim_b256_nil : B256 [] := by simp [B256]
@[simp] theorem prim_b256_cons (a : Nat) (l : List Nat) : B256 (a :: l) ↔ a < 256 ∧ B256 l := by simp [B256]
@[simp] theorem prim_b256_append (a b : List Nat) : B256 (a ++ b) ↔ B256 a ∧ B256 b := by
  simp only [B256, List.mem_append]; constructor
  · intro h; exact ⟨fun v hv => h v (Or.inl hv), fun v hv => h v (Or.inr hv)⟩
  · rintro ⟨h1, h2⟩ v (hv | hv); exact h1 v hv; exact h2 v hv
theorem prim_b256_ite (c : Prop) [Decidable c] (a b : List Nat) (ha : B256 a) (hb : B256 b) : B256 (if c then a else b) := by
  split <;> assumption
@[simp] theorem prim_b256_bLE2 (v : Nat) : B256 (bLE2 v) := by simp [bLE2]; omega
@[simp] theorem prim_b256_bLE4 (v : Nat) : B256 (bLE4 v) := by simp [bLE4]; omega
@[simp] theorem prim_b256_bLE8 (v : Nat) : B256 (bLE8 v) := by simp [bLE8]; omega
theorem prim_u8_lt (v : Int) : u8 v < 256 := by unfold u8; omega

-- ---------------------------------------------------------------------------------------------------------
-- `Appends`

theorem prim_appends_refl (e : Em) : Appends e e [] [] := by simp [Appends]

theorem prim_appends_app (e : Em) (bs : List Nat) : Appends e (app e bs) bs [] := by simp [Appends]

theorem prim_appends_of_eq {e e' : Em} {bs : List Nat} (h : e' = app e bs) : Appends e e' bs [] := h ▸ prim_appends_app e bs

theorem prim_appends_size {e e' : Em} {bs : List Nat} {hs : List (Nat × Tgt)} (h : Appends e e' bs hs) :
    e'.code.size = e.code.size + bs.length := by simp [h.1]

theorem prim_shift_shift (a b : Nat) (h : Nat × Tgt) : shift a (shift b h) = shift (b + a) h := by
  simp [shift, Nat.add_assoc]

theorem prim_appends_trans {e e1 e2 : Em} {b1 b2 : List Nat} {h1 h2 : List (Nat × Tgt)}
    (a1 : Appends e e1 b1 h1) (a2 : Appends e1 e2 b2 h2) :
    Appends e e2 (b1 ++ b2) (h1 ++ h2.map (shift b1.length)) := by
  obtain ⟨c1, j1, p1, x1⟩ := a1
  obtain ⟨c2, j2, p2, x2⟩ := a2
  refine ⟨?_, ?_, p2.trans p1, x2.trans x1⟩
  · rw [c2, c1]; simp [Array.append_assoc]
  · rw [j2, j1, c1]
    simp only [List.map_append, List.map_map, Array.size_append, List.size_toArray, List.length_map,
      Array.append_assoc, List.append_toArray]
    have hB : (fun h : Nat × Tgt => (e.code.size + b1.length + h.fst, tgtInt h.snd)) =
        ((fun h : Nat × Tgt => (e.code.size + h.fst, tgtInt h.snd)) ∘ shift b1.length) := by
      funext h; simp only [Function.comp, shift, Prod.mk.injEq, and_true]; omega
    rw [hB]

theorem prim_appends_trans0 {e e1 e2 : Em} {b1 b2 : List Nat}
    (a1 : Appends e e1 b1 []) (a2 : Appends e1 e2 b2 []) : Appends e e2 (b1 ++ b2) [] := by
  simpa using prim_appends_trans a1 a2

/-- `emit_jump_offset`: the hole is recorded at the current end of the code, then four zero bytes follow -/
theorem prim_emitJumpOffset (e : Em) (t : Int) (tgt : Tgt) (h : tgtInt tgt = t) :
    Appends e (emitJumpOffset e t) [0, 0, 0, 0] [(0, tgt)] := by
  subst h
  refine ⟨?_, ?_, rfl, rfl⟩
  · simp [emitJumpOffset, prim_emit4_eq, bLE4, app]
  · simp [emitJumpOffset, prim_emit4_eq, app]

theorem prim_emitJcc (e : Em) (code : Nat) (t : Int) (tgt : Tgt) (h : tgtInt tgt = t) :
    Appends e (emitJcc e code t) [0x0f, code, 0, 0, 0, 0] [(2, tgt)] := by
  have a1 : Appends e (emit1 (emit1 e 0x0f) code) [0x0f, code] [] := by
    apply prim_appends_of_eq; simp [prim_emit1_eq]
  simpa [emitJcc, shift] using prim_appends_trans a1 (prim_emitJumpOffset _ t tgt h)

theorem prim_emitJmp (e : Em) (t : Int) (tgt : Tgt) (h : tgtInt tgt = t) :
    Appends e (emitJmp e t) [0xe9, 0, 0, 0, 0] [(1, tgt)] := by
  have a1 : Appends e (emit1 e 0xe9) [0xe9] [] := by
    apply prim_appends_of_eq; simp [prim_emit1_eq]
  simpa [emitJmp, shift] using prim_appends_trans a1 (prim_emitJumpOffset _ t tgt h)

/-- the `call rel32` in the middle of `emit_local_call` -/
theorem prim_emitCallRel (e : Em) (t : Int) (tgt : Tgt) (h : tgtInt tgt = t) :
    Appends e (emitJumpOffset (emit1 e 0xe8) t) [0xe8, 0, 0, 0, 0] [(1, tgt)] := by
  have a1 : Appends e (emit1 e 0xe8) [0xe8] [] := by
    apply prim_appends_of_eq; simp [prim_emit1_eq]
  simpa [shift] using prim_appends_trans a1 (prim_emitJumpOffset _ t tgt h)

-- ---------------------------------------------------------------------------------------------------------
-- `Enc`

theorem prim_enc_one (x : Instr) (b1 : List Nat) (hd : ∀ tail, decode (b1 ++ tail) = some (x, b1.length)) (hb : B256 b1) :
    Enc [.i x] b1 [] := by
  simpa using Enc.i x b1 [] [] [] hd hb Enc.nil

theorem prim_shift_zero : shift 0 = id := by funext h; simp [shift]
theorem prim_shift_comp (a b : Nat) : (shift a ∘ shift b) = shift (a + b) := by
  funext h; simp [prim_shift_shift, Nat.add_comm]

theorem prim_enc_append {l1 l2 : List AI} {b1 b2 : List Nat} {h1 h2 : List (Nat × Tgt)}
    (e1 : Enc l1 b1 h1) (e2 : Enc l2 b2 h2) : Enc (l1 ++ l2) (b1 ++ b2) (h1 ++ h2.map (shift b1.length)) := by
  induction e1 with
  | nil => simpa [prim_shift_zero] using e2
  | i x c ais bs holes hd hb _ ih =>
    have := Enc.i x c _ _ _ hd hb ih
    rw [List.map_append, List.map_map, prim_shift_comp] at this
    simpa [List.length_append] using this
  | jcc cc ccb t a0 a1 a2 a3 ais bs holes hcc l0 l1 l2 l3 _ ih =>
    have := Enc.jcc cc ccb t a0 a1 a2 a3 _ _ _ hcc l0 l1 l2 l3 ih
    rw [List.map_append, List.map_map, prim_shift_comp] at this
    have e : 6 + bs.length = ([0x0f, ccb, a0, a1, a2, a3] ++ bs).length := by simp only [List.length_append, List.length_cons, List.length_nil]
    rw [e] at this; exact this
  | jmp t a0 a1 a2 a3 ais bs holes l0 l1 l2 l3 _ ih =>
    have := Enc.jmp t a0 a1 a2 a3 _ _ _ l0 l1 l2 l3 ih
    rw [List.map_append, List.map_map, prim_shift_comp] at this
    have e : 5 + bs.length = ([0xe9, a0, a1, a2, a3] ++ bs).length := by simp only [List.length_append, List.length_cons, List.length_nil]
    rw [e] at this; exact this
  | call t a0 a1 a2 a3 ais bs holes l0 l1 l2 l3 _ ih =>
    have := Enc.call t a0 a1 a2 a3 _ _ _ l0 l1 l2 l3 ih
    rw [List.map_append, List.map_map, prim_shift_comp] at this
    have e : 5 + bs.length = ([0xe8, a0, a1, a2, a3] ++ bs).length := by simp only [List.length_append, List.length_cons, List.length_nil]
    rw [e] at this; exact this

theorem prim_enc_jcc (cc : Cc) (ccb : Nat) (t : Tgt) (h : ccOf ccb = some cc) :
    Enc [.jcc cc t] [0x0f, ccb, 0, 0, 0, 0] [(2, t)] := by
  simpa using Enc.jcc cc ccb t 0 0 0 0 [] [] [] h (by decide) (by decide) (by decide) (by decide) Enc.nil

theorem prim_enc_jmp (t : Tgt) : Enc [.jmp t] [0xe9, 0, 0, 0, 0] [(1, t)] := by
  simpa using Enc.jmp t 0 0 0 0 [] [] [] (by decide) (by decide) (by decide) (by decide) Enc.nil

theorem prim_enc_call (t : Tgt) : Enc [.call t] [0xe8, 0, 0, 0, 0] [(1, t)] := by
  simpa using Enc.call t 0 0 0 0 [] [] [] (by decide) (by decide) (by decide) (by decide) Enc.nil

-- ---------------------------------------------------------------------------------------------------------
-- `Emits`: an emitter step appends an encoding of the instruction list

/-- the emitter step `e → e'` appended an encoding of `ais` and recorded exactly its holes -/
def Emits (e e' : Em) (ais : List AI) : Prop := ∃ bs holes, Enc ais bs holes ∧ Appends e e' bs holes

theorem prim_emits_refl (e : Em) : Emits e e [] := ⟨[], [], Enc.nil, prim_appends_refl e⟩

theorem prim_emits_trans {e e1 e2 : Em} {l1 l2 : List AI} (h1 : Emits e e1 l1) (h2 : Emits e1 e2 l2) : Emits e e2 (l1 ++ l2) := by
  obtain ⟨b1, k1, n1, a1⟩ := h1
  obtain ⟨b2, k2, n2, a2⟩ := h2
  exact ⟨_, _, prim_enc_append n1 n2, prim_appends_trans a1 a2⟩

/-- `Emits` for one more instruction in front (`[a] ++ l` is `a :: l` by computation, this form avoids the unfolding) -/
theorem prim_emits_cons {e e1 e2 : Em} {a : AI} {l : List AI} (h1 : Emits e e1 [a]) (h2 : Emits e1 e2 l) : Emits e e2 (a :: l) :=
  prim_emits_trans h1 h2

theorem prim_emits_snoc {e e1 e2 : Em} {a : AI} {l : List AI} (h1 : Emits e e1 l) (h2 : Emits e1 e2 [a]) : Emits e e2 (l ++ [a]) :=
  prim_emits_trans h1 h2

/-- one layout-independent instruction -/
theorem prim_emits_one {e e' : Em} {x : Instr} (bs : List Nat) (ha : Appends e e' bs [])
    (hd : ∀ tail, decode (bs ++ tail) = some (x, bs.length)) (hb : B256 bs) : Emits e e' [.i x] :=
  ⟨bs, [], prim_enc_one x bs hd hb, ha⟩

theorem prim_emits_one_eq {e e' : Em} {x : Instr} (bs : List Nat) (ha : e' = app e bs)
    (hd : ∀ tail, decode (bs ++ tail) = some (x, bs.length)) (hb : B256 bs) : Emits e e' [.i x] :=
  prim_emits_one bs (prim_appends_of_eq ha) hd hb

theorem prim_emits_congr {e e' : Em} {l l' : List AI} (h : Emits e e' l) (hl : l = l') : Emits e e' l' := hl ▸ h

theorem prim_emits_jcc (e : Em) (code : Nat) (t : Int) (tgt : Tgt) (cc : Cc) (h : tgtInt tgt = t) (hcc : ccOf code = some cc) :
    Emits e (emitJcc e code t) [.jcc cc tgt] := ⟨_, _, prim_enc_jcc cc code tgt hcc, prim_emitJcc e code t tgt h⟩

theorem prim_emits_jmp (e : Em) (t : Int) (tgt : Tgt) (h : tgtInt tgt = t) : Emits e (emitJmp e t) [.jmp tgt] :=
  ⟨_, _, prim_enc_jmp tgt, prim_emitJmp e t tgt h⟩

theorem prim_emits_callRel (e : Em) (t : Int) (tgt : Tgt) (h : tgtInt tgt = t) :
    Emits e (emitJumpOffset (emit1 e 0xe8) t) [.call tgt] := ⟨_, _, prim_enc_call tgt, prim_emitCallRel e t tgt h⟩

@[simp] theorem prim_tgtInt_pc (t : Int) : tgtInt (.pc t) = t := rfl
@[simp] theorem prim_tgtInt_exit : tgtInt .exit = targetPcExit := rfl

end Rbpf.JitEnc
