/-
  Toolkit for `arm_enc` (part 3c): decode lemmas for `lock add` and the immediate stores, by enumeration over the registers
  (see `PrimDecReg.lean`).  The base register must not be rsp / r12 (`m &&& 7 ≠ 4`: that ModRM value announces a SIB
  byte, which the JIT never emits and the decoder rejects); the JIT only uses mapped registers, r10, r11, rcx, r8, r9 as bases.
-/
import RbpfModel.Lemmas.X86Enc.PrimMemGlue
namespace Rbpf.JitEnc
open Rbpf.X86 (Instr Cc AluOp ShOp decode ccOf le32 sext8)
open Rbpf.JitEmit


theorem prim_dec_xadd_0_0 : ∀ s, s < 16 → ∀ d, d < 16 → d &&& 7 ≠ 4 → d &&& 7 ≠ 5 → ∀ tail,
    decode ((bXaddPre 0 s d ++ bMem0 s d) ++ tail) = some (.lockAdd false s d 0, (bXaddPre 0 s d ++ bMem0 s d).length) := by enum2
theorem prim_dec_xadd_0_1 : ∀ s, s < 16 → ∀ d, d < 16 → d &&& 7 ≠ 4 → ∀ d8 tail,
    decode ((bXaddPre 0 s d ++ bMem1 s d d8) ++ tail) = some (.lockAdd false s d (sext8 d8), (bXaddPre 0 s d ++ bMem1 s d d8).length) := by enum2
theorem prim_dec_xadd_0_2 : ∀ s, s < 16 → ∀ d, d < 16 → d &&& 7 ≠ 4 → ∀ a0 a1 a2 a3 tail,
    decode ((bXaddPre 0 s d ++ bMem2 s d a0 a1 a2 a3) ++ tail) = some (.lockAdd false s d (le32 a0 a1 a2 a3).toInt, (bXaddPre 0 s d ++ bMem2 s d a0 a1 a2 a3).length) := by enum2
theorem prim_dec_xadd_1_0 : ∀ s, s < 16 → ∀ d, d < 16 → d &&& 7 ≠ 4 → d &&& 7 ≠ 5 → ∀ tail,
    decode ((bXaddPre 1 s d ++ bMem0 s d) ++ tail) = some (.lockAdd true s d 0, (bXaddPre 1 s d ++ bMem0 s d).length) := by enum2
theorem prim_dec_xadd_1_1 : ∀ s, s < 16 → ∀ d, d < 16 → d &&& 7 ≠ 4 → ∀ d8 tail,
    decode ((bXaddPre 1 s d ++ bMem1 s d d8) ++ tail) = some (.lockAdd true s d (sext8 d8), (bXaddPre 1 s d ++ bMem1 s d d8).length) := by enum2
theorem prim_dec_xadd_1_2 : ∀ s, s < 16 → ∀ d, d < 16 → d &&& 7 ≠ 4 → ∀ a0 a1 a2 a3 tail,
    decode ((bXaddPre 1 s d ++ bMem2 s d a0 a1 a2 a3) ++ tail) = some (.lockAdd true s d (le32 a0 a1 a2 a3).toInt, (bXaddPre 1 s d ++ bMem2 s d a0 a1 a2 a3).length) := by enum2

/-- `f0 [REX] 01 /r` decodes to `lock add [dst + off], src` -/
theorem prim_dec_xadd (w s d : Nat) (off : Int) (hw : w = 0 ∨ w = 1) (hs : s < 16) (hd : d < 16)
    (hd4 : d &&& 7 ≠ 4) (hoff : -2147483648 ≤ off ∧ off ≤ 2147483647) (tail : List Nat) :
    decode (bXadd w s d off ++ tail) = some (.lockAdd (w == 1) s d off, (bXadd w s d off).length) := by
  unfold bXadd
  rcases hw with rfl | rfl
  · exact prim_dec_mem_glue0 _ s d (fun x => .lockAdd false s d x) off hoff (fun h5 => prim_dec_xadd_0_0 s hs d hd hd4 h5)
      (prim_dec_xadd_0_1 s hs d hd hd4) (prim_dec_xadd_0_2 s hs d hd hd4) tail
  · exact prim_dec_mem_glue0 _ s d (fun x => .lockAdd true s d x) off hoff (fun h5 => prim_dec_xadd_1_0 s hs d hd hd4 h5)
      (prim_dec_xadd_1_1 s hs d hd hd4) (prim_dec_xadd_1_2 s hs d hd hd4) tail

theorem prim_dec_storeI_8_0 : ∀ d, d < 16 → d &&& 7 ≠ 4 → d &&& 7 ≠ 5 → ∀ i0 tail,
    decode ((bStoreImmPre 8 d ++ bMem0 0 d ++ [i0]) ++ tail) = some (.storeI 8 d 0 (BitVec.ofNat 32 i0), (bStoreImmPre 8 d ++ bMem0 0 d ++ [i0]).length) := by enum1
theorem prim_dec_storeI_8_1 : ∀ d, d < 16 → d &&& 7 ≠ 4 → ∀ i0 d8 tail,
    decode ((bStoreImmPre 8 d ++ bMem1 0 d d8 ++ [i0]) ++ tail) = some (.storeI 8 d (sext8 d8) (BitVec.ofNat 32 i0), (bStoreImmPre 8 d ++ bMem1 0 d d8 ++ [i0]).length) := by enum1
theorem prim_dec_storeI_8_2 : ∀ d, d < 16 → d &&& 7 ≠ 4 → ∀ i0 a0 a1 a2 a3 tail,
    decode ((bStoreImmPre 8 d ++ bMem2 0 d a0 a1 a2 a3 ++ [i0]) ++ tail) = some (.storeI 8 d (le32 a0 a1 a2 a3).toInt (BitVec.ofNat 32 i0), (bStoreImmPre 8 d ++ bMem2 0 d a0 a1 a2 a3 ++ [i0]).length) := by enum1
theorem prim_dec_storeI_16_0 : ∀ d, d < 16 → d &&& 7 ≠ 4 → d &&& 7 ≠ 5 → ∀ i0 i1 tail,
    decode ((bStoreImmPre 16 d ++ bMem0 0 d ++ [i0, i1]) ++ tail) = some (.storeI 16 d 0 (le32 i0 i1 0 0), (bStoreImmPre 16 d ++ bMem0 0 d ++ [i0, i1]).length) := by enum1
theorem prim_dec_storeI_16_1 : ∀ d, d < 16 → d &&& 7 ≠ 4 → ∀ i0 i1 d8 tail,
    decode ((bStoreImmPre 16 d ++ bMem1 0 d d8 ++ [i0, i1]) ++ tail) = some (.storeI 16 d (sext8 d8) (le32 i0 i1 0 0), (bStoreImmPre 16 d ++ bMem1 0 d d8 ++ [i0, i1]).length) := by enum1
theorem prim_dec_storeI_16_2 : ∀ d, d < 16 → d &&& 7 ≠ 4 → ∀ i0 i1 a0 a1 a2 a3 tail,
    decode ((bStoreImmPre 16 d ++ bMem2 0 d a0 a1 a2 a3 ++ [i0, i1]) ++ tail) = some (.storeI 16 d (le32 a0 a1 a2 a3).toInt (le32 i0 i1 0 0), (bStoreImmPre 16 d ++ bMem2 0 d a0 a1 a2 a3 ++ [i0, i1]).length) := by enum1
theorem prim_dec_storeI_32_0 : ∀ d, d < 16 → d &&& 7 ≠ 4 → d &&& 7 ≠ 5 → ∀ i0 i1 i2 i3 tail,
    decode ((bStoreImmPre 32 d ++ bMem0 0 d ++ [i0, i1, i2, i3]) ++ tail) = some (.storeI 32 d 0 (le32 i0 i1 i2 i3), (bStoreImmPre 32 d ++ bMem0 0 d ++ [i0, i1, i2, i3]).length) := by enum1
theorem prim_dec_storeI_32_1 : ∀ d, d < 16 → d &&& 7 ≠ 4 → ∀ i0 i1 i2 i3 d8 tail,
    decode ((bStoreImmPre 32 d ++ bMem1 0 d d8 ++ [i0, i1, i2, i3]) ++ tail) = some (.storeI 32 d (sext8 d8) (le32 i0 i1 i2 i3), (bStoreImmPre 32 d ++ bMem1 0 d d8 ++ [i0, i1, i2, i3]).length) := by enum1
theorem prim_dec_storeI_32_2 : ∀ d, d < 16 → d &&& 7 ≠ 4 → ∀ i0 i1 i2 i3 a0 a1 a2 a3 tail,
    decode ((bStoreImmPre 32 d ++ bMem2 0 d a0 a1 a2 a3 ++ [i0, i1, i2, i3]) ++ tail) = some (.storeI 32 d (le32 a0 a1 a2 a3).toInt (le32 i0 i1 i2 i3), (bStoreImmPre 32 d ++ bMem2 0 d a0 a1 a2 a3 ++ [i0, i1, i2, i3]).length) := by enum1
theorem prim_dec_storeI_64_0 : ∀ d, d < 16 → d &&& 7 ≠ 4 → d &&& 7 ≠ 5 → ∀ i0 i1 i2 i3 tail,
    decode ((bStoreImmPre 64 d ++ bMem0 0 d ++ [i0, i1, i2, i3]) ++ tail) = some (.storeI 64 d 0 (le32 i0 i1 i2 i3), (bStoreImmPre 64 d ++ bMem0 0 d ++ [i0, i1, i2, i3]).length) := by enum1
theorem prim_dec_storeI_64_1 : ∀ d, d < 16 → d &&& 7 ≠ 4 → ∀ i0 i1 i2 i3 d8 tail,
    decode ((bStoreImmPre 64 d ++ bMem1 0 d d8 ++ [i0, i1, i2, i3]) ++ tail) = some (.storeI 64 d (sext8 d8) (le32 i0 i1 i2 i3), (bStoreImmPre 64 d ++ bMem1 0 d d8 ++ [i0, i1, i2, i3]).length) := by enum1
theorem prim_dec_storeI_64_2 : ∀ d, d < 16 → d &&& 7 ≠ 4 → ∀ i0 i1 i2 i3 a0 a1 a2 a3 tail,
    decode ((bStoreImmPre 64 d ++ bMem2 0 d a0 a1 a2 a3 ++ [i0, i1, i2, i3]) ++ tail) = some (.storeI 64 d (le32 a0 a1 a2 a3).toInt (le32 i0 i1 i2 i3), (bStoreImmPre 64 d ++ bMem2 0 d a0 a1 a2 a3 ++ [i0, i1, i2, i3]).length) := by enum1

/-- `emit_store_imm32(size, dst, off, imm)` decodes to `store size [dst + off], imm` (the immediate cut to the size) -/
theorem prim_dec_storeImm (sz d : Nat) (off : Int) (x : BitVec 32) (hsz : sz = 8 ∨ sz = 16 ∨ sz = 32 ∨ sz = 64) (hd : d < 16)
    (hd4 : d &&& 7 ≠ 4) (hoff : -2147483648 ≤ off ∧ off ≤ 2147483647) (tail : List Nat) :
    decode (bStoreImm32 sz d off x.toInt ++ tail) =
      some (.storeI sz d off (JitAst.storeImm sz x), (bStoreImm32 sz d off x.toInt).length) := by
  unfold bStoreImm32
  rcases hsz with rfl | rfl | rfl | rfl
  · rw [← prim_storeImm8 x]
    exact prim_dec_mem_glue _ _ 0 d (fun o => .storeI 8 d o (BitVec.ofNat 32 (u8 x.toInt))) off hoff
      (fun h5 tail => prim_dec_storeI_8_0 d hd hd4 h5 _ tail) (fun d8 tail => prim_dec_storeI_8_1 d hd hd4 _ d8 tail)
      (fun a0 a1 a2 a3 tail => prim_dec_storeI_8_2 d hd hd4 _ a0 a1 a2 a3 tail) tail
  · rw [← prim_storeImm16 x]
    exact prim_dec_mem_glue _ _ 0 d (fun o => .storeI 16 d o _) off hoff
      (fun h5 tail => prim_dec_storeI_16_0 d hd hd4 h5 _ _ tail) (fun d8 tail => prim_dec_storeI_16_1 d hd hd4 _ _ d8 tail)
      (fun a0 a1 a2 a3 tail => prim_dec_storeI_16_2 d hd hd4 _ _ a0 a1 a2 a3 tail) tail
  · have hx : le32 (u32 x.toInt % 256) ((u32 x.toInt >>> 8) % 256) ((u32 x.toInt >>> 16) % 256) ((u32 x.toInt >>> 24) % 256) = x := by
      rw [prim_le32_u32, prim_ofInt_toInt]
    rw [prim_storeImm32 x]
    have := prim_dec_mem_glue (bStoreImmPre 32 d) (bStoreImmSuf 32 x.toInt) 0 d (fun o => .storeI 32 d o
      (le32 (u32 x.toInt % 256) ((u32 x.toInt >>> 8) % 256) ((u32 x.toInt >>> 16) % 256) ((u32 x.toInt >>> 24) % 256))) off hoff
      (fun h5 tail => prim_dec_storeI_32_0 d hd hd4 h5 _ _ _ _ tail) (fun d8 tail => prim_dec_storeI_32_1 d hd hd4 _ _ _ _ d8 tail)
      (fun a0 a1 a2 a3 tail => prim_dec_storeI_32_2 d hd hd4 _ _ _ _ a0 a1 a2 a3 tail) tail
    rw [hx] at this; exact this
  · have hx : le32 (u32 x.toInt % 256) ((u32 x.toInt >>> 8) % 256) ((u32 x.toInt >>> 16) % 256) ((u32 x.toInt >>> 24) % 256) = x := by
      rw [prim_le32_u32, prim_ofInt_toInt]
    rw [prim_storeImm64 x]
    have := prim_dec_mem_glue (bStoreImmPre 64 d) (bStoreImmSuf 64 x.toInt) 0 d (fun o => .storeI 64 d o
      (le32 (u32 x.toInt % 256) ((u32 x.toInt >>> 8) % 256) ((u32 x.toInt >>> 16) % 256) ((u32 x.toInt >>> 24) % 256))) off hoff
      (fun h5 tail => prim_dec_storeI_64_0 d hd hd4 h5 _ _ _ _ tail) (fun d8 tail => prim_dec_storeI_64_1 d hd hd4 _ _ _ _ d8 tail)
      (fun a0 a1 a2 a3 tail => prim_dec_storeI_64_2 d hd hd4 _ _ _ _ a0 a1 a2 a3 tail) tail
    rw [hx] at this; exact this

end Rbpf.JitEnc
