/-
  Helper definitions and lemmas for C03 / C04 / C11 / C08 (engines): the register-transfer models of the
  x86-64 JIT and of Cranelift (`Model/EngineSem.lean`) against the interpreter model.

  `Interp.step` maintains `State.usage` (frame sizes per call depth), which only `callLocal` / `exitInsn`
  read; the engine models do not.  States, outcomes and results are therefore compared up to `usage`
  (`SameButUsage`, `OutcomeRel`, `ResultRel`).
-/
import RbpfModel.Model.EngineSem
import RbpfModel.Model.Access
import RbpfModel.Lemmas.MemLemmas
import RbpfModel.Lemmas.FrameLemmas
import RbpfModel.Lemmas.IsaLemmas
namespace Rbpf
open Interp EngineSem

/-- equal registers, pc, frames, memory and helper log (everything but `usage`) -/
def SameButUsage (a b : State) : Prop :=
  a.reg = b.reg ∧ a.pc = b.pc ∧ a.frames = b.frames ∧ a.mem = b.mem ∧ a.log = b.log

/-- outcomes related up to `usage` -/
def OutcomeRel : Outcome → Outcome → Prop
  | .next a, .next b => SameButUsage a b
  | .done r a, .done r' b => r = r' ∧ SameButUsage a b
  | .err e a, .err e' b => e = e' ∧ SameButUsage a b
  | .panic, .panic => True
  | .fault, .fault => True
  | _, _ => False

/-- results of whole runs related up to `usage` -/
def ResultRel : Interp.Result → Interp.Result → Prop
  | .done r a, .done r' b => r = r' ∧ SameButUsage a b
  | .err e a, .err e' b => e = e' ∧ SameButUsage a b
  | .panic, .panic => True
  | .fault, .fault => True
  | .timeout a, .timeout b => SameButUsage a b
  | _, _ => False

/-- no slot of the program decodes to an eBPF-to-eBPF call -/
def NoLocalCall (p : Bytes) : Prop := ∀ pc i, getInsn? p pc = some i → ¬ (i.opc = 0x85 ∧ i.src = 1)
/-- no slot of the program decodes to an unsigned 64-bit compare with a negative immediate (finding F7) -/
def NoF7 (p : Bytes) : Prop := ∀ pc i, getInsn? p pc = some i → Isa.isF7 i = false

theorem SameButUsage.refl (s : State) : SameButUsage s s := ⟨rfl, rfl, rfl, rfl, rfl⟩

/-- `b` is `a` with another `usage` -/
theorem SameButUsage.eq {a b : State} (h : SameButUsage a b) : b = { a with usage := b.usage } := by
  obtain ⟨r, p, f, u, m, l⟩ := a
  obtain ⟨r', p', f', u', m', l'⟩ := b
  obtain ⟨h1, h2, h3, h4, h5⟩ := h
  simp only at h1 h2 h3 h4 h5
  subst h1 h2 h3 h4 h5
  rfl

/-! ### every arm of `exec` other than local call (and exit above depth 0) ignores `usage` -/

theorem SameButUsage.withU (s : State) (u : Vector Nat 8) : SameButUsage s { s with usage := u } :=
  ⟨rfl, rfl, rfl, rfl, rfl⟩

theorem ru_next (s u) : OutcomeRel (.next s) (.next { s with usage := u }) := SameButUsage.withU s u
theorem ru_err (e s u) : OutcomeRel (.err e s) (.err e { s with usage := u }) := ⟨rfl, SameButUsage.withU s u⟩
theorem ru_panic : OutcomeRel .panic .panic := trivial
theorem ru_fault : OutcomeRel .fault .fault := trivial

theorem ru_rd (s : State) (u : Vector Nat 8) (i : Nat) (k k' : BitVec 64 → Outcome)
    (h : ∀ v, OutcomeRel (k v) (k' v)) : OutcomeRel (rd s i k) (rd { s with usage := u } i k') := by
  show OutcomeRel (match s.reg[i]? with | some v => k v | none => .panic)
    (match s.reg[i]? with | some v => k' v | none => .panic)
  cases s.reg[i]? with
  | none => exact ru_panic
  | some v => exact h v

theorem ru_wr (s : State) (u : Vector Nat 8) (i : Nat) (v : BitVec 64) :
    OutcomeRel (wr s i v) (wr { s with usage := u } i v) := by
  unfold wr; split
  · exact ⟨rfl, rfl, rfl, rfl, rfl⟩
  · exact ru_panic

theorem ru_jumpTo (s : State) (u : Vector Nat 8) (t : Int) :
    OutcomeRel (jumpTo s t) (jumpTo { s with usage := u } t) := by
  unfold jumpTo; split
  · exact ru_panic
  · exact ⟨rfl, rfl, rfl, rfl, rfl⟩

theorem ru_branch (s : State) (u : Vector Nat 8) (off : BitVec 16) (c : Bool) :
    OutcomeRel (branch s off c) (branch { s with usage := u } off c) := by
  unfold branch; split
  · exact ru_jumpTo s u _
  · exact ru_next s u

theorem ru_load (env : Env) (s : State) (u : Vector Nat 8) (a : BitVec 64) (w d : Nat) :
    OutcomeRel (load env s a w d) (load env { s with usage := u } a w d) := by
  unfold load; dsimp only; split
  · split
    · exact ru_wr s u _ _
    · exact ru_fault
  · exact ru_err _ s u

theorem ru_store (env : Env) (s : State) (u : Vector Nat 8) (a : BitVec 64) (w : Nat) (v : BitVec 64) :
    OutcomeRel (store env s a w v) (store env { s with usage := u } a w v) := by
  unfold store; dsimp only; split
  · split
    · exact ⟨rfl, rfl, rfl, rfl, rfl⟩
    · exact ru_fault
  · exact ru_err _ s u

theorem ru_xadd (env : Env) (s : State) (u : Vector Nat 8) (a : BitVec 64) (w : Nat) (v : BitVec 64) :
    OutcomeRel (xadd env s a w v) (xadd env { s with usage := u } a w v) := by
  unfold xadd; dsimp only; split
  · split
    · split
      · split
        · exact ⟨rfl, rfl, rfl, rfl, rfl⟩
        · exact ru_fault
      · exact ru_fault
    · exact ru_err _ s u
  · exact ru_err _ s u

theorem ru_pktAbs (s : State) (u : Vector Nat 8) (imm : BitVec 32) (k k' : BitVec 64 → Outcome)
    (h : ∀ v, OutcomeRel (k v) (k' v)) : OutcomeRel (pktAbs s imm k) (pktAbs { s with usage := u } imm k') := by
  unfold pktAbs; dsimp only; split
  · exact ru_panic
  · exact h _

theorem ru_callHelper (env : Env) (s : State) (u : Vector Nat 8) (imm : BitVec 32) :
    OutcomeRel (callHelper env s imm) (callHelper env { s with usage := u } imm) := by
  unfold callHelper; dsimp only; split
  · repeat (apply ru_rd; intro _)
    exact ru_wr _ u 0 _
  · exact ru_err _ s u

theorem ru_exit (s : State) (u : Vector Nat 8) (hf : s.frames = []) :
    OutcomeRel (exitInsn s) (exitInsn { s with usage := u }) := by
  obtain ⟨reg, pc, frames, usage, mem, log⟩ := s
  simp only at hf; subst hf
  unfold exitInsn; dsimp only
  apply ru_rd; intro r0
  exact ⟨rfl, rfl, rfl, rfl, rfl, rfl⟩

theorem ru_ite (c : Prop) [Decidable c] (a b a' b' : Outcome) (ha : OutcomeRel a a') (hb : OutcomeRel b b') :
    OutcomeRel (if c then a else b) (if c then a' else b') := by split <;> assumption


macro "ru_tac" : tactic => `(tactic|
  repeat (first
    | apply ru_wr | apply ru_branch | apply ru_next | exact ru_panic | apply ru_err
    | apply ru_load | apply ru_store | apply ru_xadd
    | (apply ru_rd; intro _) | (apply ru_pktAbs; intro _) | apply ru_ite))

attribute [local irreducible] rd wr load store xadd pktAbs branch callHelper callLocal exitInsn OutcomeRel in
set_option maxRecDepth 4000 in
theorem exec_withU (env : Env) (s : State) (u : Vector Nat 8) (insn : Insn)
    (hl : ¬ (insn.opc = 0x85 ∧ insn.src = 1)) (hf : s.frames = []) :
    OutcomeRel (exec env s insn) (exec env { s with usage := u } insn) := by
  unfold exec
  dsimp only
  split
  all_goals first
    | (ru_tac; done)
    | exact ru_exit s u hf
    | (split
       · exact ru_panic
       · exact ru_wr _ u _ _)
    | (split
       · exact ru_callHelper env s u _
       · split
         · rename_i heq _ h1
           exact absurd ⟨BitVec.eq_of_toNat_eq heq, BitVec.eq_of_toNat_eq h1⟩ hl
         · exact ru_err _ s u)

/-! ### the compare-with-immediate opcodes -/

def isCmpImm (opc : BitVec 8) : Bool :=
  opc = 0x15 || opc = 0x25 || opc = 0x35 || opc = 0xa5 || opc = 0xb5 || opc = 0x55

theorem isF7_eq (i : Insn) : Isa.isF7 i = (isCmpImm i.opc && i.imm.msb) := rfl

theorem bv8_eq_of_toNat (o : BitVec 8) (n : Nat) (hn : n < 256) (h : o.toNat = n) : o = BitVec.ofNat 8 n := by
  apply BitVec.eq_of_toNat_eq; simp [h]; omega

theorem cmpImmSigned_none (s : State) (insn : Insn) (h : isCmpImm insn.opc = false) :
    cmpImmSigned s insn = none := by
  unfold cmpImmSigned
  dsimp only
  split
  all_goals first
    | rfl
    | (rename_i heq
       have := bv8_eq_of_toNat _ _ (by decide) heq
       rw [this] at h
       exact absurd h (by decide))

theorem cmpImmSigned_exec (env : Env) (s : State) (insn : Insn) (hc : isCmpImm insn.opc = true)
    (hm : insn.imm.msb = false) : cmpImmSigned s insn = some (exec env s insn) := by
  obtain ⟨opc, dst, src, off, imm⟩ := insn
  have hx : sx32 imm = zx32 imm := BitVec.signExtend_eq_setWidth_of_msb_false hm
  simp only [isCmpImm, Bool.or_eq_true, decide_eq_true_eq] at hc
  rcases hc with ((((rfl | rfl) | rfl) | rfl) | rfl) | rfl
  · show some (rd s dst.toNat fun d => branch s off (d == sx32 imm)) =
      some (rd s dst.toNat fun d => branch s off (d == zx32 imm))
    rw [hx]
  · show some (rd s dst.toNat fun d => branch s off ((sx32 imm).ult d)) =
      some (rd s dst.toNat fun d => branch s off ((zx32 imm).ult d))
    rw [hx]
  · show some (rd s dst.toNat fun d => branch s off ((sx32 imm).ule d)) =
      some (rd s dst.toNat fun d => branch s off ((zx32 imm).ule d))
    rw [hx]
  · show some (rd s dst.toNat fun d => branch s off (d.ult (sx32 imm))) =
      some (rd s dst.toNat fun d => branch s off (d.ult (zx32 imm)))
    rw [hx]
  · show some (rd s dst.toNat fun d => branch s off (d.ule (sx32 imm))) =
      some (rd s dst.toNat fun d => branch s off (d.ule (zx32 imm)))
    rw [hx]
  · show some (rd s dst.toNat fun d => branch s off (d != sx32 imm)) =
      some (rd s dst.toNat fun d => branch s off (d != zx32 imm))
    rw [hx]

theorem exec_exit (env : Env) (s : State) (insn : Insn) (h : insn.opc = 0x95) : exec env s insn = exitInsn s := by
  obtain ⟨opc, dst, src, off, imm⟩ := insn
  simp only at h; subst h; rfl

theorem jitExit_nil (s : State) (hf : s.frames = []) : jitExit s = exitInsn s := by
  obtain ⟨reg, pc, frames, usage, mem, log⟩ := s
  simp only at hf; subst hf; rfl

/-! ### atomic add in generated code: no alignment test -/

def isXaddOpc (opc : BitVec 8) : Bool := opc = 0xc3 || opc = 0xdb

theorem xaddInsn_none (env : Env) (s : State) (insn : Insn) (h : isXaddOpc insn.opc = false) :
    xaddInsn env s insn = none := by
  unfold xaddInsn
  dsimp only
  split
  all_goals first
    | rfl
    | (rename_i heq
       have := bv8_eq_of_toNat _ _ (by decide) heq
       rw [this] at h
       exact absurd h (by decide))

/-- the interpreter's atomic add is the generated code's, except that it refuses a misaligned address -/
theorem xadd_anyAlign (env : Env) (s : State) (a : BitVec 64) (w : Nat) (v : BitVec 64) :
    xadd env s a w v = xaddAnyAlign env s a w v ∨ xadd env s a w v = .err .unaligned s := by
  unfold xadd xaddAnyAlign
  split
  · split
    · exact Or.inl rfl
    · exact Or.inr rfl
  · exact Or.inl rfl

theorem rd2_xadd (env : Env) (s : State) (i j w : Nat) (f : BitVec 64 → BitVec 64) (g : BitVec 64 → BitVec 64) :
    (rd s i fun d => rd s j fun x => xaddAnyAlign env s (f d) w (g x)) =
      (rd s i fun d => rd s j fun x => xadd env s (f d) w (g x)) ∨
    (rd s i fun d => rd s j fun x => xadd env s (f d) w (g x)) = .err .unaligned s := by
  unfold rd
  cases s.reg[i]? with
  | none => exact Or.inl rfl
  | some d =>
    cases s.reg[j]? with
    | none => exact Or.inl rfl
    | some x =>
      dsimp only
      rcases xadd_anyAlign env s (f d) w (g x) with h | h
      · exact Or.inl h.symm
      · exact Or.inr h

theorem xaddInsn_exec (env : Env) (s : State) (insn : Insn) (o : Outcome) (h : xaddInsn env s insn = some o) :
    o = exec env s insn ∨ exec env s insn = .err .unaligned s := by
  obtain ⟨opc, dst, src, off, imm⟩ := insn
  cases hc : isXaddOpc opc with
  | false => rw [xaddInsn_none env s _ hc] at h; cases h
  | true =>
    simp only [isXaddOpc, Bool.or_eq_true, decide_eq_true_eq] at hc
    rcases hc with rfl | rfl
    · have h' : o = rd s dst.toNat fun d => rd s src.toNat fun x =>
          xaddAnyAlign env s (d + off.signExtend 64) 4 (zx32 (lo32 x)) := (Option.some.inj h).symm
      subst h'
      exact rd2_xadd env s dst.toNat src.toNat 4 (fun d => d + off.signExtend 64) (fun x => zx32 (lo32 x))
    · have h' : o = rd s dst.toNat fun d => rd s src.toNat fun x =>
          xaddAnyAlign env s (d + off.signExtend 64) 8 x := (Option.some.inj h).symm
      subst h'
      exact rd2_xadd env s dst.toNat src.toNat 8 (fun d => d + off.signExtend 64) (fun x => x)

/-- one instruction of JIT-generated code is the interpreter's arm — unless the interpreter refuses a misaligned
    atomic add (generated code performs it) -/
theorem jitExec_eq_exec (env : Env) (s : State) (insn : Insn) (hl : ¬ (insn.opc = 0x85 ∧ insn.src = 1))
    (h7 : Isa.isF7 insn = false) (hf : s.frames = []) :
    jitExec env s insn = exec env s insn ∨ exec env s insn = .err .unaligned s := by
  unfold jitExec
  cases hc : isCmpImm insn.opc with
  | false =>
    rw [cmpImmSigned_none s insn hc]
    dsimp only
    cases hx : xaddInsn env s insn with
    | some o => exact xaddInsn_exec env s insn o hx
    | none =>
      left
      dsimp only
      rw [if_neg hl]
      split
      · rename_i h95; rw [exec_exit env s insn h95, jitExit_nil s hf]
      · rfl
  | true =>
    left
    rw [isF7_eq, hc, Bool.true_and] at h7
    rw [cmpImmSigned_exec env s insn hc h7]

theorem env_allowed_nil (env : Env) (h : env.allowed = []) : { env with allowed := [] } = env := by
  obtain ⟨p, hs, al, us⟩ := env
  simp only at h; subst h; rfl

theorem clifExec_eq_exec (env : Env) (s : State) (insn : Insn) (h7 : Isa.isF7 insn = false) :
    clifExec env s insn = exec { env with allowed := [] } s insn ∨
    exec { env with allowed := [] } s insn = .err .unaligned s := by
  unfold clifExec
  cases hc : isCmpImm insn.opc with
  | false =>
    rw [cmpImmSigned_none s insn hc]
    dsimp only
    cases hx : xaddInsn { env with allowed := [] } s insn with
    | some o => exact xaddInsn_exec _ s insn o hx
    | none => exact Or.inl rfl
  | true =>
    left
    rw [isF7_eq, hc, Bool.true_and] at h7
    rw [cmpImmSigned_exec { env with allowed := [] } s insn hc h7]

/-! ### steps and runs -/

theorem exec_congr (env : Env) (a b : State) (insn : Insn) (hab : SameButUsage a b)
    (hl : ¬ (insn.opc = 0x85 ∧ insn.src = 1)) (hf : a.frames = []) :
    OutcomeRel (exec env a insn) (exec env b insn) := by
  rw [hab.eq]; exact exec_withU env a b.usage insn hl hf

theorem step_unfold (env : Env) (s : State) :
    step env s =
      if s.pc * 8 < env.prog.size then
        match getInsn? env.prog s.pc with
        | none => .panic
        | some insn => exec env (stepPre env s) insn
      else .panic := rfl

theorem stepPre_same (env : Env) (s : State) : SameButUsage { s with pc := s.pc + 1 } (stepPre env s) := by
  unfold stepPre; split
  · split <;> exact ⟨rfl, rfl, rfl, rfl, rfl⟩
  · exact ⟨rfl, rfl, rfl, rfl, rfl⟩

theorem pre_same (env : Env) (a b : State) (hab : SameButUsage a b) :
    SameButUsage { a with pc := a.pc + 1 } (stepPre env b) := by
  obtain ⟨h1, h2, h3, h4, h5⟩ := hab
  obtain ⟨g1, g2, g3, g4, g5⟩ := stepPre_same env b
  exact ⟨h1.trans g1, (congrArg (· + 1) h2).trans g2, h3.trans g3, h4.trans g4, h5.trans g5⟩

theorem OutcomeRel.err_left {e : ErrKind} {s : State} {o : Outcome} (h : OutcomeRel (.err e s) o) :
    ∃ s', o = .err e s' := by
  cases o with
  | err e' s' => exact ⟨s', by rw [h.1]⟩
  | _ => exact h.elim

/-- one step of JIT-generated code against one interpreter step, from states equal up to `usage`, at depth 0 -/
theorem jitStep_rel (env : Env) (a b : State) (hl : NoLocalCall env.prog) (h7 : NoF7 env.prog)
    (hab : SameButUsage a b) (hd : b.frames = []) :
    OutcomeRel (jitStep env a) (step env b) ∨ ∃ s', step env b = .err .unaligned s' := by
  have hpre := pre_same env a b hab
  have hfa : a.frames = [] := hab.2.2.1.trans hd
  unfold jitStep
  rw [step_unfold, hab.2.1]
  rw [hab.2.1] at hpre
  by_cases hlt : b.pc * 8 < env.prog.size
  · rw [if_pos hlt, if_pos hlt]
    cases hi : getInsn? env.prog b.pc with
    | none => exact Or.inl ru_panic
    | some insn =>
      dsimp only
      have hc := exec_congr env _ _ insn hpre (hl _ _ hi) hfa
      rcases jitExec_eq_exec env { a with pc := b.pc + 1 } insn (hl _ _ hi) (h7 _ _ hi) hfa with he | he
      · left; rw [he]; exact hc
      · right; rw [he] at hc; exact hc.err_left
  · rw [if_neg hlt, if_neg hlt]; exact Or.inl ru_panic

theorem clifStep_rel (env : Env) (a b : State) (hl : NoLocalCall env.prog) (h7 : NoF7 env.prog)
    (hal : env.allowed = []) (hab : SameButUsage a b) (hd : b.frames = []) :
    OutcomeRel (clifStep env a) (step env b) ∨ ∃ s', step env b = .err .unaligned s' := by
  have hpre := pre_same env a b hab
  have hfa : a.frames = [] := hab.2.2.1.trans hd
  unfold clifStep
  rw [step_unfold, hab.2.1]
  rw [hab.2.1] at hpre
  by_cases hlt : b.pc * 8 < env.prog.size
  · rw [if_pos hlt, if_pos hlt]
    cases hi : getInsn? env.prog b.pc with
    | none => exact Or.inl ru_panic
    | some insn =>
      dsimp only
      have hc := exec_congr env _ _ insn hpre (hl _ _ hi) hfa
      have hce := clifExec_eq_exec env { a with pc := b.pc + 1 } insn (h7 _ _ hi)
      rw [env_allowed_nil env hal] at hce
      rcases hce with he | he
      · left; rw [he]; exact hc
      · right; rw [he] at hc; exact hc.err_left
  · rw [if_neg hlt, if_neg hlt]; exact Or.inl ru_panic

/-- without local calls the call depth stays 0 -/
theorem step_frames_nil (env : Env) (b b' : State) (hl : NoLocalCall env.prog) (hd : b.frames = [])
    (h : step env b = .next b') : b'.frames = [] := by
  obtain ⟨insn, hi, hex⟩ := step_next env b b' h
  rcases exec_next_cases env _ b' insn hex with ⟨h1, h2, _⟩ | ⟨_, hx⟩ | ⟨_, hf, _⟩ | ⟨d, _, hp⟩
  · exact absurd ⟨h1, h2⟩ (hl _ _ hi)
  · obtain ⟨f, rest, _, hfr, _⟩ := exitInsn_next _ _ hx
    rw [stepPre_frames, hd] at hfr; cases hfr
  · rw [hf, stepPre_frames, hd]
  · rw [(hp b' rfl).1, stepPre_frames, hd]

theorem run_unaligned (env : Env) (b s' : State) (n : Nat) (h : step env b = .err .unaligned s') :
    run env b (n + 1) = .err .unaligned s' := by
  rw [run, h]

theorem jitRun_rel (env : Env) (hl : NoLocalCall env.prog) (h7 : NoF7 env.prog) (fuel : Nat) :
    ∀ a b : State, SameButUsage a b → b.frames = [] →
      ResultRel (jitRun env a fuel) (run env b fuel) ∨ ∃ s', run env b fuel = .err .unaligned s' := by
  induction fuel with
  | zero => intro a b hab _; exact Or.inl hab
  | succ n ih =>
    intro a b hab hd
    rcases jitStep_rel env a b hl h7 hab hd with hs | ⟨s', hs'⟩
    · rw [jitRun, run]
      cases hj : jitStep env a <;> cases hi : step env b <;> rw [hj, hi] at hs <;>
        first
          | exact hs.elim
          | exact ih _ _ hs (step_frames_nil env b _ hl hd hi)
          | exact Or.inl hs
    · exact Or.inr ⟨s', run_unaligned env b s' n hs'⟩

theorem clifRun_rel (env : Env) (hl : NoLocalCall env.prog) (h7 : NoF7 env.prog) (hal : env.allowed = [])
    (fuel : Nat) :
    ∀ a b : State, SameButUsage a b → b.frames = [] →
      ResultRel (clifRun env a fuel) (run env b fuel) ∨ ∃ s', run env b fuel = .err .unaligned s' := by
  induction fuel with
  | zero => intro a b hab _; exact Or.inl hab
  | succ n ih =>
    intro a b hab hd
    rcases clifStep_rel env a b hl h7 hal hab hd with hs | ⟨s', hs'⟩
    · rw [clifRun, run]
      cases hj : clifStep env a <;> cases hi : step env b <;> rw [hj, hi] at hs <;>
        first
          | exact hs.elim
          | exact ih _ _ hs (step_frames_nil env b _ hl hd hi)
          | exact Or.inl hs
    · exact Or.inr ⟨s', run_unaligned env b s' n hs'⟩

/-! ### the JIT's local call and return -/

theorem jitCallLocal_next (s s' : State) (imm : BitVec 32) (h : jitCallLocal s imm = .next s') :
    ∃ r6 r7 r8 r9, s.reg[6]? = some r6 ∧ s.reg[7]? = some r7 ∧ s.reg[8]? = some r8 ∧ s.reg[9]? = some r9 ∧
      0 ≤ (s.pc : Int) + imm.toInt ∧
      s' = { s with frames := { ret := s.pc, saved := (r6, r7, r8, r9) } :: s.frames,
                    pc := ((s.pc : Int) + imm.toInt).toNat } := by
  unfold jitCallLocal at h
  obtain ⟨r6, h6, h⟩ := rd_next h
  obtain ⟨r7, h7, h⟩ := rd_next h
  obtain ⟨r8, h8, h⟩ := rd_next h
  obtain ⟨r9, h9, h⟩ := rd_next h
  unfold jumpTo at h
  split at h
  · cases h
  · cases h
    exact ⟨r6, r7, r8, r9, h6, h7, h8, h9, by omega, rfl⟩

theorem jitExit_next (s s' : State) (f : Frame) (rest : List Frame) (hf : s.frames = f :: rest)
    (h : jitExit s = .next s') :
    s' = { s with
      reg := (((s.reg.setIfInBounds 6 f.saved.1).setIfInBounds 7 f.saved.2.1).setIfInBounds 8
                f.saved.2.2.1).setIfInBounds 9 f.saved.2.2.2,
      pc := f.ret, frames := rest } := by
  unfold jitExit at h
  split at h
  · rename_i hnil; rw [hf] at hnil; cases hnil
  · rename_i f' rest' hfr
    rw [hf] at hfr; cases hfr
    cases h; rfl

/-! ### compile-time outcomes -/

theorem jitCompile_ok_iff (env : Env) :
    jitCompile env = .ok ↔
      ∀ e ∈ insns env.prog, e.2.opc = 0x85 →
        (e.2.src = 0 ∧ (env.helpers e.2.imm.toNat).isSome = true) ∨ e.2.src = 1 := by
  unfold jitCompile
  split
  · rename_i h
    refine ⟨fun _ => ?_, fun _ => rfl⟩
    intro e he hop
    have := List.all_eq_true.1 h e he
    obtain ⟨pc, i⟩ := e
    simp only at hop this ⊢
    rw [if_pos hop] at this
    by_cases h0 : i.src = 0
    · rw [if_pos h0] at this; exact Or.inl ⟨h0, this⟩
    · rw [if_neg h0] at this; exact Or.inr (of_decide_eq_true this)
  · rename_i h
    refine ⟨fun hc => (by cases hc), fun hall => absurd ?_ h⟩
    apply List.all_eq_true.2
    intro e he
    obtain ⟨pc, i⟩ := e
    have := hall (pc, i) he
    simp only at this ⊢
    by_cases hop : i.opc = 0x85
    · rw [if_pos hop]
      rcases this hop with ⟨h0, hs⟩ | h1
      · rw [if_pos h0]; exact hs
      · have h0 : ¬ i.src = 0 := by rw [h1]; decide
        rw [if_neg h0]; exact decide_eq_true h1
    · rw [if_neg hop]

theorem clifCompile_ok_iff (env : Env) :
    clifCompile env = .ok ↔
      ∀ e ∈ insns env.prog, e.2.opc = 0x85 → e.2.src = 0 ∧ (env.helpers e.2.imm.toNat).isSome = true := by
  unfold clifCompile
  split
  · rename_i h
    refine ⟨fun _ => ?_, fun _ => rfl⟩
    intro e he hop
    have := List.all_eq_true.1 h e he
    obtain ⟨pc, i⟩ := e
    simp only at hop this ⊢
    rw [if_pos hop] at this
    simpa using this
  · rename_i h
    refine ⟨fun hc => (by cases hc), fun hall => absurd ?_ h⟩
    apply List.all_eq_true.2
    intro e he
    obtain ⟨pc, i⟩ := e
    have := hall (pc, i) he
    simp only at this ⊢
    by_cases hop : i.opc = 0x85
    · rw [if_pos hop]; simpa using this hop
    · rw [if_neg hop]

theorem compile_ne_ok {c : Compile} (hj : c = .ok ∨ c = .err) (h : c ≠ .ok) : c = .err := by
  rcases hj with h' | h'
  · exact absurd h' h
  · exact h'

theorem jitCompile_cases (env : Env) : jitCompile env = .ok ∨ jitCompile env = .err := by
  unfold jitCompile; split <;> simp

theorem clifCompile_cases (env : Env) : clifCompile env = .ok ∨ clifCompile env = .err := by
  unfold clifCompile; split <;> simp

/-! ### Cranelift's bounds check -/

theorem clifBoundsOk_iff (m : Memory) (base : BitVec 64) (off : BitVec 16) (w : Nat) (hw : 1 ≤ w ∧ w ≤ 8)
    (h1 : m.mbuff.base + m.mbuff.bytes.size < 2^64) (h2 : m.mem.base + m.mem.bytes.size < 2^64)
    (h3 : m.stack.base + m.stack.bytes.size < 2^64)
    (hnull : (m.mem.base = 0 → m.mem.bytes.size = 0) ∧ (m.mbuff.base = 0 → m.mbuff.bytes.size = 0)) :
    clifBoundsOk m base off w = true ↔ OwnMemory m [] (base + off.signExtend 64).toNat w := by
  unfold clifBoundsOk OwnMemory Contained
  generalize base + off.signExtend 64 = a
  have := a.isLt
  simp only [Bool.and_eq_true, Bool.or_eq_true, BitVec.ule, decide_eq_true_eq, bne_iff_ne, ne_eq,
    BitVec.toNat_add, BitVec.toNat_ofNat, List.not_mem_nil, false_and, exists_false, or_false]
  simp only [Nat.reducePow] at *
  omega

/-- an access instruction is not one of the six compare-with-immediate jumps -/
theorem access_not_cmpImm (s : State) (insn : Insn) (r) (h : access? s insn = some r) :
    isCmpImm insn.opc = false := by
  have hm := access_some_opc s insn r h
  cases hc : isCmpImm insn.opc with
  | false => rfl
  | true =>
    exfalso
    simp only [isCmpImm, Bool.or_eq_true, decide_eq_true_eq] at hc
    rcases hc with ((((h | h) | h) | h) | h) | h <;> rw [h] at hm <;> revert hm <;> decide

/-- the atomic kind is exactly the two atomic-add opcodes -/
theorem access_kind_atomic (s : State) (insn : Insn) (k : AccessKind) (a : BitVec 64) (w : Nat)
    (h : access? s insn = some (k, a, w)) : k = .atomic ↔ isXaddOpc insn.opc = true := by
  obtain ⟨opc, dst, src, off, imm⟩ := insn
  simp only [access?] at h
  simp only [isXaddOpc, Bool.or_eq_true, decide_eq_true_eq]
  split at h
  · rename_i hc
    cases h
    refine ⟨fun hk => (by cases hk), ?_⟩
    rintro (rfl | rfl) <;> revert hc <;> decide
  split at h
  · rename_i hc
    simp only [Option.map_eq_some_iff, Prod.mk.injEq] at h
    obtain ⟨_, _, rfl, _⟩ := h
    refine ⟨fun hk => (by cases hk), ?_⟩
    rintro (rfl | rfl) <;> revert hc <;> decide
  split at h
  · rename_i hc
    simp only [Option.map_eq_some_iff, Prod.mk.injEq] at h
    obtain ⟨_, _, rfl, _⟩ := h
    refine ⟨fun hk => (by cases hk), ?_⟩
    rintro (rfl | rfl) <;> revert hc <;> decide
  split at h
  · rename_i hc
    simp only [Option.map_eq_some_iff, Prod.mk.injEq] at h
    obtain ⟨_, _, rfl, _⟩ := h
    refine ⟨fun hk => (by cases hk), ?_⟩
    rintro (rfl | rfl) <;> revert hc <;> decide
  split at h
  · rename_i hc
    simp only [Option.map_eq_some_iff, Prod.mk.injEq] at h
    obtain ⟨_, _, rfl, _⟩ := h
    exact ⟨fun _ => hc, fun _ => rfl⟩
  · cases h

/-- loads and stores of the Cranelift model are the interpreter's, with no registered ranges -/
theorem clifExec_of_access (env : Env) (s : State) (insn : Insn) (k : AccessKind) (a : BitVec 64) (w : Nat)
    (h : access? s insn = some (k, a, w)) (hk : k ≠ .atomic) :
    clifExec env s insn = exec { env with allowed := [] } s insn := by
  have hx : isXaddOpc insn.opc = false := by
    cases hc : isXaddOpc insn.opc with
    | false => rfl
    | true => exact absurd ((access_kind_atomic s insn k a w h).2 hc) hk
  unfold clifExec
  rw [cmpImmSigned_none s insn (access_not_cmpImm s insn _ h)]
  dsimp only
  rw [xaddInsn_none _ s insn hx]

/-- an atomic add of the Cranelift model: one `xaddAnyAlign` at the address and width `access?` names (or a
    panic on a source register field ≥ 11) -/
theorem clifExec_of_atomic (env : Env) (s : State) (insn : Insn) (a : BitVec 64) (w : Nat)
    (h : access? s insn = some (.atomic, a, w)) :
    (∃ v, clifExec env s insn = xaddAnyAlign { env with allowed := [] } s a w v) ∨
    (clifExec env s insn = .panic ∧ 11 ≤ insn.src.toNat) := by
  have hx := (access_kind_atomic s insn _ a w h).1 rfl
  obtain ⟨opc, dst, src, off, imm⟩ := insn
  simp only [isXaddOpc, Bool.or_eq_true, decide_eq_true_eq] at hx
  rcases hx with rfl | rfl
  · simp [access?, accessWidth] at h
    obtain ⟨d, hd, rfl, rfl⟩ := h
    show (∃ v, (rd s dst.toNat fun d => rd s src.toNat fun x =>
        xaddAnyAlign { env with allowed := [] } s (d + off.signExtend 64) 4 (zx32 (lo32 x))) = _) ∨
      ((rd s dst.toNat fun d => rd s src.toNat fun x =>
        xaddAnyAlign { env with allowed := [] } s (d + off.signExtend 64) 4 (zx32 (lo32 x))) = .panic ∧ _)
    rw [rd_some _ hd]
    cases hs : s.reg[src.toNat]? with
    | none => exact Or.inr ⟨by simp [rd, hs], reg_none hs⟩
    | some x => exact Or.inl ⟨zx32 (lo32 x), by rw [rd_some _ hs]⟩
  · simp [access?, accessWidth] at h
    obtain ⟨d, hd, rfl, rfl⟩ := h
    show (∃ v, (rd s dst.toNat fun d => rd s src.toNat fun x =>
        xaddAnyAlign { env with allowed := [] } s (d + off.signExtend 64) 8 x) = _) ∨
      ((rd s dst.toNat fun d => rd s src.toNat fun x =>
        xaddAnyAlign { env with allowed := [] } s (d + off.signExtend 64) 8 x) = .panic ∧ _)
    rw [rd_some _ hd]
    cases hs : s.reg[src.toNat]? with
    | none => exact Or.inr ⟨by simp [rd, hs], reg_none hs⟩
    | some x => exact Or.inl ⟨x, by rw [rd_some _ hs]⟩

theorem xaddAnyAlign_refused (env : Env) (s : State) (a : BitVec 64) (w : Nat) (v : BitVec 64)
    (h : checkMem s.mem env.allowed a w = false) : xaddAnyAlign env s a w v = .err .oob s := by
  simp [xaddAnyAlign, h]

theorem xaddAnyAlign_cases (env : Env) (s : State) (a : BitVec 64) (w : Nat) (v : BitVec 64)
    (h : checkMem s.mem env.allowed a w = true) :
    (s.mem.readBytes? a.toNat w = none ∧ xaddAnyAlign env s a w v = .fault) ∨
    ∃ bs, s.mem.readBytes? a.toNat w = some bs ∧
      ((s.mem.writeBytes? a.toNat (leBytes (leValue bs + v.toNat) w) = none ∧ xaddAnyAlign env s a w v = .fault) ∨
       ∃ m, s.mem.writeBytes? a.toNat (leBytes (leValue bs + v.toNat) w) = some m ∧
         xaddAnyAlign env s a w v = .next { s with mem := m }) := by
  unfold xaddAnyAlign
  cases hr : s.mem.readBytes? a.toNat w with
  | none => left; simp [h]
  | some bs =>
    right; refine ⟨bs, rfl, ?_⟩
    cases hw : s.mem.writeBytes? a.toNat (leBytes (leValue bs + v.toNat) w) with
    | none => left; simp [h, hw]
    | some m => right; exact ⟨m, rfl, by simp [h, hw]⟩

theorem xaddAnyAlign_next (env : Env) (s s' : State) (a : BitVec 64) (w : Nat) (v : BitVec 64)
    (h : xaddAnyAlign env s a w v = .next s') :
    ∃ bs m, s.mem.writeBytes? a.toNat (leBytes (leValue bs + v.toNat) w) = some m ∧ s' = { s with mem := m } := by
  unfold xaddAnyAlign at h
  split at h
  · split at h
    · split at h
      · rename_i m hm
        cases h
        exact ⟨_, m, hm, rfl⟩
      · cases h
    · cases h
  · cases h

/-! ### concrete programs for the non-vacuity examples -/
namespace ExEng

/-- `0: mov r0,7  1: jeq r0,7,+1  2: mov r0,0  3: exit` — no local call, no negative compare immediate -/
def prog : Bytes := #[0xb7,0,0,0,7,0,0,0, 0x15,0,1,0,7,0,0,0, 0xb7,0,0,0,0,0,0,0, 0x95,0,0,0,0,0,0,0]
def env : Env := { prog := prog, helpers := fun _ => none, allowed := [], usage := stackUsage prog none }

theorem getInsn?_lt {p : Bytes} {pc : Nat} {i : Insn} (h : getInsn? p pc = some i) : (pc + 1) * 8 ≤ p.size := by
  unfold getInsn? at h
  split at h
  · cases h
  · omega

theorem noLocalCall : NoLocalCall env.prog := by
  intro pc insn h
  have hpc : pc < 4 := by have := getInsn?_lt h; simp [env, prog] at this; omega
  have : pc = 0 ∨ pc = 1 ∨ pc = 2 ∨ pc = 3 := by omega
  rcases this with rfl | rfl | rfl | rfl <;>
    (simp [getInsn?, env, prog] at h; subst h; decide)

theorem noF7 : NoF7 env.prog := by
  intro pc insn h
  have hpc : pc < 4 := by have := getInsn?_lt h; simp [env, prog] at this; omega
  have : pc = 0 ∨ pc = 1 ∨ pc = 2 ∨ pc = 3 := by omega
  rcases this with rfl | rfl | rfl | rfl <;>
    (simp [getInsn?, env, prog] at h; subst h; decide)

/-- `0: mov r1,3  1: mov r2,4  2: call 7  3: exit`, helper 7 = r1 + r2 -/
def helperProg : Bytes := #[0xb7,1,0,0,3,0,0,0, 0xb7,2,0,0,4,0,0,0, 0x85,0,0,0,7,0,0,0, 0x95,0,0,0,0,0,0,0]
def helperEnv : Env :=
  { prog := helperProg, helpers := fun n => if n = 7 then some (fun a b _ _ _ => a + b) else none,
    allowed := [], usage := stackUsage helperProg none }
/-- the same program with no helper registered -/
def noHelperEnv : Env := { helperEnv with helpers := fun _ => none }

/-- the state in which the call at pc 2 of `helperProg` is executed -/
def callState : State :=
  { reg := #v[0, 3, 4, 0, 0, 0, 0, 0, 0, 0, 0x3200], pc := 3, frames := [], usage := Vector.replicate 8 256,
    mem := default, log := [] }

end ExEng

end Rbpf
