/-
  Helper lemmas for C16: the disassembler's renderers as program texts of `AsmLemmas`, the opcode table of
  the disassembler against the mnemonic table and `RtSpec.usesOf`, and the round trip.
-/
import RbpfModel.Model.Asm
import RbpfModel.Model.AsmSpec
import RbpfModel.Model.Disasm
import RbpfModel.Model.RtSpec
import RbpfModel.Model.DriveText
import RbpfModel.Lemmas.AsmLemmas
set_option linter.unusedSimpArgs false
namespace Rbpf
open Asm AsmSpec

-- the disassembler's renderers as operand texts ----------------------------------------------------------

theorem disasm_hexDigit_eq (n : Nat) : Disasm.hexDigit n = hexDigitChar false n := by
  unfold Disasm.hexDigit hexDigitChar; simp

theorem disasm_hexDigits_eq (n : Nat) : Disasm.hexDigits n = hexDigits false n := by
  induction n using Nat.strongRecOn with
  | _ n ih =>
    rw [Disasm.hexDigits, hexDigits]
    split
    · rw [disasm_hexDigit_eq]
    · rw [ih (n / 16) (by omega), disasm_hexDigit_eq]

theorem disasm_decDigits_eq (n : Nat) : Disasm.decDigits n = decDigits n := by
  induction n using Nat.strongRecOn with
  | _ n ih =>
    rw [Disasm.decDigits, decDigits]
    split
    · rfl
    · rw [ih (n / 10) (by omega)]

/-- `{:#x}` of an unsigned value -/
def hexSp (m : Nat) : NumSpelling := { neg := false, plus := false, hex := true, upper := false, zeros := 0, mag := m }
/-- `+{:#x}` / `-{:#x}` of a signed 16-bit offset -/
def offSp (off : BitVec 16) : NumSpelling :=
  { neg := decide (off.toInt < 0), plus := true, hex := true, upper := false, zeros := 0, mag := off.toInt.natAbs }

def regT (r : BitVec 8) : List Char × Operand := ('r' :: decDigits r.toNat, .register r.toNat)
def immT (imm : BitVec 32) : List Char × Operand := ((hexSp imm.toNat).text, .integer imm.toNat)
def imm64T (imm : BitVec 64) : List Char × Operand := ((hexSp imm.toNat).text, .integer imm.toInt)
def offT (off : BitVec 16) : List Char × Operand := ((offSp off).text, .integer off.toInt)
def memT (r : BitVec 8) (off : BitVec 16) : List Char × Operand :=
  ('[' :: 'r' :: (decDigits r.toNat ++ ((offSp off).text ++ [']'])), .memory r.toNat off.toInt)

/-- the text of one disassembled line: mnemonic, one blank if operands follow, operands separated by `, ` -/
def lineText (name : List Char) (ops : List (List Char × Operand)) : List Char :=
  name ++ ((if ops = [] then [] else [' ']) ++ opsText [' '] ops)

theorem fmtHex_toList (m : Nat) : (Disasm.fmtHex m).toList = (hexSp m).text := by
  simp [Disasm.fmtHex, hexSp, NumSpelling.text, NumSpelling.body, disasm_hexDigits_eq, String.toList_append]

theorem reg_toList (r : BitVec 8) : (Disasm.reg r).toList = (regT r).1 := by
  simp [Disasm.reg, Disasm.fmtDec, regT, disasm_decDigits_eq, String.toList_append]

theorem immHex_toList (i : Insn) : (Disasm.immHex i).toList = (immT i.imm).1 := by
  simp [Disasm.immHex, immT, fmtHex_toList]

theorem offSigned_toList (off : BitVec 16) : (Disasm.offSigned off).toList = (offT off).1 := by
  unfold Disasm.offSigned offT offSp
  have h := BitVec.toInt_eq_toNat_cond off
  by_cases hn : off.toInt < 0
  · have : ¬ off.toInt ≥ 0 := by omega
    have hm : (-off.toInt).toNat = off.toInt.natAbs := by omega
    simp [this, hn, hm, String.toList_append, fmtHex_toList, hexSp, NumSpelling.text]
    rfl
  · have h2 : off.toInt ≥ 0 := by omega
    have hm : off.toNat = off.toInt.natAbs := by split at h <;> omega
    simp [hn, h2, hm, String.toList_append, fmtHex_toList, hexSp, NumSpelling.text]
    rfl

-- the opcode table ---------------------------------------------------------------------------------------

inductive RKind
  | aluImm | aluReg | byteswap | ldStImm | ldReg | stReg | ldabs | ldind | jmpImm | jmpReg | unary | plain | ja
  deriving DecidableEq, Repr

def rfun : RKind → String → Insn → String
  | .aluImm => Disasm.aluImm | .aluReg => Disasm.aluReg | .byteswap => Disasm.byteswap
  | .ldStImm => Disasm.ldStImm | .ldReg => Disasm.ldReg | .stReg => Disasm.stReg | .ldabs => Disasm.ldabs
  | .ldind => Disasm.ldind | .jmpImm => Disasm.jmpImm | .jmpReg => Disasm.jmpReg | .unary => Disasm.unary
  | .plain => Disasm.plain | .ja => fun n i => s!"{n} {Disasm.offSigned i.off}"

def classify (opc : Nat) : Option (String × RKind) :=
  match opc with
  | 0x30 => some ("ldabsb", .ldabs) | 0x28 => some ("ldabsh", .ldabs) | 0x20 => some ("ldabsw", .ldabs) | 0x38 => some ("ldabsdw", .ldabs)
  | 0x50 => some ("ldindb", .ldind) | 0x48 => some ("ldindh", .ldind) | 0x40 => some ("ldindw", .ldind) | 0x58 => some ("ldinddw", .ldind)
  | 0x71 => some ("ldxb", .ldReg) | 0x69 => some ("ldxh", .ldReg) | 0x61 => some ("ldxw", .ldReg) | 0x79 => some ("ldxdw", .ldReg)
  | 0x72 => some ("stb", .ldStImm) | 0x6a => some ("sth", .ldStImm) | 0x62 => some ("stw", .ldStImm) | 0x7a => some ("stdw", .ldStImm)
  | 0x73 => some ("stxb", .stReg) | 0x6b => some ("stxh", .stReg) | 0x63 => some ("stxw", .stReg) | 0x7b => some ("stxdw", .stReg)
  | 0xc3 => some ("stxxaddw", .stReg) | 0xdb => some ("stxxadddw", .stReg)
  | 0x04 => some ("add32", .aluImm) | 0x0c => some ("add32", .aluReg) | 0x14 => some ("sub32", .aluImm) | 0x1c => some ("sub32", .aluReg)
  | 0x24 => some ("mul32", .aluImm) | 0x2c => some ("mul32", .aluReg) | 0x34 => some ("div32", .aluImm) | 0x3c => some ("div32", .aluReg)
  | 0x44 => some ("or32", .aluImm) | 0x4c => some ("or32", .aluReg) | 0x54 => some ("and32", .aluImm) | 0x5c => some ("and32", .aluReg)
  | 0x64 => some ("lsh32", .aluImm) | 0x6c => some ("lsh32", .aluReg) | 0x74 => some ("rsh32", .aluImm) | 0x7c => some ("rsh32", .aluReg)
  | 0x84 => some ("neg32", .unary) | 0x94 => some ("mod32", .aluImm) | 0x9c => some ("mod32", .aluReg)
  | 0xa4 => some ("xor32", .aluImm) | 0xac => some ("xor32", .aluReg) | 0xb4 => some ("mov32", .aluImm) | 0xbc => some ("mov32", .aluReg)
  | 0xc4 => some ("arsh32", .aluImm) | 0xcc => some ("arsh32", .aluReg) | 0xd4 => some ("le", .byteswap) | 0xdc => some ("be", .byteswap)
  | 0x07 => some ("add64", .aluImm) | 0x0f => some ("add64", .aluReg) | 0x17 => some ("sub64", .aluImm) | 0x1f => some ("sub64", .aluReg)
  | 0x27 => some ("mul64", .aluImm) | 0x2f => some ("mul64", .aluReg) | 0x37 => some ("div64", .aluImm) | 0x3f => some ("div64", .aluReg)
  | 0x47 => some ("or64", .aluImm) | 0x4f => some ("or64", .aluReg) | 0x57 => some ("and64", .aluImm) | 0x5f => some ("and64", .aluReg)
  | 0x67 => some ("lsh64", .aluImm) | 0x6f => some ("lsh64", .aluReg) | 0x77 => some ("rsh64", .aluImm) | 0x7f => some ("rsh64", .aluReg)
  | 0x87 => some ("neg64", .unary) | 0x97 => some ("mod64", .aluImm) | 0x9f => some ("mod64", .aluReg)
  | 0xa7 => some ("xor64", .aluImm) | 0xaf => some ("xor64", .aluReg) | 0xb7 => some ("mov64", .aluImm) | 0xbf => some ("mov64", .aluReg)
  | 0xc7 => some ("arsh64", .aluImm) | 0xcf => some ("arsh64", .aluReg)
  | 0x05 => some ("ja", .ja)
  | 0x15 => some ("jeq", .jmpImm) | 0x1d => some ("jeq", .jmpReg) | 0x25 => some ("jgt", .jmpImm) | 0x2d => some ("jgt", .jmpReg)
  | 0x35 => some ("jge", .jmpImm) | 0x3d => some ("jge", .jmpReg) | 0xa5 => some ("jlt", .jmpImm) | 0xad => some ("jlt", .jmpReg)
  | 0xb5 => some ("jle", .jmpImm) | 0xbd => some ("jle", .jmpReg) | 0x45 => some ("jset", .jmpImm) | 0x4d => some ("jset", .jmpReg)
  | 0x55 => some ("jne", .jmpImm) | 0x5d => some ("jne", .jmpReg) | 0x65 => some ("jsgt", .jmpImm) | 0x6d => some ("jsgt", .jmpReg)
  | 0x75 => some ("jsge", .jmpImm) | 0x7d => some ("jsge", .jmpReg) | 0xc5 => some ("jslt", .jmpImm) | 0xcd => some ("jslt", .jmpReg)
  | 0xd5 => some ("jsle", .jmpImm) | 0xdd => some ("jsle", .jmpReg)
  | 0x8d => some ("tail_call", .plain) | 0x95 => some ("exit", .plain)
  | 0x16 => some ("jeq32", .jmpImm) | 0x1e => some ("jeq32", .jmpReg) | 0x26 => some ("jgt32", .jmpImm) | 0x2e => some ("jgt32", .jmpReg)
  | 0x36 => some ("jge32", .jmpImm) | 0x3e => some ("jge32", .jmpReg) | 0xa6 => some ("jlt32", .jmpImm) | 0xae => some ("jlt32", .jmpReg)
  | 0xb6 => some ("jle32", .jmpImm) | 0xbe => some ("jle32", .jmpReg) | 0x46 => some ("jset32", .jmpImm) | 0x4e => some ("jset32", .jmpReg)
  | 0x56 => some ("jne32", .jmpImm) | 0x5e => some ("jne32", .jmpReg) | 0x66 => some ("jsgt32", .jmpImm) | 0x6e => some ("jsgt32", .jmpReg)
  | 0x76 => some ("jsge32", .jmpImm) | 0x7e => some ("jsge32", .jmpReg) | 0xc6 => some ("jslt32", .jmpImm) | 0xce => some ("jslt32", .jmpReg)
  | 0xd6 => some ("jsle32", .jmpImm) | 0xde => some ("jsle32", .jmpReg)
  | _ => none

theorem arm_classify {n : Nat} {name : String} {render : String → Insn → String}
    (h : Disasm.arm n = some (name, render)) : ∃ k, classify n = some (name, k) ∧ render = rfun k := by
  unfold Disasm.arm at h
  split at h <;> first | (cases h; exact ⟨_, rfl, rfl⟩) | cases h

set_option maxRecDepth 100000 in
theorem arm_isSome_of_uses : ∀ n < 256, (RtSpec.usesOf (BitVec.ofNat 8 n)).isSome → n ≠ 0x85 → (Disasm.arm n).isSome := by
  decide +kernel

-- one disassembled line: its text and what it denotes --------------------------------------------------------

/-- mnemonic and operand texts of the line the renderer of kind `k` prints for the slot `i` -/
def lineOf (k : RKind) (s : String) (i : Insn) : List Char × List (List Char × Operand) :=
  match k with
  | .aluImm => (s.toList, [regT i.dst, immT i.imm])
  | .aluReg => (s.toList, [regT i.dst, regT i.src])
  | .byteswap => (s.toList ++ (Disasm.fmtDecI32 i.imm).toList, [regT i.dst])
  | .ldStImm => (s.toList, [memT i.dst i.off, immT i.imm])
  | .ldReg => (s.toList, [regT i.dst, memT i.src i.off])
  | .stReg => (s.toList, [memT i.dst i.off, regT i.src])
  | .ldabs => (s.toList, [immT i.imm])
  | .ldind => (s.toList, [regT i.src, immT i.imm])
  | .jmpImm => (s.toList, [regT i.dst, immT i.imm, offT i.off])
  | .jmpReg => (s.toList, [regT i.dst, regT i.src, offT i.off])
  | .unary => (s.toList, [regT i.dst])
  | .plain => (s.toList, [])
  | .ja => (s.toList, [offT i.off])

theorem sp_toList : " ".toList = [' '] := rfl
theorem comma_toList : ", ".toList = [',', ' '] := rfl
theorem rbr_toList : "]".toList = [']'] := rfl
theorem rbrc_toList : "], ".toList = [']', ',', ' '] := rfl
theorem clbr_toList : ", [".toList = [',', ' ', '['] := rfl
theorem splbr_toList : " [".toList = [' ', '['] := rfl

theorem rfun_toList (k : RKind) (s : String) (i : Insn) :
    (rfun k s i).toList = lineText (lineOf k s i).1 (lineOf k s i).2 := by
  cases k <;>
    simp [rfun, lineOf, lineText, opsText, tailText, Disasm.aluImm, Disasm.aluReg, Disasm.byteswap, Disasm.ldStImm,
      Disasm.ldReg, Disasm.stReg, Disasm.ldabs, Disasm.ldind, Disasm.jmpImm, Disasm.jmpReg, Disasm.unary,
      Disasm.plain, toString, String.toList_append, reg_toList, immHex_toList, offSigned_toList,
      sp_toList, comma_toList, rbr_toList, rbrc_toList, clbr_toList, splbr_toList, memT, regT, offT]

theorem regT_ok (r : BitVec 8) : OperandText (regT r).1 (regT r).2 :=
  OperandText.reg r.toNat (by have := r.isLt; omega)

theorem applySign_hex_pos (m : Nat) (h : m < 2 ^ 64) : applySign false m true = some (u64ToI64 m) := by
  simp only [applySign, if_true, Bool.false_eq_true, if_false, wrapI64_eq, u64ToI64, Option.some.injEq]
  simp only [Nat.reducePow, Int.reducePow] at h ⊢
  split <;> split <;> omega

theorem immT_ok (v : BitVec 32) : OperandText (immT v).1 (immT v).2 := by
  have hlt := v.isLt
  have := OperandText.int (hexSp v.toNat) (v.toNat : Int) (by simp only [hexSp]; omega)
    (by rw [show (hexSp v.toNat).neg = false from rfl, show (hexSp v.toNat).hex = true from rfl,
          show (hexSp v.toNat).mag = v.toNat from rfl, applySign_hex_pos _ (by omega)]
        simp only [u64ToI64]; rw [if_pos (by omega)])
  exact this

theorem imm64T_ok (v : BitVec 64) : OperandText (imm64T v).1 (imm64T v).2 := by
  have hlt := v.isLt
  have := OperandText.int (hexSp v.toNat) v.toInt (by simp only [hexSp]; omega)
    (by rw [show (hexSp v.toNat).neg = false from rfl, show (hexSp v.toNat).hex = true from rfl,
          show (hexSp v.toNat).mag = v.toNat from rfl, applySign_hex_pos _ (by omega)]
        simp only [u64ToI64, BitVec.toInt_eq_toNat_cond, Option.some.injEq]
        simp only [Nat.reducePow, Int.reducePow]
        split <;> split <;> omega)
  exact this

theorem off_imm64Ok (off : BitVec 16) : imm64Ok off.toInt := by
  have h1 := BitVec.toInt_lt (x := off)
  have h2 := BitVec.le_toInt off
  unfold imm64Ok
  simp only [Int.reducePow, Nat.reduceSub, Int.reduceNeg] at *
  omega

theorem offSp_eq (off : BitVec 16) : offSp off = spellingOf { hex := true, plus := true } off.toInt := rfl

theorem offT_ok (off : BitVec 16) : OperandText (offT off).1 (offT off).2 := by
  have := OperandText.int (offSp off) off.toInt
    (by rw [offSp_eq]; exact natAbs_lt_of_imm64Ok (off_imm64Ok off))
    (by rw [offSp_eq]; exact applySign_natAbs _ (off_imm64Ok off) _)
  exact this

theorem memT_ok (r : BitVec 8) (off : BitVec 16) : OperandText (memT r off).1 (memT r off).2 := by
  have := OperandText.mem r.toNat (by have := r.isLt; omega) (offSp off) off.toInt
    (by rw [offSp_eq]; exact natAbs_lt_of_imm64Ok (off_imm64Ok off))
    (by rw [offSp_eq]; exact applySign_natAbs _ (off_imm64Ok off) _) (.inr rfl)
  exact this

theorem lineOf_ops_ok (k : RKind) (s : String) (i : Insn) : ∀ p ∈ (lineOf k s i).2, OperandText p.1 p.2 := by
  intro p hp
  have close : ∀ q : List Char × Operand, (∃ r, q = regT r) ∨ (∃ v, q = immT v) ∨ (∃ o, q = offT o) ∨ (∃ r o, q = memT r o) →
      OperandText q.1 q.2 := by
    rintro q (⟨r, rfl⟩ | ⟨v, rfl⟩ | ⟨o, rfl⟩ | ⟨r, o, rfl⟩)
    · exact regT_ok _
    · exact immT_ok _
    · exact offT_ok _
    · exact memT_ok _ _
  apply close
  cases k <;> simp only [lineOf, List.mem_cons, List.not_mem_nil, or_false] at hp <;> grind

theorem denote_of_find {name : List Char} {sh opc} (hf : AsmSpec.find name = some (sh, opc)) (ops : List Operand) :
    denote { name := name, operands := ops } = denoteShape sh opc ops := by
  rw [denote_eq]; simp only [hf]

theorem regOk_toNat (r : BitVec 8) (h : r.toNat < 16) : regOk (r.toNat : Int) := by
  unfold regOk; omega

theorem offOk_toInt (o : BitVec 16) : offOk o.toInt := by
  have h1 := BitVec.toInt_lt (x := o)
  have h2 := BitVec.le_toInt o
  unfold offOk
  simp only [Int.reducePow, Nat.reduceSub, Int.reduceNeg] at *
  omega

theorem immOk_toNat (v : BitVec 32) : immOk (v.toNat : Int) ↔ v.msb = false := by
  rw [BitVec.msb_eq_decide]; unfold immOk
  simp only [Nat.reduceSub, Nat.reducePow, decide_eq_false_iff_not]
  omega

/-- what a good line denotes: the canonical slot, provided the immediate (if the line has one) is non-negative -/
def GoodDenote (i : Insn) (k : RKind) (s : String) : Prop :=
  ∃ c, RtSpec.canonSlot i = some c ∧
    ((i.imm.msb = false → denote { name := (lineOf k s i).1, operands := (lineOf k s i).2.map (·.2) } = some [c]) ∧
     (∀ ys, denote { name := (lineOf k s i).1, operands := (lineOf k s i).2.map (·.2) } = some ys → ys = [c]) ∧
     NameOk (lineOf k s i).1)

theorem nameOk_of_find {name : List Char} {v} (h : AsmSpec.find name = some v) : NameOk name := by
  unfold AsmSpec.find at h
  rw [Option.map_eq_some_iff] at h
  obtain ⟨r, hr, -⟩ := h
  have hp := List.find?_some hr
  simp only [beq_iff_eq] at hp
  exact nameOk_of_table ⟨r, List.mem_of_find?_eq_some hr, hp⟩

theorem goodDenote_of_ite {i k s c} {P : Prop} [Decidable P] {v} (hc : RtSpec.canonSlot i = some c)
    (h : denote { name := (lineOf k s i).1, operands := (lineOf k s i).2.map (·.2) } = if P then some [c] else none)
    (hP : i.imm.msb = false → P) (hn : AsmSpec.find (lineOf k s i).1 = some v) : GoodDenote i k s := by
  refine ⟨c, hc, fun hm => by rw [h, if_pos (hP hm)], fun ys hy => ?_, nameOk_of_find hn⟩
  rw [h] at hy
  split at hy
  · exact (Option.some.inj hy).symm
  · cases hy

theorem good_aluImm (i : Insn) (hd : i.dst.toNat < 16) (s : String)
    (hf : AsmSpec.find s.toList = some (.aluBin, i.opc.toNat)) (hu : RtSpec.usesOf i.opc = some .dstImm)
    (hne : i.opc ≠ 0xd4#8 ∧ i.opc ≠ 0xdc#8) : GoodDenote i .aluImm s := by
  apply goodDenote_of_ite (c := { i with src := 0, off := 0 }) (P := i.imm.msb = false)
  · simp [RtSpec.canonSlot, hu]
    intro h; rcases h with h | h
    · exact absurd h hne.1
    · exact absurd h hne.2
  · simp only [lineOf, regT, immT, List.map, denote_of_find hf, denoteShape, regOk_toNat _ hd, immOk_toNat, true_and]
    congr 2
    simp [mk]
  · exact id
  · exact hf
theorem good_aluReg (i : Insn) (hd : i.dst.toNat < 16) (hs : i.src.toNat < 16) (s : String)
    (hf : AsmSpec.find s.toList = some (.aluBin, i.opc.toNat - 8)) (h8 : 8 ≤ i.opc.toNat)
    (hu : RtSpec.usesOf i.opc = some .dstSrc) : GoodDenote i .aluReg s := by
  apply goodDenote_of_ite (c := { i with off := 0, imm := 0 }) (P := True)
  · simp [RtSpec.canonSlot, hu]
  · simp only [lineOf, regT, List.map, denote_of_find hf, denoteShape, regOk_toNat _ hd, regOk_toNat _ hs, true_and,
      if_true, Nat.sub_add_cancel h8]
    congr 2
    simp [mk]
  · exact fun _ => trivial
  · exact hf

theorem good_unary (i : Insn) (hd : i.dst.toNat < 16) (s : String)
    (hf : AsmSpec.find s.toList = some (.aluUn, i.opc.toNat)) (hu : RtSpec.usesOf i.opc = some .dstOnly) :
    GoodDenote i .unary s := by
  apply goodDenote_of_ite (c := { i with src := 0, off := 0, imm := 0 }) (P := True)
  · simp [RtSpec.canonSlot, hu]
  · simp only [lineOf, regT, List.map, denote_of_find hf, denoteShape, regOk_toNat _ hd, if_true]
    congr 2
    simp [mk]
  · exact fun _ => trivial
  · exact hf

theorem good_ldabs (i : Insn) (s : String)
    (hf : AsmSpec.find s.toList = some (.loadAbs, i.opc.toNat)) (hu : RtSpec.usesOf i.opc = some .imm) :
    GoodDenote i .ldabs s := by
  apply goodDenote_of_ite (c := { i with dst := 0, src := 0, off := 0 }) (P := i.imm.msb = false)
  · simp [RtSpec.canonSlot, hu]
  · simp only [lineOf, immT, List.map, denote_of_find hf, denoteShape, immOk_toNat]
    congr 2
    simp [mk]
  · exact id
  · exact hf

theorem good_ldind (i : Insn) (hs : i.src.toNat < 16) (s : String)
    (hf : AsmSpec.find s.toList = some (.loadInd, i.opc.toNat)) (hu : RtSpec.usesOf i.opc = some .srcImm) :
    GoodDenote i .ldind s := by
  apply goodDenote_of_ite (c := { i with dst := 0, off := 0 }) (P := i.imm.msb = false)
  · simp [RtSpec.canonSlot, hu]
  · simp only [lineOf, regT, immT, List.map, denote_of_find hf, denoteShape, regOk_toNat _ hs, immOk_toNat, true_and]
    congr 2
    simp [mk]
  · exact id
  · exact hf

theorem good_ldReg (i : Insn) (hd : i.dst.toNat < 16) (hs : i.src.toNat < 16) (s : String)
    (hf : AsmSpec.find s.toList = some (.loadReg, i.opc.toNat)) (hu : RtSpec.usesOf i.opc = some .dstSrcOff) :
    GoodDenote i .ldReg s := by
  apply goodDenote_of_ite (c := { i with imm := 0 }) (P := True)
  · simp [RtSpec.canonSlot, hu]
  · simp only [lineOf, regT, memT, List.map, denote_of_find hf, denoteShape, regOk_toNat _ hd, regOk_toNat _ hs,
      offOk_toInt, true_and, if_true]
    congr 2
    simp [mk]
  · exact fun _ => trivial
  · exact hf

theorem good_ldStImm (i : Insn) (hd : i.dst.toNat < 16) (s : String)
    (hf : AsmSpec.find s.toList = some (.storeImm, i.opc.toNat)) (hu : RtSpec.usesOf i.opc = some .dstOffImm) :
    GoodDenote i .ldStImm s := by
  apply goodDenote_of_ite (c := { i with src := 0 }) (P := i.imm.msb = false)
  · simp [RtSpec.canonSlot, hu]
  · simp only [lineOf, immT, memT, List.map, denote_of_find hf, denoteShape, regOk_toNat _ hd,
      offOk_toInt, immOk_toNat, true_and]
    congr 2
    simp [mk]
  · exact id
  · exact hf

theorem good_stReg (i : Insn) (hd : i.dst.toNat < 16) (hs : i.src.toNat < 16) (s : String)
    (hf : AsmSpec.find s.toList = some (.storeReg, i.opc.toNat)) (hu : RtSpec.usesOf i.opc = some .dstSrcOff) :
    GoodDenote i .stReg s := by
  apply goodDenote_of_ite (c := { i with imm := 0 }) (P := True)
  · simp [RtSpec.canonSlot, hu]
  · simp only [lineOf, regT, memT, List.map, denote_of_find hf, denoteShape, regOk_toNat _ hd, regOk_toNat _ hs,
      offOk_toInt, true_and, if_true]
    congr 2
    simp [mk]
  · exact fun _ => trivial
  · exact hf

theorem good_ja (i : Insn) (s : String)
    (hf : AsmSpec.find s.toList = some (.ja, i.opc.toNat)) (hu : RtSpec.usesOf i.opc = some .off) :
    GoodDenote i .ja s := by
  apply goodDenote_of_ite (c := { i with dst := 0, src := 0, imm := 0 }) (P := True)
  · simp [RtSpec.canonSlot, hu]
  · simp only [lineOf, offT, List.map, denote_of_find hf, denoteShape, offOk_toInt, if_true]
    congr 2
    simp [mk]
  · exact fun _ => trivial
  · exact hf

theorem good_jmpImm (i : Insn) (hd : i.dst.toNat < 16) (s : String)
    (hf : AsmSpec.find s.toList = some (.jcc, i.opc.toNat)) (hu : RtSpec.usesOf i.opc = some .dstImmOff) :
    GoodDenote i .jmpImm s := by
  apply goodDenote_of_ite (c := { i with src := 0 }) (P := i.imm.msb = false)
  · simp [RtSpec.canonSlot, hu]
  · simp only [lineOf, regT, immT, offT, List.map, denote_of_find hf, denoteShape, regOk_toNat _ hd,
      offOk_toInt, immOk_toNat, true_and, and_true]
    congr 2
    simp [mk]
  · exact id
  · exact hf

theorem good_jmpReg (i : Insn) (hd : i.dst.toNat < 16) (hs : i.src.toNat < 16) (s : String)
    (hf : AsmSpec.find s.toList = some (.jcc, i.opc.toNat - 8)) (h8 : 8 ≤ i.opc.toNat)
    (hu : RtSpec.usesOf i.opc = some .dstSrcOffJ) : GoodDenote i .jmpReg s := by
  apply goodDenote_of_ite (c := { i with imm := 0 }) (P := True)
  · simp [RtSpec.canonSlot, hu]
  · simp only [lineOf, regT, offT, List.map, denote_of_find hf, denoteShape, regOk_toNat _ hd, regOk_toNat _ hs,
      offOk_toInt, true_and, if_true, Nat.sub_add_cancel h8]
    congr 2
    simp [mk]
  · exact fun _ => trivial
  · exact hf

theorem good_plain (i : Insn) (s : String)
    (hf : AsmSpec.find s.toList = some (.noOp, i.opc.toNat)) (hu : RtSpec.usesOf i.opc = some .none_) :
    GoodDenote i .plain s := by
  apply goodDenote_of_ite (c := { i with dst := 0, src := 0, off := 0, imm := 0 }) (P := True)
  · simp [RtSpec.canonSlot, hu]
  · simp only [lineOf, List.map, denote_of_find hf, denoteShape, if_true]
    congr 2
    simp [mk]
  · exact fun _ => trivial
  · exact hf


theorem good_byteswap_aux (i : Insn) (hd : i.dst.toNat < 16) (s : String) (bits opcN : Nat)
    (himm : i.imm = BitVec.ofNat 32 bits) (hopc : i.opc = BitVec.ofNat 8 opcN)
    (hcan : RtSpec.canonSlot i = some { i with src := 0, off := 0 })
    (hf : AsmSpec.find (s.toList ++ (Disasm.fmtDecI32 (BitVec.ofNat 32 bits)).toList) = some (.endian bits, opcN)) :
    GoodDenote i .byteswap s := by
  have hf' : AsmSpec.find (lineOf .byteswap s i).1 = some (.endian bits, opcN) := by
    simp only [lineOf, himm]; exact hf
  apply goodDenote_of_ite hcan (P := True)
  · simp only [lineOf, himm] at hf' ⊢
    simp only [regT, List.map, denote_of_find hf', denoteShape, regOk_toNat _ hd, if_true]
    congr 2
    simp [mk, hopc, ← himm]
  · exact fun _ => trivial
  · exact hf'

theorem good_byteswap (i : Insn) (hd : i.dst.toNat < 16) (s : String)
    (hsn : (i.opc = 0xd4#8 ∧ s = "le") ∨ (i.opc = 0xdc#8 ∧ s = "be")) (hu : RtSpec.usesOf i.opc = some .dstImm)
    (himm : i.imm = 16#32 ∨ i.imm = 32#32 ∨ i.imm = 64#32) : GoodDenote i .byteswap s := by
  have hcan : RtSpec.canonSlot i = some { i with src := 0, off := 0 } := by
    simp [RtSpec.canonSlot, hu]
    intro _ h1 h2; rcases himm with h | h | h
    · exact absurd h h1
    · exact absurd h h2
    · exact h
  rcases hsn with ⟨ho, hs⟩ | ⟨ho, hs⟩ <;> rcases himm with h | h | h <;> subst hs
  · exact good_byteswap_aux i hd _ 16 0xd4 h ho hcan (by decide +kernel)
  · exact good_byteswap_aux i hd _ 32 0xd4 h ho hcan (by decide +kernel)
  · exact good_byteswap_aux i hd _ 64 0xd4 h ho hcan (by decide +kernel)
  · exact good_byteswap_aux i hd _ 16 0xdc h ho hcan (by decide +kernel)
  · exact good_byteswap_aux i hd _ 32 0xdc h ho hcan (by decide +kernel)
  · exact good_byteswap_aux i hd _ 64 0xdc h ho hcan (by decide +kernel)

/-- opcode-level facts tying the disassembler's arm `(s, k)` for opcode `n` to the mnemonic table and to `usesOf` -/
def compat (n : Nat) (s : String) (k : RKind) : Bool :=
  let u := RtSpec.usesOf (BitVec.ofNat 8 n)
  let f := AsmSpec.find s.toList
  match k with
  | .aluImm => f == some (.aluBin, n) && u == some .dstImm && n != 0xd4 && n != 0xdc
  | .aluReg => f == some (.aluBin, n - 8) && decide (8 ≤ n) && u == some .dstSrc
  | .unary => f == some (.aluUn, n) && u == some .dstOnly
  | .ldabs => f == some (.loadAbs, n) && u == some .imm
  | .ldind => f == some (.loadInd, n) && u == some .srcImm
  | .ldReg => f == some (.loadReg, n) && u == some .dstSrcOff
  | .ldStImm => f == some (.storeImm, n) && u == some .dstOffImm
  | .stReg => (f == some (.storeReg, n) && u == some .dstSrcOff) || (f == none && u == none && nameOkB s.toList)
  | .ja => f == some (.ja, n) && u == some .off
  | .jmpImm => f == some (.jcc, n) && u == some .dstImmOff
  | .jmpReg => f == some (.jcc, n - 8) && decide (8 ≤ n) && u == some .dstSrcOffJ
  | .plain => (f == some (.noOp, n) && u == some .none_) || (s == "tail_call" && u == none)
  | .byteswap => u == some .dstImm && ((n == 0xd4 && s == "le") || (n == 0xdc && s == "be"))

set_option maxRecDepth 100000 in
theorem compat_all : ∀ n < 256, ((classify n).all fun p => compat n p.1 p.2) = true := by
  decide +kernel

theorem compat_of_classify {i : Insn} {s k} (h : classify i.opc.toNat = some (s, k)) : compat i.opc.toNat s k = true := by
  have := compat_all i.opc.toNat i.opc.isLt
  rw [h] at this; exact this

-- one slot of the program ----------------------------------------------------------------------------------

theorem getInsn?_regs {p : Bytes} {pc : Nat} {i : Insn} (h : getInsn? p pc = some i) :
    i.dst.toNat < 16 ∧ i.src.toNat < 16 := by
  unfold getInsn? at h
  split at h
  · cases h
  · injection h with h
    subst h
    simp only [decodeSlot, BitVec.toNat_and, BitVec.toNat_ushiftRight, BitVec.toNat_ofNat, Nat.shiftRight_eq_div_pow]
    constructor
    · have := Nat.and_le_right (n := (p.getD (8 * pc + 1) 0).toNat) (m := 15)
      simp only [Nat.reducePow, Nat.reduceMod] at *; omega
    · have := Nat.and_le_right (n := (p.getD (8 * pc + 1) 0).toNat) (m := 240)
      simp only [Nat.reducePow, Nat.reduceMod] at *; omega

/-- a line the assembler reads back: it spells an instruction of the documented syntax that denotes `cs`
    (provided `nonneg`: the 32-bit immediate it prints, if any, is non-negative), and nothing else -/
def GoodLine (line : List Char) (cs : List Insn) (nonneg : Bool) : Prop :=
  ∃ name ops, line = lineText name ops ∧ NameOk name ∧ (∀ q ∈ ops, OperandText q.1 q.2) ∧
    (nonneg = true → denote { name := name, operands := ops.map (·.2) } = some cs) ∧
    (∀ ys, denote { name := name, operands := ops.map (·.2) } = some ys → ys = cs)

theorem goodLine_of_goodDenote {i k s} (h : GoodDenote i k s) {c} (hc : RtSpec.canonSlot i = some c) :
    GoodLine (rfun k s i).toList [c] (!i.imm.msb) := by
  obtain ⟨c', hc', h1, h2, h3⟩ := h
  rw [hc] at hc'; cases hc'
  exact ⟨_, _, rfun_toList k s i, h3, lineOf_ops_ok k s i, fun hn => h1 (by simpa using hn), h2⟩

theorem usesOf_ofNat_toNat (x : BitVec 8) : RtSpec.usesOf (BitVec.ofNat 8 x.toNat) = RtSpec.usesOf x := by simp

theorem slot_good (i : Insn) (hd : i.dst.toNat < 16) (hs : i.src.toNat < 16) {s k}
    (hc : classify i.opc.toNat = some (s, k)) {c} (hcan : RtSpec.canonSlot i = some c) : GoodDenote i k s := by
  have hcp := compat_of_classify hc
  unfold compat at hcp
  simp only [usesOf_ofNat_toNat] at hcp
  cases k <;> simp only [Bool.and_eq_true, Bool.or_eq_true, beq_iff_eq, bne_iff_ne, decide_eq_true_eq, ne_eq] at hcp
  case aluImm =>
    exact good_aluImm i hd s hcp.1.1.1 hcp.1.1.2 ⟨fun h => hcp.1.2 (by rw [h]; rfl), fun h => hcp.2 (by rw [h]; rfl)⟩
  case aluReg => exact good_aluReg i hd hs s hcp.1.1 hcp.1.2 hcp.2
  case unary => exact good_unary i hd s hcp.1 hcp.2
  case ldabs => exact good_ldabs i s hcp.1 hcp.2
  case ldind => exact good_ldind i hs s hcp.1 hcp.2
  case ldReg => exact good_ldReg i hd hs s hcp.1 hcp.2
  case ldStImm => exact good_ldStImm i hd s hcp.1 hcp.2
  case stReg =>
    rcases hcp with h | h
    · exact good_stReg i hd hs s h.1 h.2
    · simp [RtSpec.canonSlot, h.1.2] at hcan
  case ja => exact good_ja i s hcp.1 hcp.2
  case jmpImm => exact good_jmpImm i hd s hcp.1 hcp.2
  case jmpReg => exact good_jmpReg i hd hs s hcp.1.1 hcp.1.2 hcp.2
  case plain =>
    rcases hcp with h | h
    · exact good_plain i s h.1 h.2
    · simp [RtSpec.canonSlot, h.2] at hcan
  case byteswap =>
    have hsn : (i.opc = 0xd4#8 ∧ s = "le") ∨ (i.opc = 0xdc#8 ∧ s = "be") := by
      rcases hcp.2 with h | h
      · exact .inl ⟨BitVec.eq_of_toNat_eq h.1, h.2⟩
      · exact .inr ⟨BitVec.eq_of_toNat_eq h.1, h.2⟩
    by_cases himm : i.imm = 16#32 ∨ i.imm = 32#32 ∨ i.imm = 64#32
    · exact good_byteswap i hd s hsn hcp.1 himm
    · exfalso
      have ho : i.opc = 0xd4#8 ∨ i.opc = 0xdc#8 := hsn.imp (·.1) (·.1)
      simp [RtSpec.canonSlot, hcp.1, ho, himm] at hcan

theorem callStr_eq (n : String) (i : Insn) : Disasm.callStr n i = rfun .ldabs n i := rfl

theorem good_call (i : Insn) (ho : i.opc = 0x85#8) (s : String) (srcv : Nat)
    (hsrc : i.src = BitVec.ofNat 8 srcv) (h01 : srcv = 0 ∨ srcv = 1)
    (hf : AsmSpec.find s.toList = some (if srcv = 0 then Shape.call else Shape.callx, 0x85)) :
    GoodLine (Disasm.callStr s i).toList [{ i with dst := 0, off := 0 }] (!i.imm.msb) := by
  rw [callStr_eq]
  have hcan : RtSpec.canonSlot i = some { i with dst := 0, off := 0 } := by
    have hu : RtSpec.usesOf i.opc = some .callImm := by rw [ho]; decide
    rcases h01 with h | h <;> subst h <;> simp [RtSpec.canonSlot, hu, hsrc]
  refine goodLine_of_goodDenote ?_ hcan
  apply goodDenote_of_ite hcan (P := i.imm.msb = false) (v := (if srcv = 0 then Shape.call else Shape.callx, 0x85))
  · rcases h01 with h | h <;> subst h
    · simp only [if_true] at hf
      simp only [lineOf, immT, List.map, denote_of_find hf, denoteShape, immOk_toNat]
      congr 2
      simp [mk, ho, hsrc]
    · simp only [Nat.one_ne_zero, if_false] at hf
      simp only [lineOf, immT, List.map, denote_of_find hf, denoteShape, immOk_toNat]
      congr 2
      simp [mk, ho, hsrc]
  · exact id
  · exact hf

theorem lddw_imm_split (a b : BitVec 32) :
    let imm : BitVec 64 := a.setWidth 64 + (b.signExtend 64 <<< (32 : Nat))
    BitVec.ofInt 32 (imm.toInt % 2 ^ 32) = a ∧ BitVec.ofInt 32 (imm.toInt / 2 ^ 32) = b := by
  intro imm
  have ha := a.isLt
  have hb := b.isLt
  have hn : imm.toNat = a.toNat + b.toNat * 2 ^ 32 := by
    simp only [imm, BitVec.toNat_add, BitVec.toNat_setWidth, BitVec.toNat_shiftLeft, BitVec.toNat_signExtend]
    simp only [Nat.shiftLeft_eq]
    split <;> omega
  constructor
  · apply BitVec.eq_of_toNat_eq
    rw [BitVec.toNat_ofInt, BitVec.toInt_eq_toNat_cond, hn]
    split <;> omega
  · apply BitVec.eq_of_toNat_eq
    rw [BitVec.toNat_ofInt, BitVec.toInt_eq_toNat_cond, hn]
    split <;> omega

theorem imm64Ok_toInt (v : BitVec 64) : imm64Ok v.toInt := by
  have h1 := BitVec.toInt_lt (x := v)
  have h2 := BitVec.le_toInt v
  unfold imm64Ok
  simp only [Int.reducePow, Nat.reduceSub, Int.reduceNeg] at *
  omega

theorem lddw_toList (i : Insn) (imm : BitVec 64) :
    (s!"lddw {Disasm.reg i.dst}, {Disasm.fmtHex imm.toNat}").toList = lineText "lddw".toList [regT i.dst, imm64T imm] := by
  simp [lineText, opsText, tailText, toString, String.toList_append, reg_toList, fmtHex_toList,
    comma_toList, regT, imm64T]

theorem rt_good_lddw (i nx : Insn) (hd : i.dst.toNat < 16) (ho : i.opc = 0x18#8) :
    GoodLine (s!"lddw {Disasm.reg i.dst}, {Disasm.fmtHex (i.imm.setWidth 64 + (nx.imm.signExtend 64 <<< (32 : Nat))).toNat}").toList
      [{ i with src := 0, off := 0 }, { opc := 0, dst := 0, src := 0, off := 0, imm := nx.imm }] true := by
  have hf : AsmSpec.find "lddw".toList = some (.loadImm, 0x18) := by decide +kernel
  have hden : denote { name := "lddw".toList, operands := [regT i.dst, imm64T (i.imm.setWidth 64 + (nx.imm.signExtend 64 <<< (32 : Nat)))].map (·.2) } =
      some [{ i with src := 0, off := 0 }, { opc := 0, dst := 0, src := 0, off := 0, imm := nx.imm }] := by
    have hsp := lddw_imm_split i.imm nx.imm
    simp only at hsp
    generalize i.imm.setWidth 64 + (nx.imm.signExtend 64 <<< (32 : Nat)) = imm at hsp ⊢
    have hshape : ∀ (d v : Int), denoteShape .loadImm 0x18 [.register d, .integer v] =
        if regOk d ∧ imm64Ok v then some [mk 0x18 d 0 0 (v % 2 ^ 32), mk 0 0 0 0 (v / 2 ^ 32)] else none := fun _ _ => rfl
    simp only [regT, imm64T, List.map, denote_of_find hf]
    rw [hshape, if_pos ⟨regOk_toNat _ hd, imm64Ok_toInt imm⟩]
    congr 2
    · simp only [mk, hsp.1]; simp [ho]
    · simp only [mk, hsp.2]; simp
  refine ⟨_, _, lddw_toList i _, nameOk_of_find hf, ?_, fun _ => hden, fun ys hy => ?_⟩
  · intro q hq
    simp only [List.mem_cons, List.not_mem_nil, or_false] at hq
    rcases hq with rfl | rfl
    · exact regT_ok _
    · exact imm64T_ok _
  · rw [hden] at hy; exact (Option.some.inj hy).symm

-- the disassembler loop ------------------------------------------------------------------------------------

/-- `Disasm.loop` without the accumulator -/
def entries (p : Bytes) : Nat → Nat → Option (List Disasm.HLInsn)
  | 0, _ => none
  | fuel + 1, pc =>
    if pc * 8 < p.size then
      match Disasm.entryAt p pc with
      | some (e, n) => (entries p fuel (pc + n)).map (e :: ·)
      | none => none
    else some []

theorem loop_eq_entries (p : Bytes) (fuel pc : Nat) (acc : List Disasm.HLInsn) :
    Disasm.loop p fuel pc acc = (entries p fuel pc).map (acc.reverse ++ ·) := by
  induction fuel generalizing pc acc with
  | zero => rfl
  | succ f ih =>
    unfold Disasm.loop entries
    split
    · cases Disasm.entryAt p pc with
      | none => rfl
      | some v =>
        obtain ⟨e, n⟩ := v
        simp only [ih]
        cases entries p f (pc + n) <;> simp
    · simp

theorem canonSlot_uses {i : Insn} {c} (h : RtSpec.canonSlot i = some c) : (RtSpec.usesOf i.opc).isSome = true := by
  unfold RtSpec.canonSlot at h
  split at h
  · cases h
  · rename_i u hu; rw [hu]; rfl

theorem entryAt_lddw {p : Bytes} {pc : Nat} {i nx : Insn} (hi : getInsn? p pc = some i) (ho : i.opc = 0x18)
    (hn : getInsn? p (pc + 1) = some nx) :
    ∃ e, Disasm.entryAt p pc = some (e, 2) ∧
      GoodLine e.desc.toList [{ i with src := 0, off := 0 }, { opc := 0, dst := 0, src := 0, off := 0, imm := nx.imm }] true := by
  refine ⟨_, by simp only [Disasm.entryAt, hi, ho, hn]; rfl, ?_⟩
  exact rt_good_lddw i nx (getInsn?_regs hi).1 ho

theorem entryAt_good {p : Bytes} {pc : Nat} {i : Insn} (hi : getInsn? p pc = some i) (ho : i.opc ≠ 0x18)
    {c} (hc : RtSpec.canonSlot i = some c) :
    ∃ e, Disasm.entryAt p pc = some (e, 1) ∧ GoodLine e.desc.toList [c] (!i.imm.msb) := by
  obtain ⟨hd, hs⟩ := getInsn?_regs hi
  by_cases h85 : i.opc = 0x85
  · have hu : RtSpec.usesOf i.opc = some .callImm := by rw [h85]; decide
    have hsrc : i.src = 0#8 ∨ i.src = 1#8 := by
      by_cases h : i.src = 0#8 ∨ i.src = 1#8
      · exact h
      · simp [RtSpec.canonSlot, hu, h] at hc
    have hc' : c = { i with dst := 0, off := 0 } := by
      simp [RtSpec.canonSlot, hu, hsrc] at hc; exact hc.symm
    subst hc'
    rcases hsrc with h | h
    · have h' : i.src = 0 := h
      refine ⟨_, by simp only [Disasm.entryAt, hi, ho, h85, h', if_true, if_false]; rfl, ?_⟩
      exact good_call i h85 "call" 0 h (.inl rfl) (by decide +kernel)
    · have h' : i.src = 1 := h
      have h0 : i.src ≠ 0 := by rw [h]; decide
      refine ⟨_, by simp only [Disasm.entryAt, hi, ho, h85, h', h0, if_true, if_false]; rfl, ?_⟩
      exact good_call i h85 "callx" 1 h (.inr rfl) (by decide +kernel)
  · have hne : i.opc.toNat ≠ 0x85 := fun h => h85 (BitVec.eq_of_toNat_eq h)
    have hsome := arm_isSome_of_uses i.opc.toNat i.opc.isLt (by rw [usesOf_ofNat_toNat]; exact canonSlot_uses hc) hne
    cases harm : Disasm.arm i.opc.toNat with
    | none => rw [harm] at hsome; cases hsome
    | some v =>
      obtain ⟨name, render⟩ := v
      obtain ⟨k, hk, hr⟩ := arm_classify harm
      subst hr
      refine ⟨_, by simp only [Disasm.entryAt, hi, ho, h85, harm, if_false]; rfl, ?_⟩
      exact goodLine_of_goodDenote (slot_good i hd hs hk hc) hc

/-- the instruction a line `(name, operand texts)` spells -/
def instrOf (it : List Char × List (List Char × Operand)) : Instruction := { name := it.1, operands := it.2.map (·.2) }

/-- lines the assembler reads back as instructions denoting `cs` (provided `nonneg`), and nothing else -/
def GoodLines (lines : List (List Char)) (cs : List Insn) (nonneg : Bool) : Prop :=
  ∃ items : List (List Char × List (List Char × Operand)),
    lines = items.map (fun it => lineText it.1 it.2) ∧
    (∀ it ∈ items, NameOk it.1 ∧ ∀ q ∈ it.2, OperandText q.1 q.2) ∧
    (nonneg = true → denoteAll (items.map instrOf) = some cs) ∧
    (∀ ys, denoteAll (items.map instrOf) = some ys → ys = cs)

theorem goodLines_nil : GoodLines [] [] true :=
  ⟨[], rfl, by simp, fun _ => rfl, fun ys h => by simpa [denoteAll] using h.symm⟩

theorem goodLines_cons {l ls cs1 cs2 b1 b2} (h1 : GoodLine l cs1 b1) (h2 : GoodLines ls cs2 b2) :
    GoodLines (l :: ls) (cs1 ++ cs2) (b1 && b2) := by
  obtain ⟨name, ops, hl, hn, hops, hd1, hd2⟩ := h1
  obtain ⟨items, hls, hit, he1, he2⟩ := h2
  refine ⟨(name, ops) :: items, by simp [hl, hls], ?_, ?_, ?_⟩
  · intro it hi
    rw [List.mem_cons] at hi
    rcases hi with rfl | hi
    · exact ⟨hn, hops⟩
    · exact hit it hi
  · intro hb
    rw [Bool.and_eq_true] at hb
    simp only [List.map_cons, denoteAll, instrOf]
    have e1 := hd1 hb.1
    have e2 := he1 hb.2
    rw [e1, e2]
  · intro ys hy
    simp only [List.map_cons, denoteAll] at hy
    cases ha : denote (instrOf (name, ops)) with
    | none => simp [ha] at hy
    | some a =>
      cases hb : denoteAll (items.map instrOf) with
      | none => simp [ha, hb] at hy
      | some b =>
        simp only [ha, hb, Option.some.injEq] at hy
        rw [← hy, hd2 a ha, he2 b hb]

theorem canon_entries (p : Bytes) (fuel pc : Nat) {cs : List Insn} (h : RtSpec.canonFrom p fuel pc = some cs) :
    ∃ es, entries p fuel pc = some es ∧ GoodLines (es.map (·.desc.toList)) cs (RtSpec.nonNegFrom p fuel pc) := by
  induction fuel generalizing pc cs with
  | zero => simp [RtSpec.canonFrom] at h
  | succ f ih =>
    unfold RtSpec.canonFrom at h
    unfold entries RtSpec.nonNegFrom
    split at h
    · rename_i hlt
      simp only [hlt, if_true]
      cases hi : getInsn? p pc with
      | none => simp [hi] at h
      | some i =>
        simp only [hi] at h ⊢
        by_cases ho : i.opc = 0x18
        · simp only [ho, if_true] at h ⊢
          cases hn : getInsn? p (pc + 1) with
          | none => simp [hn] at h
          | some nx =>
            simp only [hn, Option.map_eq_some_iff] at h
            obtain ⟨rest, hrest, rfl⟩ := h
            obtain ⟨es, hes, hg⟩ := ih (pc + 2) hrest
            obtain ⟨e, he, hgl⟩ := entryAt_lddw hi ho hn
            refine ⟨e :: es, by simp [he, hes], ?_⟩
            have := goodLines_cons hgl hg
            simpa [ho] using this
        · simp only [ho, if_false] at h ⊢
          cases hc : RtSpec.canonSlot i with
          | none => simp [hc] at h
          | some c =>
            simp only [hc, Option.map_eq_some_iff] at h
            obtain ⟨rest, hrest, rfl⟩ := h
            obtain ⟨es, hes, hg⟩ := ih (pc + 1) hrest
            obtain ⟨e, he, hgl⟩ := entryAt_good hi ho hc
            refine ⟨e :: es, by simp [he, hes], ?_⟩
            have := goodLines_cons hgl hg
            simpa using this
    · rename_i hlt
      cases h
      simp only [hlt, if_false]
      exact ⟨[], rfl, goodLines_nil⟩

-- the text of a whole program --------------------------------------------------------------------------------

theorem applySign_range {neg : Bool} {m : Nat} {hex : Bool} {v : Int} (h : applySign neg m hex = some v) : imm64Ok v := by
  unfold applySign at h
  unfold imm64Ok
  split at h
  · simp only [wrapI64_eq, u64ToI64, Option.some.injEq] at h
    simp only [Nat.reducePow, Int.reducePow, Int.reduceNeg] at h ⊢
    subst h
    split <;> omega
  · split at h
    · simp only [Option.some.injEq] at h; simp only [Nat.reducePow, Int.reducePow, Int.reduceNeg] at *; omega
    · split at h
      · simp only [Option.some.injEq] at h; simp only [Nat.reducePow, Int.reducePow, Int.reduceNeg] at *; omega
      · cases h

theorem operandI64_of_text {t o} (h : OperandText t o) : OperandI64 o := by
  cases h with
  | reg r h => exact ⟨by omega, by simp only [Nat.reducePow, Int.reducePow] at *; omega⟩
  | int sp v hm hv => exact applySign_range hv
  | mem0 r h => exact ⟨⟨by omega, by simp only [Nat.reducePow, Int.reducePow] at *; omega⟩, by decide⟩
  | mem r h sp off hm hv hs =>
    exact ⟨⟨by omega, by simp only [Nat.reducePow, Int.reducePow] at *; omega⟩, applySign_range hv⟩

def mkItem (it : List Char × List (List Char × Operand)) (sep : List Char) : InsnText :=
  { name := it.1, afterName := if it.2 = [] then [] else [' '], afterComma := [' '], ops := it.2, sep := sep }

/-- the lines of a disassembly as instruction texts: a newline after every line but the last -/
def sepItems : List (List Char × List (List Char × Operand)) → List InsnText
  | [] => []
  | [it] => [mkItem it []]
  | it :: it2 :: rest => mkItem it ['\n'] :: sepItems (it2 :: rest)

theorem mkItem_text (it) (sep : List Char) : (mkItem it sep).text = lineText it.1 it.2 ++ sep := by
  simp [mkItem, InsnText.text, lineText]

theorem progText_sepItems (items : List (List Char × List (List Char × Operand))) :
    progText (sepItems items) = ['\n'].intercalate (items.map (fun it => lineText it.1 it.2)) := by
  induction items with
  | nil => rfl
  | cons it rest ih =>
    cases rest with
    | nil => simp [sepItems, progText, mkItem_text, List.intercalate]
    | cons it2 rest =>
      rw [sepItems, progText, ih, mkItem_text]
      simp [List.intercalate]

theorem sepItems_instr (items : List (List Char × List (List Char × Operand))) :
    (sepItems items).map (·.instr) = items.map instrOf := by
  induction items with
  | nil => rfl
  | cons it rest ih =>
    cases rest with
    | nil => rfl
    | cons it2 rest => rw [sepItems, List.map_cons, ih]; rfl

theorem mkItem_ok {cc} (hcc : SaneClasses cc) {it : List Char × List (List Char × Operand)} (hn : NameOk it.1)
    (hops : ∀ q ∈ it.2, OperandText q.1 q.2) {sep : List Char} (hsep : ∀ c ∈ sep, cc.isWs c = true) :
    InsnTextOk cc (mkItem it sep) := by
  refine ⟨hn, ?_, ?_, hsep, ?_, hops⟩
  · intro c hc; simp only [mkItem] at hc; split at hc
    · simp at hc
    · simp at hc; subst hc; exact hcc.sp
  · intro c hc; simp [mkItem] at hc; subst hc; exact hcc.sp
  · intro h; simp [mkItem] at h ⊢; exact h

theorem progOk_sepItems {cc} (hcc : SaneClasses cc) (items : List (List Char × List (List Char × Operand)))
    (h : ∀ it ∈ items, NameOk it.1 ∧ ∀ q ∈ it.2, OperandText q.1 q.2) : ProgOk cc (sepItems items) [] := by
  induction items with
  | nil => trivial
  | cons it rest ih =>
    have hit := h it (by simp)
    cases rest with
    | nil => exact ⟨mkItem_ok hcc hit.1 hit.2 (by simp), .inr ⟨rfl, rfl⟩, trivial⟩
    | cons it2 rest =>
      refine ⟨mkItem_ok hcc hit.1 hit.2 (by intro c hc; simp at hc; subst hc; exact hcc.nl), .inl (by simp [mkItem]), ?_⟩
      exact ih (fun it' h' => h it' (List.mem_cons_of_mem _ h'))

/-- assembling good lines -/
theorem assemble_goodLines {cc} (hcc : SaneClasses cc) {lines cs nonneg} (h : GoodLines lines cs nonneg) :
    (nonneg = true → assemble cc (['\n'].intercalate lines) = .ok (cs.flatMap Insn.toArray)) ∧
    (∀ b, assemble cc (['\n'].intercalate lines) = .ok b → b = cs.flatMap Insn.toArray) := by
  obtain ⟨items, hl, hit, h1, h2⟩ := h
  have hparse : parse cc (['\n'].intercalate lines) = .ok (items.map instrOf) := by
    have := parse_progText hcc [] (by simp) (sepItems items) (progOk_sepItems hcc items hit)
    rw [List.nil_append, progText_sepItems, sepItems_instr, ← hl] at this
    exact this
  have hops : ∀ i ∈ items.map instrOf, ∀ o ∈ i.operands, OperandI64 o := by
    intro i hi o ho
    rw [List.mem_map] at hi
    obtain ⟨it, hit', rfl⟩ := hi
    simp only [instrOf, List.mem_map] at ho
    obtain ⟨q, hq, rfl⟩ := ho
    exact operandI64_of_text ((hit it hit').2 q hq)
  have hasm := assembleInternal_eq _ hops
  unfold assemble
  rw [hparse]
  simp only [hasm]
  constructor
  · intro hn; rw [h1 hn]
  · intro b hb
    cases hd : denoteAll (items.map instrOf) with
    | none => rw [hd] at hb; cases hb
    | some ys =>
      rw [hd] at hb
      simp only [Outcome.ok.injEq] at hb
      rw [← hb, h2 ys hd]

theorem toInsnVec_eq (p : Bytes) :
    Disasm.toInsnVec p = if p.size % 8 ≠ 0 then none else entries p (p.size / 8 + 1) 0 := by
  unfold Disasm.toInsnVec
  split
  · rfl
  · split
    · rename_i h0; simp [h0, entries]
    · rw [loop_eq_entries]; cases entries p (p.size / 8 + 1) 0 <;> simp

theorem roundTrip_eq (cc : CharClass) (p : Bytes) :
    RtSpec.roundTrip cc p = (Disasm.toInsnVec p).map
      (fun es => assemble cc (['\n'].intercalate (es.map (·.desc.toList)))) := by
  unfold RtSpec.roundTrip
  cases Disasm.toInsnVec p with
  | none => rfl
  | some es =>
    simp only [Option.map_some, String.toList_intercalate, List.map_map]
    rfl

theorem roundtrip_of_canonical (cc : CharClass) (hcc : SaneClasses cc) (p : Bytes) (h : RtSpec.Canonical p) :
    RtSpec.roundTrip cc p = some (.ok p.toList) := by
  obtain ⟨⟨xs, hcan, henc⟩, hnn⟩ := h
  unfold RtSpec.canon at hcan
  split at hcan
  · cases hcan
  · rename_i h8
    obtain ⟨es, hes, hg⟩ := canon_entries p _ 0 hcan
    rw [roundTrip_eq, toInsnVec_eq, if_neg h8, hes, Option.map_some, (assemble_goodLines hcc hg).1 hnn]
    rw [← henc]; rfl

-- lines the assembler rejects ----------------------------------------------------------------------------------

theorem parseLoop_ok_acc {cc} (fuel : Nat) (s : List Char) (acc r : List Instruction)
    (h : parseLoop cc fuel s acc = .ok r) : ∃ more, r = acc.reverse ++ more := by
  induction fuel generalizing s acc with
  | zero => simp [parseLoop] at h
  | succ f ih =>
    unfold parseLoop at h
    split at h
    · obtain ⟨more, hm⟩ := ih _ _ h
      rename_i j _ _
      exact ⟨j :: more, by simp [hm]⟩
    · split at h
      · simp only [Outcome.ok.injEq] at h; exact ⟨[], by simp [h]⟩
      · cases h
    · cases h
    · cases h

theorem instruction_name {cc} {s : List Char} {j : Instruction} {rest : List Char}
    (h : instruction cc s = .ok j rest) : j.name = s.takeWhile cc.isAlnum := by
  unfold instruction at h
  cases hid : ident cc s with
  | ok name r =>
    rw [hid] at h
    simp only at h
    have hn : name = s.takeWhile cc.isAlnum := by
      unfold ident span1 at hid
      rw [span_eq] at hid
      cases htw : s.takeWhile cc.isAlnum with
      | nil => simp [htw] at hid
      | cons a t => simp [htw] at hid; exact hid.1.symm
    split at h
    · simp only [PR.ok.injEq] at h; rw [← h.1]; exact hn
    · cases h
    · cases h
  | errEmpty => rw [hid] at h; cases h
  | errCommit => rw [hid] at h; cases h
  | panic => rw [hid] at h; cases h

theorem assembleInternal_ok_lookup {is : List Instruction} {xs : List Insn} (h : assembleInternal is = .ok xs) :
    ∀ j ∈ is, lookup j.name ≠ none := by
  induction is generalizing xs with
  | nil => intro j hj; simp at hj
  | cons i rest ih =>
    rw [assembleInternal_cons] at h
    intro j hj
    rw [List.mem_cons] at hj
    cases hf : AsmSpec.find i.name with
    | none => rw [hf] at h; cases h
    | some w =>
      obtain ⟨sh, opc⟩ := w
      rcases hj with rfl | hj
      · rw [lookup_eq_find, hf]; simp
      · rw [hf] at h
        simp only at h
        cases hr : assembleInternal rest with
        | ok zs => exact ih hr j hj
        | err => rw [hr] at h; cases ho : asmOne sh opc i.operands <;> rw [ho] at h <;> cases h
        | panic => rw [hr] at h; cases ho : asmOne sh opc i.operands <;> rw [ho] at h <;> cases h

/-- a line on which the assembler fails whatever follows: it begins like a mnemonic, and the word the parser
    reads at its start is no mnemonic -/
def BadLine (cc : CharClass) (line : List Char) : Prop :=
  NameStart line ∧ ∀ tail, End cc tail → lookup ((line ++ tail).takeWhile cc.isAlnum) = none

theorem parseLoop_badLine {cc} {line : List Char} (hb : BadLine cc line) {tail : List Char}
    (ht : End cc tail) (fuel : Nat) (acc r : List Instruction)
    (h : parseLoop cc fuel (line ++ tail) acc = .ok r) : ∃ j ∈ r, lookup j.name = none := by
  cases fuel with
  | zero => simp [parseLoop] at h
  | succ f =>
    unfold parseLoop at h
    split at h
    · rename_i j rest hj
      obtain ⟨more, hm⟩ := parseLoop_ok_acc _ _ _ _ h
      refine ⟨j, by rw [hm]; simp, ?_⟩
      rw [instruction_name hj]
      exact hb.2 tail ht
    · obtain ⟨c, t, hl, -, -⟩ := hb.1
      rw [hl] at h; simp at h
    · cases h
    · cases h

theorem takeWhile_word {cc : CharClass} {w rest : List Char} (hw : ∀ c ∈ w, cc.isAlnum c = true)
    (hr : NoHead cc.isAlnum rest) : (w ++ rest).takeWhile cc.isAlnum = w := by
  rw [List.takeWhile_append_of_pos hw, takeWhile_noHead hr, List.append_nil]

theorem lookup_none_of_prefix (pre : List Char)
    (h : ∀ e ∈ Asm.instructionMap, pre.isPrefixOf e.1.toList = false) (w : List Char) : lookup (pre ++ w) = none := by
  unfold lookup
  rw [Option.map_eq_none_iff, List.find?_eq_none]
  intro e he heq
  simp only [beq_iff_eq] at heq
  have := h e he
  rw [heq] at this
  have h2 : pre.isPrefixOf (pre ++ w) = true := List.isPrefixOf_iff_prefix.mpr (List.prefix_append _ _)
  rw [h2] at this; cases this

set_option maxRecDepth 100000 in
theorem map_no_tail : ∀ e ∈ Asm.instructionMap, ['t', 'a', 'i', 'l'].isPrefixOf e.1.toList = false := by decide +kernel

/-- the `le`/`be` mnemonics are exactly those with width 16, 32, 64 -/
def widths : List (List Char) := [['1', '6'], ['3', '2'], ['6', '4']]

set_option maxRecDepth 100000 in
theorem map_endian : ∀ e ∈ Asm.instructionMap, ∀ pre ∈ [['l', 'e'], ['b', 'e']],
    pre.isPrefixOf e.1.toList = true → widths.contains (e.1.toList.drop 2) = true := by decide +kernel

theorem lookup_none_endian {pre : List Char} (hp : pre = ['l', 'e'] ∨ pre = ['b', 'e']) {w : List Char}
    (hw : w ∉ widths) : lookup (pre ++ w) = none := by
  unfold lookup
  rw [Option.map_eq_none_iff, List.find?_eq_none]
  intro e he heq
  simp only [beq_iff_eq] at heq
  have h2 : pre.isPrefixOf (pre ++ w) = true := List.isPrefixOf_iff_prefix.mpr (List.prefix_append _ _)
  have := map_endian e he pre (by rcases hp with rfl | rfl <;> simp) (by rw [heq]; exact h2)
  rw [heq] at this
  have hd : (pre ++ w).drop 2 = w := by rcases hp with rfl | rfl <;> rfl
  rw [hd] at this
  exact hw (by simpa using this)

theorem lineText_nameStart {name : List Char} (h : NameStart name) (ops) : NameStart (lineText name ops) :=
  h.append _

theorem end_lineRest {cc} (hcc : SaneClasses cc) (ops : List (List Char × Operand)) {tail : List Char} (ht : End cc tail) :
    End cc (((if ops = [] then [] else [' ']) ++ opsText [' '] ops) ++ tail) := by
  by_cases h : ops = []
  · simp [h, opsText]; exact ht
  · simp only [h, if_false]
    intro c hc; simp at hc; subst hc; exact hcc.sp

theorem badLine_of_word {cc} (hcc : SaneClasses cc) {name : List Char} (ops : List (List Char × Operand))
    (hs : NameStart name) (hw : ∀ c ∈ name, cc.isAlnum c = true) (hl : lookup name = none) :
    BadLine cc (lineText name ops) := by
  refine ⟨lineText_nameStart hs ops, fun tail ht => ?_⟩
  unfold lineText
  rw [List.append_assoc, takeWhile_word hw ((end_lineRest hcc ops ht).noAlnum hcc)]
  exact hl

theorem nameOk_alnum {cc} (hcc : SaneClasses cc) {name : List Char} (h : NameOk name) : ∀ c ∈ name, cc.isAlnum c = true := by
  intro c hc
  rcases h.chars c hc with h | h
  · exact (hcc.letter c h).2
  · exact (hcc.digit c h).1

theorem decDigits_widths {m : Nat} (h : decDigits m ∈ widths) : m = 16 ∨ m = 32 ∨ m = 64 := by
  have hv := decValue_decDigits m
  simp only [widths, List.mem_cons, List.not_mem_nil, or_false] at h
  rcases h with h | h | h <;> rw [h] at hv
  · left; rw [← hv]; decide
  · right; left; rw [← hv]; decide
  · right; right; rw [← hv]; decide

theorem badLine_byteswap {cc} (hcc : SaneClasses cc) (i : Insn) (s : String) (hs : s = "le" ∨ s = "be")
    (himm : ¬ (i.imm = 16#32 ∨ i.imm = 32#32 ∨ i.imm = 64#32)) : BadLine cc (rfun .byteswap s i).toList := by
  have hp : s.toList = ['l', 'e'] ∨ s.toList = ['b', 'e'] := by rcases hs with rfl | rfl <;> simp
  have hs2 : ∀ c ∈ s.toList, cc.isAlnum c = true := by
    intro c hc
    have : isLetter c = true := by
      rcases hp with h | h <;> rw [h] at hc <;> simp at hc <;> rcases hc with rfl | rfl <;> decide
    exact (hcc.letter c this).2
  have hst : ∀ more, NameStart (s.toList ++ more) := by
    intro more
    rcases hp with h | h <;> rw [h]
    · exact ⟨'l', _, rfl, by decide, fun h => by cases h⟩
    · exact ⟨'b', _, rfl, by decide, fun h => by cases h⟩
  rw [rfun_toList]
  simp only [lineOf, Disasm.fmtDecI32]
  by_cases hneg : i.imm.toInt < 0
  · -- "le-5 r1": the word read is "le" followed by nothing or by "-…"
    simp only [hneg, if_true, String.toList_append]
    refine ⟨by unfold lineText; rw [List.append_assoc]; exact hst _, fun tail ht => ?_⟩
    have hm : "-".toList = ['-'] := rfl
    unfold lineText
    rw [hm]
    simp only [List.append_assoc, List.cons_append, List.nil_append]
    rw [List.takeWhile_append_of_pos hs2]
    apply lookup_none_endian hp
    rw [List.takeWhile_cons]
    split <;> simp [widths]
  · have hm : i.imm.toInt.toNat = i.imm.toNat := by
      have := BitVec.toInt_eq_toNat_cond i.imm
      split at this <;> omega
    simp only [hneg, if_false, Disasm.fmtDec, String.toList_ofList, disasm_decDigits_eq, hm]
    apply badLine_of_word hcc _ (hst _)
    · intro c hc
      rw [List.mem_append] at hc
      rcases hc with hc | hc
      · exact hs2 c hc
      · exact (hcc.digit c (decDigits_isDigit _ c hc)).1
    · apply lookup_none_endian hp
      intro hw
      apply himm
      rcases decDigits_widths hw with h | h | h
      · exact .inl (BitVec.eq_of_toNat_eq h)
      · exact .inr (.inl (BitVec.eq_of_toNat_eq h))
      · exact .inr (.inr (BitVec.eq_of_toNat_eq h))

theorem badLine_tailCall {cc} (hcc : SaneClasses cc) (i : Insn) : BadLine cc (rfun .plain "tail_call" i).toList := by
  have hl : ∀ c, isLetter c = true → cc.isAlnum c = true := fun c h => (hcc.letter c h).2
  have ht : "tail_call".toList = ['t', 'a', 'i', 'l', '_', 'c', 'a', 'l', 'l'] := rfl
  rw [rfun_toList]
  simp only [lineOf, lineText, opsText, if_true, List.append_nil, ht]
  refine ⟨⟨'t', _, rfl, by decide, fun h => by cases h⟩, fun tail _ => ?_⟩
  simp only [List.cons_append, List.takeWhile_cons, hl 't' (by decide), hl 'a' (by decide), hl 'i' (by decide),
    hl 'l' (by decide), if_true]
  exact lookup_none_of_prefix ['t', 'a', 'i', 'l'] map_no_tail _

theorem entryAt_bad {cc} (hcc : SaneClasses cc) {p : Bytes} {pc : Nat} {i : Insn} (hi : getInsn? p pc = some i)
    (ho : i.opc ≠ 0x18) (hc : RtSpec.canonSlot i = none) {e : Disasm.HLInsn} {n : Nat}
    (he : Disasm.entryAt p pc = some (e, n)) : BadLine cc e.desc.toList := by
  obtain ⟨hd, hs⟩ := getInsn?_regs hi
  by_cases h85 : i.opc = 0x85
  · exfalso
    have hu : RtSpec.usesOf i.opc = some .callImm := by rw [h85]; decide
    by_cases h : i.src = 0#8 ∨ i.src = 1#8
    · simp [RtSpec.canonSlot, hu, h] at hc
    · have h0 : ¬ i.src = 0 := fun h' => h (.inl h')
      have h1 : ¬ i.src = 1 := fun h' => h (.inr h')
      simp only [Disasm.entryAt, hi] at he
      rw [if_neg ho, if_pos h85, if_neg h0, if_neg h1] at he
      cases he
  · cases harm : Disasm.arm i.opc.toNat with
    | none =>
      simp only [Disasm.entryAt, hi] at he
      rw [if_neg ho, if_neg h85, harm] at he
      cases he
    | some v =>
      obtain ⟨name, render⟩ := v
      obtain ⟨k, hk, hr⟩ := arm_classify harm
      subst hr
      have hdesc : e.desc = rfun k name i := by
        simp only [Disasm.entryAt, hi] at he
        rw [if_neg ho, if_neg h85, harm] at he
        simp only [Option.some.injEq, Prod.mk.injEq] at he
        rw [← he.1]
      rw [hdesc]
      have hcp := compat_of_classify hk
      unfold compat at hcp
      simp only [usesOf_ofNat_toNat] at hcp
      cases k <;> simp only [Bool.and_eq_true, Bool.or_eq_true, beq_iff_eq, bne_iff_ne, decide_eq_true_eq, ne_eq] at hcp
      case aluImm =>
        exfalso
        have h1 : ¬ i.opc = 0xd4#8 := fun h => hcp.1.2 (by rw [h]; rfl)
        have h2 : ¬ i.opc = 0xdc#8 := fun h => hcp.2 (by rw [h]; rfl)
        simp [RtSpec.canonSlot, hcp.1.1.2, h1, h2] at hc
      case aluReg => exfalso; simp [RtSpec.canonSlot, hcp.2] at hc
      case unary => exfalso; simp [RtSpec.canonSlot, hcp.2] at hc
      case ldabs => exfalso; simp [RtSpec.canonSlot, hcp.2] at hc
      case ldind => exfalso; simp [RtSpec.canonSlot, hcp.2] at hc
      case ldReg => exfalso; simp [RtSpec.canonSlot, hcp.2] at hc
      case ldStImm => exfalso; simp [RtSpec.canonSlot, hcp.2] at hc
      case ja => exfalso; simp [RtSpec.canonSlot, hcp.2] at hc
      case jmpImm => exfalso; simp [RtSpec.canonSlot, hcp.2] at hc
      case jmpReg => exfalso; simp [RtSpec.canonSlot, hcp.2] at hc
      case stReg =>
        rcases hcp with h | h
        · exfalso; simp [RtSpec.canonSlot, h.2] at hc
        · rw [rfun_toList]
          have hn := nameOk_of_nameOkB h.2
          exact badLine_of_word hcc _ hn.start (nameOk_alnum hcc hn) (by rw [lookup_eq_find]; simp [lineOf, h.1.1])
      case plain =>
        rcases hcp with h | h
        · exfalso; simp [RtSpec.canonSlot, h.2] at hc
        · rw [h.1]; exact badLine_tailCall hcc i
      case byteswap =>
        have hsn : name = "le" ∨ name = "be" := hcp.2.imp (·.2) (·.2)
        have hopc : i.opc = 0xd4#8 ∨ i.opc = 0xdc#8 :=
          hcp.2.imp (fun h => BitVec.eq_of_toNat_eq h.1) (fun h => BitVec.eq_of_toNat_eq h.1)
        apply badLine_byteswap hcc i name hsn
        intro himm
        simp [RtSpec.canonSlot, hcp.1, hopc, himm] at hc

theorem entries_bad {cc} (hcc : SaneClasses cc) (p : Bytes) (fuel pc : Nat) {es : List Disasm.HLInsn}
    (he : entries p fuel pc = some es) (hc : RtSpec.canonFrom p fuel pc = none) :
    ∃ (items : List (List Char × List (List Char × Operand))) (bad : List Char) (rest : List (List Char)),
      es.map (·.desc.toList) = items.map (fun it => lineText it.1 it.2) ++ bad :: rest ∧
      (∀ it ∈ items, NameOk it.1 ∧ ∀ q ∈ it.2, OperandText q.1 q.2) ∧ BadLine cc bad := by
  induction fuel generalizing pc es with
  | zero => simp [entries] at he
  | succ f ih =>
    unfold RtSpec.canonFrom at hc
    unfold entries at he
    split at hc
    · rename_i hlt
      simp only [hlt, if_true] at he
      cases hi : getInsn? p pc with
      | none => simp [Disasm.entryAt, hi] at he
      | some i =>
        simp only [hi] at hc
        by_cases ho : i.opc = 0x18
        · simp only [ho, if_true] at hc
          cases hn : getInsn? p (pc + 1) with
          | none => simp [Disasm.entryAt, hi, ho, hn] at he
          | some nx =>
            simp only [hn, Option.map_eq_none_iff] at hc
            obtain ⟨e, hent, hgl⟩ := entryAt_lddw hi ho hn
            simp only [hent, Option.map_eq_some_iff] at he
            obtain ⟨es', hes', rfl⟩ := he
            obtain ⟨items, bad, rest, hl, hit, hb⟩ := ih (pc + 2) hes' hc
            obtain ⟨name, ops, hline, hnm, hops, -, -⟩ := hgl
            refine ⟨(name, ops) :: items, bad, rest, by simp [hl, hline], ?_, hb⟩
            intro it hi'
            rw [List.mem_cons] at hi'
            rcases hi' with rfl | hi'
            · exact ⟨hnm, hops⟩
            · exact hit it hi'
        · simp only [ho, if_false] at hc
          cases hcs : RtSpec.canonSlot i with
          | none =>
            cases hent : Disasm.entryAt p pc with
            | none => simp [hent] at he
            | some v =>
              obtain ⟨e, n⟩ := v
              simp only [hent, Option.map_eq_some_iff] at he
              obtain ⟨es', -, rfl⟩ := he
              exact ⟨[], e.desc.toList, es'.map (·.desc.toList), by simp, by simp, entryAt_bad hcc hi ho hcs hent⟩
          | some c =>
            simp only [hcs, Option.map_eq_none_iff] at hc
            obtain ⟨e, hent, hgl⟩ := entryAt_good hi ho hcs
            simp only [hent, Option.map_eq_some_iff] at he
            obtain ⟨es', hes', rfl⟩ := he
            obtain ⟨items, bad, rest, hl, hit, hb⟩ := ih (pc + 1) hes' hc
            obtain ⟨name, ops, hline, hnm, hops, -, -⟩ := hgl
            refine ⟨(name, ops) :: items, bad, rest, by simp [hl, hline], ?_, hb⟩
            intro it hi'
            rw [List.mem_cons] at hi'
            rcases hi' with rfl | hi'
            · exact ⟨hnm, hops⟩
            · exact hit it hi'
    · cases hc

/-- what follows a line in the newline-joined text -/
def tailOf : List (List Char) → List Char
  | [] => []
  | l :: rest => '\n' :: ['\n'].intercalate (l :: rest)

theorem intercalate_cons (l : List Char) (rest : List (List Char)) :
    ['\n'].intercalate (l :: rest) = l ++ tailOf rest := by
  cases rest with
  | nil => simp [tailOf, List.intercalate]
  | cons l2 rest => simp [tailOf, List.intercalate]

theorem end_tailOf {cc} (hcc : SaneClasses cc) (rest : List (List Char)) : End cc (tailOf rest) := by
  cases rest with
  | nil => intro c hc; simp [tailOf] at hc
  | cons l rest => intro c hc; simp [tailOf] at hc; subst hc; exact hcc.nl

theorem intercalate_items (items : List (List Char × List (List Char × Operand))) (bad : List Char) (rest : List (List Char)) :
    ['\n'].intercalate (items.map (fun it => lineText it.1 it.2) ++ bad :: rest) =
      progText (items.map (fun it => mkItem it ['\n'])) ++ (bad ++ tailOf rest) := by
  induction items with
  | nil => simp [progText, intercalate_cons]
  | cons it items ih =>
    rw [List.map_cons, List.cons_append, intercalate_cons]
    cases hrest : items.map (fun it => lineText it.1 it.2) ++ bad :: rest with
    | nil => simp at hrest
    | cons l ls =>
      rw [hrest] at ih
      simp only [tailOf, ih, List.map_cons, progText, mkItem_text, List.append_assoc, List.cons_append, List.nil_append]

theorem assemble_badLines {cc} (hcc : SaneClasses cc) (items : List (List Char × List (List Char × Operand)))
    (bad : List Char) (rest : List (List Char)) (hit : ∀ it ∈ items, NameOk it.1 ∧ ∀ q ∈ it.2, OperandText q.1 q.2)
    (hb : BadLine cc bad) (b : List (BitVec 8)) :
    assemble cc (['\n'].intercalate (items.map (fun it => lineText it.1 it.2) ++ bad :: rest)) ≠ .ok b := by
  rw [intercalate_items]
  have hnl : ∀ c ∈ ['\n'], cc.isWs c = true := by intro c hc; simp at hc; subst hc; exact hcc.nl
  have hx : ProgOk cc (items.map (fun it => mkItem it ['\n'])) (bad ++ tailOf rest) := by
    clear hb
    induction items with
    | nil => trivial
    | cons it items ih =>
      have h1 := hit it (by simp)
      exact ⟨mkItem_ok hcc h1.1 h1.2 hnl, .inl (by simp [mkItem]), ih (fun it' h' => hit it' (List.mem_cons_of_mem _ h'))⟩
  have htl : bad ++ tailOf rest = [] ∨ NameStart (bad ++ tailOf rest) := .inr (hb.1.append _)
  have hst := progText_start hx htl
  generalize hxs : items.map (fun it => mkItem it ['\n']) = xs at *
  have hsk : skipSpaces cc (progText xs ++ (bad ++ tailOf rest)) = progText xs ++ (bad ++ tailOf rest) := by
    have := skipSpaces_append cc (ws := []) (by simp) (NameStart.noWs hcc hst); simpa using this
  have hlen := length_progText hx
  intro hasm
  unfold assemble parse at hasm
  rw [hsk] at hasm
  dsimp only at hasm
  have hf : (progText xs ++ (bad ++ tailOf rest)).length + 1 =
      ((progText xs ++ (bad ++ tailOf rest)).length + 1 - xs.length) + xs.length := by
    simp only [List.length_append]; omega
  rw [hf, parseLoop_progText hcc xs _ htl hx] at hasm
  cases hp : parseLoop cc ((progText xs ++ (bad ++ tailOf rest)).length + 1 - xs.length) (bad ++ tailOf rest)
      ((xs.map (·.instr)).reverse ++ []) with
  | ok r =>
    rw [hp] at hasm
    dsimp only at hasm
    obtain ⟨j, hj, hlk⟩ := parseLoop_badLine hb (end_tailOf hcc rest) _ _ _ hp
    cases ha : assembleInternal r with
    | ok ys => exact assembleInternal_ok_lookup ha j hj hlk
    | err => rw [ha] at hasm; cases hasm
    | panic => rw [ha] at hasm; cases hasm
  | err => rw [hp] at hasm; cases hasm
  | panic => rw [hp] at hasm; cases hasm

theorem canonical_of_roundtrip (cc : CharClass) (hcc : SaneClasses cc) (p : Bytes) (b : List (BitVec 8))
    (h : RtSpec.roundTrip cc p = some (.ok b)) : ∃ xs, RtSpec.canon p = some xs ∧ b = xs.flatMap Insn.toArray := by
  rw [roundTrip_eq, toInsnVec_eq] at h
  split at h
  · cases h
  · rename_i h8
    cases hes : entries p (p.size / 8 + 1) 0 with
    | none => rw [hes] at h; cases h
    | some es =>
      rw [hes] at h
      simp only [Option.map_some, Option.some.injEq] at h
      unfold RtSpec.canon
      rw [if_neg h8]
      cases hc : RtSpec.canonFrom p (p.size / 8 + 1) 0 with
      | some cs =>
        obtain ⟨es', hes', hg⟩ := canon_entries p _ 0 hc
        rw [hes] at hes'; cases hes'
        exact ⟨cs, rfl, (assemble_goodLines hcc hg).2 b h⟩
      | none =>
        exfalso
        obtain ⟨items, bad, rest, hl, hit, hb⟩ := entries_bad hcc p _ 0 hes hc
        rw [hl] at h
        exact assemble_badLines hcc items bad rest hit hb b h

-- the driver's character classes -------------------------------------------------------------------------------

theorem char_ranges (c : Char) :
    (isLetter c = true ↔ (97 ≤ c.toNat ∧ c.toNat ≤ 122) ∨ (65 ≤ c.toNat ∧ c.toNat ≤ 90)) ∧
    (isDigit c = true ↔ 48 ≤ c.toNat ∧ c.toNat ≤ 57) ∧
    (c.isAlpha = true ↔ (65 ≤ c.toNat ∧ c.toNat ≤ 90) ∨ (97 ≤ c.toNat ∧ c.toNat ≤ 122)) ∧
    (c.isDigit = true ↔ 48 ≤ c.toNat ∧ c.toNat ≤ 57) := by
  have hval : c.val.toNat = c.toNat := rfl
  have e1 : 'a'.val.toNat = 97 := rfl
  have e2 : 'z'.val.toNat = 122 := rfl
  have e3 : 'A'.val.toNat = 65 := rfl
  have e4 : 'Z'.val.toNat = 90 := rfl
  have e5 : '0'.val.toNat = 48 := rfl
  have e6 : '9'.val.toNat = 57 := rfl
  refine ⟨?_, ?_, ?_, ?_⟩
  · simp only [isLetter, Bool.or_eq_true, Bool.and_eq_true, decide_eq_true_eq, Char.le_def, UInt32.le_iff_toNat_le,
      e1, e2, e3, e4, hval]
  · simp only [isDigit, Bool.and_eq_true, decide_eq_true_eq, Char.le_def, UInt32.le_iff_toNat_le, e5, e6, hval]
  · simp only [Char.isAlpha, Char.isUpper, Char.isLower, Bool.or_eq_true, Bool.and_eq_true, decide_eq_true_eq,
      ge_iff_le, UInt32.le_iff_toNat_le, e1, e2, e3, e4, hval]
  · simp only [Char.isDigit, Bool.and_eq_true, decide_eq_true_eq, ge_iff_le, UInt32.le_iff_toNat_le, e5, e6, hval]

theorem char_beq_toNat {c k : Char} (h : (c == k) = true) : c.toNat = k.toNat := by
  rw [beq_iff_eq] at h; rw [h]

/-- the character classes of the differential-test driver (`Drive.cc`: Rust's `is_whitespace`, and
    `is_alphanumeric`/`is_alphabetic` on the characters the generators use) are sane -/
theorem saneClasses_drive : SaneClasses Drive.cc := by
  refine ⟨?_, ?_, ?_, by decide, by decide⟩
  · intro c h
    obtain ⟨r1, r2, r3, r4⟩ := char_ranges c
    have ha : c.isAlpha = true := r3.mpr (by have := r1.mp h; omega)
    simp [Drive.cc, Drive.rustIsAlphabetic, Drive.rustIsAlphanumeric, Char.isAlphanum, ha]
  · intro c h
    obtain ⟨r1, r2, r3, r4⟩ := char_ranges c
    have hr := r2.mp h
    have hd : c.isDigit = true := r4.mpr hr
    have ha : c.isAlpha = false := by
      cases hh : c.isAlpha with
      | false => rfl
      | true => have := r3.mp hh; omega
    have hx : ¬ c.toNat ∈ Drive.extraAlpha := by
      simp only [Drive.extraAlpha, List.mem_cons, List.not_mem_nil, or_false]
      omega
    refine ⟨by simp [Drive.cc, Drive.rustIsAlphanumeric, Char.isAlphanum, hd], ?_⟩
    simp [Drive.cc, Drive.rustIsAlphabetic, ha, hx]
  · intro c h
    obtain ⟨r1, r2, r3, r4⟩ := char_ranges c
    simp only [Drive.cc, Drive.rustIsWhitespace, Bool.or_eq_true, Bool.and_eq_true, decide_eq_true_eq, beq_iff_eq] at h
    have ha : c.isAlpha = false := by
      cases hh : c.isAlpha with
      | false => rfl
      | true => have := r3.mp hh; omega
    have hd : c.isDigit = false := by
      cases hh : c.isDigit with
      | false => rfl
      | true => have := r4.mp hh; omega
    have hx : ¬ c.toNat ∈ Drive.extraAlpha := by
      simp only [Drive.extraAlpha, List.mem_cons, List.not_mem_nil, or_false]
      omega
    have hy : ¬ c.toNat ∈ Drive.extraNum := by
      simp only [Drive.extraNum, List.mem_cons, List.not_mem_nil, or_false]
      omega
    have hne : ∀ k : Char, c.toNat ≠ k.toNat → c ≠ k := fun k hk he => hk (by rw [he])
    refine ⟨?_, ?_, ?_, ?_, ?_, ?_⟩
    · simp [Drive.cc, Drive.rustIsAlphanumeric, Char.isAlphanum, ha, hd, hx, hy]
    all_goals (apply hne; simp; omega)

end Rbpf
