/-
  Helper lemmas for C07 (local calls): which instructions touch the frame stack, the per-depth frame
  sizes and r10; runs that stay above a call depth.
-/
import RbpfModel.Model.Interp
import RbpfModel.Model.WellFormed
namespace Rbpf
open Interp

/-! ### every arm of `exec` other than local call and exit leaves frames and frame sizes alone -/

/-- the outcome `o`, if it continues, continues in a state that differs from `s` at most in `pc`, `mem`,
    `log` and register `d` -/
def PresD (d : Nat) (s : State) (o : Outcome) : Prop :=
  ∀ s', o = .next s' → s'.frames = s.frames ∧ s'.usage = s.usage ∧
    (s'.reg = s.reg ∨ ∃ v, s'.reg = s.reg.setIfInBounds d v)

theorem presD_panic (d s) : PresD d s .panic := by intro s' h; cases h
theorem presD_fault (d s) : PresD d s .fault := by intro s' h; cases h
theorem presD_err (d s e t) : PresD d s (.err e t) := by intro s' h; cases h
theorem presD_next (d s) : PresD d s (.next s) := by intro s' h; cases h; exact ⟨rfl, rfl, Or.inl rfl⟩
theorem presD_rd (d s i k) (h : ∀ v, PresD d s (k v)) : PresD d s (rd s i k) := by
  unfold rd; split
  · exact h _
  · exact presD_panic d s
theorem presD_wr (d s v) : PresD d s (wr s d v) := by
  unfold wr; split
  · intro s' h; cases h; exact ⟨rfl, rfl, Or.inr ⟨v, rfl⟩⟩
  · exact presD_panic d s
theorem presD_jumpTo (d s t) : PresD d s (jumpTo s t) := by
  unfold jumpTo; split
  · exact presD_panic d s
  · intro s' h; cases h; exact ⟨rfl, rfl, Or.inl rfl⟩
theorem presD_branch (d s off c) : PresD d s (branch s off c) := by
  unfold branch; split
  · exact presD_jumpTo _ _ _
  · exact presD_next _ _
theorem presD_load (env d s a w) : PresD d s (load env s a w d) := by
  unfold load; split
  · split
    · exact presD_wr _ _ _
    · exact presD_fault _ _
  · exact presD_err _ _ _ _
theorem presD_store (env d s a w v) : PresD d s (store env s a w v) := by
  unfold store; split
  · split
    · intro s' h; cases h; exact ⟨rfl, rfl, Or.inl rfl⟩
    · exact presD_fault _ _
  · exact presD_err _ _ _ _
theorem presD_xadd (env d s a w v) : PresD d s (xadd env s a w v) := by
  unfold xadd; split
  · split
    · split
      · split
        · intro s' h; cases h; exact ⟨rfl, rfl, Or.inl rfl⟩
        · exact presD_fault _ _
      · exact presD_fault _ _
    · exact presD_err _ _ _ _
  · exact presD_err _ _ _ _
theorem presD_pktAbs (d s imm k) (h : ∀ v, PresD d s (k v)) : PresD d s (pktAbs s imm k) := by
  unfold pktAbs; split
  · exact presD_panic d s
  · exact h _
theorem presD_callHelper (env s imm) : PresD 0 s (callHelper env s imm) := by
  unfold callHelper; split
  · repeat (apply presD_rd; intro _)
    unfold wr; split
    · intro s' h; cases h; exact ⟨rfl, rfl, Or.inr ⟨_, rfl⟩⟩
    · exact presD_panic _ _
  · exact presD_err _ _ _ _
theorem presD_ite (d s) (c : Prop) [Decidable c] (a b : Outcome) (ha : PresD d s a) (hb : PresD d s b) :
    PresD d s (if c then a else b) := by split <;> assumption

macro "pres_tac" : tactic => `(tactic|
  repeat (first
    | apply presD_wr | apply presD_branch | apply presD_next | apply presD_panic | apply presD_err
    | apply presD_load | apply presD_store | apply presD_xadd
    | (apply presD_rd; intro _) | (apply presD_pktAbs; intro _) | apply presD_ite))

/-- the opcode is one that writes its destination register (so not a store, not an atomic add, and not
    the opcode-0 second slot of a wide load) -/
def writesDst (opc : BitVec 8) : Prop := WF.isStore opc = false ∧ WF.isXadd opc = false ∧ opc ≠ 0

theorem exec_next_cases (env : Env) (s s' : State) (insn : Insn) (h : exec env s insn = .next s') :
    (insn.opc = 0x85 ∧ insn.src = 1 ∧ callLocal s insn.imm = .next s') ∨
    (insn.opc = 0x95 ∧ exitInsn s = .next s') ∨
    (insn.opc = 0x18 ∧ s'.frames = s.frames ∧ s'.usage = s.usage ∧ ∃ v, s'.reg = s.reg.setIfInBounds insn.dst.toNat v) ∨ 
    (∃ d, (d = 0 ∨ (d = insn.dst.toNat ∧ writesDst insn.opc)) ∧ PresD d s (.next s')) := by
  obtain ⟨opc, dst, src, off, imm⟩ := insn
  have key : ∀ n : Nat, n < 256 → opc.toNat = n → opc = BitVec.ofNat 8 n := by
    intro n hn h; apply BitVec.eq_of_toNat_eq; simp [h]; omega
  unfold exec at h
  simp only [] at h
  split at h
  all_goals first
    | (cases h; done)
    | (rename_i heq; have hk := key _ (by decide) heq; subst hk; dsimp only
       first
        | (refine Or.inr (Or.inr (Or.inr ⟨0, Or.inl rfl, ?_⟩)); rw [← h]; pres_tac; done)
        | (refine Or.inr (Or.inr (Or.inr ⟨dst.toNat, Or.inr ⟨rfl, by unfold writesDst; decide⟩, ?_⟩)); rw [← h]; pres_tac; done)
        | (exact Or.inr (Or.inl ⟨rfl, h⟩))
        | (split at h
           · cases h
           · rename_i nx _
             unfold wr at h; split at h
             · cases h; exact Or.inr (Or.inr (Or.inl ⟨rfl, rfl, rfl, _, rfl⟩))
             · cases h)
        | (split at h
           · refine Or.inr (Or.inr (Or.inr ⟨0, Or.inl rfl, ?_⟩)); rw [← h]; exact presD_callHelper _ _ _
           · split at h
             · rename_i h1
               exact Or.inl ⟨rfl, BitVec.eq_of_toNat_eq (by simpa using h1), h⟩
             · cases h))

/-! ### the local call and the return, spelled out -/

theorem rd_next {s s' : State} {i : Nat} {k : BitVec 64 → Outcome} (h : rd s i k = .next s') :
    ∃ v, s.reg[i]? = some v ∧ k v = .next s' := by
  unfold rd at h
  split at h
  · exact ⟨_, ‹_›, h⟩
  · cases h

theorem callLocal_next (s s' : State) (imm : BitVec 32) (h : callLocal s imm = .next s') :
    ∃ r6 r7 r8 r9 r10, s.reg[6]? = some r6 ∧ s.reg[7]? = some r7 ∧ s.reg[8]? = some r8 ∧
      s.reg[9]? = some r9 ∧ s.reg[10]? = some r10 ∧ s.depth < 8 ∧
      (s.usage[s.depth]?).getD 0 ≤ r10.toNat ∧ 0 ≤ (s.pc : Int) + imm.toInt ∧
      s' = { s with reg := s.reg.setIfInBounds 10 (r10 - BitVec.ofNat 64 ((s.usage[s.depth]?).getD 0)),
                    frames := { ret := s.pc, saved := (r6, r7, r8, r9) } :: s.frames,
                    pc := ((s.pc : Int) + imm.toInt).toNat } := by
  unfold callLocal at h
  split at h
  · cases h
  · rename_i hdepth
    obtain ⟨r6, h6, h⟩ := rd_next h
    obtain ⟨r7, h7, h⟩ := rd_next h
    obtain ⟨r8, h8, h⟩ := rd_next h
    obtain ⟨r9, h9, h⟩ := rd_next h
    obtain ⟨r10, h10, h⟩ := rd_next h
    simp only [] at h
    split at h
    · cases h
    · rename_i hu
      unfold jumpTo at h
      split at h
      · cases h
      · rename_i ht
        cases h
        exact ⟨r6, r7, r8, r9, r10, h6, h7, h8, h9, h10, by omega, by omega, by omega, rfl⟩

theorem exitInsn_next (s s' : State) (h : exitInsn s = .next s') :
    ∃ f rest r10, s.frames = f :: rest ∧ s.reg[10]? = some r10 ∧
      s' = { s with
        reg := ((((s.reg.setIfInBounds 6 f.saved.1).setIfInBounds 7 f.saved.2.1).setIfInBounds 8
                  f.saved.2.2.1).setIfInBounds 9 f.saved.2.2.2).setIfInBounds 10
                  (r10 + BitVec.ofNat 64 ((s.usage[rest.length]?).getD 0)),
        pc := f.ret, frames := rest } := by
  unfold exitInsn at h
  split at h
  · obtain ⟨_, _, h⟩ := rd_next h; cases h
  · rename_i f rest hfr
    obtain ⟨r10, h10, h⟩ := rd_next h
    simp only [] at h
    split at h
    · cases h
    · cases h
      exact ⟨f, rest, r10, hfr, h10, rfl⟩

/-! ### one step of the main loop -/

/-- the state `step` hands to `exec`: frame size of the current depth refreshed at a function entry,
    `pc` already advanced -/
def stepPre (env : Env) (s : State) : State :=
  { (if s.depth < 8 then
      match env.usage s.pc with
      | some u => { s with usage := s.usage.setIfInBounds s.depth u }
      | none => s
     else s) with pc := s.pc + 1 }

theorem step_next (env : Env) (s s' : State) (h : step env s = .next s') :
    ∃ insn, getInsn? env.prog s.pc = some insn ∧ exec env (stepPre env s) insn = .next s' := by
  unfold step at h
  split at h
  · split at h
    · cases h
    · rename_i insn hi
      exact ⟨insn, hi, h⟩
  · cases h

theorem stepPre_frames (env : Env) (s : State) : (stepPre env s).frames = s.frames := by
  unfold stepPre; split
  · split <;> rfl
  · rfl

theorem stepPre_reg (env : Env) (s : State) : (stepPre env s).reg = s.reg := by
  unfold stepPre; split
  · split <;> rfl
  · rfl

theorem stepPre_pc (env : Env) (s : State) : (stepPre env s).pc = s.pc + 1 := rfl

theorem stepPre_usage (env : Env) (s : State) (k : Nat) (hk : k ≠ s.depth) :
    (stepPre env s).usage[k]? = s.usage[k]? := by
  unfold stepPre; split
  · split
    · exact Vector.getElem?_setIfInBounds_ne (Ne.symm hk)
    · rfl
  · rfl

/-! ### runs above a depth -/

/-- `n` steps from `s`, each continuing (`.next`) in a state whose call depth is above `d`;
    the state reached -/
def stepsAbove (env : Env) (d : Nat) : Nat → State → Option State
  | 0, s => some s
  | n + 1, s =>
    match step env s with
    | .next s' => if d < s'.depth then stepsAbove env d n s' else none
    | _ => none

/-- r10 is written by no instruction but local call and exit: a destination field 10 occurs only in
    stores and atomic adds (which read it), as the verifier demands; an opcode-0 slot (second half of a
    wide load) is not an executable instruction -/
def R10ReadOnly (p : Bytes) : Prop :=
  ∀ pc insn, getInsn? p pc = some insn → insn.dst.toNat = 10 →
    WF.isStore insn.opc = true ∨ WF.isXadd insn.opc = true ∨ insn.opc = 0

/-- sum of the frame sizes recorded for depths `lo .. lo+n-1`, as r10 arithmetic sees it -/
def usum (u : Vector Nat 8) (lo : Nat) : Nat → BitVec 64
  | 0 => 0
  | n + 1 => usum u lo n + BitVec.ofNat 64 ((u[lo + n]?).getD 0)

theorem usum_congr (u u' : Vector Nat 8) (lo n : Nat) (h : ∀ k, lo ≤ k → k < lo + n → u'[k]? = u[k]?) :
    usum u' lo n = usum u lo n := by
  induction n with
  | zero => rfl
  | succ n ih =>
    simp only [usum]
    rw [ih (fun k h1 h2 => h k h1 (by omega)), h (lo + n) (by omega) (by omega)]

/-- what holds of every state of a run above the depth of `base` (= the frame pushed by the call under
    study, on top of the caller's frames): the base frames are still there, underneath, and the frame
    sizes recorded for the depths below are those of `us` -/
structure Above (base : List Frame) (us : Vector Nat 8) (t : State) : Prop where
  frames : ∃ pre, t.frames = pre ++ base
  usage : ∀ k, k < base.length → t.usage[k]? = us[k]?

theorem Above.depth {base us t} (h : Above base us t) : base.length ≤ t.depth := by
  obtain ⟨pre, hp⟩ := h.frames
  simp [State.depth, hp]

theorem above_step (env : Env) (base : List Frame) (us : Vector Nat 8) (t t' : State)
    (hinv : Above base us t) (hstep : step env t = .next t') (hd : base.length ≤ t'.depth) :
    Above base us t' := by
  obtain ⟨insn, _, hex⟩ := step_next env t t' hstep
  have hdep := hinv.depth
  obtain ⟨pre, hpre⟩ := hinv.frames
  have husage : ∀ k, k < base.length → (stepPre env t).usage[k]? = us[k]? := fun k hk => by
    rw [stepPre_usage env t k (by omega)]; exact hinv.usage k hk
  rcases exec_next_cases env _ t' insn hex with ⟨_, _, hc⟩ | ⟨_, hx⟩ | ⟨_, hf, hu, _⟩ | ⟨d, _, hp⟩
  · obtain ⟨r6, r7, r8, r9, r10, _, _, _, _, _, _, _, _, rfl⟩ := callLocal_next _ _ _ hc
    refine ⟨⟨{ ret := (stepPre env t).pc, saved := (r6, r7, r8, r9) } :: pre, ?_⟩, husage⟩
    simp [stepPre_frames, hpre]
  · obtain ⟨f, rest, r10, hfr, _, rfl⟩ := exitInsn_next _ _ hx
    rw [stepPre_frames, hpre] at hfr
    refine ⟨?_, husage⟩
    cases pre with
    | nil =>
      have hl := congrArg List.length hfr
      simp only [List.nil_append, List.length_cons] at hl
      simp only [State.depth] at hd
      omega
    | cons p pre' =>
      simp only [List.cons_append, List.cons.injEq] at hfr
      exact ⟨pre', hfr.2.symm⟩
  · refine ⟨⟨pre, by rw [hf, stepPre_frames, hpre]⟩, fun k hk => by rw [hu]; exact husage k hk⟩
  · obtain ⟨hf, hu, _⟩ := hp t' rfl
    refine ⟨⟨pre, by rw [hf, stepPre_frames, hpre]⟩, fun k hk => by rw [hu]; exact husage k hk⟩

theorem above_steps (env : Env) (base : List Frame) (us : Vector Nat 8) (d n : Nat) (hb : base.length = d + 1)
    (t t' : State) (hinv : Above base us t) (hrun : stepsAbove env d n t = some t') : Above base us t' := by
  induction n generalizing t with
  | zero => simp only [stepsAbove, Option.some.injEq] at hrun; subst hrun; exact hinv
  | succ n ih =>
    simp only [stepsAbove] at hrun
    split at hrun
    · rename_i t1 hstep
      split at hrun
      · rename_i hd
        exact ih t1 (above_step env base us t t1 hinv hstep (by omega)) hrun
      · cases hrun
    · cases hrun

/-! ### a local call and its matching return -/

theorem reg10_setIfInBounds_ne (r : Vector (BitVec 64) 11) (d : Nat) (v : BitVec 64) (h : d ≠ 10) :
    (r.setIfInBounds d v)[10]? = r[10]? := Vector.getElem?_setIfInBounds_ne h

/-- the frame popped by a step that brings the depth back to the caller's is the frame the call pushed -/
theorem call_return (env : Env) (s s1 s2 s3 : State) (imm : BitVec 32) (n : Nat)
    (hcall : callLocal s imm = .next s1) (hrun : stepsAbove env s.depth n s1 = some s2)
    (hret : step env s2 = .next s3) (hd : s3.depth = s.depth) :
    (∀ i, 6 ≤ i → i ≤ 9 → s3.reg[i]? = s.reg[i]?) ∧ s3.pc = s.pc ∧ (∀ i, i < 6 → s3.reg[i]? = s2.reg[i]?) ∧
    (s2.reg[10]? = s1.reg[10]? → s3.reg[10]? = s.reg[10]?) ∧ s3.frames = s.frames ∧
    s2.depth = s.depth + 1 := by
  obtain ⟨r6, r7, r8, r9, r10, h6, h7, h8, h9, h10, _, _, _, hs1⟩ := callLocal_next _ _ _ hcall
  have hinv1 : Above ({ ret := s.pc, saved := (r6, r7, r8, r9) } :: s.frames) s.usage s1 := by
    subst hs1; exact ⟨⟨[], rfl⟩, fun _ _ => rfl⟩
  have hinv := above_steps env _ s.usage s.depth n (by simp [State.depth]) s1 s2 hinv1 hrun
  obtain ⟨insn, _, hex⟩ := step_next env s2 s3 hret
  obtain ⟨pre, hpre⟩ := hinv.frames
  have hdep2 : s2.depth = pre.length + 1 + s.depth := by simp [State.depth, hpre]; omega
  rcases exec_next_cases env _ s3 insn hex with ⟨_, _, hc⟩ | ⟨_, hx⟩ | ⟨_, hf, _, _⟩ | ⟨d, _, hp⟩
  · obtain ⟨_, _, _, _, _, _, _, _, _, _, _, _, _, rfl⟩ := callLocal_next _ _ _ hc
    simp only [State.depth, List.length_cons, stepPre_frames] at hd hdep2
    omega
  · obtain ⟨f, rest, r10', hfr, h10', rfl⟩ := exitInsn_next _ _ hx
    rw [stepPre_frames, hpre] at hfr
    simp only [State.depth] at hd
    have hl := congrArg List.length hfr
    simp only [List.length_append, List.length_cons] at hl
    have hnil : pre = [] := List.eq_nil_of_length_eq_zero (by omega)
    subst hnil
    simp only [List.nil_append, List.cons.injEq] at hfr
    obtain ⟨hf, hrest⟩ := hfr
    subst hf
    subst hrest
    rw [stepPre_reg] at h10'
    refine ⟨?_, rfl, ?_, ?_, rfl, by simp at hdep2; omega⟩
    · intro i hi1 hi2
      have : i = 6 ∨ i = 7 ∨ i = 8 ∨ i = 9 := by omega
      rcases this with rfl | rfl | rfl | rfl
      · simpa [Vector.getElem?_setIfInBounds] using h6.symm
      · simpa [Vector.getElem?_setIfInBounds] using h7.symm
      · simpa [Vector.getElem?_setIfInBounds] using h8.symm
      · simpa [Vector.getElem?_setIfInBounds] using h9.symm
    · intro i hi
      simp only []
      rw [Vector.getElem?_setIfInBounds_ne (by omega), Vector.getElem?_setIfInBounds_ne (by omega),
        Vector.getElem?_setIfInBounds_ne (by omega), Vector.getElem?_setIfInBounds_ne (by omega),
        Vector.getElem?_setIfInBounds_ne (by omega), stepPre_reg]
    · intro h21
      have hu : (stepPre env s2).usage[s.frames.length]? = s.usage[s.frames.length]? := by
        rw [stepPre_usage env s2 _ (by simp only [State.depth] at hdep2 ⊢; omega)]
        exact hinv.usage _ (by simp)
      have h1 : s1.reg[10]? = some (r10 - BitVec.ofNat 64 ((s.usage[s.depth]?).getD 0)) := by
        subst hs1; simp
      rw [h21, h1] at h10'
      cases h10'
      simp only [State.depth] at *
      rw [hu, h10]
      simp [BitVec.sub_add_cancel]
  · have : s3.depth = s2.depth := by simp only [State.depth]; rw [hf, stepPre_frames]
    omega
  · obtain ⟨hf, _, _⟩ := hp s3 rfl
    have : s3.depth = s2.depth := by simp only [State.depth]; rw [hf, stepPre_frames]
    omega

/-! ### r10 across a run above a depth, when no instruction but call and exit writes it -/

theorem bv_sub_add_add (r x S : BitVec 64) : (r - x) + (S + x) = r + S := by
  rw [BitVec.add_comm S x, ← BitVec.add_assoc, BitVec.sub_add_cancel]

theorem bv_add_right_comm (r y S : BitVec 64) : (r + y) + S = r + (S + y) := by
  rw [BitVec.add_assoc, BitVec.add_comm y S]

/-- r10 bookkeeping of a run above the depth of `base`: r10 plus the frame sizes of the calls still
    open above `base` is the value `r1` r10 had when the run started -/
def Above10 (base : List Frame) (r1 : BitVec 64) (t : State) : Prop :=
  ∃ pre r, t.frames = pre ++ base ∧ t.reg[10]? = some r ∧ r + usum t.usage base.length pre.length = r1

theorem above10_step (env : Env) (hro : R10ReadOnly env.prog) (base : List Frame) (r1 : BitVec 64)
    (t t' : State) (hinv : Above10 base r1 t) (hstep : step env t = .next t') (hd : base.length ≤ t'.depth) :
    Above10 base r1 t' := by
  obtain ⟨insn, hgi, hex⟩ := step_next env t t' hstep
  obtain ⟨pre, r, hpre, hr, hsum⟩ := hinv
  have hdep : t.depth = pre.length + base.length := by simp [State.depth, hpre]
  have hPsum : ∀ n, n ≤ pre.length → usum (stepPre env t).usage base.length n = usum t.usage base.length n :=
    fun n hn => usum_congr _ _ _ _ (fun k _ hk => stepPre_usage env t k (by omega))
  have hPr : (stepPre env t).reg[10]? = some r := by rw [stepPre_reg]; exact hr
  have hdst : insn.dst.toNat = 10 → writesDst insn.opc → False := by
    intro h10 hw
    rcases hro _ _ hgi h10 with h | h | h
    · rw [hw.1] at h; cases h
    · rw [hw.2.1] at h; cases h
    · exact hw.2.2 h
  rcases exec_next_cases env _ t' insn hex with ⟨_, _, hc⟩ | ⟨_, hx⟩ | ⟨hop, hf, hu, v, hv⟩ | ⟨d, hdd, hp⟩
  · obtain ⟨r6, r7, r8, r9, r10, _, _, _, _, h10, _, _, _, rfl⟩ := callLocal_next _ _ _ hc
    rw [hPr] at h10; cases h10
    refine ⟨{ ret := (stepPre env t).pc, saved := (r6, r7, r8, r9) } :: pre,
      r - BitVec.ofNat 64 ((stepPre env t).usage[(stepPre env t).depth]?.getD 0), ?_, ?_, ?_⟩
    · simp [stepPre_frames, hpre]
    · simp
    · simp only [List.length_cons, usum, hPsum _ (Nat.le_refl _)]
      have : (stepPre env t).depth = base.length + pre.length := by
        simp only [State.depth, stepPre_frames]; simp only [State.depth] at hdep; omega
      rw [this, bv_sub_add_add]; exact hsum
  · obtain ⟨f, rest, r10, hfr, h10, rfl⟩ := exitInsn_next _ _ hx
    rw [hPr] at h10; cases h10
    rw [stepPre_frames, hpre] at hfr
    cases pre with
    | nil =>
      have hl := congrArg List.length hfr
      simp only [List.nil_append, List.length_cons] at hl
      simp only [State.depth] at hd
      omega
    | cons p pre' =>
      simp only [List.cons_append, List.cons.injEq] at hfr
      obtain ⟨_, hrest⟩ := hfr
      subst hrest
      refine ⟨pre', r + BitVec.ofNat 64 ((stepPre env t).usage[(pre' ++ base).length]?.getD 0), rfl, by simp, ?_⟩
      simp only [List.length_cons, usum] at hsum
      simp only [List.length_append]
      rw [hPsum _ (by simp), stepPre_usage env t _ (by simp [hdep])]
      rw [bv_add_right_comm, Nat.add_comm pre'.length base.length]; exact hsum
  · have hne : insn.dst.toNat ≠ 10 := by
      intro h10
      rcases hro _ _ hgi h10 with h | h | h <;> rw [hop] at h <;> revert h <;> decide
    refine ⟨pre, r, by rw [hf, stepPre_frames, hpre], ?_, ?_⟩
    · rw [hv, reg10_setIfInBounds_ne _ _ _ hne]; exact hPr
    · rw [hu, hPsum _ (Nat.le_refl _)]; exact hsum
  · obtain ⟨hf, hu, hreg⟩ := hp t' rfl
    refine ⟨pre, r, by rw [hf, stepPre_frames, hpre], ?_, ?_⟩
    · rcases hreg with h | ⟨v, h⟩
      · rw [h]; exact hPr
      · rw [h, reg10_setIfInBounds_ne _ _ _ ?_]; exact hPr
        rcases hdd with rfl | ⟨rfl, hw⟩
        · decide
        · exact fun h10 => hdst h10 hw
    · rw [hu, hPsum _ (Nat.le_refl _)]; exact hsum

theorem above10_steps (env : Env) (hro : R10ReadOnly env.prog) (base : List Frame) (r1 : BitVec 64)
    (d n : Nat) (hb : base.length = d + 1) (t t' : State) (hinv : Above10 base r1 t)
    (hrun : stepsAbove env d n t = some t') : Above10 base r1 t' := by
  induction n generalizing t with
  | zero => simp only [stepsAbove, Option.some.injEq] at hrun; subst hrun; exact hinv
  | succ n ih =>
    simp only [stepsAbove] at hrun
    split at hrun
    · rename_i t1 hstep
      split at hrun
      · rename_i hd
        exact ih t1 (above10_step env hro base r1 t t1 hinv hstep (by omega)) hrun
      · cases hrun
    · cases hrun

/-- with r10 read-only, the callee returns with the r10 it was entered with -/
theorem call_return_r10 (env : Env) (hro : R10ReadOnly env.prog) (s s1 s2 : State) (imm : BitVec 32) (n : Nat)
    (hcall : callLocal s imm = .next s1) (hrun : stepsAbove env s.depth n s1 = some s2)
    (hdep : s2.depth = s.depth + 1) : s2.reg[10]? = s1.reg[10]? := by
  obtain ⟨r6, r7, r8, r9, r10, _, _, _, _, _, _, _, _, hs1⟩ := callLocal_next _ _ _ hcall
  have h1 : Above10 s1.frames s1.reg[10] s1 := ⟨[], s1.reg[10], rfl, by simp, by simp [usum]⟩
  have hb : s1.frames.length = s.depth + 1 := by subst hs1; simp [State.depth]
  obtain ⟨pre, r, hpre, hr, hsum⟩ := above10_steps env hro _ _ s.depth n hb s1 s2 h1 hrun
  have hl := congrArg List.length hpre
  simp only [List.length_append] at hl
  simp only [State.depth] at hdep hb
  have hnil : pre = [] := List.eq_nil_of_length_eq_zero (by omega)
  subst hnil
  simp only [List.length_nil, usum] at hsum
  rw [hr]; simp at hsum; simp [hsum]
/-! ### a concrete program for the non-vacuity examples -/
namespace Ex7
/-- `0: mov r6,5  1: call 3  2: exit  3: mov r6,7  4: call 6  5: exit  6: mov r7,9  7: exit` -/
def prog : Bytes := #[0xb7,6,0,0,5,0,0,0, 0x85,0x10,0,0,1,0,0,0, 0x95,0,0,0,0,0,0,0,
  0xb7,6,0,0,7,0,0,0, 0x85,0x10,0,0,1,0,0,0, 0x95,0,0,0,0,0,0,0, 0xb7,7,0,0,9,0,0,0, 0x95,0,0,0,0,0,0,0]
def env : Env := { prog := prog, helpers := fun _ => none, allowed := [], usage := stackUsage prog none }
/-- the state in which the call at pc 1 is executed: r6 = 5, r7 = 1, r10 = 0x3200, return address 2 -/
def s : State := { reg := #v[0, 0, 0, 0, 0, 0, 5, 1, 0, 0, 0x3200], pc := 2, frames := [],
                   usage := Vector.replicate 8 256, mem := default, log := [] }

theorem r10ReadOnly : R10ReadOnly env.prog := by
  intro pc insn h h10
  have hpc : pc < 8 := by
    unfold getInsn? at h
    split at h
    · cases h
    · rename_i hs; simp [env, prog] at hs; omega
  have : pc = 0 ∨ pc = 1 ∨ pc = 2 ∨ pc = 3 ∨ pc = 4 ∨ pc = 5 ∨ pc = 6 ∨ pc = 7 := by omega
  rcases this with rfl | rfl | rfl | rfl | rfl | rfl | rfl | rfl <;>
    (simp [getInsn?, env, prog] at h; subst h; revert h10; decide)
end Ex7

end Rbpf

