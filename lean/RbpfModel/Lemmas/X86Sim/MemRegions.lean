/-
  x86-64 simulation, memory: the machine's region list against the eBPF-visible memory (`JitSim.MemRel`).
  (M1) `mem_read`: a read the eBPF memory serves is served by the machine memory with the same bytes.
  (M2) `mem_write`: a write the eBPF memory performs is performed by the machine memory, `MemRel` is kept, and
       neither the native stack below the frame nor the 56 bytes above the eBPF stack change.
  Also the byte-level facts about `leBytes` the memory arms need.  No dependency on `Base.lean`.
-/
import RbpfModel.Model.JitSim
namespace Rbpf.JitSim
open Rbpf.X86 (readMem writeMem)

/-! ### single regions -/

theorem mem_contains_iff (r : Region) (a w : Nat) :
    r.contains a w = true ↔ r.base ≤ a ∧ a + w ≤ r.base + r.bytes.size := by
  simp [Region.contains]

theorem mem_contains_false_iff (r : Region) (a w : Nat) :
    r.contains a w = false ↔ ¬ (r.base ≤ a ∧ a + w ≤ r.base + r.bytes.size) := by
  rw [← mem_contains_iff]; simp

/-- placement of a region: base address and size -/
def memSh (r : Region) : Nat × Nat := (r.base, r.bytes.size)

theorem mem_contains_sh (r q : Region) (h : memSh r = memSh q) (a w : Nat) : r.contains a w = q.contains a w := by
  simp only [memSh, Prod.mk.injEq] at h
  simp [Region.contains, h.1, h.2]

/-- the bytes `readMem` / `readBytes?` return from region `r` -/
def memBytesAt (r : Region) (a w : Nat) : List (BitVec 8) := (List.range w).map (fun k => r.bytes.getD (a - r.base + k) 0)

theorem mem_bytesAt_congr (r q : Region) (a w : Nat) (hb : r.base = q.base)
    (h : ∀ k, k < w → r.bytes[a - r.base + k]? = q.bytes[a - r.base + k]?) : memBytesAt r a w = memBytesAt q a w := by
  unfold memBytesAt
  apply List.map_congr_left
  intro k hk
  rw [List.mem_range] at hk
  simp only [Array.getD_eq_getD_getElem?]
  rw [← hb, h k hk]

theorem mem_disjoint_not_both (r q : Region) (a w : Nat) (hw : 0 < w) (hd : disjoint r q)
    (hr : r.contains a w = true) (hq : q.contains a w = true) : False := by
  rw [mem_contains_iff] at hr hq
  unfold disjoint at hd
  omega

/-- in a list of pairwise disjoint regions, the first region containing a non-empty range is the only one -/
theorem mem_find_unique (xs : List Region) (r : Region) (a w : Nat) (hw : 0 < w)
    (hp : xs.Pairwise disjoint) (hm : r ∈ xs) (hc : r.contains a w = true) :
    xs.find? (fun r => r.contains a w) = some r := by
  induction xs with
  | nil => cases hm
  | cons q rest ih =>
    rw [List.pairwise_cons] at hp
    rw [List.find?_cons]
    cases hq : q.contains a w with
    | true =>
      rcases List.mem_cons.1 hm with rfl | hm'
      · rfl
      · exact (mem_disjoint_not_both q r a w hw (hp.1 r hm') hq hc).elim
    | false =>
      rcases List.mem_cons.1 hm with rfl | hm'
      · rw [hq] at hc; cases hc
      · exact ih hp.2 hm'

theorem mem_readMem_of_mem (xs : List Region) (r : Region) (a w : Nat) (hw : 0 < w)
    (hp : xs.Pairwise disjoint) (hm : r ∈ xs) (hc : r.contains a w = true) :
    readMem xs a w = some (memBytesAt r a w) := by
  unfold readMem
  rw [mem_find_unique xs r a w hw hp hm hc]
  rfl

/-- an empty read succeeds as soon as some region admits it -/
theorem mem_readMem_zero (xs : List Region) (r : Region) (a : Nat) (hm : r ∈ xs) (hc : r.contains a 0 = true) :
    readMem xs a 0 = some [] := by
  unfold readMem
  cases hf : xs.find? (fun r => r.contains a 0) with
  | none => exact absurd hc (List.find?_eq_none.1 hf r hm)
  | some q => rfl

theorem mem_readMem_head (q : Region) (rest : List Region) (a w : Nat) (hc : q.contains a w = true) :
    readMem (q :: rest) a w = some (memBytesAt q a w) := by
  unfold readMem
  rw [List.find?_cons, hc]
  rfl

theorem mem_head_misses (q : Region) (rest : List Region) (r : Region) (a w : Nat) (hw : 0 < w)
    (hp : (q :: rest).Pairwise disjoint) (hm : r ∈ rest) (hc : r.contains a w = true) : q.contains a w = false := by
  cases hq : q.contains a w with
  | false => rfl
  | true => exact (mem_disjoint_not_both q r a w hw ((List.pairwise_cons.1 hp).1 r hm) hq hc).elim

/-! ### `writeRegion` -/

theorem mem_foldl_set_size (f : Nat → BitVec 8) (o n : Nat) (arr : Array (BitVec 8)) :
    ((List.range n).foldl (fun acc k => acc.setIfInBounds (o + k) (f k)) arr).size = arr.size := by
  induction n with
  | zero => rfl
  | succ n ih => simp [List.range_succ, List.foldl_append, ih]

theorem mem_foldl_set_get (f : Nat → BitVec 8) (o n : Nat) (arr : Array (BitVec 8)) (j : Nat) :
    ((List.range n).foldl (fun acc k => acc.setIfInBounds (o + k) (f k)) arr)[j]? =
      if o ≤ j ∧ j < o + n then (if j < arr.size then some (f (j - o)) else none) else arr[j]? := by
  induction n with
  | zero =>
    simp only [List.range_zero, List.foldl_nil]
    rw [if_neg (by omega)]
  | succ n ih =>
    simp only [List.range_succ, List.foldl_append, List.foldl_cons, List.foldl_nil]
    rw [Array.getElem?_setIfInBounds, mem_foldl_set_size, ih]
    by_cases h1 : o + n = j
    · subst h1
      simp
    · rw [if_neg h1]
      by_cases h2 : o ≤ j ∧ j < o + n
      · rw [if_pos h2, if_pos (show o ≤ j ∧ j < o + (n + 1) by omega)]
      · rw [if_neg h2, if_neg (show ¬ (o ≤ j ∧ j < o + (n + 1)) by omega)]

theorem mem_writeRegion_base (r : Region) (a : Nat) (bs : List (BitVec 8)) : (Memory.writeRegion r a bs).base = r.base := rfl

theorem mem_writeRegion_size (r : Region) (a : Nat) (bs : List (BitVec 8)) :
    (Memory.writeRegion r a bs).bytes.size = r.bytes.size :=
  mem_foldl_set_size (fun k => bs.getD k 0) (a - r.base) bs.length r.bytes

/-- the bytes of a written region: the new ones inside the range, the old ones outside -/
theorem mem_writeRegion_get (r : Region) (a : Nat) (bs : List (BitVec 8)) (j : Nat) :
    (Memory.writeRegion r a bs).bytes[j]? =
      if a - r.base ≤ j ∧ j < a - r.base + bs.length then (if j < r.bytes.size then some (bs.getD (j - (a - r.base)) 0) else none)
      else r.bytes[j]? :=
  mem_foldl_set_get (fun k => bs.getD k 0) (a - r.base) bs.length r.bytes j

theorem mem_writeRegion_sh (r : Region) (a : Nat) (bs : List (BitVec 8)) : memSh (Memory.writeRegion r a bs) = memSh r := by
  simp [memSh, mem_writeRegion_size, mem_writeRegion_base]

/-! ### `writeExtra` -/

theorem mem_writeExtra_hit (rs : List Region) (a : Nat) (bs : List (BitVec 8)) (rs' : List Region)
    (h : Memory.writeExtra rs a bs = some rs') : ∃ r, r ∈ rs ∧ r.contains a bs.length = true := by
  induction rs generalizing rs' with
  | nil => simp [Memory.writeExtra] at h
  | cons r rest ih =>
    unfold Memory.writeExtra at h
    split at h
    · rename_i hc; exact ⟨r, List.mem_cons_self, hc⟩
    · cases hw : Memory.writeExtra rest a bs with
      | none => simp [hw] at h
      | some e =>
        obtain ⟨q, hq, hc⟩ := ih e hw
        exact ⟨q, List.mem_cons_of_mem _ hq, hc⟩

theorem mem_writeExtra_append (rs t : List Region) (a : Nat) (bs : List (BitVec 8)) (rs' : List Region)
    (h : Memory.writeExtra rs a bs = some rs') : Memory.writeExtra (rs ++ t) a bs = some (rs' ++ t) := by
  induction rs generalizing rs' with
  | nil => simp [Memory.writeExtra] at h
  | cons r rest ih =>
    rw [List.cons_append]
    unfold Memory.writeExtra at h ⊢
    split at h
    · rename_i hc; rw [if_pos hc]; cases h; rfl
    · rename_i hc; rw [if_neg hc]
      cases hw : Memory.writeExtra rest a bs with
      | none => simp [hw] at h
      | some e =>
        simp only [hw, Option.map_some, Option.some.injEq] at h
        subst h
        rw [ih e hw]; rfl

theorem mem_writeExtra_sh (rs : List Region) (a : Nat) (bs : List (BitVec 8)) (rs' : List Region)
    (h : Memory.writeExtra rs a bs = some rs') : rs'.map memSh = rs.map memSh := by
  induction rs generalizing rs' with
  | nil => simp [Memory.writeExtra] at h
  | cons r rest ih =>
    unfold Memory.writeExtra at h
    split at h
    · cases h; simp [mem_writeRegion_sh]
    · cases hw : Memory.writeExtra rest a bs with
      | none => simp [hw] at h
      | some e =>
        simp only [hw, Option.map_some, Option.some.injEq] at h
        subst h
        simp [ih e hw]

theorem mem_writeExtra_skip (r : Region) (rs : List Region) (a : Nat) (bs : List (BitVec 8))
    (h : r.contains a bs.length = false) : Memory.writeExtra (r :: rs) a bs = (Memory.writeExtra rs a bs).map (r :: ·) := by
  rw [Memory.writeExtra, if_neg (by simp [h])]

theorem mem_writeExtra_here (r : Region) (rs : List Region) (a : Nat) (bs : List (BitVec 8))
    (h : r.contains a bs.length = true) : Memory.writeExtra (r :: rs) a bs = some (Memory.writeRegion r a bs :: rs) := by
  rw [Memory.writeExtra, if_pos h]

/-! ### properties that only depend on the placement of the regions -/

def memDisjSh (p q : Nat × Nat) : Prop := p.2 = 0 ∨ q.2 = 0 ∨ p.1 + p.2 ≤ q.1 ∨ q.1 + q.2 ≤ p.1

theorem mem_pairwise_sh (xs ys : List Region) (h : ys.map memSh = xs.map memSh) (hp : xs.Pairwise disjoint) :
    ys.Pairwise disjoint := by
  have h1 : (xs.map memSh).Pairwise memDisjSh := List.pairwise_map.2 hp
  rw [← h] at h1
  exact (List.pairwise_map (f := memSh) (R := memDisjSh)).1 h1

theorem mem_bound_sh (xs ys : List Region) (h : ys.map memSh = xs.map memSh)
    (hb : ∀ r ∈ xs, r.base + r.bytes.size < 2 ^ 64) : ∀ r ∈ ys, r.base + r.bytes.size < 2 ^ 64 := by
  intro r hr
  have : memSh r ∈ xs.map memSh := h ▸ List.mem_map_of_mem hr
  obtain ⟨q, hq, he⟩ := List.mem_map.1 this
  have := hb q hq
  simp only [memSh, Prod.mk.injEq] at he
  omega

/-! ### `MemRel` with its two witnesses named -/

def MemRelW (frame lower : Region) (xm : List Region) (m : Memory) : Prop :=
  xm = frame :: m.mbuff :: m.mem :: (m.extra ++ [lower]) ∧
  frame.base = m.stack.base ∧ m.stack.bytes.size = 512 ∧ frame.bytes.size = 568 ∧
  (∀ k, k < 512 → frame.bytes[k]? = m.stack.bytes[k]?) ∧
  lower.base + lower.bytes.size = frame.base ∧ 64 ≤ lower.bytes.size ∧
  xm.Pairwise disjoint ∧ (∀ r ∈ xm, r.base + r.bytes.size < 2 ^ 64)

theorem memRel_iff (xm : List Region) (m : Memory) : MemRel xm m ↔ ∃ frame lower, MemRelW frame lower xm m := Iff.rfl

/-- (M1) with the witnesses named -/
theorem mem_read_w (frame lower : Region) (xm : List Region) (m : Memory) (a w : Nat) (bs : List (BitVec 8))
    (h : MemRelW frame lower xm m) (hw : 0 < w) (hr : m.readBytes? a w = some bs) : readMem xm a w = some bs := by
  obtain ⟨hxm, hfb, hss, hfs, hfk, _, _, hpw, _⟩ := h
  unfold Memory.readBytes? at hr
  cases hf : m.regions.find? (fun r => r.contains a w) with
  | none => rw [hf] at hr; cases hr
  | some r =>
    rw [hf] at hr
    simp only [Option.some.injEq] at hr
    have hc := List.find?_some hf
    have hm := List.mem_of_find?_eq_some hf
    simp only [Memory.regions, List.mem_cons] at hm
    have other : r ∈ xm → readMem xm a w = some bs := fun hin => by
      rw [mem_readMem_of_mem xm r a w hw hpw hin hc, ← hr]; rfl
    rcases hm with rfl | rfl | rfl | hm
    · exact other (by rw [hxm]; simp)
    · exact other (by rw [hxm]; simp)
    · simp only [mem_contains_iff] at hc
      rw [hxm, mem_readMem_head _ _ _ _ (by rw [mem_contains_iff]; omega), ← hr]
      congr 1
      apply mem_bytesAt_congr _ _ _ _ hfb
      intro k hk
      exact hfk _ (by omega)
    · exact other (by rw [hxm]; simp [hm])

/-- (M1) a read the eBPF-visible memory serves is served, with the same bytes, by the machine's memory -/
theorem mem_read (xm : List Region) (m : Memory) (a w : Nat) (bs : List (BitVec 8))
    (h : MemRel xm m) (hw : 0 < w) (hr : m.readBytes? a w = some bs) : readMem xm a w = some bs := by
  obtain ⟨frame, lower, h⟩ := h
  exact mem_read_w frame lower xm m a w bs h hw hr

/-- (M2) with the witnesses named: the machine performs the write, the relation is kept with the same `lower`
    region and a frame whose bytes from 512 on are the old ones -/
theorem mem_write_w (frame lower : Region) (xm : List Region) (m : Memory) (a : Nat) (bs : List (BitVec 8)) (m' : Memory)
    (h : MemRelW frame lower xm m) (hw : 0 < bs.length) (hwr : m.writeBytes? a bs = some m') :
    ∃ xm' frame', writeMem xm a bs = some xm' ∧ MemRelW frame' lower xm' m' ∧
      m'.stack.base = m.stack.base ∧ m'.mem.base = m.mem.base ∧
      (∀ k, 512 ≤ k → frame'.bytes[k]? = frame.bytes[k]?) := by
  obtain ⟨hxm, hfb, hss, hfs, hfk, hlb, hls, hpw, hbd⟩ := h
  subst hxm
  unfold Memory.writeBytes? at hwr
  unfold writeMem
  split at hwr
  · -- metadata buffer
    rename_i hc
    cases hwr
    have hfc := mem_head_misses frame _ m.mbuff a bs.length hw hpw (by simp) hc
    have hsh : (frame :: Memory.writeRegion m.mbuff a bs :: m.mem :: (m.extra ++ [lower])).map memSh =
        (frame :: m.mbuff :: m.mem :: (m.extra ++ [lower])).map memSh := by simp [mem_writeRegion_sh]
    refine ⟨_, frame, ?_, ⟨rfl, hfb, hss, hfs, hfk, hlb, hls, mem_pairwise_sh _ _ hsh hpw, mem_bound_sh _ _ hsh hbd⟩,
      rfl, rfl, fun _ _ => rfl⟩
    rw [mem_writeExtra_skip _ _ _ _ hfc, mem_writeExtra_here _ _ _ _ hc]; rfl
  split at hwr
  · -- packet
    rename_i hc0 hc
    cases hwr
    have hfc := mem_head_misses frame _ m.mem a bs.length hw hpw (by simp) hc
    have hsh : (frame :: m.mbuff :: Memory.writeRegion m.mem a bs :: (m.extra ++ [lower])).map memSh =
        (frame :: m.mbuff :: m.mem :: (m.extra ++ [lower])).map memSh := by simp [mem_writeRegion_sh]
    refine ⟨_, frame, ?_, ⟨rfl, hfb, hss, hfs, hfk, hlb, hls, mem_pairwise_sh _ _ hsh hpw, mem_bound_sh _ _ hsh hbd⟩,
      rfl, rfl, fun _ _ => rfl⟩
    rw [mem_writeExtra_skip _ _ _ _ hfc, mem_writeExtra_skip _ _ _ _ (by simpa using hc0), mem_writeExtra_here _ _ _ _ hc]; rfl
  split at hwr
  · -- stack: the machine writes the frame
    rename_i hc0 hc1 hc
    cases hwr
    have hc' := (mem_contains_iff _ _ _).1 hc
    have hfc : frame.contains a bs.length = true := by rw [mem_contains_iff]; omega
    have hsh : (Memory.writeRegion frame a bs :: m.mbuff :: m.mem :: (m.extra ++ [lower])).map memSh =
        (frame :: m.mbuff :: m.mem :: (m.extra ++ [lower])).map memSh := by simp [mem_writeRegion_sh]
    refine ⟨_, Memory.writeRegion frame a bs, ?_,
      ⟨rfl, hfb, ?_, ?_, ?_, hlb, hls, mem_pairwise_sh _ _ hsh hpw, mem_bound_sh _ _ hsh hbd⟩, rfl, rfl, ?_⟩
    · rw [mem_writeExtra_here _ _ _ _ hfc]
    · show (Memory.writeRegion m.stack a bs).bytes.size = 512
      rw [mem_writeRegion_size]; exact hss
    · rw [mem_writeRegion_size]; exact hfs
    · intro k hk
      show (Memory.writeRegion frame a bs).bytes[k]? = (Memory.writeRegion m.stack a bs).bytes[k]?
      rw [mem_writeRegion_get, mem_writeRegion_get, hfb, hfs, hss, hfk k hk, if_pos (by omega : k < 568), if_pos hk]
    · intro k hk
      rw [mem_writeRegion_get, if_neg (by omega)]
  · -- a registered range
    rename_i hc0 hc1 hc2
    cases hwe : Memory.writeExtra m.extra a bs with
    | none => simp [hwe] at hwr
    | some e =>
      simp only [hwe, Option.map_some, Option.some.injEq] at hwr
      subst hwr
      obtain ⟨r, hr, hc⟩ := mem_writeExtra_hit _ _ _ _ hwe
      have hfc := mem_head_misses frame _ r a bs.length hw hpw (by simp [hr]) hc
      have hsh : (frame :: m.mbuff :: m.mem :: (e ++ [lower])).map memSh =
          (frame :: m.mbuff :: m.mem :: (m.extra ++ [lower])).map memSh := by
        simp [mem_writeExtra_sh _ _ _ _ hwe]
      refine ⟨_, frame, ?_, ⟨rfl, hfb, hss, hfs, hfk, hlb, hls, mem_pairwise_sh _ _ hsh hpw, mem_bound_sh _ _ hsh hbd⟩,
        rfl, rfl, fun _ _ => rfl⟩
      rw [mem_writeExtra_skip _ _ _ _ hfc, mem_writeExtra_skip _ _ _ _ (by simpa using hc0),
        mem_writeExtra_skip _ _ _ _ (by simpa using hc1), mem_writeExtra_append _ _ _ _ _ hwe]; rfl

/-- what the machine reads in the 56 bytes above the eBPF stack -/
theorem mem_read_top_w (frame lower : Region) (xm : List Region) (m : Memory) (h : MemRelW frame lower xm m) :
    readMem xm (m.stack.base + 512) 56 = some (memBytesAt frame (m.stack.base + 512) 56) := by
  obtain ⟨hxm, hfb, _, hfs, _, _, _, _, _⟩ := h
  rw [hxm, mem_readMem_head _ _ _ _ (by rw [mem_contains_iff]; omega)]

/-- what the machine reads in the native stack below the frame -/
theorem mem_read_lower_w (frame lower : Region) (xm : List Region) (m : Memory) (r w : Nat) (h : MemRelW frame lower xm m)
    (hc : lower.contains r w = true) : readMem xm r w = some (memBytesAt lower r w) := by
  obtain ⟨hxm, _, _, _, _, _, _, hpw, _⟩ := h
  have hin : lower ∈ xm := by rw [hxm]; simp
  by_cases hw : 0 < w
  · exact mem_readMem_of_mem xm lower r w hw hpw hin hc
  · have : w = 0 := by omega
    subst this
    rw [mem_readMem_zero xm lower r hin hc]; rfl

/-- the `lower` witness of `MemRel` is the last region of the machine's memory -/
theorem mem_getLast_w (frame lower : Region) (xm : List Region) (m : Memory) (h : MemRelW frame lower xm m) :
    xm.getLast? = some lower := by
  rw [h.1]
  have : frame :: m.mbuff :: m.mem :: (m.extra ++ [lower]) = (frame :: m.mbuff :: m.mem :: m.extra) ++ [lower] := by simp
  rw [this, List.getLast?_concat]

/-- (M2) a write the eBPF-visible memory performs is performed by the machine's memory; the relation is kept, the
    56 bytes above the eBPF stack read as before, the last region (the native stack below the frame, which ends at the
    eBPF stack's base) is the same and every range inside it reads as before -/
theorem mem_write (xm : List Region) (m : Memory) (a : Nat) (bs : List (BitVec 8)) (m' : Memory)
    (h : MemRel xm m) (hw : 0 < bs.length) (hwr : m.writeBytes? a bs = some m') :
    ∃ xm', writeMem xm a bs = some xm' ∧ MemRel xm' m' ∧ m'.stack.base = m.stack.base ∧ m'.mem.base = m.mem.base ∧
      readMem xm' (m.stack.base + 512) 56 = readMem xm (m.stack.base + 512) 56 ∧
      (∀ lower, xm.getLast? = some lower → xm'.getLast? = some lower ∧ lower.base + lower.bytes.size = m.stack.base ∧
        ∀ r w, lower.base ≤ r → r + w ≤ m.stack.base → readMem xm' r w = readMem xm r w) := by
  obtain ⟨frame, lower, h⟩ := h
  obtain ⟨xm', frame', hwm, h', hsb, hmb, htop⟩ := mem_write_w frame lower xm m a bs m' h hw hwr
  refine ⟨xm', hwm, ⟨frame', lower, h'⟩, hsb, hmb, ?_, ?_⟩
  · have e1 := mem_read_top_w frame' lower xm' m' h'
    rw [hsb] at e1
    rw [e1, mem_read_top_w frame lower xm m h]
    congr 1
    apply mem_bytesAt_congr _ _ _ _ (by rw [h'.2.1, h.2.1, hsb])
    intro k _
    apply htop
    have := h'.2.1
    omega
  · intro lower0 hl0
    rw [mem_getLast_w frame lower xm m h] at hl0
    cases hl0
    have hend : lower.base + lower.bytes.size = m.stack.base := by
      have := h.2.1; have := h.2.2.2.2.2.1; omega
    refine ⟨mem_getLast_w frame' lower xm' m' h', hend, ?_⟩
    intro r w h1 h2
    have hc : lower.contains r w = true := by
      rw [mem_contains_iff]; omega
    rw [mem_read_lower_w frame' lower xm' m' r w h' hc, mem_read_lower_w frame lower xm m r w h hc]

/-! ### little-endian bytes -/

theorem mem_leBytes_length (v w : Nat) : (leBytes v w).length = w := by
  induction w generalizing v with
  | zero => rfl
  | succ n ih => simp [leBytes, ih]

/-- the `w` low-order bytes only depend on the value modulo `2^(8w)` -/
theorem mem_leBytes_congr (w : Nat) (a b : Nat) (h : a % 2 ^ (8 * w) = b % 2 ^ (8 * w)) : leBytes a w = leBytes b w := by
  induction w generalizing a b with
  | zero => rfl
  | succ n ih =>
    have e : 2 ^ (8 * (n + 1)) = 256 * 2 ^ (8 * n) := by rw [Nat.mul_add, Nat.pow_add, Nat.mul_comm]
    rw [e] at h
    have h1 : a % 256 = b % 256 := by
      rw [← Nat.mod_mul_right_mod a 256 (2 ^ (8 * n)), h, Nat.mod_mul_right_mod]
    have h2 : a / 256 % 2 ^ (8 * n) = b / 256 % 2 ^ (8 * n) := by
      rw [← Nat.mod_mul_right_div_self, h, Nat.mod_mul_right_div_self]
    simp only [leBytes]
    rw [ih _ _ h2]
    congr 1
    apply BitVec.eq_of_toNat_eq
    simp [h1]

theorem mem_leBytes_mod (w v : Nat) : leBytes (v % 2 ^ (8 * w)) w = leBytes v w :=
  mem_leBytes_congr w _ _ (Nat.mod_mod _ _)

end Rbpf.JitSim
