/-
  x86-64 simulation, opcode class `memOpcodes`: the instruction sequence the JIT emits for each of these eBPF
  instructions, run by the x86-64 machine model, computes what `EngineSem.jitExec` says (statement: `JitSim.ArmSim`).

  Layout: inversion of the eBPF side (`rd`, `load`, `store`, `xaddAnyAlign`), single machine instructions
  (`exec` of `load`/`store`/`storeI`/`lockAdd`/`movabs`/`add`/`mov`), one simulation lemma per instruction shape
  (`mem_sim_load`, `mem_sim_store`, `mem_sim_storeI`, `mem_sim_lockAdd`, `mem_sim_ldabs`, `mem_sim_ldind`), then the
  22 opcodes.  The region-level facts (M1 `mem_read`, M2 `mem_write`) are in `MemRegions.lean`.
-/
import RbpfModel.Lemmas.X86Sim.Base
import RbpfModel.Lemmas.X86Sim.MemRegions
namespace Rbpf.JitSim
open Rbpf.X86 (Cfg St Out Instr step exec decode fetch readMem writeMem)
open Rbpf.JitAst (AI Tgt checkSeq window)
open Rbpf.Interp

/-! ### the eBPF side: what `.next` tells -/

theorem mem_rd_next (s s' : State) (k : Nat) (f : BitVec 64 → Outcome) (h : rd s k f = .next s') :
    ∃ v, k < 11 ∧ s.reg.getD k 0 = v ∧ f v = .next s' := by
  unfold rd at h
  cases hv : s.reg[k]? with
  | none => rw [hv] at h; cases h
  | some v =>
    rw [hv] at h
    have hk : k < 11 := by
      by_cases hk : k < 11
      · exact hk
      · simp [Vector.getElem?_eq_none (Nat.le_of_not_lt hk)] at hv
    refine ⟨v, hk, ?_, h⟩
    simp [Vector.getD, hv]

theorem mem_load_next (env : Env) (s s' : State) (addr : BitVec 64) (w dst : Nat) (hd : dst < 11)
    (h : load env s addr w dst = .next s') :
    ∃ bs, s.mem.readBytes? addr.toNat w = some bs ∧
      s' = { s with reg := s.reg.setIfInBounds dst (BitVec.ofNat 64 (leValue bs)) } := by
  unfold load at h
  split at h
  · cases hr : s.mem.readBytes? addr.toNat w with
    | none => rw [hr] at h; cases h
    | some bs =>
      rw [hr] at h
      simp only [wr, if_pos hd, Outcome.next.injEq] at h
      exact ⟨bs, rfl, h.symm⟩
  · cases h

theorem mem_store_next (env : Env) (s s' : State) (addr : BitVec 64) (w : Nat) (v : BitVec 64)
    (h : store env s addr w v = .next s') :
    ∃ m', s.mem.writeBytes? addr.toNat (leBytes v.toNat w) = some m' ∧ s' = { s with mem := m' } := by
  unfold store at h
  split at h
  · cases hr : s.mem.writeBytes? addr.toNat (leBytes v.toNat w) with
    | none => rw [hr] at h; cases h
    | some m' =>
      rw [hr] at h
      simp only [Outcome.next.injEq] at h
      exact ⟨m', rfl, h.symm⟩
  · cases h

theorem mem_xadd_next (env : Env) (s s' : State) (addr : BitVec 64) (w : Nat) (v : BitVec 64)
    (h : EngineSem.xaddAnyAlign env s addr w v = .next s') :
    ∃ bs m', s.mem.readBytes? addr.toNat w = some bs ∧
      s.mem.writeBytes? addr.toNat (leBytes (leValue bs + v.toNat) w) = some m' ∧ s' = { s with mem := m' } := by
  unfold EngineSem.xaddAnyAlign at h
  split at h
  · cases hr : s.mem.readBytes? addr.toNat w with
    | none => rw [hr] at h; cases h
    | some bs =>
      rw [hr] at h
      simp only [] at h
      cases hq : s.mem.writeBytes? addr.toNat (leBytes (leValue bs + v.toNat) w) with
      | none => rw [hq] at h; cases h
      | some m' =>
        rw [hq] at h
        simp only [Outcome.next.injEq] at h
        exact ⟨bs, m', rfl, hq, h.symm⟩
  · cases h

theorem mem_arm_regs (haddr : Nat → Option Nat) (pc : Nat) (i : Insn) (nx : Option Insn) (ais : List AI) (n : Nat)
    (h : JitAst.arm haddr pc i nx = .ok (ais, n)) : i.dst.toNat < 11 ∧ i.src.toNat < 11 := by
  by_cases hd : i.dst.toNat < 11
  · by_cases hs : i.src.toNat < 11
    · exact ⟨hd, hs⟩
    · unfold JitAst.arm at h
      rw [mapRegister_eq _ hd, mapRegister_none _ (by omega)] at h
      simp at h
  · unfold JitAst.arm at h
    rw [mapRegister_none _ (by omega)] at h
    simp at h

/-! ### addresses -/

theorem mem_addrOf (σ : St) (r : Nat) (x : BitVec 64) (off : BitVec 16) (hx : σ.get r = x) :
    X86.addrOf σ r off.toInt = (x + off.signExtend 64).toNat := by
  show ((((σ.get r).toNat : Int) + off.toInt) % (2 ^ 64 : Int)).toNat = _
  rw [hx, BitVec.toNat_add, BitVec.toNat_signExtend, BitVec.toNat_setWidth, BitVec.toInt_eq_msb_cond]
  have := x.isLt
  have := off.isLt
  split <;> omega

theorem mem_addrOf_nat (σ : St) (r : Nat) (d : Nat) :
    X86.addrOf σ r (d : Int) = ((σ.get r).toNat + d) % 2 ^ 64 := by
  show ((((σ.get r).toNat : Int) + d) % (2 ^ 64 : Int)).toNat = _
  omega

theorem mem_addrOf_zero (σ : St) (r : Nat) : X86.addrOf σ r 0 = (σ.get r).toNat := by
  show ((((σ.get r).toNat : Int) + 0) % (2 ^ 64 : Int)).toNat = _
  have := (σ.get r).isLt
  omega

theorem mem_regOf_zero : regOf 0 = 0 := by decide

theorem mem_get_congr (σ σ' : St) (h : σ'.reg = σ.reg) (r : Nat) : σ'.get r = σ.get r := by
  simp [St.get, h]

/-! ### machine steps -/

theorem mem_stepsN_cons (c : Cfg) (σ σ1 σ2 : St) (k : Nat) (h1 : step c σ = .next σ1) (h2 : stepsN c k σ1 = some σ2) :
    stepsN c (k + 1) σ = some σ2 := by
  show (match step c σ with | .next s' => stepsN c k s' | _ => none) = some σ2
  rw [h1]; exact h2

theorem mem_stepsN_single (c : Cfg) (σ σ1 : St) (h1 : step c σ = .next σ1) : stepsN c 1 σ = some σ1 :=
  mem_stepsN_cons c σ σ1 σ1 0 h1 rfl

/-- the first instruction of a checked sequence is what the machine executes there -/
theorem mem_step_cons (c : Cfg) (tgt : Tgt → Option Nat) (a b : Nat) (x : Instr) (rest : List AI) (σ : St)
    (hcs : checkSeq c.code tgt a (.i x :: rest) = some b) (hrip : σ.rip = c.codeBase + a) :
    ∃ a', step c σ = exec c σ x (c.codeBase + a') ∧ checkSeq c.code tgt a' rest = some b := by
  obtain ⟨n, hdec, hrest⟩ := checkSeq_i _ _ _ _ _ _ hcs
  refine ⟨a + n, ?_, hrest⟩
  rw [step_at c σ a n x hrip hdec, Nat.add_assoc]

theorem mem_step_last (c : Cfg) (tgt : Tgt → Option Nat) (a b : Nat) (x : Instr) (σ : St)
    (hcs : checkSeq c.code tgt a [.i x] = some b) (hrip : σ.rip = c.codeBase + a) :
    step c σ = exec c σ x (c.codeBase + b) := by
  obtain ⟨a', hstep, hcs'⟩ := mem_step_cons c tgt a b x [] σ hcs hrip
  simp only [checkSeq_nil, Option.some.injEq] at hcs'
  subst hcs'
  exact hstep

theorem mem_exec_load (c : Cfg) (σ : St) (sz w rd rb : Nat) (disp : Int) (nx addr : Nat) (bs : List (BitVec 8))
    (hsz : sz / 8 = w) (haddr : X86.addrOf σ rb disp = addr) (hr : readMem σ.mem addr w = some bs) :
    exec c σ (.load sz rd rb disp) nx = .next (({ σ with rip := nx } : St).set rd (BitVec.ofNat 64 (leValue bs))) := by
  subst hsz haddr
  show (match readMem σ.mem (X86.addrOf σ rb disp) (sz / 8) with
    | some bs => Out.next (({ σ with rip := nx } : St).set rd (BitVec.ofNat 64 (leValue bs)))
    | none => Out.fault "load outside memory") = _
  rw [hr]

theorem mem_exec_store (c : Cfg) (σ : St) (sz w rs rb : Nat) (disp : Int) (nx addr : Nat) (bs : List (BitVec 8))
    (xm' : List Region) (hsz : sz / 8 = w) (haddr : X86.addrOf σ rb disp = addr)
    (hbs : leBytes (σ.get rs).toNat w = bs) (hwr : writeMem σ.mem addr bs = some xm') :
    exec c σ (.store sz rs rb disp) nx = .next { σ with rip := nx, mem := xm' } := by
  subst hsz haddr hbs
  show (match writeMem σ.mem (X86.addrOf σ rb disp) (leBytes (σ.get rs).toNat (sz / 8)) with
    | some m => Out.next { σ with rip := nx, mem := m }
    | none => Out.fault "store outside memory") = _
  rw [hwr]

theorem mem_exec_storeI (c : Cfg) (σ : St) (sz w rb : Nat) (disp : Int) (im : BitVec 32) (nx addr : Nat)
    (bs : List (BitVec 8)) (xm' : List Region) (hsz : sz / 8 = w) (haddr : X86.addrOf σ rb disp = addr)
    (hbs : leBytes (if sz = 64 then (im.signExtend 64).toNat else im.toNat) w = bs)
    (hwr : writeMem σ.mem addr bs = some xm') :
    exec c σ (.storeI sz rb disp im) nx = .next { σ with rip := nx, mem := xm' } := by
  subst hsz haddr hbs
  show (match writeMem σ.mem (X86.addrOf σ rb disp)
      (leBytes (if sz = 64 then (im.signExtend 64).toNat else im.toNat) (sz / 8)) with
    | some m => Out.next { σ with rip := nx, mem := m }
    | none => Out.fault "store outside memory") = _
  rw [hwr]

theorem mem_exec_lockAdd (c : Cfg) (σ : St) (wb : Bool) (w rs rb : Nat) (disp : Int) (nx addr : Nat)
    (bs bs' : List (BitVec 8)) (xm' : List Region) (hw : (if wb then 8 else 4) = w)
    (haddr : X86.addrOf σ rb disp = addr) (hr : readMem σ.mem addr w = some bs)
    (hbs : leBytes (leValue bs + (σ.get rs).toNat) w = bs') (hwr : writeMem σ.mem addr bs' = some xm') :
    exec c σ (.lockAdd wb rs rb disp) nx = .next { σ with rip := nx, mem := xm', flags := none } := by
  subst hw haddr hbs
  show (match readMem σ.mem (X86.addrOf σ rb disp) (if wb then 8 else 4) with
    | some bs =>
      match writeMem σ.mem (X86.addrOf σ rb disp) (leBytes (leValue bs + (σ.get rs).toNat) (if wb then 8 else 4)) with
      | some m => Out.next { σ with rip := nx, mem := m, flags := none }
      | none => Out.fault "lock add outside memory"
    | none => Out.fault "lock add outside memory") = _
  rw [hr]
  simp only []
  rw [hwr]

/-- `add dst, src` (64 bit): the registers and memory of `σ0` are those of `σ` -/
theorem mem_exec_add64 (c : Cfg) (σ : St) (src dst nx : Nat) :
    ∃ σ0 : St, σ0.reg = σ.reg ∧ σ0.mem = σ.mem ∧
      exec c σ (.aluRR true .add src dst) nx = .next (σ0.set dst (σ.get dst + σ.get src)) ∧
      (σ0.set dst (σ.get dst + σ.get src)).rip = nx ∧ σ0.log = σ.log ∧ σ0.misaligned = σ.misaligned := by
  refine ⟨{ σ with rip := nx, flags := some (X86.flagsAdd 64 (X86.trunc 64 (σ.get dst)) (X86.trunc 64 (σ.get src))) },
    rfl, rfl, ?_, rfl, rfl, rfl⟩
  have hv : BitVec.ofNat 64 ((X86.trunc 64 (σ.get dst) + X86.trunc 64 (σ.get src)) % 2 ^ 64 % 2 ^ 64) =
      σ.get dst + σ.get src := by
    apply BitVec.eq_of_toNat_eq
    have := (σ.get dst).isLt
    have := (σ.get src).isLt
    simp only [X86.trunc, BitVec.toNat_ofNat, BitVec.toNat_add]
    omega
  rw [← hv]
  rfl

/-- `mov dst, src` (64 bit) -/
theorem mem_exec_mov64 (c : Cfg) (σ : St) (src dst nx : Nat) :
    exec c σ (JitAst.movRR src dst) nx = .next (({ σ with rip := nx } : St).set dst (σ.get src)) := by
  have hv : BitVec.ofNat 64 (X86.trunc 64 (σ.get src) % 2 ^ 64) = σ.get src := by
    apply BitVec.eq_of_toNat_eq
    have := (σ.get src).isLt
    simp only [X86.trunc, BitVec.toNat_ofNat]
    omega
  rw [← hv]
  rfl

/-! ### `Rel0` across a write -/

theorem mem_rel0_write (retAddr : Nat) (σ : St) (s : State) (a : Nat) (bs : List (BitVec 8)) (m' : Memory)
    (h : Rel0 retAddr σ s) (hw : 0 < bs.length) (hwr : s.mem.writeBytes? a bs = some m') :
    ∃ xm', writeMem σ.mem a bs = some xm' ∧ ∀ σ' : St, σ'.reg = σ.reg → σ'.mem = xm' →
      Rel0 retAddr σ' { s with mem := m' } ∧ topBytes σ' { s with mem := m' } = topBytes σ s ∧
      CallersKept σ σ' s := by
  obtain ⟨xm', hwm, hrel, hsb, hmb, htop, hlow⟩ := mem_write σ.mem s.mem a bs m' h.mem hw hwr
  obtain ⟨lower, hlast, hroom⟩ := h.room
  obtain ⟨hlast', hend, hrd⟩ := hlow lower hlast
  have hrsp := h.rsp
  refine ⟨xm', hwm, fun σ' hr hm => ⟨⟨?_, ?_, ?_, ?_, ?_, ?_⟩, ?_, ?_⟩⟩
  · intro k hk
    rw [mem_get_congr σ σ' hr]
    exact h.regs k hk
  · rw [hm]; exact hrel
  · rw [mem_get_congr σ σ' hr]
    show _ = BitVec.ofNat 64 m'.mem.base
    rw [hmb]; exact h.pkt
  · rw [mem_get_congr σ σ' hr]
    show _ = m'.stack.base
    rw [hsb]; exact h.rsp
  · rw [mem_get_congr σ σ' hr, hm, hrd _ 8 (by omega) (by omega)]
    exact h.ret
  · rw [mem_get_congr σ σ' hr, hm]
    exact ⟨lower, hlast', hroom⟩
  · show readMem σ'.mem (m'.stack.base + 512) 56 = readMem σ.mem (s.mem.stack.base + 512) 56
    rw [hm, hsb]; exact htop
  · intro r w h1 h2
    rw [hm]
    exact hrd r w (by omega) h2

/-! ### one lemma per instruction shape -/

/-- `ldx{b,h,w,dw}` -/
theorem mem_sim_load (i : Insn) (sz w : Nat) (hsz : sz / 8 = w) (hw : 0 < w)
    (harm : ∀ haddr pc nx, i.dst.toNat < 11 → i.src.toNat < 11 → JitAst.arm haddr pc i nx =
      .ok ([.i (.load sz (regOf i.dst.toNat) (regOf i.src.toNat) i.off.toInt)], 1))
    (hexec : ∀ env s, EngineSem.jitExec env s i =
      rd s i.src.toNat fun x => load env s (x + i.off.signExtend 64) w i.dst.toNat) : ArmSim i := by
  intro c tgt haddr pc n a b retAddr ais σ env s s' ha hcs _ hrip hrel hpc hex
  obtain ⟨hd, hs⟩ := mem_arm_regs _ _ _ _ _ _ ha
  rw [harm _ _ _ hd hs] at ha
  simp only [Except.ok.injEq, Prod.mk.injEq] at ha
  obtain ⟨rfl, rfl⟩ := ha
  rw [hexec] at hex
  obtain ⟨x, _, hx, hex⟩ := mem_rd_next _ _ _ _ hex
  obtain ⟨bs, hrd, rfl⟩ := mem_load_next _ _ _ _ _ _ hd hex
  have hstep := mem_step_last _ _ _ _ _ _ hcs hrip
  have hga : X86.addrOf σ (regOf i.src.toNat) i.off.toInt = (x + i.off.signExtend 64).toNat :=
    mem_addrOf σ _ x _ (by rw [hrel.regs _ hs, hx])
  have hrm := mem_read _ _ _ _ _ hrel.mem hw hrd
  refine ⟨1, _, mem_stepsN_single c σ _ (hstep.trans (mem_exec_load c σ sz w _ _ _ _ _ bs hsz hga hrm)), ?_, rfl,
    rfl, rfl, rfl, rfl, callersKept_of_mem _ _ _ rfl, Or.inl ⟨hpc, rfl⟩⟩
  exact rel0_wr _ _ _ _ _ hd (rel0_congr _ _ _ _ hrel rfl rfl)

/-- `stx{b,h,w,dw}` -/
theorem mem_sim_store (i : Insn) (sz w : Nat) (hsz : sz / 8 = w) (hw : 0 < w)
    (harm : ∀ haddr pc nx, i.dst.toNat < 11 → i.src.toNat < 11 → JitAst.arm haddr pc i nx =
      .ok ([.i (.store sz (regOf i.src.toNat) (regOf i.dst.toNat) i.off.toInt)], 1))
    (hexec : ∀ env s, EngineSem.jitExec env s i =
      rd s i.dst.toNat fun d => rd s i.src.toNat fun x => store env s (d + i.off.signExtend 64) w x) : ArmSim i := by
  intro c tgt haddr pc n a b retAddr ais σ env s s' ha hcs _ hrip hrel hpc hex
  obtain ⟨hd, hs⟩ := mem_arm_regs _ _ _ _ _ _ ha
  rw [harm _ _ _ hd hs] at ha
  simp only [Except.ok.injEq, Prod.mk.injEq] at ha
  obtain ⟨rfl, rfl⟩ := ha
  rw [hexec] at hex
  obtain ⟨d, _, hdv, hex⟩ := mem_rd_next _ _ _ _ hex
  obtain ⟨x, _, hx, hex⟩ := mem_rd_next _ _ _ _ hex
  obtain ⟨m', hwb, rfl⟩ := mem_store_next _ _ _ _ _ _ hex
  have hstep := mem_step_last _ _ _ _ _ _ hcs hrip
  have hga : X86.addrOf σ (regOf i.dst.toNat) i.off.toInt = (d + i.off.signExtend 64).toNat :=
    mem_addrOf σ _ d _ (by rw [hrel.regs _ hd, hdv])
  obtain ⟨xm', hwm, hafter⟩ := mem_rel0_write retAddr σ s _ _ m' hrel (by rw [mem_leBytes_length]; exact hw) hwb
  have hbs : leBytes (σ.get (regOf i.src.toNat)).toNat w = leBytes x.toNat w := by rw [hrel.regs _ hs, hx]
  obtain ⟨hrel', htop, hck⟩ := hafter { σ with rip := c.codeBase + b, mem := xm' } rfl rfl
  exact ⟨1, _, mem_stepsN_single c σ _ (hstep.trans (mem_exec_store c σ sz w _ _ _ _ _ _ xm' hsz hga hbs hwm)), hrel', htop,
    rfl, rfl, rfl, rfl, hck, Or.inl ⟨hpc, rfl⟩⟩

/-- `st{b,h,w,dw}`: `im` is the immediate the x86 instruction carries -/
theorem mem_sim_storeI (i : Insn) (sz w : Nat) (im : BitVec 32) (hsz : sz / 8 = w) (hw : 0 < w)
    (him : leBytes (if sz = 64 then (im.signExtend 64).toNat else im.toNat) w = leBytes (sx32 i.imm).toNat w)
    (harm : ∀ haddr pc nx, i.dst.toNat < 11 → i.src.toNat < 11 → JitAst.arm haddr pc i nx =
      .ok ([.i (.storeI sz (regOf i.dst.toNat) i.off.toInt im)], 1))
    (hexec : ∀ env s, EngineSem.jitExec env s i =
      rd s i.dst.toNat fun d => store env s (d + i.off.signExtend 64) w (sx32 i.imm)) : ArmSim i := by
  intro c tgt haddr pc n a b retAddr ais σ env s s' ha hcs _ hrip hrel hpc hex
  obtain ⟨hd, hs⟩ := mem_arm_regs _ _ _ _ _ _ ha
  rw [harm _ _ _ hd hs] at ha
  simp only [Except.ok.injEq, Prod.mk.injEq] at ha
  obtain ⟨rfl, rfl⟩ := ha
  rw [hexec] at hex
  obtain ⟨d, _, hdv, hex⟩ := mem_rd_next _ _ _ _ hex
  obtain ⟨m', hwb, rfl⟩ := mem_store_next _ _ _ _ _ _ hex
  have hstep := mem_step_last _ _ _ _ _ _ hcs hrip
  have hga : X86.addrOf σ (regOf i.dst.toNat) i.off.toInt = (d + i.off.signExtend 64).toNat :=
    mem_addrOf σ _ d _ (by rw [hrel.regs _ hd, hdv])
  obtain ⟨xm', hwm, hafter⟩ := mem_rel0_write retAddr σ s _ _ m' hrel (by rw [mem_leBytes_length]; exact hw) hwb
  obtain ⟨hrel', htop, hck⟩ := hafter { σ with rip := c.codeBase + b, mem := xm' } rfl rfl
  exact ⟨1, _, mem_stepsN_single c σ _ (hstep.trans (mem_exec_storeI c σ sz w _ _ im _ _ _ xm' hsz hga him hwm)), hrel', htop,
    rfl, rfl, rfl, rfl, hck, Or.inl ⟨hpc, rfl⟩⟩

/-- atomic add; `f x` is the addend of the eBPF side, equal to the source register modulo `2^(8w)` -/
theorem mem_sim_lockAdd (i : Insn) (wb : Bool) (w : Nat) (f : BitVec 64 → BitVec 64) (hwb : (if wb then 8 else 4) = w) (hw : 0 < w)
    (hf : ∀ x : BitVec 64, (f x).toNat % 2 ^ (8 * w) = x.toNat % 2 ^ (8 * w))
    (harm : ∀ haddr pc nx, i.dst.toNat < 11 → i.src.toNat < 11 → JitAst.arm haddr pc i nx =
      .ok ([.i (.lockAdd wb (regOf i.src.toNat) (regOf i.dst.toNat) i.off.toInt)], 1))
    (hexec : ∀ env s, EngineSem.jitExec env s i =
      rd s i.dst.toNat fun d => rd s i.src.toNat fun x =>
        EngineSem.xaddAnyAlign env s (d + i.off.signExtend 64) w (f x)) : ArmSim i := by
  intro c tgt haddr pc n a b retAddr ais σ env s s' ha hcs _ hrip hrel hpc hex
  obtain ⟨hd, hs⟩ := mem_arm_regs _ _ _ _ _ _ ha
  rw [harm _ _ _ hd hs] at ha
  simp only [Except.ok.injEq, Prod.mk.injEq] at ha
  obtain ⟨rfl, rfl⟩ := ha
  rw [hexec] at hex
  obtain ⟨d, _, hdv, hex⟩ := mem_rd_next _ _ _ _ hex
  obtain ⟨x, _, hx, hex⟩ := mem_rd_next _ _ _ _ hex
  obtain ⟨bs, m', hrd, hwr, rfl⟩ := mem_xadd_next _ _ _ _ _ _ hex
  have hstep := mem_step_last _ _ _ _ _ _ hcs hrip
  have hga : X86.addrOf σ (regOf i.dst.toNat) i.off.toInt = (d + i.off.signExtend 64).toNat :=
    mem_addrOf σ _ d _ (by rw [hrel.regs _ hd, hdv])
  have hrm := mem_read _ _ _ _ _ hrel.mem hw hrd
  obtain ⟨xm', hwm, hafter⟩ := mem_rel0_write retAddr σ s _ _ m' hrel (by rw [mem_leBytes_length]; exact hw) hwr
  have hbs : leBytes (leValue bs + (σ.get (regOf i.src.toNat)).toNat) w = leBytes (leValue bs + (f x).toNat) w := by
    rw [hrel.regs _ hs, hx]
    apply mem_leBytes_congr
    rw [Nat.add_mod, ← hf x, ← Nat.add_mod]
  obtain ⟨hrel', htop, hck⟩ := hafter { σ with rip := c.codeBase + b, mem := xm', flags := none } rfl rfl
  exact ⟨1, _, mem_stepsN_single c σ _ (hstep.trans (mem_exec_lockAdd c σ wb w _ _ _ _ _ bs _ xm' hwb hga hrm hbs hwm)),
    hrel', htop, rfl, rfl, rfl, rfl, hck, Or.inl ⟨hpc, rfl⟩⟩

/-- `emit_load_packet` from base register r10 or r11: loads `[base + zero-extended imm]` into rax = eBPF r0 -/
theorem mem_sim_loadPacket (c : Cfg) (tgt : Tgt → Option Nat) (a b : Nat) (σ : St) (s : State) (retAddr sz w rb : Nat)
    (imm : BitVec 32) (bs : List (BitVec 8))
    (hcs : checkSeq c.code tgt a (JitAst.loadPacket sz rb imm) = some b) (hrip : σ.rip = c.codeBase + a)
    (hrel : Rel0 retAddr σ s) (hrb : rb = 10 ∨ rb = 11) (hsz : sz / 8 = w) (hw : 0 < w)
    (hread : s.mem.readBytes? (σ.get rb + zx32 imm).toNat w = some bs) :
    ∃ k σ', stepsN c k σ = some σ' ∧
      Rel0 retAddr σ' { s with reg := s.reg.setIfInBounds 0 (BitVec.ofNat 64 (leValue bs)) } ∧
      σ'.mem = σ.mem ∧ σ'.rip = c.codeBase + b ∧ σ'.log = σ.log ∧ σ'.misaligned = σ.misaligned := by
  have hcond := BitVec.toInt_eq_toNat_cond imm
  have hlt := imm.isLt
  have hzx : (zx32 imm).toNat = imm.toNat := by
    simp only [zx32, BitVec.toNat_setWidth]; omega
  unfold JitAst.loadPacket at hcs
  by_cases h0 : 0 ≤ imm.toInt
  · rw [if_pos h0] at hcs
    have hstep := mem_step_last _ _ _ _ _ _ hcs hrip
    have hint : imm.toInt = (imm.toNat : Int) := by
      split at hcond <;> omega
    have hga : X86.addrOf σ rb imm.toInt = (σ.get rb + zx32 imm).toNat := by
      rw [hint, mem_addrOf_nat, BitVec.toNat_add, hzx]
    have hrm := mem_read _ _ _ _ _ hrel.mem hw hread
    refine ⟨1, _, mem_stepsN_single c σ _ (hstep.trans (mem_exec_load c σ sz w _ _ _ _ _ bs hsz hga hrm)), ?_, rfl, rfl, rfl, rfl⟩
    have := rel0_wr retAddr _ s 0 (BitVec.ofNat 64 (leValue bs)) (by omega)
      (rel0_congr retAddr σ { σ with rip := c.codeBase + b } s hrel rfl rfl)
    rw [mem_regOf_zero] at this
    exact this
  · rw [if_neg h0] at hcs
    have hli : JitAst.loadImm JitAst.RCX (imm.toNat : Int) = .movabs JitAst.RCX (BitVec.ofInt 64 (imm.toNat : Int)) := by
      unfold JitAst.loadImm
      rw [if_neg]
      split at hcond <;> omega
    rw [hli] at hcs
    -- movabs rcx, imm
    obtain ⟨a1, hstep1, hcs1⟩ := mem_step_cons _ _ _ _ _ _ _ hcs hrip
    have hex1 : exec c σ (.movabs JitAst.RCX (BitVec.ofInt 64 (imm.toNat : Int))) (c.codeBase + a1) =
        .next (({ σ with rip := c.codeBase + a1 } : St).set 1 (BitVec.ofInt 64 (imm.toNat : Int))) := rfl
    generalize hσ1 : ({ σ with rip := c.codeBase + a1 } : St).set 1 (BitVec.ofInt 64 (imm.toNat : Int)) = σ1 at hex1
    have hrel1 : Rel0 retAddr σ1 s := by
      rw [← hσ1]
      exact rel0_scratch _ _ _ _ _ (Or.inl rfl) (rel0_congr retAddr σ _ s hrel rfl rfl)
    have hrip1 : σ1.rip = c.codeBase + a1 := by rw [← hσ1]; rfl
    have hmem1 : σ1.mem = σ.mem := by rw [← hσ1]; rfl
    have hrcx1 : σ1.get 1 = BitVec.ofInt 64 (imm.toNat : Int) := by
      rw [← hσ1]; exact get_set_eq _ 1 _ (by omega)
    have hrb1 : σ1.get rb = σ.get rb := by
      rw [← hσ1, get_set_ne _ 1 rb _ (by omega)]; rfl
    -- add rcx, base
    obtain ⟨a2, hstep2, hcs2⟩ := mem_step_cons _ _ _ _ _ _ _ hcs1 hrip1
    obtain ⟨σ0, hreg0, hmem0, hex2, hrip2, hlog0, hmis0⟩ := mem_exec_add64 c σ1 rb JitAst.RCX (c.codeBase + a2)
    generalize hσ2 : σ0.set JitAst.RCX (σ1.get JitAst.RCX + σ1.get rb) = σ2 at hex2 hrip2
    have hrel2 : Rel0 retAddr σ2 s := by
      rw [← hσ2]
      exact rel0_scratch _ _ _ _ _ (Or.inl rfl) (rel0_congr retAddr σ1 _ s hrel1 hreg0 hmem0)
    have hmem2 : σ2.mem = σ.mem := by rw [← hσ2, ← hmem1, ← hmem0]; rfl
    have hlog2 : σ2.log = σ.log := by rw [← hσ2, set_log, hlog0, ← hσ1]; rfl
    have hmis2 : σ2.misaligned = σ.misaligned := by rw [← hσ2, set_misaligned, hmis0, ← hσ1]; rfl
    have hrcx2 : σ2.get 1 = σ.get rb + zx32 imm := by
      rw [← hσ2]
      show (σ0.set 1 (σ1.get 1 + σ1.get rb)).get 1 = _
      rw [get_set_eq _ 1 _ (by omega), hrcx1, hrb1, BitVec.add_comm]
      congr 1
      apply BitVec.eq_of_toNat_eq
      rw [hzx, BitVec.ofInt_natCast, BitVec.toNat_ofNat]
      omega
    -- load rax, [rcx]
    have hstep3 := mem_step_last _ _ _ _ _ _ hcs2 hrip2
    have hga : X86.addrOf σ2 JitAst.RCX 0 = (σ.get rb + zx32 imm).toNat := by
      rw [mem_addrOf_zero]; show (σ2.get 1).toNat = _; rw [hrcx2]
    have hrm : readMem σ2.mem (σ.get rb + zx32 imm).toNat w = some bs := by
      rw [hmem2]; exact mem_read _ _ _ _ _ hrel.mem hw hread
    have hex3 := mem_exec_load c σ2 sz w JitAst.RAX JitAst.RCX 0 (c.codeBase + b) _ bs hsz hga hrm
    refine ⟨3, _, mem_stepsN_cons c σ σ1 _ 2 (hstep1.trans hex1)
      (mem_stepsN_cons c σ1 σ2 _ 1 (hstep2.trans hex2) (mem_stepsN_single c σ2 _ (hstep3.trans hex3))), ?_, hmem2, rfl, hlog2, hmis2⟩
    have := rel0_wr retAddr _ s 0 (BitVec.ofNat 64 (leValue bs)) (by omega)
      (rel0_congr retAddr σ2 { σ2 with rip := c.codeBase + b } s hrel2 rfl rfl)
    rw [mem_regOf_zero] at this
    exact this

/-- `ldabs{b,h,w,dw}` -/
theorem mem_sim_ldabs (i : Insn) (sz w : Nat) (hsz : sz / 8 = w) (hw : 0 < w)
    (harm : ∀ haddr pc nx, i.dst.toNat < 11 → i.src.toNat < 11 → JitAst.arm haddr pc i nx =
      .ok (JitAst.loadPacket sz JitAst.R10 i.imm, 1))
    (hexec : ∀ env s, EngineSem.jitExec env s i = pktAbs s i.imm fun a => load env s a w 0) : ArmSim i := by
  intro c tgt haddr pc n a b retAddr ais σ env s s' ha hcs _ hrip hrel hpc hex
  obtain ⟨hd, hs⟩ := mem_arm_regs _ _ _ _ _ _ ha
  rw [harm _ _ _ hd hs] at ha
  simp only [Except.ok.injEq, Prod.mk.injEq] at ha
  obtain ⟨rfl, rfl⟩ := ha
  rw [hexec] at hex
  unfold pktAbs at hex
  split at hex
  · cases hex
  · rename_i hlt
    obtain ⟨bs, hrd, rfl⟩ := mem_load_next _ _ _ _ _ _ (by omega) hex
    have hlt' := i.imm.isLt
    have haddr : (σ.get 10 + zx32 i.imm).toNat = (BitVec.ofNat 64 (s.mem.mem.base + i.imm.toNat)).toNat := by
      rw [hrel.pkt]
      simp only [zx32, BitVec.toNat_add, BitVec.toNat_ofNat, BitVec.toNat_setWidth]
      omega
    rw [← haddr] at hrd
    obtain ⟨k, σ', hsteps, hrel', hmem', hrip', hlog', hmis'⟩ :=
      mem_sim_loadPacket c tgt a b σ s retAddr sz w 10 i.imm bs hcs hrip hrel (Or.inl rfl) hsz hw hrd
    refine ⟨k, σ', hsteps, hrel', ?_, hlog', hmis', rfl, rfl, callersKept_of_mem _ _ _ hmem', Or.inl ⟨hpc, hrip'⟩⟩
    show readMem σ'.mem _ _ = readMem σ.mem _ _
    rw [hmem']

/-- `ldind{b,h,w,dw}` -/
theorem mem_sim_ldind (i : Insn) (sz w : Nat) (hsz : sz / 8 = w) (hw : 0 < w)
    (harm : ∀ haddr pc nx, i.dst.toNat < 11 → i.src.toNat < 11 → JitAst.arm haddr pc i nx =
      .ok ([.i (JitAst.movRR JitAst.R10 JitAst.R11), .i (.aluRR true .add (regOf i.src.toNat) JitAst.R11)] ++
        JitAst.loadPacket sz JitAst.R11 i.imm, 1))
    (hexec : ∀ env s, EngineSem.jitExec env s i =
      rd s i.src.toNat fun x => load env s (BitVec.ofNat 64 s.mem.mem.base + x + zx32 i.imm) w 0) : ArmSim i := by
  intro c tgt haddr pc n a b retAddr ais σ env s s' ha hcs _ hrip hrel hpc hex
  obtain ⟨hd, hs⟩ := mem_arm_regs _ _ _ _ _ _ ha
  rw [harm _ _ _ hd hs] at ha
  simp only [Except.ok.injEq, Prod.mk.injEq] at ha
  obtain ⟨rfl, rfl⟩ := ha
  rw [hexec] at hex
  obtain ⟨x, _, hx, hex⟩ := mem_rd_next _ _ _ _ hex
  obtain ⟨bs, hrd, rfl⟩ := mem_load_next _ _ _ _ _ _ (by omega) hex
  rw [List.cons_append, List.cons_append, List.nil_append] at hcs
  -- mov r11, r10
  obtain ⟨a1, hstep1, hcs1⟩ := mem_step_cons _ _ _ _ _ _ _ hcs hrip
  have hex1 := mem_exec_mov64 c σ JitAst.R10 JitAst.R11 (c.codeBase + a1)
  generalize hσ1 : ({ σ with rip := c.codeBase + a1 } : St).set JitAst.R11 (σ.get JitAst.R10) = σ1 at hex1
  have hrel1 : Rel0 retAddr σ1 s := by
    rw [← hσ1]
    exact rel0_scratch _ _ _ _ _ (Or.inr rfl) (rel0_congr retAddr σ _ s hrel rfl rfl)
  have hrip1 : σ1.rip = c.codeBase + a1 := by rw [← hσ1]; rfl
  have hmem1 : σ1.mem = σ.mem := by rw [← hσ1]; rfl
  have hr11 : σ1.get 11 = BitVec.ofNat 64 s.mem.mem.base := by
    rw [← hσ1, ← hrel.pkt]; exact get_set_eq _ 11 _ (by omega)
  have hsrc1 : σ1.get (regOf i.src.toNat) = x := by
    rw [← hσ1, get_set_ne _ JitAst.R11 _ _ (fun e => (regOf_ne_special _ hs).2.2.1 e.symm), ← hx, ← hrel.regs _ hs]; rfl
  -- add r11, src
  obtain ⟨a2, hstep2, hcs2⟩ := mem_step_cons _ _ _ _ _ _ _ hcs1 hrip1
  obtain ⟨σ0, hreg0, hmem0, hex2, hrip2, hlog0, hmis0⟩ := mem_exec_add64 c σ1 (regOf i.src.toNat) JitAst.R11 (c.codeBase + a2)
  generalize hσ2 : σ0.set JitAst.R11 (σ1.get JitAst.R11 + σ1.get (regOf i.src.toNat)) = σ2 at hex2 hrip2
  have hrel2 : Rel0 retAddr σ2 s := by
    rw [← hσ2]
    exact rel0_scratch _ _ _ _ _ (Or.inr rfl) (rel0_congr retAddr σ1 _ s hrel1 hreg0 hmem0)
  have hmem2 : σ2.mem = σ.mem := by rw [← hσ2, ← hmem1, ← hmem0]; rfl
  have hlog2 : σ2.log = σ.log := by rw [← hσ2, set_log, hlog0, ← hσ1]; rfl
  have hmis2 : σ2.misaligned = σ.misaligned := by rw [← hσ2, set_misaligned, hmis0, ← hσ1]; rfl
  have hr11' : σ2.get 11 = BitVec.ofNat 64 s.mem.mem.base + x := by
    rw [← hσ2]
    show (σ0.set 11 (σ1.get 11 + σ1.get (regOf i.src.toNat))).get 11 = _
    rw [get_set_eq _ 11 _ (by omega), hr11, hsrc1]
  rw [← hr11'] at hrd
  obtain ⟨k, σ', hsteps, hrel', hmem', hrip', hlog', hmis'⟩ :=
    mem_sim_loadPacket c tgt a2 b σ2 s retAddr sz w 11 i.imm bs hcs2 hrip2 hrel2 (Or.inr rfl) hsz hw hrd
  refine ⟨k + 1 + 1, σ', mem_stepsN_cons c σ σ1 _ (k + 1) (hstep1.trans hex1)
    (mem_stepsN_cons c σ1 σ2 _ k (hstep2.trans hex2) hsteps), hrel', ?_, hlog'.trans hlog2, hmis'.trans hmis2, rfl, rfl,
    callersKept_of_mem _ _ _ (hmem'.trans hmem2), Or.inl ⟨hpc, hrip'⟩⟩
  show readMem σ'.mem _ _ = readMem σ.mem _ _
  rw [hmem', hmem2]

/-! ### immediates and addends -/

theorem mem_sx32_toNat (imm : BitVec 32) : ∃ k, (sx32 imm).toNat = imm.toNat + k * 2 ^ 32 := by
  unfold sx32
  rw [BitVec.toNat_signExtend, BitVec.toNat_setWidth]
  have := imm.isLt
  split
  · exact ⟨2 ^ 32 - 1, by omega⟩
  · exact ⟨0, by omega⟩

theorem mem_imm8 (imm : BitVec 32) :
    leBytes (if 8 = 64 then ((JitAst.storeImm 8 imm).signExtend 64).toNat else (JitAst.storeImm 8 imm).toNat) 1 =
      leBytes (sx32 imm).toNat 1 := by
  apply mem_leBytes_congr
  obtain ⟨k, hk⟩ := mem_sx32_toNat imm
  have h1 : imm.toNat &&& 255 = imm.toNat % 2 ^ 8 := Nat.and_two_pow_sub_one_eq_mod _ 8
  rw [if_neg (by decide), hk]
  simp only [JitAst.storeImm, if_true, BitVec.toNat_and, BitVec.toNat_ofNat]
  show (imm.toNat &&& 255) % 2 ^ 8 = _
  omega

theorem mem_imm16 (imm : BitVec 32) :
    leBytes (if 16 = 64 then ((JitAst.storeImm 16 imm).signExtend 64).toNat else (JitAst.storeImm 16 imm).toNat) 2 =
      leBytes (sx32 imm).toNat 2 := by
  apply mem_leBytes_congr
  obtain ⟨k, hk⟩ := mem_sx32_toNat imm
  have h1 : imm.toNat &&& 65535 = imm.toNat % 2 ^ 16 := Nat.and_two_pow_sub_one_eq_mod _ 16
  rw [if_neg (by decide), hk]
  simp only [JitAst.storeImm]
  show (imm.toNat &&& 65535) % 2 ^ 16 = _
  omega

theorem mem_imm32 (imm : BitVec 32) :
    leBytes (if 32 = 64 then (imm.signExtend 64).toNat else imm.toNat) 4 = leBytes (sx32 imm).toNat 4 := by
  apply mem_leBytes_congr
  obtain ⟨k, hk⟩ := mem_sx32_toNat imm
  rw [if_neg (by decide), hk]
  omega

theorem mem_imm64 (imm : BitVec 32) :
    leBytes (if 64 = 64 then (imm.signExtend 64).toNat else imm.toNat) 8 = leBytes (sx32 imm).toNat 8 := by
  rw [if_pos rfl]; rfl

theorem mem_xadd32 (x : BitVec 64) : (zx32 (lo32 x)).toNat % 2 ^ (8 * 4) = x.toNat % 2 ^ (8 * 4) := by
  simp only [zx32, lo32, BitVec.toNat_setWidth]
  omega

/-! ### the 22 opcodes -/

/-- the arm of a given opcode, once both register numbers are known to be mapped -/
local macro "mem_arm_tac" h:ident hd:ident hs:ident : tactic =>
  `(tactic| (unfold JitAst.arm; rw [mapRegister_eq _ $hd, mapRegister_eq _ $hs]; simp only [$h:ident]))

/-- `jitExec` at a given opcode that is none of the special ones: the interpreter's arm -/
local macro "mem_exec_tac" i:ident h:ident : tactic =>
  `(tactic| (
    have h85 : ¬ (Insn.opc $i = 0x85 ∧ Insn.src $i = 1) := fun e => by rw [e.1] at $h:ident; exact absurd $h (by decide)
    have h95 : ¬ (Insn.opc $i = 0x95) := fun e => by rw [e] at $h:ident; exact absurd $h (by decide)
    unfold EngineSem.jitExec EngineSem.cmpImmSigned EngineSem.xaddInsn
    simp only [$h:ident]
    rw [if_neg h85, if_neg h95]
    unfold Interp.exec
    simp only [$h:ident]))

/-- `jitExec` at the two atomic-add opcodes -/
local macro "mem_xexec_tac" h:ident : tactic =>
  `(tactic| (unfold EngineSem.jitExec EngineSem.cmpImmSigned EngineSem.xaddInsn; simp only [$h:ident]))

theorem mem_op_71 (i : Insn) (h : i.opc.toNat = 0x71) : ArmSim i :=
  mem_sim_load i 8 1 rfl (by decide) (fun _ _ _ hd hs => by mem_arm_tac h hd hs) (fun _ _ => by mem_exec_tac i h)

theorem mem_op_69 (i : Insn) (h : i.opc.toNat = 0x69) : ArmSim i :=
  mem_sim_load i 16 2 rfl (by decide) (fun _ _ _ hd hs => by mem_arm_tac h hd hs) (fun _ _ => by mem_exec_tac i h)

theorem mem_op_61 (i : Insn) (h : i.opc.toNat = 0x61) : ArmSim i :=
  mem_sim_load i 32 4 rfl (by decide) (fun _ _ _ hd hs => by mem_arm_tac h hd hs) (fun _ _ => by mem_exec_tac i h)

theorem mem_op_79 (i : Insn) (h : i.opc.toNat = 0x79) : ArmSim i :=
  mem_sim_load i 64 8 rfl (by decide) (fun _ _ _ hd hs => by mem_arm_tac h hd hs) (fun _ _ => by mem_exec_tac i h)

theorem mem_op_72 (i : Insn) (h : i.opc.toNat = 0x72) : ArmSim i :=
  mem_sim_storeI i 8 1 (JitAst.storeImm 8 i.imm) rfl (by decide) (mem_imm8 i.imm)
    (fun _ _ _ hd hs => by mem_arm_tac h hd hs) (fun _ _ => by mem_exec_tac i h)

theorem mem_op_6a (i : Insn) (h : i.opc.toNat = 0x6a) : ArmSim i :=
  mem_sim_storeI i 16 2 (JitAst.storeImm 16 i.imm) rfl (by decide) (mem_imm16 i.imm)
    (fun _ _ _ hd hs => by mem_arm_tac h hd hs) (fun _ _ => by mem_exec_tac i h)

theorem mem_op_62 (i : Insn) (h : i.opc.toNat = 0x62) : ArmSim i :=
  mem_sim_storeI i 32 4 i.imm rfl (by decide) (mem_imm32 i.imm)
    (fun _ _ _ hd hs => by mem_arm_tac h hd hs) (fun _ _ => by mem_exec_tac i h)

theorem mem_op_7a (i : Insn) (h : i.opc.toNat = 0x7a) : ArmSim i :=
  mem_sim_storeI i 64 8 i.imm rfl (by decide) (mem_imm64 i.imm)
    (fun _ _ _ hd hs => by mem_arm_tac h hd hs) (fun _ _ => by mem_exec_tac i h)

theorem mem_op_73 (i : Insn) (h : i.opc.toNat = 0x73) : ArmSim i :=
  mem_sim_store i 8 1 rfl (by decide) (fun _ _ _ hd hs => by mem_arm_tac h hd hs) (fun _ _ => by mem_exec_tac i h)

theorem mem_op_6b (i : Insn) (h : i.opc.toNat = 0x6b) : ArmSim i :=
  mem_sim_store i 16 2 rfl (by decide) (fun _ _ _ hd hs => by mem_arm_tac h hd hs) (fun _ _ => by mem_exec_tac i h)

theorem mem_op_63 (i : Insn) (h : i.opc.toNat = 0x63) : ArmSim i :=
  mem_sim_store i 32 4 rfl (by decide) (fun _ _ _ hd hs => by mem_arm_tac h hd hs) (fun _ _ => by mem_exec_tac i h)

theorem mem_op_7b (i : Insn) (h : i.opc.toNat = 0x7b) : ArmSim i :=
  mem_sim_store i 64 8 rfl (by decide) (fun _ _ _ hd hs => by mem_arm_tac h hd hs) (fun _ _ => by mem_exec_tac i h)

theorem mem_op_c3 (i : Insn) (h : i.opc.toNat = 0xc3) : ArmSim i :=
  mem_sim_lockAdd i false 4 (fun x => zx32 (lo32 x)) rfl (by decide) mem_xadd32
    (fun _ _ _ hd hs => by mem_arm_tac h hd hs) (fun _ _ => by mem_xexec_tac h)

theorem mem_op_db (i : Insn) (h : i.opc.toNat = 0xdb) : ArmSim i :=
  mem_sim_lockAdd i true 8 (fun x => x) rfl (by decide) (fun _ => rfl)
    (fun _ _ _ hd hs => by mem_arm_tac h hd hs) (fun _ _ => by mem_xexec_tac h)

theorem mem_op_30 (i : Insn) (h : i.opc.toNat = 0x30) : ArmSim i :=
  mem_sim_ldabs i 8 1 rfl (by decide) (fun _ _ _ hd hs => by mem_arm_tac h hd hs) (fun _ _ => by mem_exec_tac i h)

theorem mem_op_28 (i : Insn) (h : i.opc.toNat = 0x28) : ArmSim i :=
  mem_sim_ldabs i 16 2 rfl (by decide) (fun _ _ _ hd hs => by mem_arm_tac h hd hs) (fun _ _ => by mem_exec_tac i h)

theorem mem_op_20 (i : Insn) (h : i.opc.toNat = 0x20) : ArmSim i :=
  mem_sim_ldabs i 32 4 rfl (by decide) (fun _ _ _ hd hs => by mem_arm_tac h hd hs) (fun _ _ => by mem_exec_tac i h)

theorem mem_op_38 (i : Insn) (h : i.opc.toNat = 0x38) : ArmSim i :=
  mem_sim_ldabs i 64 8 rfl (by decide) (fun _ _ _ hd hs => by mem_arm_tac h hd hs) (fun _ _ => by mem_exec_tac i h)

theorem mem_op_50 (i : Insn) (h : i.opc.toNat = 0x50) : ArmSim i :=
  mem_sim_ldind i 8 1 rfl (by decide) (fun _ _ _ hd hs => by mem_arm_tac h hd hs) (fun _ _ => by mem_exec_tac i h)

theorem mem_op_48 (i : Insn) (h : i.opc.toNat = 0x48) : ArmSim i :=
  mem_sim_ldind i 16 2 rfl (by decide) (fun _ _ _ hd hs => by mem_arm_tac h hd hs) (fun _ _ => by mem_exec_tac i h)

theorem mem_op_40 (i : Insn) (h : i.opc.toNat = 0x40) : ArmSim i :=
  mem_sim_ldind i 32 4 rfl (by decide) (fun _ _ _ hd hs => by mem_arm_tac h hd hs) (fun _ _ => by mem_exec_tac i h)

theorem mem_op_58 (i : Insn) (h : i.opc.toNat = 0x58) : ArmSim i :=
  mem_sim_ldind i 64 8 rfl (by decide) (fun _ _ _ hd hs => by mem_arm_tac h hd hs) (fun _ _ => by mem_exec_tac i h)

/-- loads, stores, atomic adds and packet loads: the emitted x86-64 code simulates `EngineSem.jitExec` -/
theorem armSim_mem (i : Insn) (h : i.opc.toNat ∈ memOpcodes) : ArmSim i := by
  simp only [memOpcodes, List.mem_cons, List.not_mem_nil, or_false] at h
  rcases h with h | h | h | h | h | h | h | h | h | h | h | h | h | h | h | h | h | h | h | h | h | h
  · exact mem_op_61 i h
  · exact mem_op_69 i h
  · exact mem_op_71 i h
  · exact mem_op_79 i h
  · exact mem_op_62 i h
  · exact mem_op_6a i h
  · exact mem_op_72 i h
  · exact mem_op_7a i h
  · exact mem_op_63 i h
  · exact mem_op_6b i h
  · exact mem_op_73 i h
  · exact mem_op_7b i h
  · exact mem_op_c3 i h
  · exact mem_op_db i h
  · exact mem_op_20 i h
  · exact mem_op_28 i h
  · exact mem_op_30 i h
  · exact mem_op_38 i h
  · exact mem_op_40 i h
  · exact mem_op_48 i h
  · exact mem_op_50 i h
  · exact mem_op_58 i h

end Rbpf.JitSim
