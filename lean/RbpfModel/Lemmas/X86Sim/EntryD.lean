/-
  From call to return at any depth of eBPF-to-eBPF calls (`Entry.lean` / `EntryC.lean` over `jit_run_simD`).
-/
import RbpfModel.Lemmas.X86Sim.EntryC
import RbpfModel.Lemmas.X86Sim.EntryFixed
import RbpfModel.Lemmas.X86Sim.WholeD
namespace Rbpf.JitSim
open Rbpf.X86 (Cfg St Out Instr step exec decode fetch readMem writeMem)
open Rbpf.JitAst (AI Tgt checkSeq window)

/-- the native stack below the eBPF stack has room for `D` nested local calls (48 bytes each) plus the 72 bytes the
    landing-pad slot and one arm's own pushes need -/
def StackRoom (σ : St) (m : Memory) (D : Nat) : Prop :=
  ∃ lower, σ.mem.getLast? = some lower ∧ lower.base + 72 + 48 * D ≤ m.stack.base

/-- machine steps keep the base of the last region (the native stack below the frame) -/
theorem entryd_last_base (c : Cfg) (k : Nat) (σ σ1 : St) (hst : stepsN c k σ = some σ1) (l0 l1 : Region)
    (h0 : σ.mem.getLast? = some l0) (h1 : σ1.mem.getLast? = some l1) : l1.base = l0.base := by
  have hsh := entry_stepsN_shape c k σ σ1 hst
  have := congrArg List.getLast? hsh
  rw [List.getLast?_map, List.getLast?_map, h0, h1] at this
  simp only [Option.map_some, Option.some.injEq, entry_shape, Prod.mk.injEq] at this
  exact this.1

/-- `RelD` at depth 0, from `Rel` after the prologue -/
theorem entryd_relD (c : Cfg) (p : Bytes) (L : JitAst.Layout) (retAddr : Nat) (top : List (BitVec 8)) (D k : Nat) (m : Memory)
    (σ σ1 : St) (s : State) (hst : stepsN c k σ = some σ1) (hrel : Rel c p L retAddr top σ1 s)
    (hlog1 : σ1.log = σ.log) (hlog : σ.log = []) (hslog : s.log = []) (hsb : s.mem.stack.base = m.stack.base)
    (halign : m.stack.base % 16 = 0) (hroom : StackRoom σ m D) : RelD c p L retAddr top D σ1 s := by
  have hd := hrel.depth0
  have hrsp := hrel.rel0.rsp
  rw [hd, hsb] at hrsp
  simp only [List.length_nil, Nat.mul_zero, Nat.add_zero] at hrsp
  refine ⟨retAddr, hrel.rel0, hrel.top, hrel.start, hrel.rip, ?_, ?_, by rw [hsb]; exact halign, by rw [hd]; exact Nat.zero_le _, ?_⟩
  · rw [hd]; simp only [FramesOk]
  · unfold LogRel
    rw [hlog1, hlog, hslog]
  · obtain ⟨l1, hl1, -⟩ := hrel.rel0.room
    obtain ⟨l0, hl0, hr0⟩ := hroom
    have hb := entryd_last_base c k σ σ1 hst l0 l1 hl0 hl1
    refine ⟨l1, hl1, ?_⟩
    rw [hd]
    simp only [List.length_nil, Nat.sub_zero]
    omega

/-- **From call to return, with helper calls and eBPF-to-eBPF calls** (VM kinds Mbuff / Raw / NoData). -/
theorem jit_call_to_returnD (env : Env) (haddr : Nat → Option Nat) (um : Bool) (c : Cfg) (L : JitAst.Layout) (m : Memory) (σ : St)
    (D fuel : Nat) (r0 : BitVec 64) (s' : State)
    (hv : JitAst.validate env.prog haddr um false c.code L = true) (hcov : CoveredD env.prog) (hext : ExtOk c env haddr)
    (hsize : c.codeBase + c.code.size < 2 ^ 63)
    (hsent : c.retSentinel.toNat < c.codeBase ∨ c.codeBase + c.code.size ≤ c.retSentinel.toNat)
    (he : Entry c m σ) (hlog : σ.log = []) (halign : m.stack.base % 16 = 0) (hroom : StackRoom σ m D)
    (hdepth : depthOk c.clobber env D (entryState m σ um) fuel)
    (hrun : jitRunC c.clobber env (entryState m σ um) fuel = .done r0 s') :
    ∃ k σ', X86.run c σ k = .done r0 σ' ∧ MemRel σ'.mem s'.mem ∧
      σ'.get 3 = σ.get 3 ∧ σ'.get 5 = σ.get 5 ∧ σ'.get 13 = σ.get 13 ∧ σ'.get 14 = σ.get 14 ∧ σ'.get 15 = σ.get 15 ∧
      (σ'.get X86.RSP).toNat = (σ.get X86.RSP).toNat + 8 ∧
      σ'.log.map (·.2) = s'.log.map (·.2) ∧ σ'.misaligned = σ.misaligned := by
  obtain ⟨hne, h0⟩ := entryf_first c.clobber env _ s' fuel r0 (entry_entryState_pc m σ um) hrun
  obtain ⟨k1, σ1, retAddr, top, hst1, hrel, hpad, hsaved, hlog1, hmis1⟩ :=
    jit_prologue_simL env haddr um c L m σ hv hsize hne h0 he
  have hrelD : RelD c env.prog L retAddr top D σ1 (entryState m σ um) :=
    entryd_relD c env.prog L retAddr top D k1 m σ σ1 _ hst1 hrel hlog1 hlog rfl rfl halign hroom
  have hpad' := hpad
  obtain ⟨hp1, hp2, -⟩ := hpad'
  obtain ⟨k2, σ2, hst2, hrip2, hrax2, hmem2, hrsp2, htb2, hlog2, hmis2⟩ :=
    jit_run_simD env haddr um false c L retAddr top D fuel σ1 (entryState m σ um) s' r0 hv hcov hext hsize hsent ⟨hp1, hp2⟩ hrelD hdepth hrun
  obtain ⟨k3, σ3, hrun3, hmem3, g3, g5, g13, g14, g15, hrsp3, hlm3⟩ :=
    entry_epilogue_sim env haddr um false c L σ σ2 s' retAddr top r0 hv hsize hpad hsaved hrip2 hrax2 hmem2 hrsp2 htb2
  have hlog3 : σ3.log = σ2.log := congrArg Prod.fst hlm3
  have hmis3 : σ3.misaligned = σ2.misaligned := congrArg Prod.snd hlm3
  have hst12 := stepsN_add c k1 k2 σ σ1 σ2 hst1 hst2
  refine ⟨k1 + k2 + k3, σ3, ?_, by rw [hmem3]; exact hmem2, g3, g5, g13, g14, g15, ?_, ?_, ?_⟩
  · rw [run_of_stepsN c (k1 + k2) k3 σ σ2 hst12]; exact hrun3
  · -- the machine's memory keeps its shape, so the frame is where it was
    have hshape := entry_stepsN_shape c _ σ σ2 hst12
    obtain ⟨f0, l0, hx0, hb0, -⟩ := entry_memrel_split _ _ he.mem
    obtain ⟨f2, l2, hx2, hb2, -⟩ := entry_memrel_split _ _ hmem2
    rw [hx0, hx2] at hshape
    simp only [List.map_cons, List.cons.injEq, entry_shape, Prod.mk.injEq] at hshape
    have hbase : s'.mem.stack.base = m.stack.base := by rw [← hb2, ← hb0]; exact hshape.1.1
    rw [hrsp3, hbase]
    have := he.rsp
    change (σ.get 4).toNat = _ at this
    change _ = (σ.get 4).toNat + 8
    omega
  · have h2 : σ2.log.map (·.2) = s'.log.map (·.2) := hlog2
    rw [hlog3]; exact h2
  · rw [hmis3, hmis2, hmis1]

/-- the same for the fixed-metadata VM -/
theorem jit_call_to_return_fixedD (env : Env) (haddr : Nat → Option Nat) (c : Cfg) (L : JitAst.Layout) (m : Memory) (d e : Nat) (σ : St)
    (D fuel : Nat) (r0 : BitVec 64) (s' : State)
    (hv : JitAst.validate env.prog haddr true true c.code L = true) (hcov : CoveredD env.prog) (hext : ExtOk c env haddr)
    (hsize : c.codeBase + c.code.size < 2 ^ 63)
    (hsent : c.retSentinel.toNat < c.codeBase ∨ c.codeBase + c.code.size ≤ c.retSentinel.toNat)
    (he : EntryFixed c m d e σ) (hlog : σ.log = []) (halign : m.stack.base % 16 = 0) (hroom : StackRoom σ m D)
    (hdepth : depthOk c.clobber env D (entryStateFixed m σ d e) fuel)
    (hrun : jitRunC c.clobber env (entryStateFixed m σ d e) fuel = .done r0 s') :
    ∃ k σ', X86.run c σ k = .done r0 σ' ∧ MemRel σ'.mem s'.mem ∧
      σ'.get 3 = σ.get 3 ∧ σ'.get 5 = σ.get 5 ∧ σ'.get 13 = σ.get 13 ∧ σ'.get 14 = σ.get 14 ∧ σ'.get 15 = σ.get 15 ∧
      (σ'.get X86.RSP).toNat = (σ.get X86.RSP).toNat + 8 ∧
      σ'.log.map (·.2) = s'.log.map (·.2) ∧ σ'.misaligned = σ.misaligned := by
  obtain ⟨hne, h0⟩ := entryf_first c.clobber env _ s' fuel r0 (entryf_state_pc m σ d e) hrun
  obtain ⟨k1, σ1, retAddr, top, hst1, hrel, hpad, hsaved, hlog1, hmis1⟩ :=
    jit_prologue_sim_fixed env haddr c L m d e σ hv hsize hne h0 he
  have hrelD : RelD c env.prog L retAddr top D σ1 (entryStateFixed m σ d e) :=
    entryd_relD c env.prog L retAddr top D k1 m σ σ1 _ hst1 hrel hlog1 hlog (entryf_state_log m σ d e)
      (by rw [entryf_state_mem, entryf_prepared_stack]) halign hroom
  have hpad' := hpad
  obtain ⟨hp1, hp2, -⟩ := hpad'
  obtain ⟨k2, σ2, hst2, hrip2, hrax2, hmem2, hrsp2, htb2, hlog2, hmis2⟩ :=
    jit_run_simD env haddr true true c L retAddr top D fuel σ1 (entryStateFixed m σ d e) s' r0 hv hcov hext hsize hsent ⟨hp1, hp2⟩ hrelD hdepth hrun
  obtain ⟨k3, σ3, hrun3, hmem3, g3, g5, g13, g14, g15, hrsp3, hlm3⟩ :=
    entry_epilogue_sim env haddr true true c L σ σ2 s' retAddr top r0 hv hsize hpad hsaved hrip2 hrax2 hmem2 hrsp2 htb2
  have hlog3 : σ3.log = σ2.log := congrArg Prod.fst hlm3
  have hmis3 : σ3.misaligned = σ2.misaligned := congrArg Prod.snd hlm3
  have hst12 := stepsN_add c k1 k2 σ σ1 σ2 hst1 hst2
  refine ⟨k1 + k2 + k3, σ3, ?_, by rw [hmem3]; exact hmem2, g3, g5, g13, g14, g15, ?_, ?_, ?_⟩
  · rw [run_of_stepsN c (k1 + k2) k3 σ σ2 hst12]; exact hrun3
  · -- the machine's memory keeps its shape, so the frame is where it was
    have hshape := entry_stepsN_shape c _ σ σ2 hst12
    obtain ⟨f0, l0, hx0, hb0, -⟩ := entry_memrel_split _ _ he.entry.mem
    obtain ⟨f2, l2, hx2, hb2, -⟩ := entry_memrel_split _ _ hmem2
    rw [hx0, hx2] at hshape
    simp only [List.map_cons, List.cons.injEq, entry_shape, Prod.mk.injEq] at hshape
    have hbase : s'.mem.stack.base = m.stack.base := by rw [← hb2, ← hb0]; exact hshape.1.1
    rw [hrsp3, hbase]
    have := he.entry.rsp
    change (σ.get 4).toNat = _ at this
    change _ = (σ.get 4).toNat + 8
    omega
  · have h2 : σ2.log.map (·.2) = s'.log.map (·.2) := hlog2
    rw [hlog3]; exact h2
  · rw [hmis3, hmis2, hmis1]

end Rbpf.JitSim
