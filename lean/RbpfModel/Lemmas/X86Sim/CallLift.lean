/-
  Lifting the per-class simulation lemmas from `ArmSim` to `ArmSimC`: an instruction that is not a helper call makes
  no external call on either side, and machine steps never move a memory region.
-/
import RbpfModel.Model.JitSimC
import RbpfModel.Lemmas.X86Sim.Base
import RbpfModel.Lemmas.X86Sim.EntryCore
namespace Rbpf.JitSim
open Rbpf.X86 (Cfg St Out Instr step exec decode fetch readMem writeMem)
open Rbpf.JitAst (AI Tgt checkSeq window)

/-- the base of the eBPF stack is the base of the first region of the machine's memory -/
theorem call_stackBase_of_rel0 (retAddr : Nat) (σ : St) (s : State) (h : Rel0 retAddr σ s) :
    (σ.mem.map entry_shape).head? = some (s.mem.stack.base, 568) := by
  obtain ⟨frame, lower, hxm, hfb, _, hfs, _⟩ := h.mem
  rw [hxm]
  simp [entry_shape, hfb, hfs]

/-- machine steps between two states that both represent eBPF states: the eBPF stack did not move -/
theorem call_stackBase_eq (c : Cfg) (retAddr k : Nat) (σ σ' : St) (s s' : State) (hst : stepsN c k σ = some σ')
    (h : Rel0 retAddr σ s) (h' : Rel0 retAddr σ' s') : s'.mem.stack.base = s.mem.stack.base := by
  have h1 := call_stackBase_of_rel0 retAddr σ s h
  have h2 := call_stackBase_of_rel0 retAddr σ' s' h'
  rw [entry_stepsN_shape c k σ σ' hst, h1] at h2
  simp only [Option.some.injEq, Prod.mk.injEq, and_true] at h2
  exact h2.symm

theorem call_logRel_congr (σ σ' : St) (s s' : State) (h : LogRel σ s) (h1 : σ'.log = σ.log) (h2 : s'.log = s.log) :
    LogRel σ' s' := by
  unfold LogRel at h ⊢
  rw [h1, h2]; exact h

/-- every instruction that is not a helper call: `ArmSim` gives `ArmSimC` (no external call on either side) -/
theorem call_armSimC_of_armSim (clob : Nat → Nat → BitVec 64) (i : Insn) (h : ArmSim i) (hn : ¬ (i.opc = 0x85 ∧ i.src = 0)) :
    ArmSimC clob i := by
  intro c tgt haddr pc n a b retAddr ais σ env s s' _ _ harm hchk hb hrip hrel hlog _ hpc hex
  unfold jitExecC at hex
  rw [if_neg hn] at hex
  obtain ⟨k, σ', hst, hrel', htop, hl, hmis, hsl, hfr, hkept, hend⟩ := h c tgt haddr pc n a b retAddr ais σ env s s' harm hchk hb hrip hrel hpc hex
  exact ⟨k, σ', hst, hrel', call_logRel_congr σ σ' s s' hlog hl hsl, htop, hmis,
    call_stackBase_eq c retAddr k σ σ' s s' hst hrel hrel', hfr, hkept, hend⟩

end Rbpf.JitSim
