/-
  x86-64 simulation, opcode class `aluOpcodes`, part 1: what each ALU-type machine instruction does to the register
  file (`AluStep`), the arithmetic identifying the machine's results with the interpreter's, and the frames that turn a
  one- or two-instruction arm into an `ArmSim` statement.
-/
import RbpfModel.Lemmas.X86Sim.Base
set_option linter.unusedSimpArgs false
namespace Rbpf.JitSim
open Rbpf.X86 (Cfg St Out Instr step exec decode fetch readMem writeMem AluOp ShOp)
open Rbpf.JitAst (AI Tgt checkSeq window)
open Rbpf.Interp (lo32 zx32 sx32)
theorem alu_ws64 (σ : St) (r v : Nat) : X86.writeSized σ 64 r v = σ.set r (BitVec.ofNat 64 v) := by
  have : BitVec.ofNat 64 (v % 2 ^ 64) = BitVec.ofNat 64 v := by
    apply BitVec.eq_of_toNat_eq; simp
  simp [X86.writeSized, this]

theorem alu_ws32 (σ : St) (r v : Nat) : X86.writeSized σ 32 r v = σ.set r (zx32 (BitVec.ofNat 32 v)) := by
  have : BitVec.ofNat 64 (v % 2 ^ 32) = zx32 (BitVec.ofNat 32 v) := by
    apply BitVec.eq_of_toNat_eq; simp [zx32]
  simp [X86.writeSized, this]

theorem alu_trunc64 (v : BitVec 64) : X86.trunc 64 v = v.toNat := by
  simp [X86.trunc]; omega

theorem alu_trunc32 (v : BitVec 64) : X86.trunc 32 v = (lo32 v).toNat := by
  simp [X86.trunc, lo32]

def aluBV {w : Nat} (op : AluOp) (a b : BitVec w) : BitVec w :=
  match op with
  | .add => a + b | .sub => a - b | .and => a &&& b | .or => a ||| b | .xor => a ^^^ b | .mov => b
  | .cmp => a | .test => a

theorem alu_alu {w : Nat} (op : AluOp) (h1 : op ≠ .cmp) (h2 : op ≠ .test) (a b : BitVec w) (fl : Option X86.Flags) :
    ∃ v fl', X86.alu op w a.toNat b.toNat fl = (some v, fl') ∧ BitVec.ofNat w v = aluBV op a b := by
  cases op
  · exact ⟨_, _, rfl, by apply BitVec.eq_of_toNat_eq; simp [aluBV, BitVec.toNat_add]⟩
  · exact ⟨_, _, rfl, by apply BitVec.eq_of_toNat_eq; simp [aluBV]⟩
  · exact ⟨_, _, rfl, by apply BitVec.eq_of_toNat_eq; simp [aluBV]⟩
  · exact ⟨_, _, rfl, by apply BitVec.eq_of_toNat_eq; simp only [aluBV, BitVec.toNat_sub, BitVec.toNat_ofNat]; have := b.isLt; generalize 2 ^ w = m at *; rw [Nat.mod_mod]; congr 1; omega⟩
  · exact ⟨_, _, rfl, by apply BitVec.eq_of_toNat_eq; simp [aluBV]⟩
  · exact absurd rfl h1
  · exact absurd rfl h2
  · exact ⟨_, _, rfl, by apply BitVec.eq_of_toNat_eq; simp [aluBV]⟩

/-- machine instruction `x` continues, writes `v` to register `r` and leaves the other registers and memory alone -/
def AluStep (c : Cfg) (σ : St) (x : Instr) (r : Nat) (v : BitVec 64) : Prop :=
  ∀ nx, ∃ σ1, exec c σ x nx = .next σ1 ∧ σ1.reg = σ.reg.setIfInBounds r v ∧ σ1.mem = σ.mem ∧ σ1.rip = nx ∧
    σ1.log = σ.log ∧ σ1.misaligned = σ.misaligned

theorem alu_exec_rr (c : Cfg) (σ : St) (w : Bool) (op : AluOp) (s d nx v : Nat) (fl' : Option X86.Flags)
    (hv : X86.alu op (if w then 64 else 32) (X86.trunc (if w then 64 else 32) (σ.get d))
            (X86.trunc (if w then 64 else 32) (σ.get s)) σ.flags = (some v, fl')) :
    exec c σ (.aluRR w op s d) nx = .next (X86.writeSized { σ with rip := nx, flags := fl' } (if w then 64 else 32) d v) := by
  simp only [St.get] at hv
  simp only [exec, St.get, hv]

theorem alu_exec_ri (c : Cfg) (σ : St) (w : Bool) (op : AluOp) (d : Nat) (imm : BitVec 32) (nx v : Nat) (fl' : Option X86.Flags)
    (hv : X86.alu op (if w then 64 else 32) (X86.trunc (if w then 64 else 32) (σ.get d))
            (if w then (imm.signExtend 64).toNat else imm.toNat) σ.flags = (some v, fl')) :
    exec c σ (.aluRI w op d imm) nx = .next (X86.writeSized { σ with rip := nx, flags := fl' } (if w then 64 else 32) d v) := by
  simp only [St.get] at hv
  simp only [exec, St.get, hv]

theorem alu_x_rr64 (c : Cfg) (σ : St) (op : AluOp) (h1 : op ≠ .cmp) (h2 : op ≠ .test) (s d : Nat) :
    AluStep c σ (.aluRR true op s d) d (aluBV op (σ.get d) (σ.get s)) := by
  intro nx
  obtain ⟨v, fl', hv, hv'⟩ := alu_alu op h1 h2 (σ.get d) (σ.get s) σ.flags
  refine ⟨_, alu_exec_rr c σ true op s d nx v fl' ?_, ?_, ?_, ?_, ?_, ?_⟩
  · simpa [alu_trunc64] using hv
  · simp [alu_ws64, hv', St.set]
  · simp [alu_ws64, St.set]
  · simp [alu_ws64, St.set]
  · simp [alu_ws64, St.set]
  · simp [alu_ws64, St.set]

theorem alu_x_rr32 (c : Cfg) (σ : St) (op : AluOp) (h1 : op ≠ .cmp) (h2 : op ≠ .test) (s d : Nat) :
    AluStep c σ (.aluRR false op s d) d (zx32 (aluBV op (lo32 (σ.get d)) (lo32 (σ.get s)))) := by
  intro nx
  obtain ⟨v, fl', hv, hv'⟩ := alu_alu op h1 h2 (lo32 (σ.get d)) (lo32 (σ.get s)) σ.flags
  refine ⟨_, alu_exec_rr c σ false op s d nx v fl' ?_, ?_, ?_, ?_, ?_, ?_⟩
  · simpa [alu_trunc32] using hv
  · simp [alu_ws32, hv', St.set]
  · simp [alu_ws32, St.set]
  · simp [alu_ws32, St.set]
  · simp [alu_ws32, St.set]
  · simp [alu_ws32, St.set]

theorem alu_x_ri64 (c : Cfg) (σ : St) (op : AluOp) (h1 : op ≠ .cmp) (h2 : op ≠ .test) (d : Nat) (imm : BitVec 32) :
    AluStep c σ (.aluRI true op d imm) d (aluBV op (σ.get d) (sx32 imm)) := by
  intro nx
  obtain ⟨v, fl', hv, hv'⟩ := alu_alu op h1 h2 (σ.get d) (sx32 imm) σ.flags
  refine ⟨_, alu_exec_ri c σ true op d imm nx v fl' ?_, ?_, ?_, ?_, ?_, ?_⟩
  · simpa [alu_trunc64, sx32] using hv
  · simp [alu_ws64, hv', St.set]
  · simp [alu_ws64, St.set]
  · simp [alu_ws64, St.set]
  · simp [alu_ws64, St.set]
  · simp [alu_ws64, St.set]

theorem alu_x_ri32 (c : Cfg) (σ : St) (op : AluOp) (h1 : op ≠ .cmp) (h2 : op ≠ .test) (d : Nat) (imm : BitVec 32) :
    AluStep c σ (.aluRI false op d imm) d (zx32 (aluBV op (lo32 (σ.get d)) imm)) := by
  intro nx
  obtain ⟨v, fl', hv, hv'⟩ := alu_alu op h1 h2 (lo32 (σ.get d)) imm σ.flags
  refine ⟨_, alu_exec_ri c σ false op d imm nx v fl' ?_, ?_, ?_, ?_, ?_, ?_⟩
  · simpa [alu_trunc32] using hv
  · simp [alu_ws32, hv', St.set]
  · simp [alu_ws32, St.set]
  · simp [alu_ws32, St.set]
  · simp [alu_ws32, St.set]
  · simp [alu_ws32, St.set]

def aluShBV {w : Nat} (op : ShOp) (a : BitVec w) (c : Nat) : BitVec w :=
  match op with
  | .shl => a <<< c | .shr => a >>> c | .sar => a.sshiftRight c | .rol => a

theorem alu_shift64 (op : ShOp) (h : op ≠ .rol) (a : BitVec 64) (n : Nat) :
    BitVec.ofNat 64 (X86.shift op 64 a.toNat n) = aluShBV op a (n % 64) := by
  cases op
  · apply BitVec.eq_of_toNat_eq; simp [X86.shift, aluShBV]
  · apply BitVec.eq_of_toNat_eq; simp [X86.shift, aluShBV]
    exact Nat.lt_of_le_of_lt (Nat.shiftRight_le _ _) a.isLt
  · simp [X86.shift, aluShBV]
  · exact absurd rfl h

theorem alu_shift32 (op : ShOp) (h : op ≠ .rol) (a : BitVec 32) (n : Nat) :
    BitVec.ofNat 32 (X86.shift op 32 a.toNat n) = aluShBV op a (n % 32) := by
  cases op
  · apply BitVec.eq_of_toNat_eq; simp [X86.shift, aluShBV]
  · apply BitVec.eq_of_toNat_eq; simp [X86.shift, aluShBV]
    exact Nat.lt_of_le_of_lt (Nat.shiftRight_le _ _) a.isLt
  · simp [X86.shift, aluShBV]
  · exact absurd rfl h

theorem alu_x_shI64 (c : Cfg) (σ : St) (op : ShOp) (h : op ≠ .rol) (d n : Nat) :
    AluStep c σ (.shiftI 64 op d n) d (aluShBV op (σ.get d) (n % 64)) := by
  intro nx
  refine ⟨_, rfl, ?_, ?_, ?_, ?_, ?_⟩
  · simp only [alu_ws64, St.set]
    show σ.reg.setIfInBounds d (BitVec.ofNat 64 (X86.shift op 64 (X86.trunc 64 (σ.get d)) n)) = _
    rw [alu_trunc64, alu_shift64 op h]
  · simp [alu_ws64, St.set]
  · simp [alu_ws64, St.set]
  · simp [alu_ws64, St.set]
  · simp [alu_ws64, St.set]

theorem alu_x_shI32 (c : Cfg) (σ : St) (op : ShOp) (h : op ≠ .rol) (d n : Nat) :
    AluStep c σ (.shiftI 32 op d n) d (zx32 (aluShBV op (lo32 (σ.get d)) (n % 32))) := by
  intro nx
  refine ⟨_, rfl, ?_, ?_, ?_, ?_, ?_⟩
  · simp only [alu_ws32, St.set]
    show σ.reg.setIfInBounds d (zx32 (BitVec.ofNat 32 (X86.shift op 32 (X86.trunc 32 (σ.get d)) n))) = _
    rw [alu_trunc32, alu_shift32 op h]
  · simp [alu_ws32, St.set]
  · simp [alu_ws32, St.set]
  · simp [alu_ws32, St.set]
  · simp [alu_ws32, St.set]

theorem alu_x_shCl64 (c : Cfg) (σ : St) (op : ShOp) (h : op ≠ .rol) (d : Nat) :
    AluStep c σ (.shiftCl true op d) d (aluShBV op (σ.get d) ((σ.get 1).toNat % 64)) := by
  intro nx
  refine ⟨_, rfl, ?_, ?_, ?_, ?_, ?_⟩
  · simp only [if_true, alu_ws64, St.set]
    show σ.reg.setIfInBounds d (BitVec.ofNat 64 (X86.shift op 64 (X86.trunc 64 (σ.get d)) ((σ.get 1).toNat % 256))) = _
    rw [alu_trunc64, alu_shift64 op h]
    congr 2; omega
  · simp [alu_ws64, St.set]
  · simp [alu_ws64, St.set]
  · simp [alu_ws64, St.set]
  · simp [alu_ws64, St.set]

theorem alu_x_shCl32 (c : Cfg) (σ : St) (op : ShOp) (h : op ≠ .rol) (d : Nat) :
    AluStep c σ (.shiftCl false op d) d (zx32 (aluShBV op (lo32 (σ.get d)) ((σ.get 1).toNat % 32))) := by
  intro nx
  refine ⟨_, rfl, ?_, ?_, ?_, ?_, ?_⟩
  · simp only [Bool.false_eq_true, ↓reduceIte, alu_ws32, St.set]
    show σ.reg.setIfInBounds d (zx32 (BitVec.ofNat 32 (X86.shift op 32 (X86.trunc 32 (σ.get d)) ((σ.get 1).toNat % 256)))) = _
    rw [alu_trunc32, alu_shift32 op h]
    congr 3; omega
  · simp [alu_ws32, St.set]
  · simp [alu_ws32, St.set]
  · simp [alu_ws32, St.set]
  · simp [alu_ws32, St.set]

theorem alu_x_neg64 (c : Cfg) (σ : St) (d : Nat) : AluStep c σ (.neg true d) d (- σ.get d) := by
  intro nx
  refine ⟨_, rfl, ?_, ?_, ?_, ?_, ?_⟩
  · simp only [if_true, alu_ws64, St.set]
    show σ.reg.setIfInBounds d (BitVec.ofNat 64 ((2 ^ 64 - X86.trunc 64 (σ.get d)) % 2 ^ 64)) = _
    rw [alu_trunc64]; congr 1
    apply BitVec.eq_of_toNat_eq; simp [BitVec.toNat_neg]
  · simp [alu_ws64, St.set]
  · simp [alu_ws64, St.set]
  · simp [alu_ws64, St.set]
  · simp [alu_ws64, St.set]

theorem alu_x_neg32 (c : Cfg) (σ : St) (d : Nat) : AluStep c σ (.neg false d) d (zx32 (- lo32 (σ.get d))) := by
  intro nx
  refine ⟨_, rfl, ?_, ?_, ?_, ?_, ?_⟩
  · simp only [Bool.false_eq_true, ↓reduceIte, alu_ws32, St.set]
    show σ.reg.setIfInBounds d (zx32 (BitVec.ofNat 32 ((2 ^ 32 - X86.trunc 32 (σ.get d)) % 2 ^ 32))) = _
    rw [alu_trunc32]; congr 2
    apply BitVec.eq_of_toNat_eq; simp [BitVec.toNat_neg]
  · simp [alu_ws32, St.set]
  · simp [alu_ws32, St.set]
  · simp [alu_ws32, St.set]
  · simp [alu_ws32, St.set]

theorem alu_x_bswap (c : Cfg) (σ : St) (w : Bool) (d : Nat) :
    AluStep c σ (.bswap w d) d (Interp.bswap (σ.get d) (if w then 8 else 4)) := by
  intro nx
  exact ⟨_, rfl, rfl, rfl, rfl, rfl, rfl⟩

theorem alu_x_movabs (c : Cfg) (σ : St) (d : Nat) (imm : BitVec 64) : AluStep c σ (.movabs d imm) d imm := by
  intro nx
  exact ⟨_, rfl, rfl, rfl, rfl, rfl, rfl⟩

theorem alu_cnt64 (imm : BitVec 32) : imm.toNat % 256 % 64 = (sx32 imm).toNat % 64 := by
  simp only [sx32, BitVec.toNat_signExtend]
  split <;> simp <;> omega

theorem alu_cnt32 (imm : BitVec 32) : imm.toNat % 256 % 32 = imm.toNat % 32 := by omega

theorem alu_cnt32r (x : BitVec 64) : x.toNat % 32 = (lo32 x).toNat % 32 := by
  simp [lo32]

theorem alu_sx_and (y : BitVec 32) : sx32 y &&& 0xffffffff#64 = zx32 y := by
  apply BitVec.eq_of_toNat_eq
  simp only [sx32, zx32, BitVec.toNat_and, BitVec.toNat_signExtend, BitVec.toNat_setWidth, BitVec.toNat_ofNat]
  have : (4294967295 % 2 ^ 64) = 2 ^ 32 - 1 := by decide
  rw [this, Nat.and_two_pow_sub_one_eq_mod]
  have := y.isLt
  split <;> omega

/-- what `rol r16, 8` leaves in the register -/
def alu_rol16 (v : BitVec 64) : BitVec 64 :=
  BitVec.ofNat 64 (v.toNat / 2 ^ 16 * 2 ^ 16 + X86.shift .rol 16 (X86.trunc 16 v) 8 % 2 ^ 16)

theorem alu_x_rol16 (c : Cfg) (σ : St) (d : Nat) : AluStep c σ (.shiftI 16 .rol d 8) d (alu_rol16 (σ.get d)) := by
  intro nx
  exact ⟨_, rfl, rfl, rfl, rfl, rfl, rfl⟩

theorem alu_be16 (v : BitVec 64) : zx32 (aluBV .and (lo32 (alu_rol16 v)) 0xffff#32) = Interp.bswap v 2 := by
  apply BitVec.eq_of_toNat_eq
  have e : (65535 : Nat) = 2 ^ 16 - 1 := by decide
  simp only [zx32, lo32, aluBV, alu_rol16, X86.shift, X86.trunc, Interp.bswap, leBytes, leValue, List.reverse_cons,
    List.reverse_nil, List.nil_append, List.cons_append, BitVec.toNat_and, BitVec.toNat_setWidth, BitVec.toNat_ofNat]
  have h8 : (if 16 = 64 then 8 % 64 else 8 % 32) % 16 = 8 := by decide
  have h65 : 65535 % 2 ^ 32 = 2 ^ 16 - 1 := by decide
  rw [h8, h65, Nat.and_two_pow_sub_one_eq_mod]
  have hlt : (v.toNat % 2 ^ 16) >>> (16 - 8) < 2 ^ 8 := by
    rw [Nat.shiftRight_eq_div_pow]; omega
  rw [← Nat.shiftLeft_add_eq_or_of_lt hlt, Nat.shiftLeft_eq, Nat.shiftRight_eq_div_pow]
  have hv := v.isLt
  generalize v.toNat = t at *
  clear h8 h65 hlt e
  obtain ⟨q, h, l, rfl, hh, hl⟩ : ∃ q h l, t = 65536 * q + 256 * h + l ∧ h < 256 ∧ l < 256 :=
    ⟨t / 65536, t / 256 % 256, t % 256, by omega, by omega, by omega⟩
  have h1 : (65536 * q + 256 * h + l) % 2 ^ 16 = 256 * h + l := by omega
  have h2 : (65536 * q + 256 * h + l) / 2 ^ 16 = q := by omega
  have h3 : (65536 * q + 256 * h + l) / 256 % 2 ^ 8 = h := by omega
  have h4 : (65536 * q + 256 * h + l) % 2 ^ 8 = l := by omega
  rw [h1, h2, h3, h4]
  have h5 : (256 * h + l) / 2 ^ (16 - 8) = h := by omega
  rw [h5]
  have h6 : ((256 * h + l) * 2 ^ 8 + h) % 2 ^ 16 = 256 * l + h := by omega
  rw [h6, Nat.mod_mod_of_dvd _ (by decide : 2 ^ 32 ∣ 2 ^ 64), Nat.mod_mod_of_dvd _ (by decide : 2 ^ 16 ∣ 2 ^ 32),
    Nat.mul_add_mod_self_right]
  have hx : 256 * l + h < 2 ^ 16 := by omega
  rw [Nat.mod_eq_of_lt hx, Nat.mod_eq_of_lt hx]
  congr 1
  omega

theorem alu_le16 (d : BitVec 64) : zx32 (aluBV .and (lo32 d) 0xffff#32) = (d.setWidth 16).setWidth 64 := by
  apply BitVec.eq_of_toNat_eq
  have h65 : 65535 % 2 ^ 32 = 2 ^ 16 - 1 := by decide
  simp only [zx32, lo32, aluBV, BitVec.toNat_and, BitVec.toNat_setWidth, BitVec.toNat_ofNat]
  rw [h65, Nat.and_two_pow_sub_one_eq_mod, Nat.mod_mod_of_dvd _ (by decide : 2 ^ 16 ∣ 2 ^ 32)]

theorem alu_sx_ofInt (v : BitVec 64) (h : -2147483648 ≤ v.toInt ∧ v.toInt ≤ 2147483647) :
    sx32 (BitVec.ofInt 32 v.toInt) = v := by
  apply BitVec.eq_of_toInt_eq
  rw [sx32, BitVec.toInt_signExtend_of_le (by decide), BitVec.toInt_ofInt_eq_self (by decide) (by omega) (by omega)]

theorem alu_x_loadImm (c : Cfg) (σ : St) (d : Nat) (v : BitVec 64) : AluStep c σ (JitAst.loadImm d v.toInt) d v := by
  unfold JitAst.loadImm
  split
  · rename_i h
    have := alu_x_ri64 c σ .mov (by decide) (by decide) d (BitVec.ofInt 32 v.toInt)
    rw [alu_sx_ofInt v h] at this
    exact this
  · rw [BitVec.ofInt_toInt]
    exact alu_x_movabs c σ d v

theorem alu_sx_toInt (imm : BitVec 32) : (sx32 imm).toInt = imm.toInt := by
  rw [sx32, BitVec.toInt_signExtend_of_le (by decide)]

theorem alu_lddw_val (lo hi : BitVec 32) : zx32 lo + (sx32 hi <<< (32 : Nat)) = hi ++ lo := by
  apply BitVec.eq_of_toNat_eq
  simp only [zx32, sx32, BitVec.toNat_add, BitVec.toNat_shiftLeft, BitVec.toNat_append, BitVec.toNat_setWidth,
    BitVec.toNat_signExtend]
  have h1 := lo.isLt
  have h2 := hi.isLt
  rw [← Nat.shiftLeft_add_eq_or_of_lt h1, Nat.shiftLeft_eq, Nat.shiftLeft_eq]
  split <;> omega

open Rbpf.JitAst (arm)
open Rbpf.EngineSem (jitExec)

theorem alu_arm_regs {haddr : Nat → Option Nat} {pc : Nat} {i : Insn} {nxt : Option Insn} {r : List AI × Nat}
    (h : arm haddr pc i nxt = .ok r) : i.dst.toNat < 11 ∧ i.src.toNat < 11 := by
  by_cases hd : i.dst.toNat < 11
  · by_cases hs : i.src.toNat < 11
    · exact ⟨hd, hs⟩
    · exfalso
      unfold arm at h
      rw [mapRegister_none _ (Nat.le_of_not_lt hs), mapRegister_eq _ hd] at h
      simp at h
  · exfalso
    unfold arm at h
    rw [mapRegister_none _ (Nat.le_of_not_lt hd)] at h
    simp at h

theorem alu_rd (s : State) (k : Nat) (f : BitVec 64 → Outcome) (h : k < 11) : Interp.rd s k f = f (s.reg.getD k 0) := by
  simp [Interp.rd, Vector.getD, h]

theorem alu_wr (s : State) (k : Nat) (v : BitVec 64) (h : k < 11) :
    Interp.wr s k v = .next { s with reg := s.reg.setIfInBounds k v } := by
  simp [Interp.wr, h]

theorem alu_fall_one (c : Cfg) (tgt : Tgt → Option Nat) (a b retAddr : Nat) (σ : St) (s : State) (x : Instr) (d : Nat)
    (v : BitVec 64) (hd : d < 11) (hchk : checkSeq c.code tgt a [.i x] = some b) (hrip : σ.rip = c.codeBase + a)
    (hrel : Rel0 retAddr σ s) (hx : AluStep c σ x (regOf d) v) :
    ∃ σ', stepsN c 1 σ = some σ' ∧ Rel0 retAddr σ' { s with reg := s.reg.setIfInBounds d v } ∧ σ'.mem = σ.mem ∧
      σ'.rip = c.codeBase + b ∧ σ'.log = σ.log ∧ σ'.misaligned = σ.misaligned := by
  obtain ⟨n, hdec, hrest⟩ := checkSeq_i _ _ _ _ _ _ hchk
  rw [checkSeq_nil] at hrest
  injection hrest with hrest
  obtain ⟨σ1, h1, h2, h3, h4, h5, h6⟩ := hx (c.codeBase + a + n)
  refine ⟨σ1, stepsN_one _ _ _ ?_, ?_, h3, ?_, h5, h6⟩
  · rw [step_at c σ a n x hrip hdec, h1]
  · exact rel0_congr _ _ _ _ (rel0_wr retAddr σ s d v hd hrel) h2 h3
  · rw [h4, ← hrest, Nat.add_assoc]

theorem alu_single (i : Insn) (x : Nat → Nat → Instr) (val : BitVec 64 → BitVec 64 → BitVec 64)
    (harm : ∀ haddr pc nxt, i.dst.toNat < 11 → i.src.toNat < 11 → arm haddr pc i nxt =
      .ok ([.i (x (regOf i.src.toNat) (regOf i.dst.toNat))], 1))
    (hint : ∀ env s, i.dst.toNat < 11 → i.src.toNat < 11 → jitExec env s i =
      .next { s with reg := s.reg.setIfInBounds i.dst.toNat (val (s.reg.getD i.dst.toNat 0) (s.reg.getD i.src.toNat 0)) })
    (hmach : ∀ c σ sr ds, AluStep c σ (x sr ds) ds (val (σ.get ds) (σ.get sr))) : ArmSim i := by
  intro c tgt haddr pc n a b retAddr ais σ env s s' harm' hchk _ hrip hrel hpc hex
  obtain ⟨hd, hs⟩ := alu_arm_regs harm'
  rw [harm _ _ _ hd hs] at harm'
  injection harm' with harm'
  injection harm' with e1 e2
  subst e1 e2
  rw [hint env s hd hs] at hex
  injection hex with hex
  subst hex
  have hm := hmach c σ (regOf i.src.toNat) (regOf i.dst.toNat)
  rw [hrel.regs _ hd, hrel.regs _ hs] at hm
  obtain ⟨σ', h1, h2, h3, h4, h5, h6⟩ := alu_fall_one c tgt a b retAddr σ s _ _ _ hd hchk hrip hrel hm
  refine ⟨1, σ', h1, h2, ?_, h5, h6, rfl, rfl, callersKept_of_mem σ σ' _ h3, Or.inl ⟨hpc, h4⟩⟩
  simp only [topBytes, h3]

theorem alu_jitExec_eq (env : Env) (s : State) (i : Insn) (h : i.opc.toNat ∈ aluOpcodes) :
    jitExec env s i = Interp.exec env s i := by
  obtain ⟨opc, dst, src, off, imm⟩ := i
  simp only [aluOpcodes, List.mem_cons, List.not_mem_nil, or_false] at h
  have h85 : ¬ (opc = 0x85 ∧ src = 1) := by
    rintro ⟨rfl, -⟩; revert h; decide
  have h95 : ¬ (opc = 0x95) := by
    rintro rfl; revert h; decide
  unfold jitExec
  simp only [h85, h95, if_false]
  have h1 : EngineSem.cmpImmSigned s ⟨opc, dst, src, off, imm⟩ = none := by
    unfold EngineSem.cmpImmSigned
    rcases h with h | h | h | h | h | h | h | h | h | h | h | h | h | h | h | h | h | h | h | h | h | h | h | h | h | h | h | h | h | h | h | h | h | h | h | h | h | h | h | h | h <;> simp only [h]
  have h2 : EngineSem.xaddInsn env s ⟨opc, dst, src, off, imm⟩ = none := by
    unfold EngineSem.xaddInsn
    rcases h with h | h | h | h | h | h | h | h | h | h | h | h | h | h | h | h | h | h | h | h | h | h | h | h | h | h | h | h | h | h | h | h | h | h | h | h | h | h | h | h | h <;> simp only [h]
  rw [h1, h2]

theorem alu_set_self (s : State) (k : Nat) : s.reg.setIfInBounds k (s.reg.getD k 0) = s.reg := by
  apply Vector.ext
  intro j hj
  by_cases hkj : k = j
  · subst hkj; simp [Vector.getD, hj]
  · simp [Vector.getElem_setIfInBounds, hkj]

theorem alu_next_congr (s : State) (k : Nat) (v v' : BitVec 64) (h : v = v') :
    Outcome.next { s with reg := s.reg.setIfInBounds k v } = Outcome.next { s with reg := s.reg.setIfInBounds k v' } := by
  rw [h]

/-- `mov rcx, src ; shift dst, cl` -/
theorem alu_shreg (i : Insn) (w : Bool) (op : ShOp) (val : BitVec 64 → BitVec 64 → BitVec 64)
    (harm : ∀ haddr pc nxt, i.dst.toNat < 11 → i.src.toNat < 11 → arm haddr pc i nxt =
      .ok ([.i (JitAst.movRR (regOf i.src.toNat) 1), .i (.shiftCl w op (regOf i.dst.toNat))], 1))
    (hint : ∀ env s, i.dst.toNat < 11 → i.src.toNat < 11 → jitExec env s i =
      .next { s with reg := s.reg.setIfInBounds i.dst.toNat (val (s.reg.getD i.dst.toNat 0) (s.reg.getD i.src.toNat 0)) })
    (hmach : ∀ c σ ds, AluStep c σ (.shiftCl w op ds) ds (val (σ.get ds) (σ.get 1))) : ArmSim i := by
  intro c tgt haddr pc n a b retAddr ais σ env s s' harm' hchk _ hrip hrel hpc hex
  obtain ⟨hd, hs⟩ := alu_arm_regs harm'
  rw [harm _ _ _ hd hs] at harm'
  injection harm' with harm'
  injection harm' with e1 e2
  subst e1 e2
  rw [hint env s hd hs] at hex
  injection hex with hex
  subst hex
  obtain ⟨n1, hdec1, hrest⟩ := checkSeq_i _ _ _ _ _ _ hchk
  obtain ⟨σ1, x1, r1, m1, p1, l1, g1⟩ := alu_x_rr64 c σ .mov (by decide) (by decide) (regOf i.src.toNat) 1 (c.codeBase + a + n1)
  have hrel1 : Rel0 retAddr σ1 s :=
    rel0_congr _ _ _ _ (rel0_scratch retAddr σ s 1 (σ.get (regOf i.src.toNat)) (Or.inl rfl) hrel) r1 m1
  have hst1 : stepsN c 1 σ = some σ1 := stepsN_one _ _ _ (by rw [step_at c σ a n1 _ hrip hdec1]; exact x1)
  have hg1 : σ1.get 1 = s.reg.getD i.src.toNat 0 := by
    have : σ1.get 1 = (σ.set 1 (σ.get (regOf i.src.toNat))).get 1 := by simp only [St.get, r1]; rfl
    rw [this, get_set_eq _ _ _ (by decide), hrel.regs _ hs]
  have hm := hmach c σ1 (regOf i.dst.toNat)
  rw [hrel1.regs _ hd, hg1] at hm
  obtain ⟨σ2, h1, h2, h3, h4, h5, h6⟩ :=
    alu_fall_one c tgt (a + n1) b retAddr σ1 s _ _ _ hd hrest (by rw [p1, Nat.add_assoc]) hrel1 hm
  refine ⟨2, σ2, stepsN_add c 1 1 σ σ1 σ2 hst1 h1, h2, ?_, h5.trans l1, h6.trans g1, rfl, rfl, callersKept_of_mem σ σ2 _ (h3.trans m1), Or.inl ⟨hpc, h4⟩⟩
  simp only [topBytes, h3, m1]

end Rbpf.JitSim
