/-
  x86-64 simulation, class `mulDivOpcodes`, part 5: the opcode table (kind, width, operand form), the shape of
  `JitAst.muldivmod` and of `EngineSem.jitExec` for each entry, and the execution paths of the arm: the
  save/compute/restore block run from a state representing `s`, and the zero-divisor tests in front of it.
-/
import RbpfModel.Lemmas.X86Sim.MulDivBlock
import RbpfModel.Lemmas.X86Sim.MulDivDec
namespace Rbpf.JitSim
open Rbpf.X86 (Cfg St Out Instr step exec decode fetch readMem writeMem)
open Rbpf.JitAst (AI Tgt checkSeq window movRR)
open Rbpf.Interp (lo32 zx32 sx32)

def md_code : md_Kind → Bool → Bool → Nat
  | .mul, false, false => 0x24 | .mul, false, true => 0x2c | .mul, true, false => 0x27 | .mul, true, true => 0x2f
  | .div, false, false => 0x34 | .div, false, true => 0x3c | .div, true, false => 0x37 | .div, true, true => 0x3f
  | .mod, false, false => 0x94 | .mod, false, true => 0x9c | .mod, true, false => 0x97 | .mod, true, true => 0x9f

theorem md_arm_eq (k : md_Kind) (w isReg : Bool) (i : Insn) (hopc : i.opc.toNat = md_code k w isReg)
    (haddr : Nat → Option Nat) (pc : Nat) (nx : Option Insn) (ais : List AI) (n : Nat)
    (h : JitAst.arm haddr pc i nx = .ok (ais, n)) :
    i.dst.toNat < 11 ∧ i.src.toNat < 11 ∧ n = 1 ∧
      ais = JitAst.muldivmod pc (md_code k w isReg) (regOf i.src.toNat) (regOf i.dst.toNat) i.imm := by
  by_cases hd : i.dst.toNat < 11
  · by_cases hs : i.src.toNat < 11
    · unfold JitAst.arm at h
      rw [mapRegister_eq _ hd, mapRegister_eq _ hs] at h
      simp only [hopc] at h
      cases k <;> cases w <;> cases isReg <;> simp only [md_code] at h ⊢ <;>
        (simp only [Except.ok.injEq, Prod.mk.injEq] at h; exact ⟨hd, hs, h.2.symm, h.1.symm⟩)
    · unfold JitAst.arm at h
      rw [mapRegister_eq _ hd, mapRegister_none _ (by omega)] at h
      simp at h
  · unfold JitAst.arm at h
    rw [mapRegister_none _ (by omega)] at h
    simp at h

theorem md_lo32_sx32 (imm : BitVec 32) : lo32 (sx32 imm) = imm := by
  unfold lo32 sx32
  apply BitVec.eq_of_toNat_eq
  rw [BitVec.toNat_setWidth, BitVec.toNat_signExtend]
  have := imm.isLt
  simp only [BitVec.toNat_setWidth]
  split <;> omega

theorem md_sx32_eq_zero (imm : BitVec 32) : sx32 imm = 0#64 ↔ imm = 0#32 := by
  constructor
  · intro h
    have := congrArg lo32 h
    rw [md_lo32_sx32] at this
    simpa [lo32] using this
  · intro h; subst h; simp [sx32]

theorem md_rd (s : State) (k : Nat) (hk : k < 11) (f : BitVec 64 → Outcome) : Interp.rd s k f = f (s.reg.getD k 0) := by
  unfold Interp.rd
  have : s.reg[k]? = some (s.reg.getD k 0) := by
    simp [Vector.getD, hk]
  rw [this]

theorem md_wr (s : State) (k : Nat) (hk : k < 11) (v : BitVec 64) :
    Interp.wr s k v = .next { s with reg := s.reg.setIfInBounds k v } := by
  unfold Interp.wr
  rw [if_pos hk]

instance (w : Bool) (b : BitVec 64) : Decidable (md_nz w b) := by unfold md_nz; infer_instance

/-- the divisor operand on the eBPF side -/
def md_x (isReg : Bool) (s : State) (i : Insn) : BitVec 64 := if isReg then s.reg.getD i.src.toNat 0 else sx32 i.imm

theorem md_exec_eq (k : md_Kind) (w isReg : Bool) (i : Insn) (hopc : i.opc.toNat = md_code k w isReg)
    (hd : i.dst.toNat < 11) (hs : i.src.toNat < 11) (env : Env) (s : State) :
    EngineSem.jitExec env s i =
      if k ≠ .mul ∧ ¬ md_nz w (md_x isReg s i) then
        (if k = .mod then .next s else .next { s with reg := s.reg.setIfInBounds i.dst.toNat 0 })
      else .next { s with reg := s.reg.setIfInBounds i.dst.toNat (md_res k w (s.reg.getD i.dst.toNat 0) (md_x isReg s i)) } := by
  obtain ⟨opc, dst, src, off, imm⟩ := i
  have : opc = BitVec.ofNat 8 (md_code k w isReg) := by
    apply BitVec.eq_of_toNat_eq
    simp only [BitVec.toNat_ofNat] at hopc ⊢
    rw [hopc]
    cases k <;> cases w <;> cases isReg <;> rfl
  subst this
  simp only at hd hs
  cases k <;> cases w <;> cases isReg <;>
    simp [md_code, EngineSem.jitExec, EngineSem.cmpImmSigned, EngineSem.xaddInsn, Interp.exec, md_rd, md_wr, hd, hs,
      md_res, md_mulLo, md_divQ, md_divR, md_nz, md_x, md_lo32_sx32, md_sx32_eq_zero]

theorem md_shape_imm (k : md_Kind) (w : Bool) (pc S D : Nat) (imm : BitVec 32) (himm : ¬ imm = 0#32) :
    JitAst.muldivmod pc (md_code k w false) S D imm = (md_block D k w (JitAst.loadImm 1 imm.toInt)).map AI.i := by
  by_cases h0 : D = 0 <;> by_cases h2 : D = 2 <;> cases k <;> cases w <;>
    simp [JitAst.muldivmod, md_code, md_block, md_saveL, md_computeL, md_restoreL, himm, h0, h2, JitAst.RAX, JitAst.RDX, JitAst.RCX]


theorem md_shape_imm0 (k : md_Kind) (w : Bool) (pc S D : Nat) (hk : k ≠ .mod) :
    JitAst.muldivmod pc (md_code k w false) S D 0#32 = [.i (.aluRR false .xor D D)] := by
  cases k <;> cases w <;> simp [JitAst.muldivmod, md_code] at hk ⊢

theorem md_shape_imm0_mod (w : Bool) (pc S D : Nat) :
    JitAst.muldivmod pc (md_code .mod w false) S D 0#32 = [] := by
  cases w <;> simp [JitAst.muldivmod, md_code]

theorem md_shape_reg_mul (w : Bool) (pc S D : Nat) (imm : BitVec 32) :
    JitAst.muldivmod pc (md_code .mul w true) S D imm = (md_block D .mul w (movRR S 1)).map AI.i := by
  by_cases h0 : D = 0 <;> by_cases h2 : D = 2 <;> cases w <;>
    simp [JitAst.muldivmod, md_code, md_block, md_saveL, md_computeL, md_restoreL, h0, h2, JitAst.RAX, JitAst.RDX, JitAst.RCX]

theorem md_shape_reg_div (w : Bool) (pc S D : Nat) (imm : BitVec 32) :
    JitAst.muldivmod pc (md_code .div w true) S D imm =
      [AI.i (JitAst.loadImm 1 (pc : Int)), .i (.aluRR w .test S S),
       .i (.jcc .ne (BitVec.ofNat 32 (if JitEmit.rexWouldSetBits 0 D D then 8 else 7))), .i (.aluRR false .xor D D),
       .jmp (.pc ((pc : Int) + 1))] ++ (md_block D .div w (movRR S 1)).map AI.i := by
  by_cases h0 : D = 0 <;> by_cases h2 : D = 2 <;> cases w <;>
    simp [JitAst.muldivmod, md_code, md_block, md_saveL, md_computeL, md_restoreL, h0, h2, JitAst.RAX, JitAst.RDX, JitAst.RCX]

theorem md_shape_reg_mod (w : Bool) (pc S D : Nat) (imm : BitVec 32) :
    JitAst.muldivmod pc (md_code .mod w true) S D imm =
      [AI.i (JitAst.loadImm 1 (pc : Int)), .i (.aluRR w .test S S), .jcc .e (.pc ((pc : Int) + 1))] ++
        (md_block D .mod w (movRR S 1)).map AI.i := by
  by_cases h0 : D = 0 <;> by_cases h2 : D = 2 <;> cases w <;>
    simp [JitAst.muldivmod, md_code, md_block, md_saveL, md_computeL, md_restoreL, h0, h2, JitAst.RAX, JitAst.RDX, JitAst.RCX]

theorem md_vec_getD_set (v : Vector (BitVec 64) 11) (d k : Nat) (x : BitVec 64) :
    (v.setIfInBounds d x).getD k 0 = if d = k ∧ d < 11 then x else v.getD k 0 := by
  simp only [Vector.getD, Vector.toArray_setIfInBounds, Array.getD_eq_getD_getElem?, Array.getElem?_setIfInBounds, Vector.size_toArray]
  by_cases h : d = k
  · subst h
    by_cases h2 : d < 11
    · simp [h2]
    · simp [h2]
  · simp [h]

/-- the save/compute/restore block, run from a state representing `s`, writes the result to `dst` -/
theorem md_normal (c : Cfg) (tgt : Tgt → Option Nat) (a b retAddr : Nat) (σ : St) (s : State) (dst : Nat) (hdst : dst < 11)
    (k : md_Kind) (w : Bool) (X : Instr) (dv : BitVec 64)
    (hc : checkSeq c.code tgt a ((md_block (regOf dst) k w X).map AI.i) = some b)
    (hrip : σ.rip = c.codeBase + a) (hrel : Rel0 retAddr σ s)
    (hX : ∀ σ1, (∀ r, r ≠ 4 → σ1.get r = σ.get r) → md_Step c X σ1 (σ1.set 1 dv))
    (hnz : k ≠ .mul → md_nz w dv) :
    ∃ n σ', stepsN c n σ = some σ' ∧
      Rel0 retAddr σ' { s with reg := s.reg.setIfInBounds dst (md_res k w (s.reg.getD dst 0) dv) } ∧
      topBytes σ' { s with reg := s.reg.setIfInBounds dst (md_res k w (s.reg.getD dst 0) dv) } = topBytes σ s ∧
      σ'.log = σ.log ∧ σ'.misaligned = σ.misaligned ∧ CallersKept σ σ' s ∧ σ'.rip = c.codeBase + b := by
  obtain ⟨pre, base, size, top, hi, hns, hsz, hfin⟩ := md_ns_of_rel0 retAddr σ s hrel
  obtain ⟨hD4, hD10, _, hD1⟩ := regOf_ne_special dst hdst
  obtain ⟨σ', hsteps, hns', hD, hoth⟩ := md_block_steps c (regOf dst) k w X dv hns hsz (regOf_lt dst hdst) hD1 hD4 hX hnz
  obtain ⟨m, hm, hrun⟩ := md_run c tgt _ [] a b σ σ' (by simpa using hc) hrip hsteps
  have hmb : m = b := by simpa using hm
  subst hmb
  refine ⟨_, _, hrun, ?_⟩
  have := hfin { σ' with rip := c.codeBase + m } { s with reg := s.reg.setIfInBounds dst (md_res k w (s.reg.getD dst 0) dv) }
    (md_ns_congr hns' rfl rfl) rfl rfl ?_ ?_
  · exact ⟨this.1, this.2.1, (md_steps_log hsteps).1, (md_steps_log hsteps).2, this.2.2, rfl⟩
  · intro j hj
    show σ'.get (regOf j) = _
    rw [md_vec_getD_set]
    by_cases hjd : dst = j
    · subst hjd
      rw [if_pos ⟨rfl, hdst⟩, hD, hrel.regs dst hdst]
    · rw [if_neg (fun h => hjd h.1)]
      obtain ⟨hj4, _, _, hj1⟩ := regOf_ne_special j hj
      rw [hoth _ (fun h => hjd (regOf_inj _ _ hdst hj h.symm)) hj1 hj4, hrel.regs j hj]
  · show σ'.get 10 = _
    exact hoth 10 (Ne.symm hD10) (by omega) (by omega)

theorem md_exec_jcc (c : Cfg) (σ : St) (cc : X86.Cc) (rel : BitVec 32) (next : Nat) (f : X86.Flags) (hf : σ.flags = some f) :
    exec c σ (.jcc cc rel) next =
      .next (if cc.holds f then { σ with rip := X86.relTarget next rel } else { σ with rip := next }) := by
  simp only [exec, hf]

theorem md_exec_jmp (c : Cfg) (σ : St) (rel : BitVec 32) (next : Nat) :
    exec c σ (.jmp rel) next = .next { σ with rip := X86.relTarget next rel } := rfl

theorem md_zf_iff (w : Bool) (x : BitVec 64) :
    (X86.flagsLogic (if w then 64 else 32) (X86.trunc (if w then 64 else 32) x)).zf = true ↔ ¬ md_nz w x := by
  cases w
  · simp only [X86.flagsLogic, X86.trunc, Bool.false_eq_true, if_false, md_nz, decide_eq_true_eq, Nat.mod_mod, Decidable.not_not]
    constructor
    · intro h
      apply BitVec.eq_of_toNat_eq
      simpa [lo32] using h
    · intro h
      have := congrArg BitVec.toNat h
      simpa [lo32] using this
  · simp only [X86.flagsLogic, X86.trunc, if_true, md_nz, decide_eq_true_eq, Nat.mod_mod, Decidable.not_not]
    have := x.isLt
    constructor
    · intro h
      apply BitVec.eq_of_toNat_eq
      simp
      omega
    · intro h
      subst h
      rfl

theorem md_rex (D : Nat) (hD : D < 16) : (if JitEmit.rexWouldSetBits 0 D D then 8 else 7) = (if D < 8 then 2 else 3) + 5 := by
  have : D = 0 ∨ D = 1 ∨ D = 2 ∨ D = 3 ∨ D = 4 ∨ D = 5 ∨ D = 6 ∨ D = 7 ∨ D = 8 ∨ D = 9 ∨ D = 10 ∨ D = 11 ∨ D = 12 ∨
      D = 13 ∨ D = 14 ∨ D = 15 := by omega
  rcases this with h | h | h | h | h | h | h | h | h | h | h | h | h | h | h | h <;> subst h <;> decide


/-- the first two instructions of the register-divisor arms: `mov rcx, pc ; test src, src` -/
theorem md_prefix2 (c : Cfg) (tgt : Tgt → Option Nat) (a b : Nat) (σ : St) (pc : Int) (w : Bool) (S : Nat) (rest : List AI)
    (hS : S ≠ 1)
    (hc : checkSeq c.code tgt a (AI.i (JitAst.loadImm 1 pc) :: .i (.aluRR w .test S S) :: rest) = some b)
    (hrip : σ.rip = c.codeBase + a) :
    ∃ m v σ2, checkSeq c.code tgt m rest = some b ∧ stepsN c 2 σ = some σ2 ∧ σ2.rip = c.codeBase + m ∧
      σ2.flags = some (X86.flagsLogic (if w then 64 else 32) (X86.trunc (if w then 64 else 32) (σ.get S))) ∧
      σ2.mem = σ.mem ∧ σ2.reg = (σ.set 1 v).reg ∧ σ2.log = σ.log ∧ σ2.misaligned = σ.misaligned := by
  obtain ⟨v, h1⟩ := md_step_loadImm_any c σ 1 pc
  have h2 := md_step_test c (σ.set 1 v) w S
  rw [get_set_ne _ _ _ _ (Ne.symm hS)] at h2
  obtain ⟨m, hm, hrun⟩ := md_run c tgt [JitAst.loadImm 1 pc, .aluRR w .test S S] rest a b σ _ hc hrip
    (md_Steps.cons h1 (md_steps_one h2))
  exact ⟨m, v, _, hm, hrun, rfl, rfl, rfl, rfl, rfl, rfl⟩

/-- register remainder: `mov rcx, pc ; test src, src ; je next` -/
theorem md_prefix_mod (c : Cfg) (tgt : Tgt → Option Nat) (a b : Nat) (σ : St) (pc : Int) (t : Tgt) (w : Bool) (S : Nat)
    (rest : List AI) (hS : S ≠ 1)
    (hc : checkSeq c.code tgt a (AI.i (JitAst.loadImm 1 pc) :: .i (.aluRR w .test S S) :: .jcc .e t :: rest) = some b)
    (hrip : σ.rip = c.codeBase + a) (hb : c.codeBase + b < 2 ^ 63) :
    ∃ σ' v, stepsN c 3 σ = some σ' ∧ σ'.mem = σ.mem ∧ σ'.reg = (σ.set 1 v).reg ∧
      σ'.log = σ.log ∧ σ'.misaligned = σ.misaligned ∧
      ((¬ md_nz w (σ.get S) ∧ ∃ l, tgt t = some l ∧ σ'.rip = c.codeBase + l) ∨
       (md_nz w (σ.get S) ∧ ∃ m, checkSeq c.code tgt m rest = some b ∧ σ'.rip = c.codeBase + m)) := by
  obtain ⟨m2, v, σ2, hc2, hrun2, hrip2, hfl2, hmem2, hreg2, hlog2, hmis2⟩ := md_prefix2 c tgt a b σ pc w S _ hS hc hrip
  obtain ⟨n, rel, l, hd, ht, hland, hc3⟩ := checkSeq_jcc _ _ _ _ _ _ _ hc2
  have hle := checkSeq_le _ _ _ _ _ hc3
  have hstep : step c σ2 = _ := (step_at c σ2 m2 n _ hrip2 hd).trans (md_exec_jcc c σ2 .e rel (c.codeBase + m2 + n) _ hfl2)
  refine ⟨_, v, stepsN_add c 2 1 _ _ _ hrun2 (stepsN_one c _ _ hstep), ?_⟩
  by_cases hz : md_nz w (σ.get S)
  · have : ¬ (X86.Cc.e.holds (X86.flagsLogic (if w then 64 else 32) (X86.trunc (if w then 64 else 32) (σ.get S)))) = true := by
      rw [X86.Cc.holds, md_zf_iff]; exact fun h => h hz
    rw [if_neg this]
    exact ⟨hmem2, hreg2, hlog2, hmis2, Or.inr ⟨hz, m2 + n, hc3, by simp [Nat.add_assoc]⟩⟩
  · have : (X86.Cc.e.holds (X86.flagsLogic (if w then 64 else 32) (X86.trunc (if w then 64 else 32) (σ.get S)))) = true := by
      rw [X86.Cc.holds, md_zf_iff]; exact hz
    rw [if_pos this]
    refine ⟨hmem2, hreg2, hlog2, hmis2, Or.inl ⟨hz, l, ht, ?_⟩⟩
    show X86.relTarget (c.codeBase + m2 + n) rel = _
    rw [Nat.add_assoc]
    exact relTarget_lands _ _ _ _ hland (by omega)


/-- register division: `mov rcx, pc ; test src, src ; jne +k ; xor dst, dst ; jmp next` -/
theorem md_prefix_div (c : Cfg) (tgt : Tgt → Option Nat) (a b : Nat) (σ : St) (pc : Int) (t : Tgt) (w : Bool) (S D : Nat)
    (rest : List AI) (hS : S ≠ 1) (hD : D < 16)
    (hc : checkSeq c.code tgt a (AI.i (JitAst.loadImm 1 pc) :: .i (.aluRR w .test S S) ::
      .i (.jcc .ne (BitVec.ofNat 32 (if JitEmit.rexWouldSetBits 0 D D then 8 else 7))) :: .i (.aluRR false .xor D D) ::
      .jmp t :: rest) = some b)
    (hrip : σ.rip = c.codeBase + a) (hb : c.codeBase + b < 2 ^ 63) :
    ∃ σ' v n, stepsN c n σ = some σ' ∧ σ'.mem = σ.mem ∧ σ'.log = σ.log ∧ σ'.misaligned = σ.misaligned ∧
      ((¬ md_nz w (σ.get S) ∧ σ'.reg = ((σ.set 1 v).set D 0).reg ∧ ∃ l, tgt t = some l ∧ σ'.rip = c.codeBase + l) ∨
       (md_nz w (σ.get S) ∧ σ'.reg = (σ.set 1 v).reg ∧ ∃ m, checkSeq c.code tgt m rest = some b ∧ σ'.rip = c.codeBase + m)) := by
  obtain ⟨m2, v, σ2, hc2, hrun2, hrip2, hfl2, hmem2, hreg2, hlog2, hmis2⟩ := md_prefix2 c tgt a b σ pc w S _ hS hc hrip
  obtain ⟨n3, hd3, hc3⟩ := checkSeq_i _ _ _ _ _ _ hc2
  obtain ⟨nx, hdx, hc4⟩ := checkSeq_i _ _ _ _ _ _ hc3
  obtain ⟨nj, relj, l, hdj, ht, hlandj, hc5⟩ := checkSeq_jmp _ _ _ _ _ _ hc4
  have hnx := md_decode_xor_len _ _ _ hdx
  have hnj := md_decode_jmp_len _ _ _ hdj
  have hle := checkSeq_le _ _ _ _ _ hc5
  have hstep3 : step c σ2 = _ := (step_at c σ2 m2 n3 _ hrip2 hd3).trans (md_exec_jcc c σ2 .ne _ (c.codeBase + m2 + n3) _ hfl2)
  by_cases hz : md_nz w (σ.get S)
  · have : (X86.Cc.ne.holds (X86.flagsLogic (if w then 64 else 32) (X86.trunc (if w then 64 else 32) (σ.get S)))) = true := by
      rw [X86.Cc.holds, Bool.not_eq_true', ← Bool.not_eq_true, md_zf_iff]; exact fun h => h hz
    rw [if_pos this] at hstep3
    refine ⟨_, v, 3, stepsN_add c 2 1 _ _ _ hrun2 (stepsN_one c _ _ hstep3), hmem2, hlog2, hmis2, Or.inr ⟨hz, hreg2, m2 + n3 + nx + nj, hc5, ?_⟩⟩
    show X86.relTarget (c.codeBase + m2 + n3) _ = _
    rw [Nat.add_assoc]
    apply relTarget_lands _ _ _ _ _ (by omega)
    rw [md_rex D hD, ← hnx, hnj]
    have hk : nx + 5 = 7 ∨ nx + 5 = 8 := by split at hnx <;> omega
    rcases hk with hk | hk <;> rw [hk] <;> simp [BitVec.toInt] <;> omega
  · have : ¬ (X86.Cc.ne.holds (X86.flagsLogic (if w then 64 else 32) (X86.trunc (if w then 64 else 32) (σ.get S)))) = true := by
      rw [X86.Cc.holds, Bool.not_eq_true', ← Bool.not_eq_true, md_zf_iff]; exact fun h => h hz
    rw [if_neg this] at hstep3
    obtain ⟨fl, hx⟩ := md_step_xor32 c { σ2 with rip := c.codeBase + m2 + n3 } D
    have hstep4 : step c { σ2 with rip := c.codeBase + m2 + n3 } = _ :=
      (step_at c _ (m2 + n3) nx _ (by simp [Nat.add_assoc]) hdx).trans (hx.1 _)
    have hstep5 : step c { ({ ({ σ2 with rip := c.codeBase + m2 + n3 } : St) with flags := fl }.set D 0) with
        rip := c.codeBase + (m2 + n3) + nx } = _ :=
      (step_at c _ (m2 + n3 + nx) nj _ (by simp [Nat.add_assoc]) hdj).trans (md_exec_jmp c _ relj _)
    refine ⟨_, v, 5, stepsN_add c 2 3 _ _ _ hrun2 (stepsN_three c _ _ _ _ hstep3 hstep4 hstep5), hmem2, hlog2, hmis2,
      Or.inl ⟨hz, ?_, l, ht, ?_⟩⟩
    · show (St.set _ D 0).reg = _
      simp only [St.set, hreg2]
    · show X86.relTarget (c.codeBase + (m2 + n3 + nx) + nj) relj = _
      rw [Nat.add_assoc]
      exact relTarget_lands _ _ _ _ hlandj (by omega)

end Rbpf.JitSim
