/-
  x86-64 simulation, jump class: the condition codes after `cmp` / `test` at width 64 and 32 are exactly the
  eBPF branch conditions (`BitVec` comparisons of destination against source).
-/
import RbpfModel.Lemmas.X86Sim.Base
namespace Rbpf.JitSim
open Rbpf.X86 (Cfg St Out Instr step exec decode fetch readMem writeMem Cc flagsSub flagsLogic msb)

theorem jmp_msb64 (v : Nat) (h : v < 2 ^ 64) : msb 64 v = decide (2 ^ 63 ≤ v) := by
  unfold msb; congr 1; apply propext; omega

theorem jmp_msb32 (v : Nat) (h : v < 2 ^ 32) : msb 32 v = decide (2 ^ 31 ≤ v) := by
  unfold msb; congr 1; apply propext; omega

theorem jmp_toInt64 (x : BitVec 64) : x.toInt = (if 2 ^ 63 ≤ x.toNat then (x.toNat : Int) - (2 ^ 64 : Int) else (x.toNat : Int)) := by
  unfold BitVec.toInt; split <;> split <;> omega

theorem jmp_toInt32 (x : BitVec 32) : x.toInt = (if 2 ^ 31 ≤ x.toNat then (x.toNat : Int) - (2 ^ 32 : Int) else (x.toNat : Int)) := by
  unfold BitVec.toInt; split <;> split <;> omega

set_option hygiene false in
local macro "jmp_flags64" : tactic => `(tactic| (
  have hx := x.isLt; have hy := y.isLt
  have hr : (x.toNat + 2 ^ 64 - y.toNat) % 2 ^ 64 < 2 ^ 64 := Nat.mod_lt _ (by decide)
  simp only [Cc.holds, flagsSub, BitVec.slt, BitVec.sle, BitVec.ult, BitVec.ule, jmp_msb64 _ hx, jmp_msb64 _ hy, jmp_msb64 _ hr, jmp_toInt64]
  rw [Bool.eq_iff_iff]
  by_cases h1 : 2 ^ 63 ≤ x.toNat <;> by_cases h2 : 2 ^ 63 ≤ y.toNat <;> simp [h1, h2, ← BitVec.toNat_inj] <;> (try omega)))

set_option hygiene false in
local macro "jmp_flags32" : tactic => `(tactic| (
  have hx := x.isLt; have hy := y.isLt
  have hr : (x.toNat + 2 ^ 32 - y.toNat) % 2 ^ 32 < 2 ^ 32 := Nat.mod_lt _ (by decide)
  simp only [Cc.holds, flagsSub, BitVec.slt, BitVec.sle, BitVec.ult, BitVec.ule, jmp_msb32 _ hx, jmp_msb32 _ hy, jmp_msb32 _ hr, jmp_toInt32]
  rw [Bool.eq_iff_iff]
  by_cases h1 : 2 ^ 31 ≤ x.toNat <;> by_cases h2 : 2 ^ 31 ≤ y.toNat <;> simp [h1, h2, ← BitVec.toNat_inj] <;> (try omega)))

theorem jmp_sub64_e (x y : BitVec 64) : Cc.holds .e (flagsSub 64 x.toNat y.toNat) = (x == y) := by jmp_flags64
theorem jmp_sub64_ne (x y : BitVec 64) : Cc.holds .ne (flagsSub 64 x.toNat y.toNat) = (x != y) := by jmp_flags64
theorem jmp_sub64_a (x y : BitVec 64) : Cc.holds .a (flagsSub 64 x.toNat y.toNat) = y.ult x := by jmp_flags64
theorem jmp_sub64_ae (x y : BitVec 64) : Cc.holds .ae (flagsSub 64 x.toNat y.toNat) = y.ule x := by jmp_flags64
theorem jmp_sub64_b (x y : BitVec 64) : Cc.holds .b (flagsSub 64 x.toNat y.toNat) = x.ult y := by
  simp only [Cc.holds, flagsSub, BitVec.ult]
theorem jmp_sub64_be (x y : BitVec 64) : Cc.holds .be (flagsSub 64 x.toNat y.toNat) = x.ule y := by jmp_flags64
theorem jmp_sub64_g (x y : BitVec 64) : Cc.holds .g (flagsSub 64 x.toNat y.toNat) = y.slt x := by jmp_flags64
theorem jmp_sub64_ge (x y : BitVec 64) : Cc.holds .ge (flagsSub 64 x.toNat y.toNat) = y.sle x := by jmp_flags64
theorem jmp_sub64_l (x y : BitVec 64) : Cc.holds .l (flagsSub 64 x.toNat y.toNat) = x.slt y := by jmp_flags64
theorem jmp_sub64_le (x y : BitVec 64) : Cc.holds .le (flagsSub 64 x.toNat y.toNat) = x.sle y := by jmp_flags64

theorem jmp_sub32_e (x y : BitVec 32) : Cc.holds .e (flagsSub 32 x.toNat y.toNat) = (x == y) := by jmp_flags32
theorem jmp_sub32_ne (x y : BitVec 32) : Cc.holds .ne (flagsSub 32 x.toNat y.toNat) = (x != y) := by jmp_flags32
theorem jmp_sub32_a (x y : BitVec 32) : Cc.holds .a (flagsSub 32 x.toNat y.toNat) = y.ult x := by jmp_flags32
theorem jmp_sub32_ae (x y : BitVec 32) : Cc.holds .ae (flagsSub 32 x.toNat y.toNat) = y.ule x := by jmp_flags32
theorem jmp_sub32_b (x y : BitVec 32) : Cc.holds .b (flagsSub 32 x.toNat y.toNat) = x.ult y := by
  simp only [Cc.holds, flagsSub, BitVec.ult]
theorem jmp_sub32_be (x y : BitVec 32) : Cc.holds .be (flagsSub 32 x.toNat y.toNat) = x.ule y := by jmp_flags32
theorem jmp_sub32_g (x y : BitVec 32) : Cc.holds .g (flagsSub 32 x.toNat y.toNat) = y.slt x := by jmp_flags32
theorem jmp_sub32_ge (x y : BitVec 32) : Cc.holds .ge (flagsSub 32 x.toNat y.toNat) = y.sle x := by jmp_flags32
theorem jmp_sub32_l (x y : BitVec 32) : Cc.holds .l (flagsSub 32 x.toNat y.toNat) = x.slt y := by jmp_flags32
theorem jmp_sub32_le (x y : BitVec 32) : Cc.holds .le (flagsSub 32 x.toNat y.toNat) = x.sle y := by jmp_flags32

theorem jmp_test64 (x y : BitVec 64) : Cc.holds .ne (flagsLogic 64 (x.toNat &&& y.toNat)) = (x &&& y != 0) := by
  rw [← BitVec.toNat_and]
  generalize x &&& y = z
  have h := z.isLt
  rw [Bool.eq_iff_iff]
  simp only [Cc.holds, flagsLogic]
  simp [← BitVec.toNat_inj]; omega

theorem jmp_test32 (x y : BitVec 32) : Cc.holds .ne (flagsLogic 32 (x.toNat &&& y.toNat)) = (x &&& y != 0) := by
  rw [← BitVec.toNat_and]
  generalize x &&& y = z
  have h := z.isLt
  rw [Bool.eq_iff_iff]
  simp only [Cc.holds, flagsLogic]
  simp [← BitVec.toNat_inj]; omega
end Rbpf.JitSim
