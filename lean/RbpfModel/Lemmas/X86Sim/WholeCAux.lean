/-
  Whole-program simulation with helper calls: `WholeRun.lean` over `jitStepC`/`jitRunC`, with the per-instruction facts
  (`ArmSimC` for every covered opcode and for helper calls) as a hypothesis `hA`.  `WholeC.lean` instantiates it.
-/
import RbpfModel.Model.JitSimC
import RbpfModel.Lemmas.X86Sim.WholeRun
namespace Rbpf.JitSim
open Rbpf.X86 (Cfg St Out Instr step exec decode fetch readMem writeMem)
open Rbpf.JitAst (AI Tgt checkSeq window)

def wholec_Covered (p : Bytes) : Prop :=
  ∀ x ∈ whole_starts p, x.2.opc.toNat ∈ whole_coveredOpcodes ∨ x.2.opc.toNat = 0x95 ∨ (x.2.opc = 0x85 ∧ x.2.src = 0)

/-- `RelC` of `WholeC.lean` over `whole_Rel` -/
structure wholec_Rel (c : Cfg) (p : Bytes) (L : JitAst.Layout) (retAddr : Nat) (top : List (BitVec 8)) (σ : St) (s : State) : Prop where
  rel : whole_Rel c p L retAddr top σ s
  log : LogRel σ s
  align : s.mem.stack.base % 16 = 0

/-- on `exit`, `jitExecC` is `jitExec` -/
theorem wholec_jitExecC_exit (clob : Nat → Nat → BitVec 64) (env : Env) (s : State) (insn : Insn) (h95 : insn.opc.toNat = 0x95) :
    jitExecC clob env s insn = EngineSem.jitExec env s insn := by
  unfold jitExecC
  rw [if_neg]
  intro hh
  have := (whole_opc_eq insn.opc 0x85 (by decide)).mp hh.1
  omega

theorem wholec_nd_callHelperC (clob : Nat → Nat → BitVec 64) (env : Env) (s : State) (imm : BitVec 32) :
    whole_NotDone (callHelperC clob env s imm) := by
  unfold callHelperC
  split
  · exact whole_nd_next _
  · next o hne =>
    exact whole_nd_callHelper env s imm

/-- only `exit` makes `jitExecC` return a value -/
theorem wholec_jitExecC_done (clob : Nat → Nat → BitVec 64) (env : Env) (s : State) (insn : Insn) (r0 : BitVec 64) (s' : State)
    (h : jitExecC clob env s insn = .done r0 s') : insn.opc.toNat = 0x95 := by
  unfold jitExecC at h
  split at h
  · exact (wholec_nd_callHelperC clob env s insn.imm r0 s' h).elim
  · exact whole_jitExec_done env s insn r0 s' h

theorem wholec_jitStepC_at (clob : Nat → Nat → BitVec 64) (env : Env) (s : State) (i : Insn) (h : (s.pc, i) ∈ whole_starts env.prog) :
    jitStepC clob env s = jitExecC clob env { s with pc := s.pc + 1 } i := by
  obtain ⟨hget, hlt⟩ := whole_starts_mem _ _ _ h
  unfold jitStepC
  rw [if_pos hlt, hget]

/-- at an instruction start, a `jitStepC` that returns a value is a `jitStep` that returns that value -/
theorem wholec_jitStepC_done (clob : Nat → Nat → BitVec 64) (env : Env) (s s' : State) (r0 : BitVec 64) (i : Insn)
    (hi : (s.pc, i) ∈ whole_starts env.prog) (h : jitStepC clob env s = .done r0 s') :
    EngineSem.jitStep env s = .done r0 s' := by
  rw [wholec_jitStepC_at clob env s i hi] at h
  have h95 := wholec_jitExecC_done clob env _ i r0 s' h
  rw [wholec_jitExecC_exit clob env _ i h95] at h
  rw [whole_jitStep_at env s i hi]
  exact h

/-- the top-level `exit` -/
theorem wholec_exit_sim (env : Env) (haddr : Nat → Option Nat) (um ud : Bool) (c : Cfg) (L : JitAst.Layout) (retAddr : Nat)
    (top : List (BitVec 8)) (σ : St) (s s' : State) (r0 : BitVec 64)
    (hv : JitAst.validate env.prog haddr um ud c.code L = true)
    (hret : BitVec.ofNat 64 retAddr ≠ c.retSentinel) (hretlt : retAddr < 2 ^ 64)
    (hrel : wholec_Rel c env.prog L retAddr top σ s) (hstep : jitStepC c.clobber env s = .done r0 s') :
    ∃ σ', stepsN c 1 σ = some σ' ∧ σ'.rip = retAddr ∧ σ'.get 0 = r0 ∧ MemRel σ'.mem s'.mem ∧
      (σ'.get X86.RSP).toNat = s'.mem.stack.base ∧ topBytes σ' s' = some top ∧
      LogRel σ' s' ∧ σ'.misaligned = σ.misaligned := by
  obtain ⟨hrel0, hlog, -⟩ := hrel
  obtain ⟨i, hi⟩ := hrel0.start
  have hstep' := wholec_jitStepC_done c.clobber env s s' r0 i hi hstep
  obtain ⟨σ', h1, h2, h3, h4, h5, h6, h7, h8, h9⟩ :=
    whole_exit_sim env haddr um ud c L retAddr top σ s s' r0 hv hret hretlt hrel0 hstep'
  refine ⟨σ', h1, h2, h3, h4, h5, h6, ?_, h8⟩
  unfold LogRel at hlog ⊢
  rw [h7, h9]
  exact hlog

theorem wholec_jitRunC_done (clob : Nat → Nat → BitVec 64) (env : Env) (s s' : State) (fuel : Nat) (r0 : BitVec 64)
    (h : jitRunC clob env s (fuel + 1) = .done r0 s') :
    jitStepC clob env s = .done r0 s' ∨ ∃ s1, jitStepC clob env s = .next s1 ∧ jitRunC clob env s1 fuel = .done r0 s' := by
  simp only [jitRunC] at h
  split at h
  · next s1 h1 => exact Or.inr ⟨s1, h1, h⟩
  · next r s2 h1 =>
    simp only [Interp.Result.done.injEq] at h
    obtain ⟨rfl, rfl⟩ := h
    exact Or.inl h1
  · cases h
  · cases h
  · cases h

theorem wholec_jitRunC_start (clob : Nat → Nat → BitVec 64) (env : Env) (s s' : State) (fuel : Nat) (r0 : BitVec 64)
    (h : jitRunC clob env s fuel = .done r0 s') : (getInsn? env.prog s.pc).isSome := by
  cases fuel with
  | zero => simp [jitRunC] at h
  | succ fuel =>
    have hne : jitStepC clob env s ≠ .panic := by
      rcases wholec_jitRunC_done clob env s s' fuel r0 h with h1 | ⟨s1, h1, -⟩ <;> rw [h1] <;> simp
    unfold jitStepC at hne
    split at hne
    · split at hne
      · exact absurd rfl hne
      · next insn hi => rw [hi]; rfl
    · exact absurd rfl hne

section
variable (hA : ∀ (clob : Nat → Nat → BitVec 64) (i : Insn),
  (i.opc.toNat ∈ whole_coveredOpcodes ∨ (i.opc = 0x85 ∧ i.src = 0)) → ArmSimC clob i)
include hA

/-- one continuing step; the relation holds again if an instruction can be read at the new pc -/
theorem wholec_step_sim (env : Env) (haddr : Nat → Option Nat) (um ud : Bool) (c : Cfg) (L : JitAst.Layout) (retAddr : Nat)
    (top : List (BitVec 8)) (σ : St) (s s' : State)
    (hv : JitAst.validate env.prog haddr um ud c.code L = true) (hcov : wholec_Covered env.prog) (hext : ExtOk c env haddr)
    (hsize : c.codeBase + c.code.size < 2 ^ 63)
    (hrel : wholec_Rel c env.prog L retAddr top σ s) (hstep : jitStepC c.clobber env s = .next s') :
    ∃ k σ', stepsN c k σ = some σ' ∧ σ'.misaligned = σ.misaligned ∧
      ((getInsn? env.prog s'.pc).isSome → wholec_Rel c env.prog L retAddr top σ' s') := by
  obtain ⟨⟨hrel0, htop, ⟨i, hstart⟩, ⟨a, hloc, hrip⟩, hd0⟩, hlog, halign⟩ := hrel
  rw [wholec_jitStepC_at c.clobber env s i hstart] at hstep
  have hopc : i.opc.toNat ∈ whole_coveredOpcodes ∨ (i.opc = 0x85 ∧ i.src = 0) := by
    rcases hcov _ hstart with h | h | h
    · exact Or.inl h
    · rw [wholec_jitExecC_exit c.clobber env _ i h,
        whole_jitExec_exit env { s with pc := s.pc + 1 } i h hd0] at hstep
      cases hstep
    · exact Or.inr h
  obtain ⟨ais, n, a', b, harm, hloc', hchk, hlocb⟩ := whole_validate_arm env.prog haddr um ud c.code L hv s.pc i hstart
  rw [hloc] at hloc'
  cases hloc'
  have hb : b ≤ c.code.size := whole_locOf_le env.prog haddr um ud c.code L hv _ b hlocb
  obtain ⟨k, σ', hk, hrel0', hlog', htop', hmis, hbase, hfr, -, hdisj⟩ :=
    hA c.clobber i hopc c (whole_tgt env.prog L) haddr s.pc n a b retAddr ais σ env { s with pc := s.pc + 1 } s' rfl hext
      harm hchk (by omega) hrip (rel0_pc retAddr σ s _ hrel0) hlog halign rfl hstep
  refine ⟨k, σ', hk, hmis, fun hsome => ?_⟩
  have htop'' : topBytes σ' s' = some top := htop'.trans htop
  have hd0' : s'.frames = [] := hfr.trans hd0
  have halign' : s'.mem.stack.base % 16 = 0 := by rw [hbase]; exact halign
  rcases hdisj with ⟨hpc, hrip'⟩ | ⟨l, htgt, hrip'⟩
  · obtain ⟨j, hj⟩ := Option.isSome_iff_exists.mp hsome
    have hn := whole_arm_n haddr s.pc i _ ais n harm
    have hj' : getInsn? env.prog (s.pc + (if i.opc = 0x18 then 2 else 1)) = some j := by rw [← hn, ← hpc]; exact hj
    have hnext := whole_starts_next env.prog s.pc i j hstart hj'
    rw [← hn, ← hpc] at hnext
    have hlt := (whole_starts_mem _ _ _ hnext).2
    refine ⟨⟨hrel0', htop'', ⟨j, hnext⟩, ⟨b, ?_, hrip'⟩, hd0'⟩, hlog', halign'⟩
    unfold whole_locOf at hlocb
    rw [← hpc, if_pos hlt] at hlocb
    exact hlocb
  · obtain ⟨hst, hl⟩ := whole_tgt_pc env.prog L s'.pc l htgt
    exact ⟨⟨hrel0', htop'', hst, ⟨l, hl, hrip'⟩, hd0'⟩, hlog', halign'⟩

/-- runs -/
theorem wholec_run_sim (env : Env) (haddr : Nat → Option Nat) (um ud : Bool) (c : Cfg) (L : JitAst.Layout) (retAddr : Nat)
    (top : List (BitVec 8)) (fuel : Nat) (σ : St) (s s' : State) (r0 : BitVec 64)
    (hv : JitAst.validate env.prog haddr um ud c.code L = true) (hcov : wholec_Covered env.prog) (hext : ExtOk c env haddr)
    (hsize : c.codeBase + c.code.size < 2 ^ 63)
    (hret : BitVec.ofNat 64 retAddr ≠ c.retSentinel) (hretlt : retAddr < 2 ^ 64)
    (hrel : wholec_Rel c env.prog L retAddr top σ s)
    (hrun : jitRunC c.clobber env s fuel = .done r0 s') :
    ∃ k σ', stepsN c k σ = some σ' ∧ σ'.rip = retAddr ∧ σ'.get 0 = r0 ∧ MemRel σ'.mem s'.mem ∧
      (σ'.get X86.RSP).toNat = s'.mem.stack.base ∧ topBytes σ' s' = some top ∧
      LogRel σ' s' ∧ σ'.misaligned = σ.misaligned := by
  induction fuel generalizing σ s with
  | zero => simp [jitRunC] at hrun
  | succ fuel ih =>
    rcases wholec_jitRunC_done c.clobber env s s' fuel r0 hrun with h1 | ⟨s1, h1, h2⟩
    · obtain ⟨σ', hk, rest⟩ := wholec_exit_sim env haddr um ud c L retAddr top σ s s' r0 hv hret hretlt hrel h1
      exact ⟨1, σ', hk, rest⟩
    · obtain ⟨k1, σ1, hk1, hmis1, hrel1⟩ := wholec_step_sim hA env haddr um ud c L retAddr top σ s s1 hv hcov hext hsize hrel h1
      have hrel1' := hrel1 (wholec_jitRunC_start c.clobber env s1 s' fuel r0 h2)
      obtain ⟨k2, σ2, hk2, g2, g3, g4, g5, g6, g7, g8⟩ := ih σ1 s1 hrel1' h2
      exact ⟨k1 + k2, σ2, stepsN_add c k1 k2 σ σ1 σ2 hk1 hk2, g2, g3, g4, g5, g6, g7, g8.trans hmis1⟩

end

end Rbpf.JitSim
