/-
  eBPF-to-eBPF calls at machine level.  `emit_local_call` pushes r10, rbx, r13, r14, r15 (the packet pointer and the
  eBPF registers r6 … r9), `call`s the callee's arm, and pops the five back after the callee's `exit` (a `ret`): six
  8-byte slots per active call.  The eBPF frame pointer rbp is NOT lowered (finding F16: `EngineSem.jitCallLocal`), and
  there is no depth limit other than the native stack.

  `FramesOk` describes the callers' frames on the native stack; `callLocal_sim` and `exitDepth_sim` are the two new
  simulation steps; `WholeD.lean` runs them together with the per-class lemmas.
-/
import RbpfModel.Model.JitSimC
import RbpfModel.Lemmas.X86Sim.Base
import RbpfModel.Lemmas.X86Sim.WholeAux
import RbpfModel.Lemmas.X86Sim.MulDivMem
import RbpfModel.Lemmas.X86Sim.MulDivExec
import RbpfModel.Lemmas.X86Sim.LocalCallMem
namespace Rbpf.JitSim
open Rbpf.X86 (Cfg St Out Instr step exec decode fetch readMem writeMem)
open Rbpf.JitAst (AI Tgt checkSeq window)

/-- the five pops that follow the `call` of a local call -/
def popSeq : List AI := [.i (.pop 15), .i (.pop 14), .i (.pop 13), .i (.pop 3), .i (.pop 10)]

/-- `cur` is the machine address at which a local call whose eBPF return address is `ret` resumes: the code there is
    the five pops, and they end where the arm of instruction `ret` begins (the epilogue if `ret` is past the end of the
    program); if an instruction can be read at `ret`, `ret` is an instruction start.
    (Last conjunct weakened from `∃ i, (ret, i) ∈ whole_starts p`, which fails for a `call` that is the last
    instruction of the program: then `ret = pc + 1` is no instruction start although `validate` accepts the program.) -/
def RetPoint (c : Cfg) (p : Bytes) (L : JitAst.Layout) (ret cur : Nat) : Prop :=
  ∃ q e, cur = c.codeBase + q ∧ checkSeq c.code (whole_tgt p L) q popSeq = some e ∧ whole_locOf p L ret = some e ∧
    (∀ j, getInsn? p ret = some j → (ret, j) ∈ whole_starts p)

/-- the callers' frames on the native stack, innermost first: the slot at `a` holds the return address `cur` of the
    current activation; if that activation is a local call with frame `f`, `cur` is its return point, the five slots
    above hold the caller's r9, r8, r7, r6 (as pushed: r15, r14, r13, rbx) and the packet pointer, and the slot after
    them is the return slot of the caller's own activation; at depth 0 `cur` is the landing pad -/
def FramesOk (c : Cfg) (p : Bytes) (L : JitAst.Layout) (landing : Nat) (pkt : BitVec 64) (xm : List Region) :
    Nat → List Frame → Nat → Prop
  | _, [], cur => cur = landing
  | a, f :: rest, cur =>
    RetPoint c p L f.ret cur ∧
    readMem xm (a + 8) 40 = some (leBytes f.saved.2.2.2.toNat 8 ++ leBytes f.saved.2.2.1.toNat 8 ++
      leBytes f.saved.2.1.toNat 8 ++ leBytes f.saved.1.toNat 8 ++ leBytes pkt.toNat 8) ∧
    ∃ next, readMem xm (a + 48) 8 = some (leBytes next 8) ∧ FramesOk c p L landing pkt xm (a + 48) rest next

-- the frames under a change of memory ---------------------------------------------------------------------------------

/-- `FramesOk` only reads from eight bytes above its slot up to the end of the last frame -/
theorem lc_framesOk_congr (c : Cfg) (p : Bytes) (L : JitAst.Layout) (landing : Nat) (pkt : BitVec 64) (xm xm' : List Region)
    (lo hiB : Nat) (h : ∀ a w, lo ≤ a → a + w ≤ hiB → readMem xm' a w = readMem xm a w) :
    ∀ (frames : List Frame) (a cur : Nat), lo ≤ a + 8 → a + 8 + 48 * frames.length ≤ hiB →
      FramesOk c p L landing pkt xm a frames cur → FramesOk c p L landing pkt xm' a frames cur := by
  intro frames
  induction frames with
  | nil => intro a cur _ _ hf; simpa only [FramesOk] using hf
  | cons f rest ih =>
    intro a cur h1 h2 hf
    simp only [FramesOk] at hf ⊢
    simp only [List.length_cons] at h2
    obtain ⟨hrp, h40, next, h8, hrest⟩ := hf
    refine ⟨hrp, ?_, next, ?_, ih (a + 48) next (by omega) (by omega) hrest⟩
    · rw [h (a + 8) 40 h1 (by omega)]; exact h40
    · rw [h (a + 48) 8 (by omega) (by omega)]; exact h8

theorem lc_framesOk_pkt (c : Cfg) (p : Bytes) (L : JitAst.Layout) (landing : Nat) (pkt pkt' : BitVec 64) (xm : List Region)
    (a : Nat) (frames : List Frame) (cur : Nat) (hp : pkt' = pkt) (h : FramesOk c p L landing pkt xm a frames cur) :
    FramesOk c p L landing pkt' xm a frames cur := by
  rw [hp]; exact h

/-- frames above the current return slot are untouched by a step that keeps them (`CallersKept`) -/
theorem framesOk_kept (c : Cfg) (p : Bytes) (L : JitAst.Layout) (landing : Nat) (pkt : BitVec 64) (σ σ' : St) (s : State)
    (cur : Nat) (hk : CallersKept σ σ' s) (hr : (σ.get X86.RSP).toNat + 8 + 48 * s.frames.length = s.mem.stack.base)
    (h : FramesOk c p L landing pkt σ.mem (σ.get X86.RSP).toNat s.frames cur) :
    FramesOk c p L landing pkt σ'.mem (σ.get X86.RSP).toNat s.frames cur :=
  lc_framesOk_congr c p L landing pkt σ.mem σ'.mem ((σ.get X86.RSP).toNat + 8) s.mem.stack.base hk s.frames _ cur
    (Nat.le_refl _) (Nat.le_of_eq hr) h

-- the eBPF side --------------------------------------------------------------------------------------------------------

theorem lc_rd (s : State) (k : Nat) (hk : k < 11) (f : BitVec 64 → Outcome) : Interp.rd s k f = f (s.reg.getD k 0) := by
  unfold Interp.rd
  simp [Vector.getD, hk]

theorem lc_jitExec_call (env : Env) (s : State) (i : Insn) (hopc : i.opc = 0x85 ∧ i.src = 1) :
    EngineSem.jitExec env s i = EngineSem.jitCallLocal s i.imm := by
  have h85 : i.opc.toNat = 0x85 := by rw [hopc.1]; rfl
  have h1 : EngineSem.cmpImmSigned s i = none := by
    unfold EngineSem.cmpImmSigned
    simp only [h85]
  have h2 : EngineSem.xaddInsn env s i = none := by
    unfold EngineSem.xaddInsn
    simp only [h85]
  unfold EngineSem.jitExec
  rw [h1]
  simp only []
  rw [h2]
  simp only []
  rw [if_pos hopc]

theorem lc_jitCallLocal_next (s s' : State) (imm : BitVec 32) (h : EngineSem.jitCallLocal s imm = .next s') :
    0 ≤ (s.pc : Int) + imm.toInt ∧
    s' = { s with frames := { ret := s.pc, saved := (s.reg.getD 6 0, s.reg.getD 7 0, s.reg.getD 8 0, s.reg.getD 9 0) } :: s.frames,
                  pc := ((s.pc : Int) + imm.toInt).toNat } := by
  unfold EngineSem.jitCallLocal at h
  rw [lc_rd s 6 (by omega), lc_rd s 7 (by omega), lc_rd s 8 (by omega), lc_rd s 9 (by omega)] at h
  unfold Interp.jumpTo at h
  split at h
  · cases h
  · next hlt =>
    simp only [Outcome.next.injEq] at h
    exact ⟨by omega, h.symm⟩

theorem lc_jitExec_exit (env : Env) (s : State) (i : Insn) (f : Frame) (rest : List Frame) (h95 : i.opc.toNat = 0x95)
    (hfr : s.frames = f :: rest) :
    EngineSem.jitExec env s i = .next { s with
      reg := (((s.reg.setIfInBounds 6 f.saved.1).setIfInBounds 7 f.saved.2.1).setIfInBounds 8 f.saved.2.2.1).setIfInBounds 9 f.saved.2.2.2,
      pc := f.ret, frames := rest } := by
  have h1 : EngineSem.cmpImmSigned s i = none := by
    unfold EngineSem.cmpImmSigned
    simp only [h95]
  have h2 : EngineSem.xaddInsn env s i = none := by
    unfold EngineSem.xaddInsn
    simp only [h95]
  have h3 : i.opc = 0x95 := (whole_opc_eq i.opc 0x95 (by decide)).mpr h95
  have h4 : ¬ (i.opc = 0x85 ∧ i.src = 1) := by
    intro hh
    have := (whole_opc_eq i.opc 0x85 (by decide)).mp hh.1
    omega
  unfold EngineSem.jitExec
  rw [h1]
  simp only []
  rw [h2]
  simp only []
  rw [if_neg h4, if_pos h3]
  unfold EngineSem.jitExit
  rw [hfr]

-- the arm --------------------------------------------------------------------------------------------------------------

theorem lc_arm_dst (haddr : Nat → Option Nat) (pc : Nat) (i : Insn) (nx : Option Insn) (r : List AI × Nat)
    (h : JitAst.arm haddr pc i nx = .ok r) : i.dst.toNat < 11 := by
  by_cases hd : i.dst.toNat < 11
  · exact hd
  · unfold JitAst.arm at h
    rw [mapRegister_none _ (by omega)] at h
    cases h

theorem lc_arm_call (haddr : Nat → Option Nat) (pc n : Nat) (i : Insn) (nx : Option Insn) (ais : List AI)
    (h85 : i.opc = 0x85) (hs1 : i.src = 1) (h : JitAst.arm haddr pc i nx = .ok (ais, n)) :
    n = 1 ∧ ais = [AI.i (.push 10), .i (.push 3), .i (.push 13), .i (.push 14), .i (.push 15)] ++
      (AI.call (.pc ((pc : Int) + i.imm.toInt + 1)) :: popSeq) := by
  have hd := lc_arm_dst _ _ _ _ _ h
  have hs : i.src.toNat < 11 := by rw [hs1]; decide
  have hopc : i.opc.toNat = 0x85 := by rw [h85]; rfl
  unfold JitAst.arm at h
  rw [mapRegister_eq _ hd, mapRegister_eq _ hs] at h
  simp only [hopc, hs1] at h
  rw [if_pos trivial] at h
  injection h with h
  injection h with h1 h2
  exact ⟨h2.symm, h1.symm⟩


-- the machine side of `call rel` ------------------------------------------------------------------------------------------

theorem lc_exec_call (c : Cfg) (σ σ1 : St) (rel : BitVec 32) (next : Nat)
    (hp : X86.push { σ with rip := next } (BitVec.ofNat 64 next) = some σ1) :
    exec c σ (.call rel) next = .next { σ1 with rip := X86.relTarget next rel } := by
  unfold exec
  simp only [hp]

theorem lc_tgt_pc (p : Bytes) (L : JitAst.Layout) (t : Int) (l : Nat) (h : whole_tgt p L (.pc t) = some l) :
    0 ≤ t ∧ L.pcLocs[t.toNat]? = some l ∧ ∃ j, (t.toNat, j) ∈ whole_starts p := by
  have h' : (if 0 ≤ t ∧ (whole_starts p).any (fun (k, _) => (k : Int) == t) then L.pcLocs[t.toNat]? else none) = some l := h
  clear h
  split at h'
  · next hc =>
    obtain ⟨h0, hany⟩ := hc
    refine ⟨h0, h', ?_⟩
    rw [List.any_eq_true] at hany
    obtain ⟨⟨k, j⟩, hmem, hk⟩ := hany
    simp only [beq_iff_eq] at hk
    have : t.toNat = k := by omega
    exact ⟨j, by rw [this]; exact hmem⟩
  · cases h'

/-- **the call.**  At the arm of `call` (src = 1) the machine pushes five registers and calls the callee's arm: the
    new state represents `s'` (one more frame, pc at the callee) with the return point of this call as current
    return address, and the frames are as `FramesOk` says.  Needs 48 more bytes of native stack (`hroom`). -/
theorem callLocal_sim (c : Cfg) (env : Env) (haddr : Nat → Option Nat) (um ud : Bool) (L : JitAst.Layout) (landing cur : Nat)
    (pc : Nat) (i : Insn) (σ : St) (s s' : State)
    (hv : JitAst.validate env.prog haddr um ud c.code L = true) (hsize : c.codeBase + c.code.size < 2 ^ 63)
    (hi : (pc, i) ∈ whole_starts env.prog) (hopc : i.opc = 0x85 ∧ i.src = 1)
    (hloc : ∃ l, L.pcLocs[pc]? = some l ∧ σ.rip = c.codeBase + l)
    (hrel : Rel0 cur σ s) (hpc : s.pc = pc + 1)
    (hf : FramesOk c env.prog L landing (σ.get 10) σ.mem (σ.get X86.RSP).toNat s.frames cur)
    (hroom : ∃ lower, σ.mem.getLast? = some lower ∧ lower.base + 64 + 48 ≤ (σ.get X86.RSP).toNat)
    (hx : EngineSem.jitExec env s i = .next s') :
    ∃ k σ' cur', stepsN c k σ = some σ' ∧ Rel0 cur' σ' s' ∧
      FramesOk c env.prog L landing (σ'.get 10) σ'.mem (σ'.get X86.RSP).toNat s'.frames cur' ∧
      topBytes σ' s' = topBytes σ s ∧ σ'.log = σ.log ∧ σ'.misaligned = σ.misaligned ∧ s'.log = s.log ∧
      s'.mem = s.mem ∧
      (∃ l, L.pcLocs[s'.pc]? = some l ∧ σ'.rip = c.codeBase + l) ∧ (∃ j, (s'.pc, j) ∈ whole_starts env.prog) := by
  obtain ⟨a, hl, hrip⟩ := hloc
  obtain ⟨ais, n, a', b, harm, hla, hchk, hlocb⟩ := whole_validate_arm env.prog haddr um ud c.code L hv pc i hi
  have hal : a' = a := by rw [hl] at hla; injection hla with e; exact e.symm
  rw [hal] at hchk
  have hnext : ∀ j, getInsn? env.prog (pc + 1) = some j → (pc + 1, j) ∈ whole_starts env.prog := by
    intro j hj
    have h18 : ¬ i.opc = 0x18 := by rw [hopc.1]; decide
    have := whole_starts_next env.prog pc i j hi (by rw [if_neg h18]; exact hj)
    rwa [if_neg h18] at this
  obtain ⟨hn, hais⟩ := lc_arm_call haddr pc n i _ ais hopc.1 hopc.2 harm
  subst hn; subst hais
  rw [lc_jitExec_call env s i hopc] at hx
  obtain ⟨ht0, hs'⟩ := lc_jitCallLocal_next s s' i.imm hx
  have hble : b ≤ c.code.size := whole_locOf_le env.prog haddr um ud c.code L hv _ b hlocb
  obtain ⟨e0, e1, e2, e3, e4, e5, e6, e7, e8, e9, e10⟩ := regOf_vals
  -- the native stack
  obtain ⟨pre, lower, hm, hlb, hroom0, hlbd, hpre, hrebuild⟩ := lc_expose cur σ s hrel
  have hrsp : (σ.get 4).toNat + 8 + 48 * s.frames.length = s.mem.stack.base := hrel.rsp
  have hroom1 : lower.base + 64 + 48 ≤ (σ.get 4).toNat := by
    obtain ⟨l0, hl0, hle⟩ := hroom
    rw [hm, List.getLast?_append] at hl0
    simp at hl0
    subst hl0
    exact hle
  have hns0 : md_NS pre lower.base lower.bytes.size ((σ.get 4).toNat + 8) (fun j => lower.bytes.getD j 0) σ [cur] := by
    refine lc_ns_enter pre lower σ hm hpre hlbd [cur] _ (by simp) (by simp; omega) (by omega) ?_
    intro j hj
    simp only [List.length_cons, List.length_nil] at hj
    have hj0 : j = 0 := by omega
    subst hj0
    have : (σ.get 4).toNat + 8 - 8 * (0 + 1) = (σ.get 4).toNat := by omega
    rw [this]
    exact hrel.ret
  -- the five pushes
  obtain ⟨σ1, hst1, hg1, hns1⟩ := md_step_push c 10 hns0 (by simp; omega)
  obtain ⟨σ2, hst2, hg2, hns2⟩ := md_step_push c 3 hns1 (by simp; omega)
  obtain ⟨σ3, hst3, hg3, hns3⟩ := md_step_push c 13 hns2 (by simp; omega)
  obtain ⟨σ4, hst4, hg4, hns4⟩ := md_step_push c 14 hns3 (by simp; omega)
  obtain ⟨σ5, hst5, hg5, hns5⟩ := md_step_push c 15 hns4 (by simp; omega)
  have hr1 : ∀ r, r ≠ 4 → σ1.get r = σ.get r := fun r hr => by rw [hg1, get_set_ne _ 4 r _ (Ne.symm hr)]
  have hr2 : ∀ r, r ≠ 4 → σ2.get r = σ.get r := fun r hr => by rw [hg2, get_set_ne _ 4 r _ (Ne.symm hr), hr1 r hr]
  have hr3 : ∀ r, r ≠ 4 → σ3.get r = σ.get r := fun r hr => by rw [hg3, get_set_ne _ 4 r _ (Ne.symm hr), hr2 r hr]
  have hr4 : ∀ r, r ≠ 4 → σ4.get r = σ.get r := fun r hr => by rw [hg4, get_set_ne _ 4 r _ (Ne.symm hr), hr3 r hr]
  have hr5 : ∀ r, r ≠ 4 → σ5.get r = σ.get r := fun r hr => by rw [hg5, get_set_ne _ 4 r _ (Ne.symm hr), hr4 r hr]
  have hsteps5 := md_Steps.cons hst1 (.cons hst2 (.cons hst3 (.cons hst4 (.cons hst5 (.nil _)))))
  obtain ⟨m, hchk', hrun5⟩ := md_run c (whole_tgt env.prog L) [.push 10, .push 3, .push 13, .push 14, .push 15]
    (AI.call (.pc ((pc : Int) + i.imm.toInt + 1)) :: popSeq) a b σ σ5 hchk hrip hsteps5
  have hlog5 := md_steps_log hsteps5
  -- the call
  obtain ⟨n6, rel, l', hd6, htgt, hland, hchkpops⟩ := checkSeq_call _ _ _ _ _ _ hchk'
  have hqb : m + n6 ≤ b := checkSeq_le _ _ _ _ _ hchkpops
  obtain ⟨_, hl', hstart'⟩ := lc_tgt_pc env.prog L _ l' htgt
  have hnextlt : c.codeBase + m + n6 < 2 ^ 64 := by omega
  have hns5' := md_ns_congr (σ' := { σ5 with rip := c.codeBase + m + n6 }) hns5 rfl rfl
  obtain ⟨σ6, hp6, hreg6, _, _, hlog6, hmis6, hns6⟩ := md_ns_push hns5' (by simp; omega) (BitVec.ofNat 64 (c.codeBase + m + n6))
  have hstep6 : step c { σ5 with rip := c.codeBase + m } =
      .next { σ6 with rip := X86.relTarget (c.codeBase + m + n6) rel } := by
    rw [step_at c _ m n6 (.call rel) rfl hd6]
    exact lc_exec_call c _ σ6 rel _ hp6
  have htarget : X86.relTarget (c.codeBase + m + n6) rel = c.codeBase + l' := by
    rw [Nat.add_assoc]
    exact relTarget_lands _ _ _ _ hland (by omega)
  have hr6 : ∀ r, r ≠ 4 → σ6.get r = σ.get r := fun r hr => by
    rw [get_congr _ σ6 r hreg6, get_set_ne _ 4 r _ (Ne.symm hr), md_get_rip, hr5 r hr]
  have hslot : (BitVec.ofNat 64 (c.codeBase + m + n6)).toNat = c.codeBase + (m + n6) := by
    rw [BitVec.toNat_ofNat, Nat.mod_eq_of_lt hnextlt, Nat.add_assoc]
  -- the values pushed
  have hv10 : σ.get 10 = σ.get 10 := rfl
  have hv3 : σ1.get 3 = s.reg.getD 6 0 := by rw [hr1 3 (by omega), ← e6]; exact hrel.regs 6 (by omega)
  have hv13 : σ2.get 13 = s.reg.getD 7 0 := by rw [hr2 13 (by omega), ← e7]; exact hrel.regs 7 (by omega)
  have hv14 : σ3.get 14 = s.reg.getD 8 0 := by rw [hr3 14 (by omega), ← e8]; exact hrel.regs 8 (by omega)
  have hv15 : σ4.get 15 = s.reg.getD 9 0 := by rw [hr4 15 (by omega), ← e9]; exact hrel.regs 9 (by omega)
  rw [hv3, hv13, hv14, hv15, hslot] at hns6
  -- reading the seven slots back
  have hsp6 : (σ6.get 4).toNat + 56 = (σ.get 4).toNat + 8 := by simpa using hns6.sp
  have hrd0 := md_ns_read hns6 0 (by simp)
  have hrd1 := md_ns_read hns6 1 (by simp)
  have hrd2 := md_ns_read hns6 2 (by simp)
  have hrd3 := md_ns_read hns6 3 (by simp)
  have hrd4 := md_ns_read hns6 4 (by simp)
  have hrd5 := md_ns_read hns6 5 (by simp)
  have hrd6 := md_ns_read hns6 6 (by simp)
  have ea0 : (σ.get 4).toNat + 8 - 8 * (0 + 1) = (σ6.get 4).toNat + 48 := by omega
  have ea1 : (σ.get 4).toNat + 8 - 8 * (1 + 1) = (σ6.get 4).toNat + 8 + 32 := by omega
  have ea2 : (σ.get 4).toNat + 8 - 8 * (2 + 1) = (σ6.get 4).toNat + 8 + 24 := by omega
  have ea3 : (σ.get 4).toNat + 8 - 8 * (3 + 1) = (σ6.get 4).toNat + 8 + 16 := by omega
  have ea4 : (σ.get 4).toNat + 8 - 8 * (4 + 1) = (σ6.get 4).toNat + 8 + 8 := by omega
  have ea5 : (σ.get 4).toNat + 8 - 8 * (5 + 1) = (σ6.get 4).toNat + 8 := by omega
  have ea6 : (σ.get 4).toNat + 8 - 8 * (6 + 1) = (σ6.get 4).toNat := by omega
  rw [ea0] at hrd0; rw [ea1] at hrd1; rw [ea2] at hrd2; rw [ea3] at hrd3; rw [ea4] at hrd4; rw [ea5] at hrd5; rw [ea6] at hrd6
  simp only [List.getD_eq_getElem?_getD, List.cons_append, List.nil_append, List.getElem?_cons_zero, List.getElem?_cons_succ,
    Option.getD_some] at hrd0 hrd1 hrd2 hrd3 hrd4 hrd5 hrd6
  have habove := fun a w ha => md_ns_above hns0 hns6 a w ha
  obtain ⟨⟨lower6, hm6, hb6, hs6, _, _⟩, _, _, _, _, _⟩ := hns6
  have hpre6 : ∀ r ∈ pre, ∀ a w, lower6.base ≤ a → a + w ≤ lower6.base + lower6.bytes.size → 0 < w → r.contains a w = false := by
    rw [hb6, hs6]; exact hpre
  -- the new states
  have hmem' : s'.mem = s.mem := by rw [hs']
  have hfl' : s'.frames.length = s.frames.length + 1 := by rw [hs']; rfl
  have hpc' : s'.pc = ((pc : Int) + i.imm.toInt + 1).toNat := by
    rw [hs']
    show ((s.pc : Int) + i.imm.toInt).toNat = _
    rw [hpc]
    congr 1
    omega
  obtain ⟨hrel', htop'⟩ := hrebuild { σ6 with rip := X86.relTarget (c.codeBase + m + n6) rel } s' (c.codeBase + (m + n6)) lower6
    hm6 hb6 hs6 hmem' (by rw [md_get_rip, hfl']; omega) (by rw [md_get_rip]; omega) (by rw [md_get_rip]; exact hrd6)
    (by
      intro k hk
      rw [md_get_rip, hr6 _ (regOf_ne_special k hk).1, hs']
      exact hrel.regs k hk)
    (by rw [md_get_rip, hr6 10 (by omega)])
  refine ⟨5 + 1, _, c.codeBase + (m + n6), stepsN_add c _ _ _ _ _ hrun5 (stepsN_one c _ _ hstep6), hrel', ?_, htop', ?_, ?_,
    by rw [hs'], hmem', ⟨l', by rw [hpc']; exact hl', htarget⟩, by rw [hpc']; exact hstart'⟩
  · -- the frames
    have hpk : St.get { σ6 with rip := X86.relTarget (c.codeBase + m + n6) rel } 10 = σ.get 10 := by
      rw [md_get_rip, hr6 10 (by omega)]
    have hsp' : (St.get { σ6 with rip := X86.relTarget (c.codeBase + m + n6) rel } X86.RSP).toNat = (σ6.get 4).toNat := rfl
    rw [hpk, hsp']
    show FramesOk c env.prog L landing (σ.get 10) σ6.mem (σ6.get 4).toNat s'.frames _
    rw [hs']
    simp only [FramesOk]
    refine ⟨⟨m + n6, b, rfl, hchkpops, by rw [hpc]; exact hlocb, by rw [hpc]; exact hnext⟩, ?_, cur, hrd0, ?_⟩
    · rw [hm6] at hrd1 hrd2 hrd3 hrd4 hrd5 ⊢
      exact lc_read40_of_8 pre lower6 _ _ _ _ _ _ hpre6 (by omega) (by omega) hrd5 hrd4 hrd3 hrd2 hrd1
    · have e48 : (σ6.get 4).toNat + 48 = (σ.get 4).toNat := by omega
      rw [e48]
      exact lc_framesOk_congr c env.prog L landing (σ.get 10) σ.mem σ6.mem ((σ.get 4).toNat + 8)
        ((σ.get 4).toNat + 8 + 48 * s.frames.length) (fun a w ha _ => habove a w ha) s.frames _ cur (Nat.le_refl _) (Nat.le_refl _) hf
  · show σ6.log = σ.log
    rw [hlog6]; exact hlog5.1
  · show σ6.misaligned = σ.misaligned
    rw [hmis6]; exact hlog5.2

-- the machine side of `ret` and the pops ---------------------------------------------------------------------------------

theorem lc_exec_ret (c : Cfg) (σ σ1 : St) (v : BitVec 64) (next : Nat)
    (hp : X86.pop { σ with rip := next } = some (v, σ1)) (hne : v ≠ c.retSentinel) :
    exec c σ .ret next = .next { σ1 with rip := v.toNat } := by
  unfold exec
  simp only [hp]
  rw [if_neg hne]

/-- an offset at which something decodes lies inside the code buffer -/
theorem lc_decode_lt (code : Array UInt8) (q : Nat) (r : Instr × Nat) (h : decode (window code q) = some r) : q < code.size := by
  by_cases hq : q < code.size
  · exact hq
  · have hw : window code q = [] := by
      unfold window
      rw [List.filterMap_eq_nil_iff]
      intro k _
      have : code[q + k]? = none := by
        rw [Array.getElem?_eq_none_iff]
        omega
      rw [this]
      rfl
    rw [hw] at h
    cases h

theorem lc_pop_get (σ : St) (r : Nat) (v : BitVec 64) (k : Nat) (hr : r ≠ 4) (hr16 : r < 16) :
    ((σ.set 4 (σ.get 4 + 8)).set r v).get k = if k = r then v else if k = 4 then σ.get 4 + 8 else σ.get k := by
  by_cases h1 : k = r
  · subst h1
    rw [if_pos rfl, get_set_eq _ _ _ hr16]
  · rw [if_neg h1, get_set_ne _ _ _ _ (Ne.symm h1)]
    by_cases h2 : k = 4
    · subst h2
      rw [if_pos rfl, get_set_eq _ _ _ (by omega)]
    · rw [if_neg h2, get_set_ne _ _ _ _ (Ne.symm h2)]

theorem lc_getD_set_ne (reg : Vector (BitVec 64) 11) (j k : Nat) (v : BitVec 64) (h : j ≠ k) :
    (reg.setIfInBounds j v).getD k 0 = reg.getD k 0 := by
  simp [Vector.getD, h]

theorem lc_getD_set_eq (reg : Vector (BitVec 64) 11) (k : Nat) (v : BitVec 64) (h : k < 11) :
    (reg.setIfInBounds k v).getD k 0 = v := by
  simp [Vector.getD, h]

/-- **the return.**  `exit` inside a local function: `ret` pops the return point, the five pops restore r6 … r9 and the
    packet pointer, and execution continues at the arm of the saved return pc with the caller's frames.
    CORRECTED STATEMENT: hypothesis `hsent` added (the sentinel return address of the machine model is no code address;
    otherwise `ret` to the return point would end the run). -/
theorem exitDepth_sim (c : Cfg) (env : Env) (haddr : Nat → Option Nat) (um ud : Bool) (L : JitAst.Layout) (landing cur : Nat)
    (pc : Nat) (i : Insn) (σ : St) (s s' : State) (f : Frame) (rest : List Frame)
    (hv : JitAst.validate env.prog haddr um ud c.code L = true) (hsize : c.codeBase + c.code.size < 2 ^ 63)
    (hsent : c.retSentinel.toNat < c.codeBase ∨ c.codeBase + c.code.size ≤ c.retSentinel.toNat)
    (hi : (pc, i) ∈ whole_starts env.prog) (hopc : i.opc.toNat = 0x95)
    (hloc : ∃ l, L.pcLocs[pc]? = some l ∧ σ.rip = c.codeBase + l)
    (hrel : Rel0 cur σ s) (hfr : s.frames = f :: rest)
    (hf : FramesOk c env.prog L landing (σ.get 10) σ.mem (σ.get X86.RSP).toNat s.frames cur)
    (hx : EngineSem.jitExec env s i = .next s') :
    ∃ k σ' cur', stepsN c k σ = some σ' ∧ Rel0 cur' σ' s' ∧
      FramesOk c env.prog L landing (σ'.get 10) σ'.mem (σ'.get X86.RSP).toNat s'.frames cur' ∧
      topBytes σ' s' = topBytes σ s ∧ σ'.log = σ.log ∧ σ'.misaligned = σ.misaligned ∧ s'.log = s.log ∧
      s'.mem = s.mem ∧
      (∃ l, whole_locOf env.prog L s'.pc = some l ∧ σ'.rip = c.codeBase + l) := by
  obtain ⟨a, hl, hrip⟩ := hloc
  obtain ⟨ais, n, a', b, harm, hla, hchk, hlocb⟩ := whole_validate_arm env.prog haddr um ud c.code L hv pc i hi
  have hal : a' = a := by rw [hl] at hla; injection hla with e; exact e.symm
  rw [hal] at hchk
  have hais := (whole_arm_shape haddr pc i _ ais n harm).2 hopc
  subst hais
  rw [lc_jitExec_exit env s i f rest hopc hfr] at hx
  simp only [Outcome.next.injEq] at hx
  have hs' := hx.symm
  obtain ⟨nr, hdr, _⟩ := checkSeq_i _ _ _ _ _ _ hchk
  obtain ⟨e0, e1, e2, e3, e4, e5, e6, e7, e8, e9, e10⟩ := regOf_vals
  -- the frame of this activation
  rw [hfr] at hf
  simp only [FramesOk] at hf
  obtain ⟨⟨q, e, hcur, hchkpops, hloce, _⟩, h40, next, hnx, hfrest⟩ := hf
  have hq : q < c.code.size := by
    have hc := hchkpops
    unfold popSeq at hc
    obtain ⟨n1, hdq, _⟩ := checkSeq_i _ _ _ _ _ _ hc
    exact lc_decode_lt _ _ _ hdq
  have hcv : (BitVec.ofNat 64 cur).toNat = cur := by
    rw [BitVec.toNat_ofNat]
    exact Nat.mod_eq_of_lt (by omega)
  have hne : BitVec.ofNat 64 cur ≠ c.retSentinel := by
    intro h
    have := congrArg BitVec.toNat h
    rw [hcv] at this
    omega
  -- the native stack
  obtain ⟨pre, lower, hm, hlb, hroom0, hlbd, hpre, hrebuild⟩ := lc_expose cur σ s hrel
  have hrsp : (σ.get 4).toNat + 8 + 48 * (rest.length + 1) = s.mem.stack.base := by
    have := hrel.rsp
    rw [hfr] at this
    exact this
  have hret : readMem σ.mem (σ.get 4).toNat 8 = some (leBytes cur 8) := hrel.ret
  have h40' : readMem (pre ++ [lower]) ((σ.get 4).toNat + 8) 40 = some (leBytes f.saved.2.2.2.toNat 8 ++
      leBytes f.saved.2.2.1.toNat 8 ++ leBytes f.saved.2.1.toNat 8 ++ leBytes f.saved.1.toNat 8 ++ leBytes (σ.get 10).toNat 8) := by
    rw [← hm]; exact h40
  obtain ⟨r1, r2, r3, r4, r5⟩ := lc_read8_of_40 pre lower ((σ.get 4).toNat + 8) _ _ _ _ _ hpre (by omega) (by omega)
    (md_leBytes_length _ _) (md_leBytes_length _ _) (md_leBytes_length _ _) (md_leBytes_length _ _) h40'
  rw [← hm] at r1 r2 r3 r4 r5
  have hns0 : md_NS pre lower.base lower.bytes.size ((σ.get 4).toNat + 56) (fun j => lower.bytes.getD j 0) σ
      [next, (σ.get 10).toNat, f.saved.1.toNat, f.saved.2.1.toNat, f.saved.2.2.1.toNat, f.saved.2.2.2.toNat,
        (BitVec.ofNat 64 cur).toNat] := by
    refine lc_ns_enter pre lower σ hm hpre hlbd _ _ (by simp) (by simp; omega) (by omega) ?_
    intro j hj
    simp only [List.length_cons, List.length_nil] at hj
    have hj' : j = 0 ∨ j = 1 ∨ j = 2 ∨ j = 3 ∨ j = 4 ∨ j = 5 ∨ j = 6 := by omega
    rcases hj' with rfl | rfl | rfl | rfl | rfl | rfl | rfl
    · have : (σ.get 4).toNat + 56 - 8 * (0 + 1) = (σ.get 4).toNat + 48 := by omega
      rw [this]; exact hnx
    · have : (σ.get 4).toNat + 56 - 8 * (1 + 1) = (σ.get 4).toNat + 8 + 32 := by omega
      rw [this]; exact r5
    · have : (σ.get 4).toNat + 56 - 8 * (2 + 1) = (σ.get 4).toNat + 8 + 24 := by omega
      rw [this]; exact r4
    · have : (σ.get 4).toNat + 56 - 8 * (3 + 1) = (σ.get 4).toNat + 8 + 16 := by omega
      rw [this]; exact r3
    · have : (σ.get 4).toNat + 56 - 8 * (4 + 1) = (σ.get 4).toNat + 8 + 8 := by omega
      rw [this]; exact r2
    · have : (σ.get 4).toNat + 56 - 8 * (5 + 1) = (σ.get 4).toNat + 8 := by omega
      rw [this]; exact r1
    · have : (σ.get 4).toNat + 56 - 8 * (6 + 1) = (σ.get 4).toNat := by omega
      rw [this]
      show readMem σ.mem (σ.get 4).toNat 8 = some (leBytes (BitVec.ofNat 64 cur).toNat 8)
      rw [hcv]; exact hret
  -- `ret`
  have hns0' : md_NS pre lower.base lower.bytes.size ((σ.get 4).toNat + 56) (fun j => lower.bytes.getD j 0)
      { σ with rip := c.codeBase + a + nr }
      ([next, (σ.get 10).toNat, f.saved.1.toNat, f.saved.2.1.toNat, f.saved.2.2.1.toNat, f.saved.2.2.2.toNat] ++
        [(BitVec.ofNat 64 cur).toNat]) := md_ns_congr hns0 rfl rfl
  obtain ⟨hpop, hnsr⟩ := md_ns_pop hns0'
  have hstepr : step c σ = .next { (St.set { σ with rip := c.codeBase + a + nr } 4 (σ.get 4 + 8)) with rip := (BitVec.ofNat 64 cur).toNat } := by
    rw [step_at c σ a nr .ret hrip hdr]
    exact lc_exec_ret c σ _ _ _ hpop hne
  generalize hσr : ({ (St.set { σ with rip := c.codeBase + a + nr } 4 (σ.get 4 + 8)) with rip := (BitVec.ofNat 64 cur).toNat } : St) = σr at hstepr
  have hnsr' : md_NS pre lower.base lower.bytes.size ((σ.get 4).toNat + 56) (fun j => lower.bytes.getD j 0) σr
      ([next, (σ.get 10).toNat, f.saved.1.toNat, f.saved.2.1.toNat, f.saved.2.2.1.toNat] ++ [f.saved.2.2.2.toNat]) := by
    rw [← hσr]; exact md_ns_congr hnsr rfl rfl
  have hgr : ∀ r, r ≠ 4 → σr.get r = σ.get r := fun r hr => by
    rw [← hσr]
    show (St.set { σ with rip := c.codeBase + a + nr } 4 (σ.get 4 + 8)).get r = _
    rw [get_set_ne _ 4 r _ (Ne.symm hr)]; rfl
  have hripr : σr.rip = c.codeBase + q := by rw [← hσr]; show (BitVec.ofNat 64 cur).toNat = _; rw [hcv, hcur]
  have hlogr : σr.log = σ.log ∧ σr.misaligned = σ.misaligned := by rw [← hσr]; exact ⟨rfl, rfl⟩
  -- the five pops
  obtain ⟨hp1, hn1⟩ := md_step_pop c (slots := [next, (σ.get 10).toNat, f.saved.1.toNat, f.saved.2.1.toNat, f.saved.2.2.1.toNat])
    (v := f.saved.2.2.2) 15 hnsr' (by omega)
  have g1 := fun k => lc_pop_get σr 15 f.saved.2.2.2 k (by omega) (by omega)
  generalize ((σr.set 4 (σr.get 4 + 8)).set 15 f.saved.2.2.2) = τ1 at hp1 hn1 g1
  obtain ⟨hp2, hn2⟩ := md_step_pop c (slots := [next, (σ.get 10).toNat, f.saved.1.toNat, f.saved.2.1.toNat])
    (v := f.saved.2.2.1) 14 hn1 (by omega)
  have g2 := fun k => lc_pop_get τ1 14 f.saved.2.2.1 k (by omega) (by omega)
  generalize ((τ1.set 4 (τ1.get 4 + 8)).set 14 f.saved.2.2.1) = τ2 at hp2 hn2 g2
  obtain ⟨hp3, hn3⟩ := md_step_pop c (slots := [next, (σ.get 10).toNat, f.saved.1.toNat])
    (v := f.saved.2.1) 13 hn2 (by omega)
  have g3 := fun k => lc_pop_get τ2 13 f.saved.2.1 k (by omega) (by omega)
  generalize ((τ2.set 4 (τ2.get 4 + 8)).set 13 f.saved.2.1) = τ3 at hp3 hn3 g3
  obtain ⟨hp4, hn4⟩ := md_step_pop c (slots := [next, (σ.get 10).toNat])
    (v := f.saved.1) 3 hn3 (by omega)
  have g4 := fun k => lc_pop_get τ3 3 f.saved.1 k (by omega) (by omega)
  generalize ((τ3.set 4 (τ3.get 4 + 8)).set 3 f.saved.1) = τ4 at hp4 hn4 g4
  obtain ⟨hp5, hn5⟩ := md_step_pop c (slots := [next]) (v := σ.get 10) 10 hn4 (by omega)
  have g5 := fun k => lc_pop_get τ4 10 (σ.get 10) k (by omega) (by omega)
  generalize ((τ4.set 4 (τ4.get 4 + 8)).set 10 (σ.get 10)) = τ5 at hp5 hn5 g5
  have hsteps := md_Steps.cons hp1 (.cons hp2 (.cons hp3 (.cons hp4 (.cons hp5 (.nil _)))))
  obtain ⟨m', hm'nil, hrun⟩ := md_run c (whole_tgt env.prog L) [.pop 15, .pop 14, .pop 13, .pop 3, .pop 10] [] q e σr τ5
    hchkpops hripr hsteps
  rw [checkSeq_nil] at hm'nil
  have hm'e : m' = e := by injection hm'nil
  subst hm'e
  have hlog5 := md_steps_log hsteps
  -- registers after the pops
  have hkeep : ∀ r, r ≠ 4 → r ≠ 10 → r ≠ 3 → r ≠ 13 → r ≠ 14 → r ≠ 15 → τ5.get r = σ.get r := by
    intro r h4 h10 h3 h13 h14 h15
    rw [g5, if_neg h10, if_neg h4, g4, if_neg h3, if_neg h4, g3, if_neg h13, if_neg h4, g2, if_neg h14, if_neg h4,
      g1, if_neg h15, if_neg h4, hgr r h4]
  have ht10 : τ5.get 10 = σ.get 10 := by rw [g5, if_pos rfl]
  have ht3 : τ5.get 3 = f.saved.1 := by simp [g5, g4]
  have ht13 : τ5.get 13 = f.saved.2.1 := by simp [g5, g4, g3]
  have ht14 : τ5.get 14 = f.saved.2.2.1 := by simp [g5, g4, g3, g2]
  have ht15 : τ5.get 15 = f.saved.2.2.2 := by simp [g5, g4, g3, g2, g1]
  have hsp5 : (τ5.get 4).toNat + 8 = (σ.get 4).toNat + 56 := by simpa using hn5.sp
  have hrd0 := md_ns_read hn5 0 (by simp)
  have ea0 : (σ.get 4).toNat + 56 - 8 * (0 + 1) = (τ5.get 4).toNat := by omega
  rw [ea0] at hrd0
  have habove := fun a w ha => md_ns_above hns0 hn5 a w ha
  obtain ⟨⟨lower5, hm5, hb5, hs5, _, _⟩, _, _, _, _, _⟩ := hn5
  have hmem' : s'.mem = s.mem := by rw [hs']
  have hfr' : s'.frames = rest := by rw [hs']
  obtain ⟨hrel', htop'⟩ := hrebuild { τ5 with rip := c.codeBase + m' } s' next lower5 hm5 hb5 hs5 hmem'
    (by rw [md_get_rip, hfr']; omega) (by rw [md_get_rip]; omega) (by rw [md_get_rip]; exact hrd0)
    (by
      intro k hk
      rw [md_get_rip, hs']
      show τ5.get (regOf k) = ((((s.reg.setIfInBounds 6 f.saved.1).setIfInBounds 7 f.saved.2.1).setIfInBounds 8
        f.saved.2.2.1).setIfInBounds 9 f.saved.2.2.2).getD k 0
      have hk' : k = 6 ∨ k = 7 ∨ k = 8 ∨ k = 9 ∨ (k ≠ 6 ∧ k ≠ 7 ∧ k ≠ 8 ∧ k ≠ 9) := by omega
      rcases hk' with rfl | rfl | rfl | rfl | ⟨k6, k7, k8, k9⟩
      · rw [e6, ht3, lc_getD_set_ne _ 9 6 _ (by omega), lc_getD_set_ne _ 8 6 _ (by omega), lc_getD_set_ne _ 7 6 _ (by omega),
          lc_getD_set_eq _ 6 _ (by omega)]
      · rw [e7, ht13, lc_getD_set_ne _ 9 7 _ (by omega), lc_getD_set_ne _ 8 7 _ (by omega), lc_getD_set_eq _ 7 _ (by omega)]
      · rw [e8, ht14, lc_getD_set_ne _ 9 8 _ (by omega), lc_getD_set_eq _ 8 _ (by omega)]
      · rw [e9, ht15, lc_getD_set_eq _ 9 _ (by omega)]
      · rw [lc_getD_set_ne _ 9 k _ (Ne.symm k9), lc_getD_set_ne _ 8 k _ (Ne.symm k8), lc_getD_set_ne _ 7 k _ (Ne.symm k7),
          lc_getD_set_ne _ 6 k _ (Ne.symm k6), ← hrel.regs k hk]
        obtain ⟨n4, n10, _, _⟩ := regOf_ne_special k hk
        have n3 : regOf k ≠ 3 := fun h => k6 (regOf_inj k 6 hk (by omega) (h.trans e6.symm))
        have n13 : regOf k ≠ 13 := fun h => k7 (regOf_inj k 7 hk (by omega) (h.trans e7.symm))
        have n14 : regOf k ≠ 14 := fun h => k8 (regOf_inj k 8 hk (by omega) (h.trans e8.symm))
        have n15 : regOf k ≠ 15 := fun h => k9 (regOf_inj k 9 hk (by omega) (h.trans e9.symm))
        exact hkeep _ n4 n10 n3 n13 n14 n15)
    (by rw [md_get_rip, ht10])
  refine ⟨1 + 5, _, next, stepsN_add c _ _ _ _ _ (stepsN_one c _ _ hstepr) hrun, hrel', ?_, htop', ?_, ?_,
    by rw [hs'], hmem', ⟨m', by rw [hs']; exact hloce, rfl⟩⟩
  · have hpk : St.get { τ5 with rip := c.codeBase + m' } 10 = σ.get 10 := by rw [md_get_rip, ht10]
    have hsp' : (St.get { τ5 with rip := c.codeBase + m' } X86.RSP).toNat = (σ.get 4).toNat + 48 := by
      show (τ5.get 4).toNat = _
      omega
    rw [hpk, hsp', hfr']
    show FramesOk c env.prog L landing (σ.get 10) τ5.mem ((σ.get 4).toNat + 48) rest next
    exact lc_framesOk_congr c env.prog L landing (σ.get 10) σ.mem τ5.mem ((σ.get 4).toNat + 56)
      ((σ.get 4).toNat + 48 + 8 + 48 * rest.length) (fun a w ha _ => habove a w ha) rest _ next (by omega) (Nat.le_refl _) hfrest
  · show τ5.log = σ.log
    rw [hlog5.1]; exact hlogr.1
  · show τ5.misaligned = σ.misaligned
    rw [hlog5.2]; exact hlogr.2

end Rbpf.JitSim
