/-
  x86-64 simulation, class `mulDivOpcodes`, part 4: the save / compute / restore block of `emit_muldivmod`:
  `push rax` (unless dst = rax), `push rdx` (unless dst = rdx), divisor into rcx, `mov rax, dst`, `xor edx, edx` for
  div/mod, `mul`/`div`, result into dst, pops.  Afterwards dst holds the result, rcx is clobbered, every other register
  and the native stack are as before.
-/
import RbpfModel.Lemmas.X86Sim.MulDivExec
namespace Rbpf.JitSim
open Rbpf.X86 (Cfg St Out Instr step exec decode fetch readMem writeMem)
open Rbpf.JitAst (AI Tgt checkSeq window movRR)
open Rbpf.Interp (lo32 zx32 sx32)

inductive md_Kind | mul | div | mod deriving DecidableEq

def md_res (k : md_Kind) (w : Bool) (a b : BitVec 64) : BitVec 64 :=
  match k with
  | .mul => md_mulLo w a b
  | .div => md_divQ w a b
  | .mod => md_divR w a b

def md_saveL (D : Nat) : List Instr := (if D ≠ 0 then [.push 0] else []) ++ (if D ≠ 2 then [.push 2] else [])

def md_computeL (D : Nat) (k : md_Kind) (w : Bool) (X : Instr) : List Instr :=
  [X, movRR D 0] ++ (if k ≠ .mul then [.aluRR false .xor 2 2] else []) ++ [if k = .mul then .mul w 1 else .div w 1]

/-- `m`: the result is the remainder (in rdx), otherwise it is in rax -/
def md_restoreL (D : Nat) (m : Bool) : List Instr :=
  (if D ≠ 2 then (if m then [movRR 2 D] else []) ++ [.pop 2] else []) ++
  (if D ≠ 0 then (if ¬ m then [movRR 0 D] else []) ++ [.pop 0] else [])

def md_block (D : Nat) (k : md_Kind) (w : Bool) (X : Instr) : List Instr :=
  md_saveL D ++ md_computeL D k w X ++ md_restoreL D (k = .mod)

def md_sv (D : Nat) (rax0 rdx0 : BitVec 64) : List Nat :=
  (if D ≠ 0 then [rax0.toNat] else []) ++ (if D ≠ 2 then [rdx0.toNat] else [])

theorem md_get_flags (σ : St) (f : Option X86.Flags) (k : Nat) : St.get { σ with flags := f } k = σ.get k := rfl

theorem md_get_mk (τ : St) (rip : Nat) (fl : Option X86.Flags) (mem : List Region) (log : List (Nat × List (BitVec 64)))
    (mis : Nat) (k : Nat) :
    St.get { reg := τ.reg, rip := rip, flags := fl, mem := mem, log := log, misaligned := mis } k = τ.get k := rfl

theorem md_save (c : Cfg) {pre : List Region} {base size top : Nat} {hi : Nat → BitVec 8} {σ : St} {ret : Nat} (D : Nat)
    (hns : md_NS pre base size top hi σ [ret]) (hsz : base + 72 ≤ top) :
    ∃ σ1, md_Steps c (md_saveL D) σ σ1 ∧ md_NS pre base size top hi σ1 ([ret] ++ md_sv D (σ.get 0) (σ.get 2)) ∧
      ∀ r, r ≠ 4 → σ1.get r = σ.get r := by
  by_cases h0 : D = 0
  · subst h0
    obtain ⟨σ1, hs1, hg1, hn1⟩ := md_step_push c 2 hns (by simp; omega)
    refine ⟨σ1, by simpa [md_saveL] using md_steps_one hs1, by simpa [md_sv] using hn1, ?_⟩
    intro r hr
    rw [hg1, get_set_ne _ _ _ _ (Ne.symm hr)]
  · by_cases h2 : D = 2
    · subst h2
      obtain ⟨σ1, hs1, hg1, hn1⟩ := md_step_push c 0 hns (by simp; omega)
      refine ⟨σ1, by simpa [md_saveL] using md_steps_one hs1, by simpa [md_sv] using hn1, ?_⟩
      intro r hr
      rw [hg1, get_set_ne _ _ _ _ (Ne.symm hr)]
    · obtain ⟨σ1, hs1, hg1, hn1⟩ := md_step_push c 0 hns (by simp; omega)
      obtain ⟨σ2, hs2, hg2, hn2⟩ := md_step_push c 2 hn1 (by simp; omega)
      have e2 : σ1.get 2 = σ.get 2 := by rw [hg1, get_set_ne _ _ _ _ (by omega)]
      rw [e2] at hn2
      refine ⟨σ2, by simpa [md_saveL, h0, h2] using md_Steps.cons hs1 (md_steps_one hs2),
        by simpa [md_sv, h0, h2] using hn2, ?_⟩
      intro r hr
      rw [hg2, get_set_ne _ _ _ _ (Ne.symm hr), hg1, get_set_ne _ _ _ _ (Ne.symm hr)]

theorem md_compute_mul (c : Cfg) {pre : List Region} {base size top : Nat} {hi : Nat → BitVec 8} {σ1 : St} {S : List Nat} (D : Nat) (w : Bool)
    (X : Instr) (dv : BitVec 64) (hns : md_NS pre base size top hi σ1 S) (hD1 : D ≠ 1)
    (hX : md_Step c X σ1 (σ1.set 1 dv)) :
    ∃ σ2, md_Steps c [X, movRR D 0, .mul w 1] σ1 σ2 ∧ md_NS pre base size top hi σ2 S ∧
      σ2.get 0 = md_mulLo w (σ1.get D) dv ∧ ∀ r, r ≠ 0 → r ≠ 1 → r ≠ 2 → σ2.get r = σ1.get r := by
  have hm := md_step_movRR c (σ1.set 1 dv) D 0
  have eD : (σ1.set 1 dv).get D = σ1.get D := get_set_ne _ _ _ _ (Ne.symm hD1)
  rw [eD] at hm
  obtain ⟨hi, hmul⟩ := md_step_mul c ((σ1.set 1 dv).set 0 (σ1.get D)) w
  have e0 : ((σ1.set 1 dv).set 0 (σ1.get D)).get 0 = σ1.get D := by simp [get_set]
  have e1 : ((σ1.set 1 dv).set 0 (σ1.get D)).get 1 = dv := by simp [get_set]
  rw [e0, e1] at hmul
  refine ⟨_, md_Steps.cons hX (md_Steps.cons hm (md_steps_one hmul)), ?_, ?_, ?_⟩
  · exact md_ns_congr hns (by simp) (by simp [get_set, md_get_mk])
  · simp [get_set]
  · intro r h0 h1 h2
    simp [get_set, md_get_mk, Ne.symm h0, Ne.symm h1, Ne.symm h2]

theorem md_compute_div (c : Cfg) {pre : List Region} {base size top : Nat} {hi : Nat → BitVec 8} {σ1 : St} {S : List Nat} (D : Nat) (w : Bool)
    (X : Instr) (dv : BitVec 64) (hns : md_NS pre base size top hi σ1 S) (hD1 : D ≠ 1)
    (hX : md_Step c X σ1 (σ1.set 1 dv)) (hnz : md_nz w dv) :
    ∃ σ2, md_Steps c [X, movRR D 0, .aluRR false .xor 2 2, .div w 1] σ1 σ2 ∧ md_NS pre base size top hi σ2 S ∧
      σ2.get 0 = md_divQ w (σ1.get D) dv ∧ σ2.get 2 = md_divR w (σ1.get D) dv ∧
      ∀ r, r ≠ 0 → r ≠ 1 → r ≠ 2 → σ2.get r = σ1.get r := by
  have hm := md_step_movRR c (σ1.set 1 dv) D 0
  have eD : (σ1.set 1 dv).get D = σ1.get D := get_set_ne _ _ _ _ (Ne.symm hD1)
  rw [eD] at hm
  obtain ⟨fl, hx⟩ := md_step_xor32 c ((σ1.set 1 dv).set 0 (σ1.get D)) 2
  have e2 : ({ ((σ1.set 1 dv).set 0 (σ1.get D)) with flags := fl }.set 2 0).get 2 = 0 := by simp [get_set]
  have e1 : ({ ((σ1.set 1 dv).set 0 (σ1.get D)) with flags := fl }.set 2 0).get 1 = dv := by simp [get_set, md_get_mk]
  have e0 : ({ ((σ1.set 1 dv).set 0 (σ1.get D)) with flags := fl }.set 2 0).get 0 = σ1.get D := by simp [get_set, md_get_mk]
  have hdiv := md_step_div c _ w e2 (by rw [e1]; exact hnz)
  rw [e0, e1] at hdiv
  refine ⟨_, md_Steps.cons hX (md_Steps.cons hm (md_Steps.cons hx (md_steps_one hdiv))), ?_, ?_, ?_, ?_⟩
  · exact md_ns_congr hns (by simp) (by simp [get_set, md_get_mk])
  · simp [get_set]
  · simp [get_set]
  · intro r h0 h1 h2
    simp [get_set, md_get_mk, Ne.symm h0, Ne.symm h1, Ne.symm h2]

theorem md_restore (c : Cfg) {pre : List Region} {base size top : Nat} {hi : Nat → BitVec 8} {σ2 : St} {ret : Nat} (D : Nat) (m : Bool)
    (rax0 rdx0 : BitVec 64) (hns : md_NS pre base size top hi σ2 ([ret] ++ md_sv D rax0 rdx0)) (hD : D < 16) (hD4 : D ≠ 4) :
    ∃ σ3, md_Steps c (md_restoreL D m) σ2 σ3 ∧ md_NS pre base size top hi σ3 [ret] ∧
      σ3.get D = (if m then σ2.get 2 else σ2.get 0) ∧ (D ≠ 0 → σ3.get 0 = rax0) ∧ (D ≠ 2 → σ3.get 2 = rdx0) ∧
      ∀ r, r ≠ 0 → r ≠ 2 → r ≠ 4 → r ≠ D → σ3.get r = σ2.get r := by
  by_cases h0 : D = 0
  · subst h0
    have hsv : [ret] ++ md_sv 0 rax0 rdx0 = [ret] ++ [rdx0.toNat] := by simp [md_sv]
    rw [hsv] at hns
    cases m
    · have hl : md_restoreL 0 false = [.pop 2] := by simp [md_restoreL]
      rw [hl]
      obtain ⟨hp, hn⟩ := md_step_pop c 2 hns (by omega)
      refine ⟨_, md_steps_one hp, hn, by simp [get_set], by simp, by simp [get_set], ?_⟩
      intro r _ h2 h4 _
      simp [get_set, Ne.symm h2, Ne.symm h4]
    · have hl : md_restoreL 0 true = [movRR 2 0, .pop 2] := by simp [md_restoreL]
      rw [hl]
      have hm := md_step_movRR c σ2 2 0
      obtain ⟨hp, hn⟩ := md_step_pop c 2 (md_ns_congr (σ' := σ2.set 0 (σ2.get 2)) hns (by simp) (by simp [get_set])) (by omega)
      refine ⟨_, md_Steps.cons hm (md_steps_one hp), hn, by simp [get_set], by simp, by simp [get_set], ?_⟩
      intro r h0 h2 h4 _
      simp [get_set, Ne.symm h0, Ne.symm h2, Ne.symm h4]
  · by_cases h2 : D = 2
    · subst h2
      have hsv : [ret] ++ md_sv 2 rax0 rdx0 = [ret] ++ [rax0.toNat] := by simp [md_sv]
      rw [hsv] at hns
      cases m
      · have hl : md_restoreL 2 false = [movRR 0 2, .pop 0] := by simp [md_restoreL]
        rw [hl]
        have hm := md_step_movRR c σ2 0 2
        obtain ⟨hp, hn⟩ := md_step_pop c 0 (md_ns_congr (σ' := σ2.set 2 (σ2.get 0)) hns (by simp) (by simp [get_set])) (by omega)
        refine ⟨_, md_Steps.cons hm (md_steps_one hp), hn, by simp [get_set], by simp [get_set], by simp, ?_⟩
        intro r h0 h2 h4 _
        simp [get_set, Ne.symm h0, Ne.symm h2, Ne.symm h4]
      · have hl : md_restoreL 2 true = [.pop 0] := by simp [md_restoreL]
        rw [hl]
        obtain ⟨hp, hn⟩ := md_step_pop c 0 hns (by omega)
        refine ⟨_, md_steps_one hp, hn, by simp [get_set], by simp [get_set], by simp, ?_⟩
        intro r h0 _ h4 _
        simp [get_set, Ne.symm h0, Ne.symm h4]
    · have hsv : [ret] ++ md_sv D rax0 rdx0 = ([ret] ++ [rax0.toNat]) ++ [rdx0.toNat] := by simp [md_sv, h0, h2]
      rw [hsv] at hns
      cases m
      · have hl : md_restoreL D false = [.pop 2, movRR 0 D, .pop 0] := by simp [md_restoreL, h0, h2]
        rw [hl]
        obtain ⟨hp, hn⟩ := md_step_pop c 2 hns (by omega)
        have hm := md_step_movRR c ((σ2.set 4 (σ2.get 4 + 8)).set 2 rdx0) 0 D
        obtain ⟨hp2, hn2⟩ := md_step_pop c 0 (md_ns_congr (σ' := ((σ2.set 4 (σ2.get 4 + 8)).set 2 rdx0).set D
          (((σ2.set 4 (σ2.get 4 + 8)).set 2 rdx0).get 0)) hn (by simp) (by simp [get_set, hD4])) (by omega)
        refine ⟨_, md_Steps.cons hp (md_Steps.cons hm (md_steps_one hp2)), hn2, ?_, ?_, ?_, ?_⟩
        · simp [get_set, h0, h2, hD4, hD, Ne.symm h0, Ne.symm h2, Ne.symm hD4]
        · intro _; simp [get_set]
        · intro _; simp [get_set, h2, Ne.symm h2]
        · intro r r0 r2 r4 rD
          simp [get_set, Ne.symm r0, Ne.symm r2, Ne.symm r4, Ne.symm rD]
      · have hl : md_restoreL D true = [movRR 2 D, .pop 2, .pop 0] := by simp [md_restoreL, h0, h2]
        rw [hl]
        have hm := md_step_movRR c σ2 2 D
        obtain ⟨hp, hn⟩ := md_step_pop c 2 (md_ns_congr (σ' := σ2.set D (σ2.get 2)) hns (by simp) (by simp [get_set, hD4])) (by omega)
        obtain ⟨hp2, hn2⟩ := md_step_pop c 0 hn (by omega)
        refine ⟨_, md_Steps.cons hm (md_Steps.cons hp (md_steps_one hp2)), hn2, ?_, ?_, ?_, ?_⟩
        · simp [get_set, h0, h2, hD4, hD, Ne.symm h0, Ne.symm h2, Ne.symm hD4]
        · intro _; simp [get_set]
        · intro _; simp [get_set, h2, Ne.symm h2]
        · intro r r0 r2 r4 rD
          simp [get_set, Ne.symm r0, Ne.symm r2, Ne.symm r4, Ne.symm rD]

/-- the whole block: dst receives the result, rcx is clobbered, everything else (rsp and the native stack included) is
    as before -/
theorem md_block_steps (c : Cfg) {pre : List Region} {base size top : Nat} {hi : Nat → BitVec 8} {σ : St} {ret : Nat} (D : Nat) (k : md_Kind) (w : Bool)
    (X : Instr) (dv : BitVec 64) (hns : md_NS pre base size top hi σ [ret]) (hsz : base + 72 ≤ top) (hD : D < 16) (hD1 : D ≠ 1) (hD4 : D ≠ 4)
    (hX : ∀ σ1, (∀ r, r ≠ 4 → σ1.get r = σ.get r) → md_Step c X σ1 (σ1.set 1 dv)) (hnz : k ≠ .mul → md_nz w dv) :
    ∃ σ', md_Steps c (md_block D k w X) σ σ' ∧ md_NS pre base size top hi σ' [ret] ∧ σ'.get D = md_res k w (σ.get D) dv ∧
      ∀ r, r ≠ D → r ≠ 1 → r ≠ 4 → σ'.get r = σ.get r := by
  obtain ⟨σ1, hs1, hn1, hg1⟩ := md_save c D hns hsz
  have hX1 := hX σ1 hg1
  have hcomp : ∃ σ2, md_Steps c (md_computeL D k w X) σ1 σ2 ∧ md_NS pre base size top hi σ2 ([ret] ++ md_sv D (σ.get 0) (σ.get 2)) ∧
      (if k = .mod then σ2.get 2 else σ2.get 0) = md_res k w (σ1.get D) dv ∧ ∀ r, r ≠ 0 → r ≠ 1 → r ≠ 2 → σ2.get r = σ1.get r := by
    cases k with
    | mul =>
      obtain ⟨σ2, hs2, hn2, hr, hg2⟩ := md_compute_mul c D w X dv hn1 hD1 hX1
      exact ⟨σ2, by simpa [md_computeL] using hs2, hn2, by simpa [md_res] using hr, hg2⟩
    | div =>
      obtain ⟨σ2, hs2, hn2, hq, _, hg2⟩ := md_compute_div c D w X dv hn1 hD1 hX1 (hnz (by simp))
      exact ⟨σ2, by simpa [md_computeL] using hs2, hn2, by simpa [md_res] using hq, hg2⟩
    | mod =>
      obtain ⟨σ2, hs2, hn2, _, hr, hg2⟩ := md_compute_div c D w X dv hn1 hD1 hX1 (hnz (by simp))
      exact ⟨σ2, by simpa [md_computeL] using hs2, hn2, by simpa [md_res] using hr, hg2⟩
  obtain ⟨σ2, hs2, hn2, hres, hg2⟩ := hcomp
  obtain ⟨σ3, hs3, hn3, hD3, h03, h23, hg3⟩ := md_restore c D (decide (k = .mod)) (σ.get 0) (σ.get 2) hn2 hD hD4
  refine ⟨σ3, md_steps_append (md_steps_append hs1 hs2) hs3, hn3, ?_, ?_⟩
  · rw [hD3, ← hg1 D hD4, ← hres]
    by_cases hk : k = .mod <;> simp [hk]
  · intro r rD r1 r4
    by_cases r0 : r = 0
    · subst r0; exact h03 (Ne.symm rD)
    · by_cases r2 : r = 2
      · subst r2; exact h23 (Ne.symm rD)
      · rw [hg3 r r0 r2 r4 rD, hg2 r r0 r1 r2, hg1 r r4]

end Rbpf.JitSim
