/-
  Whole-program simulation at any call depth: steps and runs over `jitStepC`/`jitRunC` with helper calls and
  eBPF-to-eBPF calls, with the per-instruction facts (`ArmSimC` for every covered opcode and for helper calls) as a
  hypothesis `hA`, and the depth bound as an abstract predicate `P` (instantiated by `depthOk` in `WholeD.lean`).
-/
import RbpfModel.Lemmas.X86Sim.WholeCAux
import RbpfModel.Lemmas.X86Sim.LocalCall
import RbpfModel.Lemmas.X86Sim.CallLift
namespace Rbpf.JitSim
open Rbpf.X86 (Cfg St Out Instr step exec decode fetch readMem writeMem)
open Rbpf.JitAst (AI Tgt checkSeq window)

def wholed_Covered (p : Bytes) : Prop :=
  ∀ x ∈ whole_starts p, x.2.opc.toNat ∈ whole_coveredOpcodes ∨ x.2.opc.toNat = 0x95 ∨
    (x.2.opc = 0x85 ∧ (x.2.src = 0 ∨ x.2.src = 1))

/-- `RelD` of `WholeD.lean` over `whole_starts` -/
def wholed_Rel (c : Cfg) (p : Bytes) (L : JitAst.Layout) (landing : Nat) (top : List (BitVec 8)) (D : Nat) (σ : St) (s : State) : Prop :=
  ∃ cur, Rel0 cur σ s ∧ topBytes σ s = some top ∧ (∃ i, (s.pc, i) ∈ whole_starts p) ∧
    (∃ l, L.pcLocs[s.pc]? = some l ∧ σ.rip = c.codeBase + l) ∧
    FramesOk c p L landing (σ.get 10) σ.mem (σ.get X86.RSP).toNat s.frames cur ∧
    LogRel σ s ∧ s.mem.stack.base % 16 = 0 ∧ s.frames.length ≤ D ∧
    (∃ lower, σ.mem.getLast? = some lower ∧ lower.base + 64 + 48 * (D - s.frames.length) ≤ (σ.get X86.RSP).toNat)

-- machine steps never move a region ------------------------------------------------------------------------------------

/-- the packet region is the third region of the machine's memory -/
theorem wholed_shape_third (cur : Nat) (σ : St) (s : State) (h : Rel0 cur σ s) :
    (σ.mem.map entry_shape)[2]? = some (s.mem.mem.base, s.mem.mem.bytes.size) := by
  obtain ⟨frame, lower, hxm, -⟩ := h.mem
  rw [hxm]
  simp [entry_shape]

/-- the packet pointer register is the same in two related states connected by machine steps -/
theorem wholed_pkt_eq (c : Cfg) (k cur cur' : Nat) (σ σ' : St) (s s' : State) (hst : stepsN c k σ = some σ')
    (h : Rel0 cur σ s) (h' : Rel0 cur' σ' s') : σ'.get 10 = σ.get 10 := by
  have h1 := wholed_shape_third cur σ s h
  have h2 := wholed_shape_third cur' σ' s' h'
  rw [entry_stepsN_shape c k σ σ' hst, h1] at h2
  simp only [Option.some.injEq, Prod.mk.injEq] at h2
  rw [h.pkt, h'.pkt, h2.1]

/-- the native stack region keeps its base -/
theorem wholed_last_base (c : Cfg) (k : Nat) (σ σ' : St) (lower : Region) (hst : stepsN c k σ = some σ')
    (hl : σ.mem.getLast? = some lower) : ∃ lower', σ'.mem.getLast? = some lower' ∧ lower'.base = lower.base := by
  have h := congrArg List.getLast? (entry_stepsN_shape c k σ σ' hst)
  rw [List.getLast?_map, List.getLast?_map, hl] at h
  cases h' : σ'.mem.getLast? with
  | none => rw [h'] at h; simp at h
  | some l' =>
    rw [h'] at h
    simp only [Option.map_some, Option.some.injEq, entry_shape, Prod.mk.injEq] at h
    exact ⟨l', rfl, h.1⟩

/-- the landing pad is not the sentinel -/
theorem wholed_landing (c : Cfg) (landing : Nat) (hsize : c.codeBase + c.code.size < 2 ^ 63)
    (hsent : c.retSentinel.toNat < c.codeBase ∨ c.codeBase + c.code.size ≤ c.retSentinel.toNat)
    (hland : c.codeBase ≤ landing ∧ landing < c.codeBase + c.code.size) :
    BitVec.ofNat 64 landing ≠ c.retSentinel ∧ landing < 2 ^ 64 := by
  refine ⟨?_, by omega⟩
  intro h
  have := congrArg BitVec.toNat h
  rw [BitVec.toNat_ofNat, Nat.mod_eq_of_lt (by omega)] at this
  omega

/-- on everything but helper calls, `jitExecC` is `jitExec` -/
theorem wholed_jitExecC_eq (clob : Nat → Nat → BitVec 64) (env : Env) (s : State) (i : Insn) (h : ¬ (i.opc = 0x85 ∧ i.src = 0)) :
    jitExecC clob env s i = EngineSem.jitExec env s i := by
  unfold jitExecC
  rw [if_neg h]

-- the top-level `exit` ---------------------------------------------------------------------------------------------------

theorem wholed_exit_sim (env : Env) (haddr : Nat → Option Nat) (um ud : Bool) (c : Cfg) (L : JitAst.Layout) (landing : Nat)
    (top : List (BitVec 8)) (D : Nat) (σ : St) (s s' : State) (r0 : BitVec 64)
    (hv : JitAst.validate env.prog haddr um ud c.code L = true)
    (hsize : c.codeBase + c.code.size < 2 ^ 63)
    (hsent : c.retSentinel.toNat < c.codeBase ∨ c.codeBase + c.code.size ≤ c.retSentinel.toNat)
    (hland : c.codeBase ≤ landing ∧ landing < c.codeBase + c.code.size)
    (hrel : wholed_Rel c env.prog L landing top D σ s) (hstep : jitStepC c.clobber env s = .done r0 s') :
    ∃ σ', stepsN c 1 σ = some σ' ∧ σ'.rip = landing ∧ σ'.get 0 = r0 ∧ MemRel σ'.mem s'.mem ∧
      (σ'.get X86.RSP).toNat = s'.mem.stack.base ∧ topBytes σ' s' = some top ∧
      LogRel σ' s' ∧ σ'.misaligned = σ.misaligned := by
  obtain ⟨cur, hrel0, htop, ⟨i, hstart⟩, hloc, hfo, hlog, halign, -, -⟩ := hrel
  obtain ⟨hret, hretlt⟩ := wholed_landing c landing hsize hsent hland
  have hd0 : s.frames = [] := by
    have hstep' := hstep
    rw [wholec_jitStepC_at c.clobber env s i hstart] at hstep'
    have h95 := wholec_jitExecC_done c.clobber env _ i r0 s' hstep'
    rw [wholec_jitExecC_exit c.clobber env _ i h95] at hstep'
    cases hfr : s.frames with
    | nil => rfl
    | cons f rest =>
      rw [lc_jitExec_exit env { s with pc := s.pc + 1 } i f rest h95 hfr] at hstep'
      cases hstep'
  rw [hd0] at hfo
  simp only [FramesOk] at hfo
  subst hfo
  exact wholec_exit_sim env haddr um ud c L cur top σ s s' r0 hv hret hretlt
    ⟨⟨hrel0, htop, ⟨i, hstart⟩, hloc, hd0⟩, hlog, halign⟩ hstep

section
variable (hA : ∀ (clob : Nat → Nat → BitVec 64) (i : Insn),
  (i.opc.toNat ∈ whole_coveredOpcodes ∨ (i.opc = 0x85 ∧ i.src = 0)) → ArmSimC clob i)
include hA

/-- covered opcodes and helper calls, at any depth -/
theorem wholed_step_arm (env : Env) (haddr : Nat → Option Nat) (um ud : Bool) (c : Cfg) (L : JitAst.Layout) (landing : Nat)
    (top : List (BitVec 8)) (D : Nat) (σ : St) (s s' : State) (i : Insn)
    (hv : JitAst.validate env.prog haddr um ud c.code L = true) (hext : ExtOk c env haddr)
    (hsize : c.codeBase + c.code.size < 2 ^ 63)
    (hrel : wholed_Rel c env.prog L landing top D σ s) (hstart : (s.pc, i) ∈ whole_starts env.prog)
    (hopc : i.opc.toNat ∈ whole_coveredOpcodes ∨ (i.opc = 0x85 ∧ i.src = 0))
    (hstep : jitExecC c.clobber env { s with pc := s.pc + 1 } i = .next s') :
    ∃ k σ', stepsN c k σ = some σ' ∧ σ'.misaligned = σ.misaligned ∧
      ((getInsn? env.prog s'.pc).isSome → wholed_Rel c env.prog L landing top D σ' s') := by
  obtain ⟨cur, hrel0, htop, -, ⟨a, hloc, hrip⟩, hfo, hlog, halign, hlen, ⟨lower, hlast, hroom⟩⟩ := hrel
  obtain ⟨ais, n, a', b, harm, hloc', hchk, hlocb⟩ := whole_validate_arm env.prog haddr um ud c.code L hv s.pc i hstart
  rw [hloc] at hloc'
  cases hloc'
  have hb : b ≤ c.code.size := whole_locOf_le env.prog haddr um ud c.code L hv _ b hlocb
  obtain ⟨k, σ', hk, hrel0', hlog', htop', hmis, hbase, hfr, hkept, hdisj⟩ :=
    hA c.clobber i hopc c (whole_tgt env.prog L) haddr s.pc n a b cur ais σ env { s with pc := s.pc + 1 } s' rfl hext
      harm hchk (by omega) hrip (rel0_pc cur σ s _ hrel0) hlog halign rfl hstep
  refine ⟨k, σ', hk, hmis, fun hsome => ?_⟩
  have htop'' : topBytes σ' s' = some top := htop'.trans htop
  have halign' : s'.mem.stack.base % 16 = 0 := by rw [hbase]; exact halign
  have hfr' : s'.frames = s.frames := hfr
  have hbase' : s'.mem.stack.base = s.mem.stack.base := hbase
  have hrsp : (σ'.get X86.RSP).toNat = (σ.get X86.RSP).toNat := by
    have h1 := hrel0.rsp
    have h2 := hrel0'.rsp
    rw [hfr', hbase'] at h2
    omega
  have hpkt : σ'.get 10 = σ.get 10 := wholed_pkt_eq c k cur cur σ σ' s s' hk hrel0 hrel0'
  have hfo' : FramesOk c env.prog L landing (σ'.get 10) σ'.mem (σ'.get X86.RSP).toNat s'.frames cur := by
    rw [hpkt, hrsp, hfr']
    exact framesOk_kept c env.prog L landing (σ.get 10) σ σ' { s with pc := s.pc + 1 } cur hkept hrel0.rsp hfo
  obtain ⟨lower', hlast', hlb⟩ := wholed_last_base c k σ σ' lower hk hlast
  have hroom' : ∃ lower, σ'.mem.getLast? = some lower ∧
      lower.base + 64 + 48 * (D - s'.frames.length) ≤ (σ'.get X86.RSP).toNat :=
    ⟨lower', hlast', by rw [hlb, hrsp, hfr']; exact hroom⟩
  have hlen' : s'.frames.length ≤ D := by rw [hfr']; exact hlen
  rcases hdisj with ⟨hpc, hrip'⟩ | ⟨l, htgt, hrip'⟩
  · obtain ⟨j, hj⟩ := Option.isSome_iff_exists.mp hsome
    have hn := whole_arm_n haddr s.pc i _ ais n harm
    have hj' : getInsn? env.prog (s.pc + (if i.opc = 0x18 then 2 else 1)) = some j := by rw [← hn, ← hpc]; exact hj
    have hnext := whole_starts_next env.prog s.pc i j hstart hj'
    rw [← hn, ← hpc] at hnext
    have hlt := (whole_starts_mem _ _ _ hnext).2
    refine ⟨cur, hrel0', htop'', ⟨j, hnext⟩, ⟨b, ?_, hrip'⟩, hfo', hlog', halign', hlen', hroom'⟩
    unfold whole_locOf at hlocb
    rw [← hpc, if_pos hlt] at hlocb
    exact hlocb
  · obtain ⟨hst, hl⟩ := whole_tgt_pc env.prog L s'.pc l htgt
    exact ⟨cur, hrel0', htop'', hst, ⟨l, hl, hrip'⟩, hfo', hlog', halign', hlen', hroom'⟩

omit hA in
/-- eBPF-to-eBPF call -/
theorem wholed_step_call (env : Env) (haddr : Nat → Option Nat) (um ud : Bool) (c : Cfg) (L : JitAst.Layout) (landing : Nat)
    (top : List (BitVec 8)) (D : Nat) (σ : St) (s s' : State) (i : Insn)
    (hv : JitAst.validate env.prog haddr um ud c.code L = true)
    (hsize : c.codeBase + c.code.size < 2 ^ 63)
    (hrel : wholed_Rel c env.prog L landing top D σ s) (hstart : (s.pc, i) ∈ whole_starts env.prog)
    (hopc : i.opc = 0x85 ∧ i.src = 1) (hD' : s'.frames.length ≤ D)
    (hstep : EngineSem.jitExec env { s with pc := s.pc + 1 } i = .next s') :
    ∃ k σ', stepsN c k σ = some σ' ∧ σ'.misaligned = σ.misaligned ∧ wholed_Rel c env.prog L landing top D σ' s' := by
  obtain ⟨cur, hrel0, htop, -, hloc, hfo, hlog, halign, hlen, ⟨lower, hlast, hroom⟩⟩ := hrel
  have hs' : s'.frames.length = s.frames.length + 1 ∧ s'.mem = s.mem := by
    have hx := hstep
    rw [lc_jitExec_call env { s with pc := s.pc + 1 } i hopc] at hx
    obtain ⟨-, e⟩ := lc_jitCallLocal_next { s with pc := s.pc + 1 } s' i.imm hx
    rw [e]
    exact ⟨rfl, rfl⟩
  obtain ⟨hfl, hmem⟩ := hs'
  obtain ⟨k, σ', cur', hk, hrel0', hfo', htop', hl1, hmis, hl2, -, hloc', hst'⟩ :=
    callLocal_sim c env haddr um ud L landing cur s.pc i σ { s with pc := s.pc + 1 } s' hv hsize hstart hopc hloc
      (rel0_pc cur σ s _ hrel0) rfl hfo ⟨lower, hlast, by omega⟩ hstep
  obtain ⟨lower', hlast', hlb⟩ := wholed_last_base c k σ σ' lower hk hlast
  refine ⟨k, σ', hk, hmis, cur', hrel0', htop'.trans htop, hst', hloc', hfo', call_logRel_congr σ σ' s s' hlog hl1 hl2, ?_, hD',
    lower', hlast', ?_⟩
  · rw [hmem]; exact halign
  · have h1 := hrel0.rsp
    have h2 := hrel0'.rsp
    rw [hmem, hfl] at h2
    rw [hlb, hfl]
    omega

omit hA in
/-- `exit` inside a local function -/
theorem wholed_step_exit (env : Env) (haddr : Nat → Option Nat) (um ud : Bool) (c : Cfg) (L : JitAst.Layout) (landing : Nat)
    (top : List (BitVec 8)) (D : Nat) (σ : St) (s s' : State) (i : Insn) (f : Frame) (rest : List Frame)
    (hv : JitAst.validate env.prog haddr um ud c.code L = true)
    (hsize : c.codeBase + c.code.size < 2 ^ 63)
    (hsent : c.retSentinel.toNat < c.codeBase ∨ c.codeBase + c.code.size ≤ c.retSentinel.toNat)
    (hrel : wholed_Rel c env.prog L landing top D σ s) (hstart : (s.pc, i) ∈ whole_starts env.prog)
    (h95 : i.opc.toNat = 0x95) (hfr : s.frames = f :: rest)
    (hstep : EngineSem.jitExec env { s with pc := s.pc + 1 } i = .next s') :
    ∃ k σ', stepsN c k σ = some σ' ∧ σ'.misaligned = σ.misaligned ∧
      ((getInsn? env.prog s'.pc).isSome → wholed_Rel c env.prog L landing top D σ' s') := by
  obtain ⟨cur, hrel0, htop, -, hloc, hfo, hlog, halign, hlen, ⟨lower, hlast, hroom⟩⟩ := hrel
  have hs' : s'.pc = f.ret ∧ s'.frames = rest := by
    have hx := hstep
    rw [lc_jitExec_exit env { s with pc := s.pc + 1 } i f rest h95 hfr] at hx
    simp only [Outcome.next.injEq] at hx
    rw [← hx]
    exact ⟨rfl, rfl⟩
  obtain ⟨hpc', hfr'⟩ := hs'
  have hret : ∀ j, getInsn? env.prog f.ret = some j → (f.ret, j) ∈ whole_starts env.prog := by
    have h := hfo
    rw [hfr] at h
    simp only [FramesOk] at h
    obtain ⟨⟨q, e, -, -, -, hr⟩, -⟩ := h
    exact hr
  obtain ⟨k, σ', cur', hk, hrel0', hfo', htop', hl1, hmis, hl2, hmem, ⟨l, hlocl, hrip'⟩⟩ :=
    exitDepth_sim c env haddr um ud L landing cur s.pc i σ { s with pc := s.pc + 1 } s' f rest hv hsize hsent hstart h95 hloc
      (rel0_pc cur σ s _ hrel0) hfr hfo hstep
  have hmem' : s'.mem = s.mem := hmem
  obtain ⟨lower', hlast', hlb⟩ := wholed_last_base c k σ σ' lower hk hlast
  refine ⟨k, σ', hk, hmis, fun hsome => ?_⟩
  obtain ⟨j, hj⟩ := Option.isSome_iff_exists.mp hsome
  rw [hpc'] at hj
  have hst' := hret j hj
  have hlt := (whole_starts_mem _ _ _ hst').2
  rw [hfr] at hlen
  simp only [List.length_cons] at hlen
  refine ⟨cur', hrel0', htop'.trans htop, ⟨j, by rw [hpc']; exact hst'⟩, ⟨l, ?_, hrip'⟩, hfo',
    call_logRel_congr σ σ' s s' hlog hl1 hl2, ?_, ?_, lower', hlast', ?_⟩
  · unfold whole_locOf at hlocl
    rw [hpc', if_pos hlt] at hlocl
    rw [hpc']
    exact hlocl
  · rw [hmem']; exact halign
  · rw [hfr']; omega
  · have h1 := hrel0.rsp
    have h2 := hrel0'.rsp
    rw [hmem', hfr'] at h2
    rw [hfr] at h1 hroom
    simp only [List.length_cons] at h1 hroom
    rw [hlb, hfr']
    omega

/-- one continuing step at any depth -/
theorem wholed_step_sim (env : Env) (haddr : Nat → Option Nat) (um ud : Bool) (c : Cfg) (L : JitAst.Layout) (landing : Nat)
    (top : List (BitVec 8)) (D : Nat) (σ : St) (s s' : State)
    (hv : JitAst.validate env.prog haddr um ud c.code L = true) (hcov : wholed_Covered env.prog) (hext : ExtOk c env haddr)
    (hsize : c.codeBase + c.code.size < 2 ^ 63)
    (hsent : c.retSentinel.toNat < c.codeBase ∨ c.codeBase + c.code.size ≤ c.retSentinel.toNat)
    (hrel : wholed_Rel c env.prog L landing top D σ s) (hD' : s'.frames.length ≤ D)
    (hstep : jitStepC c.clobber env s = .next s') :
    ∃ k σ', stepsN c k σ = some σ' ∧ σ'.misaligned = σ.misaligned ∧
      ((getInsn? env.prog s'.pc).isSome → wholed_Rel c env.prog L landing top D σ' s') := by
  obtain ⟨i, hstart⟩ : ∃ i, (s.pc, i) ∈ whole_starts env.prog := by
    obtain ⟨cur, -, -, h, -⟩ := hrel
    exact h
  rw [wholec_jitStepC_at c.clobber env s i hstart] at hstep
  rcases hcov _ hstart with h | h | ⟨h85, h0 | h1⟩
  · exact wholed_step_arm hA env haddr um ud c L landing top D σ s s' i hv hext hsize hrel hstart (Or.inl h) hstep
  · rw [wholec_jitExecC_exit c.clobber env _ i h] at hstep
    cases hfr : s.frames with
    | nil =>
      rw [whole_jitExec_exit env { s with pc := s.pc + 1 } i h hfr] at hstep
      cases hstep
    | cons f rest =>
      exact wholed_step_exit env haddr um ud c L landing top D σ s s' i f rest hv hsize hsent hrel hstart h hfr hstep
  · exact wholed_step_arm hA env haddr um ud c L landing top D σ s s' i hv hext hsize hrel hstart (Or.inr ⟨h85, h0⟩) hstep
  · have hn : ¬ (i.opc = 0x85 ∧ i.src = 0) := by
      intro hh
      rw [h1] at hh
      exact absurd hh.2 (by decide)
    rw [wholed_jitExecC_eq c.clobber env _ i hn] at hstep
    obtain ⟨k, σ', hk, hmis, hr⟩ :=
      wholed_step_call env haddr um ud c L landing top D σ s s' i hv hsize hrel hstart ⟨h85, h1⟩ hD' hstep
    exact ⟨k, σ', hk, hmis, fun _ => hr⟩

/-- runs at any depth; `P s fuel`: the depth stays within `D` for `fuel` steps from `s` -/
theorem wholed_run_sim (P : State → Nat → Prop) (env : Env) (haddr : Nat → Option Nat) (um ud : Bool) (c : Cfg)
    (L : JitAst.Layout) (landing : Nat) (top : List (BitVec 8)) (D fuel : Nat) (σ : St) (s s' : State) (r0 : BitVec 64)
    (hP : ∀ s fuel, P s (fuel + 1) → s.frames.length ≤ D ∧ ∀ s1, jitStepC c.clobber env s = .next s1 → P s1 fuel)
    (hv : JitAst.validate env.prog haddr um ud c.code L = true) (hcov : wholed_Covered env.prog) (hext : ExtOk c env haddr)
    (hsize : c.codeBase + c.code.size < 2 ^ 63)
    (hsent : c.retSentinel.toNat < c.codeBase ∨ c.codeBase + c.code.size ≤ c.retSentinel.toNat)
    (hland : c.codeBase ≤ landing ∧ landing < c.codeBase + c.code.size)
    (hrel : wholed_Rel c env.prog L landing top D σ s)
    (hdepth : P s fuel)
    (hrun : jitRunC c.clobber env s fuel = .done r0 s') :
    ∃ k σ', stepsN c k σ = some σ' ∧ σ'.rip = landing ∧ σ'.get 0 = r0 ∧ MemRel σ'.mem s'.mem ∧
      (σ'.get X86.RSP).toNat = s'.mem.stack.base ∧ topBytes σ' s' = some top ∧
      LogRel σ' s' ∧ σ'.misaligned = σ.misaligned := by
  induction fuel generalizing σ s with
  | zero => simp [jitRunC] at hrun
  | succ fuel ih =>
    rcases wholec_jitRunC_done c.clobber env s s' fuel r0 hrun with h1 | ⟨s1, h1, h2⟩
    · obtain ⟨σ', hk, rest⟩ := wholed_exit_sim env haddr um ud c L landing top D σ s s' r0 hv hsize hsent hland hrel h1
      exact ⟨1, σ', hk, rest⟩
    · have hP1 : P s1 fuel := (hP s fuel hdepth).2 s1 h1
      have hD1 : s1.frames.length ≤ D := by
        cases fuel with
        | zero => simp [jitRunC] at h2
        | succ fuel => exact (hP s1 fuel hP1).1
      obtain ⟨k1, σ1, hk1, hmis1, hrel1⟩ :=
        wholed_step_sim hA env haddr um ud c L landing top D σ s s1 hv hcov hext hsize hsent hrel hD1 h1
      have hrel1' := hrel1 (wholec_jitRunC_start c.clobber env s1 s' fuel r0 h2)
      obtain ⟨k2, σ2, hk2, g2, g3, g4, g5, g6, g7, g8⟩ := ih σ1 s1 hrel1' hP1 h2
      exact ⟨k1 + k2, σ2, stepsN_add c k1 k2 σ σ1 σ2 hk1 hk2, g2, g3, g4, g5, g6, g7, g8.trans hmis1⟩

end

end Rbpf.JitSim
