/-
  Prologue / epilogue simulation, part 2: the definitions of the call-to-return statements (`Entry`, `entryState`,
  `savedBytes`, `LandingPad`), the length of a decoded `jmp`, `stepsN` against `run`, the shape of the memory under
  machine steps, and the instructions of the prologue and the epilogue one by one.  Independent of the per-class lemmas.
-/
import RbpfModel.Lemmas.X86Sim.EntryMem
namespace Rbpf.JitSim
open Rbpf.X86 (Cfg St Out Instr step exec decode fetch readMem writeMem)
open Rbpf.JitAst (AI Tgt checkSeq window)

-- definitions ----------------------------------------------------------------------------------------------------

/-- the machine when `jit.get_prog()(mbuff_ptr, mbuff_len, mem_ptr, mem_len, 0, 0)` is entered: rip at the first
    byte, the arguments in rdi/rsi/rdx (packet pointer = `m.mem.base`, null for an empty packet by `Vm.pktRegion`),
    rsp pointing at the caller's return address, which sits 552 bytes above the bottom of what will be the eBPF stack -/
structure Entry (c : Cfg) (m : Memory) (σ : St) : Prop where
  rip : σ.rip = c.codeBase
  rdi : σ.get 7 = BitVec.ofNat 64 m.mbuff.base
  rsi : σ.get 6 = BitVec.ofNat 64 m.mbuff.bytes.size
  rdx : σ.get 2 = BitVec.ofNat 64 m.mem.base
  rsp : (σ.get 4).toNat = m.stack.base + 552
  mem : MemRel σ.mem m
  sentinel : readMem σ.mem (m.stack.base + 552) 8 = some (leBytes c.retSentinel.toNat 8)
  room : ∃ lower, σ.mem.getLast? = some lower ∧ lower.base + 72 ≤ m.stack.base

/-- the eBPF state the compiled code starts from: r1 as the prologue computes it, r10 = top of the stack, every other
    register whatever the machine register it is mapped to holds at entry (compiled code does not zero them) -/
def entryState (m : Memory) (σ : St) (useMbuff : Bool) : State :=
  let r1 : BitVec 64 := if useMbuff then (if σ.get 6 = 0 then σ.get 2 else σ.get 7) else σ.get 2
  { Interp.init m with
    reg := ((Vector.ofFn fun (k : Fin 11) => σ.get (regOf k.val)).setIfInBounds 1 r1).setIfInBounds 10
             (BitVec.ofNat 64 (m.stack.base + 512)) }

/-- what the prologue's five pushes leave above the eBPF stack, followed by the caller's return address (48 bytes) -/
def savedBytes (c : Cfg) (σ : St) : List (BitVec 8) :=
  leBytes (σ.get 15).toNat 8 ++ leBytes (σ.get 14).toNat 8 ++ leBytes (σ.get 13).toNat 8 ++
  leBytes (σ.get 3).toNat 8 ++ leBytes (σ.get 5).toNat 8 ++ leBytes c.retSentinel.toNat 8

/-- `retAddr` is the address of the landing pad: a `jmp` to the epilogue inside the code buffer -/
def LandingPad (c : Cfg) (L : JitAst.Layout) (retAddr : Nat) : Prop :=
  c.codeBase ≤ retAddr ∧ retAddr < c.codeBase + c.code.size ∧
  ∃ rel n, decode (window c.code (retAddr - c.codeBase)) = some (.jmp rel, n) ∧
    ((retAddr - c.codeBase + n : Nat) : Int) + rel.toInt = (L.exitLoc : Int)

-- the decoder: a `jmp` is five bytes --------------------------------------------------------------------------------


theorem entry_ite_none {α : Type} {c : Prop} [Decidable c] {x : Option α} {b : α}
    (h : (if c then x else none) = some b) : c ∧ x = some b := by
  split at h
  · next hc => exact ⟨hc, h⟩
  · simp at h

macro "entry_kill " h:ident : tactic =>
  `(tactic| ((repeat' split at $h:ident) <;> simp at $h:ident))

theorem entry_decodeOp_jmp (p : X86.Pfx) (n0 n : Nat) (bs : List Nat) (rel : BitVec 32)
    (h : X86.decodeOp p n0 bs = some (.jmp rel, n)) : n = n0 + 5 ∧ p.lock = false ∧ p.o16 = false ∧ p.rex = none := by
  unfold X86.decodeOp at h
  cases bs with
  | nil => simp at h
  | cons op rest =>
    simp only at h
    by_cases c1 : p.x = true
    · rw [if_pos c1] at h; simp at h
    rw [if_neg c1] at h
    by_cases c2 : p.rex = some 0 ∧ op ≠ 0x88
    · rw [if_pos c2] at h; simp at h
    rw [if_neg c2] at h
    by_cases c3 : 0x50 ≤ op ∧ op ≤ 0x57
    · rw [if_pos c3] at h; entry_kill h
    rw [if_neg c3] at h
    by_cases c4 : 0x58 ≤ op ∧ op ≤ 0x5f
    · rw [if_pos c4] at h; entry_kill h
    rw [if_neg c4] at h
    by_cases c5 : 0xb8 ≤ op ∧ op ≤ 0xbf
    · rw [if_pos c5] at h; entry_kill h
    rw [if_neg c5] at h
    by_cases c6 : op = 0xc3
    · rw [if_pos c6] at h; entry_kill h
    rw [if_neg c6] at h
    by_cases c7 : op = 0xe8 ∨ op = 0xe9
    · rw [if_pos c7] at h
      split at h
      · obtain ⟨hp, h⟩ := entry_ite_none h
        simp only [Option.some.injEq, Prod.mk.injEq] at h
        refine ⟨h.2.symm, ?_⟩
        obtain ⟨hp1, hp2⟩ := hp
        cases hl : p.lock <;> cases ho : p.o16 <;> simp_all
      · simp at h
    rw [if_neg c7] at h
    by_cases c8 : op = 0x0f
    · rw [if_pos c8] at h; entry_kill h
    rw [if_neg c8] at h
    cases rest with
    | nil => simp at h
    | cons modrm rest2 =>
      simp only at h
      by_cases d1 : op = 0xff
      · rw [if_pos d1] at h; entry_kill h
      rw [if_neg d1] at h
      by_cases d2 : op = 0x8b
      · rw [if_pos d2] at h; entry_kill h
      rw [if_neg d2] at h
      by_cases d3 : op = 0x88
      · rw [if_pos d3] at h; entry_kill h
      rw [if_neg d3] at h
      by_cases d4 : op = 0xc6
      · rw [if_pos d4] at h; entry_kill h
      rw [if_neg d4] at h
      by_cases d5 : op = 0xc7
      · rw [if_pos d5] at h; entry_kill h
      rw [if_neg d5] at h
      by_cases d6 : op = 0x81
      · rw [if_pos d6] at h; entry_kill h
      rw [if_neg d6] at h
      by_cases d7 : op = 0xc1
      · rw [if_pos d7] at h; entry_kill h
      rw [if_neg d7] at h
      by_cases d8 : op = 0xd3
      · rw [if_pos d8] at h; entry_kill h
      rw [if_neg d8] at h
      by_cases d9 : op = 0xf7
      · rw [if_pos d9] at h; entry_kill h
      rw [if_neg d9] at h
      entry_kill h

theorem entry_decode_shape (bs : List Nat) (r : Instr × Nat) (h : decode bs = some r) :
    ∃ p n0 bs', X86.decodeOp p n0 bs' = some r ∧ (p.lock = false → p.o16 = false → p.rex = none → n0 = 0) := by
  unfold decode at h
  split at h
  next lock bs1 n1 hA =>
  split at h
  next o16 bs2 n2 hB =>
  have hA' : lock = false → n1 = 0 := by
    split at hA <;> simp only [Prod.mk.injEq] at hA <;> obtain ⟨rfl, -, rfl⟩ := hA <;> simp
  have hB' : o16 = false → n2 = n1 := by
    split at hB <;> simp only [Prod.mk.injEq] at hB <;> obtain ⟨rfl, -, rfl⟩ := hB <;> simp
  split at h
  · split at h
    · exact ⟨_, _, _, h, by simp⟩
    · refine ⟨_, _, _, h, ?_⟩
      simp only
      intro h1 h2 _
      have := hA' h1
      have := hB' h2
      omega
  · simp at h

theorem entry_decode_jmp (bs : List Nat) (rel : BitVec 32) (n : Nat) (h : decode bs = some (.jmp rel, n)) : n = 5 := by
  obtain ⟨p, n0, bs', h1, h2⟩ := entry_decode_shape bs _ h
  obtain ⟨h3, h4, h5, h6⟩ := entry_decodeOp_jmp _ _ _ _ _ h1
  have := h2 h4 h5 h6
  omega

-- runs, shapes --------------------------------------------------------------------------------------------------------


theorem entry_run_of_stepsN (c : Cfg) (k j : Nat) (σ σ1 : St) (h : stepsN c k σ = some σ1) : X86.run c σ (k + j) = X86.run c σ1 j := by
  induction k generalizing σ with
  | zero =>
    simp only [stepsN, Option.some.injEq] at h
    subst h
    simp
  | succ k ih =>
    rw [Nat.add_right_comm]
    simp only [stepsN] at h
    simp only [X86.run]
    split at h
    · next s' hs => rw [hs]; exact ih _ h
    · simp at h

@[simp] theorem entry_writeSized_mem (σ : St) (sz r v : Nat) : (X86.writeSized σ sz r v).mem = σ.mem := by
  unfold X86.writeSized; split <;> rfl

theorem entry_push_shape (σ σ' : St) (v : BitVec 64) (h : X86.push σ v = some σ') :
    σ'.mem.map entry_shape = σ.mem.map entry_shape := by
  unfold X86.push at h
  simp only at h
  split at h
  · next m hm =>
    simp only [Option.some.injEq] at h
    subst h
    exact entry_shape_writeMem _ _ _ _ hm
  · simp at h

theorem entry_pop_mem (σ σ' : St) (v : BitVec 64) (h : X86.pop σ = some (v, σ')) : σ'.mem = σ.mem := by
  unfold X86.pop at h
  simp only at h
  split at h
  · simp only [Option.some.injEq, Prod.mk.injEq] at h
    rw [← h.2]; rfl
  · simp at h

theorem entry_alu_mem (σ : St) (res : Option Nat) (sz dst : Nat) :
    (match res with | some v => X86.writeSized σ sz dst v | none => σ).mem = σ.mem := by
  cases res <;> simp

theorem entry_exec_shape (c : Cfg) (σ σ' : St) (i : Instr) (next : Nat) (h : exec c σ i next = .next σ') :
    σ'.mem.map entry_shape = σ.mem.map entry_shape := by
  unfold exec at h
  cases i <;> simp only at h
  case push r =>
    split at h
    · next s' hs =>
      simp only [Out.next.injEq] at h; subst h
      have := entry_push_shape _ _ _ hs
      exact this
    · simp at h
  case pop r =>
    split at h
    · next v s' hs =>
      simp only [Out.next.injEq] at h; subst h
      rw [set_mem, entry_pop_mem _ _ _ hs]
    · simp at h
  case aluRR w op src dst =>
    simp only [Out.next.injEq] at h; subst h
    split <;> simp
  case aluRI w op dst imm =>
    simp only [Out.next.injEq] at h; subst h
    split <;> simp
  case movabs dst imm => simp only [Out.next.injEq] at h; subst h; rfl
  case shiftI sz op dst n => simp only [Out.next.injEq] at h; subst h; simp
  case shiftCl w op dst => simp only [Out.next.injEq] at h; subst h; simp
  case neg w dst => simp only [Out.next.injEq] at h; subst h; simp
  case mul w src => simp only [Out.next.injEq] at h; subst h; simp
  case div w src =>
    repeat' split at h
    all_goals first
      | (simp at h; done)
      | (simp only [Out.next.injEq] at h; subst h; simp)
  case bswap w dst => simp only [Out.next.injEq] at h; subst h; rfl
  case load sz dst base disp =>
    split at h
    · simp only [Out.next.injEq] at h; subst h; rfl
    · simp at h
  case store sz src base disp =>
    split at h
    · next m hm => simp only [Out.next.injEq] at h; subst h; exact entry_shape_writeMem _ _ _ _ hm
    · simp at h
  case storeI sz base disp imm =>
    split at h
    · next m hm => simp only [Out.next.injEq] at h; subst h; exact entry_shape_writeMem _ _ _ _ hm
    · simp at h
  case lockAdd w src base disp =>
    split at h
    · split at h
      · next m hm => simp only [Out.next.injEq] at h; subst h; exact entry_shape_writeMem _ _ _ _ hm
      · simp at h
    · simp at h
  case cmovz dst src =>
    split at h
    · simp only [Out.next.injEq] at h; subst h; split <;> rfl
    · simp at h
  case jcc cc rel =>
    split at h
    · simp only [Out.next.injEq] at h; subst h; split <;> rfl
    · simp at h
  case jmp rel => simp only [Out.next.injEq] at h; subst h; rfl
  case call rel =>
    split at h
    · next s' hs =>
      simp only [Out.next.injEq] at h; subst h
      have := entry_push_shape _ _ _ hs
      exact this
    · simp at h
  case callReg r =>
    split at h
    · split at h
      · next s1 hs =>
        simp only [Out.next.injEq] at h; subst h
        simp only [List.foldl_cons, List.foldl_nil, set_mem]
        have h2 := entry_push_shape _ _ _ hs
        exact h2
      · simp at h
    · simp at h
  case ret =>
    split at h
    · next a s' hs =>
      split at h
      · simp at h
      · simp only [Out.next.injEq] at h; subst h
        have h2 := entry_pop_mem _ _ _ hs
        exact congrArg _ h2
    · simp at h

theorem entry_step_shape (c : Cfg) (σ σ' : St) (h : step c σ = .next σ') : σ'.mem.map entry_shape = σ.mem.map entry_shape := by
  unfold step at h
  split at h
  · exact entry_exec_shape _ _ _ _ _ h
  · simp at h

theorem entry_stepsN_shape (c : Cfg) (k : Nat) (σ σ' : St) (h : stepsN c k σ = some σ') :
    σ'.mem.map entry_shape = σ.mem.map entry_shape := by
  induction k generalizing σ with
  | zero => simp only [stepsN, Option.some.injEq] at h; subst h; rfl
  | succ k ih =>
    simp only [stepsN] at h
    split at h
    · next s1 hs => rw [ih _ h, entry_step_shape _ _ _ hs]
    · simp at h

-- single instructions ------------------------------------------------------------------------------------------------


theorem entry_bv_sub8 (x : BitVec 64) (sp : Nat) (h : x.toNat = sp) (h8 : 8 ≤ sp) : (x - 8).toNat = sp - 8 := by
  have := x.isLt
  have e : (8 : BitVec 64).toNat = 8 := rfl
  rw [BitVec.toNat_sub, e]
  omega

theorem entry_bv_add8 (x : BitVec 64) (sp : Nat) (h : x.toNat = sp) (h8 : sp + 8 < 2 ^ 64) : (x + 8).toNat = sp + 8 := by
  have e : (8 : BitVec 64).toNat = 8 := rfl
  rw [BitVec.toNat_add, e]
  omega

theorem entry_ofNat_mod (x : BitVec 64) : BitVec.ofNat 64 (x.toNat % 2 ^ 64 % 2 ^ 64) = x := by
  apply BitVec.eq_of_toNat_eq
  have := x.isLt
  simp only [BitVec.toNat_ofNat]
  omega

/-- `push r` (or the push of a `call`) given where the write goes -/
theorem entry_push (σ : St) (v : BitVec 64) (sp : Nat) (m' : List Region) (hsp : (σ.get 4).toNat = sp) (h8 : 8 ≤ sp)
    (hw : writeMem σ.mem (sp - 8) (leBytes v.toNat 8) = some m') :
    ∃ σ', X86.push σ v = some σ' ∧ σ'.rip = σ.rip ∧ σ'.mem = m' ∧ (σ'.get 4).toNat = sp - 8 ∧
      (∀ q, q ≠ 4 → σ'.get q = σ.get q) := by
  have e : (σ.get X86.RSP - 8).toNat = sp - 8 := entry_bv_sub8 _ _ hsp h8
  refine ⟨{ (σ.set X86.RSP (σ.get X86.RSP - 8)) with mem := m' }, ?_, rfl, rfl, ?_, ?_⟩
  · unfold X86.push
    simp only [e, hw]
  · show ((σ.set 4 (σ.get 4 - 8)).get 4).toNat = sp - 8
    rw [get_set_eq _ _ _ (by omega)]
    exact e
  · intro q hq
    show (σ.set 4 (σ.get 4 - 8)).get q = σ.get q
    exact get_set_ne _ _ _ _ (Ne.symm hq)

theorem entry_exec_push (c : Cfg) (σ : St) (r next sp : Nat) (m' : List Region) (hsp : (σ.get 4).toNat = sp) (h8 : 8 ≤ sp)
    (hw : writeMem σ.mem (sp - 8) (leBytes (σ.get r).toNat 8) = some m') :
    ∃ σ', exec c σ (.push r) next = .next σ' ∧ σ'.rip = next ∧ σ'.mem = m' ∧ (σ'.get 4).toNat = sp - 8 ∧
      (∀ q, q ≠ 4 → σ'.get q = σ.get q) := by
  obtain ⟨σ', h1, h2, h3, h4, h5⟩ := entry_push { σ with rip := next } (σ.get r) sp m' hsp h8 hw
  refine ⟨σ', ?_, h2, h3, h4, h5⟩
  unfold exec
  simp only
  have h1' : X86.push { σ with rip := next } (St.get { σ with rip := next } r) = some σ' := h1
  rw [h1']

theorem entry_exec_call (c : Cfg) (σ : St) (rel : BitVec 32) (next sp : Nat) (m' : List Region) (hsp : (σ.get 4).toNat = sp) (h8 : 8 ≤ sp)
    (hw : writeMem σ.mem (sp - 8) (leBytes (BitVec.ofNat 64 next).toNat 8) = some m') :
    ∃ σ', exec c σ (.call rel) next = .next σ' ∧ σ'.rip = X86.relTarget next rel ∧ σ'.mem = m' ∧ (σ'.get 4).toNat = sp - 8 ∧
      (∀ q, q ≠ 4 → σ'.get q = σ.get q) := by
  obtain ⟨σ', h1, h2, h3, h4, h5⟩ := entry_push { σ with rip := next } (BitVec.ofNat 64 next) sp m' hsp h8 hw
  refine ⟨{ σ' with rip := X86.relTarget next rel }, ?_, rfl, h3, h4, h5⟩
  unfold exec
  simp only
  rw [h1]

theorem entry_exec_mov (c : Cfg) (σ : St) (src dst next : Nat) (hd : dst < 16) :
    ∃ σ', exec c σ (.aluRR true .mov src dst) next = .next σ' ∧ σ'.rip = next ∧ σ'.mem = σ.mem ∧ σ'.get dst = σ.get src ∧
      (∀ q, q ≠ dst → σ'.get q = σ.get q) := by
  refine ⟨({ σ with rip := next }).set dst (σ.get src), ?_, rfl, rfl, get_set_eq _ _ _ hd, fun q hq => get_set_ne _ _ _ _ (Ne.symm hq)⟩
  unfold exec
  simp only [X86.alu, if_true, X86.writeSized, true_or, X86.trunc]
  congr 2
  exact entry_ofNat_mod _

theorem entry_exec_jmp (c : Cfg) (σ : St) (rel : BitVec 32) (next : Nat) :
    ∃ σ', exec c σ (.jmp rel) next = .next σ' ∧ σ'.rip = X86.relTarget next rel ∧ σ'.mem = σ.mem ∧ (∀ q, σ'.get q = σ.get q) :=
  ⟨{ σ with rip := X86.relTarget next rel }, rfl, rfl, rfl, fun _ => rfl⟩

theorem entry_exec_test (c : Cfg) (σ : St) (r next : Nat) :
    ∃ σ' f, exec c σ (.aluRR true .test r r) next = .next σ' ∧ σ'.rip = next ∧ σ'.mem = σ.mem ∧ (∀ q, σ'.get q = σ.get q) ∧
      σ'.flags = some f ∧ (f.zf = true ↔ σ.get r = 0) := by
  refine ⟨_, _, rfl, rfl, rfl, fun _ => rfl, rfl, ?_⟩
  simp only [X86.flagsLogic, X86.trunc, if_true, decide_eq_true_eq, Nat.and_self]
  have := (σ.get r).isLt
  constructor
  · intro h
    apply BitVec.eq_of_toNat_eq
    show (σ.get r).toNat = 0
    have h' : (σ.get r).toNat % 2 ^ 64 % 2 ^ 64 = 0 := h
    omega
  · intro h
    show (σ.get r).toNat % 2 ^ 64 % 2 ^ 64 = 0
    rw [h]; rfl

theorem entry_exec_cmovz (c : Cfg) (σ : St) (f : X86.Flags) (dst src next : Nat) (hf : σ.flags = some f) (hd : dst < 16) :
    ∃ σ', exec c σ (.cmovz dst src) next = .next σ' ∧ σ'.rip = next ∧ σ'.mem = σ.mem ∧
      σ'.get dst = (if f.zf = true then σ.get src else σ.get dst) ∧ (∀ q, q ≠ dst → σ'.get q = σ.get q) := by
  unfold exec
  simp only [hf]
  by_cases hz : f.zf = true
  · simp only [hz, if_true]
    exact ⟨_, rfl, rfl, rfl, get_set_eq _ _ _ hd, fun q hq => get_set_ne _ _ _ _ (Ne.symm hq)⟩
  · simp only [hz]
    exact ⟨_, rfl, rfl, rfl, rfl, fun q hq => rfl⟩

theorem entry_exec_sub512 (c : Cfg) (σ : St) (next sp : Nat) (hsp : (σ.get 4).toNat = sp) (h : 512 ≤ sp) :
    ∃ σ', exec c σ (.aluRI true .sub 4 512#32) next = .next σ' ∧ σ'.rip = next ∧ σ'.mem = σ.mem ∧ (σ'.get 4).toNat = sp - 512 ∧
      (∀ q, q ≠ 4 → σ'.get q = σ.get q) := by
  refine ⟨_, rfl, ?_, ?_, ?_, ?_⟩
  · simp [X86.writeSized]
  · simp [X86.writeSized]
  · simp only [X86.writeSized, if_true, true_or, X86.trunc]
    rw [get_set_eq _ _ _ (by omega)]
    have := (σ.get 4).isLt
    have e : ((512#32).signExtend 64).toNat = 512 := by decide
    have e2 : St.get { σ with rip := next } 4 = σ.get 4 := rfl
    simp only [BitVec.toNat_ofNat, e, e2, hsp]
    omega
  · intro q hq
    simp only [X86.writeSized, if_true, true_or]
    rw [get_set_ne _ _ _ _ (Ne.symm hq)]
    rfl

theorem entry_exec_add512 (c : Cfg) (σ : St) (next sp : Nat) (hsp : (σ.get 4).toNat = sp) (h : sp + 512 < 2 ^ 64) :
    ∃ σ', exec c σ (.aluRI true .add 4 512#32) next = .next σ' ∧ σ'.rip = next ∧ σ'.mem = σ.mem ∧ (σ'.get 4).toNat = sp + 512 ∧
      (∀ q, q ≠ 4 → σ'.get q = σ.get q) := by
  refine ⟨_, rfl, ?_, ?_, ?_, ?_⟩
  · simp [X86.writeSized]
  · simp [X86.writeSized]
  · simp only [X86.writeSized, if_true, true_or, X86.trunc]
    rw [get_set_eq _ _ _ (by omega)]
    have := (σ.get 4).isLt
    have e : ((512#32).signExtend 64).toNat = 512 := by decide
    have e2 : St.get { σ with rip := next } 4 = σ.get 4 := rfl
    simp only [BitVec.toNat_ofNat, e, e2, hsp]
    omega
  · intro q hq
    simp only [X86.writeSized, if_true, true_or]
    rw [get_set_ne _ _ _ _ (Ne.symm hq)]
    rfl

theorem entry_exec_pop (c : Cfg) (σ : St) (r next sp : Nat) (bs : List (BitVec 8)) (hsp : (σ.get 4).toNat = sp) (h : sp + 8 < 2 ^ 64)
    (hr : readMem σ.mem sp 8 = some bs) (hr4 : r ≠ 4) (hr16 : r < 16) :
    ∃ σ', exec c σ (.pop r) next = .next σ' ∧ σ'.rip = next ∧ σ'.mem = σ.mem ∧ (σ'.get 4).toNat = sp + 8 ∧
      σ'.get r = BitVec.ofNat 64 (leValue bs) ∧ (∀ q, q ≠ 4 → q ≠ r → σ'.get q = σ.get q) := by
  have hp : X86.pop { σ with rip := next } = some (BitVec.ofNat 64 (leValue bs), ({ σ with rip := next }).set 4 (σ.get 4 + 8)) := by
    unfold X86.pop
    have e : (St.get { σ with rip := next } X86.RSP).toNat = sp := hsp
    simp only [e, hr]
    rfl
  refine ⟨(({ σ with rip := next }).set 4 (σ.get 4 + 8)).set r (BitVec.ofNat 64 (leValue bs)), ?_, ?_, ?_, ?_, ?_, ?_⟩
  · unfold exec
    simp only [hp]
  · rfl
  · rfl
  · rw [get_set_ne _ _ _ _ hr4, get_set_eq _ _ _ (by omega)]
    exact entry_bv_add8 _ _ hsp h
  · exact get_set_eq _ _ _ hr16
  · intro q h4 hq
    rw [get_set_ne _ _ _ _ (Ne.symm hq), get_set_ne _ _ _ _ (Ne.symm h4)]
    rfl

theorem entry_exec_ret (c : Cfg) (σ : St) (next sp : Nat) (hsp : (σ.get 4).toNat = sp) (h : sp + 8 < 2 ^ 64)
    (hr : readMem σ.mem sp 8 = some (leBytes c.retSentinel.toNat 8)) :
    ∃ σ', exec c σ .ret next = .done (σ.get 0) σ' ∧ σ'.mem = σ.mem ∧ (σ'.get 4).toNat = sp + 8 ∧
      (∀ q, q ≠ 4 → σ'.get q = σ.get q) := by
  have hp : X86.pop { σ with rip := next } = some (c.retSentinel, ({ σ with rip := next }).set 4 (σ.get 4 + 8)) := by
    unfold X86.pop
    have e : (St.get { σ with rip := next } X86.RSP).toNat = sp := hsp
    simp only [e, hr, entry_leValue_leBytes8]
    rfl
  refine ⟨({ σ with rip := next }).set 4 (σ.get 4 + 8), ?_, rfl, ?_, ?_⟩
  · unfold exec
    simp only [hp, if_true]
    congr 1
    show (St.set _ 4 _).get 0 = _
    rw [get_set_ne _ _ _ _ (by decide)]
    rfl
  · rw [get_set_eq _ _ _ (by omega)]
    exact entry_bv_add8 _ _ hsp h
  · intro q hq
    rw [get_set_ne _ _ _ _ (Ne.symm hq)]
    rfl

-- the log and the misalignment counter: only `call reg` touches them ------------------------------------------------

/-- the call log and the misalignment counter -/
def entry_lm (σ : St) : List (Nat × List (BitVec 64)) × Nat := (σ.log, σ.misaligned)

@[simp] theorem entry_lm_set (σ : St) (r : Nat) (v : BitVec 64) : entry_lm (σ.set r v) = entry_lm σ := rfl

@[simp] theorem entry_lm_writeSized (σ : St) (sz r v : Nat) : entry_lm (X86.writeSized σ sz r v) = entry_lm σ := by
  unfold X86.writeSized; split <;> rfl

theorem entry_push_lm (σ σ' : St) (v : BitVec 64) (h : X86.push σ v = some σ') : entry_lm σ' = entry_lm σ := by
  unfold X86.push at h
  simp only at h
  split at h
  · simp only [Option.some.injEq] at h
    subst h
    rfl
  · simp at h

theorem entry_pop_lm (σ σ' : St) (v : BitVec 64) (h : X86.pop σ = some (v, σ')) : entry_lm σ' = entry_lm σ := by
  unfold X86.pop at h
  simp only at h
  split at h
  · simp only [Option.some.injEq, Prod.mk.injEq] at h
    rw [← h.2]; rfl
  · simp at h

theorem entry_exec_lm (c : Cfg) (σ σ' : St) (i : Instr) (next : Nat) (hi : ∀ r, i ≠ .callReg r)
    (h : exec c σ i next = .next σ' ∨ ∃ v, exec c σ i next = .done v σ') : entry_lm σ' = entry_lm σ := by
  unfold exec at h
  cases i <;> simp only at h
  case callReg r => exact absurd rfl (hi r)
  case push r =>
    split at h
    · next s' hs =>
      simp only [Out.next.injEq, reduceCtorEq, exists_false, or_false] at h; subst h
      have h2 := entry_push_lm _ _ _ hs
      exact h2
    · simp at h
  case pop r =>
    split at h
    · next v s' hs =>
      simp only [Out.next.injEq, reduceCtorEq, exists_false, or_false] at h; subst h
      have h2 := entry_pop_lm _ _ _ hs
      rw [entry_lm_set]; exact h2
    · simp at h
  case aluRR w op src dst =>
    simp only [Out.next.injEq, reduceCtorEq, exists_false, or_false] at h; subst h
    split
    · rw [entry_lm_writeSized]; rfl
    · rfl
  case aluRI w op dst imm =>
    simp only [Out.next.injEq, reduceCtorEq, exists_false, or_false] at h; subst h
    split
    · rw [entry_lm_writeSized]; rfl
    · rfl
  case movabs dst imm => simp only [Out.next.injEq, reduceCtorEq, exists_false, or_false] at h; subst h; rfl
  case shiftI sz op dst n => simp only [Out.next.injEq, reduceCtorEq, exists_false, or_false] at h; subst h; simp; rfl
  case shiftCl w op dst => simp only [Out.next.injEq, reduceCtorEq, exists_false, or_false] at h; subst h; simp; rfl
  case neg w dst => simp only [Out.next.injEq, reduceCtorEq, exists_false, or_false] at h; subst h; simp; rfl
  case mul w src => simp only [Out.next.injEq, reduceCtorEq, exists_false, or_false] at h; subst h; simp; rfl
  case div w src =>
    repeat' split at h
    all_goals first
      | (simp at h; done)
      | (simp only [Out.next.injEq, reduceCtorEq, exists_false, or_false] at h; subst h; simp; rfl)
  case bswap w dst => simp only [Out.next.injEq, reduceCtorEq, exists_false, or_false] at h; subst h; rfl
  case load sz dst base disp =>
    split at h
    · simp only [Out.next.injEq, reduceCtorEq, exists_false, or_false] at h; subst h; rfl
    · simp at h
  case store sz src base disp =>
    split at h
    · simp only [Out.next.injEq, reduceCtorEq, exists_false, or_false] at h; subst h; rfl
    · simp at h
  case storeI sz base disp imm =>
    split at h
    · simp only [Out.next.injEq, reduceCtorEq, exists_false, or_false] at h; subst h; rfl
    · simp at h
  case lockAdd w src base disp =>
    split at h
    · split at h
      · simp only [Out.next.injEq, reduceCtorEq, exists_false, or_false] at h; subst h; rfl
      · simp at h
    · simp at h
  case cmovz dst src =>
    split at h
    · simp only [Out.next.injEq, reduceCtorEq, exists_false, or_false] at h; subst h; split <;> rfl
    · simp at h
  case jcc cc rel =>
    split at h
    · simp only [Out.next.injEq, reduceCtorEq, exists_false, or_false] at h; subst h; split <;> rfl
    · simp at h
  case jmp rel => simp only [Out.next.injEq, reduceCtorEq, exists_false, or_false] at h; subst h; rfl
  case call rel =>
    split at h
    · next s' hs =>
      simp only [Out.next.injEq, reduceCtorEq, exists_false, or_false] at h; subst h
      have h2 := entry_push_lm _ _ _ hs
      exact h2
    · simp at h
  case ret =>
    split at h
    · next a s' hs =>
      have h2 := entry_pop_lm _ _ _ hs
      split at h
      · simp only [reduceCtorEq, Out.done.injEq, false_or] at h
        obtain ⟨v, -, rfl⟩ := h
        exact h2
      · simp only [Out.next.injEq, reduceCtorEq, exists_false, or_false] at h; subst h
        exact h2
    · simp at h

/-- a step at a place where the code decodes to something other than `call reg` -/
theorem entry_step_lm (c : Cfg) (σ σ' : St) (a n : Nat) (x : Instr) (hrip : σ.rip = c.codeBase + a)
    (hdec : decode (window c.code a) = some (x, n)) (hx : ∀ r, x ≠ .callReg r)
    (h : step c σ = .next σ' ∨ ∃ v, step c σ = .done v σ') : entry_lm σ' = entry_lm σ := by
  rw [step_at c σ a n x hrip hdec] at h
  exact entry_exec_lm c σ σ' x _ hx h
end Rbpf.JitSim
