/-
  x86-64 simulation, whole programs: from the per-class lemmas (`armSim_*`) to runs.  A code buffer that passes
  `JitAst.validate` for program `p`, executed by the x86-64 machine from a state representing eBPF state `s`, follows
  every run of the register-transfer semantics `EngineSem.jitRun` that returns a value — for programs whose
  instructions are all in a covered class or `exit` (no helper calls, no eBPF-to-eBPF calls).
-/
import RbpfModel.Lemmas.X86Sim.Alu
import RbpfModel.Lemmas.X86Sim.MulDiv
import RbpfModel.Lemmas.X86Sim.Jump
import RbpfModel.Lemmas.X86Sim.Mem
import RbpfModel.Lemmas.X86Sim.WholeRun
namespace Rbpf.JitSim
open Rbpf.X86 (Cfg St Out Instr step exec decode fetch readMem writeMem)
open Rbpf.JitAst (AI Tgt checkSeq window)

def coveredOpcodes : List Nat := aluOpcodes ++ mulDivOpcodes ++ jumpOpcodes ++ memOpcodes

theorem armSim_covered (i : Insn) (h : i.opc.toNat ∈ coveredOpcodes) : ArmSim i := by
  unfold coveredOpcodes at h
  rcases List.mem_append.mp h with h | h
  · rcases List.mem_append.mp h with h | h
    · rcases List.mem_append.mp h with h | h
      · exact armSim_alu i h
      · exact armSim_muldiv i h
    · exact armSim_jump i h
  · exact armSim_mem i h

/-- the instruction starts of `p` (what both the compiler and `validate` iterate over) -/
def starts (p : Bytes) : List (Nat × Insn) := JitAst.sweep p (p.size / 8 + 1) 0

/-- every instruction is in a covered class, or is `exit` -/
def Covered (p : Bytes) : Prop := ∀ x ∈ starts p, x.2.opc.toNat ∈ coveredOpcodes ∨ x.2.opc.toNat = 0x95

/-- between two arms at call depth 0 (`depth0`): `Rel0`, the bytes above the eBPF stack are `top`, and the machine is at the arm of
    `s.pc`, which is an instruction start -/
structure Rel (c : Cfg) (p : Bytes) (L : JitAst.Layout) (retAddr : Nat) (top : List (BitVec 8)) (σ : St) (s : State) : Prop where
  rel0 : Rel0 retAddr σ s
  top : topBytes σ s = some top
  start : ∃ i, (s.pc, i) ∈ starts p
  rip : ∃ l, L.pcLocs[s.pc]? = some l ∧ σ.rip = c.codeBase + l
  depth0 : s.frames = []

/-- `Rel` is `whole_Rel` of `WholeRun.lean` (where the proofs are, with the class lemmas as a hypothesis) -/
theorem whole_rel_iff (c : Cfg) (p : Bytes) (L : JitAst.Layout) (retAddr : Nat) (top : List (BitVec 8)) (σ : St) (s : State) :
    Rel c p L retAddr top σ s ↔ whole_Rel c p L retAddr top σ s :=
  ⟨fun h => ⟨h.rel0, h.top, h.start, h.rip, h.depth0⟩, fun h => ⟨h.rel0, h.top, h.start, h.rip, h.depth0⟩⟩

/-- one step of the register-transfer semantics that continues is matched by finitely many machine steps, and the
    relation holds again — provided the next pc is still inside the program (a run that falls off the end panics) -/
theorem jit_step_sim (env : Env) (haddr : Nat → Option Nat) (um ud : Bool) (c : Cfg) (L : JitAst.Layout) (retAddr : Nat)
    (top : List (BitVec 8)) (σ : St) (s s' : State)
    (hv : JitAst.validate env.prog haddr um ud c.code L = true) (hcov : Covered env.prog)
    (hsize : c.codeBase + c.code.size < 2 ^ 63)
    (hrel : Rel c env.prog L retAddr top σ s) (hstep : EngineSem.jitStep env s = .next s')
    (hin : ∃ i, (s'.pc, i) ∈ starts env.prog) :
    ∃ k σ', stepsN c k σ = some σ' ∧ Rel c env.prog L retAddr top σ' s' := by
  obtain ⟨k, σ', hk, h⟩ := whole_step_sim armSim_covered env haddr um ud c L retAddr top σ s s' hv hcov hsize
    ((whole_rel_iff ..).mp hrel) hstep
  obtain ⟨j, hj⟩ := hin
  have hsome : (getInsn? env.prog s'.pc).isSome := by rw [(whole_starts_mem env.prog s'.pc j hj).1]; rfl
  exact ⟨k, σ', hk, (whole_rel_iff ..).mpr (h hsome)⟩

/-- the top-level `exit`: `ret` pops the landing pad's address -/
theorem jit_exit_sim (env : Env) (haddr : Nat → Option Nat) (um ud : Bool) (c : Cfg) (L : JitAst.Layout) (retAddr : Nat)
    (top : List (BitVec 8)) (σ : St) (s s' : State) (r0 : BitVec 64)
    (hv : JitAst.validate env.prog haddr um ud c.code L = true) (hcov : Covered env.prog)
    (hret : BitVec.ofNat 64 retAddr ≠ c.retSentinel) (hretlt : retAddr < 2 ^ 64)
    (hrel : Rel c env.prog L retAddr top σ s) (hstep : EngineSem.jitStep env s = .done r0 s') :
    ∃ σ', stepsN c 1 σ = some σ' ∧ σ'.rip = retAddr ∧ σ'.get 0 = r0 ∧ MemRel σ'.mem s'.mem ∧
      (σ'.get X86.RSP).toNat = s'.mem.stack.base ∧ topBytes σ' s' = some top := by
  have _ := hcov   -- not needed: no instruction but `exit` makes `jitExec` return `.done` (`whole_jitExec_done`)
  obtain ⟨σ', h1, h2, h3, h4, h5, h6, -⟩ :=
    whole_exit_sim env haddr um ud c L retAddr top σ s s' r0 hv hret hretlt ((whole_rel_iff ..).mp hrel) hstep
  exact ⟨σ', h1, h2, h3, h4, h5, h6⟩

/-- runs: if the register-transfer semantics return `r0`, the machine reaches the landing pad with rax = r0, the
    eBPF-visible memory as the semantics left it, rsp at the bottom of the eBPF stack and the saved bytes intact -/
theorem jit_run_sim (env : Env) (haddr : Nat → Option Nat) (um ud : Bool) (c : Cfg) (L : JitAst.Layout) (retAddr : Nat)
    (top : List (BitVec 8)) (fuel : Nat) (σ : St) (s s' : State) (r0 : BitVec 64)
    (hv : JitAst.validate env.prog haddr um ud c.code L = true) (hcov : Covered env.prog)
    (hsize : c.codeBase + c.code.size < 2 ^ 63)
    (hret : BitVec.ofNat 64 retAddr ≠ c.retSentinel) (hretlt : retAddr < 2 ^ 64)
    (hrel : Rel c env.prog L retAddr top σ s)
    (hrun : EngineSem.jitRun env s fuel = .done r0 s') :
    ∃ k σ', stepsN c k σ = some σ' ∧ σ'.rip = retAddr ∧ σ'.get 0 = r0 ∧ MemRel σ'.mem s'.mem ∧
      (σ'.get X86.RSP).toNat = s'.mem.stack.base ∧ topBytes σ' s' = some top :=
  whole_run_sim armSim_covered env haddr um ud c L retAddr top fuel σ s s' r0 hv hcov hsize hret hretlt
    ((whole_rel_iff ..).mp hrel) hrun

end Rbpf.JitSim
