/-
  x86-64 simulation, whole programs: from the per-class lemmas (`armSim_*`) to runs.  A code buffer that passes
  `JitAst.validate` for program `p`, executed by the x86-64 machine from a state representing eBPF state `s`, follows
  every run of the register-transfer semantics `EngineSem.jitRun` that returns a value — for programs whose
  instructions are all in a covered class or `exit` (no helper calls, no eBPF-to-eBPF calls).
-/
import RbpfModel.Lemmas.X86Sim.Alu
import RbpfModel.Lemmas.X86Sim.MulDiv
import RbpfModel.Lemmas.X86Sim.Jump
import RbpfModel.Lemmas.X86Sim.Mem
namespace Rbpf.JitSim
open Rbpf.X86 (Cfg St Out Instr step exec decode fetch readMem writeMem)
open Rbpf.JitAst (AI Tgt checkSeq window)

def coveredOpcodes : List Nat := aluOpcodes ++ mulDivOpcodes ++ jumpOpcodes ++ memOpcodes

theorem armSim_covered (i : Insn) (h : i.opc.toNat ∈ coveredOpcodes) : ArmSim i := by
  sorry

/-- the instruction starts of `p` (what both the compiler and `validate` iterate over) -/
def starts (p : Bytes) : List (Nat × Insn) := JitAst.sweep p (p.size / 8 + 1) 0

/-- every instruction is in a covered class, or is `exit` -/
def Covered (p : Bytes) : Prop := ∀ x ∈ starts p, x.2.opc.toNat ∈ coveredOpcodes ∨ x.2.opc.toNat = 0x95

/-- between two arms at call depth 0: `Rel0`, the bytes above the eBPF stack are `top`, and the machine is at the arm of
    `s.pc`, which is an instruction start -/
structure Rel (c : Cfg) (p : Bytes) (L : JitAst.Layout) (retAddr : Nat) (top : List (BitVec 8)) (σ : St) (s : State) : Prop where
  rel0 : Rel0 retAddr σ s
  top : topBytes σ s = some top
  start : ∃ i, (s.pc, i) ∈ starts p
  rip : ∃ l, L.pcLocs[s.pc]? = some l ∧ σ.rip = c.codeBase + l

/-- one step of the register-transfer semantics that continues is matched by finitely many machine steps, and the
    relation holds again — provided the next pc is still inside the program (a run that falls off the end panics) -/
theorem jit_step_sim (env : Env) (haddr : Nat → Option Nat) (um ud : Bool) (c : Cfg) (L : JitAst.Layout) (retAddr : Nat)
    (top : List (BitVec 8)) (σ : St) (s s' : State)
    (hv : JitAst.validate env.prog haddr um ud c.code L = true) (hcov : Covered env.prog)
    (hsize : c.codeBase + c.code.size < 2 ^ 63)
    (hrel : Rel c env.prog L retAddr top σ s) (hstep : EngineSem.jitStep env s = .next s')
    (hin : ∃ i, (s'.pc, i) ∈ starts env.prog) :
    ∃ k σ', stepsN c k σ = some σ' ∧ Rel c env.prog L retAddr top σ' s' := by
  sorry

/-- the top-level `exit`: `ret` pops the landing pad's address -/
theorem jit_exit_sim (env : Env) (haddr : Nat → Option Nat) (um ud : Bool) (c : Cfg) (L : JitAst.Layout) (retAddr : Nat)
    (top : List (BitVec 8)) (σ : St) (s s' : State) (r0 : BitVec 64)
    (hv : JitAst.validate env.prog haddr um ud c.code L = true) (hcov : Covered env.prog)
    (hret : BitVec.ofNat 64 retAddr ≠ c.retSentinel) (hretlt : retAddr < 2 ^ 64)
    (hrel : Rel c env.prog L retAddr top σ s) (hstep : EngineSem.jitStep env s = .done r0 s') :
    ∃ σ', stepsN c 1 σ = some σ' ∧ σ'.rip = retAddr ∧ σ'.get 0 = r0 ∧ MemRel σ'.mem s'.mem ∧
      (σ'.get X86.RSP).toNat = s'.mem.stack.base ∧ topBytes σ' s' = some top := by
  sorry

/-- runs: if the register-transfer semantics return `r0`, the machine reaches the landing pad with rax = r0, the
    eBPF-visible memory as the semantics left it, rsp at the bottom of the eBPF stack and the saved bytes intact -/
theorem jit_run_sim (env : Env) (haddr : Nat → Option Nat) (um ud : Bool) (c : Cfg) (L : JitAst.Layout) (retAddr : Nat)
    (top : List (BitVec 8)) (fuel : Nat) (σ : St) (s s' : State) (r0 : BitVec 64)
    (hv : JitAst.validate env.prog haddr um ud c.code L = true) (hcov : Covered env.prog)
    (hsize : c.codeBase + c.code.size < 2 ^ 63)
    (hret : BitVec.ofNat 64 retAddr ≠ c.retSentinel) (hretlt : retAddr < 2 ^ 64)
    (hrel : Rel c env.prog L retAddr top σ s)
    (hrun : EngineSem.jitRun env s fuel = .done r0 s') :
    ∃ k σ', stepsN c k σ = some σ' ∧ σ'.rip = retAddr ∧ σ'.get 0 = r0 ∧ MemRel σ'.mem s'.mem ∧
      (σ'.get X86.RSP).toNat = s'.mem.stack.base ∧ topBytes σ' s' = some top := by
  sorry

end Rbpf.JitSim
