/-
  From call to return for the fixed-metadata VM kind (`EbpfVmFixedMbuff`: `use_mbuff` and `update_data_ptr`): the
  prologue also writes the packet's start and end addresses into the VM's internal buffer, at the two offsets the VM
  was created with — what `Vm.fixedPrepare` does on the interpreter's path.  Definitions (`EntryFixed`, `preparedMem`,
  `entryStateFixed`) and the prologue itself are in `EntryFixedCore.lean`.
-/
import RbpfModel.Lemmas.X86Sim.EntryC
import RbpfModel.Lemmas.X86Sim.EntryFixedCore
namespace Rbpf.JitSim
open Rbpf.X86 (Cfg St Out Instr step exec decode fetch readMem writeMem)
open Rbpf.JitAst (AI Tgt checkSeq window)

/-- r1 and r10 of `entryStateFixed` are those of the interpreter's initial state on the prepared memory -/
theorem entryStateFixed_r1_r10 (c : Cfg) (m : Memory) (d e : Nat) (σ : St) (hef : EntryFixed c m d e σ) :
    (entryStateFixed m σ d e).reg[1]? = (Interp.init (preparedMem m d e)).reg[1]? ∧
    (entryStateFixed m σ d e).reg[10]? = (Interp.init (preparedMem m d e)).reg[10]? := by
  obtain ⟨frame, lower, hxm, hfb, hfs, hss, hlb, hls, hb, hmb, hdj⟩ := entry_memrel_split _ _ hef.entry.mem
  have hsz := entryf_prepared_size m d e
  have hd := hef.dIn
  constructor
  · simp only [entryStateFixed, Interp.init, Vector.getElem?_setIfInBounds, Vector.getElem?_ofFn]
    simp only [show (10 : Nat) ≠ 1 by decide, show (5 : Nat) ≠ 1 by decide, show (4 : Nat) ≠ 1 by decide, if_false, if_true,
      show (1 : Nat) < 11 by decide]
    rw [hef.entry.rdi, if_pos (by omega), entryf_prepared_base]
  · simp only [entryStateFixed, Interp.init, Vector.getElem?_setIfInBounds, Vector.getElem?_ofFn, if_true,
      entryf_prepared_stack, hss]

/-- the prologue of the fixed-metadata kind: as `jit_prologue_simL`, from `EntryFixed` to `entryStateFixed` (whose memory
    is the prepared one) -/
theorem jit_prologue_sim_fixed (env : Env) (haddr : Nat → Option Nat) (c : Cfg) (L : JitAst.Layout) (m : Memory) (d e : Nat) (σ : St)
    (hv : JitAst.validate env.prog haddr true true c.code L = true)
    (hsize : c.codeBase + c.code.size < 2 ^ 63) (hne : 0 < env.prog.size / 8) (h0 : ∃ i, (0, i) ∈ starts env.prog)
    (he : EntryFixed c m d e σ) :
    ∃ k σ' retAddr top, stepsN c k σ = some σ' ∧ Rel c env.prog L retAddr top σ' (entryStateFixed m σ d e) ∧
      LandingPad c L retAddr ∧ (∃ pad, top = savedBytes c σ ++ pad) ∧ σ'.log = σ.log ∧ σ'.misaligned = σ.misaligned := by
  obtain ⟨tgt, hexit, hcs, -, hloc, -, hst0⟩ := entry_validate _ _ _ _ _ _ hv
  rw [if_pos (by omega)] at hcs
  obtain ⟨i0, hi0⟩ := h0
  obtain ⟨l, hl0⟩ := hst0 0 i0 hi0
  rw [hl0] at hcs
  obtain ⟨k, σ', retAddr, top, hst, hrel0, htop, hrip, hpad, hsaved, hlm⟩ :=
    entryf_prologue c L m d e σ tgt l hexit hcs (hloc 0 l hl0) hsize he
  exact ⟨k, σ', retAddr, top, hst, ⟨hrel0, htop, ⟨i0, hi0⟩, ⟨l, hl0, hrip⟩, rfl⟩, hpad, hsaved,
    congrArg Prod.fst hlm, congrArg Prod.snd hlm⟩

/-- a returning run starts with an instruction that exists -/
theorem entryf_first (clob : Nat → Nat → BitVec 64) (env : Env) (s s' : State) (fuel : Nat) (r0 : BitVec 64) (hpc : s.pc = 0)
    (hrun : jitRunC clob env s fuel = .done r0 s') : 0 < env.prog.size / 8 ∧ ∃ i, (0, i) ∈ starts env.prog := by
  cases fuel with
  | zero => simp [jitRunC] at hrun
  | succ f =>
    simp only [jitRunC] at hrun
    unfold jitStepC at hrun
    rw [hpc] at hrun
    by_cases hlt : 0 * 8 < env.prog.size
    · rw [if_pos hlt] at hrun
      cases hg : getInsn? env.prog 0 with
      | none => simp [hg] at hrun
      | some i =>
        have h8 : (0 + 1) * 8 ≤ env.prog.size := by
          unfold getInsn? at hg
          split at hg
          · simp at hg
          · omega
        refine ⟨by omega, i, ?_⟩
        unfold starts
        simp only [JitAst.sweep, hlt, if_true, hg]
        exact List.mem_cons_self
    · rw [if_neg hlt] at hrun
      simp at hrun

/-- **From call to return, fixed-metadata kind, with helper calls.**  As `jit_call_to_returnC` for the code compiled
    with `use_mbuff` and `update_data_ptr`: entered under the calling convention with the VM's buffer, the packet and the
    two offsets, the machine returns what every returning run of the register-transfer semantics from `entryStateFixed`
    — on the memory whose metadata buffer is `Vm.fixedPrepare`d — returns, leaves the eBPF-visible memory as that run
    leaves it, makes the same helper calls, none with a misaligned stack, and restores the caller's registers. -/
theorem jit_call_to_return_fixed (env : Env) (haddr : Nat → Option Nat) (c : Cfg) (L : JitAst.Layout) (m : Memory) (d e : Nat) (σ : St)
    (fuel : Nat) (r0 : BitVec 64) (s' : State)
    (hv : JitAst.validate env.prog haddr true true c.code L = true) (hcov : CoveredC env.prog) (hext : ExtOk c env haddr)
    (hsize : c.codeBase + c.code.size < 2 ^ 63)
    (hsent : c.retSentinel.toNat < c.codeBase ∨ c.codeBase + c.code.size ≤ c.retSentinel.toNat)
    (he : EntryFixed c m d e σ) (hlog : σ.log = []) (halign : m.stack.base % 16 = 0)
    (hrun : jitRunC c.clobber env (entryStateFixed m σ d e) fuel = .done r0 s') :
    ∃ k σ', X86.run c σ k = .done r0 σ' ∧ MemRel σ'.mem s'.mem ∧
      σ'.get 3 = σ.get 3 ∧ σ'.get 5 = σ.get 5 ∧ σ'.get 13 = σ.get 13 ∧ σ'.get 14 = σ.get 14 ∧ σ'.get 15 = σ.get 15 ∧
      (σ'.get X86.RSP).toNat = (σ.get X86.RSP).toNat + 8 ∧
      σ'.log.map (·.2) = s'.log.map (·.2) ∧ σ'.misaligned = σ.misaligned := by
  obtain ⟨hne, h0⟩ := entryf_first c.clobber env _ s' fuel r0 (entryf_state_pc m σ d e) hrun
  obtain ⟨k1, σ1, retAddr, top, hst1, hrel, hpad, hsaved, hlog1, hmis1⟩ :=
    jit_prologue_sim_fixed env haddr c L m d e σ hv hsize hne h0 he
  have hpad' := hpad
  obtain ⟨hp1, hp2, -⟩ := hpad'
  have hretlt : retAddr < 2 ^ 64 := by omega
  have hret : BitVec.ofNat 64 retAddr ≠ c.retSentinel := by
    intro h
    have := congrArg BitVec.toNat h
    rw [BitVec.toNat_ofNat] at this
    omega
  have hrelC : RelC c env.prog L retAddr top σ1 (entryStateFixed m σ d e) := by
    refine ⟨hrel, ?_, ?_⟩
    · unfold LogRel
      rw [hlog1, hlog, entryf_state_log]
    · rw [entryf_state_mem, entryf_prepared_stack]; exact halign
  obtain ⟨k2, σ2, hst2, hrip2, hrax2, hmem2, hrsp2, htb2, hlog2, hmis2⟩ :=
    jit_run_simC env haddr true true c L retAddr top fuel σ1 (entryStateFixed m σ d e) s' r0 hv hcov hext hsize hret hretlt hrelC hrun
  obtain ⟨k3, σ3, hrun3, hmem3, g3, g5, g13, g14, g15, hrsp3, hlm3⟩ :=
    entry_epilogue_sim env haddr true true c L σ σ2 s' retAddr top r0 hv hsize hpad hsaved hrip2 hrax2 hmem2 hrsp2 htb2
  have hlog3 : σ3.log = σ2.log := congrArg Prod.fst hlm3
  have hmis3 : σ3.misaligned = σ2.misaligned := congrArg Prod.snd hlm3
  have hst12 := stepsN_add c k1 k2 σ σ1 σ2 hst1 hst2
  refine ⟨k1 + k2 + k3, σ3, ?_, by rw [hmem3]; exact hmem2, g3, g5, g13, g14, g15, ?_, ?_, ?_⟩
  · rw [run_of_stepsN c (k1 + k2) k3 σ σ2 hst12]; exact hrun3
  · -- the machine's memory keeps its shape, so the frame is where it was
    have hshape := entry_stepsN_shape c _ σ σ2 hst12
    obtain ⟨f0, l0, hx0, hb0, -⟩ := entry_memrel_split _ _ he.entry.mem
    obtain ⟨f2, l2, hx2, hb2, -⟩ := entry_memrel_split _ _ hmem2
    rw [hx0, hx2] at hshape
    simp only [List.map_cons, List.cons.injEq, entry_shape, Prod.mk.injEq] at hshape
    have hbase : s'.mem.stack.base = m.stack.base := by rw [← hb2, ← hb0]; exact hshape.1.1
    rw [hrsp3, hbase]
    have := he.entry.rsp
    change (σ.get 4).toNat = _ at this
    change _ = (σ.get 4).toNat + 8
    omega
  · have h2 : σ2.log.map (·.2) = s'.log.map (·.2) := hlog2
    rw [hlog3]; exact h2
  · rw [hmis3, hmis2, hmis1]

end Rbpf.JitSim
