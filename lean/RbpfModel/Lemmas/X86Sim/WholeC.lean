/-
  Whole programs with helper calls: `Whole.lean` over `jitRunC` (helper calls clobber r1 … r5), carrying the helper-log
  relation and the alignment of the stack at every external call.
-/
import RbpfModel.Lemmas.X86Sim.Whole
import RbpfModel.Lemmas.X86Sim.Call
import RbpfModel.Lemmas.X86Sim.WholeCAux
namespace Rbpf.JitSim
open Rbpf.X86 (Cfg St Out Instr step exec decode fetch readMem writeMem)
open Rbpf.JitAst (AI Tgt checkSeq window)

/-- every instruction is in a covered class, is `exit`, or is a helper call -/
def CoveredC (p : Bytes) : Prop :=
  ∀ x ∈ starts p, x.2.opc.toNat ∈ coveredOpcodes ∨ x.2.opc.toNat = 0x95 ∨ (x.2.opc = 0x85 ∧ x.2.src = 0)

theorem armSimC_covered (clob : Nat → Nat → BitVec 64) (i : Insn)
    (h : i.opc.toNat ∈ coveredOpcodes ∨ (i.opc = 0x85 ∧ i.src = 0)) : ArmSimC clob i := by
  rcases h with h | h
  · apply armSimC_of_armSim clob i (armSim_covered i h)
    intro hh
    have e := (whole_opc_eq i.opc 0x85 (by decide)).mp hh.1
    rw [e] at h
    revert h
    decide
  · exact armSimC_call clob i h

/-- `Rel` plus: the helper logs agree, and the eBPF stack is 16-byte aligned -/
structure RelC (c : Cfg) (p : Bytes) (L : JitAst.Layout) (retAddr : Nat) (top : List (BitVec 8)) (σ : St) (s : State) : Prop where
  rel : Rel c p L retAddr top σ s
  log : LogRel σ s
  align : s.mem.stack.base % 16 = 0

/-- `RelC` is `wholec_Rel` of `WholeCAux.lean` (where the proofs are, with the per-instruction lemmas as a hypothesis) -/
theorem wholec_rel_iff (c : Cfg) (p : Bytes) (L : JitAst.Layout) (retAddr : Nat) (top : List (BitVec 8)) (σ : St) (s : State) :
    RelC c p L retAddr top σ s ↔ wholec_Rel c p L retAddr top σ s :=
  ⟨fun h => ⟨(whole_rel_iff ..).mp h.rel, h.log, h.align⟩, fun h => ⟨(whole_rel_iff ..).mpr h.rel, h.log, h.align⟩⟩

theorem jit_step_simC (env : Env) (haddr : Nat → Option Nat) (um ud : Bool) (c : Cfg) (L : JitAst.Layout) (retAddr : Nat)
    (top : List (BitVec 8)) (σ : St) (s s' : State)
    (hv : JitAst.validate env.prog haddr um ud c.code L = true) (hcov : CoveredC env.prog) (hext : ExtOk c env haddr)
    (hsize : c.codeBase + c.code.size < 2 ^ 63)
    (hrel : RelC c env.prog L retAddr top σ s) (hstep : jitStepC c.clobber env s = .next s')
    (hin : ∃ i, (s'.pc, i) ∈ starts env.prog) :
    ∃ k σ', stepsN c k σ = some σ' ∧ RelC c env.prog L retAddr top σ' s' ∧ σ'.misaligned = σ.misaligned := by
  obtain ⟨k, σ', hk, hmis, h⟩ := wholec_step_sim armSimC_covered env haddr um ud c L retAddr top σ s s' hv hcov hext hsize
    ((wholec_rel_iff ..).mp hrel) hstep
  obtain ⟨j, hj⟩ := hin
  have hsome : (getInsn? env.prog s'.pc).isSome := by rw [(whole_starts_mem env.prog s'.pc j hj).1]; rfl
  exact ⟨k, σ', hk, (wholec_rel_iff ..).mpr (h hsome), hmis⟩

/-- runs with helper calls: as `jit_run_sim`, and in addition the machine made the same helper calls with the same
    arguments in the same order, none of them with a misaligned stack -/
theorem jit_run_simC (env : Env) (haddr : Nat → Option Nat) (um ud : Bool) (c : Cfg) (L : JitAst.Layout) (retAddr : Nat)
    (top : List (BitVec 8)) (fuel : Nat) (σ : St) (s s' : State) (r0 : BitVec 64)
    (hv : JitAst.validate env.prog haddr um ud c.code L = true) (hcov : CoveredC env.prog) (hext : ExtOk c env haddr)
    (hsize : c.codeBase + c.code.size < 2 ^ 63)
    (hret : BitVec.ofNat 64 retAddr ≠ c.retSentinel) (hretlt : retAddr < 2 ^ 64)
    (hrel : RelC c env.prog L retAddr top σ s)
    (hrun : jitRunC c.clobber env s fuel = .done r0 s') :
    ∃ k σ', stepsN c k σ = some σ' ∧ σ'.rip = retAddr ∧ σ'.get 0 = r0 ∧ MemRel σ'.mem s'.mem ∧
      (σ'.get X86.RSP).toNat = s'.mem.stack.base ∧ topBytes σ' s' = some top ∧
      LogRel σ' s' ∧ σ'.misaligned = σ.misaligned :=
  wholec_run_sim armSimC_covered env haddr um ud c L retAddr top fuel σ s s' r0 hv hcov hext hsize hret hretlt
    ((wholec_rel_iff ..).mp hrel) hrun

end Rbpf.JitSim
