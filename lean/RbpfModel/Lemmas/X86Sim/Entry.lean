/-
  x86-64 simulation, from call to return: the prologue takes the machine from the state in which
  `execute_program_jit` calls the code (System V arguments) to a state related to the eBPF entry state; the main
  simulation (`jit_run_sim`) follows the run; the landing pad and the epilogue restore the caller's registers and
  return r0.  VM kinds covered: the caller's metadata buffer (`use_mbuff`, no data-pointer update: `EbpfVmMbuff`)
  and no metadata (`EbpfVmRaw`, `EbpfVmNoData`).
-/
import RbpfModel.Lemmas.X86Sim.Whole
import RbpfModel.Lemmas.X86Sim.EntryPro
namespace Rbpf.JitSim
open Rbpf.X86 (Cfg St Out Instr step exec decode fetch readMem writeMem)
open Rbpf.JitAst (AI Tgt checkSeq window)

-- `Entry`, `entryState`, `savedBytes`, `LandingPad` are defined in `EntryCore.lean` (so that the prologue and the
-- epilogue can be proved without importing the per-class lemmas); the proofs are in `EntryPro.lean`.

/-- r1 and r10 of `entryState` are those of the interpreter's initial state (for memories as the VM kinds build them:
    an empty packet has the null base, and without `use_mbuff` there is no metadata buffer) -/
theorem entryState_r1_r10 (c : Cfg) (m : Memory) (σ : St) (um : Bool) (he : Entry c m σ)
    (hpkt : m.mem.bytes.size = 0 → m.mem.base = 0) (hum : um = false → m.mbuff.bytes.size = 0) :
    (entryState m σ um).reg[1]? = (Interp.init m).reg[1]? ∧ (entryState m σ um).reg[10]? = (Interp.init m).reg[10]? :=
  entry_entryState_r1_r10 c m σ um he hpkt hum

/-- `stepsN` then `run` -/
theorem run_of_stepsN (c : Cfg) (k j : Nat) (σ σ1 : St) (h : stepsN c k σ = some σ1) : X86.run c σ (k + j) = X86.run c σ1 j :=
  entry_run_of_stepsN c k j σ σ1 h

/-- the prologue: from the entry state the machine reaches the arm of instruction 0 in a state related to
    `entryState`, the return address of the landing pad (`jmp exit`, 5 bytes before the first arm… wherever `validate`
    found it) in the slot below the eBPF stack; `top` = the five pushed registers and the caller's return address -/
theorem jit_prologue_sim (env : Env) (haddr : Nat → Option Nat) (um : Bool) (c : Cfg) (L : JitAst.Layout) (m : Memory) (σ : St)
    (hv : JitAst.validate env.prog haddr um false c.code L = true)
    (hsize : c.codeBase + c.code.size < 2 ^ 63) (hne : 0 < env.prog.size / 8) (h0 : ∃ i, (0, i) ∈ starts env.prog)
    (he : Entry c m σ) :
    ∃ k σ' retAddr top, stepsN c k σ = some σ' ∧ Rel c env.prog L retAddr top σ' (entryState m σ um) ∧
      LandingPad c L retAddr ∧ (∃ pad, top = savedBytes c σ ++ pad) := by
  obtain ⟨tgt, hexit, hcs, -, hloc, -, hst0⟩ := entry_validate _ _ _ _ _ _ hv
  rw [if_pos (by omega)] at hcs
  obtain ⟨i0, hi0⟩ := h0
  obtain ⟨l, hl0⟩ := hst0 0 i0 hi0
  rw [hl0] at hcs
  obtain ⟨k, σ', retAddr, top, hst, hrel0, htop, hrip, hpad, hsaved, -⟩ :=
    entry_prologue um c L m σ tgt l hexit hcs (hloc 0 l hl0) hsize he
  exact ⟨k, σ', retAddr, top, hst, ⟨hrel0, htop, ⟨i0, hi0⟩, ⟨l, hl0, hrip⟩, rfl⟩, hpad, hsaved⟩

/-- landing pad and epilogue: from the state `jit_run_sim` ends in, the machine returns to the caller with rax = r0,
    the callee-saved registers restored, rsp popped -/
theorem jit_epilogue_sim (env : Env) (haddr : Nat → Option Nat) (um : Bool) (c : Cfg) (L : JitAst.Layout) (σ0 σ : St) (s' : State)
    (retAddr : Nat) (top : List (BitVec 8)) (r0 : BitVec 64)
    (hv : JitAst.validate env.prog haddr um false c.code L = true)
    (hsize : c.codeBase + c.code.size < 2 ^ 63)
    (hpad : LandingPad c L retAddr) (htop : ∃ pad, top = savedBytes c σ0 ++ pad)
    (hrip : σ.rip = retAddr) (hrax : σ.get 0 = r0) (hmem : MemRel σ.mem s'.mem)
    (hrsp : (σ.get X86.RSP).toNat = s'.mem.stack.base) (htb : topBytes σ s' = some top) :
    ∃ k σ', X86.run c σ k = .done r0 σ' ∧ σ'.mem = σ.mem ∧
      σ'.get 3 = σ0.get 3 ∧ σ'.get 5 = σ0.get 5 ∧ σ'.get 13 = σ0.get 13 ∧ σ'.get 14 = σ0.get 14 ∧ σ'.get 15 = σ0.get 15 ∧
      (σ'.get X86.RSP).toNat = s'.mem.stack.base + 560 := by
  obtain ⟨k, σ', h1, h2, h3, h4, h5, h6, h7, h8, -⟩ :=
    entry_epilogue_sim env haddr um false c L σ0 σ s' retAddr top r0 hv hsize hpad htop hrip hrax hmem hrsp htb
  exact ⟨k, σ', h1, h2, h3, h4, h5, h6, h7, h8⟩

/-- **From call to return.**  For a program all of whose instructions are covered (no calls), a code buffer that
    passes `validate`, entered under the calling convention, returns — as a machine run — the value every returning
    run of the register-transfer semantics from `entryState` returns, leaves the eBPF-visible memory as that run
    leaves it, and restores the caller's callee-saved registers and stack pointer. -/
theorem jit_call_to_return (env : Env) (haddr : Nat → Option Nat) (um : Bool) (c : Cfg) (L : JitAst.Layout) (m : Memory) (σ : St)
    (fuel : Nat) (r0 : BitVec 64) (s' : State)
    (hv : JitAst.validate env.prog haddr um false c.code L = true) (hcov : Covered env.prog)
    (hsize : c.codeBase + c.code.size < 2 ^ 63)
    (hsent : c.retSentinel.toNat < c.codeBase ∨ c.codeBase + c.code.size ≤ c.retSentinel.toNat)
    (he : Entry c m σ)
    (hrun : EngineSem.jitRun env (entryState m σ um) fuel = .done r0 s') :
    ∃ k σ', X86.run c σ k = .done r0 σ' ∧ MemRel σ'.mem s'.mem ∧
      σ'.get 3 = σ.get 3 ∧ σ'.get 5 = σ.get 5 ∧ σ'.get 13 = σ.get 13 ∧ σ'.get 14 = σ.get 14 ∧ σ'.get 15 = σ.get 15 ∧
      (σ'.get X86.RSP).toNat = (σ.get X86.RSP).toNat + 8 := by
  -- the run makes at least one step, from an instruction that exists
  obtain ⟨hne, h0⟩ : 0 < env.prog.size / 8 ∧ ∃ i, (0, i) ∈ starts env.prog := by
    cases fuel with
    | zero => simp [EngineSem.jitRun] at hrun
    | succ f =>
      simp only [EngineSem.jitRun] at hrun
      unfold EngineSem.jitStep at hrun
      rw [entry_entryState_pc] at hrun
      by_cases hlt : 0 * 8 < env.prog.size
      · rw [if_pos hlt] at hrun
        cases hg : getInsn? env.prog 0 with
        | none => simp [hg] at hrun
        | some i =>
          have h8 : (0 + 1) * 8 ≤ env.prog.size := by
            unfold getInsn? at hg
            split at hg
            · simp at hg
            · omega
          refine ⟨by omega, i, ?_⟩
          unfold starts
          simp only [JitAst.sweep, hlt, if_true, hg]
          exact List.mem_cons_self
      · rw [if_neg hlt] at hrun
        simp at hrun
  obtain ⟨k1, σ1, retAddr, top, hst1, hrel, hpad, hsaved⟩ := jit_prologue_sim env haddr um c L m σ hv hsize hne h0 he
  have hpad' := hpad
  obtain ⟨hp1, hp2, -⟩ := hpad'
  have hretlt : retAddr < 2 ^ 64 := by omega
  have hret : BitVec.ofNat 64 retAddr ≠ c.retSentinel := by
    intro h
    have := congrArg BitVec.toNat h
    rw [BitVec.toNat_ofNat] at this
    omega
  obtain ⟨k2, σ2, hst2, hrip2, hrax2, hmem2, hrsp2, htb2⟩ :=
    jit_run_sim env haddr um false c L retAddr top fuel σ1 (entryState m σ um) s' r0 hv hcov hsize hret hretlt hrel hrun
  obtain ⟨k3, σ3, hrun3, hmem3, g3, g5, g13, g14, g15, hrsp3⟩ :=
    jit_epilogue_sim env haddr um c L σ σ2 s' retAddr top r0 hv hsize hpad hsaved hrip2 hrax2 hmem2 hrsp2 htb2
  have hst12 := stepsN_add c k1 k2 σ σ1 σ2 hst1 hst2
  refine ⟨k1 + k2 + k3, σ3, ?_, by rw [hmem3]; exact hmem2, g3, g5, g13, g14, g15, ?_⟩
  · rw [run_of_stepsN c (k1 + k2) k3 σ σ2 hst12]; exact hrun3
  · -- the machine's memory keeps its shape, so the frame is where it was
    have hshape := entry_stepsN_shape c _ σ σ2 hst12
    obtain ⟨f0, l0, hx0, hb0, -⟩ := entry_memrel_split _ _ he.mem
    obtain ⟨f2, l2, hx2, hb2, -⟩ := entry_memrel_split _ _ hmem2
    rw [hx0, hx2] at hshape
    simp only [List.map_cons, List.cons.injEq, entry_shape, Prod.mk.injEq] at hshape
    have hbase : s'.mem.stack.base = m.stack.base := by rw [← hb2, ← hb0]; exact hshape.1.1
    rw [hrsp3, hbase]
    have := he.rsp
    change (σ.get 4).toNat = _ at this
    change _ = (σ.get 4).toNat + 8
    omega

end Rbpf.JitSim
