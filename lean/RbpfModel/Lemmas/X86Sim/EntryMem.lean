/-
  Prologue / epilogue simulation, part 1: byte-level facts (`leBytes`, `leValue`), reading and writing the first and
  the last region of the machine's memory, the shape of the memory (bases and sizes) under machine steps.
  Independent of the per-class lemmas.
-/
import RbpfModel.Lemmas.X86Sim.Base
namespace Rbpf.JitSim
open Rbpf.X86 (Cfg St Out Instr step exec decode fetch readMem writeMem)
open Rbpf.JitAst (AI Tgt checkSeq window)

-- bytes ------------------------------------------------------------------------------------------------------------

@[simp] theorem entry_leBytes_length (v w : Nat) : (leBytes v w).length = w := by
  induction w generalizing v with
  | zero => rfl
  | succ w ih => simp [leBytes, ih]

theorem entry_leValue_leBytes (v w : Nat) : leValue (leBytes v w) = v % 256 ^ w := by
  induction w generalizing v with
  | zero => simp [leBytes, leValue, Nat.mod_one]
  | succ w ih =>
    simp only [leBytes, leValue, ih, BitVec.toNat_ofNat, Nat.reducePow]
    rw [Nat.pow_succ', Nat.mod_mul]

theorem entry_leValue_leBytes8 (v : BitVec 64) : BitVec.ofNat 64 (leValue (leBytes v.toNat 8)) = v := by
  rw [entry_leValue_leBytes]
  apply BitVec.eq_of_toNat_eq
  have := v.isLt
  simp only [BitVec.toNat_ofNat]
  omega

-- one region -------------------------------------------------------------------------------------------------------

/-- the bytes `readMem` returns when region `r` serves the access -/
def entry_rd (r : Region) (a w : Nat) : List (BitVec 8) := (List.range w).map (fun k => r.bytes.getD (a - r.base + k) 0)

@[simp] theorem entry_rd_length (r : Region) (a w : Nat) : (entry_rd r a w).length = w := by
  simp [entry_rd]

theorem entry_rd_split (r : Region) (a w1 w2 : Nat) (h : r.base ≤ a) :
    entry_rd r a (w1 + w2) = entry_rd r a w1 ++ entry_rd r (a + w1) w2 := by
  apply List.ext_getElem
  · simp
  · intro i h1 h2
    simp only [entry_rd, List.getElem_map, List.getElem_range, List.getElem_append, List.length_map, List.length_range]
    split
    · rfl
    · congr 1
      omega

theorem entry_rd_congr (r r' : Region) (a w : Nat) (hb : r'.base = r.base)
    (h : ∀ k, a - r.base ≤ k → k < a - r.base + w → r'.bytes[k]? = r.bytes[k]?) : entry_rd r' a w = entry_rd r a w := by
  apply List.ext_getElem
  · simp
  · intro i h1 h2
    simp only [entry_rd_length] at h1
    simp only [entry_rd, List.getElem_map, List.getElem_range, Array.getD_eq_getD_getElem?, hb]
    rw [h _ (by omega) (by omega)]

private theorem entry_fold_get (bs : List (BitVec 8)) (off : Nat) (n : Nat) (arr : Array (BitVec 8)) (j : Nat) :
    ((List.range n).foldl (fun acc k => acc.setIfInBounds (off + k) (bs.getD k 0)) arr)[j]? =
      if off ≤ j ∧ j < off + n ∧ j < arr.size then some (bs.getD (j - off) 0) else arr[j]? := by
  induction n with
  | zero => simp; intro h1 h2; omega
  | succ n ih =>
    rw [List.range_succ, List.foldl_append]
    simp only [List.foldl_cons, List.foldl_nil]
    rw [Array.getElem?_setIfInBounds, ih]
    have hsz : ((List.range n).foldl (fun acc k => acc.setIfInBounds (off + k) (bs.getD k 0)) arr).size = arr.size := by
      clear ih
      induction n with
      | zero => rfl
      | succ n ih2 =>
        rw [List.range_succ, List.foldl_append]
        simp only [List.foldl_cons, List.foldl_nil, Array.size_setIfInBounds, ih2]
    rw [hsz]
    by_cases h1 : off + n = j
    · subst h1
      by_cases h2 : off + n < arr.size
      · simp [h2]
      · simp [h2]
    · rw [if_neg h1]
      by_cases h2 : off ≤ j ∧ j < off + n ∧ j < arr.size
      · rw [if_pos h2, if_pos (by omega)]
      · rw [if_neg h2, if_neg (by omega)]

theorem entry_wr_base (r : Region) (a : Nat) (bs : List (BitVec 8)) : (Memory.writeRegion r a bs).base = r.base := rfl

theorem entry_wr_get (r : Region) (a : Nat) (bs : List (BitVec 8)) (j : Nat) :
    (Memory.writeRegion r a bs).bytes[j]? =
      if a - r.base ≤ j ∧ j < a - r.base + bs.length ∧ j < r.bytes.size then some (bs.getD (j - (a - r.base)) 0)
      else r.bytes[j]? := by
  unfold Memory.writeRegion
  exact entry_fold_get bs (a - r.base) bs.length r.bytes j

theorem entry_wr_size (r : Region) (a : Nat) (bs : List (BitVec 8)) : (Memory.writeRegion r a bs).bytes.size = r.bytes.size := by
  unfold Memory.writeRegion
  simp only
  generalize bs.length = n
  induction n with
  | zero => rfl
  | succ n ih =>
    rw [List.range_succ, List.foldl_append]
    simp only [List.foldl_cons, List.foldl_nil, Array.size_setIfInBounds, ih]

/-- reading back what was written -/
theorem entry_rd_wr_same (r : Region) (a : Nat) (bs : List (BitVec 8)) (h : r.contains a bs.length = true) :
    entry_rd (Memory.writeRegion r a bs) a bs.length = bs := by
  simp only [Region.contains, Bool.and_eq_true, decide_eq_true_eq] at h
  apply List.ext_getElem
  · simp
  · intro i h1 h2
    simp only [entry_rd, List.getElem_map, List.getElem_range, Array.getD_eq_getD_getElem?, entry_wr_base, entry_wr_get]
    rw [if_pos (by omega)]
    simp [h2]

/-- reading a range the write did not touch -/
theorem entry_rd_wr_other (r : Region) (a : Nat) (bs : List (BitVec 8)) (a' w' : Nat) (hb : r.base ≤ a) (hb' : r.base ≤ a')
    (h : a' + w' ≤ a ∨ a + bs.length ≤ a') : entry_rd (Memory.writeRegion r a bs) a' w' = entry_rd r a' w' := by
  apply entry_rd_congr r (Memory.writeRegion r a bs) a' w' rfl
  intro k h1 h2
  rw [entry_wr_get, if_neg (by omega)]

-- the list of regions ------------------------------------------------------------------------------------------------

theorem entry_read_head (r : Region) (rest : List Region) (a w : Nat) (h : r.contains a w = true) :
    readMem (r :: rest) a w = some (entry_rd r a w) := by
  simp only [readMem, List.find?_cons, h, entry_rd]

theorem entry_write_head (r : Region) (rest : List Region) (a : Nat) (bs : List (BitVec 8)) (h : r.contains a bs.length = true) :
    writeMem (r :: rest) a bs = some (Memory.writeRegion r a bs :: rest) := by
  simp only [writeMem, Memory.writeExtra, h, if_true]

theorem entry_read_last (pre : List Region) (r : Region) (a w : Nat) (hpre : ∀ q ∈ pre, q.contains a w = false)
    (h : r.contains a w = true) : readMem (pre ++ [r]) a w = some (entry_rd r a w) := by
  have : (pre ++ [r]).find? (fun q => q.contains a w) = some r := by
    rw [List.find?_append, List.find?_eq_none.mpr (by intro q hq; simp [hpre q hq])]
    simp [h]
  simp only [readMem, this, entry_rd]

theorem entry_write_last (pre : List Region) (r : Region) (a : Nat) (bs : List (BitVec 8))
    (hpre : ∀ q ∈ pre, q.contains a bs.length = false) (h : r.contains a bs.length = true) :
    writeMem (pre ++ [r]) a bs = some (pre ++ [Memory.writeRegion r a bs]) := by
  unfold writeMem
  induction pre with
  | nil => simp [Memory.writeExtra, h]
  | cons q pre ih =>
    have hq : q.contains a bs.length = false := hpre q List.mem_cons_self
    simp only [List.cons_append, Memory.writeExtra, hq, Bool.false_eq_true, if_false]
    rw [ih (fun q' hq' => hpre q' (List.mem_cons_of_mem _ hq'))]
    rfl

-- shapes -------------------------------------------------------------------------------------------------------------

/-- base and size of a region: all that disjointness and bounds look at -/
def entry_shape (r : Region) : Nat × Nat := (r.base, r.bytes.size)

theorem entry_shape_wr (r : Region) (a : Nat) (bs : List (BitVec 8)) : entry_shape (Memory.writeRegion r a bs) = entry_shape r := by
  simp only [entry_shape, entry_wr_base, entry_wr_size]

theorem entry_shape_writeMem (m m' : List Region) (a : Nat) (bs : List (BitVec 8)) (h : writeMem m a bs = some m') :
    m'.map entry_shape = m.map entry_shape := by
  unfold writeMem at h
  induction m generalizing m' with
  | nil => simp [Memory.writeExtra] at h
  | cons r rest ih =>
    simp only [Memory.writeExtra] at h
    split at h
    · simp only [Option.some.injEq] at h
      subst h
      simp only [List.map_cons, entry_shape_wr]
    · cases hw : Memory.writeExtra rest a bs with
      | none => simp [hw] at h
      | some m2 =>
        simp only [hw, Option.map_some, Option.some.injEq] at h
        subst h
        simp only [List.map_cons, ih m2 hw]

def entry_dj (p q : Nat × Nat) : Prop := p.2 = 0 ∨ q.2 = 0 ∨ p.1 + p.2 ≤ q.1 ∨ q.1 + q.2 ≤ p.1

theorem entry_pairwise_shape (l : List Region) : l.Pairwise disjoint ↔ (l.map entry_shape).Pairwise entry_dj := by
  rw [List.pairwise_map]
  rfl

theorem entry_bound_shape (l : List Region) :
    (∀ r ∈ l, r.base + r.bytes.size < 2 ^ 64) ↔ (∀ p ∈ l.map entry_shape, p.1 + p.2 < 2 ^ 64) := by
  simp [entry_shape]

end Rbpf.JitSim
