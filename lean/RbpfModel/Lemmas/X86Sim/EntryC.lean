/-
  From call to return with helper calls: `Entry.lean` over `jitRunC`.
-/
import RbpfModel.Lemmas.X86Sim.Entry
import RbpfModel.Lemmas.X86Sim.WholeC
namespace Rbpf.JitSim
open Rbpf.X86 (Cfg St Out Instr step exec decode fetch readMem writeMem)
open Rbpf.JitAst (AI Tgt checkSeq window)

/-- the prologue makes no external call: `jit_prologue_sim` with the log and the misalignment counter unchanged -/
theorem jit_prologue_simL (env : Env) (haddr : Nat → Option Nat) (um : Bool) (c : Cfg) (L : JitAst.Layout) (m : Memory) (σ : St)
    (hv : JitAst.validate env.prog haddr um false c.code L = true)
    (hsize : c.codeBase + c.code.size < 2 ^ 63) (hne : 0 < env.prog.size / 8) (h0 : ∃ i, (0, i) ∈ starts env.prog)
    (he : Entry c m σ) :
    ∃ k σ' retAddr top, stepsN c k σ = some σ' ∧ Rel c env.prog L retAddr top σ' (entryState m σ um) ∧
      LandingPad c L retAddr ∧ (∃ pad, top = savedBytes c σ ++ pad) ∧ σ'.log = σ.log ∧ σ'.misaligned = σ.misaligned := by
  obtain ⟨tgt, hexit, hcs, -, hloc, -, hst0⟩ := entry_validate _ _ _ _ _ _ hv
  rw [if_pos (by omega)] at hcs
  obtain ⟨i0, hi0⟩ := h0
  obtain ⟨l, hl0⟩ := hst0 0 i0 hi0
  rw [hl0] at hcs
  obtain ⟨k, σ', retAddr, top, hst, hrel0, htop, hrip, hpad, hsaved, hlm⟩ :=
    entry_prologue um c L m σ tgt l hexit hcs (hloc 0 l hl0) hsize he
  exact ⟨k, σ', retAddr, top, hst, ⟨hrel0, htop, ⟨i0, hi0⟩, ⟨l, hl0, hrip⟩, rfl⟩, hpad, hsaved,
    congrArg Prod.fst hlm, congrArg Prod.snd hlm⟩

/-- landing pad and epilogue make no external call -/
theorem jit_epilogue_simL (env : Env) (haddr : Nat → Option Nat) (um : Bool) (c : Cfg) (L : JitAst.Layout) (σ0 σ : St) (s' : State)
    (retAddr : Nat) (top : List (BitVec 8)) (r0 : BitVec 64)
    (hv : JitAst.validate env.prog haddr um false c.code L = true)
    (hsize : c.codeBase + c.code.size < 2 ^ 63)
    (hpad : LandingPad c L retAddr) (htop : ∃ pad, top = savedBytes c σ0 ++ pad)
    (hrip : σ.rip = retAddr) (hrax : σ.get 0 = r0) (hmem : MemRel σ.mem s'.mem)
    (hrsp : (σ.get X86.RSP).toNat = s'.mem.stack.base) (htb : topBytes σ s' = some top) :
    ∃ k σ', X86.run c σ k = .done r0 σ' ∧ σ'.mem = σ.mem ∧
      σ'.get 3 = σ0.get 3 ∧ σ'.get 5 = σ0.get 5 ∧ σ'.get 13 = σ0.get 13 ∧ σ'.get 14 = σ0.get 14 ∧ σ'.get 15 = σ0.get 15 ∧
      (σ'.get X86.RSP).toNat = s'.mem.stack.base + 560 ∧ σ'.log = σ.log ∧ σ'.misaligned = σ.misaligned := by
  obtain ⟨k, σ', h1, h2, h3, h4, h5, h6, h7, h8, hlm⟩ :=
    entry_epilogue_sim env haddr um false c L σ0 σ s' retAddr top r0 hv hsize hpad htop hrip hrax hmem hrsp htb
  exact ⟨k, σ', h1, h2, h3, h4, h5, h6, h7, h8, congrArg Prod.fst hlm, congrArg Prod.snd hlm⟩

/-- **From call to return, with helper calls.**  As `jit_call_to_return`, for programs that may call helpers
    (`CoveredC`), over the register-transfer semantics in which a helper call leaves r1 … r5 holding what the machine's
    caller-saved registers hold (`jitRunC c.clobber`).  In addition: the machine called the same helpers with the same
    five arguments in the same order as that run, and — the caller having entered with rsp + 8 a multiple of 16, as
    the System V ABI prescribes — entered every one of them with rsp a multiple of 16. -/
theorem jit_call_to_returnC (env : Env) (haddr : Nat → Option Nat) (um : Bool) (c : Cfg) (L : JitAst.Layout) (m : Memory) (σ : St)
    (fuel : Nat) (r0 : BitVec 64) (s' : State)
    (hv : JitAst.validate env.prog haddr um false c.code L = true) (hcov : CoveredC env.prog) (hext : ExtOk c env haddr)
    (hsize : c.codeBase + c.code.size < 2 ^ 63)
    (hsent : c.retSentinel.toNat < c.codeBase ∨ c.codeBase + c.code.size ≤ c.retSentinel.toNat)
    (he : Entry c m σ) (hlog : σ.log = []) (halign : m.stack.base % 16 = 0)
    (hrun : jitRunC c.clobber env (entryState m σ um) fuel = .done r0 s') :
    ∃ k σ', X86.run c σ k = .done r0 σ' ∧ MemRel σ'.mem s'.mem ∧
      σ'.get 3 = σ.get 3 ∧ σ'.get 5 = σ.get 5 ∧ σ'.get 13 = σ.get 13 ∧ σ'.get 14 = σ.get 14 ∧ σ'.get 15 = σ.get 15 ∧
      (σ'.get X86.RSP).toNat = (σ.get X86.RSP).toNat + 8 ∧
      σ'.log.map (·.2) = s'.log.map (·.2) ∧ σ'.misaligned = σ.misaligned := by
  -- the run makes at least one step, from an instruction that exists
  obtain ⟨hne, h0⟩ : 0 < env.prog.size / 8 ∧ ∃ i, (0, i) ∈ starts env.prog := by
    cases fuel with
    | zero => simp [jitRunC] at hrun
    | succ f =>
      simp only [jitRunC] at hrun
      unfold jitStepC at hrun
      rw [entry_entryState_pc] at hrun
      by_cases hlt : 0 * 8 < env.prog.size
      · rw [if_pos hlt] at hrun
        cases hg : getInsn? env.prog 0 with
        | none => simp [hg] at hrun
        | some i =>
          have h8 : (0 + 1) * 8 ≤ env.prog.size := by
            unfold getInsn? at hg
            split at hg
            · simp at hg
            · omega
          refine ⟨by omega, i, ?_⟩
          unfold starts
          simp only [JitAst.sweep, hlt, if_true, hg]
          exact List.mem_cons_self
      · rw [if_neg hlt] at hrun
        simp at hrun
  obtain ⟨k1, σ1, retAddr, top, hst1, hrel, hpad, hsaved, hlog1, hmis1⟩ :=
    jit_prologue_simL env haddr um c L m σ hv hsize hne h0 he
  have hpad' := hpad
  obtain ⟨hp1, hp2, -⟩ := hpad'
  have hretlt : retAddr < 2 ^ 64 := by omega
  have hret : BitVec.ofNat 64 retAddr ≠ c.retSentinel := by
    intro h
    have := congrArg BitVec.toNat h
    rw [BitVec.toNat_ofNat] at this
    omega
  have hrelC : RelC c env.prog L retAddr top σ1 (entryState m σ um) := by
    refine ⟨hrel, ?_, ?_⟩
    · unfold LogRel
      rw [hlog1, hlog]
      rfl
    · rw [entry_entryState_mem]; exact halign
  obtain ⟨k2, σ2, hst2, hrip2, hrax2, hmem2, hrsp2, htb2, hlog2, hmis2⟩ :=
    jit_run_simC env haddr um false c L retAddr top fuel σ1 (entryState m σ um) s' r0 hv hcov hext hsize hret hretlt hrelC hrun
  obtain ⟨k3, σ3, hrun3, hmem3, g3, g5, g13, g14, g15, hrsp3, hlog3, hmis3⟩ :=
    jit_epilogue_simL env haddr um c L σ σ2 s' retAddr top r0 hv hsize hpad hsaved hrip2 hrax2 hmem2 hrsp2 htb2
  have hst12 := stepsN_add c k1 k2 σ σ1 σ2 hst1 hst2
  refine ⟨k1 + k2 + k3, σ3, ?_, by rw [hmem3]; exact hmem2, g3, g5, g13, g14, g15, ?_, ?_, ?_⟩
  · rw [run_of_stepsN c (k1 + k2) k3 σ σ2 hst12]; exact hrun3
  · -- the machine's memory keeps its shape, so the frame is where it was
    have hshape := entry_stepsN_shape c _ σ σ2 hst12
    obtain ⟨f0, l0, hx0, hb0, -⟩ := entry_memrel_split _ _ he.mem
    obtain ⟨f2, l2, hx2, hb2, -⟩ := entry_memrel_split _ _ hmem2
    rw [hx0, hx2] at hshape
    simp only [List.map_cons, List.cons.injEq, entry_shape, Prod.mk.injEq] at hshape
    have hbase : s'.mem.stack.base = m.stack.base := by rw [← hb2, ← hb0]; exact hshape.1.1
    rw [hrsp3, hbase]
    have := he.rsp
    change (σ.get 4).toNat = _ at this
    change _ = (σ.get 4).toNat + 8
    omega
  · rw [hlog3]; exact hlog2
  · rw [hmis3, hmis2, hmis1]

end Rbpf.JitSim
