/-
  Shared infrastructure of the x86-64 simulation proofs: composing machine steps, reading one instruction off a
  validated code buffer, executing it.
-/
import RbpfModel.Model.JitSim
namespace Rbpf.JitSim
open Rbpf.X86 (Cfg St Out Instr step exec decode fetch readMem writeMem)
open Rbpf.JitAst (AI Tgt checkSeq window)

theorem stepsN_add (c : Cfg) (m n : Nat) (σ σ1 σ2 : St) (h1 : stepsN c m σ = some σ1) (h2 : stepsN c n σ1 = some σ2) :
    stepsN c (m + n) σ = some σ2 := by
  induction m generalizing σ with
  | zero =>
    simp only [stepsN, Option.some.injEq] at h1
    subst h1
    simpa using h2
  | succ m ih =>
    rw [Nat.add_right_comm]
    simp only [stepsN] at h1 ⊢
    split at h1
    · next s' hs => exact ih _ h1
    · simp at h1

theorem stepsN_one (c : Cfg) (σ σ' : St) (h : step c σ = .next σ') : stepsN c 1 σ = some σ' := by
  simp only [stepsN, h]

/-- the machine's fetch at `codeBase + a` is the checker's window at offset `a` -/
theorem fetch_eq_window (c : Cfg) (a : Nat) : fetch c (c.codeBase + a) = window c.code a := by
  unfold fetch window
  rw [if_neg (by omega)]
  simp only [Nat.add_sub_cancel_left]

/-- one machine step at a place where the code decodes to `x` (length `n`) -/
theorem step_at (c : Cfg) (σ : St) (a n : Nat) (x : Instr) (hrip : σ.rip = c.codeBase + a)
    (hdec : decode (window c.code a) = some (x, n)) : step c σ = exec c σ x (c.codeBase + a + n) := by
  unfold step
  rw [hrip, fetch_eq_window, hdec]

@[simp] theorem checkSeq_nil (code : Array UInt8) (tgt : Tgt → Option Nat) (a : Nat) : checkSeq code tgt a [] = some a := by
  simp only [checkSeq]

theorem checkSeq_i (code : Array UInt8) (tgt : Tgt → Option Nat) (a b : Nat) (x : Instr) (rest : List AI)
    (h : checkSeq code tgt a (.i x :: rest) = some b) :
    ∃ n, decode (window code a) = some (x, n) ∧ checkSeq code tgt (a + n) rest = some b := by
  simp only [checkSeq] at h
  split at h
  · simp at h
  · next ins n hd =>
    split at h
    · next hg =>
      have : x = ins := by simpa using hg
      subst this
      exact ⟨n, hd, h⟩
    · simp at h

theorem checkSeq_jcc (code : Array UInt8) (tgt : Tgt → Option Nat) (a b : Nat) (cc : X86.Cc) (t : Tgt) (rest : List AI)
    (h : checkSeq code tgt a (.jcc cc t :: rest) = some b) :
    ∃ n rel l, decode (window code a) = some (.jcc cc rel, n) ∧ tgt t = some l ∧
      ((a + n : Nat) : Int) + rel.toInt = (l : Int) ∧ checkSeq code tgt (a + n) rest = some b := by
  simp only [checkSeq] at h
  cases hd : decode (window code a) with
  | none => simp [hd] at h
  | some p =>
    obtain ⟨ins, n⟩ := p
    rw [hd] at h
    cases ins <;> simp only [Bool.false_eq_true, if_false, reduceCtorEq] at h
    next cc' rel =>
      cases ht : tgt t with
      | none => simp [ht] at h
      | some l =>
        simp only [ht, Bool.and_eq_true, beq_iff_eq] at h
        split at h
        · next hc =>
          obtain ⟨hcc, hl⟩ := hc
          subst hcc
          exact ⟨n, rel, l, rfl, rfl, hl, h⟩
        · simp at h

theorem checkSeq_jmp (code : Array UInt8) (tgt : Tgt → Option Nat) (a b : Nat) (t : Tgt) (rest : List AI)
    (h : checkSeq code tgt a (.jmp t :: rest) = some b) :
    ∃ n rel l, decode (window code a) = some (.jmp rel, n) ∧ tgt t = some l ∧
      ((a + n : Nat) : Int) + rel.toInt = (l : Int) ∧ checkSeq code tgt (a + n) rest = some b := by
  simp only [checkSeq] at h
  cases hd : decode (window code a) with
  | none => simp [hd] at h
  | some p =>
    obtain ⟨ins, n⟩ := p
    rw [hd] at h
    cases ins <;> simp only [Bool.false_eq_true, if_false, reduceCtorEq] at h
    next rel =>
      cases ht : tgt t with
      | none => simp [ht] at h
      | some l =>
        simp only [ht, beq_iff_eq] at h
        split at h
        · next hl => exact ⟨n, rel, l, rfl, rfl, hl, h⟩
        · simp at h

theorem checkSeq_call (code : Array UInt8) (tgt : Tgt → Option Nat) (a b : Nat) (t : Tgt) (rest : List AI)
    (h : checkSeq code tgt a (.call t :: rest) = some b) :
    ∃ n rel l, decode (window code a) = some (.call rel, n) ∧ tgt t = some l ∧
      ((a + n : Nat) : Int) + rel.toInt = (l : Int) ∧ checkSeq code tgt (a + n) rest = some b := by
  simp only [checkSeq] at h
  cases hd : decode (window code a) with
  | none => simp [hd] at h
  | some p =>
    obtain ⟨ins, n⟩ := p
    rw [hd] at h
    cases ins <;> simp only [Bool.false_eq_true, if_false, reduceCtorEq] at h
    next rel =>
      cases ht : tgt t with
      | none => simp [ht] at h
      | some l =>
        simp only [ht, beq_iff_eq] at h
        split at h
        · next hl => exact ⟨n, rel, l, rfl, rfl, hl, h⟩
        · simp at h

private theorem ite_none_some {α : Type} {c : Prop} [Decidable c] {x : Option α} {b : α}
    (h : (if c then x else none) = some b) : x = some b := by
  split at h
  · exact h
  · simp at h

private theorem ite_none_some' {α : Type} {c : Prop} [Decidable c] {x : Option α} {b : α}
    (h : (if c then x else none) = some b) : c ∧ x = some b := by
  split at h
  · next hc => exact ⟨hc, h⟩
  · simp at h

/-- one element of the checked list consumes some (decoded) length -/
theorem checkSeq_cons (code : Array UInt8) (tgt : Tgt → Option Nat) (a b : Nat) (ai : AI) (rest : List AI)
    (h : checkSeq code tgt a (ai :: rest) = some b) : ∃ n, checkSeq code tgt (a + n) rest = some b := by
  simp only [checkSeq] at h
  cases hd : decode (window code a) with
  | none => simp [hd] at h
  | some p =>
    obtain ⟨ins, n⟩ := p
    rw [hd] at h
    exact ⟨n, ite_none_some h⟩

/-- the checker only moves forward -/
theorem checkSeq_le (code : Array UInt8) (tgt : Tgt → Option Nat) (a b : Nat) (ais : List AI)
    (h : checkSeq code tgt a ais = some b) : a ≤ b := by
  induction ais generalizing a with
  | nil => simp at h; omega
  | cons ai rest ih =>
    obtain ⟨n, hn⟩ := checkSeq_cons code tgt a b ai rest h
    have := ih _ hn
    omega

/-- a relative jump from the instruction ending at `codeBase + e` lands at `codeBase + l` when the checker's
    landing equation holds and the addresses stay below 2^63 -/
theorem relTarget_lands (base e l : Nat) (rel : BitVec 32) (h : (e : Int) + rel.toInt = (l : Int)) (hb : base + e < 2 ^ 63)
    : X86.relTarget (base + e) rel = base + l := by
  unfold X86.relTarget
  have h1 := BitVec.toInt_lt (x := rel)
  have h2 := BitVec.le_toInt (x := rel)
  have h3 : ((base + e : Nat) : Int) + rel.toInt = ((base + l : Nat) : Int) := by omega
  have h4 : ((base + l : Nat) : Int).emod (2 ^ 64) = ((base + l : Nat) : Int) :=
    Int.emod_eq_of_lt (by omega) (by omega)
  rw [h3, h4]
  exact Int.toNat_natCast _

-- registers ---------------------------------------------------------------------------------------------------

theorem regOf_lt (k : Nat) (h : k < 11) : regOf k < 16 := by
  have : ∀ k : Fin 11, regOf k < 16 := by decide
  exact this ⟨k, h⟩

theorem regOf_inj (k j : Nat) (hk : k < 11) (hj : j < 11) (h : regOf k = regOf j) : k = j := by
  have : ∀ k j : Fin 11, regOf k = regOf j → k = j := by decide
  exact congrArg Fin.val (this ⟨k, hk⟩ ⟨j, hj⟩ h)

/-- the mapped registers avoid rsp, the packet pointer r10 and the scratch registers rcx, r11 -/
theorem regOf_ne_special (k : Nat) (h : k < 11) : regOf k ≠ 4 ∧ regOf k ≠ 10 ∧ regOf k ≠ 11 ∧ regOf k ≠ 1 := by
  have : ∀ k : Fin 11, regOf k ≠ 4 ∧ regOf k ≠ 10 ∧ regOf k ≠ 11 ∧ regOf k ≠ 1 := by decide
  exact this ⟨k, h⟩

theorem mapRegister_eq (k : Nat) (h : k < 11) : JitEmit.mapRegister? k = some (regOf k) := by
  simp only [JitEmit.mapRegister?, if_pos h, regOf]

theorem mapRegister_none (k : Nat) (h : 11 ≤ k) : JitEmit.mapRegister? k = none := by
  simp only [JitEmit.mapRegister?, if_neg (Nat.not_lt.mpr h)]

theorem get_set_eq (σ : St) (r : Nat) (v : BitVec 64) (h : r < 16) : (σ.set r v).get r = v := by
  simp [St.get, St.set, Vector.getD, h]

theorem get_set_ne (σ : St) (r r' : Nat) (v : BitVec 64) (h : r ≠ r') : (σ.set r v).get r' = σ.get r' := by
  simp [St.get, St.set, Vector.getD, h]

/-- `Rel0` does not look at `rip`, the flags, the log or the misalignment counter -/
theorem rel0_congr (retAddr : Nat) (σ σ' : St) (s : State) (h : Rel0 retAddr σ s) (hr : σ'.reg = σ.reg) (hm : σ'.mem = σ.mem) :
    Rel0 retAddr σ' s := by
  obtain ⟨h1, h2, h3, h4, h5, h6⟩ := h
  constructor
  · intro k hk; simpa only [St.get, hr] using h1 k hk
  · rw [hm]; exact h2
  · simpa only [St.get, hr] using h3
  · simpa only [St.get, hr] using h4
  · simpa only [St.get, hr, hm] using h5
  · simpa only [St.get, hr, hm] using h6

/-- writing eBPF register `d` on both sides -/
theorem rel0_wr (retAddr : Nat) (σ : St) (s : State) (d : Nat) (v : BitVec 64) (hd : d < 11) (h : Rel0 retAddr σ s) :
    Rel0 retAddr (σ.set (regOf d) v) { s with reg := s.reg.setIfInBounds d v } := by
  obtain ⟨h1, h2, h3, h4, h5, h6⟩ := h
  obtain ⟨n4, n10, -, -⟩ := regOf_ne_special d hd
  have e4 : (σ.set (regOf d) v).get X86.RSP = σ.get X86.RSP := get_set_ne σ _ _ v n4
  constructor
  · intro k hk
    by_cases hkd : k = d
    · subst hkd
      rw [get_set_eq σ _ v (regOf_lt k hk)]
      simp [Vector.getD, hk]
    · have : regOf d ≠ regOf k := fun e => hkd (regOf_inj d k hd hk e).symm
      rw [get_set_ne σ _ _ v this, h1 k hk]
      simp [Vector.getD, hk, Ne.symm hkd]
  · exact h2
  · rw [get_set_ne σ _ _ v n10]; exact h3
  · rw [e4]; exact h4
  · rw [e4]; exact h5
  · rw [e4]; exact h6

/-- writing a scratch register (rcx or r11) on the machine side only -/
theorem rel0_scratch (retAddr : Nat) (σ : St) (s : State) (r : Nat) (v : BitVec 64) (hr : r = 1 ∨ r = 11) (h : Rel0 retAddr σ s) :
    Rel0 retAddr (σ.set r v) s := by
  obtain ⟨h1, h2, h3, h4, h5, h6⟩ := h
  have n4 : r ≠ X86.RSP := by unfold X86.RSP; omega
  have e4 : (σ.set r v).get X86.RSP = σ.get X86.RSP := get_set_ne σ _ _ v n4
  constructor
  · intro k hk
    obtain ⟨-, -, n11, n1⟩ := regOf_ne_special k hk
    have : r ≠ regOf k := by omega
    rw [get_set_ne σ _ _ v this]; exact h1 k hk
  · exact h2
  · rw [get_set_ne σ _ _ v (by omega)]; exact h3
  · rw [e4]; exact h4
  · rw [e4]; exact h5
  · rw [e4]; exact h6

/-- the program counter of the eBPF state is not part of `Rel0` -/
theorem rel0_pc (retAddr : Nat) (σ : St) (s : State) (pc : Nat) (h : Rel0 retAddr σ s) : Rel0 retAddr σ { s with pc := pc } := by
  obtain ⟨h1, h2, h3, h4, h5, h6⟩ := h
  exact ⟨h1, h2, h3, h4, h5, h6⟩

-- further generally useful facts --------------------------------------------------------------------------------

@[simp] theorem stepsN_zero (c : Cfg) (σ : St) : stepsN c 0 σ = some σ := rfl

/-- one step followed by `n` steps -/
theorem stepsN_succ (c : Cfg) (n : Nat) (σ σ1 σ2 : St) (h1 : step c σ = .next σ1) (h2 : stepsN c n σ1 = some σ2) :
    stepsN c (n + 1) σ = some σ2 := by
  simp only [stepsN, h1, h2]

theorem stepsN_two (c : Cfg) (σ σ1 σ2 : St) (h1 : step c σ = .next σ1) (h2 : step c σ1 = .next σ2) :
    stepsN c 2 σ = some σ2 :=
  stepsN_succ c 1 σ σ1 σ2 h1 (stepsN_one c σ1 σ2 h2)

theorem stepsN_three (c : Cfg) (σ σ1 σ2 σ3 : St) (h1 : step c σ = .next σ1) (h2 : step c σ1 = .next σ2)
    (h3 : step c σ2 = .next σ3) : stepsN c 3 σ = some σ3 :=
  stepsN_succ c 2 σ σ1 σ3 h1 (stepsN_two c σ1 σ2 σ3 h2 h3)

/-- `step_at` and `stepsN_one` in one: the instruction at `rip` executes to `σ'` -/
theorem stepsN_one_at (c : Cfg) (σ σ' : St) (a n : Nat) (x : Instr) (hrip : σ.rip = c.codeBase + a)
    (hdec : decode (window c.code a) = some (x, n)) (hx : exec c σ x (c.codeBase + a + n) = .next σ') :
    stepsN c 1 σ = some σ' :=
  stepsN_one c σ σ' (by rw [step_at c σ a n x hrip hdec, hx])

/-- the instruction at `rip` executes to `σ1`, then `k` more steps -/
theorem stepsN_succ_at (c : Cfg) (k : Nat) (σ σ1 σ2 : St) (a n : Nat) (x : Instr) (hrip : σ.rip = c.codeBase + a)
    (hdec : decode (window c.code a) = some (x, n)) (hx : exec c σ x (c.codeBase + a + n) = .next σ1)
    (hk : stepsN c k σ1 = some σ2) : stepsN c (k + 1) σ = some σ2 :=
  stepsN_succ c k σ σ1 σ2 (by rw [step_at c σ a n x hrip hdec, hx]) hk

/-- checking a concatenation is checking the parts one after the other -/
theorem checkSeq_append (code : Array UInt8) (tgt : Tgt → Option Nat) (a b : Nat) (l1 l2 : List AI)
    (h : checkSeq code tgt a (l1 ++ l2) = some b) :
    ∃ m, checkSeq code tgt a l1 = some m ∧ checkSeq code tgt m l2 = some b := by
  induction l1 generalizing a with
  | nil => exact ⟨a, by simp, by simpa using h⟩
  | cons ai rest ih =>
    simp only [List.cons_append, checkSeq] at h ⊢
    cases hd : decode (window code a) with
    | none => simp [hd] at h
    | some p =>
      obtain ⟨ins, n⟩ := p
      rw [hd] at h
      obtain ⟨hg, h'⟩ := ite_none_some' h
      obtain ⟨m, hm1, hm2⟩ := ih _ h'
      exact ⟨m, (if_pos hg).trans hm1, hm2⟩

@[simp] theorem set_rip (σ : St) (r : Nat) (v : BitVec 64) : (σ.set r v).rip = σ.rip := rfl
@[simp] theorem set_mem (σ : St) (r : Nat) (v : BitVec 64) : (σ.set r v).mem = σ.mem := rfl
@[simp] theorem set_flags (σ : St) (r : Nat) (v : BitVec 64) : (σ.set r v).flags = σ.flags := rfl
@[simp] theorem set_log (σ : St) (r : Nat) (v : BitVec 64) : (σ.set r v).log = σ.log := rfl
@[simp] theorem set_misaligned (σ : St) (r : Nat) (v : BitVec 64) : (σ.set r v).misaligned = σ.misaligned := rfl

/-- `get` only looks at the register file -/
theorem get_congr (σ σ' : St) (r : Nat) (h : σ'.reg = σ.reg) : σ'.get r = σ.get r := by
  simp only [St.get, h]

/-- reading any register after a write -/
theorem get_set (σ : St) (r r' : Nat) (v : BitVec 64) :
    (σ.set r v).get r' = if r = r' ∧ r < 16 then v else σ.get r' := by
  by_cases h : r = r'
  · subst h
    by_cases h16 : r < 16
    · rw [get_set_eq σ r v h16, if_pos ⟨rfl, h16⟩]
    · rw [if_neg (fun hh => h16 hh.2)]
      simp [St.get, St.set, Vector.getD, h16]
  · rw [get_set_ne σ r r' v h, if_neg (fun hh => h hh.1)]

/-- the register map, entry by entry (`REGISTER_MAP`) -/
theorem regOf_vals : regOf 0 = 0 ∧ regOf 1 = 7 ∧ regOf 2 = 6 ∧ regOf 3 = 2 ∧ regOf 4 = 9 ∧ regOf 5 = 8 ∧ regOf 6 = 3 ∧
    regOf 7 = 13 ∧ regOf 8 = 14 ∧ regOf 9 = 15 ∧ regOf 10 = 5 := by decide

/-- reading eBPF register `k` on the machine side -/
theorem rel0_get (retAddr : Nat) (σ : St) (s : State) (k : Nat) (hk : k < 11) (h : Rel0 retAddr σ s) :
    σ.get (regOf k) = s.reg.getD k 0 := h.regs k hk

/-- writing eBPF register `d` and setting the program counter -/
theorem rel0_wr_pc (retAddr : Nat) (σ : St) (s : State) (d : Nat) (v : BitVec 64) (pc : Nat) (hd : d < 11)
    (h : Rel0 retAddr σ s) : Rel0 retAddr (σ.set (regOf d) v) { s with reg := s.reg.setIfInBounds d v, pc := pc } :=
  rel0_pc retAddr _ _ pc (rel0_wr retAddr σ s d v hd h)

-- the callers' frames on the native stack -------------------------------------------------------------------------

theorem callersKept_refl (σ : St) (s : State) : CallersKept σ σ s := fun _ _ _ _ => rfl

theorem callersKept_of_mem (σ σ' : St) (s : State) (h : σ'.mem = σ.mem) : CallersKept σ σ' s := by
  intro a w _ _
  rw [h]

/-- composing two stretches when rsp is the same at the intermediate state -/
theorem callersKept_trans (σ σ1 σ2 : St) (s : State) (h1 : CallersKept σ σ1 s) (hrsp : σ1.get 4 = σ.get 4)
    (h2 : CallersKept σ1 σ2 s) : CallersKept σ σ2 s := by
  intro a w ha hw
  have hrsp' : σ1.get X86.RSP = σ.get X86.RSP := hrsp
  rw [h2 a w (by rw [hrsp']; exact ha) hw, h1 a w ha hw]

/-- register writes keep the callers' frames -/
theorem callersKept_set (σ : St) (s : State) (r : Nat) (v : BitVec 64) : CallersKept σ (σ.set r v) s :=
  callersKept_of_mem σ _ s rfl

end Rbpf.JitSim
