/-
  Shared infrastructure of the x86-64 simulation proofs: composing machine steps, reading one instruction off a
  validated code buffer, executing it.
-/
import RbpfModel.Model.JitSim
namespace Rbpf.JitSim
open Rbpf.X86 (Cfg St Out Instr step exec decode fetch readMem writeMem)
open Rbpf.JitAst (AI Tgt checkSeq window)

theorem stepsN_add (c : Cfg) (m n : Nat) (σ σ1 σ2 : St) (h1 : stepsN c m σ = some σ1) (h2 : stepsN c n σ1 = some σ2) :
    stepsN c (m + n) σ = some σ2 := by
  sorry

theorem stepsN_one (c : Cfg) (σ σ' : St) (h : step c σ = .next σ') : stepsN c 1 σ = some σ' := by
  sorry

/-- the machine's fetch at `codeBase + a` is the checker's window at offset `a` -/
theorem fetch_eq_window (c : Cfg) (a : Nat) : fetch c (c.codeBase + a) = window c.code a := by
  sorry

/-- one machine step at a place where the code decodes to `x` (length `n`) -/
theorem step_at (c : Cfg) (σ : St) (a n : Nat) (x : Instr) (hrip : σ.rip = c.codeBase + a)
    (hdec : decode (window c.code a) = some (x, n)) : step c σ = exec c σ x (c.codeBase + a + n) := by
  sorry

@[simp] theorem checkSeq_nil (code : Array UInt8) (tgt : Tgt → Option Nat) (a : Nat) : checkSeq code tgt a [] = some a := by
  sorry

/-- the checker only moves forward -/
theorem checkSeq_le (code : Array UInt8) (tgt : Tgt → Option Nat) (a b : Nat) (ais : List AI)
    (h : checkSeq code tgt a ais = some b) : a ≤ b := by
  sorry

theorem checkSeq_i (code : Array UInt8) (tgt : Tgt → Option Nat) (a b : Nat) (x : Instr) (rest : List AI)
    (h : checkSeq code tgt a (.i x :: rest) = some b) :
    ∃ n, decode (window code a) = some (x, n) ∧ checkSeq code tgt (a + n) rest = some b := by
  sorry

theorem checkSeq_jcc (code : Array UInt8) (tgt : Tgt → Option Nat) (a b : Nat) (cc : X86.Cc) (t : Tgt) (rest : List AI)
    (h : checkSeq code tgt a (.jcc cc t :: rest) = some b) :
    ∃ n rel l, decode (window code a) = some (.jcc cc rel, n) ∧ tgt t = some l ∧
      ((a + n : Nat) : Int) + rel.toInt = (l : Int) ∧ checkSeq code tgt (a + n) rest = some b := by
  sorry

theorem checkSeq_jmp (code : Array UInt8) (tgt : Tgt → Option Nat) (a b : Nat) (t : Tgt) (rest : List AI)
    (h : checkSeq code tgt a (.jmp t :: rest) = some b) :
    ∃ n rel l, decode (window code a) = some (.jmp rel, n) ∧ tgt t = some l ∧
      ((a + n : Nat) : Int) + rel.toInt = (l : Int) ∧ checkSeq code tgt (a + n) rest = some b := by
  sorry

theorem checkSeq_call (code : Array UInt8) (tgt : Tgt → Option Nat) (a b : Nat) (t : Tgt) (rest : List AI)
    (h : checkSeq code tgt a (.call t :: rest) = some b) :
    ∃ n rel l, decode (window code a) = some (.call rel, n) ∧ tgt t = some l ∧
      ((a + n : Nat) : Int) + rel.toInt = (l : Int) ∧ checkSeq code tgt (a + n) rest = some b := by
  sorry

/-- a relative jump from the instruction ending at `codeBase + e` lands at `codeBase + l` when the checker's
    landing equation holds and the addresses stay below 2^63 -/
theorem relTarget_lands (base e l : Nat) (rel : BitVec 32) (h : (e : Int) + rel.toInt = (l : Int)) (hb : base + e < 2 ^ 63)
    : X86.relTarget (base + e) rel = base + l := by
  sorry

end Rbpf.JitSim
