/-
  Every program the verifier accepts is within the scope of the machine-level simulation: each of its instructions is
  in one of the proved opcode classes, or is `exit`, a helper call or an eBPF-to-eBPF call.
-/
import RbpfModel.Lemmas.X86Sim.WholeD
import RbpfModel.Lemmas.X86Enc.Targets
import RbpfModel.Lemmas.EngineLemmas
namespace Rbpf.JitSim

/-- the verifier's opcode table against the proved classes, over the 256 byte values -/
theorem cov_supported : ∀ o : BitVec 8, WF.supported o = true →
    o.toNat ∈ coveredOpcodes ∨ o.toNat = 0x95 ∨ o = 0x85 := by
  apply forall_bv8
  decide +kernel

/-- what the verifier's per-instruction rules say about an element of the sweep -/
theorem cov_insn (p : Bytes) (h : Verifier.check p = .ok) (x : Nat × Insn) (hx : x ∈ starts p) :
    getInsn? p x.1 = some x.2 ∧
    (x.2.opc.toNat ∈ coveredOpcodes ∨ x.2.opc.toNat = 0x95 ∨ (x.2.opc = 0x85 ∧ (x.2.src = 0 ∨ x.2.src = 1))) := by
  obtain ⟨-, -, -, hins, -⟩ := wellFormed_of_check_ok h
  obtain ⟨hst, hget⟩ := JitEnc.tgt_mem_starts p x hx
  have hok := hins x.1 hst
  unfold WF.InsnOk at hok
  rw [hget] at hok
  simp only at hok
  obtain ⟨hsup, -, -, -, -, hc, -, -⟩ := hok
  refine ⟨hget, ?_⟩
  rcases cov_supported _ hsup with h1 | h1 | h1
  · exact Or.inl h1
  · exact Or.inr (Or.inl h1)
  · have hcall : WF.isCall x.2.opc = true := by rw [h1]; decide
    rcases hc hcall with h0 | ⟨h0, -⟩
    · exact Or.inr (Or.inr ⟨h1, Or.inl h0⟩)
    · exact Or.inr (Or.inr ⟨h1, Or.inr h0⟩)

theorem coveredD_of_check (p : Bytes) (h : Verifier.check p = .ok) : CoveredD p :=
  fun x hx => (cov_insn p h x hx).2

/-- without eBPF-to-eBPF calls, within the scope of `WholeC` -/
theorem coveredC_of_check (p : Bytes) (h : Verifier.check p = .ok) (hl : NoLocalCall p) : CoveredC p := by
  intro x hx
  obtain ⟨hget, h1 | h1 | ⟨h1, h0 | h0⟩⟩ := cov_insn p h x hx
  · exact Or.inl h1
  · exact Or.inr (Or.inl h1)
  · exact Or.inr (Or.inr ⟨h1, h0⟩)
  · exact absurd ⟨h1, h0⟩ (hl x.1 x.2 hget)

end Rbpf.JitSim
