/-
  Prologue / epilogue simulation, part 3: the prologue, stated with `Rel0`, `topBytes` and the location of the first
  arm (no `Rel`); the landing pad and the epilogue.  Independent of the per-class lemmas.
-/
import RbpfModel.Lemmas.X86Sim.EntryCore
namespace Rbpf.JitSim
open Rbpf.X86 (Cfg St Out Instr step exec decode fetch readMem writeMem)
open Rbpf.JitAst (AI Tgt checkSeq window)

theorem entry_contains (r : Region) (a w : Nat) (h1 : r.base ≤ a) (h2 : a + w ≤ r.base + r.bytes.size) : r.contains a w = true := by
  simp only [Region.contains, Bool.and_eq_true, decide_eq_true_eq]
  exact ⟨h1, h2⟩

theorem entry_rd_wr_same8 (r : Region) (a v : Nat) (h1 : r.base ≤ a) (h2 : a + 8 ≤ r.base + r.bytes.size) :
    entry_rd (Memory.writeRegion r a (leBytes v 8)) a 8 = leBytes v 8 := by
  have := entry_rd_wr_same r a (leBytes v 8) (entry_contains _ _ _ h1 (by simpa using h2))
  simpa using this

theorem entry_rd_wr_other8 (r : Region) (a v a' w' : Nat) (hb : r.base ≤ a) (hb' : r.base ≤ a')
    (h : a' + w' ≤ a ∨ a + 8 ≤ a') : entry_rd (Memory.writeRegion r a (leBytes v 8)) a' w' = entry_rd r a' w' :=
  entry_rd_wr_other r a _ a' w' hb hb' (by simpa using h)

/-- the frame after the prologue's five pushes -/
def entry_frame5 (F : Region) (b v1 v2 v3 v4 v5 : Nat) : Region :=
  Memory.writeRegion (Memory.writeRegion (Memory.writeRegion (Memory.writeRegion (Memory.writeRegion F (b + 544) (leBytes v1 8))
    (b + 536) (leBytes v2 8)) (b + 528) (leBytes v3 8)) (b + 520) (leBytes v4 8)) (b + 512) (leBytes v5 8)

theorem entry_frame5_shape (F : Region) (b v1 v2 v3 v4 v5 : Nat) : entry_shape (entry_frame5 F b v1 v2 v3 v4 v5) = entry_shape F := by
  simp only [entry_frame5, entry_shape_wr]

theorem entry_frame5_low (F : Region) (b v1 v2 v3 v4 v5 : Nat) (hb : F.base = b) (k : Nat) (hk : k < 512) :
    (entry_frame5 F b v1 v2 v3 v4 v5).bytes[k]? = F.bytes[k]? := by
  simp only [entry_frame5]
  rw [entry_wr_get, if_neg (by simp only [entry_wr_base]; omega)]
  rw [entry_wr_get, if_neg (by simp only [entry_wr_base]; omega)]
  rw [entry_wr_get, if_neg (by simp only [entry_wr_base]; omega)]
  rw [entry_wr_get, if_neg (by simp only [entry_wr_base]; omega)]
  rw [entry_wr_get, if_neg (by omega)]

theorem entry_wr8_facts (G : Region) (b a v : Nat) (h : G.base = b ∧ G.bytes.size = 568) :
    (Memory.writeRegion G a (leBytes v 8)).base = b ∧ (Memory.writeRegion G a (leBytes v 8)).bytes.size = 568 := by
  rw [entry_wr_base, entry_wr_size]; exact h

theorem entry_wr8_other (G : Region) (b a v a' : Nat) (h : G.base = b ∧ G.bytes.size = 568) (h1 : b ≤ a) (h2 : b ≤ a')
    (h3 : a' + 8 ≤ a ∨ a + 8 ≤ a') : entry_rd (Memory.writeRegion G a (leBytes v 8)) a' 8 = entry_rd G a' 8 :=
  entry_rd_wr_other8 _ _ _ _ _ (by omega) (by omega) h3

theorem entry_wr8_same (G : Region) (b a v : Nat) (h : G.base = b ∧ G.bytes.size = 568) (h1 : b ≤ a) (h2 : a + 8 ≤ b + 568) :
    entry_rd (Memory.writeRegion G a (leBytes v 8)) a 8 = leBytes v 8 :=
  entry_rd_wr_same8 _ _ _ (by omega) (by omega)

theorem entry_frame5_top (F : Region) (b v1 v2 v3 v4 v5 : Nat) (hb : F.base = b) (hs : F.bytes.size = 568) :
    entry_rd (entry_frame5 F b v1 v2 v3 v4 v5) (b + 512) 56 =
      leBytes v5 8 ++ (leBytes v4 8 ++ (leBytes v3 8 ++ (leBytes v2 8 ++ (leBytes v1 8 ++
        (entry_rd F (b + 552) 8 ++ entry_rd F (b + 560) 8))))) := by
  have f0 : F.base = b ∧ F.bytes.size = 568 := ⟨hb, hs⟩
  unfold entry_frame5
  have f1 := entry_wr8_facts F b (b + 544) v1 f0
  generalize g1 : Memory.writeRegion F (b + 544) (leBytes v1 8) = F1 at f1 ⊢
  have f2 := entry_wr8_facts F1 b (b + 536) v2 f1
  generalize g2 : Memory.writeRegion F1 (b + 536) (leBytes v2 8) = F2 at f2 ⊢
  have f3 := entry_wr8_facts F2 b (b + 528) v3 f2
  generalize g3 : Memory.writeRegion F2 (b + 528) (leBytes v3 8) = F3 at f3 ⊢
  have f4 := entry_wr8_facts F3 b (b + 520) v4 f3
  generalize g4 : Memory.writeRegion F3 (b + 520) (leBytes v4 8) = F4 at f4 ⊢
  have f5 := entry_wr8_facts F4 b (b + 512) v5 f4
  generalize g5 : Memory.writeRegion F4 (b + 512) (leBytes v5 8) = F5 at f5 ⊢
  have e1 : entry_rd F5 (b + 512) 8 = leBytes v5 8 := by
    rw [← g5]; exact entry_wr8_same _ b _ _ f4 (by omega) (by omega)
  have e2 : entry_rd F5 (b + 520) 8 = leBytes v4 8 := by
    rw [← g5, entry_wr8_other _ b _ _ _ f4 (by omega) (by omega) (by omega),
      ← g4]; exact entry_wr8_same _ b _ _ f3 (by omega) (by omega)
  have e3 : entry_rd F5 (b + 528) 8 = leBytes v3 8 := by
    rw [← g5, entry_wr8_other _ b _ _ _ f4 (by omega) (by omega) (by omega),
      ← g4, entry_wr8_other _ b _ _ _ f3 (by omega) (by omega) (by omega),
      ← g3]; exact entry_wr8_same _ b _ _ f2 (by omega) (by omega)
  have e4 : entry_rd F5 (b + 536) 8 = leBytes v2 8 := by
    rw [← g5, entry_wr8_other _ b _ _ _ f4 (by omega) (by omega) (by omega),
      ← g4, entry_wr8_other _ b _ _ _ f3 (by omega) (by omega) (by omega),
      ← g3, entry_wr8_other _ b _ _ _ f2 (by omega) (by omega) (by omega),
      ← g2]; exact entry_wr8_same _ b _ _ f1 (by omega) (by omega)
  have e5 : entry_rd F5 (b + 544) 8 = leBytes v1 8 := by
    rw [← g5, entry_wr8_other _ b _ _ _ f4 (by omega) (by omega) (by omega),
      ← g4, entry_wr8_other _ b _ _ _ f3 (by omega) (by omega) (by omega),
      ← g3, entry_wr8_other _ b _ _ _ f2 (by omega) (by omega) (by omega),
      ← g2, entry_wr8_other _ b _ _ _ f1 (by omega) (by omega) (by omega),
      ← g1]; exact entry_wr8_same _ b _ _ f0 (by omega) (by omega)
  have e67 : ∀ a', b + 552 ≤ a' → entry_rd F5 a' 8 = entry_rd F a' 8 := by
    intro a' ha
    rw [← g5, entry_wr8_other _ b _ _ _ f4 (by omega) (by omega) (by omega),
      ← g4, entry_wr8_other _ b _ _ _ f3 (by omega) (by omega) (by omega),
      ← g3, entry_wr8_other _ b _ _ _ f2 (by omega) (by omega) (by omega),
      ← g2, entry_wr8_other _ b _ _ _ f1 (by omega) (by omega) (by omega),
      ← g1, entry_wr8_other _ b _ _ _ f0 (by omega) (by omega) (by omega)]
  rw [show (56 : Nat) = 8 + (8 + (8 + (8 + (8 + (8 + 8))))) from rfl]
  rw [entry_rd_split _ _ _ _ (by omega), entry_rd_split _ _ _ _ (by omega), entry_rd_split _ _ _ _ (by omega),
    entry_rd_split _ _ _ _ (by omega), entry_rd_split _ _ _ _ (by omega), entry_rd_split _ _ _ _ (by omega)]
  simp only [Nat.add_assoc, Nat.reduceAdd]
  rw [e1, e2, e3, e4, e5, e67 _ (by omega), e67 _ (by omega)]

-- `MemRel` ---------------------------------------------------------------------------------------------------------

/-- `MemRel` with the frame and the native stack below it named -/
theorem entry_memrel_split (xm : List Region) (m : Memory) (h : MemRel xm m) :
    ∃ frame lower : Region, xm = frame :: m.mbuff :: m.mem :: (m.extra ++ [lower]) ∧
      frame.base = m.stack.base ∧ frame.bytes.size = 568 ∧ m.stack.bytes.size = 512 ∧
      lower.base + lower.bytes.size = m.stack.base ∧ 64 ≤ lower.bytes.size ∧ m.stack.base + 568 < 2 ^ 64 ∧
      m.mbuff.base + m.mbuff.bytes.size < 2 ^ 64 ∧
      (∀ q ∈ frame :: m.mbuff :: m.mem :: m.extra, disjoint q lower) := by
  obtain ⟨frame, lower, hxm, hfb, hss, hfs, hfk, hlb, hls, hpw, hbd⟩ := h
  refine ⟨frame, lower, hxm, hfb, hfs, hss, by omega, hls, ?_, ?_, ?_⟩
  · have := hbd frame (by rw [hxm]; simp)
    omega
  · exact hbd m.mbuff (by rw [hxm]; simp)
  · have e : xm = (frame :: m.mbuff :: m.mem :: m.extra) ++ [lower] := by rw [hxm]; simp
    rw [e, List.pairwise_append] at hpw
    intro q hq
    exact hpw.2.2 q hq lower (by simp)

theorem entry_memrel_update (m : Memory) (frame lower frame' lower' : Region)
    (h : MemRel (frame :: m.mbuff :: m.mem :: (m.extra ++ [lower])) m)
    (hf : entry_shape frame' = entry_shape frame) (hl : entry_shape lower' = entry_shape lower)
    (hk : ∀ k, k < 512 → frame'.bytes[k]? = frame.bytes[k]?) :
    MemRel (frame' :: m.mbuff :: m.mem :: (m.extra ++ [lower'])) m := by
  obtain ⟨f0, l0, hxm, hfb, hss, hfs, hfk, hlb, hls, hpw, hbd⟩ := h
  simp only [List.cons.injEq, true_and, List.append_cancel_left_eq, and_true] at hxm
  obtain ⟨rfl, rfl⟩ := hxm
  have hmap : (frame' :: m.mbuff :: m.mem :: (m.extra ++ [lower'])).map entry_shape =
      (frame :: m.mbuff :: m.mem :: (m.extra ++ [lower])).map entry_shape := by
    simp only [List.map_cons, List.map_append, List.map_nil, hf, hl]
  have hf1 : frame'.base = frame.base := congrArg Prod.fst hf
  have hf2 : frame'.bytes.size = frame.bytes.size := congrArg Prod.snd hf
  have hl1 : lower'.base = lower.base := congrArg Prod.fst hl
  have hl2 : lower'.bytes.size = lower.bytes.size := congrArg Prod.snd hl
  refine ⟨frame', lower', rfl, by omega, hss, by omega, ?_, by omega, by omega, ?_, ?_⟩
  · intro k hk'
    rw [hk k hk', hfk k hk']
  · rw [entry_pairwise_shape, hmap, ← entry_pairwise_shape]; exact hpw
  · rw [entry_bound_shape, hmap, ← entry_bound_shape]; exact hbd

/-- a non-empty access inside `lower` is inside no region disjoint from it -/
theorem entry_not_contains (q lower : Region) (a w : Nat) (hd : disjoint q lower) (hw : 0 < w) (hc : lower.contains a w = true) :
    q.contains a w = false := by
  simp only [Region.contains, Bool.and_eq_true, decide_eq_true_eq] at hc
  cases hq : q.contains a w with
  | false => rfl
  | true =>
    simp only [Region.contains, Bool.and_eq_true, decide_eq_true_eq] at hq
    unfold disjoint at hd
    omega

-- `entryState` -----------------------------------------------------------------------------------------------------

theorem entry_entryState_reg (m : Memory) (σ : St) (um : Bool) (k : Nat) (hk : k < 11) :
    (entryState m σ um).reg.getD k 0 =
      if k = 10 then BitVec.ofNat 64 (m.stack.base + 512)
      else if k = 1 then (if um then (if σ.get 6 = 0 then σ.get 2 else σ.get 7) else σ.get 2)
      else σ.get (regOf k) := by
  by_cases h10 : k = 10
  · simp [entryState, Vector.getD, h10]
  · by_cases h1 : k = 1
    · simp [entryState, Vector.getD, h1]
    · simp [entryState, Vector.getD, h10, h1, Ne.symm h10, Ne.symm h1, hk]

theorem entry_entryState_mem (m : Memory) (σ : St) (um : Bool) : (entryState m σ um).mem = m := rfl
theorem entry_entryState_pc (m : Memory) (σ : St) (um : Bool) : (entryState m σ um).pc = 0 := rfl
theorem entry_entryState_frames (m : Memory) (σ : St) (um : Bool) : (entryState m σ um).frames = [] := rfl

theorem entry_entryState_r1_r10 (c : Cfg) (m : Memory) (σ : St) (um : Bool) (he : Entry c m σ)
    (hpkt : m.mem.bytes.size = 0 → m.mem.base = 0) (hum : um = false → m.mbuff.bytes.size = 0) :
    (entryState m σ um).reg[1]? = (Interp.init m).reg[1]? ∧ (entryState m σ um).reg[10]? = (Interp.init m).reg[10]? := by
  obtain ⟨frame, lower, hxm, hfb, hfs, hss, hlb, hls, hb, hmb, hdj⟩ := entry_memrel_split _ _ he.mem
  have hrsi : σ.get 6 = 0 ↔ m.mbuff.bytes.size = 0 := by
    rw [he.rsi]
    constructor
    · intro h
      have := congrArg BitVec.toNat h
      have e0 : (0 : BitVec 64).toNat = 0 := rfl
      rw [e0, BitVec.toNat_ofNat] at this
      omega
    · intro h; rw [h]; rfl
  constructor
  · simp only [entryState, Interp.init, Vector.getElem?_setIfInBounds, Vector.getElem?_ofFn]
    simp only [show (10 : Nat) ≠ 1 by decide, if_false, if_true, show (1 : Nat) < 11 by decide]
    congr 1
    rw [he.rdi, he.rdx]
    cases um with
    | false =>
      have h0 := hum rfl
      simp only [Bool.false_eq_true, if_false, h0, ne_eq, not_true_eq_false]
      by_cases hm : m.mem.bytes.size = 0
      · simp only [hm, not_true_eq_false, if_false, hpkt hm]
      · simp only [hm, not_false_eq_true, if_true]
    | true =>
      simp only [if_true]
      by_cases h0 : m.mbuff.bytes.size = 0
      · rw [if_pos (hrsi.mpr h0)]
        simp only [h0, ne_eq, not_true_eq_false, if_false]
        by_cases hm : m.mem.bytes.size = 0
        · simp only [hm, not_true_eq_false, if_false, hpkt hm]
        · simp only [hm, not_false_eq_true, if_true]
      · rw [if_neg (fun h => h0 (hrsi.mp h))]
        simp only [h0, ne_eq, not_false_eq_true, if_true]
  · simp only [entryState, Interp.init, Vector.getElem?_setIfInBounds, Vector.getElem?_ofFn, if_true, hss]

-- the prologue ------------------------------------------------------------------------------------------------------

/-- a push into the first region -/
theorem entry_step_push (c : Cfg) (σ : St) (a n r : Nat) (F : Region) (rest : List Region) (sp sp' : Nat)
    (hrip : σ.rip = c.codeBase + a) (hdec : decode (window c.code a) = some (.push r, n)) (hm : σ.mem = F :: rest)
    (hsp : (σ.get 4).toNat = sp) (hsp' : sp = sp' + 8) (hlo : F.base ≤ sp') (hhi : sp' + 8 ≤ F.base + F.bytes.size) :
    ∃ σ', step c σ = .next σ' ∧ σ'.rip = c.codeBase + (a + n) ∧
      σ'.mem = Memory.writeRegion F sp' (leBytes (σ.get r).toNat 8) :: rest ∧ (σ'.get 4).toNat = sp' ∧
      (∀ q, q ≠ 4 → σ'.get q = σ.get q) := by
  have hw : writeMem σ.mem (sp - 8) (leBytes (σ.get r).toNat 8) = some (Memory.writeRegion F sp' (leBytes (σ.get r).toNat 8) :: rest) := by
    rw [hm, show sp - 8 = sp' by omega]
    exact entry_write_head _ _ _ _ (entry_contains _ _ _ hlo (by simpa using hhi))
  obtain ⟨σ', h1, h2, h3, h4, h5⟩ := entry_exec_push c σ r (c.codeBase + a + n) sp _ hsp (by omega) hw
  refine ⟨σ', ?_, by rw [h2]; omega, h3, by omega, h5⟩
  rw [step_at c σ a n _ hrip hdec, h1]

/-- the five pushes and `mov r10, rdx` -/
theorem entry_pro_pushes (c : Cfg) (tgt : Tgt → Option Nat) (σ : St) (F : Region) (rest : List Region) (b m1 : Nat)
    (hcs : checkSeq c.code tgt 0 [.i (.push JitAst.RBP), .i (.push JitAst.RBX), .i (.push JitAst.R13), .i (.push JitAst.R14),
      .i (.push JitAst.R15), .i (JitAst.movRR JitAst.RDX JitAst.R10)] = some m1)
    (hrip : σ.rip = c.codeBase) (hm : σ.mem = F :: rest) (hsp : (σ.get 4).toNat = b + 552) (hb : F.base = b) (hs : F.bytes.size = 568) :
    ∃ σ', stepsN c 6 σ = some σ' ∧ σ'.rip = c.codeBase + m1 ∧
      σ'.mem = entry_frame5 F b (σ.get 5).toNat (σ.get 3).toNat (σ.get 13).toNat (σ.get 14).toNat (σ.get 15).toNat :: rest ∧
      (σ'.get 4).toNat = b + 512 ∧ σ'.get 10 = σ.get 2 ∧ (∀ q, q ≠ 4 → q ≠ 10 → σ'.get q = σ.get q) ∧
      entry_lm σ' = entry_lm σ := by
  obtain ⟨n1, hd1, hcs⟩ := checkSeq_i _ _ _ _ _ _ hcs
  obtain ⟨n2, hd2, hcs⟩ := checkSeq_i _ _ _ _ _ _ hcs
  obtain ⟨n3, hd3, hcs⟩ := checkSeq_i _ _ _ _ _ _ hcs
  obtain ⟨n4, hd4, hcs⟩ := checkSeq_i _ _ _ _ _ _ hcs
  obtain ⟨n5, hd5, hcs⟩ := checkSeq_i _ _ _ _ _ _ hcs
  obtain ⟨n6, hd6, hcs⟩ := checkSeq_i _ _ _ _ _ _ hcs
  simp only [checkSeq_nil, Option.some.injEq] at hcs
  obtain ⟨σ1, hs1, hr1, hm1, hp1, hq1⟩ := entry_step_push c σ 0 n1 _ F rest _ (b + 544) (by rw [hrip]; rfl) hd1 hm hsp rfl
    (by omega) (by omega)
  have f1 := entry_wr8_facts F b (b + 544) (σ.get JitAst.RBP).toNat ⟨hb, hs⟩
  obtain ⟨σ2, hs2, hr2, hm2, hp2, hq2⟩ := entry_step_push c σ1 _ n2 _ _ rest _ (b + 536) hr1 hd2 hm1 hp1 rfl
    (by omega) (by omega)
  have f2 := entry_wr8_facts _ b (b + 536) (σ1.get JitAst.RBX).toNat f1
  obtain ⟨σ3, hs3, hr3, hm3, hp3, hq3⟩ := entry_step_push c σ2 _ n3 _ _ rest _ (b + 528) hr2 hd3 hm2 hp2 rfl
    (by omega) (by omega)
  have f3 := entry_wr8_facts _ b (b + 528) (σ2.get JitAst.R13).toNat f2
  obtain ⟨σ4, hs4, hr4, hm4, hp4, hq4⟩ := entry_step_push c σ3 _ n4 _ _ rest _ (b + 520) hr3 hd4 hm3 hp3 rfl
    (by omega) (by omega)
  have f4 := entry_wr8_facts _ b (b + 520) (σ3.get JitAst.R14).toNat f3
  obtain ⟨σ5, hs5, hr5, hm5, hp5, hq5⟩ := entry_step_push c σ4 _ n5 _ _ rest _ (b + 512) hr4 hd5 hm4 hp4 rfl
    (by omega) (by omega)
  obtain ⟨σ6, hx6, hr6, hm6, hg6, hq6⟩ := entry_exec_mov c σ5 JitAst.RDX JitAst.R10 (c.codeBase + (0 + n1 + n2 + n3 + n4 + n5) + n6)
    (by decide)
  have hs6 : step c σ5 = .next σ6 := by rw [step_at c σ5 _ n6 _ hr5 hd6]; exact hx6
  have a1 : ∀ q, q ≠ 4 → σ1.get q = σ.get q := hq1
  have a2 : ∀ q, q ≠ 4 → σ2.get q = σ.get q := fun q h => (hq2 q h).trans (a1 q h)
  have a3 : ∀ q, q ≠ 4 → σ3.get q = σ.get q := fun q h => (hq3 q h).trans (a2 q h)
  have a4 : ∀ q, q ≠ 4 → σ4.get q = σ.get q := fun q h => (hq4 q h).trans (a3 q h)
  have a5 : ∀ q, q ≠ 4 → σ5.get q = σ.get q := fun q h => (hq5 q h).trans (a4 q h)
  have l1 := entry_step_lm c σ σ1 0 n1 _ (by rw [hrip]; rfl) hd1 (by simp) (Or.inl hs1)
  have l2 := entry_step_lm c σ1 σ2 _ n2 _ hr1 hd2 (by simp) (Or.inl hs2)
  have l3 := entry_step_lm c σ2 σ3 _ n3 _ hr2 hd3 (by simp) (Or.inl hs3)
  have l4 := entry_step_lm c σ3 σ4 _ n4 _ hr3 hd4 (by simp) (Or.inl hs4)
  have l5 := entry_step_lm c σ4 σ5 _ n5 _ hr4 hd5 (by simp) (Or.inl hs5)
  have l6 := entry_step_lm c σ5 σ6 _ n6 _ hr5 hd6 (by simp [JitAst.movRR]) (Or.inl hs6)
  refine ⟨σ6, ?_, ?_, ?_, ?_, ?_, ?_, by rw [l6, l5, l4, l3, l2, l1]⟩
  · exact stepsN_succ c 5 _ _ _ hs1 (stepsN_succ c 4 _ _ _ hs2 (stepsN_succ c 3 _ _ _ hs3 (stepsN_succ c 2 _ _ _ hs4
      (stepsN_two c _ _ _ hs5 hs6))))
  · rw [hr6, ← hcs]; omega
  · rw [hm6, hm5, a1 _ (by decide), a2 _ (by decide), a3 _ (by decide), a4 _ (by decide)]
    rfl
  · rw [hq6 4 (by decide)]; exact hp5
  · exact hg6.trans (a5 2 (by decide))
  · intro q h4 h10
    rw [hq6 q h10]; exact a5 q h4
/-- r1: `mov rdi, rdx`, or `test rsi, rsi ; cmovz rdi, rdx` -/
theorem entry_pro_mid (c : Cfg) (tgt : Tgt → Option Nat) (um : Bool) (σ : St) (m1 m2 : Nat)
    (hcs : checkSeq c.code tgt m1 (if ¬ um then [AI.i (JitAst.movRR JitAst.RDX JitAst.RDI)]
      else [AI.i (.aluRR true .test JitAst.RSI JitAst.RSI), .i (.cmovz JitAst.RDI JitAst.RDX)]) = some m2)
    (hrip : σ.rip = c.codeBase + m1) :
    ∃ k σ', stepsN c k σ = some σ' ∧ σ'.rip = c.codeBase + m2 ∧ σ'.mem = σ.mem ∧
      σ'.get 7 = (if um then (if σ.get 6 = 0 then σ.get 2 else σ.get 7) else σ.get 2) ∧
      (∀ q, q ≠ 7 → σ'.get q = σ.get q) ∧ entry_lm σ' = entry_lm σ := by
  cases um with
  | false =>
    simp only [Bool.false_eq_true, not_false_eq_true, if_true] at hcs
    obtain ⟨n1, hd1, hcs⟩ := checkSeq_i _ _ _ _ _ _ hcs
    simp only [checkSeq_nil, Option.some.injEq] at hcs
    obtain ⟨σ1, hx1, hr1, hm1, hg1, hq1⟩ := entry_exec_mov c σ JitAst.RDX JitAst.RDI (c.codeBase + m1 + n1) (by decide)
    refine ⟨1, σ1, stepsN_one_at c σ σ1 m1 n1 _ hrip hd1 hx1, by rw [hr1, ← hcs]; omega, hm1, ?_, hq1,
      entry_exec_lm c σ σ1 _ _ (by simp) (Or.inl hx1)⟩
    simp only [Bool.false_eq_true, if_false]
    exact hg1
  | true =>
    simp only [not_true_eq_false, if_false] at hcs
    obtain ⟨n1, hd1, hcs⟩ := checkSeq_i _ _ _ _ _ _ hcs
    obtain ⟨n2, hd2, hcs⟩ := checkSeq_i _ _ _ _ _ _ hcs
    simp only [checkSeq_nil, Option.some.injEq] at hcs
    obtain ⟨σ1, f, hx1, hr1, hm1, hq1, hf1, hz1⟩ := entry_exec_test c σ JitAst.RSI (c.codeBase + m1 + n1)
    obtain ⟨σ2, hx2, hr2, hm2, hg2, hq2⟩ := entry_exec_cmovz c σ1 f JitAst.RDI JitAst.RDX (c.codeBase + (m1 + n1) + n2) hf1 (by decide)
    have hs1 : step c σ = .next σ1 := by rw [step_at c σ m1 n1 _ hrip hd1]; exact hx1
    have hs2 : step c σ1 = .next σ2 := by rw [step_at c σ1 (m1 + n1) n2 _ (by rw [hr1]; omega) hd2]; exact hx2
    have l1 := entry_exec_lm c σ σ1 _ _ (by simp) (Or.inl hx1)
    have l2 := entry_exec_lm c σ1 σ2 _ _ (by simp) (Or.inl hx2)
    refine ⟨2, σ2, stepsN_two c _ _ _ hs1 hs2, by rw [hr2, ← hcs]; omega, by rw [hm2, hm1], ?_, ?_, by rw [l2, l1]⟩
    · simp only [if_true]
      have hg2' : σ2.get 7 = if f.zf = true then σ1.get 2 else σ1.get 7 := hg2
      rw [hg2', hq1, hq1]
      by_cases h0 : σ.get 6 = 0
      · rw [if_pos h0, if_pos (hz1.mpr h0)]
      · rw [if_neg h0, if_neg (fun h => h0 (hz1.mp h))]
    · intro q hq
      rw [hq2 q hq, hq1]

/-- `mov rbp, rsp ; sub rsp, 512 ; call 5` over the `jmp exit` -/
theorem entry_pro_tail (c : Cfg) (tgt : Tgt → Option Nat) (σ : St) (pre : List Region) (lower : Region) (b m2 l exitLoc : Nat)
    (hexit : tgt .exit = some exitLoc)
    (hcs : checkSeq c.code tgt m2 [.i (JitAst.movRR JitAst.RSP JitAst.RBP), .i (.aluRI true .sub JitAst.RSP 512#32),
      .i (.call 5#32), .jmp .exit] = some l)
    (hl : c.codeBase + l < 2 ^ 63)
    (hrip : σ.rip = c.codeBase + m2) (hm : σ.mem = pre ++ [lower]) (hsp : (σ.get 4).toNat = b + 512) (hb8 : 8 ≤ b)
    (hpre : ∀ q ∈ pre, q.contains (b - 8) 8 = false) (hlow : lower.contains (b - 8) 8 = true) :
    ∃ σ' aj rel, stepsN c 3 σ = some σ' ∧ σ'.rip = c.codeBase + l ∧
      σ'.mem = pre ++ [Memory.writeRegion lower (b - 8) (leBytes (c.codeBase + aj) 8)] ∧
      (σ'.get 4).toNat = b - 8 ∧ σ'.get 5 = σ.get 4 ∧ (∀ q, q ≠ 4 → q ≠ 5 → σ'.get q = σ.get q) ∧
      aj + 5 = l ∧ decode (window c.code aj) = some (.jmp rel, 5) ∧ ((aj + 5 : Nat) : Int) + rel.toInt = (exitLoc : Int) ∧
      entry_lm σ' = entry_lm σ := by
  obtain ⟨n1, hd1, hcs⟩ := checkSeq_i _ _ _ _ _ _ hcs
  obtain ⟨n2, hd2, hcs⟩ := checkSeq_i _ _ _ _ _ _ hcs
  obtain ⟨n3, hd3, hcs⟩ := checkSeq_i _ _ _ _ _ _ hcs
  obtain ⟨n4, rel, l', hd4, ht4, hl4, hcs⟩ := checkSeq_jmp _ _ _ _ _ _ hcs
  simp only [checkSeq_nil, Option.some.injEq] at hcs
  have hn4 : n4 = 5 := entry_decode_jmp _ _ _ hd4
  subst hn4
  rw [hexit] at ht4
  simp only [Option.some.injEq] at ht4
  subst ht4
  obtain ⟨σ1, hx1, hr1, hm1, hg1, hq1⟩ := entry_exec_mov c σ JitAst.RSP JitAst.RBP (c.codeBase + m2 + n1) (by decide)
  have hs1 : step c σ = .next σ1 := by rw [step_at c σ m2 n1 _ hrip hd1]; exact hx1
  have hp1 : (σ1.get 4).toNat = b + 512 := by rw [hq1 4 (by decide)]; exact hsp
  obtain ⟨σ2, hx2, hr2, hm2, hp2, hq2⟩ := entry_exec_sub512 c σ1 (c.codeBase + (m2 + n1) + n2) (b + 512) hp1 (by omega)
  have hs2 : step c σ1 = .next σ2 := by rw [step_at c σ1 (m2 + n1) n2 _ (by rw [hr1]; omega) hd2]; exact hx2
  have hnext : (BitVec.ofNat 64 (c.codeBase + (m2 + n1 + n2) + n3)).toNat = c.codeBase + (m2 + n1 + n2 + n3) := by
    rw [BitVec.toNat_ofNat]
    omega
  have hw : writeMem σ2.mem (b + 512 - 512 - 8) (leBytes (BitVec.ofNat 64 (c.codeBase + (m2 + n1 + n2) + n3)).toNat 8) =
      some (pre ++ [Memory.writeRegion lower (b - 8) (leBytes (c.codeBase + (m2 + n1 + n2 + n3)) 8)]) := by
    rw [hm2, hm1, hm, hnext, show b + 512 - 512 - 8 = b - 8 by omega]
    exact entry_write_last pre lower _ _ (by simpa using hpre) (by simpa using hlow)
  obtain ⟨σ3, hx3, hr3, hm3, hp3, hq3⟩ := entry_exec_call c σ2 5#32 (c.codeBase + (m2 + n1 + n2) + n3) (b + 512 - 512) _ hp2 (by omega) hw
  have hs3 : step c σ2 = .next σ3 := by rw [step_at c σ2 (m2 + n1 + n2) n3 _ (by rw [hr2]; omega) hd3]; exact hx3
  have l1 := entry_exec_lm c σ σ1 _ _ (by simp) (Or.inl hx1)
  have l2 := entry_exec_lm c σ1 σ2 _ _ (by simp) (Or.inl hx2)
  have l3 := entry_exec_lm c σ2 σ3 _ _ (by simp) (Or.inl hx3)
  refine ⟨σ3, m2 + n1 + n2 + n3, rel, stepsN_three c _ _ _ _ hs1 hs2 hs3, ?_, hm3, by rw [hp3]; omega, ?_, ?_, hcs, hd4, hl4,
    by rw [l3, l2, l1]⟩
  · have e5 : (5#32 : BitVec 32).toInt = 5 := by decide
    rw [hr3, show c.codeBase + (m2 + n1 + n2) + n3 = c.codeBase + (m2 + n1 + n2 + n3) by omega,
      relTarget_lands c.codeBase (m2 + n1 + n2 + n3) l 5#32 (by rw [e5, ← hcs]; omega) (by omega)]
  · rw [hq3 5 (by decide), hq2 5 (by decide)]
    exact hg1
  · intro q h4 h5
    rw [hq3 q h4, hq2 q h4, hq1 q h5]
/-- what `validate` says about the prologue, the epilogue and the recorded locations -/
theorem entry_validate (p : Bytes) (haddr : Nat → Option Nat) (um ud : Bool) (code : Array UInt8) (L : JitAst.Layout)
    (hv : JitAst.validate p haddr um ud code L = true) :
    ∃ tgt : Tgt → Option Nat, tgt .exit = some L.exitLoc ∧
      checkSeq code tgt 0 (JitAst.prologue um ud) = (if 0 * 8 < p.size then L.pcLocs[0]? else some L.exitLoc) ∧
      checkSeq code tgt L.exitLoc JitAst.epilogue = some code.size ∧
      (∀ k l : Nat, L.pcLocs[k]? = some l → l ≤ code.size) ∧ L.exitLoc ≤ code.size ∧
      (∀ pc i, (pc, i) ∈ JitAst.sweep p (p.size / 8 + 1) 0 → ∃ a, L.pcLocs[pc]? = some a) := by
  unfold JitAst.validate at hv
  simp only [Bool.and_eq_true, beq_iff_eq, decide_eq_true_eq] at hv
  obtain ⟨⟨⟨⟨h1, h2⟩, h3⟩, h4⟩, h5⟩ := hv
  refine ⟨_, rfl, h3, h5, ?_, h2, ?_⟩
  · intro k l hk
    rw [Array.all_eq_true] at h1
    obtain ⟨hlt, hget⟩ := Array.getElem?_eq_some_iff.mp hk
    have := h1 k hlt
    rw [hget] at this
    simpa using this
  · intro pc i hmem
    rw [List.all_eq_true] at h4
    have := h4 (pc, i) hmem
    simp only at this
    split at this
    · next ais n a harm hloc => exact ⟨a, hloc⟩
    · simp at this

/-- `Rel0.room` after the prologue: the region below the frame is the last one, rsp is 8 below the eBPF stack -/
theorem entry_room_after (c : Cfg) (m : Memory) (σ : St) (he : Entry c m σ) (pre pre' : List Region) (lower lower' : Region)
    (hxm : σ.mem = pre ++ [lower]) (mem' : List Region) (hm' : mem' = pre' ++ [lower']) (hb : lower'.base = lower.base)
    (rsp : Nat) (hrsp : rsp + 8 = m.stack.base) :
    ∃ l, mem'.getLast? = some l ∧ l.base + 64 ≤ rsp := by
  obtain ⟨l0, hl0, hr0⟩ := he.room
  rw [hxm, List.getLast?_append, List.getLast?_singleton] at hl0
  simp only [Option.some_or, Option.some.injEq] at hl0
  subst hl0
  refine ⟨lower', by rw [hm', List.getLast?_append, List.getLast?_singleton]; rfl, ?_⟩
  omega

/-- the prologue: from the entry state to the first arm -/
theorem entry_prologue (um : Bool) (c : Cfg) (L : JitAst.Layout) (m : Memory) (σ : St) (tgt : Tgt → Option Nat) (l : Nat)
    (hexit : tgt .exit = some L.exitLoc)
    (hcs : checkSeq c.code tgt 0 (JitAst.prologue um false) = some l) (hl : l ≤ c.code.size)
    (hsize : c.codeBase + c.code.size < 2 ^ 63) (he : Entry c m σ) :
    ∃ k σ' retAddr top, stepsN c k σ = some σ' ∧ Rel0 retAddr σ' (entryState m σ um) ∧
      topBytes σ' (entryState m σ um) = some top ∧ σ'.rip = c.codeBase + l ∧
      LandingPad c L retAddr ∧ (∃ pad, top = savedBytes c σ ++ pad) ∧ entry_lm σ' = entry_lm σ := by
  obtain ⟨frame, lower, hxm, hfb, hfs, hss, hlb, hls, hb, hmb, hdj⟩ := entry_memrel_split _ _ he.mem
  have hmrel := he.mem
  rw [hxm] at hmrel
  have hrsp := he.rsp
  have hsen := he.sentinel
  generalize hbdef : m.stack.base = b at *
  -- the code
  unfold JitAst.prologue at hcs
  obtain ⟨m2, hcs12, hcs3⟩ := checkSeq_append _ _ _ _ _ _ hcs
  obtain ⟨m1, hcs1, hcs2⟩ := checkSeq_append _ _ _ _ _ _ hcs12
  simp only [Bool.false_eq_true, not_false_eq_true, if_true] at hcs2
  -- the steps
  obtain ⟨σ6, hst6, hr6, hm6, hp6, hg6, hq6, hl6⟩ := entry_pro_pushes c tgt σ frame _ b m1 hcs1 he.rip hxm hrsp hfb hfs
  obtain ⟨k7, σ7, hst7, hr7, hm7, hg7, hq7, hl7⟩ := entry_pro_mid c tgt um σ6 m1 m2 hcs2 hr6
  generalize hF5 : entry_frame5 frame b (σ.get 5).toNat (σ.get 3).toNat (σ.get 13).toNat (σ.get 14).toNat (σ.get 15).toNat = F5 at hm6
  have hF5s : entry_shape F5 = entry_shape frame := by rw [← hF5]; exact entry_frame5_shape _ _ _ _ _ _ _
  have hF5b : F5.base = b := (congrArg Prod.fst hF5s).trans hfb
  have hF5z : F5.bytes.size = 568 := (congrArg Prod.snd hF5s).trans hfs
  have hlowc : lower.contains (b - 8) 8 = true := entry_contains _ _ _ (by omega) (by omega)
  have hpre : ∀ q ∈ F5 :: m.mbuff :: m.mem :: m.extra, q.contains (b - 8) 8 = false := by
    intro q hq
    rcases List.mem_cons.mp hq with rfl | hq
    · simp only [Region.contains, Bool.and_eq_false_iff, decide_eq_false_iff_not]
      left; omega
    · exact entry_not_contains q lower _ _ (hdj q (List.mem_cons_of_mem _ hq)) (by omega) hlowc
  have hm7' : σ7.mem = (F5 :: m.mbuff :: m.mem :: m.extra) ++ [lower] := by rw [hm7, hm6]; simp
  have hp7 : (σ7.get 4).toNat = b + 512 := by rw [hq7 4 (by decide)]; exact hp6
  obtain ⟨σ10, aj, rel, hst10, hr10, hm10, hp10, hg10, hq10, haj, hdj4, hlj, hl10⟩ :=
    entry_pro_tail c tgt σ7 _ lower b m2 l L.exitLoc hexit hcs3 (by omega) hr7 hm7' hp7 (by omega) hpre hlowc
  have hm10' : σ10.mem = F5 :: m.mbuff :: m.mem :: (m.extra ++ [Memory.writeRegion lower (b - 8) (leBytes (c.codeBase + aj) 8)]) := by
    rw [hm10]; simp
  -- registers of the final state
  have hreg : ∀ q, q ≠ 4 → q ≠ 5 → q ≠ 7 → q ≠ 10 → σ10.get q = σ.get q := by
    intro q h4 h5 h7 h10
    rw [hq10 q h4 h5, hq7 q h7, hq6 q h4 h10]
  have hrdi : σ10.get 7 = (if um then (if σ.get 6 = 0 then σ.get 2 else σ.get 7) else σ.get 2) := by
    rw [hq10 7 (by decide) (by decide), hg7, hq6 6 (by decide) (by decide), hq6 2 (by decide) (by decide),
      hq6 7 (by decide) (by decide)]
  have hrbp : σ10.get 5 = BitVec.ofNat 64 (b + 512) := by
    rw [hg10]
    apply BitVec.eq_of_toNat_eq
    rw [hp7, BitVec.toNat_ofNat]
    omega
  have hr10' : σ10.get 10 = σ.get 2 := by
    rw [hq10 10 (by decide) (by decide), hq7 10 (by decide), hg6]
  have hmr : MemRel σ10.mem m := by
    rw [hm10']
    exact entry_memrel_update m frame lower F5 _ hmrel hF5s (entry_shape_wr _ _ _)
      (fun k hk => by rw [← hF5]; exact entry_frame5_low _ _ _ _ _ _ _ hfb k hk)
  refine ⟨6 + k7 + 3, σ10, c.codeBase + aj, entry_rd F5 (b + 512) 56,
    stepsN_add c _ _ _ _ _ (stepsN_add c _ _ _ _ _ hst6 hst7) hst10, ?_, ?_, hr10, ?_, ?_, by rw [hl10, hl7, hl6]⟩
  · -- Rel0
    refine ⟨?_, hmr, ?_, ?_, ?_, ?_⟩
    rotate_right
    · exact entry_room_after c m σ he (frame :: m.mbuff :: m.mem :: m.extra) _ lower _ (by rw [hxm]; simp) σ10.mem hm10
        (entry_wr_base _ _ _) _ (by show (σ10.get 4).toNat + 8 = _; rw [hp10]; omega)
    · intro k hk
      rw [entry_entryState_reg m σ um k hk, hbdef]
      obtain ⟨v0, v1, v2, v3, v4, v5, v6, v7, v8, v9, v10⟩ := regOf_vals
      have : k = 0 ∨ k = 1 ∨ k = 2 ∨ k = 3 ∨ k = 4 ∨ k = 5 ∨ k = 6 ∨ k = 7 ∨ k = 8 ∨ k = 9 ∨ k = 10 := by omega
      rcases this with rfl | rfl | rfl | rfl | rfl | rfl | rfl | rfl | rfl | rfl | rfl
      · rw [v0]; exact hreg 0 (by decide) (by decide) (by decide) (by decide)
      · rw [v1]; exact hrdi
      · rw [v2]; exact hreg 6 (by decide) (by decide) (by decide) (by decide)
      · rw [v3]; exact hreg 2 (by decide) (by decide) (by decide) (by decide)
      · rw [v4]; exact hreg 9 (by decide) (by decide) (by decide) (by decide)
      · rw [v5]; exact hreg 8 (by decide) (by decide) (by decide) (by decide)
      · rw [v6]; exact hreg 3 (by decide) (by decide) (by decide) (by decide)
      · rw [v7]; exact hreg 13 (by decide) (by decide) (by decide) (by decide)
      · rw [v8]; exact hreg 14 (by decide) (by decide) (by decide) (by decide)
      · rw [v9]; exact hreg 15 (by decide) (by decide) (by decide) (by decide)
      · rw [v10]; exact hrbp
    · rw [hr10', he.rdx]; rfl
    · show (σ10.get 4).toNat + 8 + 48 * 0 = m.stack.base
      rw [hp10, hbdef]; omega
    · show readMem σ10.mem (σ10.get 4).toNat 8 = _
      rw [hp10, hm10]
      rw [entry_read_last _ _ _ _ hpre (by
        rw [entry_contains _ _ _ (by rw [entry_wr_base]; omega) (by rw [entry_wr_base, entry_wr_size]; omega)])]
      rw [entry_rd_wr_same8 _ _ _ (by omega) (by omega)]
  · -- topBytes
    show readMem σ10.mem (m.stack.base + 512) 56 = _
    rw [hm10', hbdef]
    exact entry_read_head _ _ _ _ (entry_contains _ _ _ (by omega) (by omega))
  · -- LandingPad
    refine ⟨by omega, by omega, rel, 5, ?_, ?_⟩
    · rw [Nat.add_sub_cancel_left]; exact hdj4
    · rw [Nat.add_sub_cancel_left]; exact hlj
  · -- saved bytes
    refine ⟨entry_rd frame (b + 560) 8, ?_⟩
    have hsent : entry_rd frame (b + 552) 8 = leBytes c.retSentinel.toNat 8 := by
      have h1 := hsen
      rw [hxm, entry_read_head _ _ _ _ (entry_contains _ _ _ (by omega) (by omega))] at h1
      exact Option.some.inj h1
    rw [← hF5, entry_frame5_top _ _ _ _ _ _ _ hfb hfs, hsent]
    simp only [savedBytes, List.append_assoc]
-- the landing pad and the epilogue --------------------------------------------------------------------------------------

/-- `relTarget_lands` with the bound on the target instead of the source -/
theorem entry_relTarget_lands (base e l : Nat) (rel : BitVec 32) (h : (e : Int) + rel.toInt = (l : Int)) (hb : base + l < 2 ^ 64) :
    X86.relTarget (base + e) rel = base + l := by
  unfold X86.relTarget
  have h3 : ((base + e : Nat) : Int) + rel.toInt = ((base + l : Nat) : Int) := by omega
  have h4 : ((base + l : Nat) : Int).emod (2 ^ 64) = ((base + l : Nat) : Int) :=
    Int.emod_eq_of_lt (by omega) (by omega)
  rw [h3, h4]
  exact Int.toNat_natCast _

theorem entry_step_pop (c : Cfg) (σ : St) (a n r sp : Nat) (v : BitVec 64)
    (hrip : σ.rip = c.codeBase + a) (hdec : decode (window c.code a) = some (.pop r, n))
    (hsp : (σ.get 4).toNat = sp) (h : sp + 8 < 2 ^ 64) (hr : readMem σ.mem sp 8 = some (leBytes v.toNat 8))
    (hr4 : r ≠ 4) (hr16 : r < 16) :
    ∃ σ', step c σ = .next σ' ∧ σ'.rip = c.codeBase + (a + n) ∧ σ'.mem = σ.mem ∧ (σ'.get 4).toNat = sp + 8 ∧
      σ'.get r = v ∧ (∀ q, q ≠ 4 → q ≠ r → σ'.get q = σ.get q) := by
  obtain ⟨σ', h1, h2, h3, h4, h5, h6⟩ := entry_exec_pop c σ r (c.codeBase + a + n) sp _ hsp h hr hr4 hr16
  refine ⟨σ', ?_, by rw [h2]; omega, h3, h4, by rw [h5, entry_leValue_leBytes8], h6⟩
  rw [step_at c σ a n _ hrip hdec, h1]

theorem entry_append8 (a c : List (BitVec 8)) (b d : List (BitVec 8)) (h : a ++ b = c ++ d) (ha : a.length = 8) (hc : c.length = 8) :
    a = c ∧ b = d := List.append_inj h (by omega)

theorem entry_epilogue_sim (env : Env) (haddr : Nat → Option Nat) (um ud : Bool) (c : Cfg) (L : JitAst.Layout) (σ0 σ : St) (s' : State)
    (retAddr : Nat) (top : List (BitVec 8)) (r0 : BitVec 64)
    (hv : JitAst.validate env.prog haddr um ud c.code L = true)
    (hsize : c.codeBase + c.code.size < 2 ^ 63)
    (hpad : LandingPad c L retAddr) (htop : ∃ pad, top = savedBytes c σ0 ++ pad)
    (hrip : σ.rip = retAddr) (hrax : σ.get 0 = r0) (hmem : MemRel σ.mem s'.mem)
    (hrsp : (σ.get X86.RSP).toNat = s'.mem.stack.base) (htb : topBytes σ s' = some top) :
    ∃ k σ', X86.run c σ k = .done r0 σ' ∧ σ'.mem = σ.mem ∧
      σ'.get 3 = σ0.get 3 ∧ σ'.get 5 = σ0.get 5 ∧ σ'.get 13 = σ0.get 13 ∧ σ'.get 14 = σ0.get 14 ∧ σ'.get 15 = σ0.get 15 ∧
      (σ'.get X86.RSP).toNat = s'.mem.stack.base + 560 ∧ entry_lm σ' = entry_lm σ := by
  obtain ⟨tgt, hexit, -, hcs, -, hel, -⟩ := entry_validate _ _ _ _ _ _ hv
  obtain ⟨frame, lower, hxm, hfb, hfs, hss, hlb, hls, hb, hmb, hdj⟩ := entry_memrel_split _ _ hmem
  obtain ⟨pad, htop⟩ := htop
  obtain ⟨hp1, hp2, rel, n, hdj0, hlj⟩ := hpad
  unfold topBytes at htb
  change (σ.get 4).toNat = s'.mem.stack.base at hrsp
  generalize s'.mem.stack.base = b at *
  -- the saved bytes, slot by slot
  have hrd : ∀ o, o + 8 ≤ 568 → readMem σ.mem (b + o) 8 = some (entry_rd frame (b + o) 8) := by
    intro o ho
    rw [hxm]
    exact entry_read_head _ _ _ _ (entry_contains _ _ _ (by omega) (by omega))
  rw [hxm, entry_read_head _ _ _ _ (entry_contains _ _ _ (by omega) (by omega)), htop] at htb
  have htb' := Option.some.inj htb
  rw [show (56 : Nat) = 8 + (8 + (8 + (8 + (8 + (8 + 8))))) from rfl] at htb'
  rw [entry_rd_split _ _ _ _ (by omega), entry_rd_split _ _ _ _ (by omega), entry_rd_split _ _ _ _ (by omega),
    entry_rd_split _ _ _ _ (by omega), entry_rd_split _ _ _ _ (by omega), entry_rd_split _ _ _ _ (by omega)] at htb'
  simp only [Nat.add_assoc, Nat.reduceAdd, savedBytes, List.append_assoc] at htb'
  obtain ⟨e15, htb'⟩ := entry_append8 _ _ _ _ htb' (by simp) (by simp)
  obtain ⟨e14, htb'⟩ := entry_append8 _ _ _ _ htb' (by simp) (by simp)
  obtain ⟨e13, htb'⟩ := entry_append8 _ _ _ _ htb' (by simp) (by simp)
  obtain ⟨e3, htb'⟩ := entry_append8 _ _ _ _ htb' (by simp) (by simp)
  obtain ⟨e5, htb'⟩ := entry_append8 _ _ _ _ htb' (by simp) (by simp)
  obtain ⟨es, -⟩ := entry_append8 _ _ _ _ htb' (by simp) (by simp)
  -- the code
  unfold JitAst.epilogue at hcs
  obtain ⟨n1, hd1, hcs⟩ := checkSeq_i _ _ _ _ _ _ hcs
  obtain ⟨n2, hd2, hcs⟩ := checkSeq_i _ _ _ _ _ _ hcs
  obtain ⟨n3, hd3, hcs⟩ := checkSeq_i _ _ _ _ _ _ hcs
  obtain ⟨n4, hd4, hcs⟩ := checkSeq_i _ _ _ _ _ _ hcs
  obtain ⟨n5, hd5, hcs⟩ := checkSeq_i _ _ _ _ _ _ hcs
  obtain ⟨n6, hd6, hcs⟩ := checkSeq_i _ _ _ _ _ _ hcs
  obtain ⟨n7, hd7, hcs⟩ := checkSeq_i _ _ _ _ _ _ hcs
  -- the steps
  have hrip0 : σ.rip = c.codeBase + (retAddr - c.codeBase) := by omega
  obtain ⟨σ1, hx1, hr1, hm1, hq1⟩ := entry_exec_jmp c σ rel (c.codeBase + (retAddr - c.codeBase) + n)
  have hs1 : step c σ = .next σ1 := by rw [step_at c σ _ n _ hrip0 hdj0, hx1]
  rw [Nat.add_assoc, entry_relTarget_lands c.codeBase _ L.exitLoc rel hlj (by omega)] at hr1
  have hsp1 : (σ1.get 4).toNat = b := by rw [hq1]; exact hrsp
  obtain ⟨σ2, hx2, hr2, hm2, hp2', hq2⟩ := entry_exec_add512 c σ1 (c.codeBase + L.exitLoc + n1) b hsp1 (by omega)
  have hs2 : step c σ1 = .next σ2 := by rw [step_at c σ1 _ n1 _ hr1 hd1]; exact hx2
  have hmm2 : σ2.mem = σ.mem := by rw [hm2, hm1]
  obtain ⟨σ3, hs3, hr3, hm3, hp3, hg3, hq3⟩ := entry_step_pop c σ2 (L.exitLoc + n1) n2 JitAst.R15 (b + 512) (σ0.get 15)
    (by rw [hr2]; omega) hd2 hp2' (by omega) (by rw [hmm2, hrd 512 (by omega), e15]) (by decide) (by decide)
  have hmm3 : σ3.mem = σ.mem := by rw [hm3, hmm2]
  obtain ⟨σ4, hs4, hr4, hm4, hp4, hg4, hq4⟩ := entry_step_pop c σ3 _ n3 JitAst.R14 (b + 512 + 8) (σ0.get 14)
    hr3 hd3 hp3 (by omega) (by rw [hmm3, show b + 512 + 8 = b + 520 by omega, hrd 520 (by omega), e14]) (by decide) (by decide)
  have hmm4 : σ4.mem = σ.mem := by rw [hm4, hmm3]
  obtain ⟨σ5, hs5, hr5, hm5, hp5, hg5, hq5⟩ := entry_step_pop c σ4 _ n4 JitAst.R13 (b + 512 + 8 + 8) (σ0.get 13)
    hr4 hd4 hp4 (by omega) (by rw [hmm4, show b + 512 + 8 + 8 = b + 528 by omega, hrd 528 (by omega), e13]) (by decide) (by decide)
  have hmm5 : σ5.mem = σ.mem := by rw [hm5, hmm4]
  obtain ⟨σ6, hs6, hr6, hm6, hp6, hg6, hq6⟩ := entry_step_pop c σ5 _ n5 JitAst.RBX (b + 512 + 8 + 8 + 8) (σ0.get 3)
    hr5 hd5 hp5 (by omega) (by rw [hmm5, show b + 512 + 8 + 8 + 8 = b + 536 by omega, hrd 536 (by omega), e3]) (by decide) (by decide)
  have hmm6 : σ6.mem = σ.mem := by rw [hm6, hmm5]
  obtain ⟨σ7, hs7, hr7, hm7, hp7, hg7, hq7⟩ := entry_step_pop c σ6 _ n6 JitAst.RBP (b + 512 + 8 + 8 + 8 + 8) (σ0.get 5)
    hr6 hd6 hp6 (by omega) (by rw [hmm6, show b + 512 + 8 + 8 + 8 + 8 = b + 544 by omega, hrd 544 (by omega), e5]) (by decide) (by decide)
  have hmm7 : σ7.mem = σ.mem := by rw [hm7, hmm6]
  obtain ⟨σ8, hx8, hm8, hp8, hq8⟩ := entry_exec_ret c σ7 (c.codeBase + (L.exitLoc + n1 + n2 + n3 + n4 + n5 + n6) + n7)
    (b + 512 + 8 + 8 + 8 + 8 + 8) hp7 (by omega)
    (by rw [hmm7, show b + 512 + 8 + 8 + 8 + 8 + 8 = b + 552 by omega, hrd 552 (by omega), es])
  have hs8 : step c σ7 = .done (σ7.get 0) σ8 := by rw [step_at c σ7 _ n7 _ hr7 hd7]; exact hx8
  have hst : stepsN c 7 σ = some σ7 :=
    stepsN_succ c 6 _ _ _ hs1 (stepsN_succ c 5 _ _ _ hs2 (stepsN_succ c 4 _ _ _ hs3 (stepsN_succ c 3 _ _ _ hs4
      (stepsN_three c _ _ _ _ hs5 hs6 hs7))))
  have hrax7 : σ7.get 0 = r0 := by
    rw [hq7 0 (by decide) (by decide), hq6 0 (by decide) (by decide), hq5 0 (by decide) (by decide),
      hq4 0 (by decide) (by decide), hq3 0 (by decide) (by decide), hq2 0 (by decide), hq1 0]
    exact hrax
  have l1 := entry_exec_lm c σ σ1 _ _ (by simp) (Or.inl hx1)
  have l2 := entry_exec_lm c σ1 σ2 _ _ (by simp) (Or.inl hx2)
  have l3 := entry_step_lm c σ2 σ3 _ n2 _ (by rw [hr2]; omega) hd2 (by simp) (Or.inl hs3)
  have l4 := entry_step_lm c σ3 σ4 _ n3 _ hr3 hd3 (by simp) (Or.inl hs4)
  have l5 := entry_step_lm c σ4 σ5 _ n4 _ hr4 hd4 (by simp) (Or.inl hs5)
  have l6 := entry_step_lm c σ5 σ6 _ n5 _ hr5 hd5 (by simp) (Or.inl hs6)
  have l7 := entry_step_lm c σ6 σ7 _ n6 _ hr6 hd6 (by simp) (Or.inl hs7)
  have l8 := entry_exec_lm c σ7 σ8 _ _ (by simp) (Or.inr ⟨_, hx8⟩)
  refine ⟨7 + 1, σ8, ?_, by rw [hm8, hmm7], ?_, ?_, ?_, ?_, ?_, ?_, by rw [l8, l7, l6, l5, l4, l3, l2, l1]⟩
  · rw [entry_run_of_stepsN c 7 1 σ σ7 hst]
    simp only [X86.run, hs8, hrax7]
  · rw [hq8 3 (by decide), hq7 3 (by decide) (by decide)]; exact hg6
  · rw [hq8 5 (by decide)]; exact hg7
  · rw [hq8 13 (by decide), hq7 13 (by decide) (by decide), hq6 13 (by decide) (by decide)]; exact hg5
  · rw [hq8 14 (by decide), hq7 14 (by decide) (by decide), hq6 14 (by decide) (by decide), hq5 14 (by decide) (by decide)]
    exact hg4
  · rw [hq8 15 (by decide), hq7 15 (by decide) (by decide), hq6 15 (by decide) (by decide), hq5 15 (by decide) (by decide),
      hq4 15 (by decide) (by decide)]
    exact hg3
  · show (σ8.get 4).toNat = b + 560
    rw [hp8]
end Rbpf.JitSim
