/-
  Whole-program simulation, part 1 (independent of the per-class lemmas): what `JitAst.validate` says about one
  instruction start, facts about the linear sweep, the slot count of an arm, and "only `exit` ends a run".
-/
import RbpfModel.Lemmas.X86Sim.Base
namespace Rbpf.JitSim
open Rbpf.X86 (Cfg St Out Instr step exec decode fetch readMem writeMem)
open Rbpf.JitAst (AI Tgt checkSeq window)

-- the local definitions of `validate`, at top level -----------------------------------------------------------------

def whole_starts (p : Bytes) : List (Nat × Insn) := JitAst.sweep p (p.size / 8 + 1) 0

def whole_locOf (p : Bytes) (L : JitAst.Layout) (k : Nat) : Option Nat :=
  if k * 8 < p.size then L.pcLocs[k]? else some L.exitLoc

def whole_tgt (p : Bytes) (L : JitAst.Layout) : Tgt → Option Nat
  | .exit => some L.exitLoc
  | .pc t => if 0 ≤ t ∧ (whole_starts p).any (fun (k, _) => (k : Int) == t) then L.pcLocs[t.toNat]? else none

theorem whole_validate_eq (p : Bytes) (haddr : Nat → Option Nat) (um ud : Bool) (code : Array UInt8) (L : JitAst.Layout) :
    JitAst.validate p haddr um ud code L =
      (L.pcLocs.all (· ≤ code.size) && decide (L.exitLoc ≤ code.size) &&
       checkSeq code (whole_tgt p L) 0 (JitAst.prologue um ud) == whole_locOf p L 0 &&
       (whole_starts p).all (fun (pc, i) =>
         match JitAst.arm haddr pc i (getInsn? p (pc + 1)), L.pcLocs[pc]? with
         | .ok (ais, n), some a =>
           checkSeq code (whole_tgt p L) a ais == whole_locOf p L (pc + n) && (whole_locOf p L (pc + n)).isSome
         | _, _ => false) &&
       checkSeq code (whole_tgt p L) L.exitLoc JitAst.epilogue == some code.size) := by
  rfl

/-- every recorded location lies inside the buffer -/
theorem whole_validate_locs (p : Bytes) (haddr : Nat → Option Nat) (um ud : Bool) (code : Array UInt8) (L : JitAst.Layout)
    (hv : JitAst.validate p haddr um ud code L = true) :
    (∀ k l : Nat, L.pcLocs[k]? = some l → l ≤ code.size) ∧ L.exitLoc ≤ code.size := by
  rw [whole_validate_eq] at hv
  simp only [Bool.and_eq_true, decide_eq_true_eq] at hv
  obtain ⟨⟨⟨⟨h1, h2⟩, -⟩, -⟩, -⟩ := hv
  refine ⟨?_, h2⟩
  intro k l hk
  rw [Array.all_eq_true] at h1
  obtain ⟨hlt, hget⟩ := Array.getElem?_eq_some_iff.mp hk
  have := h1 k hlt
  rw [hget] at this
  simpa using this

theorem whole_locOf_le (p : Bytes) (haddr : Nat → Option Nat) (um ud : Bool) (code : Array UInt8) (L : JitAst.Layout)
    (hv : JitAst.validate p haddr um ud code L = true) (k b : Nat) (h : whole_locOf p L k = some b) : b ≤ code.size := by
  obtain ⟨h1, h2⟩ := whole_validate_locs p haddr um ud code L hv
  unfold whole_locOf at h
  split at h
  · exact h1 k b h
  · simp only [Option.some.injEq] at h
    omega

/-- what `validate` says about the arm of one instruction start -/
theorem whole_validate_arm (p : Bytes) (haddr : Nat → Option Nat) (um ud : Bool) (code : Array UInt8) (L : JitAst.Layout)
    (hv : JitAst.validate p haddr um ud code L = true) (pc : Nat) (i : Insn) (hm : (pc, i) ∈ whole_starts p) :
    ∃ ais n a b, JitAst.arm haddr pc i (getInsn? p (pc + 1)) = .ok (ais, n) ∧ L.pcLocs[pc]? = some a ∧
      checkSeq code (whole_tgt p L) a ais = some b ∧ whole_locOf p L (pc + n) = some b := by
  rw [whole_validate_eq] at hv
  simp only [Bool.and_eq_true] at hv
  obtain ⟨⟨-, h4⟩, -⟩ := hv
  rw [List.all_eq_true] at h4
  have := h4 (pc, i) hm
  simp only at this
  split at this
  · next ais n a harm hloc =>
    simp only [Bool.and_eq_true, beq_iff_eq] at this
    obtain ⟨hc, hs⟩ := this
    obtain ⟨b, hb⟩ := Option.isSome_iff_exists.mp hs
    exact ⟨ais, n, a, b, harm, hloc, hc.trans hb, hb⟩
  · simp at this

-- the sweep ------------------------------------------------------------------------------------------------------------

theorem whole_sweep_mem (p : Bytes) (fuel pc0 pc : Nat) (i : Insn) (h : (pc, i) ∈ JitAst.sweep p fuel pc0) :
    getInsn? p pc = some i ∧ pc * 8 < p.size := by
  induction fuel generalizing pc0 with
  | zero => simp [JitAst.sweep] at h
  | succ fuel ih =>
    simp only [JitAst.sweep] at h
    split at h
    · next hlt =>
      split at h
      · next i0 hi0 =>
        rcases List.mem_cons.mp h with h | h
        · simp only [Prod.mk.injEq] at h
          obtain ⟨rfl, rfl⟩ := h
          exact ⟨hi0, hlt⟩
        · exact ih _ h
      · simp at h
    · simp at h

theorem whole_starts_mem (p : Bytes) (pc : Nat) (i : Insn) (h : (pc, i) ∈ whole_starts p) :
    getInsn? p pc = some i ∧ pc * 8 < p.size := whole_sweep_mem p _ 0 pc i h

theorem whole_getInsn_some (p : Bytes) (pc : Nat) (j : Insn) (h : getInsn? p pc = some j) : (pc + 1) * 8 ≤ p.size := by
  unfold getInsn? at h
  split at h
  · simp at h
  · omega

/-- the successor of an instruction start is an instruction start, if an instruction can be read there -/
theorem whole_sweep_next (p : Bytes) (fuel pc0 pc : Nat) (i j : Insn) (hf : p.size / 8 + 1 ≤ fuel + pc0)
    (h : (pc, i) ∈ JitAst.sweep p fuel pc0)
    (hj : getInsn? p (pc + (if i.opc = 0x18 then 2 else 1)) = some j) :
    (pc + (if i.opc = 0x18 then 2 else 1), j) ∈ JitAst.sweep p fuel pc0 := by
  have hjs := whole_getInsn_some p _ j hj
  induction fuel generalizing pc0 with
  | zero => simp [JitAst.sweep] at h
  | succ fuel ih =>
    simp only [JitAst.sweep] at h ⊢
    split at h
    · next hlt =>
      rw [if_pos hlt]
      split at h
      · next i0 hi0 =>
        rcases List.mem_cons.mp h with h | h
        · simp only [Prod.mk.injEq] at h
          obtain ⟨rfl, rfl⟩ := h
          apply List.mem_cons_of_mem
          have hd : (if i.opc = 0x18 then 2 else 1) ≤ 2 := by split <;> omega
          obtain ⟨f', rfl⟩ : ∃ f', fuel = f' + 1 := ⟨fuel - 1, by omega⟩
          simp only [JitAst.sweep]
          rw [if_pos (by omega), hj]
          exact List.mem_cons_self
        · apply List.mem_cons_of_mem
          apply ih _ _ h
          have : 1 ≤ (if i0.opc = 0x18 then 2 else 1) := by split <;> omega
          omega
      · simp at h
    · simp at h

theorem whole_starts_next (p : Bytes) (pc : Nat) (i j : Insn) (h : (pc, i) ∈ whole_starts p)
    (hj : getInsn? p (pc + (if i.opc = 0x18 then 2 else 1)) = some j) :
    (pc + (if i.opc = 0x18 then 2 else 1), j) ∈ whole_starts p :=
  whole_sweep_next p _ 0 pc i j (by omega) h hj

-- the arm's slot count; the arm of `exit` ---------------------------------------------------------------------------

theorem whole_arm_shape (haddr : Nat → Option Nat) (pc : Nat) (i : Insn) (nx : Option Insn) (ais : List AI) (n : Nat)
    (h : JitAst.arm haddr pc i nx = .ok (ais, n)) :
    n = (if i.opc.toNat = 0x18 then 2 else 1) ∧ (i.opc.toNat = 0x95 → ais = [.i .ret]) := by
  unfold JitAst.arm at h
  split at h
  · simp at h
  · simp at h
  · next dst src hd hs =>
    simp only [] at h
    split at h
    all_goals try (rename_i heq; rw [heq])
    all_goals try (split at h)
    all_goals try (split at h)
    all_goals try (split at h)
    all_goals try (simp only [Except.ok.injEq, Prod.mk.injEq, reduceCtorEq] at h)
    all_goals try (obtain ⟨h1, rfl⟩ := h; exact ⟨by decide, fun h' => by first | exact absurd h' (by decide) | exact h1.symm⟩)
-- only `exit` ends a run ----------------------------------------------------------------------------------------------
open Rbpf.Interp

def whole_NotDone (o : Outcome) : Prop := ∀ r s, o ≠ .done r s

theorem whole_nd_next (s : State) : whole_NotDone (.next s) := by intro r s' h; cases h
theorem whole_nd_err (e : ErrKind) (s : State) : whole_NotDone (.err e s) := by intro r s' h; cases h
theorem whole_nd_panic : whole_NotDone .panic := by intro r s' h; cases h
theorem whole_nd_fault : whole_NotDone .fault := by intro r s' h; cases h

theorem whole_nd_rd (s : State) (i : Nat) (k : BitVec 64 → Outcome) (h : ∀ v, whole_NotDone (k v)) : whole_NotDone (rd s i k) := by
  unfold rd
  split
  · exact h _
  · exact whole_nd_panic

theorem whole_nd_wr (s : State) (i : Nat) (v : BitVec 64) : whole_NotDone (wr s i v) := by
  unfold wr
  split
  · exact whole_nd_next _
  · exact whole_nd_panic

theorem whole_nd_jumpTo (s : State) (t : Int) : whole_NotDone (jumpTo s t) := by
  unfold jumpTo
  split
  · exact whole_nd_panic
  · exact whole_nd_next _

theorem whole_nd_branch (s : State) (off : BitVec 16) (c : Bool) : whole_NotDone (branch s off c) := by
  unfold branch
  split
  · exact whole_nd_jumpTo _ _
  · exact whole_nd_next _

theorem whole_nd_load (env : Env) (s : State) (addr : BitVec 64) (w dst : Nat) : whole_NotDone (load env s addr w dst) := by
  unfold load
  split
  · split
    · exact whole_nd_wr _ _ _
    · exact whole_nd_fault
  · exact whole_nd_err _ _

theorem whole_nd_store (env : Env) (s : State) (addr : BitVec 64) (w : Nat) (v : BitVec 64) : whole_NotDone (store env s addr w v) := by
  unfold store
  split
  · split
    · exact whole_nd_next _
    · exact whole_nd_fault
  · exact whole_nd_err _ _

theorem whole_nd_xadd (env : Env) (s : State) (addr : BitVec 64) (w : Nat) (v : BitVec 64) : whole_NotDone (xadd env s addr w v) := by
  unfold xadd
  split
  · split
    · split
      · split
        · exact whole_nd_next _
        · exact whole_nd_fault
      · exact whole_nd_fault
    · exact whole_nd_err _ _
  · exact whole_nd_err _ _

theorem whole_nd_xaddAny (env : Env) (s : State) (addr : BitVec 64) (w : Nat) (v : BitVec 64) :
    whole_NotDone (EngineSem.xaddAnyAlign env s addr w v) := by
  unfold EngineSem.xaddAnyAlign
  split
  · split
    · split
      · exact whole_nd_next _
      · exact whole_nd_fault
    · exact whole_nd_fault
  · exact whole_nd_err _ _

theorem whole_nd_pktAbs (s : State) (imm : BitVec 32) (k : BitVec 64 → Outcome) (h : ∀ v, whole_NotDone (k v)) :
    whole_NotDone (pktAbs s imm k) := by
  unfold pktAbs
  split
  · exact whole_nd_panic
  · exact h _

theorem whole_nd_callHelper (env : Env) (s : State) (imm : BitVec 32) : whole_NotDone (callHelper env s imm) := by
  unfold callHelper
  split
  · repeat (apply whole_nd_rd; intro _)
    exact whole_nd_wr _ _ _
  · exact whole_nd_err _ _

theorem whole_nd_callLocal (s : State) (imm : BitVec 32) : whole_NotDone (callLocal s imm) := by
  unfold callLocal
  split
  · exact whole_nd_err _ _
  · repeat (apply whole_nd_rd; intro _)
    simp only []
    split
    · exact whole_nd_panic
    · exact whole_nd_jumpTo _ _

theorem whole_nd_jitCallLocal (s : State) (imm : BitVec 32) : whole_NotDone (EngineSem.jitCallLocal s imm) := by
  unfold EngineSem.jitCallLocal
  repeat (apply whole_nd_rd; intro _)
  exact whole_nd_jumpTo _ _

theorem whole_nd_ite (c : Prop) [Decidable c] (a b : Outcome) (ha : whole_NotDone a) (hb : whole_NotDone b) :
    whole_NotDone (if c then a else b) := by
  split <;> assumption

theorem whole_nd_elim (o : Outcome) (r0 : BitVec 64) (s' : State) (h : whole_NotDone o) : o = .done r0 s' → False := h r0 s'

attribute [local irreducible] rd wr branch load store xadd pktAbs callHelper callLocal jumpTo whole_NotDone in
theorem whole_exec_done (env : Env) (s : State) (insn : Insn) (r0 : BitVec 64) (s' : State)
    (h : Interp.exec env s insn = .done r0 s') : insn.opc.toNat = 0x95 := by
  unfold Interp.exec at h
  simp only [] at h
  split at h
  all_goals first
    | assumption
    | (exfalso
       revert h
       apply whole_nd_elim
       repeat' first
         | exact whole_nd_wr _ _ _
         | exact whole_nd_next _
         | exact whole_nd_panic
         | exact whole_nd_err _ _
         | exact whole_nd_branch _ _ _
         | exact whole_nd_load _ _ _ _ _
         | exact whole_nd_store _ _ _ _ _
         | exact whole_nd_xadd _ _ _ _ _
         | exact whole_nd_callHelper _ _ _
         | exact whole_nd_callLocal _ _
         | (apply whole_nd_rd; intro _)
         | (apply whole_nd_pktAbs; intro _)
         | apply whole_nd_ite
         | split)


theorem whole_nd_cmpImm (s : State) (insn : Insn) (o : Outcome) (h : EngineSem.cmpImmSigned s insn = some o) : whole_NotDone o := by
  unfold EngineSem.cmpImmSigned at h
  simp only [] at h
  split at h
  all_goals first
    | (simp only [Option.some.injEq] at h; subst h; apply whole_nd_rd; intro _; exact whole_nd_branch _ _ _)
    | simp at h

theorem whole_nd_xaddInsn (env : Env) (s : State) (insn : Insn) (o : Outcome) (h : EngineSem.xaddInsn env s insn = some o) :
    whole_NotDone o := by
  unfold EngineSem.xaddInsn at h
  simp only [] at h
  split at h
  all_goals first
    | (simp only [Option.some.injEq] at h; subst h; apply whole_nd_rd; intro _; apply whole_nd_rd; intro _; exact whole_nd_xaddAny _ _ _ _ _)
    | simp at h

theorem whole_opc_eq (o : BitVec 8) (n : Nat) (hn : n < 256) : o = BitVec.ofNat 8 n ↔ o.toNat = n := by
  constructor
  · intro h; subst h; simp; omega
  · intro h; apply BitVec.eq_of_toNat_eq; simp; omega

theorem whole_jitExec_done (env : Env) (s : State) (insn : Insn) (r0 : BitVec 64) (s' : State)
    (h : EngineSem.jitExec env s insn = .done r0 s') : insn.opc.toNat = 0x95 := by
  unfold EngineSem.jitExec at h
  split at h
  · next o ho => exact (whole_nd_cmpImm s insn o ho r0 s' h).elim
  · split at h
    · next o ho => exact (whole_nd_xaddInsn env s insn o ho r0 s' h).elim
    · split at h
      · exact (whole_nd_jitCallLocal s insn.imm r0 s' h).elim
      · split at h
        · next h95 => exact (whole_opc_eq insn.opc 0x95 (by decide)).mp h95
        · exact whole_exec_done env s insn r0 s' h

theorem whole_jitExec_exit (env : Env) (s : State) (insn : Insn) (h95 : insn.opc.toNat = 0x95) (hf : s.frames = []) :
    EngineSem.jitExec env s insn = .done (s.reg.getD 0 0) s := by
  have h1 : EngineSem.cmpImmSigned s insn = none := by
    unfold EngineSem.cmpImmSigned
    simp only [h95]
  have h2 : EngineSem.xaddInsn env s insn = none := by
    unfold EngineSem.xaddInsn
    simp only [h95]
  have h3 : insn.opc = 0x95 := (whole_opc_eq insn.opc 0x95 (by decide)).mpr h95
  have h4 : ¬ (insn.opc = 0x85 ∧ insn.src = 1) := by
    intro hh
    have := (whole_opc_eq insn.opc 0x85 (by decide)).mp hh.1
    omega
  unfold EngineSem.jitExec
  rw [h1]
  simp only []
  rw [h2]
  simp only []
  rw [if_neg h4, if_pos h3]
  unfold EngineSem.jitExit
  rw [hf]
  simp [rd, Vector.getD]

-- the machine side of the top-level `exit` ----------------------------------------------------------------------------

theorem whole_leValue_leBytes (v w : Nat) : leValue (leBytes v w) = v % 256 ^ w := by
  induction w generalizing v with
  | zero => simp [leBytes, leValue, Nat.mod_one]
  | succ w ih =>
    simp only [leBytes, leValue, ih, BitVec.toNat_ofNat]
    show v % 256 + 256 * (v / 256 % 256 ^ w) = v % 256 ^ (w + 1)
    rw [Nat.pow_succ 256 w, Nat.mul_comm (256 ^ w) 256, Nat.mod_mul]

theorem whole_stack_base_lt (xm : List Region) (m : Memory) (h : MemRel xm m) : m.stack.base + 568 < 2 ^ 64 := by
  obtain ⟨frame, lower, hxm, hb, -, hsz, -, -, -, -, hlt⟩ := h
  have := hlt frame (by rw [hxm]; exact List.mem_cons_self)
  omega

theorem whole_exit_machine (c : Cfg) (tgt : Tgt → Option Nat) (retAddr : Nat) (σ : St) (s : State) (a b : Nat)
    (hchk : checkSeq c.code tgt a [.i .ret] = some b) (hrip : σ.rip = c.codeBase + a)
    (hrel : Rel0 retAddr σ s) (hf : s.frames = []) (hret : BitVec.ofNat 64 retAddr ≠ c.retSentinel) (hretlt : retAddr < 2 ^ 64) :
    ∃ σ', stepsN c 1 σ = some σ' ∧ σ'.rip = retAddr ∧ σ'.get 0 = s.reg.getD 0 0 ∧ σ'.mem = σ.mem ∧
      (σ'.get X86.RSP).toNat = s.mem.stack.base ∧ σ'.log = σ.log ∧ σ'.misaligned = σ.misaligned := by
  obtain ⟨n, hdec, -⟩ := checkSeq_i c.code tgt a b .ret [] hchk
  have hbase := whole_stack_base_lt σ.mem s.mem hrel.mem
  have hrsp : (σ.get X86.RSP).toNat + 8 = s.mem.stack.base := by
    have := hrel.rsp
    rw [hf] at this
    simpa using this
  have hr := hrel.ret
  have h0 : σ.get 0 = s.reg.getD 0 0 := by
    have := hrel.regs 0 (by omega)
    rwa [regOf_vals.1] at this
  have hv : leValue (leBytes retAddr 8) = retAddr := by
    rw [whole_leValue_leBytes]
    exact Nat.mod_eq_of_lt (by simpa using hretlt)
  refine ⟨{ ({ σ with rip := c.codeBase + a + n } : St).set X86.RSP (σ.get X86.RSP + 8) with rip := retAddr }, ?_, rfl, ?_, rfl, ?_, rfl, rfl⟩
  · apply stepsN_one_at c σ _ a n .ret hrip hdec
    unfold X86.exec
    simp only [X86.pop]
    have e1 : ({ σ with rip := c.codeBase + a + n } : St).get X86.RSP = σ.get X86.RSP := rfl
    rw [e1, hr]
    simp only [hv]
    rw [if_neg hret]
    simp only [BitVec.toNat_ofNat]
    rw [Nat.mod_eq_of_lt hretlt]
  · show (({ σ with rip := c.codeBase + a + n } : St).set X86.RSP (σ.get X86.RSP + 8)).get 0 = _
    rw [get_set_ne _ _ _ _ (by decide)]
    exact h0
  · show ((({ σ with rip := c.codeBase + a + n } : St).set X86.RSP (σ.get X86.RSP + 8)).get X86.RSP).toNat = _
    rw [get_set_eq _ _ _ (by decide)]
    have e1 : ({ σ with rip := c.codeBase + a + n } : St).get X86.RSP = σ.get X86.RSP := rfl
    rw [BitVec.toNat_add]
    have e8 : BitVec.toNat (8 : BitVec 64) = 8 := by decide
    rw [e8]
    omega

end Rbpf.JitSim
