/-
  x86-64 simulation, opcode class `jumpOpcodes`: the instruction sequence the JIT emits for each of these eBPF
  instructions, run by the x86-64 machine model, computes what `EngineSem.jitExec` says (statement: `JitSim.ArmSim`).
-/
import RbpfModel.Lemmas.X86Sim.Base
namespace Rbpf.JitSim
open Rbpf.X86 (Cfg St Out Instr step exec decode fetch readMem writeMem)
open Rbpf.JitAst (AI Tgt checkSeq window)

theorem armSim_jump (i : Insn) (h : i.opc.toNat ∈ jumpOpcodes) : ArmSim i := by
  sorry

end Rbpf.JitSim
