/-
  x86-64 simulation, opcode class `jumpOpcodes`: the instruction sequence the JIT emits for each of these eBPF
  instructions, run by the x86-64 machine model, computes what `EngineSem.jitExec` says (statement: `JitSim.ArmSim`).

  Layout: `jmp_branch_next` (the eBPF side of a branch that continues), `jmp_cond_core` / `jmp_ja_core` (the machine
  side: `cmp`/`test` then `jcc`, resp. one `jmp`, from the checker's facts), the four `exec` equations of `cmp`/`test`,
  then one theorem per opcode produced by the same tactic (`jmp_op`), which selects the flags lemma of
  `JumpFlags.lean` by rewriting.
-/
import RbpfModel.Lemmas.X86Sim.JumpFlags
namespace Rbpf.JitSim
open Rbpf.X86 (Cfg St Out Instr step exec decode fetch readMem writeMem Cc flagsSub flagsLogic msb trunc)
open Rbpf.JitAst (AI Tgt checkSeq window)

/-- the eBPF side of a branch that continues: either not taken (`s' = s`) or taken to a non-negative target -/
theorem jmp_branch_next (s s' : State) (off : BitVec 16) (cond : Bool) (pc : Nat) (hpc : s.pc = pc + 1)
    (h : Interp.branch s off cond = .next s') :
    (cond = false ∧ s' = s) ∨ (cond = true ∧ s' = { s with pc := s'.pc } ∧ (s'.pc : Int) = (pc : Int) + off.toInt + 1) := by
  unfold Interp.branch Interp.jumpTo at h
  cases cond with
  | false => simp at h; exact Or.inl ⟨rfl, h.symm⟩
  | true =>
    simp only [if_true] at h
    split at h
    · cases h
    · rename_i hn
      injection h with h
      subst h
      refine Or.inr ⟨rfl, rfl, ?_⟩
      simp only [hpc] at hn ⊢
      omega

theorem jmp_cond_core (c : Cfg) (tgt : Tgt → Option Nat) (pc a b retAddr : Nat) (σ : St) (s s' : State)
    (x : Instr) (cc : Cc) (off : BitVec 16) (f : X86.Flags) (cond : Bool)
    (hchk : checkSeq c.code tgt a [.i x, .jcc cc (.pc ((pc : Int) + off.toInt + 1))] = some b)
    (hb : c.codeBase + b < 2 ^ 63) (hrip : σ.rip = c.codeBase + a)
    (hrel : Rel0 retAddr σ s) (hpc : s.pc = pc + 1)
    (hx : ∀ next, exec c σ x next = .next { σ with rip := next, flags := some f })
    (hcc : cc.holds f = cond)
    (hex : Interp.branch s off cond = .next s') :
    ∃ k σ', stepsN c k σ = some σ' ∧ Rel0 retAddr σ' s' ∧ topBytes σ' s' = topBytes σ s ∧
      σ'.log = σ.log ∧ σ'.misaligned = σ.misaligned ∧ s'.log = s.log ∧
      s'.frames = s.frames ∧ CallersKept σ σ' s ∧
      ((s'.pc = pc + 1 ∧ σ'.rip = c.codeBase + b) ∨
       (∃ l, tgt (.pc (s'.pc : Int)) = some l ∧ σ'.rip = c.codeBase + l)) := by
  obtain ⟨n1, hd1, hchk2⟩ := checkSeq_i _ _ _ _ _ _ hchk
  obtain ⟨n2, rel, l, hd2, htgt, hland, hchk3⟩ := checkSeq_jcc _ _ _ _ _ _ _ hchk2
  rw [checkSeq_nil] at hchk3
  have hbe : a + n1 + n2 = b := by injection hchk3
  have hs1 := step_at c σ a n1 x hrip hd1
  rw [hx] at hs1
  have hs2 := step_at c { σ with rip := c.codeBase + a + n1, flags := some f } (a + n1) n2 (.jcc cc rel)
    (by simp only [Nat.add_assoc]) hd2
  have hsteps : ∀ σ2, exec c { σ with rip := c.codeBase + a + n1, flags := some f } (.jcc cc rel) (c.codeBase + (a + n1) + n2) = .next σ2 →
      stepsN c 2 σ = some σ2 := by
    intro σ2 h2
    rw [h2] at hs2
    exact stepsN_add c 1 1 σ _ σ2 (stepsN_one c _ _ hs1) (stepsN_one c _ _ hs2)
  rcases jmp_branch_next s s' off cond pc hpc hex with ⟨hc, hs'⟩ | ⟨hc, hs', hpc'⟩
  · subst hs'
    refine ⟨2, { σ with rip := c.codeBase + (a + n1) + n2, flags := some f }, hsteps _ ?_, rel0_congr _ _ _ _ hrel rfl rfl, rfl, rfl, rfl, rfl, rfl, callersKept_of_mem _ _ _ rfl, Or.inl ⟨hpc, ?_⟩⟩
    · simp only [exec, hcc, hc]; rfl
    · simp only [← hbe, Nat.add_assoc]
  · refine ⟨2, { σ with rip := X86.relTarget (c.codeBase + (a + n1) + n2) rel, flags := some f }, hsteps _ ?_, ?_, ?_, rfl, rfl, ?_, ?_, callersKept_of_mem _ _ _ rfl, Or.inr ⟨l, ?_, ?_⟩⟩
    · simp only [exec, hcc, hc]; rfl
    · rw [hs']; exact rel0_pc _ _ _ _ (rel0_congr _ _ _ _ hrel rfl rfl)
    · rw [hs']; rfl
    · rw [hs']
    · rw [hs']
    · rw [hpc']; exact htgt
    · show X86.relTarget (c.codeBase + (a + n1) + n2) rel = c.codeBase + l
      rw [Nat.add_assoc c.codeBase]
      exact relTarget_lands _ _ _ _ hland (by rw [hbe]; exact hb)


theorem jmp_exec_cmpRR (c : Cfg) (σ : St) (w : Bool) (src dst next : Nat) :
    exec c σ (.aluRR w .cmp src dst) next = .next { σ with rip := next, flags := some (
      flagsSub (if w then 64 else 32) (trunc (if w then 64 else 32) (σ.get dst)) (trunc (if w then 64 else 32) (σ.get src))) } := rfl

theorem jmp_exec_cmpRI (c : Cfg) (σ : St) (w : Bool) (dst next : Nat) (imm : BitVec 32) :
    exec c σ (.aluRI w .cmp dst imm) next = .next { σ with rip := next, flags := some (
      flagsSub (if w then 64 else 32) (trunc (if w then 64 else 32) (σ.get dst)) (if w then (imm.signExtend 64).toNat else imm.toNat)) } := rfl

theorem jmp_exec_testRR (c : Cfg) (σ : St) (w : Bool) (src dst next : Nat) :
    exec c σ (.aluRR w .test src dst) next = .next { σ with rip := next, flags := some (
      flagsLogic (if w then 64 else 32) (trunc (if w then 64 else 32) (σ.get dst) &&& trunc (if w then 64 else 32) (σ.get src))) } := rfl

theorem jmp_exec_testRI (c : Cfg) (σ : St) (w : Bool) (dst next : Nat) (imm : BitVec 32) :
    exec c σ (.aluRI w .test dst imm) next = .next { σ with rip := next, flags := some (
      flagsLogic (if w then 64 else 32) (trunc (if w then 64 else 32) (σ.get dst) &&& (if w then (imm.signExtend 64).toNat else imm.toNat))) } := rfl

theorem jmp_trunc64 (v : BitVec 64) : trunc 64 v = v.toNat := by
  unfold trunc; exact Nat.mod_eq_of_lt v.isLt

theorem jmp_trunc32 (v : BitVec 64) : trunc 32 v = (Interp.lo32 v).toNat := by
  unfold trunc Interp.lo32; simp

theorem jmp_rd (s : State) (k : Nat) (hk : k < 11) (f : BitVec 64 → Outcome) : Interp.rd s k f = f (s.reg.getD k 0) := by
  unfold Interp.rd
  simp [Vector.getD, hk]

theorem jmp_arm_regs (haddr : Nat → Option Nat) (pc : Nat) (i : Insn) (nx : Option Insn) (r : List AI × Nat)
    (h : JitAst.arm haddr pc i nx = .ok r) : i.dst.toNat < 11 ∧ i.src.toNat < 11 := by
  refine ⟨?_, ?_⟩
  · by_cases hd : i.dst.toNat < 11
    · exact hd
    · unfold JitAst.arm at h
      rw [mapRegister_none _ (by omega)] at h
      cases h
  · by_cases hd : i.src.toNat < 11
    · exact hd
    · unfold JitAst.arm at h
      rw [mapRegister_none i.src.toNat (by omega)] at h
      split at h <;> first | cases h | simp_all


local macro "jmp_cc" : tactic => `(tactic| (
  simp only [↓reduceIte, Bool.false_eq_true, jmp_trunc64, jmp_trunc32, Interp.sx32,
    jmp_sub64_e, jmp_sub64_ne, jmp_sub64_a, jmp_sub64_ae, jmp_sub64_b, jmp_sub64_be, jmp_sub64_g, jmp_sub64_ge, jmp_sub64_l, jmp_sub64_le,
    jmp_sub32_e, jmp_sub32_ne, jmp_sub32_a, jmp_sub32_ae, jmp_sub32_b, jmp_sub32_be, jmp_sub32_g, jmp_sub32_ge, jmp_sub32_l, jmp_sub32_le,
    jmp_test64, jmp_test32]))


/-- outside the six sign-extending compare-with-immediate opcodes the generated code does what the interpreter does -/
theorem jmp_jitExec_interp (env : Env) (s : State) (i : Insn)
    (h : i.opc.toNat ∈ [0x05, 0x1d, 0x2d, 0x3d, 0xad, 0xbd, 0x45, 0x4d, 0x5d, 0x65, 0x6d, 0x75, 0x7d, 0xc5, 0xcd, 0xd5, 0xdd,
      0x16, 0x1e, 0x26, 0x2e, 0x36, 0x3e, 0xa6, 0xae, 0xb6, 0xbe, 0x46, 0x4e, 0x56, 0x5e, 0x66, 0x6e, 0x76, 0x7e, 0xc6, 0xce, 0xd6, 0xde]) :
    EngineSem.jitExec env s i = Interp.exec env s i := by
  have h85 : i.opc ≠ 0x85 := by intro h'; rw [h'] at h; revert h; decide
  have h95 : i.opc ≠ 0x95 := by intro h'; rw [h'] at h; revert h; decide
  unfold EngineSem.jitExec EngineSem.cmpImmSigned EngineSem.xaddInsn
  simp only [List.mem_cons, List.mem_nil_iff, or_false] at h
  rcases h with h | h | h | h | h | h | h | h | h | h | h | h | h | h | h | h | h | h | h | h | h | h | h | h | h | h | h | h | h | h | h | h | h | h | h | h | h | h | h <;>
    simp only [h, h85, h95, false_and, if_false]

theorem jmp_ja_core (c : Cfg) (tgt : Tgt → Option Nat) (pc a b retAddr : Nat) (σ : St) (s s' : State) (off : BitVec 16)
    (hchk : checkSeq c.code tgt a [.jmp (.pc ((pc : Int) + off.toInt + 1))] = some b)
    (hb : c.codeBase + b < 2 ^ 63) (hrip : σ.rip = c.codeBase + a)
    (hrel : Rel0 retAddr σ s) (hpc : s.pc = pc + 1)
    (hex : Interp.branch s off true = .next s') :
    ∃ k σ', stepsN c k σ = some σ' ∧ Rel0 retAddr σ' s' ∧ topBytes σ' s' = topBytes σ s ∧
      σ'.log = σ.log ∧ σ'.misaligned = σ.misaligned ∧ s'.log = s.log ∧
      s'.frames = s.frames ∧ CallersKept σ σ' s ∧
      ((s'.pc = pc + 1 ∧ σ'.rip = c.codeBase + b) ∨
       (∃ l, tgt (.pc (s'.pc : Int)) = some l ∧ σ'.rip = c.codeBase + l)) := by
  obtain ⟨n1, rel, l, hd1, htgt, hland, hchk2⟩ := checkSeq_jmp _ _ _ _ _ _ hchk
  rw [checkSeq_nil] at hchk2
  have hbe : a + n1 = b := by injection hchk2
  have hs1 := step_at c σ a n1 (.jmp rel) hrip hd1
  rcases jmp_branch_next s s' off true pc hpc hex with ⟨hc, _⟩ | ⟨_, hs', hpc'⟩
  · cases hc
  · refine ⟨1, { σ with rip := X86.relTarget (c.codeBase + a + n1) rel }, stepsN_one c _ _ (by rw [hs1]; rfl), ?_, ?_, rfl, rfl, ?_, ?_, callersKept_of_mem _ _ _ rfl, Or.inr ⟨l, ?_, ?_⟩⟩
    · rw [hs']; exact rel0_pc _ _ _ _ (rel0_congr _ _ _ _ hrel rfl rfl)
    · rw [hs']; rfl
    · rw [hs']
    · rw [hs']
    · rw [hpc']; exact htgt
    · show X86.relTarget (c.codeBase + a + n1) rel = c.codeBase + l
      rw [Nat.add_assoc c.codeBase]
      exact relTarget_lands _ _ _ _ hland (by rw [hbe]; exact hb)

attribute [local irreducible] Interp.rd Interp.branch

set_option hygiene false in
local macro "jmp_op" : tactic => `(tactic| (
  intro c tgt haddr pc n a b retAddr ais σ env s s' harm hchk hb hrip hrel hpc hex
  obtain ⟨hd, hs⟩ := jmp_arm_regs _ _ _ _ _ harm
  unfold JitAst.arm at harm
  rw [mapRegister_eq _ hd, mapRegister_eq _ hs, h] at harm
  conv at harm => lhs; whnf
  injection harm with harm
  injection harm with hais hn
  subst hais; subst hn
  first
  | (rw [jmp_jitExec_interp env s i (by rw [h]; decide)] at hex
     unfold Interp.exec at hex
     rw [h] at hex
     conv at hex => lhs; whnf)
  | (unfold EngineSem.jitExec EngineSem.cmpImmSigned at hex
     simp only [h] at hex)
  simp only [jmp_rd _ _ hd, jmp_rd _ _ hs, ← hrel.regs _ hd, ← hrel.regs _ hs] at hex
  first
  | exact jmp_cond_core c tgt pc a b retAddr σ s s' (.aluRR _ .cmp _ _) _ _ _ _ hchk hb hrip hrel hpc (fun _ => jmp_exec_cmpRR _ _ _ _ _ _) (by jmp_cc) hex
  | exact jmp_cond_core c tgt pc a b retAddr σ s s' (.aluRI _ .cmp _ _) _ _ _ _ hchk hb hrip hrel hpc (fun _ => jmp_exec_cmpRI _ _ _ _ _ _) (by jmp_cc) hex
  | exact jmp_cond_core c tgt pc a b retAddr σ s s' (.aluRR _ .test _ _) _ _ _ _ hchk hb hrip hrel hpc (fun _ => jmp_exec_testRR _ _ _ _ _ _) (by jmp_cc) hex
  | exact jmp_cond_core c tgt pc a b retAddr σ s s' (.aluRI _ .test _ _) _ _ _ _ hchk hb hrip hrel hpc (fun _ => jmp_exec_testRI _ _ _ _ _ _) (by jmp_cc) hex))

theorem jmp_op_05 (i : Insn) (h : i.opc.toNat = 0x05) : ArmSim i := by
  intro c tgt haddr pc n a b retAddr ais σ env s s' harm hchk hb hrip hrel hpc hex
  obtain ⟨hd, hs⟩ := jmp_arm_regs _ _ _ _ _ harm
  unfold JitAst.arm at harm
  rw [mapRegister_eq _ hd, mapRegister_eq _ hs, h] at harm
  conv at harm => lhs; whnf
  injection harm with harm
  injection harm with hais hn
  subst hais; subst hn
  rw [jmp_jitExec_interp env s i (by rw [h]; decide)] at hex
  unfold Interp.exec at hex
  rw [h] at hex
  conv at hex => lhs; whnf
  exact jmp_ja_core c tgt pc a b retAddr σ s s' _ hchk hb hrip hrel hpc hex

theorem jmp_op_15 (i : Insn) (h : i.opc.toNat = 0x15) : ArmSim i := by jmp_op
theorem jmp_op_1d (i : Insn) (h : i.opc.toNat = 0x1d) : ArmSim i := by jmp_op
theorem jmp_op_25 (i : Insn) (h : i.opc.toNat = 0x25) : ArmSim i := by jmp_op
theorem jmp_op_2d (i : Insn) (h : i.opc.toNat = 0x2d) : ArmSim i := by jmp_op
theorem jmp_op_35 (i : Insn) (h : i.opc.toNat = 0x35) : ArmSim i := by jmp_op
theorem jmp_op_3d (i : Insn) (h : i.opc.toNat = 0x3d) : ArmSim i := by jmp_op
theorem jmp_op_a5 (i : Insn) (h : i.opc.toNat = 0xa5) : ArmSim i := by jmp_op
theorem jmp_op_ad (i : Insn) (h : i.opc.toNat = 0xad) : ArmSim i := by jmp_op
theorem jmp_op_b5 (i : Insn) (h : i.opc.toNat = 0xb5) : ArmSim i := by jmp_op
theorem jmp_op_bd (i : Insn) (h : i.opc.toNat = 0xbd) : ArmSim i := by jmp_op
theorem jmp_op_45 (i : Insn) (h : i.opc.toNat = 0x45) : ArmSim i := by jmp_op
theorem jmp_op_4d (i : Insn) (h : i.opc.toNat = 0x4d) : ArmSim i := by jmp_op
theorem jmp_op_55 (i : Insn) (h : i.opc.toNat = 0x55) : ArmSim i := by jmp_op
theorem jmp_op_5d (i : Insn) (h : i.opc.toNat = 0x5d) : ArmSim i := by jmp_op
theorem jmp_op_65 (i : Insn) (h : i.opc.toNat = 0x65) : ArmSim i := by jmp_op
theorem jmp_op_6d (i : Insn) (h : i.opc.toNat = 0x6d) : ArmSim i := by jmp_op
theorem jmp_op_75 (i : Insn) (h : i.opc.toNat = 0x75) : ArmSim i := by jmp_op
theorem jmp_op_7d (i : Insn) (h : i.opc.toNat = 0x7d) : ArmSim i := by jmp_op
theorem jmp_op_c5 (i : Insn) (h : i.opc.toNat = 0xc5) : ArmSim i := by jmp_op
theorem jmp_op_cd (i : Insn) (h : i.opc.toNat = 0xcd) : ArmSim i := by jmp_op
theorem jmp_op_d5 (i : Insn) (h : i.opc.toNat = 0xd5) : ArmSim i := by jmp_op
theorem jmp_op_dd (i : Insn) (h : i.opc.toNat = 0xdd) : ArmSim i := by jmp_op
theorem jmp_op_16 (i : Insn) (h : i.opc.toNat = 0x16) : ArmSim i := by jmp_op
theorem jmp_op_1e (i : Insn) (h : i.opc.toNat = 0x1e) : ArmSim i := by jmp_op
theorem jmp_op_26 (i : Insn) (h : i.opc.toNat = 0x26) : ArmSim i := by jmp_op
theorem jmp_op_2e (i : Insn) (h : i.opc.toNat = 0x2e) : ArmSim i := by jmp_op
theorem jmp_op_36 (i : Insn) (h : i.opc.toNat = 0x36) : ArmSim i := by jmp_op
theorem jmp_op_3e (i : Insn) (h : i.opc.toNat = 0x3e) : ArmSim i := by jmp_op
theorem jmp_op_a6 (i : Insn) (h : i.opc.toNat = 0xa6) : ArmSim i := by jmp_op
theorem jmp_op_ae (i : Insn) (h : i.opc.toNat = 0xae) : ArmSim i := by jmp_op
theorem jmp_op_b6 (i : Insn) (h : i.opc.toNat = 0xb6) : ArmSim i := by jmp_op
theorem jmp_op_be (i : Insn) (h : i.opc.toNat = 0xbe) : ArmSim i := by jmp_op
theorem jmp_op_46 (i : Insn) (h : i.opc.toNat = 0x46) : ArmSim i := by jmp_op
theorem jmp_op_4e (i : Insn) (h : i.opc.toNat = 0x4e) : ArmSim i := by jmp_op
theorem jmp_op_56 (i : Insn) (h : i.opc.toNat = 0x56) : ArmSim i := by jmp_op
theorem jmp_op_5e (i : Insn) (h : i.opc.toNat = 0x5e) : ArmSim i := by jmp_op
theorem jmp_op_66 (i : Insn) (h : i.opc.toNat = 0x66) : ArmSim i := by jmp_op
theorem jmp_op_6e (i : Insn) (h : i.opc.toNat = 0x6e) : ArmSim i := by jmp_op
theorem jmp_op_76 (i : Insn) (h : i.opc.toNat = 0x76) : ArmSim i := by jmp_op
theorem jmp_op_7e (i : Insn) (h : i.opc.toNat = 0x7e) : ArmSim i := by jmp_op
theorem jmp_op_c6 (i : Insn) (h : i.opc.toNat = 0xc6) : ArmSim i := by jmp_op
theorem jmp_op_ce (i : Insn) (h : i.opc.toNat = 0xce) : ArmSim i := by jmp_op
theorem jmp_op_d6 (i : Insn) (h : i.opc.toNat = 0xd6) : ArmSim i := by jmp_op
theorem jmp_op_de (i : Insn) (h : i.opc.toNat = 0xde) : ArmSim i := by jmp_op

theorem armSim_jump (i : Insn) (h : i.opc.toNat ∈ jumpOpcodes) : ArmSim i := by
  simp only [jumpOpcodes, List.mem_cons, List.mem_nil_iff, or_false] at h
  rcases h with h | h | h | h | h | h | h | h | h | h | h | h | h | h | h | h | h | h | h | h | h | h | h | h | h | h | h | h | h | h | h | h | h | h | h | h | h | h | h | h | h | h | h | h | h
  · exact jmp_op_05 i h
  · exact jmp_op_15 i h
  · exact jmp_op_1d i h
  · exact jmp_op_25 i h
  · exact jmp_op_2d i h
  · exact jmp_op_35 i h
  · exact jmp_op_3d i h
  · exact jmp_op_a5 i h
  · exact jmp_op_ad i h
  · exact jmp_op_b5 i h
  · exact jmp_op_bd i h
  · exact jmp_op_45 i h
  · exact jmp_op_4d i h
  · exact jmp_op_55 i h
  · exact jmp_op_5d i h
  · exact jmp_op_65 i h
  · exact jmp_op_6d i h
  · exact jmp_op_75 i h
  · exact jmp_op_7d i h
  · exact jmp_op_c5 i h
  · exact jmp_op_cd i h
  · exact jmp_op_d5 i h
  · exact jmp_op_dd i h
  · exact jmp_op_16 i h
  · exact jmp_op_1e i h
  · exact jmp_op_26 i h
  · exact jmp_op_2e i h
  · exact jmp_op_36 i h
  · exact jmp_op_3e i h
  · exact jmp_op_a6 i h
  · exact jmp_op_ae i h
  · exact jmp_op_b6 i h
  · exact jmp_op_be i h
  · exact jmp_op_46 i h
  · exact jmp_op_4e i h
  · exact jmp_op_56 i h
  · exact jmp_op_5e i h
  · exact jmp_op_66 i h
  · exact jmp_op_6e i h
  · exact jmp_op_76 i h
  · exact jmp_op_7e i h
  · exact jmp_op_c6 i h
  · exact jmp_op_ce i h
  · exact jmp_op_d6 i h
  · exact jmp_op_de i h

end Rbpf.JitSim
